(** Proofs about the incoming streams map: concurrency bound, credit, MAX_STREAMS
    monotonicity, accept order. *)
From Coq Require Import List ZArith Bool Lia.
From Coq Require Import ZifyBool.
From V Require Import Gen.Params StreamsMap.Model.
Import ListNotations.
Open Scope Z_scope.
Local Ltac Zify.zify_post_hook ::= Z.div_mod_to_equations.

(** * Sorted association lists *)

Definition keys (l : list (Z * bool)) : list Z := map fst l.

Fixpoint ksorted (l : list (Z * bool)) : Prop :=
  match l with
  | [] => True
  | (k, _) :: r => (forall k', In k' (keys r) -> k < k') /\ ksorted r
  end.

Lemma zlen_cons : forall A (x : A) l, zlen (x :: l) = zlen l + 1.
Proof. intros. unfold zlen. cbn [length]. lia. Qed.
Lemma zlen_nil : forall A, zlen (@nil A) = 0.
Proof. reflexivity. Qed.
Lemma zlen_app : forall A (a b : list A), zlen (a ++ b) = zlen a + zlen b.
Proof. intros. unfold zlen. rewrite app_length. lia. Qed.
Lemma zlen_nonneg : forall A (l : list A), 0 <= zlen l.
Proof. intros. unfold zlen. lia. Qed.

Lemma lookup_none_keys : forall id l, lookup id l = None <-> ~ In id (keys l).
Proof.
  induction l as [|[k v] r IH]; cbn; [tauto|].
  destruct (Z.eqb_spec id k) as [E|E].
  - subst. split; [discriminate | intros H; exfalso; apply H; auto].
  - rewrite IH. split; intros H; [intros [F|F]; [congruence|auto] | auto].
Qed.

Lemma lookup_some_keys : forall id l v, lookup id l = Some v -> In id (keys l).
Proof.
  intros id l v H. destruct (in_dec Z.eq_dec id (keys l)) as [i|n]; auto.
  apply lookup_none_keys in n. congruence.
Qed.

Lemma lookup_put : forall k id x l, lookup k (put id x l) = if k =? id then Some x else lookup k l.
Proof.
  induction l as [|[k0 x0] r IH]; cbn.
  - destruct (k =? id); reflexivity.
  - destruct (Z.ltb_spec id k0).
    + cbn. destruct (Z.eqb_spec k id); reflexivity.
    + destruct (Z.eqb_spec id k0).
      * subst. cbn. destruct (Z.eqb_spec k k0); reflexivity.
      * cbn. destruct (Z.eqb_spec k k0).
        -- subst. destruct (Z.eqb_spec k0 id); [congruence|reflexivity].
        -- exact IH.
Qed.

Lemma keys_put : forall k id x l, In k (keys (put id x l)) <-> k = id \/ In k (keys l).
Proof.
  induction l as [|[k0 x0] r IH]; cbn.
  - intuition.
  - destruct (Z.ltb_spec id k0); [cbn; intuition|].
    destruct (Z.eqb_spec id k0); [subst; cbn; intuition|].
    cbn. rewrite IH. intuition.
Qed.

Lemma put_sorted : forall id x l, ksorted l -> ksorted (put id x l).
Proof.
  induction l as [|[k0 x0] r IH]; cbn; intros S.
  - split; [intros ? []|exact I].
  - destruct S as [S1 S2].
    destruct (Z.ltb_spec id k0).
    + cbn. split; [|split; assumption].
      intros k' [E|E]; [lia|]. specialize (S1 _ E). lia.
    + destruct (Z.eqb_spec id k0).
      * subst. cbn. split; assumption.
      * cbn. split; [|apply IH; assumption].
        intros k' E. apply keys_put in E. destruct E as [E|E]; [lia|auto].
Qed.

Lemma zlen_put_new : forall id x l, ksorted l -> lookup id l = None -> zlen (put id x l) = zlen l + 1.
Proof.
  induction l as [|[k0 x0] r IH]; cbn [put lookup]; intros S L.
  - reflexivity.
  - destruct S as [S1 S2].
    destruct (Z.eqb_spec id k0); [discriminate|].
    destruct (Z.ltb_spec id k0).
    + rewrite zlen_cons. reflexivity.
    + rewrite !zlen_cons. rewrite IH; auto.
Qed.

Lemma zlen_put_old : forall id x l v, ksorted l -> lookup id l = Some v -> zlen (put id x l) = zlen l.
Proof.
  induction l as [|[k0 x0] r IH]; cbn [put lookup]; intros v S L.
  - discriminate.
  - destruct S as [S1 S2].
    destruct (Z.eqb_spec id k0).
    + subst. destruct (Z.ltb_spec k0 k0); [lia|]. rewrite !zlen_cons. reflexivity.
    + destruct (Z.ltb_spec id k0).
      * apply lookup_some_keys in L. specialize (S1 _ L). lia.
      * rewrite !zlen_cons. erewrite IH; eauto.
Qed.

Lemma lookup_del : forall k id l, lookup k (del id l) = if k =? id then None else lookup k l.
Proof.
  induction l as [|[k0 x0] r IH]; cbn.
  - destruct (k =? id); reflexivity.
  - destruct (Z.eqb_spec id k0).
    + subst. rewrite IH. destruct (Z.eqb_spec k k0); reflexivity.
    + cbn. destruct (Z.eqb_spec k k0).
      * subst. destruct (Z.eqb_spec k0 id); [congruence|reflexivity].
      * exact IH.
Qed.

Lemma keys_del : forall k id l, In k (keys (del id l)) -> In k (keys l).
Proof.
  induction l as [|[k0 x0] r IH]; cbn; [tauto|].
  destruct (Z.eqb_spec id k0); cbn; intuition.
Qed.

Lemma del_sorted : forall id l, ksorted l -> ksorted (del id l).
Proof.
  induction l as [|[k0 x0] r IH]; cbn; intros S; [exact I|].
  destruct S as [S1 S2]. destruct (Z.eqb_spec id k0); [auto|].
  cbn. split; [|auto]. intros k' E. apply keys_del in E. auto.
Qed.

Lemma del_notin : forall id l, ~ In id (keys l) -> del id l = l.
Proof.
  induction l as [|[k0 x0] r IH]; cbn; intros H; [reflexivity|].
  destruct (Z.eqb_spec id k0); [subst; exfalso; apply H; auto|].
  rewrite IH; auto.
Qed.

Lemma zlen_del : forall id l v, ksorted l -> lookup id l = Some v -> zlen (del id l) = zlen l - 1.
Proof.
  induction l as [|[k0 x0] r IH]; cbn [del lookup]; intros v S L.
  - discriminate.
  - destruct S as [S1 S2]. destruct (Z.eqb_spec id k0).
    + subst. rewrite del_notin.
      * rewrite zlen_cons. lia.
      * intros E. specialize (S1 _ E). lia.
    + rewrite !zlen_cons. erewrite IH; eauto. lia.
Qed.

(** * The loop of GetOrOpenStream *)

Definition ids_from (from : Z) (n : nat) : list Z :=
  map (fun k => from + 4 * Z.of_nat k) (seq 0 n).

Definition put_all (ids : list Z) (l : list (Z * bool)) : list (Z * bool) :=
  fold_left (fun s k => put k false s) ids l.

Lemma ids_from_S : forall from n, ids_from from (S n) = ids_from from n ++ [from + 4 * Z.of_nat n].
Proof. intros. unfold ids_from. rewrite seq_S, map_app. reflexivity. Qed.

Lemma put_all_spec : forall from n l,
  ksorted l -> (forall k, In k (keys l) -> k < from) ->
  let l' := put_all (ids_from from n) l in
  ksorted l' /\ zlen l' = zlen l + Z.of_nat n /\
  (forall k, In k (keys l') -> k < from + 4 * Z.of_nat n) /\
  (forall k, lookup k l' =
     match lookup k l with
     | Some v => Some v
     | None => if (from <=? k) && (k <? from + 4 * Z.of_nat n) && ((k - from) mod 4 =? 0) then Some false else None
     end).
Proof.
  induction n as [|n IH]; intros l Sl B; cbn zeta.
  - cbn. repeat split; auto.
    + lia.
    + intros k E. specialize (B _ E). lia.
    + intros k. destruct (lookup k l); auto.
      match goal with |- context [if ?b then _ else _] => destruct b eqn:C end; auto.
      rewrite !andb_true_iff in C. exfalso. lia.
  - rewrite ids_from_S. unfold put_all. rewrite fold_left_app. cbn [fold_left].
    fold (put_all (ids_from from n) l).
    destruct (IH l Sl B) as (S' & Len & Bd & Lk).
    set (l1 := put_all (ids_from from n) l) in *.
    set (id := from + 4 * Z.of_nat n).
    assert (Hnone : lookup id l1 = None).
    { apply lookup_none_keys. intros E. specialize (Bd _ E). unfold id in Bd. lia. }
    repeat split.
    + apply put_sorted; assumption.
    + rewrite zlen_put_new; auto. lia.
    + intros k E. apply keys_put in E. destruct E as [E|E].
      * subst. unfold id. lia.
      * specialize (Bd _ E). lia.
    + intros k. rewrite lookup_put. destruct (Z.eqb_spec k id) as [E|E].
      * subst k. rewrite Lk in Hnone. destruct (lookup id l); [discriminate|].
        unfold id.
        replace ((from <=? from + 4 * Z.of_nat n) && (from + 4 * Z.of_nat n <? from + 4 * Z.of_nat (S n)) &&
                 ((from + 4 * Z.of_nat n - from) mod 4 =? 0)) with true; [reflexivity|].
        symmetry. rewrite !andb_true_iff. repeat split; lia.
      * rewrite Lk. destruct (lookup k l); auto.
        destruct ((from <=? k) && (k <? from + 4 * Z.of_nat n) && ((k - from) mod 4 =? 0)) eqn:C1;
        destruct ((from <=? k) && (k <? from + 4 * Z.of_nat (S n)) && ((k - from) mod 4 =? 0)) eqn:C2; auto.
        -- rewrite !andb_true_iff in C1. rewrite !andb_false_iff in C2. lia.
        -- rewrite !andb_true_iff in C2. rewrite !andb_false_iff in C1. unfold id in E. lia.
Qed.

(** * The invariant of the incoming map *)

(** [f]: first stream ID of the map's class; [N]: configured limit; ghost numbers:
    [a] streams accepted, [o] streams opened by the peer, [M] stream count advertised. *)
Definition InvIn (f N : Z) (m : inmap) (a o M : Z) : Prop :=
  i_maxNum m = N /\
  i_nextAccept m = f + 4 * a /\ i_nextOpen m = f + 4 * o /\ 0 <= a <= o /\ o <= M /\
  ((i_max m = f + 4 * (M - 1) /\ 1 <= M) \/ (i_max m = -1 /\ M = 0)) /\
  M - o + zlen (i_streams m) <= N /\
  ksorted (i_streams m) /\
  (forall k, In k (keys (i_streams m)) -> exists j, k = f + 4 * j /\ 0 <= j < o) /\
  (forall j, a <= j < o -> lookup (f + 4 * j) (i_streams m) <> None).

Definition inv_in (f N : Z) (m : inmap) : Prop := exists a o M, InvIn f N m a o M.

(** the class of stream IDs this map is responsible for *)
Definition on_lattice (f id : Z) : Prop := exists j, id = f + 4 * j /\ 0 <= j.

Definition iop_ok (f : Z) (o : iop) : Prop :=
  match o with IGetOrOpen id => on_lattice f id | _ => True end.

Ltac unf_first :=
  cbv [first_incoming first_outgoing first_lit negb
       SM_FirstIncomingBidiStreamServer SM_FirstIncomingBidiStreamClient
       SM_FirstIncomingUniStreamServer SM_FirstIncomingUniStreamClient
       SM_FirstOutgoingBidiStreamServer SM_FirstOutgoingBidiStreamClient
       SM_FirstOutgoingUniStreamServer SM_FirstOutgoingUniStreamClient].

Ltac inj3 E :=
  let E1 := fresh "E1" in let E2 := fresh "E2" in let E3 := fresh "E3" in
  apply pair_equal_spec in E; destruct E as [E1 E3];
  apply pair_equal_spec in E1; destruct E1 as [E1 E2].

Ltac simp_in_all := cbn [i_uni i_streams i_nextAccept i_nextOpen i_max i_maxNum i_closed i_parked in_set_streams in_set_parked fst snd] in *.
Ltac simp_in := cbn [i_uni i_streams i_nextAccept i_nextOpen i_max i_maxNum i_closed i_parked in_set_streams in_set_parked fst snd].

Lemma first_incoming_range : forall uni client, 0 <= first_incoming uni client <= 3.
Proof. intros [] []; cbv; split; discriminate. Qed.

Lemma first_incoming_lit : forall uni client, first_incoming uni client = first_lit uni (negb client).
Proof. intros [] []; reflexivity. Qed.

Lemma inv_in_init : forall uni client N, 0 <= N ->
  inv_in (first_incoming uni client) N (init_in uni client N).
Proof.
  intros uni client N HN. exists 0, 0, N. unfold InvIn, init_in;
    cbn [i_maxNum i_nextAccept i_nextOpen i_max i_streams keys map In lookup].
  repeat split; try lia; try (left; split; reflexivity).
  - unfold num_to_id.
    destruct (Z.eqb_spec N 0); [right; split; [reflexivity|lia] | left; split; [|lia]].
    destruct uni, client; unf_first; lia.
  - unfold zlen. cbn [length]. lia.
Qed.

Lemma in_get_or_open_inv : forall f N m id m' r a o M, 0 <= f <= 3 ->
  InvIn f N m a o M -> on_lattice f id -> in_get_or_open m id = (m', r) ->
  exists o', InvIn f N m' a o' M /\ o <= o' /\ i_uni m' = i_uni m /\ i_max m' = i_max m /\
    i_nextAccept m' = i_nextAccept m /\
    ((r = RErr ErrLimit /\ m' = m /\ i_max m < id) \/
     (r <> RErr ErrLimit /\ id <= i_max m /\ id < i_nextOpen m')).
Proof.
  intros f N m id m' r a o M Hf I (j & Hid & Hj) E.
  destruct I as (IN & IA & IO & Hao & HoM & HM & Hcred & Hs & Hk & Hpres).
  unfold in_get_or_open in E.
  destruct (Z.ltb_spec (i_max m) id) as [L|L].
  { injection E as Em Er; subst m' r. exists o. repeat split; auto; try lia. }
  destruct (Z.ltb_spec id (i_nextOpen m)) as [L2|L2].
  { injection E as Em Er; subst m' r. exists o. repeat split; auto; try lia.
    right. repeat split; try lia. destruct (lookup id (i_streams m)) as [[]|]; discriminate. }
  injection E as Em Er; subst m' r. subst id.
  assert (HjM : j <= M - 1) by (destruct HM as [[HM1 HM2]|[HM1 HM2]]; lia).
  assert (Hoj : o <= j) by lia.
  assert (Hn : open_ids (i_nextOpen m) (f + 4 * j) = ids_from (f + 4 * o) (Z.to_nat (j - o + 1))).
  { unfold open_ids, ids_from. rewrite IO. replace ((f + 4 * j - (f + 4 * o)) / 4 + 1) with (j - o + 1) by lia. reflexivity. }
  rewrite Hn. fold (put_all (ids_from (f + 4 * o) (Z.to_nat (j - o + 1))) (i_streams m)).
  assert (B : forall k, In k (keys (i_streams m)) -> k < f + 4 * o).
  { intros k Hin. destruct (Hk _ Hin) as (j0 & -> & Hj0). lia. }
  destruct (put_all_spec (f + 4 * o) (Z.to_nat (j - o + 1)) (i_streams m) Hs B) as (S' & Len & Bd & Lk).
  set (s' := put_all (ids_from (f + 4 * o) (Z.to_nat (j - o + 1))) (i_streams m)) in *.
  rewrite Z2Nat.id in * by lia.
  exists (j + 1). simp_in.
  split; [|repeat split; try lia].
  2:{ right. repeat split; try lia. destruct (lookup (f + 4 * j) s'); discriminate. }
  unfold InvIn; simp_in.
  repeat split; auto; try lia.
  - intros k Hin.
    destruct (lookup k s') eqn:Lk1; [|apply lookup_none_keys in Lk1; contradiction].
    rewrite Lk in Lk1. destruct (lookup k (i_streams m)) eqn:Lk0.
    + apply lookup_some_keys in Lk0. destruct (Hk _ Lk0) as (j0 & -> & Hj0). exists j0. split; [reflexivity|lia].
    + destruct ((f + 4 * o <=? k) && (k <? f + 4 * o + 4 * (j - o + 1)) && ((k - (f + 4 * o)) mod 4 =? 0)) eqn:C; [|discriminate].
      rewrite !andb_true_iff in C. exists ((k - f) / 4). split; lia.
  - intros j0 Hj0. rewrite Lk.
    destruct (lookup (f + 4 * j0) (i_streams m)) eqn:Lk0; [discriminate|].
    destruct (Z.ltb_spec j0 o).
    + exfalso. apply (Hpres j0); [lia|assumption].
    + replace ((f + 4 * o <=? f + 4 * j0) && (f + 4 * j0 <? f + 4 * o + 4 * (j - o + 1)) &&
               ((f + 4 * j0 - (f + 4 * o)) mod 4 =? 0)) with true; [discriminate|].
      symmetry. rewrite !andb_true_iff. repeat split; lia.
Qed.

(** deleteStream: either nothing happens (error), or the stream is marked, or it is removed;
    when it is removed, credit is re-issued: the new advertised count is [o + N - open]. *)
Lemma in_delete_inner_inv : forall f N m id m' ok fr a o M, 0 <= f <= 3 ->
  InvIn f N m a o M -> in_delete_inner m id = (m', ok, fr) ->
  exists M', InvIn f N m' a o M' /\ M <= M' /\
    (fr = [] /\ M' = M \/
     fr = [FMax (i_uni m) M'] /\ M < M' /\ M' <= SM_MaxStreamCount /\
     zlen (i_streams m') = zlen (i_streams m) - 1 /\ id < i_nextAccept m /\ i_max m' = f + 4 * (M' - 1)) /\
    zlen (i_streams m') <= zlen (i_streams m) /\
    i_nextAccept m' = i_nextAccept m /\ i_uni m' = i_uni m.
Proof.
  intros f N m id m' ok fr a o M Hf I E.
  destruct I as (IN & IA & IO & Hao & HoM & HM & Hcred & Hs & Hk & Hpres).
  unfold in_delete_inner in E.
  destruct (lookup id (i_streams m)) as [sd|] eqn:L.
  2:{ inj3 E; subst m' ok fr. exists M. repeat split; auto; try lia. }
  destruct (Z.leb_spec (i_nextAccept m) id) as [C|C].
  - destruct sd.
    + inj3 E; subst m' ok fr. exists M. repeat split; auto; try lia.
    + inj3 E; subst m' ok fr. exists M. unfold InvIn, in_set_streams; simp_in.
      assert (Len : zlen (put id true (i_streams m)) = zlen (i_streams m)) by (eapply zlen_put_old; eauto).
      repeat split; auto; try lia.
      * apply put_sorted; assumption.
      * intros k Hin. apply keys_put in Hin. destruct Hin as [->|Hin]; [|auto].
        apply lookup_some_keys in L. auto.
      * intros j Hj. rewrite lookup_put. destruct (f + 4 * j =? id); [discriminate|auto].
  - assert (Len : zlen (del id (i_streams m)) = zlen (i_streams m) - 1) by (eapply zlen_del; eauto).
    assert (Inv' : forall mx M', ((mx = f + 4 * (M' - 1) /\ 1 <= M') \/ (mx = -1 /\ M' = 0)) -> o <= M' ->
              M' - o + zlen (del id (i_streams m)) <= N ->
              InvIn f N (mkIn (i_uni m) (del id (i_streams m)) (i_nextAccept m) (i_nextOpen m) mx (i_maxNum m) (i_closed m) (i_parked m)) a o M').
    { intros mx M' H1 H2 H3. unfold InvIn; simp_in. repeat split; auto; try lia.
      - apply del_sorted; assumption.
      - intros k Hin. apply keys_del in Hin. auto.
      - intros j Hj. rewrite lookup_del. destruct (Z.eqb_spec (f + 4 * j) id); [lia|auto].
    }
    destruct (Z.ltb_spec (zlen (del id (i_streams m))) (i_maxNum m)) as [C2|C2].
    + destruct (Z.leb_spec (i_nextOpen m + 4 * (i_maxNum m - zlen (del id (i_streams m)) - 1)) SM_MaxStreamID) as [C3|C3].
      * inj3 E; subst m' ok fr. simp_in.
        exists (o + N - zlen (del id (i_streams m))).
        assert (HMle : M < o + i_maxNum m - zlen (del id (i_streams m))) by lia.
        split; [apply Inv'; try lia; left; split; lia|].
        split; [lia|]. split; [|simp_in; repeat split; lia].
        right. split; [|simp_in; repeat split; try lia].
        -- f_equal. f_equal. rewrite IO. unfold id_stream_num.
           replace (f + 4 * o + 4 * (i_maxNum m - zlen (del id (i_streams m)) - 1))
             with (f + 4 * (o + i_maxNum m - zlen (del id (i_streams m)) - 1)) by lia.
           assert (0 <= o + i_maxNum m - zlen (del id (i_streams m)) - 1) by lia.
           rewrite Z.quot_div_nonneg by lia. lia.
        -- unfold SM_MaxStreamCount. unfold SM_MaxStreamID in C3. lia.
      * inj3 E; subst m' ok fr. exists M. unfold in_set_streams; simp_in.
        split; [apply Inv'; auto; lia|]. repeat split; try lia; try (left; split; reflexivity).
    + inj3 E; subst m' ok fr. exists M. unfold in_set_streams; simp_in.
      split; [apply Inv'; auto; lia|]. repeat split; try lia; try (left; split; reflexivity).
Qed.

Lemma in_delete_inner_ok : forall m id,
  lookup id (i_streams m) <> None -> id < i_nextAccept m -> snd (fst (in_delete_inner m id)) = true.
Proof.
  intros m id L C. unfold in_delete_inner.
  destruct (lookup id (i_streams m)) as [sd|]; [|congruence].
  destruct (Z.leb_spec (i_nextAccept m) id); [lia|].
  destruct (zlen (del id (i_streams m)) <? i_maxNum m); [|reflexivity].
  destruct (_ <=? SM_MaxStreamID); reflexivity.
Qed.

(** what a step may do to the queue of control frames: nothing, or one MAX_STREAMS with a
    strictly larger stream count (at most 2^60), issued because a stream left the map *)
Definition frames_ok (uni : bool) (M M' : Z) (fr : list frame) (len len' : Z) : Prop :=
  (fr = [] /\ M' = M) \/
  (fr = [FMax uni M'] /\ M < M' /\ M' <= SM_MaxStreamCount /\ len' = len - 1).

Lemma in_accept_core_inv : forall f N m m' r fr a o M, 0 <= f <= 3 ->
  InvIn f N m a o M -> in_accept_core m = (m', r, fr) ->
  exists a' M', InvIn f N m' a' o M' /\ a <= a' /\ M <= M' /\
    frames_ok (i_uni m) M M' fr (zlen (i_streams m)) (zlen (i_streams m')) /\
    zlen (i_streams m') <= zlen (i_streams m) /\ i_uni m' = i_uni m /\
    ((r = RId (i_nextAccept m) /\ i_nextAccept m' = i_nextAccept m + 4 /\ i_closed m = None) \/
     (m' = m /\ fr = [] /\ (r = RParked /\ i_closed m = None /\ lookup (i_nextAccept m) (i_streams m) = None
                            \/ exists e, r = RErr e /\ i_closed m = Some e))).
Proof.
  intros f N m m' r fr a o M Hf I E.
  unfold in_accept_core in E.
  destruct (i_closed m) as [e|] eqn:Cl.
  { inj3 E; subst m' r fr. exists a, M.
    split; [exact I|]. split; [lia|]. split; [lia|]. split; [left; split; reflexivity|].
    split; [lia|]. split; [reflexivity|].
    right. split; [reflexivity|]. split; [reflexivity|]. right. exists e. split; reflexivity. }
  destruct (lookup (i_nextAccept m) (i_streams m)) as [sd|] eqn:L.
  2:{ inj3 E; subst m' r fr. exists a, M.
      split; [exact I|]. split; [lia|]. split; [lia|]. split; [left; split; reflexivity|].
      split; [lia|]. split; [reflexivity|].
      right. split; [reflexivity|]. split; [reflexivity|]. left. repeat split; reflexivity. }
  pose proof I as (IN & IA & IO & Hao & HoM & HM & Hcred & Hs & Hk & Hpres).
  assert (Hlt : a < o).
  { apply lookup_some_keys in L. destruct (Hk _ L) as (j & Ej & Hj). lia. }
  set (m1 := mkIn (i_uni m) (i_streams m) (i_nextAccept m + 4) (i_nextOpen m) (i_max m) (i_maxNum m) None (i_parked m)) in *.
  assert (I1 : InvIn f N m1 (a + 1) o M).
  { unfold InvIn, m1; simp_in. repeat split; auto; try lia. intros j Hj. apply Hpres. lia. }
  destruct sd.
  - destruct (in_delete_inner m1 (i_nextAccept m)) as [[m2 ok] fr2] eqn:D.
    assert (Hok : ok = true).
    { pose proof (in_delete_inner_ok m1 (i_nextAccept m)) as K. rewrite D in K. cbn [fst snd] in K.
      apply K; unfold m1; simp_in; [congruence|lia]. }
    subst ok. inj3 E; subst m' r fr.
    destruct (in_delete_inner_inv _ _ _ _ _ _ _ _ _ _ Hf I1 D) as (M' & I2 & HMM & Hfr & Hlen & Hna & Hun).
    exists (a + 1), M'. unfold m1 in *; simp_in_all.
    split; [exact I2|]. split; [lia|]. split; [lia|]. split.
    { destruct Hfr as [[F1 F2]|(F1 & F2 & F3 & F4 & _)]; [left|right]; repeat split; auto; try lia. }
    split; [lia|]. split; [exact Hun|].
    left. repeat split; auto.
  - inj3 E; subst m' r fr. exists (a + 1), M. unfold m1 in *; simp_in_all.
    split; [exact I1|]. split; [lia|]. split; [lia|]. split; [left; split; reflexivity|].
    split; [lia|]. split; [reflexivity|].
    left. repeat split; auto.
Qed.

Lemma InvIn_parked : forall f N m l a o M, InvIn f N m a o M -> InvIn f N (in_set_parked m l) a o M.
Proof. intros f N m l a o M H. exact H. Qed.

(** the loop body executed by caller [c]: the set of parked callers is the only other change *)
Lemma in_accept_inv : forall f N m c m' r fr a o M, 0 <= f <= 3 ->
  InvIn f N m a o M -> in_accept m c = (m', r, fr) ->
  exists a' M', InvIn f N m' a' o M' /\ a <= a' /\ M <= M' /\
    frames_ok (i_uni m) M M' fr (zlen (i_streams m)) (zlen (i_streams m')) /\
    zlen (i_streams m') <= zlen (i_streams m) /\ i_uni m' = i_uni m /\
    ((r = RId (i_nextAccept m) /\ i_nextAccept m' = i_nextAccept m + 4 /\ i_closed m = None) \/
     (i_nextAccept m' = i_nextAccept m /\ i_streams m' = i_streams m /\ fr = [] /\
      (r = RParked /\ i_closed m = None /\ lookup (i_nextAccept m) (i_streams m) = None
       \/ exists e, r = RErr e /\ i_closed m = Some e))).
Proof.
  intros f N m c m' r fr a o M Hf I E. unfold in_accept in E.
  destruct (in_accept_core m) as [[m1 r1] fr1] eqn:C. inj3 E. subst r1 fr1.
  destruct (in_accept_core_inv _ _ _ _ _ _ _ _ _ Hf I C) as (a' & M' & I' & Ha & HM & Hfr & Hlen & Hun & Hacc).
  exists a', M'. subst m'. simp_in.
  split; [apply InvIn_parked; exact I'|]. split; [exact Ha|]. split; [exact HM|].
  split; [exact Hfr|]. split; [exact Hlen|]. split; [exact Hun|].
  destruct Hacc as [Hacc|(Hm & Hf0 & Hrest)]; [left; exact Hacc|right].
  subst m1. repeat split; auto.
Qed.

Lemma in_close_inv : forall f N m e a o M, InvIn f N m a o M -> InvIn f N (in_close m e) a o M.
Proof. intros f N m e a o M I. exact I. Qed.

Definition in_adv (m : inmap) : Z := if i_max m <? 0 then 0 else id_stream_num (i_max m).
Definition in_opened (m : inmap) : Z := Z.quot (i_nextOpen m) 4.
Definition in_credit (m : inmap) : Z := in_adv m - in_opened m.

Lemma in_adv_inv : forall f N m a o M, 0 <= f <= 3 -> InvIn f N m a o M -> in_adv m = M /\ in_opened m = o.
Proof.
  intros f N m a o M Hf (IN & IA & IO & Hao & HoM & HM & _).
  unfold in_adv, in_opened, id_stream_num. split.
  - destruct HM as [[HM1 HM2]|[HM1 HM2]]; rewrite HM1.
    + destruct (Z.ltb_spec (f + 4 * (M - 1)) 0); [lia|]. rewrite Z.quot_div_nonneg by lia. lia.
    + subst M. reflexivity.
  - rewrite IO. rewrite Z.quot_div_nonneg by lia. lia.
Qed.

Definition is_accept_success (op : iop) (r : res) : bool :=
  match op, r with IAccept _, RId _ => true | _, _ => false end.

(** one step of the incoming map *)
Lemma istep_inv : forall f N m op m' r fr a o M, 0 <= f <= 3 ->
  InvIn f N m a o M -> iop_ok f op -> istep m op = (m', r, fr) ->
  exists a' o' M', InvIn f N m' a' o' M' /\ a <= a' /\ o <= o' /\ M <= M' /\
    frames_ok (i_uni m) M M' fr (zlen (i_streams m)) (zlen (i_streams m')) /\ i_uni m' = i_uni m /\
    (if is_accept_success op r then r = RId (i_nextAccept m) /\ i_nextAccept m' = i_nextAccept m + 4
     else i_nextAccept m' = i_nextAccept m).
Proof.
  intros f N m op m' r fr a o M Hf I Hok E.
  destruct op as [id|id|c|c|e]; cbn [istep iop_ok is_accept_success] in *.
  - destruct (in_get_or_open m id) as [m1 r1] eqn:G. inj3 E; subst m' r fr.
    destruct (in_get_or_open_inv _ _ _ _ _ _ _ _ _ Hf I Hok G) as (o' & I' & Ho & Hu & _ & Hna & _).
    exists a, o', M. split; [exact I'|]. repeat split; auto; try lia; try (left; split; reflexivity).
  - unfold in_delete in E. destruct (in_delete_inner m id) as [[m1 ok] fr1] eqn:D. inj3 E; subst m' r fr.
    destruct (in_delete_inner_inv _ _ _ _ _ _ _ _ _ _ Hf I D) as (M' & I' & HMM & Hfr & Hlen & Hna & Hun).
    exists a, o, M'. split; [exact I'|]. repeat split; auto; try lia.
    destruct Hfr as [[F1 F2]|(F1 & F2 & F3 & F4 & _)]; [left|right]; repeat split; auto; try lia.
  - destruct (in_accept_inv _ _ _ _ _ _ _ _ _ _ Hf I E) as (a' & M' & I' & Ha & HMM & Hfr & _ & Hun & Hacc).
    exists a', o, M'. split; [exact I'|]. repeat split; auto; try lia.
    destruct Hacc as [(R1 & R2 & _)|(R1 & _ & _ & [(R2 & _)|(e & R2 & _)])]; subst r; cbn; auto.
  - unfold in_accept_cancel in E. destruct (zmem c (i_parked m)); inj3 E; subst m' r fr;
      exists a, o, M; (split; [exact I|]); repeat split; auto; try lia; try (left; split; reflexivity).
  - inj3 E; subst m' r fr. exists a, o, M. split; [exact I|]. repeat split; auto; try lia; try (left; split; reflexivity).
Qed.

(** * Histories *)

Definition frames_of (outs : list (res * list frame)) : list frame := concat (map snd outs).

(** a chain of MAX_STREAMS frames of one stream type: strictly increasing counts, from the
    count advertised before ([lo]) to the count advertised after ([hi]), none above 2^60 *)
Inductive chain (uni : bool) : Z -> list frame -> Z -> Prop :=
| chain_nil : forall lo, chain uni lo [] lo
| chain_cons : forall lo n r hi, lo < n -> n <= SM_MaxStreamCount -> chain uni n r hi ->
    chain uni lo (FMax uni n :: r) hi.

Lemma irun_inv : forall f N ops m m' outs a o M, 0 <= f <= 3 ->
  InvIn f N m a o M -> Forall (iop_ok f) ops -> irun m ops = (m', outs) ->
  exists a' o' M', InvIn f N m' a' o' M' /\ a <= a' /\ o <= o' /\ chain (i_uni m) M (frames_of outs) M' /\
    i_uni m' = i_uni m.
Proof.
  intros f N ops. induction ops as [|op ops IH]; intros m m' outs a o M Hf I Hok E; cbn [irun] in E.
  - injection E as E1 E2; subst m' outs. exists a, o, M. split; [exact I|]. repeat split; auto; try lia. constructor.
  - destruct (istep m op) as [[m1 r] fr] eqn:S1.
    destruct (irun m1 ops) as [m2 outs2] eqn:R. injection E as E1 E2; subst m' outs.
    inversion Hok as [|? ? Hop Hops]; subst.
    destruct (istep_inv _ _ _ _ _ _ _ _ _ _ Hf I Hop S1) as (a1 & o1 & M1 & I1 & Ha & Ho & HM & Hfr & Hun & Hacc).
    destruct (IH _ _ _ _ _ _ Hf I1 Hops R) as (a2 & o2 & M2 & I2 & Ha2 & Ho2 & Hch & Hun2).
    exists a2, o2, M2. split; [exact I2|]. repeat split; auto; try lia; [|congruence].
    unfold frames_of. cbn [map concat snd]. fold (frames_of outs2). rewrite Hun in Hch.
    destruct Hfr as [[F1 F2]|(F1 & F2 & F3 & _)]; subst fr.
    + subst M1. exact Hch.
    + cbn [app]. constructor; auto.
Qed.

(** ** C15(a): the concurrency bound *)
Theorem in_bound : forall uni client N ops m outs, 0 <= N ->
  Forall (iop_ok (first_incoming uni client)) ops ->
  irun (init_in uni client N) ops = (m, outs) ->
  zlen (i_streams m) <= N /\ 0 <= in_credit m /\ in_credit m + zlen (i_streams m) <= N /\
  chain uni N (frames_of outs) (in_adv m) /\ N <= in_adv m.
Proof.
  intros uni client N ops m outs HN Hok E.
  pose proof (first_incoming_range uni client) as Hf.
  destruct (inv_in_init uni client N HN) as (a0 & o0 & M0 & I0).
  assert (HM0 : M0 = N /\ o0 = 0).
  { destruct (in_adv_inv _ _ _ _ _ _ Hf I0) as [A O]. split; [rewrite <- A|rewrite <- O].
    - unfold in_adv, init_in; cbn [i_max]. unfold num_to_id. destruct (Z.eqb_spec N 0); [subst; reflexivity|].
      assert (Hfl := first_incoming_lit uni client). pose proof (first_incoming_range uni client).
      rewrite <- Hfl. destruct (Z.ltb_spec (first_incoming uni client + 4 * (N - 1)) 0); [lia|].
      unfold id_stream_num. rewrite Z.quot_div_nonneg by lia. lia.
    - unfold in_opened, init_in; cbn [i_nextOpen]. rewrite Z.quot_div_nonneg by lia. lia. }
  destruct HM0; subst M0 o0.
  destruct (irun_inv _ _ _ _ _ _ _ _ _ Hf I0 Hok E) as (a & o & M & I & Ha & Ho & Hch & Hun).
  destruct (in_adv_inv _ _ _ _ _ _ Hf I) as [A O].
  unfold in_credit. rewrite A, O.
  pose proof I as (IN & IA & IO & Hao & HoM & HM & Hcred & _).
  pose proof (zlen_nonneg _ (i_streams m)).
  assert (HNM : N <= M).
  { clear - Hch. cbn [init_in i_uni] in Hch. induction Hch; lia. }
  repeat split; auto; lia.
Qed.

(** ** Reachable states *)
Definition ireach (uni client : bool) (N : Z) (m : inmap) : Prop :=
  exists ops outs, Forall (iop_ok (first_incoming uni client)) ops /\
                   irun (init_in uni client N) ops = (m, outs).

Lemma ireach_inv : forall uni client N m, 0 <= N -> ireach uni client N m ->
  inv_in (first_incoming uni client) N m /\ i_uni m = uni.
Proof.
  intros uni client N m HN (ops & outs & Hok & E).
  pose proof (first_incoming_range uni client) as Hf.
  destruct (inv_in_init uni client N HN) as (a0 & o0 & M0 & I0).
  destruct (irun_inv _ _ _ _ _ _ _ _ _ Hf I0 Hok E) as (a & o & M & I & _ & _ & _ & Hun).
  split; [exists a, o, M; exact I | exact Hun].
Qed.

(** ** C15(a): STREAM_LIMIT_ERROR exactly beyond the advertised MAX_STREAMS *)
Lemma in_limit_error_iff : forall f N m id, 0 <= f <= 3 -> inv_in f N m -> on_lattice f id ->
  (snd (in_get_or_open m id) = RErr ErrLimit <-> in_adv m < id_stream_num id).
Proof.
  intros f N m id Hf (a & o & M & I) (j & Hid & Hj).
  destruct (in_adv_inv _ _ _ _ _ _ Hf I) as [A _]. rewrite A.
  destruct I as (IN & IA & IO & Hao & HoM & HM & _).
  assert (Hnum : id_stream_num id = j + 1).
  { unfold id_stream_num. subst id. rewrite Z.quot_div_nonneg by lia. lia. }
  rewrite Hnum. unfold in_get_or_open.
  destruct (Z.ltb_spec (i_max m) id) as [L|L]; cbn [snd].
  - split; [intros _|reflexivity]. destruct HM as [[H1 H2]|[H1 H2]]; lia.
  - split.
    + intros H. exfalso. destruct (id <? i_nextOpen m); cbn [snd] in H.
      * destruct (lookup id (i_streams m)) as [[]|]; discriminate.
      * destruct (lookup id _); discriminate.
    + intros H. exfalso. destruct HM as [[H1 H2]|[H1 H2]]; lia.
Qed.

(** ** C15(a): opening a stream implicitly opens all lower streams of that type *)
Lemma in_implicit_open : forall f N m id m' r, 0 <= f <= 3 -> inv_in f N m -> on_lattice f id ->
  in_get_or_open m id = (m', r) -> r <> RErr ErrLimit ->
  forall id', on_lattice f id' -> i_nextAccept m <= id' <= id -> lookup id' (i_streams m') <> None.
Proof.
  intros f N m id m' r Hf (a & o & M & I) Hl E Hr id' (j' & Hid' & Hj') Hrange.
  destruct (in_get_or_open_inv _ _ _ _ _ _ _ _ _ Hf I Hl E) as (o' & I' & Ho & _ & _ & Hna & [[Hc _]|(_ & _ & Hlt)]);
    [contradiction|].
  destruct I as (_ & IA & _).
  destruct I' as (_ & IA' & IO' & _ & _ & _ & _ & _ & _ & Hpres').
  subst id'. apply Hpres'. lia.
Qed.

(** ** C15(c): AcceptStream returns first, first+4, ... : each stream once, in order *)
Fixpoint accepted (ops : list iop) (outs : list (res * list frame)) : list Z :=
  match ops, outs with
  | op :: ops', (r, _) :: outs' =>
    (if is_accept_success op r then match r with RId id => [id] | _ => [] end else []) ++ accepted ops' outs'
  | _, _ => []
  end.

Lemma ids_from_cons : forall from n, ids_from from (S n) = from :: ids_from (from + 4) n.
Proof.
  intros. unfold ids_from. cbn [seq map]. f_equal; [lia|].
  rewrite <- seq_shift, map_map. apply map_ext. intros k. lia.
Qed.

Lemma irun_accept : forall f N ops m m' outs a o M, 0 <= f <= 3 ->
  InvIn f N m a o M -> Forall (iop_ok f) ops -> irun m ops = (m', outs) ->
  accepted ops outs = ids_from (i_nextAccept m) (length (accepted ops outs)) /\
  i_nextAccept m' = i_nextAccept m + 4 * zlen (accepted ops outs).
Proof.
  intros f N ops. induction ops as [|op ops IH]; intros m m' outs a o M Hf I Hok E; cbn [irun] in E.
  - injection E as E1 E2; subst m' outs. cbn. split; [reflexivity|lia].
  - destruct (istep m op) as [[m1 r] fr] eqn:S1.
    destruct (irun m1 ops) as [m2 outs2] eqn:R. injection E as E1 E2; subst m' outs.
    inversion Hok as [|? ? Hop Hops]; subst.
    destruct (istep_inv _ _ _ _ _ _ _ _ _ _ Hf I Hop S1) as (a1 & o1 & M1 & I1 & _ & _ & _ & _ & _ & Hacc).
    destruct (IH _ _ _ _ _ _ Hf I1 Hops R) as (H1 & H2).
    cbn [accepted]. destruct (is_accept_success op r) eqn:AS.
    + destruct Hacc as [Hr Hn]. subst r. cbn [app length].
      rewrite ids_from_cons. rewrite zlen_cons. rewrite Hn in H1, H2. split; [f_equal; exact H1|lia].
    + cbn [app]. rewrite Hacc in H1, H2. split; assumption.
Qed.

Theorem in_accept_order : forall uni client N ops m outs, 0 <= N ->
  Forall (iop_ok (first_incoming uni client)) ops ->
  irun (init_in uni client N) ops = (m, outs) ->
  accepted ops outs = ids_from (first_incoming uni client) (length (accepted ops outs)) /\
  i_nextAccept m = first_incoming uni client + 4 * zlen (accepted ops outs).
Proof.
  intros uni client N ops m outs HN Hok E.
  pose proof (first_incoming_range uni client) as Hf.
  destruct (inv_in_init uni client N HN) as (a0 & o0 & M0 & I0).
  exact (irun_accept _ _ _ _ _ _ _ _ _ Hf I0 Hok E).
Qed.

Lemma ids_from_NoDup : forall n from, NoDup (ids_from from n).
Proof.
  induction n as [|n IH]; intros from.
  - constructor.
  - rewrite ids_from_cons. constructor; [|apply IH].
    unfold ids_from. rewrite in_map_iff. intros (k & Hk & _). lia.
Qed.

(** a stream the peer opened and that was not accepted yet is handed out by the next Accept,
    also when it was completed (deleted) before being accepted *)
Lemma in_accept_available : forall f N m, 0 <= f <= 3 -> inv_in f N m ->
  i_closed m = None -> i_nextAccept m < i_nextOpen m ->
  forall c, snd (fst (in_accept m c)) = RId (i_nextAccept m).
Proof.
  intros f N m Hf (a & o & M & I) Hc Hlt c.
  destruct (in_accept m c) as [[m' r] fr] eqn:E. cbn [fst snd].
  destruct (in_accept_inv _ _ _ _ _ _ _ _ _ _ Hf I E) as (a' & M' & _ & _ & _ & _ & _ & _ & Hacc).
  destruct Hacc as [(R1 & _)|(_ & _ & _ & [(_ & _ & R2)|(e & _ & R2)])]; [exact R1| |congruence].
  exfalso. destruct I as (_ & IA & IO & _ & _ & _ & _ & _ & _ & Hpres).
  apply (Hpres a); [lia|]. rewrite <- IA. exact R2.
Qed.

(** ** C15(a): MAX_STREAMS is only queued when a stream leaves the map, i.e. by DeleteStream of
    an accepted stream or by the AcceptStream that hands out an already completed stream *)
Lemma in_frame_only_on_removal : forall f N m op m' r fr, 0 <= f <= 3 -> inv_in f N m -> iop_ok f op ->
  istep m op = (m', r, fr) -> fr <> [] ->
  zlen (i_streams m') = zlen (i_streams m) - 1 /\
  (exists id, (op = IDelete id \/ (exists c, op = IAccept c) /\ r = RId id) /\ id < i_nextAccept m' /\
              lookup id (i_streams m) <> None /\ lookup id (i_streams m') = None) /\
  exists n, fr = [FMax (i_uni m) n] /\ in_adv m < n /\ n = in_adv m' /\ n <= SM_MaxStreamCount.
Proof.
  intros f N m op m' r fr Hf (a & o & M & I) Hok E Hfr.
  destruct (istep_inv _ _ _ _ _ _ _ _ _ _ Hf I Hok E) as (a' & o' & M' & I' & _ & _ & _ & Hf' & _ & _).
  destruct (in_adv_inv _ _ _ _ _ _ Hf I) as [A _]. destruct (in_adv_inv _ _ _ _ _ _ Hf I') as [A' _].
  destruct Hf' as [[F1 _]|(F1 & F2 & F3 & F4)]; [contradiction|].
  split; [exact F4|]. split; [|exists M'; rewrite A, A'; repeat split; auto].
  destruct op as [id|id|c|c|e]; cbn [istep] in E.
  - destruct (in_get_or_open m id). inj3 E. congruence.
  - exists id. unfold in_delete in E. destruct (in_delete_inner m id) as [[m1 ok] fr1] eqn:D. inj3 E; subst m' r fr.
    split; [left; reflexivity|].
    unfold in_delete_inner in D. destruct (lookup id (i_streams m)) as [sd|] eqn:L; [|inj3 D; congruence].
    destruct (Z.leb_spec (i_nextAccept m) id); [destruct sd; inj3 D; congruence|].
    assert (Hm1 : i_streams m1 = del id (i_streams m) /\ i_nextAccept m1 = i_nextAccept m).
    { destruct (zlen (del id (i_streams m)) <? i_maxNum m); [destruct (_ <=? SM_MaxStreamID)|];
        inj3 D; subst m1; split; reflexivity. }
    destruct Hm1 as [Hs Hn]. rewrite Hs, Hn. repeat split; [lia|congruence|].
    rewrite lookup_del, Z.eqb_refl. reflexivity.
  - exists (i_nextAccept m). unfold in_accept in E.
    destruct (in_accept_core m) as [[m0 r0] fr0] eqn:C. inj3 E. subst r0 fr0 m'. simp_in.
    rename C into E. unfold in_accept_core in E.
    destruct (i_closed m); [inj3 E; congruence|].
    destruct (lookup (i_nextAccept m) (i_streams m)) as [sd|] eqn:L; [|inj3 E; congruence].
    destruct sd; [|inj3 E; congruence].
    set (m1 := mkIn _ _ _ _ _ _ _ _) in E.
    destruct (in_delete_inner m1 (i_nextAccept m)) as [[m2 ok] fr2] eqn:D.
    pose proof (in_delete_inner_ok m1 (i_nextAccept m)) as K. rewrite D in K. cbn [fst snd] in K.
    assert (ok = true) by (apply K; unfold m1; simp_in; [congruence|lia]). subst ok.
    inj3 E; subst m0 r fr. split; [right; split; [exists c; reflexivity|reflexivity]|].
    unfold in_delete_inner in D. unfold m1 in D at 1. simp_in_all. rewrite L in D.
    destruct (Z.leb_spec (i_nextAccept m1) (i_nextAccept m)); [unfold m1 in *; simp_in_all; lia|].
    assert (Hm1 : i_streams m2 = del (i_nextAccept m) (i_streams m1) /\ i_nextAccept m2 = i_nextAccept m1).
    { destruct (zlen (del (i_nextAccept m) (i_streams m1)) <? i_maxNum m1); [destruct (_ <=? SM_MaxStreamID)|];
        inj3 D; subst m2; split; reflexivity. }
    destruct Hm1 as [Hs Hn]. rewrite Hs, Hn. unfold m1; simp_in. repeat split; [lia|congruence|].
    rewrite lookup_del, Z.eqb_refl. reflexivity.
  - unfold in_accept_cancel in E. destruct (zmem c (i_parked m)); inj3 E; congruence.
  - inj3 E. congruence.
Qed.

(** ** The facts that hold in every state satisfying the invariant *)
Definition in_facts (f : Z) (m : inmap) : Prop :=
  (* STREAM_LIMIT_ERROR exactly beyond the advertised MAX_STREAMS *)
  (forall id, on_lattice f id ->
     (snd (in_get_or_open m id) = RErr ErrLimit <-> in_adv m < id_stream_num id)) /\
  (* implicit opening of all lower streams *)
  (forall id m' r, on_lattice f id -> in_get_or_open m id = (m', r) -> r <> RErr ErrLimit ->
     forall id', on_lattice f id' -> i_nextAccept m <= id' <= id -> lookup id' (i_streams m') <> None) /\
  (* MAX_STREAMS only when an accepted stream leaves the map; strictly larger than before; <= 2^60 *)
  (forall op m' r fr, iop_ok f op -> istep m op = (m', r, fr) -> fr <> [] ->
     zlen (i_streams m') = zlen (i_streams m) - 1 /\
     (exists id, (op = IDelete id \/ (exists c, op = IAccept c) /\ r = RId id) /\ id < i_nextAccept m' /\
                 lookup id (i_streams m) <> None /\ lookup id (i_streams m') = None) /\
     exists n, fr = [FMax (i_uni m) n] /\ in_adv m < n /\ n = in_adv m' /\ n <= SM_MaxStreamCount) /\
  (* the advertised limit never decreases *)
  (forall op m' r fr, iop_ok f op -> istep m op = (m', r, fr) -> in_adv m <= in_adv m') /\
  (* a stream that is opened and not yet accepted is returned by the next Accept *)
  (i_closed m = None -> i_nextAccept m < i_nextOpen m -> forall c, snd (fst (in_accept m c)) = RId (i_nextAccept m)).

Lemma in_facts_inv : forall f N m, 0 <= f <= 3 -> inv_in f N m -> in_facts f m.
Proof.
  intros f N m Hf Inv. unfold in_facts.
  split; [intros; eapply in_limit_error_iff; eauto|].
  split; [intros until 3; eapply in_implicit_open; eauto|].
  split.
  { intros op m' r fr Hok E Hfr. eapply in_frame_only_on_removal; eauto. }
  split.
  { intros op m' r fr Hok E. destruct Inv as (a & o & M & I).
    destruct (istep_inv _ _ _ _ _ _ _ _ _ _ Hf I Hok E) as (a' & o' & M' & I' & _ & _ & HM & _).
    destruct (in_adv_inv _ _ _ _ _ _ Hf I) as [A _]. destruct (in_adv_inv _ _ _ _ _ _ Hf I') as [A' _]. lia. }
  intros; eapply in_accept_available; eauto.
Qed.

Theorem in_reach_facts : forall uni client N m, 0 <= N -> ireach uni client N m ->
  in_facts (first_incoming uni client) m /\ i_uni m = uni.
Proof.
  intros uni client N m HN R. destruct (ireach_inv _ _ _ _ HN R) as [Inv Hu].
  split; [|exact Hu]. eapply in_facts_inv; eauto using first_incoming_range.
Qed.

(** ** Any number of concurrent AcceptStream callers
    [IAccept c] carries the caller; a history may interleave calls and wake-ups of arbitrarily many
    callers (parked ones are in [i_parked]).  Who got which stream: *)
Fixpoint accepted_by (ops : list iop) (outs : list (res * list frame)) : list (Z * Z) :=
  match ops, outs with
  | op :: ops', (r, _) :: outs' =>
    (match op, r with IAccept c, RId id => [(c, id)] | _, _ => [] end) ++ accepted_by ops' outs'
  | _, _ => []
  end.

Lemma accepted_by_ids : forall ops outs, map snd (accepted_by ops outs) = accepted ops outs.
Proof.
  induction ops as [|op ops IH]; intros outs; [reflexivity|].
  destruct outs as [|[r fr] outs]; [reflexivity|]. cbn [accepted_by accepted].
  rewrite map_app, IH. f_equal. destruct op, r; reflexivity.
Qed.

(** whatever the callers and the interleaving: the streams handed out, in the order of the
    critical sections, are first, first+4, ... (so no stream goes to two callers, none is skipped) *)
Theorem in_accept_concurrent : forall uni client N ops m outs, 0 <= N ->
  Forall (iop_ok (first_incoming uni client)) ops ->
  irun (init_in uni client N) ops = (m, outs) ->
  map snd (accepted_by ops outs) =
    ids_from (first_incoming uni client) (length (accepted_by ops outs)) /\
  NoDup (map snd (accepted_by ops outs)).
Proof.
  intros uni client N ops m outs HN Hok E.
  destruct (in_accept_order _ _ _ _ _ _ HN Hok E) as [H _].
  assert (L : length (accepted_by ops outs) = length (accepted ops outs)).
  { rewrite <- (accepted_by_ids ops outs), map_length. reflexivity. }
  rewrite L, accepted_by_ids. split; [exact H|]. rewrite H. apply ids_from_NoDup.
Qed.

(** ** Credit is re-issued exactly: as long as 2^60 is not reached, streams in the map + streams
    the peer may still open = the configured limit (not only <=), i.e. every stream that leaves the
    map frees exactly one slot, at once. *)
Definition tight (N : Z) (m : inmap) : Prop := in_credit m + zlen (i_streams m) = N.

Lemma in_get_or_open_tight : forall f N m id m' r a o M, 0 <= f <= 3 ->
  InvIn f N m a o M -> on_lattice f id -> in_get_or_open m id = (m', r) -> tight N m -> tight N m'.
Proof.
  intros f N m id m' r a o M Hf I (j & Hid & Hj) E T.
  pose proof I as (IN & IA & IO & Hao & HoM & HM & Hcred & Hs & Hk & Hpres).
  unfold in_get_or_open in E.
  destruct (Z.ltb_spec (i_max m) id) as [L|L]; [injection E as <- _; exact T|].
  destruct (Z.ltb_spec id (i_nextOpen m)) as [L2|L2]; [injection E as <- _; exact T|].
  injection E as Em _. subst m' id.
  assert (HjM : j <= M - 1) by (destruct HM as [[HM1 HM2]|[HM1 HM2]]; lia).
  assert (Hn : open_ids (i_nextOpen m) (f + 4 * j) = ids_from (f + 4 * o) (Z.to_nat (j - o + 1))).
  { unfold open_ids, ids_from. rewrite IO. replace ((f + 4 * j - (f + 4 * o)) / 4 + 1) with (j - o + 1) by lia. reflexivity. }
  rewrite Hn. fold (put_all (ids_from (f + 4 * o) (Z.to_nat (j - o + 1))) (i_streams m)).
  assert (B : forall k, In k (keys (i_streams m)) -> k < f + 4 * o).
  { intros k Hin. destruct (Hk _ Hin) as (j0 & -> & Hj0). lia. }
  destruct (put_all_spec (f + 4 * o) (Z.to_nat (j - o + 1)) (i_streams m) Hs B) as (_ & Len & _).
  rewrite Z2Nat.id in Len by lia.
  unfold tight, in_credit, in_adv, in_opened in *. simp_in. rewrite Len, IO in *.
  rewrite (Z.quot_div_nonneg (f + 4 * j + 4)) by lia. rewrite (Z.quot_div_nonneg (f + 4 * o)) in T by lia. lia.
Qed.

Lemma in_delete_inner_tight : forall f N m id m' ok fr a o M, 0 <= f <= 3 ->
  InvIn f N m a o M -> in_delete_inner m id = (m', ok, fr) ->
  o + N <= SM_MaxStreamCount -> tight N m -> tight N m'.
Proof.
  intros f N m id m' ok fr a o M Hf I E Hb T.
  destruct (in_adv_inv _ _ _ _ _ _ Hf I) as [A O].
  destruct I as (IN & IA & IO & Hao & HoM & HM & Hcred & Hs & Hk & Hpres).
  unfold in_delete_inner in E.
  destruct (lookup id (i_streams m)) as [sd|] eqn:L; [|inj3 E; subst m'; exact T].
  destruct (Z.leb_spec (i_nextAccept m) id) as [C|C].
  - destruct sd; inj3 E; subst m'; [exact T|].
    unfold tight, in_credit, in_adv, in_opened, in_set_streams in *. simp_in.
    rewrite (zlen_put_old _ _ _ _ Hs L). exact T.
  - assert (Len : zlen (del id (i_streams m)) = zlen (i_streams m) - 1) by (eapply zlen_del; eauto).
    unfold tight, in_credit in T. rewrite A, O in T.
    pose proof (zlen_nonneg _ (del id (i_streams m))).
    destruct (Z.ltb_spec (zlen (del id (i_streams m))) (i_maxNum m)) as [C2|C2]; [|lia].
    destruct (Z.leb_spec (i_nextOpen m + 4 * (i_maxNum m - zlen (del id (i_streams m)) - 1)) SM_MaxStreamID) as [C3|C3].
    + inj3 E; subst m'. unfold tight, in_credit, in_adv, in_opened, id_stream_num. simp_in. rewrite IO.
      replace (f + 4 * o + 4 * (i_maxNum m - zlen (del id (i_streams m)) - 1))
        with (f + 4 * (o + i_maxNum m - zlen (del id (i_streams m)) - 1)) by lia.
      destruct (Z.ltb_spec (f + 4 * (o + i_maxNum m - zlen (del id (i_streams m)) - 1)) 0); [lia|].
      rewrite !Z.quot_div_nonneg by lia. lia.
    + exfalso. unfold SM_MaxStreamID in C3. unfold SM_MaxStreamCount in Hb. lia.
Qed.

Lemma istep_tight : forall f N m op m' r fr a o M a' o' M', 0 <= f <= 3 ->
  InvIn f N m a o M -> iop_ok f op -> istep m op = (m', r, fr) -> InvIn f N m' a' o' M' ->
  o' + N <= SM_MaxStreamCount -> tight N m -> tight N m'.
Proof.
  intros f N m op m' r fr a o M a' o' M' Hf I Hok E I' Hb T.
  assert (Ho : o <= o').
  { destruct (istep_inv _ _ _ _ _ _ _ _ _ _ Hf I Hok E) as (a1 & o1 & M1 & I1 & _ & Ho1 & _).
    destruct (in_adv_inv _ _ _ _ _ _ Hf I1) as [_ O1]. destruct (in_adv_inv _ _ _ _ _ _ Hf I') as [_ O']. lia. }
  destruct op as [id|id|c|c|e]; cbn [istep iop_ok] in *.
  - destruct (in_get_or_open m id) as [m1 r1] eqn:G. inj3 E; subst m'. exact (in_get_or_open_tight _ _ _ _ _ _ _ _ _ Hf I Hok G T).
  - unfold in_delete in E. destruct (in_delete_inner m id) as [[m1 ok] fr1] eqn:D. inj3 E; subst m'.
    apply (in_delete_inner_tight _ _ _ _ _ _ _ _ _ _ Hf I D); [lia|exact T].
  - unfold in_accept in E. destruct (in_accept_core m) as [[m1 r1] fr1] eqn:C. inj3 E. subst m'.
    assert (T1 : tight N m1).
    { unfold in_accept_core in C. destruct (i_closed m); [inj3 C; subst m1; exact T|].
      destruct (lookup (i_nextAccept m) (i_streams m)) as [sd|] eqn:L; [|inj3 C; subst m1; exact T].
      destruct sd; [|inj3 C; subst m1; exact T].
      set (m0 := mkIn _ _ _ _ _ _ _ _) in C.
      destruct (in_delete_inner m0 (i_nextAccept m)) as [[m2 ok] fr2] eqn:D. inj3 C. subst m1.
      pose proof I as (IN & IA & IO & Hao & HoM & HM & Hcred & Hs & Hk & Hpres).
      assert (Hlt : a < o).
      { apply lookup_some_keys in L. destruct (Hk _ L) as (j & Ej & Hj). lia. }
      assert (I0 : InvIn f N m0 (a + 1) o M).
      { unfold InvIn, m0; simp_in. repeat split; auto; try lia. intros j Hj. apply Hpres. lia. }
      apply (in_delete_inner_tight _ _ _ _ _ _ _ _ _ _ Hf I0 D); [lia|exact T]. }
    exact T1.
  - unfold in_accept_cancel in E. destruct (zmem c (i_parked m)); inj3 E; subst m'; exact T.
  - inj3 E; subst m'. exact T.
Qed.

Lemma irun_tight : forall f N ops m m' outs a o M, 0 <= f <= 3 ->
  InvIn f N m a o M -> Forall (iop_ok f) ops -> irun m ops = (m', outs) ->
  in_opened m' + N <= SM_MaxStreamCount -> tight N m -> tight N m'.
Proof.
  intros f N ops. induction ops as [|op ops IH]; intros m m' outs a o M Hf I Hok E Hb T; cbn [irun] in E.
  - injection E as <- _. exact T.
  - destruct (istep m op) as [[m1 r] fr] eqn:S1.
    destruct (irun m1 ops) as [m2 outs2] eqn:R. injection E as <- _.
    inversion Hok as [|? ? Hop Hops]; subst.
    destruct (istep_inv _ _ _ _ _ _ _ _ _ _ Hf I Hop S1) as (a1 & o1 & M1 & I1 & _).
    destruct (irun_inv _ _ _ _ _ _ _ _ _ Hf I1 Hops R) as (a2 & o2 & M2 & I2 & _ & Ho2 & _).
    destruct (in_adv_inv _ _ _ _ _ _ Hf I2) as [_ O2].
    apply (IH _ _ _ _ _ _ Hf I1 Hops R Hb).
    apply (istep_tight _ _ _ _ _ _ _ _ _ _ _ _ _ Hf I Hop S1 I1); [lia|exact T].
Qed.

Lemma init_in_adv : forall uni client N, 0 <= N ->
  in_adv (init_in uni client N) = N /\ in_opened (init_in uni client N) = 0.
Proof.
  intros uni client N HN. pose proof (first_incoming_range uni client) as Hf. split.
  - unfold in_adv, init_in; cbn [i_max]. unfold num_to_id. destruct (Z.eqb_spec N 0); [subst; reflexivity|].
    rewrite <- (first_incoming_lit uni client).
    destruct (Z.ltb_spec (first_incoming uni client + 4 * (N - 1)) 0); [lia|].
    unfold id_stream_num. rewrite Z.quot_div_nonneg by lia. lia.
  - unfold in_opened, init_in; cbn [i_nextOpen]. rewrite Z.quot_div_nonneg by lia. lia.
Qed.

Theorem in_credit_exact : forall uni client N ops m outs, 0 <= N ->
  Forall (iop_ok (first_incoming uni client)) ops ->
  irun (init_in uni client N) ops = (m, outs) ->
  in_opened m + N <= SM_MaxStreamCount ->
  in_credit m + zlen (i_streams m) = N.
Proof.
  intros uni client N ops m outs HN Hok E Hb.
  pose proof (first_incoming_range uni client) as Hf.
  destruct (inv_in_init uni client N HN) as (a0 & o0 & M0 & I0).
  apply (irun_tight _ _ _ _ _ _ _ _ _ Hf I0 Hok E Hb).
  destruct (init_in_adv uni client N HN) as [A O]. unfold tight, in_credit. rewrite A, O.
  unfold init_in, zlen; cbn [i_streams length]. lia.
Qed.

(** reachable states are closed under steps *)
Lemma irun_snoc : forall ops m m1 outs op m' r fr,
  irun m ops = (m1, outs) -> istep m1 op = (m', r, fr) ->
  irun m (ops ++ [op]) = (m', outs ++ [(r, fr)]).
Proof.
  induction ops as [|o ops IH]; intros m m1 outs op m' r fr E S; cbn [irun app] in *.
  - injection E as <- <-. rewrite S. reflexivity.
  - destruct (istep m o) as [[m2 r2] fr2]. destruct (irun m2 ops) as [m3 outs3] eqn:R.
    injection E as <- <-. rewrite (IH _ _ _ _ _ _ _ R S). reflexivity.
Qed.

Lemma ireach_init : forall uni client N, ireach uni client N (init_in uni client N).
Proof. intros. exists [], []. split; [constructor|reflexivity]. Qed.

Lemma ireach_step : forall uni client N m op m' r fr, ireach uni client N m ->
  iop_ok (first_incoming uni client) op -> istep m op = (m', r, fr) -> ireach uni client N m'.
Proof.
  intros uni client N m op m' r fr (ops & outs & Hok & E) Hop S.
  exists (ops ++ [op]), (outs ++ [(r, fr)]). split; [apply Forall_app; split; [exact Hok|constructor; [exact Hop|constructor]]|].
  eapply irun_snoc; eauto.
Qed.

Theorem in_credit_exact_reach : forall uni client N m, 0 <= N -> ireach uni client N m ->
  in_opened m + N <= SM_MaxStreamCount -> in_credit m + zlen (i_streams m) = N.
Proof. intros uni client N m HN (ops & outs & Hok & E) Hb. eapply in_credit_exact; eauto. Qed.
