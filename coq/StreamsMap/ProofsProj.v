(** Round 6: the functional projection of a streams-map history onto one of its maps, and the
    single-map trace theorems restated at the newStreamsMap level. *)
From Coq Require Import List ZArith Bool Lia.
From V Require Import Gen.Params StreamsMap.Model StreamsMap.ProofsIn StreamsMap.ProofsOut StreamsMap.ProofsTop.
Import ListNotations.
Open Scope Z_scope.

(** which top-level op reaches the incoming map of type [uni], and as what (depends on the state
    only through the reset flag, the callers parked on replaced maps and the parked callers) *)
Definition proj_step_in (uni : bool) (s : smap) (o : op) : option iop :=
  match o with
  | OAcceptCall u a => if Bool.eqb u uni && negb (s_reset s) then Some (IAccept a) else None
  | OAcceptWake u a =>
    if Bool.eqb u uni && negb (zmem a (s_zacc s)) && zmem a (i_parked (s_in s u)) then Some (IAccept a) else None
  | OAcceptCancel u a => if Bool.eqb u uni && negb (zmem a (s_zacc s)) then Some (IAcceptCancel a) else None
  | ODelete id => if negb (by_self s id) && Bool.eqb (id_is_uni id) uni then Some (IDelete id) else None
  | ORecv id => if negb (by_self s id) && Bool.eqb (id_is_uni id) uni then Some (IGetOrOpen id) else None
  | OSend id => if negb (by_self s id) && negb (id_is_uni id) && negb uni then Some (IGetOrOpen id) else None
  | OClose e => Some (IClose e)
  | _ => None
  end.

Definition is_reset (o : op) : bool := match o with OReset => true | _ => false end.

(** the map-level history since the last ResetFor0RTT, with the results and frames of the steps *)
Fixpoint proj_in (uni : bool) (s : smap) (ops : list op) (acc : list (iop * (res * list frame)))
  : list (iop * (res * list frame)) :=
  match ops with
  | [] => acc
  | o :: r =>
    let '(s', x, fr) := tstep s o in
    proj_in uni s' r
      (if is_reset o then []
       else match proj_step_in uni s o with Some io => acc ++ [(io, (x, fr))] | None => acc end)
  end.

Lemma s_in_set_in : forall s u m uni, s_in (set_in s u m) uni = if Bool.eqb u uni then m else s_in s uni.
Proof. intros s [] m []; reflexivity. Qed.
Lemma s_in_set_out : forall s u m uni, s_in (set_out s u m) uni = s_in s uni.
Proof. intros s [] m []; reflexivity. Qed.
Lemma s_in_rsa_update : forall o s r uni, s_in (rsa_update o s r) uni = s_in s uni.
Proof.
  intros o s r uni. unfold rsa_update.
  destruct o; try reflexivity; try (destruct r; try reflexivity; destruct (s_rsa s); reflexivity).
Qed.
Lemma rsa_update_params : forall o s r, s_client (rsa_update o s r) = s_client s /\
  s_maxBidi (rsa_update o s r) = s_maxBidi s /\ s_maxUni (rsa_update o s r) = s_maxUni s.
Proof.
  intros o s r. unfold rsa_update.
  destruct o; try (repeat split; reflexivity); destruct r; try (repeat split; reflexivity); destruct (s_rsa s); repeat split; reflexivity.
Qed.

Definition limit_of (s : smap) (uni : bool) : Z := if uni then s_maxUni s else s_maxBidi s.

Lemma via_in_comp : forall s u io s' r fr uni, via_in s u (istep (s_in s u) io) = (s', r, fr) ->
  (if Bool.eqb u uni then istep (s_in s uni) io = (s_in s' uni, r, fr) else s_in s' uni = s_in s uni) /\
  s_client s' = s_client s /\ s_maxBidi s' = s_maxBidi s /\ s_maxUni s' = s_maxUni s.
Proof.
  intros s u io s' r fr uni E. destruct (istep (s_in s u) io) as [[m x] f0] eqn:S1. cbn [via_in] in E.
  inj3 E. subst s' x f0. rewrite s_in_set_in. split; [|apply set_in_params].
  destruct (Bool.eqb u uni) eqn:Q; [|reflexivity]. apply eqb_prop in Q. subst u. exact S1.
Qed.

Lemma via_out_comp : forall s u x s' r fr uni, via_out s u x = (s', r, fr) ->
  s_in s' uni = s_in s uni /\ s_client s' = s_client s /\ s_maxBidi s' = s_maxBidi s /\ s_maxUni s' = s_maxUni s.
Proof.
  intros s u [[m x] f0] s' r fr uni E. cbn [via_out] in E. inj3 E. subst s'.
  split; [apply s_in_set_out|apply set_out_params].
Qed.

(** one step of the streams map, seen from the incoming map of type [uni] *)
Lemma tstep_proj_in : forall s o s' r fr uni, tstep s o = (s', r, fr) ->
  (if is_reset o then s_in s' uni = init_in uni (s_client s) (limit_of s uni)
   else match proj_step_in uni s o with
        | Some io => istep (s_in s uni) io = (s_in s' uni, r, fr)
        | None => s_in s' uni = s_in s uni
        end) /\
  s_client s' = s_client s /\ s_maxBidi s' = s_maxBidi s /\ s_maxUni s' = s_maxUni s.
Proof.
  intros s o s' r fr uni E. unfold tstep in E.
  destruct (tstep_core s o) as [[s1 r1] fr1] eqn:C. inj3 E. subst r1 fr1 s'.
  rewrite s_in_rsa_update. destruct (rsa_update_params o s1 r) as (Q1 & Q2 & Q3). rewrite Q1, Q2, Q3.
  assert (Same : forall P : Prop, s1 = s -> (s_in s uni = s_in s uni -> P) -> P /\
            s_client s1 = s_client s /\ s_maxBidi s1 = s_maxBidi s /\ s_maxUni s1 = s_maxUni s).
  { intros P -> HP. split; [apply HP; reflexivity|repeat split; reflexivity]. }
  destruct o as [u|u w c|u w|u w|u a|u a|u a|id|u n|nb nu rsa|id|id|e| |];
    cbn [tstep_core proj_step_in is_reset] in *.
  - destruct (s_reset s); [inj3 C; subst s1; repeat split; reflexivity|]. eapply via_out_comp; eauto.
  - destruct (s_reset s); [inj3 C; subst s1; repeat split; reflexivity|]. eapply via_out_comp; eauto.
  - destruct (zmem w (s_zomb s)); [inj3 C; subst s1; repeat split; reflexivity|]. eapply via_out_comp; eauto.
  - destruct (zmem w (s_zomb s)); [inj3 C; subst s1; repeat split; reflexivity|]. eapply via_out_comp; eauto.
  - destruct (s_reset s); cbn [negb andb].
    + rewrite andb_false_r. inj3 C; subst s1; repeat split; reflexivity.
    + rewrite andb_true_r. destruct (via_in_comp _ _ _ _ _ _ uni C) as [H P]. split; [|exact P].
      destruct (Bool.eqb u uni); exact H.
  - destruct (zmem a (s_zacc s)); cbn [negb andb].
    + rewrite andb_false_r. cbn [andb]. inj3 C; subst s1; repeat split; reflexivity.
    + rewrite andb_true_r. destruct (zmem a (i_parked (s_in s u))).
      * rewrite andb_true_r. destruct (via_in_comp _ _ _ _ _ _ uni C) as [H P]. split; [|exact P].
        destruct (Bool.eqb u uni); exact H.
      * rewrite andb_false_r. inj3 C; subst s1; repeat split; reflexivity.
  - destruct (zmem a (s_zacc s)); cbn [negb andb].
    + rewrite andb_false_r. inj3 C; subst s1; repeat split; reflexivity.
    + rewrite andb_true_r. destruct (via_in_comp _ _ _ _ _ _ uni C) as [H P]. split; [|exact P].
      destruct (Bool.eqb u uni); exact H.
  - unfold t_delete in C. destruct (by_self s id); cbn [negb andb].
    + eapply via_out_comp; eauto.
    + destruct (via_in_comp _ _ _ _ _ _ uni C) as [H P]. split; [|exact P].
      destruct (Bool.eqb (id_is_uni id) uni); exact H.
  - eapply via_out_comp; eauto.
  - destruct (via_out s false _) as [[s2 x2] f2] eqn:E1. destruct (via_out s2 true _) as [[s3 x3] f3] eqn:E2.
    inj3 C. subst s1.
    destruct (via_out_comp _ _ _ _ _ _ uni E1) as (A0 & A1 & A2 & A3).
    destruct (via_out_comp _ _ _ _ _ _ uni E2) as (B0 & B1 & B2 & B3).
    repeat split; congruence.
  - unfold t_get_recv in C. destruct (id_is_uni id) eqn:U, (by_self s id) eqn:S; cbn [negb andb];
      try (inj3 C; subst s1; repeat split; reflexivity);
      (destruct (via_in_comp _ _ _ _ _ _ uni C) as [H P]; split; [|exact P]; destruct (Bool.eqb _ uni); exact H).
  - unfold t_get_send in C. destruct (id_is_uni id) eqn:U, (by_self s id) eqn:S; cbn [negb andb] in *;
      try (inj3 C; subst s1; repeat split; reflexivity).
    destruct (via_in_comp _ _ _ _ _ _ uni C) as [H P]. split; [|exact P].
    destruct uni; cbn [Bool.eqb negb] in *; exact H.
  - inj3 C. subst s1 r fr. split; [|repeat split; reflexivity]. destruct uni; reflexivity.
  - inj3 C. subst s1. split; [|repeat split; reflexivity]. destruct uni; reflexivity.
  - inj3 C. subst s1. repeat split; reflexivity.
Qed.

(** running the streams map and looking at the incoming map = running that map on the projection *)
Lemma proj_in_run : forall uni ops s s' outs acc c N,
  trun s ops = (s', outs) -> s_client s = c -> limit_of s uni = N ->
  irun (init_in uni c N) (map fst acc) = (s_in s uni, map snd acc) ->
  irun (init_in uni c N) (map fst (proj_in uni s ops acc)) = (s_in s' uni, map snd (proj_in uni s ops acc)).
Proof.
  intros uni. induction ops as [|o ops IH]; intros s s' outs acc c N E Hc HN Hacc; cbn [trun proj_in] in *.
  - injection E as <- _. exact Hacc.
  - destruct (tstep s o) as [[s1 x] fr] eqn:S1. destruct (trun s1 ops) as [s2 outs2] eqn:R.
    injection E as <- _.
    destruct (tstep_proj_in _ _ _ _ _ uni S1) as (H & P1 & P2 & P3).
    assert (HN1 : limit_of s1 uni = N) by (unfold limit_of in *; destruct uni; congruence).
    apply (IH _ _ _ _ c N R); [congruence|exact HN1|].
    destruct (is_reset o).
    + cbn [map]. rewrite H, Hc, HN. reflexivity.
    + destruct (proj_step_in uni s o) as [io|].
      * rewrite !map_app. cbn [map fst snd]. eapply irun_snoc; eauto.
      * rewrite H. exact Hacc.
Qed.

(** the projected ops satisfy the single-map well-formedness *)
Lemma proj_step_in_ok : forall uni s o io, top_ok o -> proj_step_in uni s o = Some io ->
  iop_ok (first_incoming uni (s_client s)) io.
Proof.
  intros uni s o io Hok H.
  destruct o; cbn [proj_step_in top_ok] in *; try discriminate;
    try (match type of H with (if ?b then _ else _) = _ => destruct b eqn:B; [|discriminate] end;
         injection H as <-; try exact Logic.I).
  - (* ORecv *) apply andb_true_iff in B. destruct B as [B1 B2]. apply negb_true_iff in B1. apply eqb_prop in B2.
    cbn [iop_ok]. rewrite <- B2. apply dispatch_lattice; assumption.
  - (* OSend *) apply andb_true_iff in B. destruct B as [B B3]. apply andb_true_iff in B. destruct B as [B1 B2].
    apply negb_true_iff in B1, B2, B3. subst uni. cbn [iop_ok]. rewrite <- B2. apply dispatch_lattice; assumption.
  - injection H as <-. exact Logic.I.
Qed.

Lemma proj_in_ok : forall uni ops s s' outs acc c,
  trun s ops = (s', outs) -> s_client s = c -> Forall top_ok ops ->
  Forall (iop_ok (first_incoming uni c)) (map fst acc) ->
  Forall (iop_ok (first_incoming uni c)) (map fst (proj_in uni s ops acc)).
Proof.
  intros uni. induction ops as [|o ops IH]; intros s s' outs acc c E Hc Hok Hacc; cbn [trun proj_in] in *.
  - exact Hacc.
  - destruct (tstep s o) as [[s1 x] fr] eqn:S1. destruct (trun s1 ops) as [s2 outs2] eqn:R.
    injection E as <- _. inversion Hok as [|? ? Ho Hops]; subst.
    destruct (tstep_proj_in _ _ _ _ _ uni S1) as (_ & P1 & _).
    apply (IH _ _ _ _ (s_client s) R); [exact P1|exact Hops|].
    destruct (is_reset o); [constructor|].
    destruct (proj_step_in uni s o) as [io|] eqn:Pj; [|exact Hacc].
    rewrite map_app. apply Forall_app. split; [exact Hacc|]. constructor; [|constructor].
    eapply proj_step_in_ok; eauto.
Qed.

(** ** The trace theorems of the incoming maps at the newStreamsMap level.
    [proj_in uni (init_sm ...) ops []] is a function of the top-level op list: the steps that reached
    the incoming map of type [uni] since the last ResetFor0RTT, with their results and queued frames. *)
Theorem sm_incoming_trace : forall client mb mu ops s outs (uni : bool),
  0 <= mb -> 0 <= mu -> Forall top_ok ops ->
  trun (init_sm client mb mu) ops = (s, outs) ->
  let N := (if uni then mu else mb) : Z in
  let P := proj_in uni (init_sm client mb mu) ops [] in
  let iops := map fst P in let iouts := map snd P in
  (* the component is the single-map run on the projection *)
  irun (init_in uni client N) iops = (s_in s uni, iouts) /\
  (* AcceptStream: first, first+4, ... each once, whatever the callers *)
  accepted iops iouts = ids_from (first_incoming uni client) (length (accepted iops iouts)) /\
  i_nextAccept (s_in s uni) = first_incoming uni client + 4 * zlen (accepted iops iouts) /\
  NoDup (map snd (accepted_by iops iouts)) /\
  (* MAX_STREAMS: strictly increasing chain from the configured limit to the limit now enforced *)
  chain uni N (frames_of iouts) (in_adv (s_in s uni)) /\
  (* bound and, below 2^60, exact credit *)
  zlen (i_streams (s_in s uni)) <= N /\
  (in_opened (s_in s uni) + N <= SM_MaxStreamCount -> in_credit (s_in s uni) + zlen (i_streams (s_in s uni)) = N).
Proof.
  intros client mb mu ops s outs uni Hb Hu Hok E N P iops iouts.
  assert (HN : 0 <= N) by (unfold N; destruct uni; assumption).
  assert (R : irun (init_in uni client N) iops = (s_in s uni, iouts)).
  { apply (proj_in_run uni ops _ _ _ [] client N E); [reflexivity|unfold limit_of, N; destruct uni; reflexivity|].
    cbn. destruct uni; reflexivity. }
  assert (K : Forall (iop_ok (first_incoming uni client)) iops).
  { apply (proj_in_ok uni ops _ _ _ [] client E); [reflexivity|exact Hok|constructor]. }
  destruct (in_accept_order _ _ _ _ _ _ HN K R) as [A1 A2].
  destruct (in_accept_concurrent _ _ _ _ _ _ HN K R) as [_ A3].
  destruct (in_bound _ _ _ _ _ _ HN K R) as (B1 & _ & _ & B4 & _).
  repeat split; auto. intros Hbd. eapply in_credit_exact; eauto.
Qed.

(** * The outgoing maps *)

Definition proj_step_out (uni : bool) (s : smap) (o : op) : option oop :=
  match o with
  | OOpen u => if Bool.eqb u uni && negb (s_reset s) then Some OpOpen else None
  | OSyncCall u w c => if Bool.eqb u uni && negb (s_reset s) then Some (OpSyncCall w c) else None
  | OSyncWake u w => if Bool.eqb u uni && negb (zmem w (s_zomb s)) then Some (OpSyncWake w) else None
  | OSyncCancel u w => if Bool.eqb u uni && negb (zmem w (s_zomb s)) then Some (OpSyncCancel w) else None
  | ODelete id => if by_self s id && Bool.eqb (id_is_uni id) uni then Some (OpDelete id) else None
  | OMaxStreams u n => if Bool.eqb u uni then Some (OpSetMax (num_to_id n u (s_client s))) else None
  | OTransportParams nb nu _ => Some (OpSetMax (num_to_id (if uni then nu else nb) uni (s_client s)))
  | OClose e => Some (OpClose e)
  | _ => None
  end.

(** the map-level history since the last ResetFor0RTT, with the map's own results and frames *)
Fixpoint proj_out (uni : bool) (s : smap) (ops : list op) (acc : list (oop * (res * list frame)))
  : list (oop * (res * list frame)) :=
  match ops with
  | [] => acc
  | o :: r =>
    let '(s', _, _) := tstep s o in
    proj_out uni s' r
      (if is_reset o then []
       else match proj_step_out uni s o with
            | Some oo => let '(_, x, fr) := ostep (s_out s uni) oo in acc ++ [(oo, (x, fr))]
            | None => acc
            end)
  end.

Lemma via_out_comp_out : forall s u oo s' r fr uni, via_out s u (ostep (s_out s u) oo) = (s', r, fr) ->
  (if Bool.eqb u uni then fst (fst (ostep (s_out s uni) oo)) = s_out s' uni else s_out s' uni = s_out s uni) /\
  s_client s' = s_client s.
Proof.
  intros s u oo s' r fr uni E. destruct (ostep (s_out s u) oo) as [[m x] f0] eqn:S1. cbn [via_out] in E.
  inj3 E. subst s' x f0. rewrite s_out_set_out. split; [|apply set_out_params].
  destruct (Bool.eqb u uni) eqn:Q; [|reflexivity]. apply eqb_prop in Q. subst u. rewrite S1. reflexivity.
Qed.

Lemma via_in_comp_out : forall s u x s' r fr uni, via_in s u x = (s', r, fr) ->
  s_out s' uni = s_out s uni /\ s_client s' = s_client s.
Proof.
  intros s u [[m x] f0] s' r fr uni E. cbn [via_in] in E. inj3 E. subst s'.
  split; [apply s_out_set_in|apply set_in_params].
Qed.

Lemma tstep_proj_out : forall s o s' r fr uni, tstep s o = (s', r, fr) ->
  (if is_reset o then s_out s' uni = init_out uni (s_client s)
   else match proj_step_out uni s o with
        | Some oo => fst (fst (ostep (s_out s uni) oo)) = s_out s' uni
        | None => s_out s' uni = s_out s uni
        end) /\
  s_client s' = s_client s.
Proof.
  intros s o s' r fr uni E. unfold tstep in E.
  destruct (tstep_core s o) as [[s1 r1] fr1] eqn:C. inj3 E. subst r1 fr1 s'.
  rewrite s_out_rsa_update. destruct (rsa_update_params o s1 r) as (Q1 & _). rewrite Q1.
  destruct o as [u|u w c|u w|u w|u a|u a|u a|id|u n|nb nu rsa|id|id|e| |];
    cbn [tstep_core proj_step_out is_reset] in *.
  - destruct (s_reset s); cbn [negb]; [rewrite andb_false_r; inj3 C; subst s1; split; reflexivity|].
    rewrite andb_true_r. destruct (via_out_comp_out _ _ _ _ _ _ uni C) as [H P]. split; [|exact P].
    destruct (Bool.eqb u uni); exact H.
  - destruct (s_reset s); cbn [negb]; [rewrite andb_false_r; inj3 C; subst s1; split; reflexivity|].
    rewrite andb_true_r. destruct (via_out_comp_out _ _ _ _ _ _ uni C) as [H P]. split; [|exact P].
    destruct (Bool.eqb u uni); exact H.
  - destruct (zmem w (s_zomb s)); cbn [negb]; [rewrite andb_false_r; inj3 C; subst s1; split; reflexivity|].
    rewrite andb_true_r. destruct (via_out_comp_out _ _ _ _ _ _ uni C) as [H P]. split; [|exact P].
    destruct (Bool.eqb u uni); exact H.
  - destruct (zmem w (s_zomb s)); cbn [negb]; [rewrite andb_false_r; inj3 C; subst s1; split; reflexivity|].
    rewrite andb_true_r. destruct (via_out_comp_out _ _ _ _ _ _ uni C) as [H P]. split; [|exact P].
    destruct (Bool.eqb u uni); exact H.
  - destruct (s_reset s); [inj3 C; subst s1; split; reflexivity|]. eapply via_in_comp_out; eauto.
  - destruct (zmem a (s_zacc s)); [inj3 C; subst s1; split; reflexivity|].
    destruct (zmem a (i_parked (s_in s u))); [eapply via_in_comp_out; eauto|inj3 C; subst s1; split; reflexivity].
  - destruct (zmem a (s_zacc s)); [inj3 C; subst s1; split; reflexivity|]. eapply via_in_comp_out; eauto.
  - unfold t_delete in C. destruct (by_self s id); cbn [andb].
    + destruct (via_out_comp_out _ _ _ _ _ _ uni C) as [H P]. split; [|exact P].
      destruct (Bool.eqb (id_is_uni id) uni); exact H.
    + eapply via_in_comp_out; eauto.
  - destruct (via_out_comp_out _ _ _ _ _ _ uni C) as [H P]. split; [|exact P].
    destruct (Bool.eqb u uni); exact H.
  - destruct (via_out s false _) as [[s2 x2] f2] eqn:E1. destruct (via_out s2 true _) as [[s3 x3] f3] eqn:E2.
    inj3 C. subst s1.
    destruct (via_out_comp_out s false _ _ _ _ uni E1) as [H1 P1].
    destruct (via_out_comp_out s2 true _ _ _ _ uni E2) as [H2 P2].
    split; [|congruence].
    destruct uni; cbn [Bool.eqb] in *.
    + (* uni map: untouched by the first call *)
      rewrite H1 in H2. exact H2.
    + rewrite H2. exact H1.
  - unfold t_get_recv in C. destruct (id_is_uni id), (by_self s id);
      try (inj3 C; subst s1; split; reflexivity); eapply via_in_comp_out; eauto.
  - unfold t_get_send in C. destruct (id_is_uni id), (by_self s id); cbn [negb] in C;
      try (inj3 C; subst s1; split; reflexivity); eapply via_in_comp_out; eauto.
  - inj3 C. subst s1. split; [|reflexivity]. destruct uni; reflexivity.
  - inj3 C. subst s1. split; [|reflexivity]. destruct uni; reflexivity.
  - inj3 C. subst s1. split; reflexivity.
Qed.

Lemma proj_out_run : forall uni ops s s' outs acc c,
  trun s ops = (s', outs) -> s_client s = c ->
  orun (init_out uni c) (map fst acc) = (s_out s uni, map snd acc) ->
  orun (init_out uni c) (map fst (proj_out uni s ops acc)) = (s_out s' uni, map snd (proj_out uni s ops acc)).
Proof.
  intros uni. induction ops as [|o ops IH]; intros s s' outs acc c E Hc Hacc; cbn [trun proj_out] in *.
  - injection E as <- _. exact Hacc.
  - destruct (tstep s o) as [[s1 x] fr] eqn:S1. destruct (trun s1 ops) as [s2 outs2] eqn:R.
    injection E as <- _.
    destruct (tstep_proj_out _ _ _ _ _ uni S1) as (H & P1).
    apply (IH _ _ _ _ c R); [congruence|].
    destruct (is_reset o).
    + cbn [map]. rewrite H, Hc. reflexivity.
    + destruct (proj_step_out uni s o) as [oo|].
      * destruct (ostep (s_out s uni) oo) as [[m1 x1] fr1] eqn:S2. cbn [fst] in H. subst m1.
        rewrite !map_app. cbn [map fst snd]. eapply orun_snoc; eauto.
      * rewrite H. exact Hacc.
Qed.

Lemma proj_step_out_ok : forall uni s o oo, top_ok o -> proj_step_out uni s o = Some oo ->
  oop_ok (first_outgoing uni (s_client s)) oo.
Proof.
  intros uni s o oo Hok H.
  destruct o; cbn [proj_step_out top_ok] in *; try discriminate;
    try (match type of H with (if ?b then _ else _) = _ => destruct b eqn:B; [|discriminate] end;
         injection H as <-; try exact Logic.I).
  - apply eqb_prop in B. subst uni0. apply set_max_ok. exact Hok.
  - injection H as <-. apply set_max_ok. destruct uni; tauto.
  - injection H as <-. exact Logic.I.
Qed.

Lemma proj_out_ok : forall uni ops s s' outs acc c,
  trun s ops = (s', outs) -> s_client s = c -> Forall top_ok ops ->
  Forall (oop_ok (first_outgoing uni c)) (map fst acc) ->
  Forall (oop_ok (first_outgoing uni c)) (map fst (proj_out uni s ops acc)).
Proof.
  intros uni. induction ops as [|o ops IH]; intros s s' outs acc c E Hc Hok Hacc; cbn [trun proj_out] in *.
  - exact Hacc.
  - destruct (tstep s o) as [[s1 x] fr] eqn:S1. destruct (trun s1 ops) as [s2 outs2] eqn:R.
    injection E as <- _. inversion Hok as [|? ? Ho Hops]; subst.
    destruct (tstep_proj_out _ _ _ _ _ uni S1) as (_ & P1).
    apply (IH _ _ _ _ (s_client s) R); [exact P1|exact Hops|].
    destruct (is_reset o); [constructor|].
    destruct (proj_step_out uni s o) as [oo|] eqn:Pj; [|exact Hacc].
    destruct (ostep (s_out s uni) oo) as [[m1 x1] fr1].
    rewrite map_app. apply Forall_app. split; [exact Hacc|]. constructor; [|constructor].
    eapply proj_step_out_ok; eauto.
Qed.

(** ** The trace theorems of the outgoing maps at the newStreamsMap level *)
Theorem sm_outgoing_trace : forall client mb mu ops s outs (uni : bool),
  0 <= mb -> 0 <= mu -> Forall top_ok ops ->
  trun (init_sm client mb mu) ops = (s, outs) ->
  let P := proj_out uni (init_sm client mb mu) ops [] in
  let oops := map fst P in let oouts := map snd P in
  orun (init_out uni client) oops = (s_out s uni, oouts) /\
  (* locally opened IDs: first, first+4, ..., each within the peer's limit *)
  opened oops oouts = ids_from (first_outgoing uni client) (length (opened oops oouts)) /\
  Forall (fun id => id <= o_max (s_out s uni)) (opened oops oouts) /\
  o_next (s_out s uni) = first_outgoing uni client + 4 * zlen (opened oops oouts) /\
  (* STREAMS_BLOCKED: strictly increasing limits; the last names the current limit iff blockedSent *)
  (exists B, bchain uni (-1) (frames_of oouts) B /\
     (if o_blockedSent (s_out s uni) then B = out_limit (s_out s uni) else B < out_limit (s_out s uni))) /\
  (* FIFO: served callers are a subsequence of the arrivals *)
  subseq (served oops oouts) (arrivals oops oouts).
Proof.
  intros client mb mu ops s outs uni Hb Hu Hok E P oops oouts.
  assert (R : orun (init_out uni client) oops = (s_out s uni, oouts)).
  { apply (proj_out_run uni ops _ _ _ [] client E); [reflexivity|]. cbn. destruct uni; reflexivity. }
  assert (K : Forall (oop_ok (first_outgoing uni client)) oops).
  { apply (proj_out_ok uni ops _ _ _ [] client E); [reflexivity|exact Hok|constructor]. }
  destruct (out_ids _ _ _ _ _ K R) as (O1 & O2 & O3 & _).
  destruct (out_blocked_history _ _ _ _ _ K R) as (B & B1 & B2 & _).
  pose proof (out_fifo _ _ _ _ _ K R) as F.
  repeat split; auto. exists B. split; assumption.
Qed.
