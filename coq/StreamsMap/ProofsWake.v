(** No lost wake-up for AcceptStream (repaired protocol), and the witness for the old one. *)
From Coq Require Import List ZArith Bool Lia.
From V Require Import StreamsMap.AcceptWake.
Import ListNotations.
Open Scope Z_scope.

(** I1: if a stream is waiting, a wake-up is on its way: a buffered token, or a caller that will
    look at the map.  I2: a token is only buffered when nobody is blocked in the select. *)
Definition AWInv (m : aw) : Prop :=
  0 <= aw_avail m /\
  (0 < aw_avail m -> aw_tok m = true \/ has_runnable (aw_callers m) = true) /\
  (aw_tok m = true -> has_waiting (aw_callers m) = false).

Lemma wake_first_none : forall l, wake_first l = None <-> has_waiting l = false.
Proof.
  induction l as [|[c p] r IH]; cbn; [tauto|].
  destruct (waiting p); cbn; [split; discriminate|].
  destruct (wake_first r); [split; [discriminate|intros H; apply IH in H; discriminate]|].
  tauto.
Qed.

Lemma wake_first_some : forall l l', wake_first l = Some l' -> has_runnable l' = true.
Proof.
  induction l as [|[c p] r IH]; cbn; intros l' H; [discriminate|].
  destruct (waiting p).
  - injection H as <-. reflexivity.
  - destruct (wake_first r) as [r'|]; [|discriminate]. injection H as <-.
    unfold has_runnable in *. cbn [existsb]. rewrite (IH r' eq_refl). apply orb_true_r.
Qed.

Lemma signal_inv : forall m, 0 <= aw_avail m ->
  (aw_tok m = true -> has_waiting (aw_callers m) = false) ->
  AWInv (signal m) /\ aw_avail (signal m) = aw_avail m /\
  (aw_tok (signal m) = true \/ has_runnable (aw_callers (signal m)) = true).
Proof.
  intros m H0 H2. unfold signal, AWInv.
  destruct (wake_first (aw_callers m)) as [l|] eqn:W; cbn.
  - pose proof (wake_first_some _ _ W) as R.
    assert (T : aw_tok m = false).
    { destruct (aw_tok m); [|reflexivity]. specialize (H2 eq_refl). apply wake_first_none in H2. congruence. }
    rewrite T. repeat split; auto; discriminate.
  - apply wake_first_none in W. repeat split; auto.
Qed.

Lemma signal_n_inv : forall n m, AWInv m -> AWInv (signal_n n m) /\ aw_avail (signal_n n m) = aw_avail m.
Proof.
  induction n as [|n IH]; intros m I; cbn; [split; [exact I|reflexivity]|].
  destruct I as (I0 & I1 & I2). destruct (signal_inv m I0 I2) as (Is & Ea & _).
  destruct (IH _ Is) as [I' E']. split; [exact I'|congruence].
Qed.

Lemma has_runnable_app : forall l c, has_runnable (l ++ [(c, PDrained)]) = true.
Proof. intros. unfold has_runnable. rewrite existsb_app. cbn. apply orb_true_r. Qed.
Lemma has_waiting_app : forall l c, has_waiting (l ++ [(c, PDrained)]) = has_waiting l.
Proof. intros. unfold has_waiting. rewrite existsb_app. cbn. rewrite !orb_false_r. reflexivity. Qed.

Ltac simp_aw := cbn [existsb set_phase drop_caller get_phase snd fst] in *.

Lemma set_phase_waiting : forall c q l, waiting q = false ->
  has_waiting (set_phase c q l) = true -> has_waiting l = true.
Proof.
  unfold has_waiting. induction l as [|[x p] r IH]; simp_aw; intros Hq H; [discriminate|].
  destruct (c =? x); simp_aw.
  - rewrite Hq in H. cbn [orb] in H. rewrite H. apply orb_true_r.
  - apply orb_true_iff in H. destruct H as [H|H]; [rewrite H; reflexivity|]. rewrite (IH Hq H). apply orb_true_r.
Qed.

Lemma set_phase_runnable_new : forall c q p l, get_phase c l = Some p -> runnable q = true ->
  has_runnable (set_phase c q l) = true.
Proof.
  unfold has_runnable. induction l as [|[x p0] r IH]; simp_aw; intros G Hq; [discriminate|].
  destruct (c =? x); simp_aw; [rewrite Hq; reflexivity|]. rewrite (IH G Hq). apply orb_true_r.
Qed.

Lemma set_phase_runnable_keep : forall c q p l, get_phase c l = Some p -> runnable p = false ->
  has_runnable l = true -> has_runnable (set_phase c q l) = true.
Proof.
  unfold has_runnable. induction l as [|[x p0] r IH]; simp_aw; intros G Hp H; [discriminate|].
  destruct (c =? x); simp_aw.
  - injection G as ->. rewrite Hp in H. cbn [orb] in H. rewrite H. apply orb_true_r.
  - apply orb_true_iff in H. destruct H as [H|H]; [rewrite H; reflexivity|]. rewrite (IH G Hp H). apply orb_true_r.
Qed.

Lemma drop_waiting : forall c l, has_waiting (drop_caller c l) = true -> has_waiting l = true.
Proof.
  unfold has_waiting. induction l as [|[x p] r IH]; simp_aw; intros H; [discriminate|].
  destruct (c =? x); simp_aw; [rewrite H; apply orb_true_r|].
  apply orb_true_iff in H. destruct H as [H|H]; [rewrite H; reflexivity|]. rewrite (IH H). apply orb_true_r.
Qed.

Lemma drop_runnable_keep : forall c p l, get_phase c l = Some p -> runnable p = false ->
  has_runnable l = true -> has_runnable (drop_caller c l) = true.
Proof.
  unfold has_runnable. induction l as [|[x p0] r IH]; simp_aw; intros G Hp H; [discriminate|].
  destruct (c =? x); simp_aw.
  - injection G as ->. rewrite Hp in H. exact H.
  - apply orb_true_iff in H. destruct H as [H|H]; [rewrite H; reflexivity|]. rewrite (IH G Hp H). apply orb_true_r.
Qed.

Lemma not_true_false : forall b, (b = true -> False) -> b = false.
Proof. intros [] H; [exfalso; auto|reflexivity]. Qed.

Lemma aw_step_inv : forall m o, AWInv m -> AWInv (aw_step true m o).
Proof.
  intros m o I. pose proof I as (I0 & I1 & I2).
  destruct o as [k|c|c|c|c]; cbn [aw_step].
  - destruct (Z.leb_spec k 0); [exact I|].
    destruct (Z.to_nat k) as [|n] eqn:K; [lia|]. cbn [signal_n].
    set (m0 := mkAW _ _ _).
    assert (H0 : 0 <= aw_avail m0) by (unfold m0; cbn; lia).
    destruct (signal_inv m0 H0 I2) as (Is & _). apply signal_n_inv. exact Is.
  - destruct (get_phase c (aw_callers m)); [exact I|]. unfold AWInv; cbn.
    repeat split; [exact I0| |discriminate]. intros _. right. apply has_runnable_app.
  - destruct (get_phase c (aw_callers m)) as [p|] eqn:G; [|exact I].
    destruct (runnable p) eqn:R; [|exact I].
    destruct (Z.ltb_spec 0 (aw_avail m)).
    + cbn [andb]. set (m1 := mkAW _ _ _).
      assert (H2 : aw_tok m1 = true -> has_waiting (aw_callers m1) = false).
      { unfold m1; cbn. intros T. apply not_true_false. intros W. apply drop_waiting in W.
        rewrite (I2 T) in W. discriminate. }
      destruct (Z.ltb_spec 0 (aw_avail m1)).
      * apply signal_inv; [unfold m1; cbn; lia|exact H2].
      * unfold AWInv. repeat split; [unfold m1; cbn; lia|lia|exact H2].
    + unfold AWInv; cbn. repeat split; [exact I0|lia|].
      intros T. apply not_true_false. intros W. apply set_phase_waiting in W; [|reflexivity].
      rewrite (I2 T) in W. discriminate.
  - destruct (get_phase c (aw_callers m)) as [[]|] eqn:G; try exact I.
    destruct (aw_tok m) eqn:T; unfold AWInv; cbn.
    + repeat split; [exact I0| |discriminate]. intros _. right. eapply set_phase_runnable_new; eauto.
    + repeat split; [exact I0| |discriminate]. intros A. right.
      destruct (I1 A) as [E|E]; [discriminate|]. eapply set_phase_runnable_keep; eauto.
  - destruct (get_phase c (aw_callers m)) as [[]|] eqn:G; try exact I; unfold AWInv; cbn.
    + repeat split; [exact I0| |].
      * intros A. destruct (I1 A) as [E|E]; [left; exact E|right]. eapply drop_runnable_keep; eauto.
      * intros T. apply not_true_false. intros W. apply drop_waiting in W. rewrite (I2 T) in W. discriminate.
    + repeat split; [exact I0| |].
      * intros A. destruct (I1 A) as [E|E]; [left; exact E|right]. eapply drop_runnable_keep; eauto.
      * intros T. apply not_true_false. intros W. apply drop_waiting in W. rewrite (I2 T) in W. discriminate.
Qed.

Lemma aw_run_inv : forall ops m, AWInv m -> AWInv (fold_left (aw_step true) ops m).
Proof. induction ops as [|o ops IH]; intros m I; cbn; [exact I|]. apply IH. apply aw_step_inv. exact I. Qed.

Lemma aw_init_inv : AWInv aw_init.
Proof. unfold AWInv, aw_init; cbn. split; [lia|]. split; [intros H; lia|intros H; discriminate]. Qed.

Lemma quiescent_no_runnable : forall l, forallb (fun e => waiting (snd e)) l = true ->
  has_runnable l = false /\ (l <> [] -> has_waiting l = true).
Proof.
  induction l as [|[c p] r IH]; cbn; intros H; [split; [reflexivity|congruence]|].
  apply andb_true_iff in H. destruct H as [Hp Hr]. destruct (IH Hr) as [R W].
  destruct p; try discriminate. cbn. split; [exact R|reflexivity].
Qed.

(** ** C15_no_lost_wakeup (AcceptStream, repaired protocol): in every quiescent reachable state
    a caller is blocked only if no opened stream is waiting to be accepted. *)
Theorem no_lost_wakeup_accept : forall ops, let m := aw_run true ops in
  quiescent m = true -> aw_callers m <> [] -> aw_avail m = 0.
Proof.
  intros ops m Q N. unfold m, aw_run in *.
  destruct (aw_run_inv ops aw_init aw_init_inv) as (I0 & I1 & I2).
  destruct (quiescent_no_runnable _ Q) as [R W]. specialize (W N).
  destruct (Z.ltb_spec 0 (aw_avail (fold_left (aw_step true) ops aw_init))) as [L|L]; [|lia].
  exfalso. destruct (I1 L) as [T|T]; [|congruence]. rewrite (I2 T) in W. discriminate.
Qed.
