(** AcceptWake — fine-grained model of the wake-up protocol between GetOrOpenStream and any number
    of concurrent AcceptStream callers (streams_map_incoming.go), one step per atomic action:

      AcceptStream:  select { case <-newStreamChan: default: }     [ACall]   drain, not under the mutex
                     Lock; look at streams[nextStreamToAccept]      [ACheck]  found: take it, (re-signal), return
                                                                              not found: Unlock
                     select { case <-ctx.Done(); case <-newStreamChan }   [ASelect]  token buffered: take it, loop
                                                                                     else: block       [ACancel]
      GetOrOpenStream: for each new stream: select { case newStreamChan <- struct{}{}: default: }   [AOpen k]

    The channel has capacity 1.  A send to a channel on which a receiver is blocked is handed to
    that receiver (it becomes [PWoken]); otherwise it fills the buffer, or is dropped if the buffer
    is full.  [resignal] is the repair of fixes/C15-accept-lost-wakeup.patch: a caller that takes a
    stream signals again if the next stream is already there.  The map itself is abstracted to the
    number of opened, not yet accepted streams ([aw_avail]); coq/StreamsMap/Model.v has the rest.
    Definitions only; proofs in ProofsWake.v. *)
From Coq Require Import List ZArith Bool.
Import ListNotations.
Open Scope Z_scope.

Inductive phase :=
| PDrained   (* did the initial drain, will lock and check *)
| PWoken     (* received from newStreamChan, will lock and check *)
| PPre       (* checked, found nothing, unlocked; has not reached the select yet *)
| PWaiting.  (* blocked in the select *)

Record aw := mkAW { aw_avail : Z; aw_tok : bool; aw_callers : list (Z * phase) }.

Definition aw_init : aw := mkAW 0 false [].

Definition runnable (p : phase) : bool := match p with PDrained | PWoken => true | _ => false end.
Definition waiting (p : phase) : bool := match p with PWaiting => true | _ => false end.
Definition has_runnable (l : list (Z * phase)) : bool := existsb (fun e => runnable (snd e)) l.
Definition has_waiting (l : list (Z * phase)) : bool := existsb (fun e => waiting (snd e)) l.

(** hand a token to the first blocked receiver *)
Fixpoint wake_first (l : list (Z * phase)) : option (list (Z * phase)) :=
  match l with
  | [] => None
  | (c, p) :: r =>
    if waiting p then Some ((c, PWoken) :: r)
    else match wake_first r with Some r' => Some ((c, p) :: r') | None => None end
  end.

(** select { case newStreamChan <- struct{}{}: default: } *)
Definition signal (m : aw) : aw :=
  match wake_first (aw_callers m) with
  | Some l => mkAW (aw_avail m) (aw_tok m) l
  | None => mkAW (aw_avail m) true (aw_callers m)
  end.

Fixpoint signal_n (n : nat) (m : aw) : aw :=
  match n with O => m | S k => signal_n k (signal m) end.

Fixpoint get_phase (c : Z) (l : list (Z * phase)) : option phase :=
  match l with [] => None | (x, p) :: r => if c =? x then Some p else get_phase c r end.
Fixpoint set_phase (c : Z) (q : phase) (l : list (Z * phase)) : list (Z * phase) :=
  match l with [] => [] | (x, p) :: r => if c =? x then (x, q) :: r else (x, p) :: set_phase c q r end.
Fixpoint drop_caller (c : Z) (l : list (Z * phase)) : list (Z * phase) :=
  match l with [] => [] | (x, p) :: r => if c =? x then r else (x, p) :: drop_caller c r end.

Inductive awop := AOpen (k : Z) | ACall (c : Z) | ACheck (c : Z) | ASelect (c : Z) | ACancel (c : Z).

Definition aw_step (resignal : bool) (m : aw) (o : awop) : aw :=
  match o with
  | AOpen k =>
    if k <=? 0 then m
    else signal_n (Z.to_nat k) (mkAW (aw_avail m + k) (aw_tok m) (aw_callers m))
  | ACall c =>
    match get_phase c (aw_callers m) with
    | Some _ => m
    | None => mkAW (aw_avail m) false (aw_callers m ++ [(c, PDrained)])
    end
  | ACheck c =>
    match get_phase c (aw_callers m) with
    | Some p =>
      if runnable p then
        if 0 <? aw_avail m then
          let m1 := mkAW (aw_avail m - 1) (aw_tok m) (drop_caller c (aw_callers m)) in
          if resignal && (0 <? aw_avail m1) then signal m1 else m1
        else mkAW (aw_avail m) (aw_tok m) (set_phase c PPre (aw_callers m))
      else m
    | None => m
    end
  | ASelect c =>
    match get_phase c (aw_callers m) with
    | Some PPre =>
      if aw_tok m then mkAW (aw_avail m) false (set_phase c PWoken (aw_callers m))
      else mkAW (aw_avail m) false (set_phase c PWaiting (aw_callers m))
    | _ => m
    end
  | ACancel c =>
    match get_phase c (aw_callers m) with
    | Some PPre | Some PWaiting => mkAW (aw_avail m) (aw_tok m) (drop_caller c (aw_callers m))
    | _ => m
    end
  end.

Definition aw_run (resignal : bool) (ops : list awop) : aw := fold_left (aw_step resignal) ops aw_init.

(** every caller is blocked in its select: nothing will happen until the peer opens a stream *)
Definition quiescent (m : aw) : bool := forallb (fun e => waiting (snd e)) (aw_callers m).
