(** Proofs about the outgoing streams map: stream ID discipline, peer limit, STREAMS_BLOCKED
    once per limit, FIFO service of blocked OpenStreamSync callers, no lost credit. *)
From Coq Require Import List ZArith Bool Lia.
From Coq Require Import ZifyBool.
From V Require Import Gen.Params StreamsMap.Model StreamsMap.ProofsIn.
Import ListNotations.
Open Scope Z_scope.
Local Ltac Zify.zify_post_hook ::= Z.div_mod_to_equations.

Ltac simp_out :=
  cbn [o_uni o_streams o_queue o_next o_max o_blockedSent o_closed o_dead o_set_queue o_set_dead fst snd] in *.

(** the head of the open queue holds a wake-up token exactly when a stream can be opened;
    nobody else holds one *)
Definition head_tok (m : outmap) : Prop :=
  match o_queue m with
  | [] => True
  | (w, t) :: r => t = (o_next m <=? o_max m) /\ Forall (fun e => snd e = false) r
  end.

(** ghost numbers: [n] streams opened, [K] stream count allowed by the peer, [B] the limit
    named by the last STREAMS_BLOCKED (-1: none yet) *)
Definition InvOut (f : Z) (m : outmap) (n K B : Z) : Prop :=
  o_next m = f + 4 * n /\ 0 <= n <= K /\
  ((o_max m = -1 /\ K = 0) \/ (o_max m = f + 4 * (K - 1) /\ 1 <= K)) /\
  head_tok m /\
  (o_closed m <> None -> o_queue m = []) /\
  (if o_blockedSent m then B = K else B < K) /\ -1 <= B.

Definition oop_ok (f : Z) (op : oop) : Prop :=
  match op with
  | OpSetMax id => id = -1 \/ exists k, 1 <= k /\ id = f + 4 * (k - 1)
  | _ => True
  end.

Definition is_open_success (op : oop) (r : res) : bool :=
  match op, r with
  | OpOpen, RId _ | OpSyncCall _ _, RId _ | OpSyncWake _, RId _ => true
  | _, _ => false
  end.

Lemma first_outgoing_range : forall uni client, 0 <= first_outgoing uni client <= 3.
Proof. intros [] []; cbv; split; discriminate. Qed.

Lemma first_outgoing_lit : forall uni client, first_outgoing uni client = first_lit uni client.
Proof. intros [] []; reflexivity. Qed.

Lemma inv_out_init : forall uni client, InvOut (first_outgoing uni client) (init_out uni client) 0 0 (-1).
Proof.
  intros uni client. pose proof (first_outgoing_range uni client).
  unfold InvOut, init_out, head_tok; simp_out.
  repeat split; try lia. left. split; [reflexivity|lia].
Qed.

Lemma can_open_iff : forall f m n K B, 0 <= f <= 3 -> InvOut f m n K B ->
  (o_next m <=? o_max m) = (n <? K).
Proof.
  intros f m n K B Hf (Hn & Hr & HK & _).
  destruct HK as [[H1 H2]|[H1 H2]]; rewrite Hn, H1; lia.
Qed.

Lemma out_cnt_K : forall f m n K B, 0 <= f <= 3 -> InvOut f m n K B ->
  (if o_max m =? SM_InvalidStreamID then 0 else id_stream_num (o_max m)) = K.
Proof.
  intros f m n K B Hf (Hn & Hr & HK & _). unfold SM_InvalidStreamID, id_stream_num.
  destruct HK as [[H1 H2]|[H1 H2]]; rewrite H1.
  - subst K. reflexivity.
  - destruct (Z.eqb_spec (f + 4 * (K - 1)) (-1)); [lia|]. rewrite Z.quot_div_nonneg by lia. lia.
Qed.

(** frames a step may queue: nothing, or one STREAMS_BLOCKED naming the current limit, which
    is larger than the limit of any earlier STREAMS_BLOCKED *)
Definition bframes_ok (uni : bool) (B B' K' : Z) (fr : list frame) : Prop :=
  (fr = [] /\ B' = B) \/ (fr = [FBlocked uni B'] /\ B < B' /\ B' = K').

Lemma msb_inv : forall f m m' fr n K B, 0 <= f <= 3 ->
  InvOut f m n K B -> maybe_send_blocked m = (m', fr) ->
  exists B', InvOut f m' n K B' /\ bframes_ok (o_uni m) B B' K fr /\
    o_queue m' = o_queue m /\ o_next m' = o_next m /\ o_max m' = o_max m /\ o_closed m' = o_closed m /\
    o_uni m' = o_uni m /\ o_dead m' = o_dead m /\ o_streams m' = o_streams m.
Proof.
  intros f m m' fr n K B Hf I E. pose proof (out_cnt_K _ _ _ _ _ Hf I) as HC.
  unfold maybe_send_blocked in E.
  destruct (o_blockedSent m) eqn:BS.
  - injection E as E1 E2; subst m' fr. exists B. split; [exact I|]. split; [left; split; reflexivity|]. repeat split; reflexivity.
  - injection E as E1 E2; subst m' fr. rewrite HC.
    destruct I as (Hn & Hr & HK & Ht & Hc & Hb & HB). rewrite BS in Hb.
    exists K. unfold InvOut, head_tok in *; simp_out.
    split; [repeat split; auto; lia|]. split; [right; repeat split; auto; lia|]. repeat split; reflexivity.
Qed.

Lemma maybe_unblock_tok : forall m,
  (match o_queue m with
   | [] => True
   | (w, t) :: r => (t = true -> o_next m <= o_max m) /\ Forall (fun e => snd e = false) r
   end) -> head_tok (maybe_unblock m).
Proof.
  intros m H. unfold maybe_unblock, head_tok.
  destruct (o_queue m) as [|[w t] r] eqn:Q; [rewrite Q; exact I|].
  destruct H as [H1 H2].
  destruct (Z.ltb_spec (o_max m) (o_next m)) as [L|L].
  - rewrite Q. split; [|exact H2]. destruct t; [specialize (H1 eq_refl); lia|lia].
  - unfold o_set_queue; simp_out. split; [lia|exact H2].
Qed.

Lemma maybe_unblock_fields : forall m,
  o_next (maybe_unblock m) = o_next m /\ o_max (maybe_unblock m) = o_max m /\
  o_blockedSent (maybe_unblock m) = o_blockedSent m /\ o_closed (maybe_unblock m) = o_closed m /\
  o_uni (maybe_unblock m) = o_uni m /\ o_dead (maybe_unblock m) = o_dead m /\
  o_streams (maybe_unblock m) = o_streams m /\
  map fst (o_queue (maybe_unblock m)) = map fst (o_queue m).
Proof.
  intros m. unfold maybe_unblock. destruct (o_queue m) as [|[w t] r] eqn:Q; [rewrite Q; repeat split; reflexivity|].
  destruct (o_max m <? o_next m); [rewrite Q; repeat split; reflexivity|].
  unfold o_set_queue; simp_out. repeat split; reflexivity.
Qed.

Lemma maybe_unblock_nil : forall m, o_queue m = [] -> o_queue (maybe_unblock m) = [].
Proof. intros m H. unfold maybe_unblock. rewrite H. exact H. Qed.

Lemma Forall_filter : forall A (P : A -> Prop) (g : A -> bool) l, Forall P l -> Forall P (filter g l).
Proof.
  intros A P g l H. induction H as [|x l Hx Hl IH]; cbn; [constructor|].
  destruct (g x); [constructor; assumption|assumption].
Qed.

Lemma q_token_true_head : forall w q,
  (match q with [] => True | (_, _) :: r => Forall (fun e => snd e = false) r end) ->
  q_token w q = Some true -> exists r, q = (w, true) :: r /\ q_clear w q = (w, false) :: r.
Proof.
  intros w q H T. destruct q as [|[x t] r]; [discriminate|]. cbn [q_token q_clear] in *.
  destruct (Z.eqb_spec w x) as [E|E].
  - subst x. injection T as ->. exists r. split; reflexivity.
  - exfalso. clear E. induction H as [|[y s] r Hy Hr IH]; cbn [q_token] in T; [discriminate|].
    cbn [snd] in Hy. subst s. destruct (w =? y); [discriminate|auto].
Qed.

Ltac fin_out := repeat split; try lia; try reflexivity; try (left; split; reflexivity).

(** * One step *)

Lemma ostep_inv : forall f m op m' r fr n K B, 0 <= f <= 3 ->
  InvOut f m n K B -> oop_ok f op -> ostep m op = (m', r, fr) ->
  exists n' K' B', InvOut f m' n' K' B' /\ K <= K' /\ bframes_ok (o_uni m) B B' K' fr /\
    o_uni m' = o_uni m /\ o_max m <= o_max m' /\
    (if is_open_success op r then r = RId (o_next m) /\ o_next m <= o_max m /\ n' = n + 1 else n' = n).
Proof.
  intros f m op m' r fr n K B Hf I Hok E.
  pose proof (can_open_iff _ _ _ _ _ Hf I) as Hcan.
  destruct op as [|w c|w|w|id|id|id|e]; cbn [ostep oop_ok is_open_success] in *.
  - (* OpenStream *)
    unfold o_open in E. destruct (o_closed m) as [ce|] eqn:Cl.
    { inj3 E; subst m' r fr. exists n, K, B. split; [exact I|]. fin_out. }
    destruct (negb (is_nil (o_queue m)) || (o_max m <? o_next m)) eqn:C.
    + destruct (maybe_send_blocked m) as [m1 fr1] eqn:MS. inj3 E; subst m' r fr.
      destruct (msb_inv _ _ _ _ _ _ _ Hf I MS) as (B' & I' & Hfr & _ & _ & Hmx & _ & Hu & _).
      exists n, K, B'. split; [exact I'|]. repeat split; auto; lia.
    + apply orb_false_iff in C. destruct C as [C1 C2]. apply negb_false_iff in C1.
      destruct (o_queue m) eqn:Q; [|discriminate].
      unfold open_stream in E. inj3 E; subst m' r fr.
      destruct I as (Hn & Hr & HK & Ht & Hc & Hb & HB).
      exists (n + 1), K, B. unfold InvOut, head_tok; simp_out. rewrite Q.
      split; [|fin_out].
      repeat split; auto; try lia.
  - (* OpenStreamSync, call *)
    unfold o_sync_call in E. destruct (o_closed m) as [ce|] eqn:Cl.
    { inj3 E; subst m' r fr. exists n, K, B. split; [exact I|]. fin_out. }
    destruct c.
    { inj3 E; subst m' r fr. exists n, K, B. split; [exact I|]. fin_out. }
    destruct (is_nil (o_queue m) && (o_next m <=? o_max m)) eqn:C.
    + apply andb_true_iff in C. destruct C as [C1 C2]. destruct (o_queue m) eqn:Q; [|discriminate].
      unfold open_stream in E. inj3 E; subst m' r fr.
      destruct I as (Hn & Hr & HK & Ht & Hc & Hb & HB).
      exists (n + 1), K, B. unfold InvOut, head_tok; simp_out. rewrite Q.
      split; [|fin_out].
      repeat split; auto; try lia.
    + set (m0 := o_set_queue m (o_queue m ++ [(w, false)])) in *.
      assert (I0 : InvOut f m0 n K B).
      { destruct I as (Hn & Hr & HK & Ht & Hc & Hb & HB).
        unfold InvOut, head_tok, m0 in *; simp_out. repeat split; auto; try lia.
        - destruct (o_queue m) as [|[x t] q] eqn:Q; cbn [app].
          + cbn [is_nil andb] in C. split; [lia|constructor].
          + destruct Ht as [Ht1 Ht2]. split; [exact Ht1|]. apply Forall_app. split; [exact Ht2|].
            constructor; [reflexivity|constructor].
        - intros H. try rewrite Cl in H. congruence. }
      destruct (maybe_send_blocked m0) as [m1 fr1] eqn:MS. inj3 E; subst m' r fr.
      destruct (msb_inv _ _ _ _ _ _ _ Hf I0 MS) as (B' & I' & Hfr & _ & _ & Hmx & _ & Hu & _).
      exists n, K, B'. split; [exact I'|]. unfold m0 in *; simp_out. repeat split; auto; lia.
  - (* OpenStreamSync, woken through the channel *)
    unfold o_sync_wake in E.
    destruct (zmem w (o_dead m)).
    { inj3 E; subst m' r fr. exists n, K, B.
      split; [exact I|]. fin_out. }
    destruct (q_token w (o_queue m)) as [[]|] eqn:T.
    2,3: inj3 E; subst m' r fr; exists n, K, B; split; [exact I|]; fin_out.
    pose proof I as (Hn & Hr & HK & Ht & Hc & Hb & HB).
    assert (Hq : exists q, o_queue m = (w, true) :: q /\ q_clear w (o_queue m) = (w, false) :: q).
    { apply q_token_true_head; [|exact T]. unfold head_tok in Ht.
      destruct (o_queue m) as [|[x t] q]; [exact Logic.I|]. exact (proj2 Ht). }
    destruct Hq as (q & Q1 & Q2). rewrite Q2 in E.
    unfold head_tok in Ht. rewrite Q1 in Ht. destruct Ht as [Ht1 Ht2]. symmetry in Ht1.
    unfold o_set_queue in E; simp_out.
    destruct (o_closed m) as [ce|] eqn:Cl.
    { exfalso. assert (o_queue m = []) by (apply Hc; discriminate). congruence. }
    destruct (Z.ltb_spec (o_max m) (o_next m)) as [L|L]; [lia|].
    unfold open_stream in E; simp_out. cbn [tl] in E. inj3 E; subst m' r fr.
    set (m3 := mkOut _ _ _ _ _ _ _ _).
    pose proof (maybe_unblock_fields m3) as (F1 & F2 & F3 & F4 & F5 & F6 & F7 & F8).
    exists (n + 1), K, B. unfold InvOut. rewrite F1, F2, F3, F4, F5.
    split; [|unfold m3; simp_out; fin_out].
    unfold m3 at 1 2 3 4 5 6; simp_out.
    repeat split; auto; try lia.
    + apply maybe_unblock_tok. unfold m3; simp_out.
      destruct q as [|[x t] q']; [exact Logic.I|]. inversion Ht2 as [|? ? Hx Hq']; subst. cbn [snd] in Hx. subst t.
      split; [discriminate|exact Hq'].
    + intros H. try rewrite Cl in H. congruence.
  - (* OpenStreamSync, context cancelled *)
    unfold o_sync_cancel in E.
    destruct (zmem w (o_dead m)).
    { inj3 E; subst m' r fr. exists n, K, B.
      split; [exact I|]. fin_out. }
    destruct (q_token w (o_queue m)) as [t|] eqn:T.
    2: inj3 E; subst m' r fr; exists n, K, B; split; [exact I|]; fin_out.
    inj3 E; subst m' r fr.
    set (m1 := o_set_queue m (q_remove w (o_queue m))).
    pose proof (maybe_unblock_fields m1) as (F1 & F2 & F3 & F4 & F5 & F6 & F7 & F8).
    pose proof I as (Hn & Hr & HK & Ht & Hc & Hb & HB).
    exists n, K, B. unfold InvOut. rewrite F1, F2, F3, F4, F5.
    split; [|unfold m1; simp_out; fin_out].
    unfold m1 at 1 2 3 4 5 6; simp_out.
    repeat split; auto; try lia.
    + apply maybe_unblock_tok. unfold m1, q_remove; simp_out. unfold head_tok in Ht.
      destruct (o_queue m) as [|[x tx] q]; [exact Logic.I|]. destruct Ht as [Ht1 Ht2].
      cbn [filter fst]. destruct (negb (w =? x)).
      * split; [intros Htx; subst tx; lia|]. apply Forall_filter. exact Ht2.
      * pose proof (Forall_filter _ _ (fun e => negb (w =? fst e)) _ Ht2) as Hf2.
        destruct (filter _ q) as [|[y ty] q']; [exact Logic.I|].
        inversion Hf2 as [|? ? Hy Hq']; subst. cbn [snd] in Hy. subst ty. split; [discriminate|exact Hq'].
    + intros H. exfalso. assert (Q : o_queue m = []) by (apply Hc; exact H). rewrite Q in T. discriminate.
  - (* SetMaxStream *)
    destruct (o_set_max m id) as [m1 fr1] eqn:SM. inj3 E; subst m' r fr.
    unfold o_set_max in SM.
    destruct (Z.leb_spec id (o_max m)) as [L|L].
    { injection SM as E1 E2; subst m1 fr1. exists n, K, B. split; [exact I|]. fin_out. }
    pose proof I as (Hn & Hr & HK & Ht & Hc & Hb & HB).
    assert (HK' : exists K', K < K' /\ id = f + 4 * (K' - 1) /\ 1 <= K').
    { destruct Hok as [Hok|(k & Hk1 & Hk2)]; [destruct HK as [[H1 H2]|[H1 H2]]; lia|].
      exists k. destruct HK as [[H1 H2]|[H1 H2]]; repeat split; lia. }
    destruct HK' as (K' & HKK & Hid & HK1).
    assert (HBK : B <= K) by (destruct (o_blockedSent m); lia).
    set (m0 := mkOut (o_uni m) (o_streams m) (o_queue m) (o_next m) id false (o_closed m) (o_dead m)) in *.
    assert (Hpre : forall mx, o_queue mx = o_queue m -> o_next mx = o_next m -> o_max mx = id ->
              head_tok (maybe_unblock mx)).
    { intros mx Q1 Q2 Q3. apply maybe_unblock_tok. rewrite Q1, Q2, Q3. unfold head_tok in Ht.
      destruct (o_queue m) as [|[x t] q]; [exact Logic.I|]. destruct Ht as [Ht1 Ht2]. split; [|exact Ht2].
      intros ->. lia. }
    destruct (Z.ltb_spec (o_max m0) (o_next m0 - 4 + 4 * zlen (o_queue m0))) as [L2|L2].
    + unfold maybe_send_blocked in SM. unfold m0 in SM at 1; simp_out.
      injection SM as E1 E2; subst m1 fr1.
      set (m2 := mkOut _ _ _ _ _ _ _ _).
      pose proof (maybe_unblock_fields m2) as (F1 & F2 & F3 & F4 & F5 & F6 & F7 & F8).
      assert (Hcnt : (if id =? SM_InvalidStreamID then 0 else id_stream_num id) = K').
      { unfold SM_InvalidStreamID, id_stream_num. destruct (Z.eqb_spec id (-1)); [lia|].
        rewrite Hid. rewrite Z.quot_div_nonneg by lia. lia. }
      unfold m0; simp_out. rewrite Hcnt.
      exists n, K', K'. unfold InvOut. rewrite F1, F2, F3, F4, F5.
      split; [|unfold m2, m0; simp_out; repeat split; try lia; right; repeat split; try reflexivity; lia].
      unfold m2, m0; simp_out.
      split; [lia|]. split; [lia|]. split; [right; split; lia|]. split; [apply Hpre; reflexivity|].
      split; [|split; lia].
      intros H. apply maybe_unblock_nil. simp_out. apply Hc. exact H.
    + injection SM as E1 E2; subst m1 fr1.
      pose proof (maybe_unblock_fields m0) as (F1 & F2 & F3 & F4 & F5 & F6 & F7 & F8).
      exists n, K', B. unfold InvOut. rewrite F1, F2, F3, F4, F5.
      split; [|unfold m0; simp_out; fin_out].
      unfold m0; simp_out.
      split; [lia|]. split; [lia|]. split; [right; split; lia|]. split; [apply Hpre; reflexivity|].
      split; [|split; lia].
      intros H. apply maybe_unblock_nil. simp_out. apply Hc. exact H.
  - (* GetStream *)
    inj3 E; subst m' r fr. exists n, K, B. split; [exact I|]. fin_out.
  - (* DeleteStream *)
    unfold o_delete in E. destruct (zmem id (o_streams m)); inj3 E; subst m' r fr;
      exists n, K, B; (split; [exact I|]); fin_out.
  - (* CloseWithError *)
    inj3 E; subst m' r fr. destruct I as (Hn & Hr & HK & Ht & Hc & Hb & HB).
    exists n, K, B. unfold InvOut, o_close, head_tok; simp_out.
    split; [|fin_out].
    repeat split; auto; try lia.
Qed.

(** * Histories *)

Inductive bchain (uni : bool) : Z -> list frame -> Z -> Prop :=
| bchain_nil : forall lo, bchain uni lo [] lo
| bchain_cons : forall lo n r hi, lo < n -> bchain uni n r hi -> bchain uni lo (FBlocked uni n :: r) hi.

(** stream IDs handed to local callers (OpenStream, OpenStreamSync at once or after waiting) *)
Fixpoint opened (ops : list oop) (outs : list (res * list frame)) : list Z :=
  match ops, outs with
  | op :: ops', (r, _) :: outs' =>
    (if is_open_success op r then match r with RId id => [id] | _ => [] end else []) ++ opened ops' outs'
  | _, _ => []
  end.

Lemma orun_inv : forall f ops m m' outs n K B, 0 <= f <= 3 ->
  InvOut f m n K B -> Forall (oop_ok f) ops -> orun m ops = (m', outs) ->
  exists n' K' B', InvOut f m' n' K' B' /\ K <= K' /\ bchain (o_uni m) B (frames_of outs) B' /\
    o_uni m' = o_uni m /\ o_max m <= o_max m' /\
    opened ops outs = ids_from (o_next m) (length (opened ops outs)) /\
    o_next m' = o_next m + 4 * zlen (opened ops outs) /\
    Forall (fun id => id <= o_max m') (opened ops outs).
Proof.
  intros f ops. induction ops as [|op ops IH]; intros m m' outs n K B Hf I Hok E; cbn [orun] in E.
  - injection E as E1 E2; subst m' outs. exists n, K, B. split; [exact I|].
    cbn. repeat split; try lia; constructor.
  - destruct (ostep m op) as [[m1 r] fr] eqn:S1.
    destruct (orun m1 ops) as [m2 outs2] eqn:R. injection E as E1 E2; subst m' outs.
    inversion Hok as [|? ? Hop Hops]; subst.
    destruct (ostep_inv _ _ _ _ _ _ _ _ _ Hf I Hop S1) as (n1 & K1 & B1 & I1 & HK & Hfr & Hun & Hmx & Hop').
    destruct (IH _ _ _ _ _ _ Hf I1 Hops R) as (n2 & K2 & B2 & I2 & HK2 & Hch & Hun2 & Hmx2 & Hids & Hnext & Hle).
    exists n2, K2, B2. split; [exact I2|]. split; [lia|]. split.
    { unfold frames_of. cbn [map concat snd]. fold (frames_of outs2). rewrite Hun in Hch.
      destruct Hfr as [[F1 F2]|(F1 & F2 & F3)]; subst fr.
      - subst B1. exact Hch.
      - cbn [app]. constructor; auto. }
    split; [congruence|]. split; [lia|].
    cbn [opened]. destruct (is_open_success op r) eqn:OS.
    + destruct Hop' as (Hr & Hle1 & Hn1). subst r. cbn [app length].
      destruct I as (Hn & _). destruct I1 as (Hn1' & _).
      assert (Hnx : o_next m1 = o_next m + 4) by lia.
      rewrite ids_from_cons, zlen_cons. rewrite Hnx in Hids, Hnext.
      split; [f_equal; exact Hids|]. split; [lia|]. constructor; [lia|exact Hle].
    + cbn [app]. destruct I as (Hn & _). destruct I1 as (Hn1' & _).
      assert (Hnx : o_next m1 = o_next m) by lia. rewrite Hnx in Hids, Hnext.
      repeat split; assumption.
Qed.

(** ** C15(b): IDs of locally opened streams, peer limit, STREAMS_BLOCKED *)
Theorem out_ids : forall uni client ops m outs,
  Forall (oop_ok (first_outgoing uni client)) ops ->
  orun (init_out uni client) ops = (m, outs) ->
  opened ops outs = ids_from (first_outgoing uni client) (length (opened ops outs)) /\
  Forall (fun id => id <= o_max m) (opened ops outs) /\
  o_next m = first_outgoing uni client + 4 * zlen (opened ops outs) /\
  o_next m <= o_max m + 4 /\
  exists B, bchain uni (-1) (frames_of outs) B.
Proof.
  intros uni client ops m outs Hok E.
  pose proof (first_outgoing_range uni client) as Hf.
  destruct (orun_inv _ _ _ _ _ _ _ _ Hf (inv_out_init uni client) Hok E)
    as (n & K & B & I & _ & Hch & _ & _ & Hids & Hnext & Hle).
  cbn [init_out o_next o_uni] in *.
  repeat split; auto.
  - destruct I as (Hn & Hr & HK & _). destruct HK as [[H1 H2]|[H1 H2]]; lia.
  - exists B. exact Hch.
Qed.

(** every stream handed out is the next one of its class and within the peer's limit at
    that moment; max only grows *)
Lemma out_step_open : forall f m op m' r fr n K B id, 0 <= f <= 3 ->
  InvOut f m n K B -> oop_ok f op -> ostep m op = (m', r, fr) ->
  is_open_success op r = true -> r = RId id ->
  id = o_next m /\ id <= o_max m /\ o_next m' = id + 4.
Proof.
  intros f m op m' r fr n K B id Hf I Hok E OS Hr.
  destruct (ostep_inv _ _ _ _ _ _ _ _ _ Hf I Hok E) as (n1 & K1 & B1 & I1 & _ & _ & _ & _ & Hop').
  rewrite OS in Hop'. destruct Hop' as (Hr' & Hle & Hn1). rewrite Hr in Hr'. injection Hr' as ->.
  destruct I as (Hn & _). destruct I1 as (Hn1' & _). repeat split; lia.
Qed.

(** OpenStream fails with StreamLimitReachedError exactly at the limit or behind waiters *)
Lemma out_open_fails_iff : forall m,
  snd (fst (o_open m)) = RErr ErrLimitReached <->
  (o_closed m = None /\ (o_queue m <> [] \/ o_max m < o_next m)) \/ o_closed m = Some ErrLimitReached.
Proof.
  intros m. unfold o_open. destruct (o_closed m) as [e|]; cbn [fst snd].
  - split; [intros H; right; congruence | intros [[H _]|H]; congruence].
  - destruct (o_queue m) as [|x q] eqn:Q; cbn [is_nil negb orb].
    + destruct (Z.ltb_spec (o_max m) (o_next m)).
      * destruct (maybe_send_blocked m). cbn. split; [intros _; left; split; [reflexivity|right; assumption]|reflexivity].
      * cbn. split; [discriminate|]. intros [[_ [H'|H']]|H']; [congruence|lia|discriminate].
    + destruct (maybe_send_blocked m). cbn. split; [intros _; left; split; [reflexivity|left; discriminate]|reflexivity].
Qed.

(** ** C15(b): FIFO service of blocked OpenStreamSync callers *)

(** a woken waiter that gets a stream is the head of the queue: the earliest caller still waiting *)
Lemma out_served_is_head : forall f m w m' id fr n K B, 0 <= f <= 3 -> InvOut f m n K B ->
  o_sync_wake m w = (m', RId id, fr) ->
  exists q, o_queue m = (w, true) :: q /\ map fst (o_queue m') = map fst q /\ id = o_next m /\ fr = [].
Proof.
  intros f m w m' id fr n K B Hf I E.
  unfold o_sync_wake in E.
  destruct (zmem w (o_dead m)); [inj3 E; discriminate|].
  destruct (q_token w (o_queue m)) as [[]|] eqn:T; [|inj3 E; discriminate|inj3 E; discriminate].
  pose proof I as (Hn & Hr & HK & Ht & Hc & Hb & HB).
  assert (Hq : exists q, o_queue m = (w, true) :: q /\ q_clear w (o_queue m) = (w, false) :: q).
  { apply q_token_true_head; [|exact T]. unfold head_tok in Ht.
    destruct (o_queue m) as [|[x t] q]; [exact Logic.I|]. exact (proj2 Ht). }
  destruct Hq as (q & Q1 & Q2). rewrite Q2 in E. exists q. split; [exact Q1|].
  unfold o_set_queue in E; simp_out.
  destruct (o_closed m); [inj3 E; discriminate|].
  destruct (o_max m <? o_next m); [inj3 E; discriminate|].
  unfold open_stream in E; simp_out. cbn [tl] in E. inj3 E. subst m' fr.
  set (m3 := mkOut _ _ _ _ _ _ _ _) in *.
  pose proof (maybe_unblock_fields m3) as (_ & _ & _ & _ & _ & _ & _ & F8).
  rewrite F8. unfold m3; simp_out. repeat split; congruence.
Qed.

Definition dead_ok (m : outmap) : Prop := o_closed m = None -> o_dead m = [].

Lemma dead_ok_init : forall uni client, dead_ok (init_out uni client).
Proof. intros uni client H. reflexivity. Qed.

Lemma msb_closed_dead : forall m, o_closed (fst (maybe_send_blocked m)) = o_closed m /\
  o_dead (fst (maybe_send_blocked m)) = o_dead m.
Proof. intros m. unfold maybe_send_blocked. destruct (o_blockedSent m); split; reflexivity. Qed.

Lemma dead_ok_step : forall m op m' r fr, dead_ok m -> ostep m op = (m', r, fr) -> dead_ok m'.
Proof.
  intros m op m' r fr D E. unfold dead_ok in *.
  destruct op as [|w c|w|w|id|id|id|e]; cbn [ostep] in E.
  - unfold o_open in E. destruct (o_closed m) eqn:Cl; [inj3 E; subst m'; try rewrite Cl; discriminate|].
    pose proof (D eq_refl) as Hd.
    destruct (_ || _).
    + pose proof (msb_closed_dead m) as [P1 P2]. destruct (maybe_send_blocked m) as [m1 fr1]. cbn [fst] in *.
      inj3 E; subst m'. intros _. rewrite P2. exact Hd.
    + unfold open_stream in E. inj3 E; subst m'. simp_out. intros _. exact Hd.
  - unfold o_sync_call in E. destruct (o_closed m) eqn:Cl; [inj3 E; subst m'; try rewrite Cl; discriminate|].
    pose proof (D eq_refl) as Hd.
    destruct c; [inj3 E; subst m'; intros _; exact Hd|].
    destruct (_ && _).
    + unfold open_stream in E. inj3 E; subst m'. simp_out. intros _. exact Hd.
    + set (m0 := o_set_queue m _) in E. pose proof (msb_closed_dead m0) as [P1 P2].
      destruct (maybe_send_blocked m0) as [m1 fr1]. cbn [fst] in *. inj3 E; subst m'.
      intros _. rewrite P2. unfold m0; simp_out. exact Hd.
  - unfold o_sync_wake in E. destruct (zmem w (o_dead m)) eqn:Z.
    { inj3 E; subst m'. simp_out. intros H. rewrite (D H) in Z. discriminate. }
    destruct (q_token w (o_queue m)) as [[]|]; [|inj3 E; subst m'; exact D|inj3 E; subst m'; exact D].
    unfold o_set_queue in E; simp_out.
    destruct (o_closed m) eqn:Cl; [inj3 E; subst m'; simp_out; try rewrite Cl; discriminate|].
    pose proof (D eq_refl) as Hd.
    destruct (o_max m <? o_next m); [inj3 E; subst m'; simp_out; intros _; exact Hd|].
    unfold open_stream in E; simp_out. inj3 E; subst m'.
    set (m3 := mkOut _ _ _ _ _ _ _ _).
    pose proof (maybe_unblock_fields m3) as (_ & _ & _ & F4 & _ & F6 & _).
    rewrite F6. unfold m3; simp_out. intros _. exact Hd.
  - unfold o_sync_cancel in E. destruct (zmem w (o_dead m)) eqn:Z.
    { inj3 E; subst m'. simp_out. intros H. rewrite (D H) in Z. discriminate. }
    destruct (q_token w (o_queue m)); [|inj3 E; subst m'; exact D].
    inj3 E; subst m'. set (m1 := o_set_queue m _).
    pose proof (maybe_unblock_fields m1) as (_ & _ & _ & F4 & _ & F6 & _).
    rewrite F4, F6. unfold m1; simp_out. exact D.
  - destruct (o_set_max m id) as [m1 fr1] eqn:SM. inj3 E; subst m'.
    unfold o_set_max in SM. destruct (id <=? o_max m); [injection SM as <- _; exact D|].
    set (m0 := mkOut _ _ _ _ _ _ _ _) in SM.
    destruct (_ <? _).
    + pose proof (msb_closed_dead m0) as [P1 P2]. destruct (maybe_send_blocked m0) as [m2 fr2]. cbn [fst] in *.
      injection SM as <- _.
      pose proof (maybe_unblock_fields m2) as (_ & _ & _ & F4 & _ & F6 & _).
      rewrite F4, F6, P1, P2. unfold m0; simp_out. exact D.
    + injection SM as <- _.
      pose proof (maybe_unblock_fields m0) as (_ & _ & _ & F4 & _ & F6 & _).
      rewrite F4, F6. unfold m0; simp_out. exact D.
  - inj3 E; subst m'. exact D.
  - unfold o_delete in E. destruct (zmem id (o_streams m)); inj3 E; subst m'; simp_out; exact D.
  - inj3 E; subst m'. unfold o_close; simp_out. discriminate.
Qed.

(** no credit is lost: whenever a stream can be opened and somebody waits (and the map is not
    closed), the head of the queue holds a pending wake-up, and taking it yields the stream *)
Lemma out_no_lost_credit : forall f m w t q n K B, 0 <= f <= 3 -> InvOut f m n K B -> dead_ok m ->
  o_closed m = None -> o_queue m = (w, t) :: q -> o_next m <= o_max m ->
  t = true /\ exists m', o_sync_wake m w = (m', RId (o_next m), []).
Proof.
  intros f m w t q n K B Hf I D Cl Q Hle.
  pose proof I as (Hn & Hr & HK & Ht & Hc & Hb & HB).
  unfold head_tok in Ht. rewrite Q in Ht. destruct Ht as [Ht1 Ht2].
  assert (t = true) by (rewrite Ht1; apply Z.leb_le; exact Hle). clear Ht1. subst t. split; [reflexivity|].
  unfold o_sync_wake. rewrite (D Cl). cbn [zmem]. rewrite Q. cbn [q_token q_clear]. rewrite Z.eqb_refl.
  unfold o_set_queue; simp_out. rewrite Cl.
  destruct (Z.ltb_spec (o_max m) (o_next m)); [lia|].
  unfold open_stream; simp_out. eexists. reflexivity.
Qed.

(** the "no stream available, continue waiting" branch is never taken *)
Lemma out_wake_never_parks_again : forall f m w n K B, 0 <= f <= 3 -> InvOut f m n K B ->
  snd (fst (o_sync_wake m w)) <> RParked.
Proof.
  intros f m w n K B Hf I.
  unfold o_sync_wake.
  destruct (zmem w (o_dead m)); [cbn; discriminate|].
  destruct (q_token w (o_queue m)) as [[]|] eqn:T; [|cbn; discriminate|cbn; discriminate].
  pose proof I as (Hn & Hr & HK & Ht & Hc & Hb & HB).
  assert (Hq : exists q, o_queue m = (w, true) :: q /\ q_clear w (o_queue m) = (w, false) :: q).
  { apply q_token_true_head; [|exact T]. unfold head_tok in Ht.
    destruct (o_queue m) as [|[x t] q]; [exact Logic.I|]. exact (proj2 Ht). }
  destruct Hq as (q & Q1 & Q2). rewrite Q2.
  unfold head_tok in Ht. rewrite Q1 in Ht. destruct Ht as [Ht1 Ht2].
  unfold o_set_queue; simp_out.
  destruct (o_closed m); [cbn; discriminate|].
  destruct (Z.ltb_spec (o_max m) (o_next m)); [lia|].
  unfold open_stream; simp_out. cbn. discriminate.
Qed.

(** ** FIFO over whole histories: the callers that were served, in the order they were served,
    form a subsequence of the callers in the order they started waiting. *)

Inductive subseq {A : Type} : list A -> list A -> Prop :=
| sub_nil : forall l, subseq [] l
| sub_skip : forall x a l, subseq a l -> subseq a (x :: l)
| sub_take : forall x a l, subseq a l -> subseq (x :: a) (x :: l).

Lemma subseq_refl : forall A (l : list A), subseq l l.
Proof. induction l; constructor; assumption. Qed.

Lemma subseq_trans : forall A (a b c : list A), subseq a b -> subseq b c -> subseq a c.
Proof.
  intros A a b c H1 H2. revert a H1. induction H2 as [l|x b l H IH|x b l H IH]; intros a H1.
  - inversion H1; subst. constructor.
  - constructor. apply IH. exact H1.
  - inversion H1; subst.
    + constructor.
    + constructor. apply IH. assumption.
    + apply sub_take. apply IH. assumption.
Qed.

Lemma subseq_app_mono : forall A (a b r : list A), subseq a b -> subseq (a ++ r) (b ++ r).
Proof.
  intros A a b r H. induction H as [l|x a l H IH|x a l H IH]; cbn [app].
  - induction l; cbn [app]; [apply subseq_refl|constructor; assumption].
  - constructor. exact IH.
  - apply sub_take. exact IH.
Qed.

Lemma subseq_filter : forall A (g : A -> bool) l, subseq (filter g l) l.
Proof.
  induction l as [|x l IH]; cbn [filter]; [constructor|].
  destruct (g x); [apply sub_take|apply sub_skip]; exact IH.
Qed.

Lemma map_fst_q_clear : forall w q, map fst (q_clear w q) = map fst q.
Proof.
  induction q as [|[x t] q IH]; cbn [q_clear map fst]; [reflexivity|].
  destruct (w =? x); cbn [map fst]; [reflexivity|]. rewrite IH. reflexivity.
Qed.

Lemma map_fst_q_remove : forall w q, map fst (q_remove w q) = filter (fun x => negb (w =? x)) (map fst q).
Proof.
  induction q as [|[x t] q IH]; cbn [q_remove filter map fst]; [reflexivity|].
  destruct (negb (w =? x)); cbn [map fst]; [f_equal|]; exact IH.
Qed.

Lemma msb_queue : forall m, o_queue (fst (maybe_send_blocked m)) = o_queue m.
Proof. intros m. unfold maybe_send_blocked. destruct (o_blockedSent m); reflexivity. Qed.

Definition queue_ids (m : outmap) : list Z := map fst (o_queue m).

Lemma ostep_queue : forall f m op m' r fr n K B, 0 <= f <= 3 -> InvOut f m n K B ->
  ostep m op = (m', r, fr) ->
  match op, r with
  | OpSyncCall w _, RParked => queue_ids m' = queue_ids m ++ [w]
  | OpSyncWake w, RId _ => queue_ids m = w :: queue_ids m'
  | _, _ => subseq (queue_ids m') (queue_ids m)
  end.
Proof.
  intros f m op m' r fr n K B Hf I E. unfold queue_ids.
  destruct op as [|w c|w|w|id|id|id|e]; cbn [ostep] in E.
  - unfold o_open in E. destruct (o_closed m); [inj3 E; subst m' r; apply subseq_refl|].
    destruct (_ || _).
    + pose proof (msb_queue m) as Q. destruct (maybe_send_blocked m) as [m1 fr1]. cbn [fst] in Q.
      inj3 E; subst m' r. rewrite Q. apply subseq_refl.
    + unfold open_stream in E. inj3 E; subst m' r. simp_out. apply subseq_refl.
  - unfold o_sync_call in E. destruct (o_closed m); [inj3 E; subst m' r; apply subseq_refl|].
    destruct c; [inj3 E; subst m' r; apply subseq_refl|].
    destruct (_ && _).
    + unfold open_stream in E. inj3 E; subst m' r. simp_out. apply subseq_refl.
    + set (m0 := o_set_queue m _) in E. pose proof (msb_queue m0) as Q.
      destruct (maybe_send_blocked m0) as [m1 fr1]. cbn [fst] in Q. inj3 E; subst m' r.
      rewrite Q. unfold m0; simp_out. rewrite map_app. reflexivity.
  - destruct r; try (
      unfold o_sync_wake in E;
      destruct (zmem w (o_dead m)); [inj3 E; subst m'; simp_out; apply subseq_refl|];
      destruct (q_token w (o_queue m)) as [[]|]; [|inj3 E; subst m'; apply subseq_refl|inj3 E; subst m'; apply subseq_refl];
      unfold o_set_queue in E; simp_out;
      destruct (o_closed m); [inj3 E; subst m'; simp_out; rewrite map_fst_q_clear; apply subseq_refl|];
      destruct (o_max m <? o_next m); [inj3 E; subst m'; simp_out; rewrite map_fst_q_clear; apply subseq_refl|];
      unfold open_stream in E; simp_out; inj3 E; discriminate).
    destruct (out_served_is_head _ _ _ _ _ _ _ _ _ Hf I E) as (q & Q1 & Q2 & _).
    rewrite Q1, Q2. reflexivity.
  - unfold o_sync_cancel in E.
    assert (G : subseq (map fst (o_queue m')) (map fst (o_queue m))).
    { destruct (zmem w (o_dead m)); [inj3 E; subst m'; simp_out; apply subseq_refl|].
      destruct (q_token w (o_queue m)); [|inj3 E; subst m'; apply subseq_refl].
      inj3 E; subst m'. set (m1 := o_set_queue m _).
      pose proof (maybe_unblock_fields m1) as (_ & _ & _ & _ & _ & _ & _ & F8).
      rewrite F8. unfold m1; simp_out. rewrite map_fst_q_remove. apply subseq_filter. }
    destruct r; exact G.
  - destruct (o_set_max m id) as [m1 fr1] eqn:SM. inj3 E; subst m' r.
    unfold o_set_max in SM. destruct (id <=? o_max m); [injection SM as <- _; apply subseq_refl|].
    set (m0 := mkOut _ _ _ _ _ _ _ _) in SM.
    destruct (_ <? _).
    + pose proof (msb_queue m0) as Q. destruct (maybe_send_blocked m0) as [m2 fr2]. cbn [fst] in Q.
      injection SM as <- _.
      pose proof (maybe_unblock_fields m2) as (_ & _ & _ & _ & _ & _ & _ & F8).
      rewrite F8, Q. unfold m0; simp_out. apply subseq_refl.
    + injection SM as <- _.
      pose proof (maybe_unblock_fields m0) as (_ & _ & _ & _ & _ & _ & _ & F8).
      rewrite F8. unfold m0; simp_out. apply subseq_refl.
  - inj3 E; subst m'. destruct (o_get m id); apply subseq_refl.
  - unfold o_delete in E. destruct (zmem id (o_streams m)); inj3 E; subst m' r; simp_out; apply subseq_refl.
  - inj3 E; subst m' r. unfold o_close; simp_out. constructor.
Qed.

(** callers that started to wait, in arrival order *)
Fixpoint arrivals (ops : list oop) (outs : list (res * list frame)) : list Z :=
  match ops, outs with
  | op :: ops', (r, _) :: outs' =>
    (match op, r with OpSyncCall w _, RParked => [w] | _, _ => [] end) ++ arrivals ops' outs'
  | _, _ => []
  end.

(** callers that were woken and got a stream, in the order of service *)
Fixpoint served (ops : list oop) (outs : list (res * list frame)) : list Z :=
  match ops, outs with
  | op :: ops', (r, _) :: outs' =>
    (match op, r with OpSyncWake w, RId _ => [w] | _, _ => [] end) ++ served ops' outs'
  | _, _ => []
  end.

Lemma orun_fifo : forall f ops m m' outs n K B, 0 <= f <= 3 ->
  InvOut f m n K B -> Forall (oop_ok f) ops -> orun m ops = (m', outs) ->
  subseq (served ops outs) (queue_ids m ++ arrivals ops outs).
Proof.
  intros f ops. induction ops as [|op ops IH]; intros m m' outs n K B Hf I Hok E; cbn [orun] in E.
  - injection E as E1 E2; subst m' outs. constructor.
  - destruct (ostep m op) as [[m1 r] fr] eqn:S1.
    destruct (orun m1 ops) as [m2 outs2] eqn:R. injection E as E1 E2; subst m' outs.
    inversion Hok as [|? ? Hop Hops]; subst.
    destruct (ostep_inv _ _ _ _ _ _ _ _ _ Hf I Hop S1) as (n1 & K1 & B1 & I1 & _).
    pose proof (IH _ _ _ _ _ _ Hf I1 Hops R) as H.
    pose proof (ostep_queue _ _ _ _ _ _ _ _ _ Hf I S1) as Q.
    cbn [served arrivals].
    assert (Gen : subseq (queue_ids m1) (queue_ids m) ->
                  subseq (served ops outs2) (queue_ids m ++ arrivals ops outs2)).
    { intros Hs. eapply subseq_trans; [exact H|]. apply subseq_app_mono. exact Hs. }
    destruct op as [|w c|w|w|id|id|id|e]; try (destruct r; cbn [app]; apply Gen; exact Q).
    + destruct r; cbn [app]; try (apply Gen; exact Q).
      rewrite Q in H. rewrite <- app_assoc in H. exact H.
    + destruct r; cbn [app]; try (apply Gen; exact Q).
      rewrite Q. cbn [app]. apply sub_take. exact H.
Qed.

Theorem out_fifo : forall uni client ops m outs,
  Forall (oop_ok (first_outgoing uni client)) ops ->
  orun (init_out uni client) ops = (m, outs) ->
  subseq (served ops outs) (arrivals ops outs).
Proof.
  intros uni client ops m outs Hok E.
  pose proof (first_outgoing_range uni client) as Hf.
  exact (orun_fifo _ _ _ _ _ _ _ _ Hf (inv_out_init uni client) Hok E).
Qed.

(** ** Reachable states of one outgoing map *)
Definition oreach (uni client : bool) (m : outmap) : Prop :=
  exists ops outs, Forall (oop_ok (first_outgoing uni client)) ops /\
                   orun (init_out uni client) ops = (m, outs).

Lemma orun_dead_ok : forall ops m m' outs, dead_ok m -> orun m ops = (m', outs) -> dead_ok m'.
Proof.
  induction ops as [|op ops IH]; intros m m' outs D E; cbn [orun] in E.
  - injection E as <- _. exact D.
  - destruct (ostep m op) as [[m1 r] fr] eqn:S1. destruct (orun m1 ops) as [m2 outs2] eqn:R.
    injection E as <- _. eapply IH; [|exact R]. eapply dead_ok_step; eauto.
Qed.

Lemma oreach_inv : forall uni client m, oreach uni client m ->
  (exists n K B, InvOut (first_outgoing uni client) m n K B) /\ dead_ok m /\ o_uni m = uni.
Proof.
  intros uni client m (ops & outs & Hok & E).
  pose proof (first_outgoing_range uni client) as Hf.
  destruct (orun_inv _ _ _ _ _ _ _ _ Hf (inv_out_init uni client) Hok E)
    as (n & K & B & I & _ & _ & Hu & _).
  split; [exists n, K, B; exact I|]. split; [|exact Hu].
  eapply orun_dead_ok; [apply dead_ok_init|exact E].
Qed.

Definition out_facts (m : outmap) : Prop :=
  (* only the head of the queue can be served, and it gets the next stream ID *)
  (forall w m' id fr, o_sync_wake m w = (m', RId id, fr) ->
     exists q, o_queue m = (w, true) :: q /\ queue_ids m' = map fst q /\ id = o_next m /\ fr = []) /\
  (* no credit is lost: if a stream can be opened and somebody waits, the head's wake-up is pending *)
  (forall w t q, o_closed m = None -> o_queue m = (w, t) :: q -> o_next m <= o_max m ->
     t = true /\ exists m', o_sync_wake m w = (m', RId (o_next m), [])) /\
  (* a woken waiter never has to go back to sleep *)
  (forall w, snd (fst (o_sync_wake m w)) <> RParked) /\
  (* nobody but the head holds a wake-up, and the head holds one only if a stream can be opened *)
  head_tok m /\
  (* never opened beyond the peer's limit *)
  o_next m <= o_max m + 4.

Lemma out_facts_inv : forall f m n K B, 0 <= f <= 3 -> InvOut f m n K B -> dead_ok m -> out_facts m.
Proof.
  intros f m n K B Hf I D. unfold out_facts.
  split; [intros; eapply out_served_is_head; eauto|].
  split; [intros; eapply out_no_lost_credit; eauto|].
  split; [intros; eapply out_wake_never_parks_again; eauto|].
  destruct I as (Hn & Hr & HK & Ht & _). split; [exact Ht|].
  destruct HK as [[H1 H2]|[H1 H2]]; lia.
Qed.

Theorem out_fifo_state : forall uni client m, oreach uni client m -> out_facts m.
Proof.
  intros uni client m R. destruct (oreach_inv _ _ _ R) as ((n & K & B & I) & D & _).
  eapply out_facts_inv; eauto using first_outgoing_range.
Qed.

(** ** No lost wake-up (OpenStreamSync): a state is quiescent when no wake-up is pending — no
    queued caller holds a token and no caller is still to be told that the map was closed.
    In a quiescent state a caller is blocked only if the map is at the peer's limit. *)
Definition out_quiescent (m : outmap) : Prop :=
  Forall (fun e => snd e = false) (o_queue m) /\ o_dead m = [].

Lemma out_no_lost_wakeup_inv : forall f m n K B, 0 <= f <= 3 -> InvOut f m n K B ->
  out_quiescent m -> o_queue m <> [] -> o_closed m = None /\ o_max m < o_next m.
Proof.
  intros f m n K B Hf (Hn & Hr & HK & Ht & Hc & _) [Q _] N.
  split.
  - destruct (o_closed m) eqn:C; [|reflexivity]. exfalso. apply N. apply Hc. discriminate.
  - unfold head_tok in Ht. destruct (o_queue m) as [|[w t] q]; [congruence|].
    destruct Ht as [Ht _]. inversion Q as [|? ? Hw _]. cbn [snd] in Hw. rewrite Hw in Ht.
    destruct (Z.leb_spec (o_next m) (o_max m)); [discriminate|lia].
Qed.

Theorem out_no_lost_wakeup : forall uni client m, oreach uni client m ->
  out_quiescent m -> o_queue m <> [] -> o_closed m = None /\ o_max m < o_next m.
Proof.
  intros uni client m R. destruct (oreach_inv _ _ _ R) as ((n & K & B & I) & _ & _).
  eapply out_no_lost_wakeup_inv; eauto using first_outgoing_range.
Qed.

(** ** Wake-ups exactly when the limit allows a stream: in every reachable state the head of the
    open queue holds a wake-up token if and only if a stream can be opened; nobody else holds one *)
Theorem out_wakeup_iff_credit : forall uni client m w t q, oreach uni client m ->
  o_queue m = (w, t) :: q ->
  (t = true <-> o_next m <= o_max m) /\ Forall (fun e => snd e = false) q.
Proof.
  intros uni client m w t q R Q. destruct (oreach_inv _ _ _ R) as ((n & K & B & I) & _ & _).
  destruct I as (_ & _ & _ & Ht & _). unfold head_tok in Ht. rewrite Q in Ht. destruct Ht as [Ht Hq].
  split; [|exact Hq]. subst t. apply Z.leb_le.
Qed.

(** * Audit round: STREAMS_BLOCKED is really sent, and names the limit *)

(** the peer's limit as a stream count, as STREAMS_BLOCKED carries it *)
Definition out_limit (m : outmap) : Z :=
  if o_max m =? SM_InvalidStreamID then 0 else id_stream_num (o_max m).

(** by the code alone: an OpenStream that fails at the limit leaves blockedSent set, and queues
    STREAMS_BLOCKED(current limit) unless one was already sent for this limit *)
Lemma out_open_fail_blocked : forall m m' fr, o_closed m = None ->
  o_open m = (m', RErr ErrLimitReached, fr) ->
  o_blockedSent m' = true /\ out_limit m' = out_limit m /\
  ((o_blockedSent m = false /\ fr = [FBlocked (o_uni m) (out_limit m)]) \/
   (o_blockedSent m = true /\ fr = [])).
Proof.
  intros m m' fr C E. unfold o_open in E. rewrite C in E.
  destruct (negb (is_nil (o_queue m)) || (o_max m <? o_next m)).
  - unfold maybe_send_blocked in E. destruct (o_blockedSent m) eqn:BS; inj3 E; subst m' fr.
    + repeat split; auto.
    + unfold out_limit; cbn. repeat split; auto.
  - unfold open_stream in E. inj3 E. discriminate.
Qed.

(** the same for an OpenStreamSync that has to wait *)
Lemma out_sync_park_blocked : forall m w m' fr,
  o_sync_call m w false = (m', RParked, fr) ->
  o_blockedSent m' = true /\ out_limit m' = out_limit m /\
  ((o_blockedSent m = false /\ fr = [FBlocked (o_uni m) (out_limit m)]) \/
   (o_blockedSent m = true /\ fr = [])).
Proof.
  intros m w m' fr E. unfold o_sync_call in E. destruct (o_closed m); [inj3 E; discriminate|].
  destruct (is_nil (o_queue m) && (o_next m <=? o_max m)).
  - unfold open_stream in E. inj3 E. discriminate.
  - unfold maybe_send_blocked, o_set_queue in E; simp_out.
    destruct (o_blockedSent m) eqn:BS; inj3 E; subst m' fr; unfold out_limit; cbn; repeat split; auto.
Qed.

Lemma bchain_snoc : forall uni lo a mid B' K fr, bchain uni lo a mid ->
  bframes_ok uni mid B' K fr -> bchain uni lo (a ++ fr) B'.
Proof.
  intros uni lo a mid B' K fr H F. induction H as [lo|lo n r hi Hlt Hr IH]; cbn [app].
  - destruct F as [[-> ->]|(-> & Hlt & _)]; [constructor|constructor; [exact Hlt|constructor]].
  - constructor; [exact Hlt|]. apply IH. exact F.
Qed.

(** whole histories: the STREAMS_BLOCKED frames queued so far end with the CURRENT limit exactly
    when blockedSent is set (so: sent at most once per limit, and never for another value) *)
Theorem out_blocked_history : forall uni client ops m outs,
  Forall (oop_ok (first_outgoing uni client)) ops ->
  orun (init_out uni client) ops = (m, outs) ->
  exists B, bchain uni (-1) (frames_of outs) B /\
    (if o_blockedSent m then B = out_limit m else B < out_limit m) /\ 0 <= out_limit m.
Proof.
  intros uni client ops m outs Hok E.
  pose proof (first_outgoing_range uni client) as Hf.
  destruct (orun_inv _ _ _ _ _ _ _ _ Hf (inv_out_init uni client) Hok E)
    as (n & K & B & I & _ & Hch & _).
  exists B. cbn [init_out o_uni] in Hch. split; [exact Hch|].
  pose proof (out_cnt_K _ _ _ _ _ Hf I) as HK. fold (out_limit m) in HK. rewrite HK.
  destruct I as (_ & Hr & _ & _ & _ & Hb & _). split; [exact Hb|lia].
Qed.

(** ... hence: when an OpenStream fails at the limit, a STREAMS_BLOCKED naming that limit HAS been
    queued (by this call or an earlier one since the limit was set), and it is the last one queued *)
Theorem out_blocked_is_sent : forall uni client ops m1 outs1 m fr,
  Forall (oop_ok (first_outgoing uni client)) ops ->
  orun (init_out uni client) ops = (m1, outs1) -> o_closed m1 = None ->
  o_open m1 = (m, RErr ErrLimitReached, fr) ->
  bchain uni (-1) (frames_of outs1 ++ fr) (out_limit m) /\ 0 <= out_limit m /\
  frames_of outs1 ++ fr <> [].
Proof.
  intros uni client ops m1 outs1 m fr Hok E C O.
  pose proof (first_outgoing_range uni client) as Hf.
  destruct (orun_inv _ _ _ _ _ _ _ _ Hf (inv_out_init uni client) Hok E)
    as (n & K & B & I & _ & Hch & Hu & _).
  cbn [init_out o_uni] in Hch, Hu.
  destruct (ostep_inv _ _ OpOpen _ _ _ _ _ _ Hf I Logic.I O) as (n' & K' & B' & I' & _ & Hfr & _).
  destruct (out_open_fail_blocked _ _ _ C O) as (BS & _ & _).
  pose proof (out_cnt_K _ _ _ _ _ Hf I') as HK. fold (out_limit m) in HK.
  destruct I' as (_ & Hr & _ & _ & _ & Hb & _). rewrite BS in Hb. subst B'.
  rewrite Hu in Hfr. rewrite HK.
  assert (Hc : bchain uni (-1) (frames_of outs1 ++ fr) K') by exact (bchain_snoc _ _ _ _ _ _ _ Hch Hfr).
  split; [exact Hc|]. split; [lia|].
  intros Hnil. rewrite Hnil in Hc. inversion Hc. lia.
Qed.

(** * Audit round: real FIFO - the queue is the arrival order and only its head is served *)

(** what a step does to the queue of waiting callers, exactly *)
Lemma ostep_queue_exact : forall f m op m' r fr n K B, 0 <= f <= 3 -> InvOut f m n K B ->
  ostep m op = (m', r, fr) ->
  match op, r with
  | OpSyncCall w _, RParked => queue_ids m' = queue_ids m ++ [w]                (* joins at the back *)
  | OpSyncWake w, RId _ => queue_ids m = w :: queue_ids m'                      (* the head leaves *)
  | OpSyncCancel w, _ =>
    queue_ids m' = filter (fun x => negb (w =? x)) (queue_ids m) \/ queue_ids m' = queue_ids m
  | OpClose _, _ => queue_ids m' = []
  | _, _ => queue_ids m' = queue_ids m                                          (* nobody moves *)
  end.
Proof.
  intros f m op m' r fr n K B Hf I E. unfold queue_ids.
  destruct op as [|w c|w|w|id|id|id|e]; cbn [ostep] in E.
  - unfold o_open in E. destruct (o_closed m); [inj3 E; subst m' r; reflexivity|].
    destruct (_ || _).
    + pose proof (msb_queue m) as Q. destruct (maybe_send_blocked m) as [m1 fr1]. cbn [fst] in Q.
      inj3 E; subst m' r. rewrite Q. reflexivity.
    + unfold open_stream in E. inj3 E; subst m' r. simp_out. reflexivity.
  - unfold o_sync_call in E. destruct (o_closed m); [inj3 E; subst m' r; reflexivity|].
    destruct c; [inj3 E; subst m' r; reflexivity|].
    destruct (_ && _).
    + unfold open_stream in E. inj3 E; subst m' r. simp_out. reflexivity.
    + set (m0 := o_set_queue m _) in E. pose proof (msb_queue m0) as Q.
      destruct (maybe_send_blocked m0) as [m1 fr1]. cbn [fst] in Q. inj3 E; subst m' r.
      rewrite Q. unfold m0; simp_out. rewrite map_app. reflexivity.
  - destruct r; try (
      unfold o_sync_wake in E;
      destruct (zmem w (o_dead m)); [inj3 E; subst m'; simp_out; reflexivity|];
      destruct (q_token w (o_queue m)) as [[]|]; [|inj3 E; subst m'; reflexivity|inj3 E; subst m'; reflexivity];
      unfold o_set_queue in E; simp_out;
      destruct (o_closed m); [inj3 E; subst m'; simp_out; rewrite map_fst_q_clear; reflexivity|];
      destruct (o_max m <? o_next m); [inj3 E; subst m'; simp_out; rewrite map_fst_q_clear; reflexivity|];
      unfold open_stream in E; simp_out; inj3 E; discriminate).
    destruct (out_served_is_head _ _ _ _ _ _ _ _ _ Hf I E) as (q & Q1 & Q2 & _).
    unfold queue_ids in Q2. rewrite Q1, Q2. reflexivity.
  - unfold o_sync_cancel in E.
    assert (G : map fst (o_queue m') = filter (fun x => negb (w =? x)) (map fst (o_queue m)) \/
                map fst (o_queue m') = map fst (o_queue m)).
    { destruct (zmem w (o_dead m)); [inj3 E; subst m'; simp_out; right; reflexivity|].
      destruct (q_token w (o_queue m)); [|inj3 E; subst m'; right; reflexivity].
      inj3 E; subst m'. set (m1 := o_set_queue m _).
      pose proof (maybe_unblock_fields m1) as (_ & _ & _ & _ & _ & _ & _ & F8).
      rewrite F8. unfold m1; simp_out. rewrite map_fst_q_remove. left. reflexivity. }
    destruct r; exact G.
  - destruct (o_set_max m id) as [m1 fr1] eqn:SM. inj3 E; subst m' r.
    unfold o_set_max in SM. destruct (id <=? o_max m); [injection SM as <- _; reflexivity|].
    set (m0 := mkOut _ _ _ _ _ _ _ _) in SM.
    destruct (_ <? _).
    + pose proof (msb_queue m0) as Q. destruct (maybe_send_blocked m0) as [m2 fr2]. cbn [fst] in Q.
      injection SM as <- _.
      pose proof (maybe_unblock_fields m2) as (_ & _ & _ & _ & _ & _ & _ & F8).
      rewrite F8, Q. unfold m0; simp_out. reflexivity.
    + injection SM as <- _.
      pose proof (maybe_unblock_fields m0) as (_ & _ & _ & _ & _ & _ & _ & F8).
      rewrite F8. unfold m0; simp_out. reflexivity.
  - inj3 E; subst m'. destruct (o_get m id); reflexivity.
  - unfold o_delete in E. destruct (zmem id (o_streams m)); inj3 E; subst m' r; simp_out; reflexivity.
  - inj3 E; subst m' r. unfold o_close; simp_out. destruct e; reflexivity.
Qed.

(** nobody is served while an earlier arrival still waits: a waiter that is not the first element of
    the queue cannot get a stream (with [ostep_queue_exact]: arrivals join at the back, the others
    keep their order - this is FIFO) *)
Theorem out_no_overtaking : forall uni client m pre a rest b, oreach uni client m ->
  queue_ids m = pre ++ a :: rest -> In b rest -> ~ In b (pre ++ [a]) ->
  forall m' id fr, o_sync_wake m b <> (m', RId id, fr).
Proof.
  intros uni client m pre a rest b R Q Hb Hn m' id fr E.
  destruct (oreach_inv _ _ _ R) as ((n & K & B & I) & _ & _).
  destruct (out_served_is_head _ _ _ _ _ _ _ _ _ (first_outgoing_range uni client) I E) as (q & Q1 & _).
  unfold queue_ids in Q. rewrite Q1 in Q. cbn [map fst] in Q. apply Hn.
  destruct pre as [|p pre]; cbn [app] in Q; injection Q as Q0 _; subst; cbn; auto.
Qed.

(** reachable states are closed under steps *)
Lemma orun_snoc : forall ops m m1 outs op m' r fr,
  orun m ops = (m1, outs) -> ostep m1 op = (m', r, fr) ->
  orun m (ops ++ [op]) = (m', outs ++ [(r, fr)]).
Proof.
  induction ops as [|o ops IH]; intros m m1 outs op m' r fr E S; cbn [orun app] in *.
  - injection E as <- <-. rewrite S. reflexivity.
  - destruct (ostep m o) as [[m2 r2] fr2]. destruct (orun m2 ops) as [m3 outs3] eqn:R.
    injection E as <- <-. rewrite (IH _ _ _ _ _ _ _ R S). reflexivity.
Qed.

Lemma oreach_init : forall uni client, oreach uni client (init_out uni client).
Proof. intros. exists [], []. split; [constructor|reflexivity]. Qed.

Lemma oreach_step : forall uni client m op m' r fr, oreach uni client m ->
  oop_ok (first_outgoing uni client) op -> ostep m op = (m', r, fr) -> oreach uni client m'.
Proof.
  intros uni client m op m' r fr (ops & outs & Hok & E) Hop S.
  exists (ops ++ [op]), (outs ++ [(r, fr)]). split; [apply Forall_app; split; [exact Hok|constructor; [exact Hop|constructor]]|].
  eapply orun_snoc; eauto.
Qed.

Lemma out_open_fails_iff_open : forall m, o_closed m = None ->
  (snd (fst (o_open m)) = RErr ErrLimitReached <-> o_queue m <> [] \/ o_max m < o_next m).
Proof.
  intros m C. rewrite out_open_fails_iff. rewrite C. split.
  - intros [[_ H]|H]; [exact H|discriminate].
  - intros H. left. split; [reflexivity|exact H].
Qed.
