(** StreamsMap — executable model of streams_map.go, streams_map_incoming.go,
    streams_map_outgoing.go and the StreamID arithmetic of internal/protocol/stream.go.

    One model step = one critical section of the Go code.  Blocking calls are split:
    - OpenStreamSync: [OpSyncCall] (returns at once or enqueues a waiter and parks),
      [OpSyncWake w] (waiter w receives from its wait channel and runs the code after the
      select), [OpSyncCancel w] (waiter w takes the ctx.Done branch).
    - AcceptStream: [IAccept a] is one execution of the loop body under the mutex by caller [a]:
      look up nextStreamToAccept AND advance it in ONE atomic step (the code holds the write
      lock across both); [RParked] means "entry not there, caller a goes (back) to the select".
      Any number of callers may be parked at the same time ([i_parked], explicit caller ids like
      the open queue); their wake-ups are environment choices ([IAccept a] again, spurious ones
      included), [IAcceptCancel a] is the ctx.Done branch.  Every safety theorem holds for all
      interleavings of any number of concurrent callers.
    Why one step per wake-up is enough: between "receive from the wait channel" (or from
    ctx.Done) and the mutex.Lock that follows, other critical sections may run.  The receive only
    empties the caller's own one-slot channel; every other critical section either does not touch
    that channel or re-fills it (maybeUnblockOpenSync for the head) / closes it, and the woken
    caller re-reads closeErr, nextStream, maxStream under the lock.  So the receive can be moved
    right before the caller's critical section without changing any observable (argued, not proved).
    Likewise GetOrOpenStream's read-locked check and write-locked loop are one step: frames are
    handled by one goroutine, and DeleteStream/AcceptStream in between only raise maxStream.
    Out of the model: GetOrOpenStream after CloseWithError panics in Go (send on the closed
    newStreamChan); the harness never drives that (no peer frames after the connection closed).
    Definitions only; proofs are in Proofs*.v. *)
From Coq Require Import List ZArith Bool.
From V Require Import Gen.Params.
Import ListNotations.
Open Scope Z_scope.

(** * Observables *)

(** Error classes (shared with harness/quic/streamsmap.go). *)
Definition ErrState : Z := 1.         (* STREAM_STATE_ERROR *)
Definition ErrLimit : Z := 2.         (* STREAM_LIMIT_ERROR *)
Definition ErrLimitReached : Z := 3.  (* StreamLimitReachedError *)
Definition ErrClosed : Z := 4.        (* error given to CloseWithError *)
Definition Err0RTT : Z := 5.          (* Err0RTTRejected *)
Definition ErrCtx : Z := 6.           (* ctx.Err() *)
Definition ErrOther : Z := 7.

Inductive res :=
| RId (id : Z)     (* a stream with this ID was returned *)
| RNil             (* nil stream, nil error: "already deleted" *)
| RErr (e : Z)
| RParked          (* the caller blocks (or keeps blocking) *)
| RUnit            (* no return value / nil error *)
| RNotEnabled.     (* a wake/cancel op named a waiter that cannot take that step: no-op *)

Inductive frame :=
| FMax (uni : bool) (n : Z)        (* MAX_STREAMS *)
| FBlocked (uni : bool) (n : Z).   (* STREAMS_BLOCKED *)

(** * protocol.StreamID arithmetic (Go's % and / truncate towards zero: Z.rem, Z.quot) *)

Definition id_by_client (id : Z) : bool := Z.rem id 2 =? 0.      (* InitiatedBy() == client *)
Definition id_is_uni (id : Z) : bool := 2 <=? Z.rem id 4.        (* Type() == uni *)
Definition id_stream_num (id : Z) : Z := Z.quot id 4 + 1.        (* StreamNum() *)

(** StreamNum.StreamID(type, pers): the literals 0..3 are in the Go source. *)
Definition first_lit (uni client : bool) : Z :=
  match uni, client with
  | false, true => 0 | false, false => 1 | true, true => 2 | true, false => 3
  end.
Definition num_to_id (n : Z) (uni client : bool) : Z :=
  if n =? 0 then SM_InvalidStreamID else first_lit uni client + 4 * (n - 1).

Fixpoint zmem (w : Z) (l : list Z) : bool :=
  match l with [] => false | x :: r => (w =? x) || zmem w r end.
Fixpoint zremove (w : Z) (l : list Z) : list Z :=
  match l with [] => [] | x :: r => if w =? x then zremove w r else x :: zremove w r end.
Definition zadd (w : Z) (l : list Z) : list Z := if zmem w l then l else l ++ [w].

(** * incomingStreamsMap *)

Record inmap := mkIn {
  i_uni : bool;
  i_streams : list (Z * bool);   (* id |-> shouldDelete, sorted by id *)
  i_nextAccept : Z;
  i_nextOpen : Z;
  i_max : Z;
  i_maxNum : Z;
  i_closed : option Z;           (* closeErr (class) *)
  i_parked : list Z              (* AcceptStream callers blocked in the select, arrival order *)
}.

Definition first_incoming (uni client : bool) : Z :=
  match uni, client with
  | false, false => SM_FirstIncomingBidiStreamServer
  | false, true => SM_FirstIncomingBidiStreamClient
  | true, false => SM_FirstIncomingUniStreamServer
  | true, true => SM_FirstIncomingUniStreamClient
  end.

(** [client] is the map owner's perspective. *)
Definition init_in (uni client : bool) (maxStreams : Z) : inmap :=
  mkIn uni [] (first_incoming uni client) (first_incoming uni client)
       (num_to_id maxStreams uni (negb client)) maxStreams None [].

Fixpoint lookup (id : Z) (l : list (Z * bool)) : option bool :=
  match l with
  | [] => None
  | (k, v) :: r => if id =? k then Some v else lookup id r
  end.

(** map assignment, list kept sorted by key *)
Fixpoint put (id : Z) (v : bool) (l : list (Z * bool)) : list (Z * bool) :=
  match l with
  | [] => [(id, v)]
  | (k, x) :: r =>
    if id <? k then (id, v) :: l
    else if id =? k then (id, v) :: r
    else (k, x) :: put id v r
  end.

Fixpoint del (id : Z) (l : list (Z * bool)) : list (Z * bool) :=
  match l with
  | [] => []
  | (k, x) :: r => if id =? k then del id r else (k, x) :: del id r
  end.

Definition zlen {A} (l : list A) : Z := Z.of_nat (length l).

Definition in_set_streams (m : inmap) (s : list (Z * bool)) : inmap :=
  mkIn (i_uni m) s (i_nextAccept m) (i_nextOpen m) (i_max m) (i_maxNum m) (i_closed m) (i_parked m).

(** the ids created by the loop of GetOrOpenStream: nextOpen, nextOpen+4, ... <= id *)
Definition open_ids (from id : Z) : list Z :=
  map (fun k => from + 4 * Z.of_nat k) (seq 0 (Z.to_nat ((id - from) / 4 + 1))).

Definition in_get_or_open (m : inmap) (id : Z) : inmap * res :=
  if i_max m <? id then (m, RErr ErrLimit)
  else if id <? i_nextOpen m then
    (m, match lookup id (i_streams m) with Some false => RId id | _ => RNil end)
  else
    let s' := fold_left (fun s k => put k false s) (open_ids (i_nextOpen m) id) (i_streams m) in
    (mkIn (i_uni m) s' (i_nextAccept m) (id + 4) (i_max m) (i_maxNum m) (i_closed m) (i_parked m),
     match lookup id s' with Some _ => RId id | None => RNil end).

(** deleteStream (the unexported one): new state, success, queued frames *)
Definition in_delete_inner (m : inmap) (id : Z) : inmap * bool * list frame :=
  match lookup id (i_streams m) with
  | None => (m, false, [])
  | Some sd =>
    if i_nextAccept m <=? id then
      if sd then (m, false, [])
      else (in_set_streams m (put id true (i_streams m)), true, [])
    else
      let s' := del id (i_streams m) in
      if zlen s' <? i_maxNum m then
        let ms := i_nextOpen m + 4 * (i_maxNum m - zlen s' - 1) in
        if ms <=? SM_MaxStreamID then
          (mkIn (i_uni m) s' (i_nextAccept m) (i_nextOpen m) ms (i_maxNum m) (i_closed m) (i_parked m),
           true, [FMax (i_uni m) (id_stream_num ms)])
        else (in_set_streams m s', true, [])
      else (in_set_streams m s', true, [])
  end.

Definition in_delete (m : inmap) (id : Z) : inmap * res * list frame :=
  let '(m', ok, fr) := in_delete_inner m id in
  (m', if ok then RUnit else RErr ErrState, fr).

(** one execution of the AcceptStream loop body (lookup and advance under one lock) *)
Definition in_accept_core (m : inmap) : inmap * res * list frame :=
  match i_closed m with
  | Some e => (m, RErr e, [])
  | None =>
    let id := i_nextAccept m in
    match lookup id (i_streams m) with
    | None => (m, RParked, [])
    | Some sd =>
      let m1 := mkIn (i_uni m) (i_streams m) (id + 4) (i_nextOpen m) (i_max m) (i_maxNum m) (i_closed m) (i_parked m) in
      if sd then
        let '(m2, ok, fr) := in_delete_inner m1 id in
        (m2, if ok then RId id else RErr ErrOther, fr)
      else (m1, RId id, [])
    end
  end.

Definition in_set_parked (m : inmap) (l : list Z) : inmap :=
  mkIn (i_uni m) (i_streams m) (i_nextAccept m) (i_nextOpen m) (i_max m) (i_maxNum m) (i_closed m) l.

(** ... executed by caller [a]: it parks (stays parked) or leaves the set of parked callers *)
Definition in_accept (m : inmap) (a : Z) : inmap * res * list frame :=
  let '(m', r, fr) := in_accept_core m in
  (in_set_parked m' (match r with RParked => zadd a (i_parked m') | _ => zremove a (i_parked m') end), r, fr).

(** parked caller [a] takes the ctx.Done branch of the select *)
Definition in_accept_cancel (m : inmap) (a : Z) : inmap * res * list frame :=
  if zmem a (i_parked m) then (in_set_parked m (zremove a (i_parked m)), RErr ErrCtx, [])
  else (m, RNotEnabled, []).

Definition in_close (m : inmap) (e : Z) : inmap :=
  mkIn (i_uni m) (i_streams m) (i_nextAccept m) (i_nextOpen m) (i_max m) (i_maxNum m) (Some e) (i_parked m).

Inductive iop :=
| IGetOrOpen (id : Z) | IDelete (id : Z) | IAccept (a : Z) | IAcceptCancel (a : Z) | IClose (e : Z).

Definition istep (m : inmap) (o : iop) : inmap * res * list frame :=
  match o with
  | IGetOrOpen id => let '(m', r) := in_get_or_open m id in (m', r, [])
  | IDelete id => in_delete m id
  | IAccept a => in_accept m a
  | IAcceptCancel a => in_accept_cancel m a
  | IClose e => (in_close m e, RUnit, [])
  end.

(** * outgoingStreamsMap *)

Record outmap := mkOut {
  o_uni : bool;
  o_streams : list Z;           (* keys of the streams map, ascending *)
  o_queue : list (Z * bool);    (* openQueue: waiter id, "its channel holds a token" *)
  o_next : Z;
  o_max : Z;
  o_blockedSent : bool;
  o_closed : option Z;
  o_dead : list Z               (* waiters whose channel CloseWithError closed *)
}.

Definition first_outgoing (uni client : bool) : Z :=
  match uni, client with
  | false, false => SM_FirstOutgoingBidiStreamServer
  | false, true => SM_FirstOutgoingBidiStreamClient
  | true, false => SM_FirstOutgoingUniStreamServer
  | true, true => SM_FirstOutgoingUniStreamClient
  end.

Definition init_out (uni client : bool) : outmap :=
  mkOut uni [] [] (first_outgoing uni client) SM_InvalidStreamNum false None [].

Definition o_set_queue (m : outmap) (q : list (Z * bool)) : outmap :=
  mkOut (o_uni m) (o_streams m) q (o_next m) (o_max m) (o_blockedSent m) (o_closed m) (o_dead m).

Definition maybe_send_blocked (m : outmap) : outmap * list frame :=
  if o_blockedSent m then (m, [])
  else (mkOut (o_uni m) (o_streams m) (o_queue m) (o_next m) (o_max m) true (o_closed m) (o_dead m),
        [FBlocked (o_uni m) (if o_max m =? SM_InvalidStreamID then 0 else id_stream_num (o_max m))]).

Definition open_stream (m : outmap) : outmap * Z :=
  (mkOut (o_uni m) (o_streams m ++ [o_next m]) (o_queue m) (o_next m + 4) (o_max m)
         (o_blockedSent m) (o_closed m) (o_dead m), o_next m).

Definition maybe_unblock (m : outmap) : outmap :=
  match o_queue m with
  | [] => m
  | (w, _) :: r => if o_max m <? o_next m then m else o_set_queue m ((w, true) :: r)
  end.

Definition is_nil {A} (l : list A) : bool := match l with [] => true | _ => false end.

Definition o_open (m : outmap) : outmap * res * list frame :=
  match o_closed m with
  | Some e => (m, RErr e, [])
  | None =>
    if negb (is_nil (o_queue m)) || (o_max m <? o_next m) then
      let '(m', fr) := maybe_send_blocked m in (m', RErr ErrLimitReached, fr)
    else let '(m', id) := open_stream m in (m', RId id, [])
  end.

Definition o_sync_call (m : outmap) (w : Z) (cancelled : bool) : outmap * res * list frame :=
  match o_closed m with
  | Some e => (m, RErr e, [])
  | None =>
    if cancelled then (m, RErr ErrCtx, [])
    else if is_nil (o_queue m) && (o_next m <=? o_max m) then
      let '(m', id) := open_stream m in (m', RId id, [])
    else
      let '(m', fr) := maybe_send_blocked (o_set_queue m (o_queue m ++ [(w, false)])) in
      (m', RParked, fr)
  end.


Fixpoint q_token (w : Z) (q : list (Z * bool)) : option bool :=
  match q with [] => None | (x, t) :: r => if w =? x then Some t else q_token w r end.
Fixpoint q_clear (w : Z) (q : list (Z * bool)) : list (Z * bool) :=
  match q with [] => [] | (x, t) :: r => if w =? x then (x, false) :: r else (x, t) :: q_clear w r end.
Definition q_remove (w : Z) (q : list (Z * bool)) : list (Z * bool) :=
  filter (fun e => negb (w =? fst e)) q.

Definition o_set_dead (m : outmap) (d : list Z) : outmap :=
  mkOut (o_uni m) (o_streams m) (o_queue m) (o_next m) (o_max m) (o_blockedSent m) (o_closed m) d.

(** waiter [w] received from its channel (a token, or the channel was closed) *)
Definition o_sync_wake (m : outmap) (w : Z) : outmap * res * list frame :=
  if zmem w (o_dead m) then
    (o_set_dead m (zremove w (o_dead m)),
     RErr (match o_closed m with Some e => e | None => ErrOther end), [])
  else
    match q_token w (o_queue m) with
    | Some true =>
      let m1 := o_set_queue m (q_clear w (o_queue m)) in
      match o_closed m1 with
      | Some e => (m1, RErr e, [])
      | None =>
        if o_max m1 <? o_next m1 then (m1, RParked, [])   (* "no stream available. Continue waiting" *)
        else
          let '(m2, id) := open_stream m1 in
          let m3 := o_set_queue m2 (tl (o_queue m2)) in    (* m.openQueue = m.openQueue[1:] *)
          (maybe_unblock m3, RId id, [])
      end
    | _ => (m, RNotEnabled, [])
    end.

(** waiter [w] saw its context cancelled and took that branch of the select *)
Definition o_sync_cancel (m : outmap) (w : Z) : outmap * res * list frame :=
  if zmem w (o_dead m) then (o_set_dead m (zremove w (o_dead m)), RErr ErrCtx, [])
  else
    match q_token w (o_queue m) with
    | Some _ => (maybe_unblock (o_set_queue m (q_remove w (o_queue m))), RErr ErrCtx, [])
    | None => (m, RNotEnabled, [])
    end.

Definition o_set_max (m : outmap) (id : Z) : outmap * list frame :=
  if id <=? o_max m then (m, [])
  else
    let m1 := mkOut (o_uni m) (o_streams m) (o_queue m) (o_next m) id false (o_closed m) (o_dead m) in
    let '(m2, fr) :=
      if o_max m1 <? o_next m1 - 4 + 4 * zlen (o_queue m1) then maybe_send_blocked m1 else (m1, []) in
    (maybe_unblock m2, fr).

Definition o_get (m : outmap) (id : Z) : res :=
  if o_next m <=? id then RErr ErrState
  else if zmem id (o_streams m) then RId id else RNil.

Definition o_delete (m : outmap) (id : Z) : outmap * res :=
  if zmem id (o_streams m) then
    (mkOut (o_uni m) (zremove id (o_streams m)) (o_queue m) (o_next m) (o_max m)
           (o_blockedSent m) (o_closed m) (o_dead m), RUnit)
  else (m, RErr ErrState).

Definition o_close (m : outmap) (e : Z) : outmap :=
  mkOut (o_uni m) (o_streams m) [] (o_next m) (o_max m) (o_blockedSent m) (Some e)
        (o_dead m ++ map fst (o_queue m)).

Inductive oop :=
| OpOpen | OpSyncCall (w : Z) (cancelled : bool) | OpSyncWake (w : Z) | OpSyncCancel (w : Z)
| OpSetMax (id : Z) | OpGet (id : Z) | OpDelete (id : Z) | OpClose (e : Z).

Definition ostep (m : outmap) (o : oop) : outmap * res * list frame :=
  match o with
  | OpOpen => o_open m
  | OpSyncCall w c => o_sync_call m w c
  | OpSyncWake w => o_sync_wake m w
  | OpSyncCancel w => o_sync_cancel m w
  | OpSetMax id => let '(m', fr) := o_set_max m id in (m', RUnit, fr)
  | OpGet id => (m, o_get m id, [])
  | OpDelete id => let '(m', r) := o_delete m id in (m', r, [])
  | OpClose e => (o_close m e, RUnit, [])
  end.

(** * streamsMap: the four maps, dispatch by stream ID, 0-RTT reset *)

Record smap := mkSM {
  s_client : bool;
  s_maxBidi : Z;
  s_maxUni : Z;
  s_ob : outmap; s_ou : outmap;
  s_ib : inmap; s_iu : inmap;
  s_reset : bool;
  s_zomb : list Z;     (* OpenStreamSync callers still parked on maps replaced by ResetFor0RTT *)
  s_zacc : list Z;     (* AcceptStream callers still parked on replaced maps *)
  s_rsa : bool;        (* m.supportsResetStreamAt: given to streams created from now on *)
  s_rsaIDs : list Z    (* open outgoing streams whose send side has supportsResetStreamAt, ascending *)
}.

Definition init_sm (client : bool) (maxBidi maxUni : Z) : smap :=
  mkSM client maxBidi maxUni (init_out false client) (init_out true client)
       (init_in false client maxBidi) (init_in true client maxUni) false [] [] false [].

Inductive op :=
| OOpen (uni : bool)
| OSyncCall (uni : bool) (w : Z) (cancelled : bool)
| OSyncWake (uni : bool) (w : Z)
| OSyncCancel (uni : bool) (w : Z)
| OAcceptCall (uni : bool) (a : Z)
| OAcceptWake (uni : bool) (a : Z)          (* parked caller a received from newStreamChan *)
| OAcceptCancel (uni : bool) (a : Z)
| ODelete (id : Z)
| OMaxStreams (uni : bool) (n : Z)
| OTransportParams (nb nu : Z) (rsa : bool)   (* rsa: the parameters carry reset_stream_at *)
| ORecv (id : Z)       (* getReceiveStream: STREAM, RESET_STREAM, STREAM_DATA_BLOCKED *)
| OSend (id : Z)       (* getSendStream: MAX_STREAM_DATA, STOP_SENDING *)
| OClose (e : Z)
| OReset
| OUseReset.

Definition s_out (s : smap) (uni : bool) : outmap := if uni then s_ou s else s_ob s.
Definition s_in (s : smap) (uni : bool) : inmap := if uni then s_iu s else s_ib s.
Definition set_out (s : smap) (uni : bool) (m : outmap) : smap :=
  if uni then mkSM (s_client s) (s_maxBidi s) (s_maxUni s) (s_ob s) m (s_ib s) (s_iu s) (s_reset s) (s_zomb s) (s_zacc s) (s_rsa s) (s_rsaIDs s)
  else mkSM (s_client s) (s_maxBidi s) (s_maxUni s) m (s_ou s) (s_ib s) (s_iu s) (s_reset s) (s_zomb s) (s_zacc s) (s_rsa s) (s_rsaIDs s).
Definition set_in (s : smap) (uni : bool) (m : inmap) : smap :=
  if uni then mkSM (s_client s) (s_maxBidi s) (s_maxUni s) (s_ob s) (s_ou s) (s_ib s) m (s_reset s) (s_zomb s) (s_zacc s) (s_rsa s) (s_rsaIDs s)
  else mkSM (s_client s) (s_maxBidi s) (s_maxUni s) (s_ob s) (s_ou s) m (s_iu s) (s_reset s) (s_zomb s) (s_zacc s) (s_rsa s) (s_rsaIDs s).
Definition set_zomb (s : smap) (z : list Z) : smap :=
  mkSM (s_client s) (s_maxBidi s) (s_maxUni s) (s_ob s) (s_ou s) (s_ib s) (s_iu s) (s_reset s) z (s_zacc s) (s_rsa s) (s_rsaIDs s).
Definition set_zacc (s : smap) (z : list Z) : smap :=
  mkSM (s_client s) (s_maxBidi s) (s_maxUni s) (s_ob s) (s_ou s) (s_ib s) (s_iu s) (s_reset s) (s_zomb s) z (s_rsa s) (s_rsaIDs s).
Definition set_reset (s : smap) (b : bool) : smap :=
  mkSM (s_client s) (s_maxBidi s) (s_maxUni s) (s_ob s) (s_ou s) (s_ib s) (s_iu s) b (s_zomb s) (s_zacc s) (s_rsa s) (s_rsaIDs s).
Definition set_rsa (s : smap) (b : bool) (ids : list Z) : smap :=
  mkSM (s_client s) (s_maxBidi s) (s_maxUni s) (s_ob s) (s_ou s) (s_ib s) (s_iu s) (s_reset s) (s_zomb s) (s_zacc s) b ids.

(** id.InitiatedBy() == m.perspective *)
Definition by_self (s : smap) (id : Z) : bool := Bool.eqb (id_by_client id) (s_client s).

Definition via_out (s : smap) (uni : bool) (r : outmap * res * list frame) : smap * res * list frame :=
  let '(m, x, fr) := r in (set_out s uni m, x, fr).
Definition via_in (s : smap) (uni : bool) (r : inmap * res * list frame) : smap * res * list frame :=
  let '(m, x, fr) := r in (set_in s uni m, x, fr).

Definition t_get_recv (s : smap) (id : Z) : smap * res * list frame :=
  if id_is_uni id then
    if by_self s id then (s, RErr ErrState, [])
    else via_in s true (istep (s_iu s) (IGetOrOpen id))
  else
    if by_self s id then (s, o_get (s_ob s) id, [])
    else via_in s false (istep (s_ib s) (IGetOrOpen id)).

Definition t_get_send (s : smap) (id : Z) : smap * res * list frame :=
  if id_is_uni id then
    if negb (by_self s id) then (s, RErr ErrState, [])
    else (s, o_get (s_ou s) id, [])
  else
    if by_self s id then (s, o_get (s_ob s) id, [])
    else via_in s false (istep (s_ib s) (IGetOrOpen id)).

Definition t_delete (s : smap) (id : Z) : smap * res * list frame :=
  let uni := id_is_uni id in
  if by_self s id then via_out s uni (ostep (s_out s uni) (OpDelete id))
  else via_in s uni (istep (s_in s uni) (IDelete id)).

(** everything except the RESET_STREAM_AT bookkeeping *)
Definition tstep_core (s : smap) (o : op) : smap * res * list frame :=
  match o with
  | OOpen uni =>
    if s_reset s then (s, RErr Err0RTT, []) else via_out s uni (ostep (s_out s uni) OpOpen)
  | OSyncCall uni w c =>
    if s_reset s then (s, RErr Err0RTT, []) else via_out s uni (ostep (s_out s uni) (OpSyncCall w c))
  | OSyncWake uni w =>
    if zmem w (s_zomb s) then (set_zomb s (zremove w (s_zomb s)), RErr Err0RTT, [])
    else via_out s uni (ostep (s_out s uni) (OpSyncWake w))
  | OSyncCancel uni w =>
    if zmem w (s_zomb s) then (set_zomb s (zremove w (s_zomb s)), RErr ErrCtx, [])
    else via_out s uni (ostep (s_out s uni) (OpSyncCancel w))
  | OAcceptCall uni a =>
    if s_reset s then (s, RErr Err0RTT, []) else via_in s uni (istep (s_in s uni) (IAccept a))
  | OAcceptWake uni a =>
    if zmem a (s_zacc s) then (set_zacc s (zremove a (s_zacc s)), RErr Err0RTT, [])
    else if zmem a (i_parked (s_in s uni)) then via_in s uni (istep (s_in s uni) (IAccept a))
    else (s, RNotEnabled, [])
  | OAcceptCancel uni a =>
    if zmem a (s_zacc s) then (set_zacc s (zremove a (s_zacc s)), RErr ErrCtx, [])
    else via_in s uni (istep (s_in s uni) (IAcceptCancel a))
  | ODelete id => t_delete s id
  | OMaxStreams uni n =>
    via_out s uni (ostep (s_out s uni) (OpSetMax (num_to_id n uni (s_client s))))
  | OTransportParams nb nu _ =>
    let '(s1, _, f1) := via_out s false (ostep (s_ob s) (OpSetMax (num_to_id nb false (s_client s)))) in
    let '(s2, _, f2) := via_out s1 true (ostep (s_ou s1) (OpSetMax (num_to_id nu true (s_client s)))) in
    (s2, RUnit, f1 ++ f2)
  | ORecv id => t_get_recv s id
  | OSend id => t_get_send s id
  | OClose e =>
    (mkSM (s_client s) (s_maxBidi s) (s_maxUni s) (o_close (s_ob s) e) (o_close (s_ou s) e)
          (in_close (s_ib s) e) (in_close (s_iu s) e) (s_reset s) (s_zomb s) (s_zacc s) (s_rsa s) (s_rsaIDs s), RUnit, [])
  | OReset =>
    let z := s_zomb s ++ o_dead (o_close (s_ob s) Err0RTT) ++ o_dead (o_close (s_ou s) Err0RTT) in
    (mkSM (s_client s) (s_maxBidi s) (s_maxUni s)
          (init_out false (s_client s)) (init_out true (s_client s))
          (init_in false (s_client s) (s_maxBidi s)) (init_in true (s_client s) (s_maxUni s))
          true z (s_zacc s ++ i_parked (s_ib s) ++ i_parked (s_iu s)) (s_rsa s) (s_rsaIDs s), RUnit, [])
  | OUseReset => (set_reset s false, RUnit, [])
  end.

(** sorted insertion without duplicates *)
Fixpoint zinsert (x : Z) (l : list Z) : list Z :=
  match l with
  | [] => [x]
  | y :: r => if x <? y then x :: l else if x =? y then l else y :: zinsert x r
  end.

(** supportsResetStreamAt of the open outgoing streams (fixes/C15-reset-stream-at-without-consent.patch):
    a stream is created with the map's current flag; the transport-parameter handler of streams_map.go stores the peer's
    flag and switches the extension on for the streams that are already open ONLY if the peer
    enabled it; deleting a stream / replacing the maps forgets it. *)
Definition rsa_update (o : op) (s' : smap) (r : res) : smap :=
  match o with
  | OOpen _ | OSyncCall _ _ _ | OSyncWake _ _ =>
    match r with
    | RId id => if s_rsa s' then set_rsa s' true (zinsert id (s_rsaIDs s')) else s'
    | _ => s'
    end
  | OTransportParams _ _ rsa =>
    set_rsa s' rsa
            (if rsa then fold_right zinsert (s_rsaIDs s') (o_streams (s_ob s') ++ o_streams (s_ou s'))
             else s_rsaIDs s')
  | ODelete id => set_rsa s' (s_rsa s') (zremove id (s_rsaIDs s'))
  | OReset => set_rsa s' (s_rsa s') []
  | _ => s'
  end.

Definition tstep (s : smap) (o : op) : smap * res * list frame :=
  let '(s', r, fr) := tstep_core s o in (rsa_update o s' r, r, fr).

Fixpoint trun (s : smap) (ops : list op) : smap * list (res * list frame) :=
  match ops with
  | [] => (s, [])
  | o :: r =>
    let '(s1, x, fr) := tstep s o in
    let '(s2, out) := trun s1 r in (s2, (x, fr) :: out)
  end.

Fixpoint irun (m : inmap) (ops : list iop) : inmap * list (res * list frame) :=
  match ops with
  | [] => (m, [])
  | o :: r =>
    let '(m1, x, fr) := istep m o in
    let '(m2, out) := irun m1 r in (m2, (x, fr) :: out)
  end.

Fixpoint orun (m : outmap) (ops : list oop) : outmap * list (res * list frame) :=
  match ops with
  | [] => (m, [])
  | o :: r =>
    let '(m1, x, fr) := ostep m o in
    let '(m2, out) := orun m1 r in (m2, (x, fr) :: out)
  end.
