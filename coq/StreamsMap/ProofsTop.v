(** Proofs about the streamsMap dispatch: direction / initiator checks (STREAM_STATE_ERROR),
    and lifting of the per-map invariants to every reachable state of the four-map structure
    (including ResetFor0RTT). *)
From Coq Require Import List ZArith Bool Lia.
From Coq Require Import ZifyBool.
From V Require Import Gen.Params StreamsMap.Model StreamsMap.ProofsIn StreamsMap.ProofsOut.
Import ListNotations.
Open Scope Z_scope.
Local Ltac Zify.zify_post_hook ::= Z.div_mod_to_equations.

(** * C15(d): direction and initiator checks *)

(** receive-side frame (STREAM, RESET_STREAM, STREAM_DATA_BLOCKED) for our own unidirectional
    (send-only) stream *)
Lemma recv_wrong_direction : forall s id, id_is_uni id = true -> by_self s id = true ->
  t_get_recv s id = (s, RErr ErrState, []).
Proof. intros s id U S. unfold t_get_recv. rewrite U, S. reflexivity. Qed.

(** send-side frame (MAX_STREAM_DATA, STOP_SENDING) for the peer's unidirectional stream *)
Lemma send_wrong_direction : forall s id, id_is_uni id = true -> by_self s id = false ->
  t_get_send s id = (s, RErr ErrState, []).
Proof. intros s id U S. unfold t_get_send. rewrite U, S. reflexivity. Qed.

(** frame for a stream we would have to have opened, but have not *)
Lemma recv_unopened_local : forall s id, id_is_uni id = false -> by_self s id = true ->
  o_next (s_ob s) <= id -> t_get_recv s id = (s, RErr ErrState, []).
Proof.
  intros s id U S L. unfold t_get_recv, o_get. rewrite U, S.
  destruct (Z.leb_spec (o_next (s_ob s)) id); [reflexivity|lia].
Qed.

Lemma send_unopened_local : forall s id, by_self s id = true ->
  o_next (s_out s (id_is_uni id)) <= id -> t_get_send s id = (s, RErr ErrState, []).
Proof.
  intros s id S L. unfold t_get_send, o_get, s_out in *. rewrite S.
  destruct (id_is_uni id); cbn [negb];
    match goal with |- context [?a <=? id] => destruct (Z.leb_spec a id); [reflexivity|lia] end.
Qed.

(** frames for a local stream that was opened and already deleted are ignored *)
Lemma recv_deleted_local : forall s id, id_is_uni id = false -> by_self s id = true ->
  id < o_next (s_ob s) -> zmem id (o_streams (s_ob s)) = false -> t_get_recv s id = (s, RNil, []).
Proof.
  intros s id U S L M. unfold t_get_recv, o_get. rewrite U, S, M.
  destruct (Z.leb_spec (o_next (s_ob s)) id); [lia|reflexivity].
Qed.

Lemma send_deleted_local : forall s id, by_self s id = true ->
  id < o_next (s_out s (id_is_uni id)) -> zmem id (o_streams (s_out s (id_is_uni id))) = false ->
  t_get_send s id = (s, RNil, []).
Proof.
  intros s id S L M. unfold t_get_send, o_get, s_out in *. rewrite S.
  destruct (id_is_uni id); cbn [negb]; rewrite M;
    match goal with |- context [?a <=? id] => destruct (Z.leb_spec a id); [lia|reflexivity] end.
Qed.

Lemma deleted_local_ignored : forall s id, by_self s id = true ->
  id < o_next (s_out s (id_is_uni id)) -> zmem id (o_streams (s_out s (id_is_uni id))) = false ->
  t_get_send s id = (s, RNil, []) /\ (id_is_uni id = false -> t_get_recv s id = (s, RNil, [])).
Proof.
  intros s id S L M. split; [exact (send_deleted_local s id S L M)|].
  intros U. rewrite U in *. exact (recv_deleted_local s id U S L M).
Qed.

Lemma in_get_or_open_not_state : forall m id, snd (in_get_or_open m id) <> RErr ErrState.
Proof.
  intros m id. unfold in_get_or_open.
  destruct (i_max m <? id); [cbn; discriminate|].
  destruct (id <? i_nextOpen m); cbn [snd].
  - destruct (lookup id (i_streams m)) as [[]|]; discriminate.
  - destruct (lookup id _); discriminate.
Qed.

Lemma o_get_state_iff : forall m id, o_get m id = RErr ErrState <-> o_next m <= id.
Proof.
  intros m id. unfold o_get. destruct (Z.leb_spec (o_next m) id).
  - split; auto.
  - split; [|lia]. destruct (zmem id (o_streams m)); discriminate.
Qed.

(** ... and STREAM_STATE_ERROR is raised in no other case *)
Lemma recv_state_error_iff : forall s id,
  snd (fst (t_get_recv s id)) = RErr ErrState <->
  (id_is_uni id = true /\ by_self s id = true) \/
  (id_is_uni id = false /\ by_self s id = true /\ o_next (s_ob s) <= id).
Proof.
  intros s id. unfold t_get_recv.
  destruct (id_is_uni id), (by_self s id); cbn [fst snd].
  - split; auto.
  - cbn [istep]. pose proof (in_get_or_open_not_state (s_iu s) id) as N.
    destruct (in_get_or_open (s_iu s) id) as [m r]. cbn [via_in fst snd] in *.
    split; [contradiction|]. intros [[_ H]|[H _]]; discriminate.
  - rewrite o_get_state_iff. split; [auto|]. intros [[H _]|(_ & _ & H)]; [discriminate|exact H].
  - cbn [istep]. pose proof (in_get_or_open_not_state (s_ib s) id) as N.
    destruct (in_get_or_open (s_ib s) id) as [m r]. cbn [via_in fst snd] in *.
    split; [contradiction|]. intros [[H _]|(_ & H & _)]; discriminate.
Qed.

Lemma send_state_error_iff : forall s id,
  snd (fst (t_get_send s id)) = RErr ErrState <->
  (id_is_uni id = true /\ by_self s id = false) \/
  (by_self s id = true /\ o_next (s_out s (id_is_uni id)) <= id).
Proof.
  intros s id. unfold t_get_send, s_out.
  destruct (id_is_uni id), (by_self s id); cbn [fst snd negb].
  - rewrite o_get_state_iff. split; [auto|]. intros [[_ H]|[_ H]]; [discriminate|exact H].
  - split; auto.
  - rewrite o_get_state_iff. split; [auto|]. intros [[H _]|[_ H]]; [discriminate|exact H].
  - cbn [istep]. pose proof (in_get_or_open_not_state (s_ib s) id) as N.
    destruct (in_get_or_open (s_ib s) id) as [m r]. cbn [via_in fst snd] in *.
    split; [contradiction|]. intros [[H _]|[H _]]; discriminate.
Qed.

(** * Lifting the per-map invariants *)

(** ... and with them the fact that each map inside the streamsMap is a reachable state of the
    single-map model: the projection of a streams-map history onto one map (since the last
    ResetFor0RTT) is a history of that map. *)
Definition out_inv (uni client : bool) (m : outmap) : Prop :=
  (exists n K B, InvOut (first_outgoing uni client) m n K B) /\ dead_ok m /\ o_uni m = uni /\
  oreach uni client m.
Definition in_inv (uni client : bool) (N : Z) (m : inmap) : Prop :=
  inv_in (first_incoming uni client) N m /\ i_uni m = uni /\ ireach uni client N m.

Definition sm_inv (s : smap) : Prop :=
  0 <= s_maxBidi s /\ 0 <= s_maxUni s /\
  in_inv false (s_client s) (s_maxBidi s) (s_ib s) /\ in_inv true (s_client s) (s_maxUni s) (s_iu s) /\
  out_inv false (s_client s) (s_ob s) /\ out_inv true (s_client s) (s_ou s).

(** well-formed histories: stream IDs and stream counts come off the wire as varints *)
Definition top_ok (o : op) : Prop :=
  match o with
  | ORecv id | OSend id => 0 <= id
  | OMaxStreams _ n => 0 <= n
  | OTransportParams nb nu _ => 0 <= nb /\ 0 <= nu
  | _ => True
  end.

Lemma out_inv_init : forall uni client, out_inv uni client (init_out uni client).
Proof.
  intros. split; [exists 0, 0, (-1); apply inv_out_init|]. split; [apply dead_ok_init|].
  split; [reflexivity|apply oreach_init].
Qed.

Lemma in_inv_init : forall uni client N, 0 <= N -> in_inv uni client N (init_in uni client N).
Proof. intros. split; [apply inv_in_init; assumption|]. split; [reflexivity|apply ireach_init]. Qed.

Lemma sm_inv_init : forall client mb mu, 0 <= mb -> 0 <= mu -> sm_inv (init_sm client mb mu).
Proof.
  intros. unfold sm_inv, init_sm; cbn [s_maxBidi s_maxUni s_client s_ib s_iu s_ob s_ou].
  split; [assumption|]. split; [assumption|].
  split; [apply in_inv_init; assumption|]. split; [apply in_inv_init; assumption|].
  split; apply out_inv_init.
Qed.

Lemma out_inv_step : forall uni client m op m' r fr,
  out_inv uni client m -> oop_ok (first_outgoing uni client) op -> ostep m op = (m', r, fr) ->
  out_inv uni client m'.
Proof.
  intros uni client m op m' r fr ((n & K & B & I) & D & U & R) Hok E.
  pose proof (first_outgoing_range uni client) as Hf.
  destruct (ostep_inv _ _ _ _ _ _ _ _ _ Hf I Hok E) as (n' & K' & B' & I' & _ & _ & Hu & _).
  split; [exists n', K', B'; exact I'|]. split; [eapply dead_ok_step; eauto|].
  split; [congruence|eapply oreach_step; eauto].
Qed.

Lemma in_inv_step : forall uni client N m op m' r fr,
  in_inv uni client N m -> iop_ok (first_incoming uni client) op -> istep m op = (m', r, fr) ->
  in_inv uni client N m'.
Proof.
  intros uni client N m op m' r fr ((a & o & M & I) & U & R) Hok E.
  pose proof (first_incoming_range uni client) as Hf.
  destruct (istep_inv _ _ _ _ _ _ _ _ _ _ Hf I Hok E) as (a' & o' & M' & I' & _ & _ & _ & _ & Hu & _).
  split; [exists a', o', M'; exact I'|]. split; [congruence|eapply ireach_step; eauto].
Qed.

(** the dispatch by ID sends a peer-initiated ID to the incoming map of its own class *)
Lemma dispatch_lattice : forall s id, 0 <= id -> by_self s id = false ->
  on_lattice (first_incoming (id_is_uni id) (s_client s)) id.
Proof.
  intros s id H0 S. unfold by_self, id_by_client in S. unfold id_is_uni.
  rewrite (Z.rem_mod_nonneg id 2) in S by lia. rewrite (Z.rem_mod_nonneg id 4) by lia.
  exists (id / 4). split; [|lia].
  destruct (s_client s); destruct (Z.leb_spec 2 (id mod 4)); destruct (Z.eqb_spec (id mod 2) 0);
    cbn [Bool.eqb] in S; try discriminate; unf_first; lia.
Qed.

Lemma set_max_ok : forall n uni client, 0 <= n ->
  oop_ok (first_outgoing uni client) (OpSetMax (num_to_id n uni client)).
Proof.
  intros n uni client Hn. cbn [oop_ok]. unfold num_to_id.
  destruct (Z.eqb_spec n 0); [left; reflexivity|].
  right. exists n. split; [lia|]. destruct uni, client; reflexivity.
Qed.

Ltac simp_sm :=
  cbn [s_client s_maxBidi s_maxUni s_ob s_ou s_ib s_iu s_reset s_zomb s_zacc s_rsa s_rsaIDs s_out s_in set_out set_in
       set_zomb set_zacc set_reset set_rsa via_out via_in fst snd] in *.

Lemma sm_set_out : forall s uni m, sm_inv s -> out_inv uni (s_client s) m -> sm_inv (set_out s uni m).
Proof.
  intros s uni m (H1 & H2 & H3 & H4 & H5 & H6) Hm. unfold sm_inv, set_out.
  destruct uni; simp_sm; repeat split; try assumption; try apply H3; try apply H4; try apply H5; try apply H6; apply Hm.
Qed.

Lemma sm_set_in : forall s uni m, sm_inv s ->
  in_inv uni (s_client s) (if uni then s_maxUni s else s_maxBidi s) m -> sm_inv (set_in s uni m).
Proof.
  intros s uni m (H1 & H2 & H3 & H4 & H5 & H6) Hm. unfold sm_inv, set_in.
  destruct uni; simp_sm; repeat split; try assumption; try apply H3; try apply H4; try apply H5; try apply H6; apply Hm.
Qed.

Lemma sm_out : forall s uni, sm_inv s -> out_inv uni (s_client s) (s_out s uni).
Proof. intros s uni (H1 & H2 & H3 & H4 & H5 & H6). destruct uni; assumption. Qed.
Lemma sm_in : forall s uni, sm_inv s ->
  in_inv uni (s_client s) (if uni then s_maxUni s else s_maxBidi s) (s_in s uni).
Proof. intros s uni (H1 & H2 & H3 & H4 & H5 & H6). destruct uni; assumption. Qed.

Lemma set_out_params : forall s uni m,
  s_client (set_out s uni m) = s_client s /\ s_maxBidi (set_out s uni m) = s_maxBidi s /\
  s_maxUni (set_out s uni m) = s_maxUni s.
Proof. intros s [] m; repeat split; reflexivity. Qed.
Lemma set_in_params : forall s uni m,
  s_client (set_in s uni m) = s_client s /\ s_maxBidi (set_in s uni m) = s_maxBidi s /\
  s_maxUni (set_in s uni m) = s_maxUni s.
Proof. intros s [] m; repeat split; reflexivity. Qed.

Definition same_params (s s' : smap) : Prop :=
  s_client s' = s_client s /\ s_maxBidi s' = s_maxBidi s /\ s_maxUni s' = s_maxUni s.

Lemma via_out_inv : forall s uni op s' r fr, sm_inv s ->
  oop_ok (first_outgoing uni (s_client s)) op ->
  via_out s uni (ostep (s_out s uni) op) = (s', r, fr) -> sm_inv s' /\ same_params s s'.
Proof.
  intros s uni op s' r fr I Hok E.
  destruct (ostep (s_out s uni) op) as [[m x] f0] eqn:S1. cbn [via_out] in E. inj3 E; subst s' r fr.
  split; [|apply set_out_params]. apply sm_set_out; [exact I|].
  eapply out_inv_step; eauto using sm_out.
Qed.

Lemma via_in_inv : forall s uni op s' r fr, sm_inv s ->
  iop_ok (first_incoming uni (s_client s)) op ->
  via_in s uni (istep (s_in s uni) op) = (s', r, fr) -> sm_inv s' /\ same_params s s'.
Proof.
  intros s uni op s' r fr I Hok E.
  destruct (istep (s_in s uni) op) as [[m x] f0] eqn:S1. cbn [via_in] in E. inj3 E; subst s' r fr.
  split; [|apply set_in_params]. apply sm_set_in; [exact I|].
  eapply in_inv_step; eauto using sm_in.
Qed.

Lemma same_params_refl : forall s, same_params s s.
Proof. intros; repeat split; reflexivity. Qed.

Lemma tstep_core_inv : forall s o s' r fr, sm_inv s -> top_ok o -> tstep_core s o = (s', r, fr) ->
  sm_inv s' /\ same_params s s'.
Proof.
  intros s o s' r fr I Hok E.
  destruct o as [uni|uni w c|uni w|uni w|uni a|uni a|uni a|id|uni n|nb nu rsa|id|id|e| |]; cbn [tstep_core top_ok] in *.
  - destruct (s_reset s); [inj3 E; subst s'; split; [exact I|apply same_params_refl]|].
    eapply via_out_inv; eauto. exact Logic.I.
  - destruct (s_reset s); [inj3 E; subst s'; split; [exact I|apply same_params_refl]|].
    eapply via_out_inv; eauto. exact Logic.I.
  - destruct (zmem w (s_zomb s)).
    + inj3 E; subst s'. split; [|repeat split; reflexivity]. destruct I as (H1 & H2 & H3 & H4 & H5 & H6).
      unfold sm_inv, set_zomb; simp_sm. repeat split; assumption || apply H3 || apply H4 || apply H5 || apply H6.
    + eapply via_out_inv; eauto. exact Logic.I.
  - destruct (zmem w (s_zomb s)).
    + inj3 E; subst s'. split; [|repeat split; reflexivity]. destruct I as (H1 & H2 & H3 & H4 & H5 & H6).
      unfold sm_inv, set_zomb; simp_sm. repeat split; assumption || apply H3 || apply H4 || apply H5 || apply H6.
    + eapply via_out_inv; eauto. exact Logic.I.
  - destruct (s_reset s); [inj3 E; subst s'; split; [exact I|apply same_params_refl]|].
    eapply via_in_inv; eauto. exact Logic.I.
  - destruct (zmem a (s_zacc s)).
    + inj3 E; subst s'. split; [|repeat split; reflexivity]. destruct I as (H1 & H2 & H3 & H4 & H5 & H6).
      unfold sm_inv, set_zacc; simp_sm. repeat split; assumption || apply H3 || apply H4 || apply H5 || apply H6.
    + destruct (zmem a (i_parked (s_in s uni))); [|inj3 E; subst s'; split; [exact I|apply same_params_refl]].
      eapply via_in_inv; eauto. exact Logic.I.
  - destruct (zmem a (s_zacc s)).
    + inj3 E; subst s'. split; [|repeat split; reflexivity]. destruct I as (H1 & H2 & H3 & H4 & H5 & H6).
      unfold sm_inv, set_zacc; simp_sm. repeat split; assumption || apply H3 || apply H4 || apply H5 || apply H6.
    + eapply via_in_inv; eauto. exact Logic.I.
  - unfold t_delete in E. destruct (by_self s id).
    + eapply via_out_inv; eauto. exact Logic.I.
    + eapply via_in_inv; eauto. exact Logic.I.
  - eapply via_out_inv; eauto. apply set_max_ok. exact Hok.
  - destruct Hok as [Hb Hu].
    destruct (via_out s false (ostep (s_ob s) (OpSetMax (num_to_id nb false (s_client s))))) as [[s1 x1] f1] eqn:E1.
    destruct (via_out_inv s false _ _ _ _ I (set_max_ok nb false (s_client s) Hb) E1) as [I1 (P1 & P2 & P3)].
    destruct (via_out s1 true (ostep (s_ou s1) (OpSetMax (num_to_id nu true (s_client s))))) as [[s2 x2] f2] eqn:E2.
    inj3 E; subst s' r fr.
    assert (Hok2 : oop_ok (first_outgoing true (s_client s1)) (OpSetMax (num_to_id nu true (s_client s)))).
    { rewrite P1. apply set_max_ok. exact Hu. }
    destruct (via_out_inv s1 true _ _ _ _ I1 Hok2 E2) as [I2 (Q1 & Q2 & Q3)].
    split; [exact I2|]. repeat split; congruence.
  - unfold t_get_recv in E. destruct (id_is_uni id) eqn:U, (by_self s id) eqn:S;
      try (inj3 E; subst s'; split; [exact I|apply same_params_refl]).
    + apply (via_in_inv s true (IGetOrOpen id) s' r fr I); [|exact E].
      cbn [iop_ok]. rewrite <- U. apply dispatch_lattice; assumption.
    + apply (via_in_inv s false (IGetOrOpen id) s' r fr I); [|exact E].
      cbn [iop_ok]. rewrite <- U. apply dispatch_lattice; assumption.
  - unfold t_get_send in E. destruct (id_is_uni id) eqn:U, (by_self s id) eqn:S; cbn [negb] in E;
      try (inj3 E; subst s'; split; [exact I|apply same_params_refl]).
    apply (via_in_inv s false (IGetOrOpen id) s' r fr I); [|exact E].
    cbn [iop_ok]. rewrite <- U. apply dispatch_lattice; assumption.
  - inj3 E; subst s'. split; [|repeat split; reflexivity].
    destruct I as (H1 & H2 & H3 & H4 & H5 & H6).
    unfold sm_inv; simp_sm.
    split; [exact H1|]. split; [exact H2|].
    split; [eapply (in_inv_step false (s_client s) _ (s_ib s) (IClose e)); [exact H3|exact Logic.I|reflexivity]|].
    split; [eapply (in_inv_step true (s_client s) _ (s_iu s) (IClose e)); [exact H4|exact Logic.I|reflexivity]|].
    split; [eapply (out_inv_step false (s_client s) (s_ob s) (OpClose e)); [exact H5|exact Logic.I|reflexivity]|].
    eapply (out_inv_step true (s_client s) (s_ou s) (OpClose e)); [exact H6|exact Logic.I|reflexivity].
  - inj3 E; subst s'. split; [|repeat split; reflexivity].
    destruct I as (H1 & H2 & _). unfold sm_inv; simp_sm.
    split; [exact H1|]. split; [exact H2|].
    split; [apply in_inv_init; exact H1|]. split; [apply in_inv_init; exact H2|].
    split; apply out_inv_init.
  - inj3 E; subst s'. split; [|repeat split; reflexivity]. destruct I as (H1 & H2 & H3 & H4 & H5 & H6).
    unfold sm_inv, set_reset; simp_sm. repeat split; assumption || apply H3 || apply H4 || apply H5 || apply H6.
Qed.

Lemma sm_inv_set_rsa : forall s b ids, sm_inv s -> sm_inv (set_rsa s b ids).
Proof. intros s b ids H. exact H. Qed.

Lemma rsa_update_inv : forall o s r, sm_inv s -> sm_inv (rsa_update o s r) /\ same_params s (rsa_update o s r).
Proof.
  intros o s r I. unfold rsa_update.
  destruct o; try (split; [exact I|apply same_params_refl]);
    try (destruct r; try (split; [exact I|apply same_params_refl]); destruct (s_rsa s));
    split; try exact I; try apply same_params_refl; try (apply sm_inv_set_rsa; exact I); repeat split; reflexivity.
Qed.

Lemma tstep_inv : forall s o s' r fr, sm_inv s -> top_ok o -> tstep s o = (s', r, fr) ->
  sm_inv s' /\ same_params s s'.
Proof.
  intros s o s' r fr I Hok E. unfold tstep in E.
  destruct (tstep_core s o) as [[s1 r1] fr1] eqn:C. inj3 E. subst r1 fr1 s'.
  destruct (tstep_core_inv _ _ _ _ _ I Hok C) as [I1 (P1 & P2 & P3)].
  destruct (rsa_update_inv o s1 r I1) as [I2 (Q1 & Q2 & Q3)].
  split; [exact I2|]. repeat split; congruence.
Qed.

Lemma trun_inv : forall ops s s' outs, sm_inv s -> Forall top_ok ops -> trun s ops = (s', outs) ->
  sm_inv s' /\ same_params s s'.
Proof.
  induction ops as [|o ops IH]; intros s s' outs I Hok E; cbn [trun] in E.
  - injection E as <- _. split; [exact I|apply same_params_refl].
  - destruct (tstep s o) as [[s1 x] f1] eqn:S1. destruct (trun s1 ops) as [s2 outs2] eqn:R.
    injection E as <- _. inversion Hok as [|? ? Ho Hops]; subst.
    destruct (tstep_inv _ _ _ _ _ I Ho S1) as [I1 (P1 & P2 & P3)].
    destruct (IH _ _ _ I1 Hops R) as [I2 (Q1 & Q2 & Q3)].
    split; [exact I2|]. repeat split; congruence.
Qed.

(** ** C15(a) for the whole streams map: in every reachable state, for both stream types,
    open incoming streams + streams the peer may still open <= configured limit *)
Theorem sm_incoming_bound : forall client mb mu ops s outs,
  0 <= mb -> 0 <= mu -> Forall top_ok ops ->
  trun (init_sm client mb mu) ops = (s, outs) ->
  zlen (i_streams (s_ib s)) <= mb /\ zlen (i_streams (s_iu s)) <= mu /\
  0 <= in_credit (s_ib s) /\ in_credit (s_ib s) + zlen (i_streams (s_ib s)) <= mb /\
  0 <= in_credit (s_iu s) /\ in_credit (s_iu s) + zlen (i_streams (s_iu s)) <= mu.
Proof.
  intros client mb mu ops s outs Hb Hu Hok E.
  destruct (trun_inv _ _ _ _ (sm_inv_init client mb mu Hb Hu) Hok E) as [I (P1 & P2 & P3)].
  cbn [init_sm s_client s_maxBidi s_maxUni] in *.
  destruct I as (_ & _ & ((a1 & o1 & M1 & I1) & _) & ((a2 & o2 & M2 & I2) & _) & _).
  rewrite P1, P2 in I1. rewrite P1, P3 in I2.
  pose proof (first_incoming_range false client) as Hf1. pose proof (first_incoming_range true client) as Hf2.
  destruct (in_adv_inv _ _ _ _ _ _ Hf1 I1) as [A1 O1]. destruct (in_adv_inv _ _ _ _ _ _ Hf2 I2) as [A2 O2].
  unfold in_credit. rewrite A1, O1, A2, O2.
  destruct I1 as (_ & _ & _ & ? & ? & _ & ? & _). destruct I2 as (_ & _ & _ & ? & ? & _ & ? & _).
  pose proof (zlen_nonneg _ (i_streams (s_ib s))). pose proof (zlen_nonneg _ (i_streams (s_iu s))).
  repeat split; lia.
Qed.

(** ** C15(b) for the whole streams map: we never open beyond the peer's limit, the head of each
    open queue holds a wake-up exactly when a stream can be opened *)
Theorem sm_outgoing_discipline : forall client mb mu ops s outs uni,
  0 <= mb -> 0 <= mu -> Forall top_ok ops ->
  trun (init_sm client mb mu) ops = (s, outs) ->
  let m := s_out s uni in
  o_next m <= o_max m + 4 /\ head_tok m /\
  (exists n, o_next m = first_outgoing uni client + 4 * n /\ 0 <= n).
Proof.
  intros client mb mu ops s outs uni Hb Hu Hok E m.
  destruct (trun_inv _ _ _ _ (sm_inv_init client mb mu Hb Hu) Hok E) as [I (P1 & P2 & P3)].
  cbn [init_sm s_client] in P1.
  pose proof (sm_out s uni I) as ((n & K & B & Io) & _ & _). rewrite P1 in Io. fold m in Io.
  destruct Io as (Hn & Hr & HK & Ht & _). pose proof (first_outgoing_range uni client).
  split; [destruct HK as [[H1 H2]|[H1 H2]]; lia|]. split; [exact Ht|]. exists n. split; [exact Hn|lia].
Qed.

(** ** Every reachable state of the streamsMap: all per-map facts, for both stream types *)
Theorem sm_reachable_facts : forall client mb mu ops s outs uni,
  0 <= mb -> 0 <= mu -> Forall top_ok ops ->
  trun (init_sm client mb mu) ops = (s, outs) ->
  in_facts (first_incoming uni client) (s_in s uni) /\ i_uni (s_in s uni) = uni /\
  out_facts (s_out s uni) /\ o_uni (s_out s uni) = uni.
Proof.
  intros client mb mu ops s outs uni Hb Hu Hok E.
  destruct (trun_inv _ _ _ _ (sm_inv_init client mb mu Hb Hu) Hok E) as [I (P1 & P2 & P3)].
  cbn [init_sm s_client] in P1.
  pose proof (sm_in s uni I) as (Inv & Hui & _). pose proof (sm_out s uni I) as ((n & K & B & Io) & D & Huo & _).
  rewrite P1 in *.
  split; [eapply in_facts_inv; eauto using first_incoming_range|]. split; [exact Hui|].
  split; [eapply out_facts_inv; eauto using first_outgoing_range|exact Huo].
Qed.

(** * RESET_STREAM_AT only with the peer's consent *)

Lemma via_out_rsa : forall s uni x s' r fr, via_out s uni x = (s', r, fr) ->
  s_rsa s' = s_rsa s /\ s_rsaIDs s' = s_rsaIDs s.
Proof. intros s uni [[m r0] f0] s' r fr E. cbn in E. inj3 E. subst s'. destruct uni; split; reflexivity. Qed.

Lemma via_in_rsa : forall s uni x s' r fr, via_in s uni x = (s', r, fr) ->
  s_rsa s' = s_rsa s /\ s_rsaIDs s' = s_rsaIDs s.
Proof. intros s uni [[m r0] f0] s' r fr E. cbn in E. inj3 E. subst s'. destruct uni; split; reflexivity. Qed.

Lemma tstep_core_rsa : forall s o s' r fr, tstep_core s o = (s', r, fr) ->
  s_rsa s' = s_rsa s /\ s_rsaIDs s' = s_rsaIDs s.
Proof.
  intros s o s' r fr E.
  destruct o as [uni|uni w c|uni w|uni w|uni a|uni a|uni a|id|uni n|nb nu rsa|id|id|e| |]; cbn [tstep_core] in E.
  - destruct (s_reset s); [inj3 E; subst s'; split; reflexivity|eapply via_out_rsa; eauto].
  - destruct (s_reset s); [inj3 E; subst s'; split; reflexivity|eapply via_out_rsa; eauto].
  - destruct (zmem w (s_zomb s)); [inj3 E; subst s'; split; reflexivity|eapply via_out_rsa; eauto].
  - destruct (zmem w (s_zomb s)); [inj3 E; subst s'; split; reflexivity|eapply via_out_rsa; eauto].
  - destruct (s_reset s); [inj3 E; subst s'; split; reflexivity|eapply via_in_rsa; eauto].
  - destruct (zmem a (s_zacc s)); [inj3 E; subst s'; split; reflexivity|].
    destruct (zmem a (i_parked (s_in s uni))); [eapply via_in_rsa; eauto|inj3 E; subst s'; split; reflexivity].
  - destruct (zmem a (s_zacc s)); [inj3 E; subst s'; split; reflexivity|eapply via_in_rsa; eauto].
  - unfold t_delete in E. destruct (by_self s id); [eapply via_out_rsa; eauto|eapply via_in_rsa; eauto].
  - eapply via_out_rsa; eauto.
  - destruct (via_out s false _) as [[s1 x1] f1] eqn:E1. destruct (via_out s1 true _) as [[s2 x2] f2] eqn:E2.
    inj3 E. subst s'. destruct (via_out_rsa _ _ _ _ _ _ E1) as [A1 A2]. destruct (via_out_rsa _ _ _ _ _ _ E2) as [B1 B2].
    split; congruence.
  - unfold t_get_recv in E. destruct (id_is_uni id), (by_self s id);
      try (inj3 E; subst s'; split; reflexivity); eapply via_in_rsa; eauto.
  - unfold t_get_send in E. destruct (id_is_uni id), (by_self s id); cbn [negb] in E;
      try (inj3 E; subst s'; split; reflexivity); eapply via_in_rsa; eauto.
  - inj3 E; subst s'; split; reflexivity.
  - inj3 E; subst s'; split; reflexivity.
  - inj3 E; subst s'; split; reflexivity.
Qed.

Definition tp_enables (o : op) : bool :=
  match o with OTransportParams _ _ true => true | _ => false end.

(** some open outgoing stream (or every stream created from now on) would use RESET_STREAM_AT *)
Definition rsa_used (s : smap) : Prop := s_rsa s = true \/ s_rsaIDs s <> [].

Lemma zremove_nonnil : forall x l, zremove x l <> [] -> l <> [].
Proof. intros x [|y l] H; [exact H|discriminate]. Qed.

Lemma rsa_open_case : forall s1 r,
  rsa_used (match r with
            | RId id => if s_rsa s1 then set_rsa s1 true (zinsert id (s_rsaIDs s1)) else s1
            | _ => s1 end) -> rsa_used s1.
Proof.
  intros s1 r U. destruct r; try exact U. destruct (s_rsa s1) eqn:R; [left; exact R|exact U].
Qed.

Lemma tstep_rsa : forall s o s' r fr, tstep s o = (s', r, fr) ->
  rsa_used s' -> rsa_used s \/ tp_enables o = true.
Proof.
  intros s o s' r fr E U. unfold tstep in E.
  destruct (tstep_core s o) as [[s1 r1] fr1] eqn:C. inj3 E. subst r1 fr1 s'.
  destruct (tstep_core_rsa _ _ _ _ _ C) as [A1 A2].
  assert (K : rsa_used s1 -> rsa_used s) by (unfold rsa_used; rewrite A1, A2; auto).
  destruct o as [uni|uni w c|uni w|uni w|uni a|uni a|uni a|id|uni n|nb nu rsa|id|id|e| |];
    cbn [rsa_update tp_enables] in *; try (left; apply K; exact U).
  - left. apply K. eapply rsa_open_case; eauto.
  - left. apply K. eapply rsa_open_case; eauto.
  - left. apply K. eapply rsa_open_case; eauto.
  - (* DeleteStream *) left. apply K. unfold rsa_used in *. cbn [set_rsa s_rsa s_rsaIDs] in U.
    destruct U as [U|U]; [left; exact U|right]. eapply zremove_nonnil; eauto.
  - (* transport parameters *) destruct rsa; [right; reflexivity|left]. apply K.
    unfold rsa_used in *. cbn [set_rsa s_rsa s_rsaIDs] in U. destruct U as [U|U]; [discriminate|right; exact U].
  - (* ResetFor0RTT *) left. apply K. unfold rsa_used in *. cbn [set_rsa s_rsa s_rsaIDs] in U.
    destruct U as [U|U]; [left; exact U|congruence].
Qed.

Lemma trun_rsa : forall ops s s' outs, trun s ops = (s', outs) ->
  rsa_used s' -> rsa_used s \/ existsb tp_enables ops = true.
Proof.
  induction ops as [|o ops IH]; intros s s' outs E U; cbn [trun] in E.
  - injection E as <- _. left. exact U.
  - destruct (tstep s o) as [[s1 x] f1] eqn:S1. destruct (trun s1 ops) as [s2 outs2] eqn:R.
    injection E as <- _. cbn [existsb].
    destruct (IH _ _ _ R U) as [U1|U1]; [|right; rewrite U1; apply orb_true_r].
    destruct (tstep_rsa _ _ _ _ _ S1 U1) as [U0|U0]; [left; exact U0|right; rewrite U0; reflexivity].
Qed.

(** no stream of ours uses RESET_STREAM_AT unless some transport parameters carried reset_stream_at *)
Theorem sm_rsa_needs_consent : forall client mb mu ops s outs,
  trun (init_sm client mb mu) ops = (s, outs) -> rsa_used s -> existsb tp_enables ops = true.
Proof.
  intros client mb mu ops s outs E U. destruct (trun_rsa _ _ _ _ E U) as [[H|H]|H]; [cbn in H; discriminate|cbn in H; congruence|exact H].
Qed.

(** transport parameters without reset_stream_at switch the extension on for no open stream *)
Theorem sm_tp_without_rsa : forall s nb nu s' r fr,
  tstep s (OTransportParams nb nu false) = (s', r, fr) -> s_rsa s' = false /\ s_rsaIDs s' = s_rsaIDs s.
Proof.
  intros s nb nu s' r fr E. unfold tstep in E.
  destruct (tstep_core s (OTransportParams nb nu false)) as [[s1 r1] fr1] eqn:C. inj3 E. subst s'.
  destruct (tstep_core_rsa _ _ _ _ _ C) as [A1 A2]. cbn. split; [reflexivity|exact A2].
Qed.

(** * FIFO for the four-map structure, across ResetFor0RTT / UseResetMaps *)

(** callers of Open(Uni)StreamSync that started to wait / that got a stream after waiting *)
Definition step_arr (uni : bool) (o : op) (r : res) : list Z :=
  match o, r with OSyncCall u w _, RParked => if Bool.eqb u uni then [w] else [] | _, _ => [] end.
Definition step_srv (uni : bool) (o : op) (r : res) : list Z :=
  match o, r with OSyncWake u w, RId _ => if Bool.eqb u uni then [w] else [] | _, _ => [] end.

Fixpoint tarrivals (uni : bool) (ops : list op) (outs : list (res * list frame)) : list Z :=
  match ops, outs with
  | o :: ops', (r, _) :: outs' => step_arr uni o r ++ tarrivals uni ops' outs'
  | _, _ => []
  end.
Fixpoint tserved (uni : bool) (ops : list op) (outs : list (res * list frame)) : list Z :=
  match ops, outs with
  | o :: ops', (r, _) :: outs' => step_srv uni o r ++ tserved uni ops' outs'
  | _, _ => []
  end.

Lemma s_out_set_out : forall s u m uni,
  s_out (set_out s u m) uni = if Bool.eqb u uni then m else s_out s uni.
Proof. intros s [] m []; reflexivity. Qed.
Lemma s_out_set_in : forall s u m uni, s_out (set_in s u m) uni = s_out s uni.
Proof. intros s [] m []; reflexivity. Qed.
Lemma s_out_rsa_update : forall o s r uni, s_out (rsa_update o s r) uni = s_out s uni.
Proof.
  intros o s r uni. unfold rsa_update.
  destruct o; try reflexivity; try (destruct r; try reflexivity; destruct (s_rsa s); reflexivity).
Qed.

Lemma via_out_queue : forall s u uni op s' r fr, sm_inv s ->
  via_out s u (ostep (s_out s u) op) = (s', r, fr) ->
  if Bool.eqb u uni then
    match op, r with
    | OpSyncCall w _, RParked => queue_ids (s_out s' uni) = queue_ids (s_out s uni) ++ [w]
    | OpSyncWake w, RId _ => queue_ids (s_out s uni) = w :: queue_ids (s_out s' uni)
    | _, _ => subseq (queue_ids (s_out s' uni)) (queue_ids (s_out s uni))
    end
  else s_out s' uni = s_out s uni.
Proof.
  intros s u uni op s' r fr I E.
  destruct (ostep (s_out s u) op) as [[m x] f0] eqn:S1. cbn [via_out] in E. inj3 E. subst s' x f0.
  rewrite s_out_set_out. destruct (Bool.eqb u uni) eqn:Eq; [|reflexivity].
  apply eqb_prop in Eq. subst u.
  destruct (sm_out s uni I) as ((n & K & B & Io) & _ & _).
  exact (ostep_queue _ _ _ _ _ _ _ _ _ (first_outgoing_range uni (s_client s)) Io S1).
Qed.

Lemma via_in_out : forall s u x s' r fr uni, via_in s u x = (s', r, fr) -> s_out s' uni = s_out s uni.
Proof. intros s u [[m r0] f0] s' r fr uni E. cbn in E. inj3 E. subst s'. apply s_out_set_in. Qed.

(** one step of the induction behind the FIFO theorem *)
Lemma tstep_fifo : forall s o s' r fr uni X A, sm_inv s -> top_ok o -> tstep s o = (s', r, fr) ->
  subseq X (queue_ids (s_out s' uni) ++ A) ->
  subseq (step_srv uni o r ++ X) (queue_ids (s_out s uni) ++ step_arr uni o r ++ A).
Proof.
  intros s o s' r fr uni X A I Hok E H. unfold tstep in E.
  destruct (tstep_core s o) as [[s1 r1] fr1] eqn:C. inj3 E. subst r1 fr1 s'.
  rewrite s_out_rsa_update in H.
  assert (Same : s_out s1 uni = s_out s uni -> step_srv uni o r = [] -> step_arr uni o r = [] ->
                 subseq (step_srv uni o r ++ X) (queue_ids (s_out s uni) ++ step_arr uni o r ++ A)).
  { intros Q S1 S2. rewrite S1, S2. cbn [app]. rewrite <- Q. exact H. }
  assert (Sub : subseq (queue_ids (s_out s1 uni)) (queue_ids (s_out s uni)) ->
                step_srv uni o r = [] -> step_arr uni o r = [] ->
                subseq (step_srv uni o r ++ X) (queue_ids (s_out s uni) ++ step_arr uni o r ++ A)).
  { intros Q S1 S2. rewrite S1, S2. cbn [app]. eapply subseq_trans; [exact H|]. apply subseq_app_mono. exact Q. }
  destruct o as [u|u w c|u w|u w|u a|u a|u a|id|u n|nb nu rsa|id|id|e| |]; cbn [tstep_core top_ok] in *.
  - (* OpenStream *)
    destruct (s_reset s); [inj3 C; subst s1; apply Same; reflexivity|].
    pose proof (via_out_queue s u uni OpOpen s1 r fr I C) as Q.
    destruct (Bool.eqb u uni); [|apply Same; [exact Q|reflexivity|reflexivity]].
    apply Sub; [destruct r; exact Q|reflexivity|reflexivity].
  - (* OpenStreamSync, call *)
    destruct (s_reset s); [inj3 C; subst s1 r; apply Same; reflexivity|].
    pose proof (via_out_queue s u uni (OpSyncCall w c) s1 r fr I C) as Q.
    unfold step_arr, step_srv. destruct (Bool.eqb u uni).
    + destruct r; try (cbn [app]; eapply subseq_trans; [exact H|]; apply subseq_app_mono; exact Q).
      cbn [app]. rewrite Q in H. rewrite <- app_assoc in H. exact H.
    + rewrite Q in H. destruct r; exact H.
  - (* OpenStreamSync, woken *)
    destruct (zmem w (s_zomb s)); [inj3 C; subst s1 r; apply Same; reflexivity|].
    pose proof (via_out_queue s u uni (OpSyncWake w) s1 r fr I C) as Q.
    unfold step_arr, step_srv. destruct (Bool.eqb u uni).
    + destruct r; try (cbn [app]; eapply subseq_trans; [exact H|]; apply subseq_app_mono; exact Q).
      cbn [app]. rewrite Q. cbn [app]. apply sub_take. exact H.
    + rewrite Q in H. destruct r; exact H.
  - (* OpenStreamSync, cancelled *)
    destruct (zmem w (s_zomb s)); [inj3 C; subst s1; apply Same; reflexivity|].
    pose proof (via_out_queue s u uni (OpSyncCancel w) s1 r fr I C) as Q.
    destruct (Bool.eqb u uni); [|apply Same; [exact Q|reflexivity|reflexivity]].
    apply Sub; [destruct r; exact Q|reflexivity|reflexivity].
  - destruct (s_reset s); [inj3 C; subst s1; apply Same; reflexivity|].
    apply Same; [eapply via_in_out; eauto|reflexivity|reflexivity].
  - destruct (zmem a (s_zacc s)); [inj3 C; subst s1; apply Same; reflexivity|].
    destruct (zmem a (i_parked (s_in s u))); [|inj3 C; subst s1; apply Same; reflexivity].
    apply Same; [eapply via_in_out; eauto|reflexivity|reflexivity].
  - destruct (zmem a (s_zacc s)); [inj3 C; subst s1; apply Same; reflexivity|].
    apply Same; [eapply via_in_out; eauto|reflexivity|reflexivity].
  - (* DeleteStream *)
    unfold t_delete in C. destruct (by_self s id).
    + pose proof (via_out_queue s (id_is_uni id) uni (OpDelete id) s1 r fr I C) as Q.
      destruct (Bool.eqb (id_is_uni id) uni); [|apply Same; [exact Q|reflexivity|reflexivity]].
      apply Sub; [destruct r; exact Q|reflexivity|reflexivity].
    + apply Same; [eapply via_in_out; eauto|reflexivity|reflexivity].
  - (* MAX_STREAMS *)
    pose proof (via_out_queue s u uni _ s1 r fr I C) as Q.
    destruct (Bool.eqb u uni); [|apply Same; [exact Q|reflexivity|reflexivity]].
    apply Sub; [destruct r; exact Q|reflexivity|reflexivity].
  - (* transport parameters *)
    destruct Hok as [Hb Hu].
    destruct (via_out s false _) as [[s2 x2] f2] eqn:E1.
    destruct (via_out_inv s false _ _ _ _ I (set_max_ok nb false (s_client s) Hb) E1) as [I2 (P1 & _)].
    destruct (via_out s2 true _) as [[s3 x3] f3] eqn:E2. inj3 C. subst s1.
    pose proof (via_out_queue s false uni _ s2 x2 f2 I E1) as Q1.
    pose proof (via_out_queue s2 true uni _ s3 x3 f3 I2 E2) as Q2.
    apply Sub; [|reflexivity|reflexivity].
    destruct uni; cbn [Bool.eqb] in Q1, Q2.
    + rewrite <- Q1. destruct x3; exact Q2.
    + rewrite Q2. destruct x2; exact Q1.
  - (* receive-side frame *)
    unfold t_get_recv in C. destruct (id_is_uni id), (by_self s id);
      try (inj3 C; subst s1; apply Same; reflexivity);
      (apply Same; [eapply via_in_out; eauto|reflexivity|reflexivity]).
  - unfold t_get_send in C. destruct (id_is_uni id), (by_self s id); cbn [negb] in C;
      try (inj3 C; subst s1; apply Same; reflexivity);
      (apply Same; [eapply via_in_out; eauto|reflexivity|reflexivity]).
  - (* CloseWithError: the queues are emptied *)
    inj3 C. subst s1. apply Sub; [|reflexivity|reflexivity]. destruct uni; cbn; constructor.
  - (* ResetFor0RTT: new maps, empty queues *)
    inj3 C. subst s1. apply Sub; [|reflexivity|reflexivity]. destruct uni; cbn; constructor.
  - inj3 C. subst s1. apply Same; reflexivity.
Qed.

Lemma trun_fifo : forall ops s s' outs uni, sm_inv s -> Forall top_ok ops -> trun s ops = (s', outs) ->
  subseq (tserved uni ops outs) (queue_ids (s_out s uni) ++ tarrivals uni ops outs).
Proof.
  induction ops as [|o ops IH]; intros s s' outs uni I Hok E; cbn [trun] in E.
  - injection E as _ <-. constructor.
  - destruct (tstep s o) as [[s1 x] f1] eqn:S1. destruct (trun s1 ops) as [s2 outs2] eqn:R.
    injection E as _ <-. inversion Hok as [|? ? Ho Hops]; subst.
    destruct (tstep_inv _ _ _ _ _ I Ho S1) as [I1 _].
    cbn [tserved tarrivals]. eapply tstep_fifo; eauto.
Qed.

(** ** C15(b), FIFO for the whole streamsMap, across 0-RTT resets: for each stream type, the callers
    that got a stream after waiting are, in service order, a subsequence of the callers in arrival order *)
Theorem sm_fifo : forall client mb mu ops s outs uni, 0 <= mb -> 0 <= mu -> Forall top_ok ops ->
  trun (init_sm client mb mu) ops = (s, outs) ->
  subseq (tserved uni ops outs) (tarrivals uni ops outs).
Proof.
  intros client mb mu ops s outs uni Hb Hu Hok E.
  pose proof (trun_fifo ops _ _ _ uni (sm_inv_init client mb mu Hb Hu) Hok E) as H.
  destruct uni; exact H.
Qed.

(** what ResetFor0RTT does to blocked callers: they are not carried over to the new maps; each of
    them returns Err0RTTRejected when it wakes (its channel was closed) or its context error if it
    is cancelled first; none of them ever gets a stream *)
Theorem sm_reset_fails_waiters : forall s s' r fr, tstep s OReset = (s', r, fr) ->
  (forall w, In w (queue_ids (s_ob s) ++ o_dead (s_ob s) ++ queue_ids (s_ou s) ++ o_dead (s_ou s) ++ s_zomb s) ->
             In w (s_zomb s')) /\
  (forall a, In a (i_parked (s_ib s) ++ i_parked (s_iu s) ++ s_zacc s) -> In a (s_zacc s')) /\
  queue_ids (s_ob s') = [] /\ queue_ids (s_ou s') = [] /\ i_parked (s_ib s') = [] /\ i_parked (s_iu s') = [] /\
  s_reset s' = true.
Proof.
  intros s s' r fr E. cbn in E. inj3 E. subst s'. cbn.
  split; [|split; [|repeat split; reflexivity]].
  - intros w H. unfold queue_ids in H. rewrite !in_app_iff in *. tauto.
  - intros a H. rewrite !in_app_iff in *. tauto.
Qed.

Lemma zmem_In : forall w l, In w l -> zmem w l = true.
Proof.
  induction l as [|x l IH]; cbn; intros H; [contradiction|].
  destruct H as [->|H]; [rewrite Z.eqb_refl; reflexivity|]. rewrite (IH H). apply orb_true_r.
Qed.

Theorem sm_zombie_outcome : forall s uni w, In w (s_zomb s) ->
  snd (fst (tstep s (OSyncWake uni w))) = RErr Err0RTT /\
  snd (fst (tstep s (OSyncCancel uni w))) = RErr ErrCtx.
Proof.
  intros s uni w H. apply zmem_In in H. unfold tstep; cbn [tstep_core]. rewrite H. split; reflexivity.
Qed.

Theorem sm_zombie_acceptor_outcome : forall s uni a, In a (s_zacc s) ->
  snd (fst (tstep s (OAcceptWake uni a))) = RErr Err0RTT /\
  snd (fst (tstep s (OAcceptCancel uni a))) = RErr ErrCtx.
Proof.
  intros s uni a H. apply zmem_In in H. unfold tstep; cbn [tstep_core]. rewrite H. split; reflexivity.
Qed.

(** no lost wake-up (OpenStreamSync) in every reachable state of the streamsMap *)
Theorem sm_no_lost_wakeup_open : forall client mb mu ops s outs uni,
  0 <= mb -> 0 <= mu -> Forall top_ok ops ->
  trun (init_sm client mb mu) ops = (s, outs) ->
  let m := s_out s uni in
  out_quiescent m -> o_queue m <> [] -> o_closed m = None /\ o_max m < o_next m.
Proof.
  intros client mb mu ops s outs uni Hb Hu Hok E m.
  destruct (trun_inv _ _ _ _ (sm_inv_init client mb mu Hb Hu) Hok E) as [I _].
  destruct (sm_out s uni I) as ((n & K & B & Io) & _ & _).
  eapply out_no_lost_wakeup_inv; eauto using first_outgoing_range.
Qed.

(** * 0-RTT rejection: the maps start over *)
Theorem sm_reset_restarts : forall s s' r fr, tstep s OReset = (s', r, fr) ->
  s_ob s' = init_out false (s_client s) /\ s_ou s' = init_out true (s_client s) /\
  s_ib s' = init_in false (s_client s) (s_maxBidi s) /\ s_iu s' = init_in true (s_client s) (s_maxUni s) /\
  s_rsaIDs s' = [] /\ fr = [].
Proof. intros s s' r fr E. cbn in E. inj3 E. subst s' fr. cbn. repeat split; reflexivity. Qed.

(** ... and until UseResetMaps the application's calls fail with Err0RTTRejected without touching them *)
Theorem sm_reset_blocks_api : forall s uni w c a, s_reset s = true ->
  tstep s (OOpen uni) = (s, RErr Err0RTT, []) /\
  tstep s (OSyncCall uni w c) = (s, RErr Err0RTT, []) /\
  tstep s (OAcceptCall uni a) = (s, RErr Err0RTT, []).
Proof. intros s uni w c a H. unfold tstep; cbn [tstep_core]. rewrite H. cbn. repeat split; reflexivity. Qed.

(** * Audit round: each map inside a reachable streamsMap is a reachable single-map state *)

(** the projection of a streams-map history (any API history, including ResetFor0RTT, after which the
    projected history starts afresh) onto one of its four maps is a history of the single-map model *)
Theorem sm_components_reach : forall client mb mu ops s outs uni,
  0 <= mb -> 0 <= mu -> Forall top_ok ops ->
  trun (init_sm client mb mu) ops = (s, outs) ->
  ireach uni client (if uni then mu else mb) (s_in s uni) /\ oreach uni client (s_out s uni).
Proof.
  intros client mb mu ops s outs uni Hb Hu Hok E.
  destruct (trun_inv _ _ _ _ (sm_inv_init client mb mu Hb Hu) Hok E) as [I (P1 & P2 & P3)].
  cbn [init_sm s_client s_maxBidi s_maxUni] in P1, P2, P3.
  pose proof (sm_in s uni I) as (_ & _ & Ri). pose proof (sm_out s uni I) as (_ & _ & _ & Ro).
  rewrite P1, P2, P3 in *. split; assumption.
Qed.

(** exact credit at the newStreamsMap level, every reachable state, both stream types *)
Theorem sm_credit_exact : forall client mb mu ops s outs (uni : bool),
  0 <= mb -> 0 <= mu -> Forall top_ok ops ->
  trun (init_sm client mb mu) ops = (s, outs) ->
  let N := (if uni then mu else mb) : Z in
  in_opened (s_in s uni) + N <= SM_MaxStreamCount ->
  in_credit (s_in s uni) + zlen (i_streams (s_in s uni)) = N.
Proof.
  intros client mb mu ops s outs uni Hb Hu Hok E N Hbd.
  destruct (sm_components_reach _ _ _ _ _ _ uni Hb Hu Hok E) as [Ri _].
  apply (in_credit_exact_reach uni client N (s_in s uni)); [unfold N; destruct uni; assumption|exact Ri|exact Hbd].
Qed.

(** the trace theorems of a single map apply to the part of the history since the last reset: there
    IS a map history ending in the map's current state, and for it the IDs handed out by AcceptStream
    are first, first+4, ..., the IDs of the locally opened streams are first, first+4, ... up to
    nextStream (which is the "never opened" threshold of the STREAM_STATE_ERROR checks), and the
    MAX_STREAMS frames form a strictly increasing chain from the configured limit *)
Theorem sm_component_histories : forall client mb mu ops s outs (uni : bool),
  0 <= mb -> 0 <= mu -> Forall top_ok ops ->
  trun (init_sm client mb mu) ops = (s, outs) ->
  let N := (if uni then mu else mb) : Z in
  (exists iops iouts, Forall (iop_ok (first_incoming uni client)) iops /\
     irun (init_in uni client N) iops = (s_in s uni, iouts) /\
     accepted iops iouts = ids_from (first_incoming uni client) (length (accepted iops iouts)) /\
     i_nextAccept (s_in s uni) = first_incoming uni client + 4 * zlen (accepted iops iouts) /\
     chain uni N (frames_of iouts) (in_adv (s_in s uni))) /\
  (exists oops oouts, Forall (oop_ok (first_outgoing uni client)) oops /\
     orun (init_out uni client) oops = (s_out s uni, oouts) /\
     opened oops oouts = ids_from (first_outgoing uni client) (length (opened oops oouts)) /\
     o_next (s_out s uni) = first_outgoing uni client + 4 * zlen (opened oops oouts) /\
     Forall (fun id => id <= o_max (s_out s uni)) (opened oops oouts)).
Proof.
  intros client mb mu ops s outs uni Hb Hu Hok E N.
  assert (HN : 0 <= N) by (unfold N; destruct uni; assumption).
  destruct (sm_components_reach _ _ _ _ _ _ uni Hb Hu Hok E) as [(iops & iouts & Hi & Ei) (oops & oouts & Ho & Eo)].
  fold N in Ei. split.
  - exists iops, iouts. split; [exact Hi|]. split; [exact Ei|].
    destruct (in_accept_order _ _ _ _ _ _ HN Hi Ei) as [A1 A2].
    destruct (in_bound _ _ _ _ _ _ HN Hi Ei) as (_ & _ & _ & Hc & _).
    repeat split; assumption.
  - exists oops, oouts. split; [exact Ho|]. split; [exact Eo|].
    destruct (out_ids _ _ _ _ _ Ho Eo) as (O1 & O2 & O3 & _). repeat split; assumption.
Qed.
