(** ConnIDs — executable model of /repo's [connIDManager] (conn_id_manager.go) and
    [connIDGenerator] (conn_id_generator.go). Definitions only; proofs live in Proofs*.v.

    Conventions: sequence numbers, path IDs, times, packet counters are [Z]; connection IDs
    are byte lists ([list Z]); stateless reset tokens are the 16 bytes read as a big-endian
    number ([Z]). Every callback the Go code invokes (queueControlFrame, add/remove reset
    token, Add/Remove/ReplaceWithClosed on the runner) is appended to a log kept in the
    state, newest first. Go map iteration order (pathProbing, activeSrcConnIDs) is
    unspecified; the model iterates association lists in insertion order and the
    correspondence check compares per-operation event lists up to permutation. *)
From Coq Require Import List ZArith Bool String.
From V Require Import Gen.Params Lib.Hex.
Import ListNotations.
Open Scope Z_scope.

(** big-endian number of a hex string (reset tokens) *)
Definition hn (s : string) : Z := fold_left (fun a b => a * 256 + b) (hx s) 0.

Definition cid := list Z.
Definition cid_eqb (a b : cid) : bool := zeqb_list a b.

(** Result classes (harness: nil / PROTOCOL_VIOLATION / CONNECTION_ID_LIMIT_ERROR /
    other error / panic). [ROracle] = the model ran out of oracle values (never produced
    by the implementation, so it always shows as a mismatch). *)
Inductive rclass := ROk | RProto | RLimit | ROther | RPanic | ROracle.
Definition rclass_code (r : rclass) : Z :=
  match r with ROk => 0 | RProto => 1 | RLimit => 2 | ROther => 3 | RPanic => 4 | ROracle => 5 end.

(* ------------------------------------------------------------------------- *)
(** * connIDManager *)

Record ncid := mkN { n_seq : Z; n_cid : cid; n_tok : Z }.

Inductive mev :=
| EvRetire (s : Z)      (* queueControlFrame(&RetireConnectionIDFrame{s}) *)
| EvAddTok (t : Z)      (* addStatelessResetToken(t) *)
| EvRemTok (t : Z).     (* removeStatelessResetToken(t) *)

Record mgr := mkM {
  m_queue : list ncid;
  m_hprobe : Z;                       (* highestProbingID *)
  m_probing : list (Z * ncid);        (* pathProbing: pathID -> entry *)
  m_hsdone : bool;
  m_active : Z;                       (* activeSequenceNumber *)
  m_hretired : Z;                     (* highestRetired *)
  m_acid : cid;                       (* activeConnectionID *)
  m_atok : option Z;                  (* activeStatelessResetToken *)
  m_since : Z;                        (* packetsSinceLastChange *)
  m_ppc : Z;                          (* packetsPerConnectionID *)
  m_closed : bool;
  m_log : list mev;                   (* callbacks, newest first *)
  m_advlimit : Z                      (* [UQUIC] advertisedLimit (SetConnectionIDLimit), 0 unless spec-driven *)
}.

Definition mgr_init (initial : cid) : mgr :=
  mkM [] 0 [] false 0 0 initial None 0 0 false [] 0.

Definition set_queue (st : mgr) q :=
  mkM q (m_hprobe st) (m_probing st) (m_hsdone st) (m_active st) (m_hretired st) (m_acid st) (m_atok st)
      (m_since st) (m_ppc st) (m_closed st) (m_log st) (m_advlimit st).
Definition set_probing (st : mgr) p :=
  mkM (m_queue st) (m_hprobe st) p (m_hsdone st) (m_active st) (m_hretired st) (m_acid st) (m_atok st)
      (m_since st) (m_ppc st) (m_closed st) (m_log st) (m_advlimit st).
Definition set_hretired (st : mgr) h :=
  mkM (m_queue st) (m_hprobe st) (m_probing st) (m_hsdone st) (m_active st) h (m_acid st) (m_atok st)
      (m_since st) (m_ppc st) (m_closed st) (m_log st) (m_advlimit st).
Definition emit (st : mgr) (e : mev) :=
  mkM (m_queue st) (m_hprobe st) (m_probing st) (m_hsdone st) (m_active st) (m_hretired st) (m_acid st) (m_atok st)
      (m_since st) (m_ppc st) (m_closed st) (e :: m_log st) (m_advlimit st).

(** the loop over [h.pathProbing] of [add]: entries below Retire Prior To are retired *)
Fixpoint retire_probing_below (rpt : Z) (p : list (Z * ncid)) (log : list mev) : list (Z * ncid) * list mev :=
  match p with
  | [] => ([], log)
  | (id, e) :: r =>
    if n_seq e <? rpt then retire_probing_below rpt r (EvRemTok (n_tok e) :: EvRetire (n_seq e) :: log)
    else let (r', log') := retire_probing_below rpt r log in ((id, e) :: r', log')
  end.

(** the loop over [h.queue] of [add] *)
Fixpoint retire_queue_below (rpt : Z) (q : list ncid) (log : list mev) : list ncid * list mev :=
  match q with
  | [] => ([], log)
  | e :: r =>
    if rpt <=? n_seq e then let (r', log') := retire_queue_below rpt r log in (e :: r', log')
    else retire_queue_below rpt r (EvRetire (n_seq e) :: log)
  end.

(** [addConnectionID]: [None] = conflicting contents *)
Fixpoint add_slow (e : ncid) (q : list ncid) : option (list ncid) :=
  match q with
  | [] => Some []                                   (* "unreachable": queue left as it is *)
  | x :: r =>
    if n_seq x =? n_seq e then
      if cid_eqb (n_cid x) (n_cid e) && (n_tok x =? n_tok e) then Some q else None
    else if n_seq e <? n_seq x then Some (e :: q)
    else match add_slow e r with Some r' => Some (x :: r') | None => None end
  end.

Definition add_conn_id (e : ncid) (q : list ncid) : option (list ncid) :=
  match q with
  | [] => Some [e]
  | _ => if n_seq (last q e) <? n_seq e then Some (q ++ [e]) else add_slow e q
  end.

(** [updateConnectionID]; [draw] is the value of [h.rand.Int31n(PacketsPerConnectionID)]
    (oracle, logged from the implementation). [None] = panic (closed, or empty queue). *)
Definition update_conn_id (draw : Z) (st : mgr) : option mgr :=
  if m_closed st then None else
  match m_queue st with
  | [] => None
  | front :: rest =>
    let log1 := EvRetire (m_active st) :: m_log st in
    let log2 := match m_atok st with Some t => EvRemTok t :: log1 | None => log1 end in
    Some (mkM rest (m_hprobe st) (m_probing st) (m_hsdone st) (n_seq front)
              (Z.max (m_hretired st) (m_active st)) (n_cid front) (Some (n_tok front))
              0 (PacketsPerConnectionID / 2 + draw) (m_closed st)
              (EvAddTok (n_tok front) :: log2) (m_advlimit st))
  end.

(** the two retirement loops of [add] driven by Retire Prior To *)
Definition retire_probing_stage (rpt : Z) (st : mgr) : mgr :=
  if rpt =? 0 then st else
    let (p, l) := retire_probing_below rpt (m_probing st) (m_log st) in
    mkM (m_queue st) (m_hprobe st) p (m_hsdone st) (m_active st) (m_hretired st) (m_acid st)
        (m_atok st) (m_since st) (m_ppc st) (m_closed st) l (m_advlimit st).

Definition retire_queue_stage (rpt : Z) (st : mgr) : mgr :=
  if m_hretired st <? rpt then
    let (q, l) := retire_queue_below rpt (m_queue st) (m_log st) in
    mkM q (m_hprobe st) (m_probing st) (m_hsdone st) (m_active st) rpt (m_acid st)
        (m_atok st) (m_since st) (m_ppc st) (m_closed st) l (m_advlimit st)
  else st.

(** the entry of [pathProbing] that carries sequence number [seq] (the loop at the top of [add]) *)
Fixpoint pfind (seq : Z) (p : list (Z * ncid)) : option ncid :=
  match p with
  | [] => None
  | (_, e) :: r => if n_seq e =? seq then Some e else pfind seq r
  end.

(** [add] (without the limit check of [Add]) *)
Definition mgr_add_inner (seq rpt : Z) (c : cid) (tok : Z) (draw : Z) (st : mgr) : mgr * rclass :=
  match m_acid st with
  | [] => (st, RProto)
  | _ =>
    match pfind seq (m_probing st) with
    | Some e =>       (* retransmission for an ID in use on a probing path: duplicate *)
      if cid_eqb (n_cid e) c && (n_tok e =? tok) then (st, ROk) else (st, ROther)
    | None =>
    if negb (seq =? m_active st) &&
       ((seq <? m_active st) || (seq <=? m_hprobe st) || (seq <? m_hretired st)) then (emit st (EvRetire seq), ROk)
    else
      let st2 := retire_queue_stage rpt (retire_probing_stage rpt st) in
      if seq =? m_active st2 then (st2, ROk) else
      match add_conn_id (mkN seq c tok) (m_queue st2) with
      | None => (st2, ROther)
      | Some q' =>
        let st3 := set_queue st2 q' in
        if m_active st3 <? rpt then
          match update_conn_id draw st3 with
          | Some st4 => (st4, ROk)
          | None => (st3, RPanic)
          end
        else (st3, ROk)
      end
    end
  end.

Definition zlength {A} (l : list A) : Z := Z.of_nat (List.length l).

(** [Add] *)
Definition mgr_add (seq rpt : Z) (c : cid) (tok : Z) (draw : Z) (st : mgr) : mgr * rclass :=
  let (st', r) := mgr_add_inner seq rpt c tok draw st in
  match r with
  | ROk => if Z.max MaxActiveConnectionIDs (m_advlimit st') <=? zlength (m_queue st') then (st', RLimit) else (st', ROk)
  | _ => (st', r)
  end.

(** [AddFromPreferredAddress] *)
Definition mgr_add_pref (c : cid) (tok : Z) (st : mgr) : mgr * rclass :=
  match add_conn_id (mkN 1 c tok) (m_queue st) with
  | None => (st, ROther)
  | Some q' => (set_queue st q', ROk)
  end.

Definition should_update (st : mgr) : bool :=
  m_hsdone st &&
  (((0 <? zlength (m_queue st)) && (m_active st =? 0)) ||
   ((MaxActiveConnectionIDs <=? 2 * zlength (m_queue st)) && (m_ppc st <=? m_since st))).

(** [Get]: result class and returned connection ID *)
Definition mgr_get (draw : Z) (st : mgr) : mgr * rclass * cid :=
  if m_closed st then (st, RPanic, []) else
  if should_update st then
    match update_conn_id draw st with
    | Some st' => (st', ROk, m_acid st')
    | None => (st, RPanic, [])
    end
  else (st, ROk, m_acid st).

Definition mgr_sent (k : Z) (st : mgr) : mgr :=
  mkM (m_queue st) (m_hprobe st) (m_probing st) (m_hsdone st) (m_active st) (m_hretired st) (m_acid st) (m_atok st)
      (m_since st + k) (m_ppc st) (m_closed st) (m_log st) (m_advlimit st).

Definition mgr_hsdone (st : mgr) : mgr :=
  mkM (m_queue st) (m_hprobe st) (m_probing st) true (m_active st) (m_hretired st) (m_acid st) (m_atok st)
      (m_since st) (m_ppc st) (m_closed st) (m_log st) (m_advlimit st).

Definition mgr_close (st : mgr) : mgr :=
  let log1 := match m_atok st with Some t => EvRemTok t :: m_log st | None => m_log st end in
  let log2 := fold_left (fun l (pe : Z * ncid) => EvRemTok (n_tok (snd pe)) :: l) (m_probing st) log1 in
  mkM (m_queue st) (m_hprobe st) (m_probing st) (m_hsdone st) (m_active st) (m_hretired st) (m_acid st) (m_atok st)
      (m_since st) (m_ppc st) true log2 (m_advlimit st).

Definition mgr_change_initial (c : cid) (st : mgr) : mgr * rclass :=
  if m_active st =? 0 then
    (mkM (m_queue st) (m_hprobe st) (m_probing st) (m_hsdone st) (m_active st) (m_hretired st) c (m_atok st)
         (m_since st) (m_ppc st) (m_closed st) (m_log st) (m_advlimit st), ROk)
  else (st, RPanic).

Definition mgr_set_token (t : Z) (st : mgr) : mgr * rclass :=
  if m_closed st then (st, RPanic) else
  if m_active st =? 0 then
    (mkM (m_queue st) (m_hprobe st) (m_probing st) (m_hsdone st) (m_active st) (m_hretired st) (m_acid st) (Some t)
         (m_since st) (m_ppc st) (m_closed st) (EvAddTok t :: m_log st) (m_advlimit st), ROk)
  else (st, RPanic).

Fixpoint plookup (id : Z) (p : list (Z * ncid)) : option ncid :=
  match p with
  | [] => None
  | (i, e) :: r => if i =? id then Some e else plookup id r
  end.
Fixpoint pdelete (id : Z) (p : list (Z * ncid)) : list (Z * ncid) :=
  match p with
  | [] => []
  | (i, e) :: r => if i =? id then pdelete id r else (i, e) :: pdelete id r
  end.

(** [GetConnIDForPath]: class, returned ID, ok *)
Definition mgr_path_get (id : Z) (st : mgr) : mgr * rclass * cid * bool :=
  if m_closed st then (st, RPanic, [], false) else
  match m_acid st with
  | [] => (st, ROk, [], true)
  | _ =>
    match plookup id (m_probing st) with
    | Some e => (st, ROk, n_cid e, true)
    | None =>
      match m_queue st with
      | [] => (st, ROk, [], false)
      | front :: rest =>
        (mkM rest (n_seq front) (m_probing st ++ [(id, front)]) (m_hsdone st) (m_active st) (m_hretired st)
             (m_acid st) (m_atok st) (m_since st) (m_ppc st) (m_closed st) (EvAddTok (n_tok front) :: m_log st) (m_advlimit st),
         ROk, n_cid front, true)
      end
    end
  end.

(** [RetireConnIDForPath] *)
Definition mgr_path_retire (id : Z) (st : mgr) : mgr * rclass :=
  if m_closed st then (st, RPanic) else
  match m_acid st with
  | [] => (st, ROk)
  | _ =>
    match plookup id (m_probing st) with
    | None => (st, ROk)
    | Some e =>
      (mkM (m_queue st) (m_hprobe st) (pdelete id (m_probing st)) (m_hsdone st) (m_active st) (m_hretired st)
           (m_acid st) (m_atok st) (m_since st) (m_ppc st) (m_closed st)
           (EvRemTok (n_tok e) :: EvRetire (n_seq e) :: m_log st) (m_advlimit st), ROk)
    end
  end.

(** [IsActiveStatelessResetToken] *)
Definition mgr_is_token (t : Z) (st : mgr) : bool :=
  match m_atok st with Some a => a =? t | None => false end
  || existsb (fun pe : Z * ncid => n_tok (snd pe) =? t) (m_probing st).

(** u_conn_id_manager.go [SetConnectionIDLimit]: remembers the active_connection_id_limit a
    spec-driven client advertised *)
Definition mgr_set_limit (n : Z) (st : mgr) : mgr :=
  mkM (m_queue st) (m_hprobe st) (m_probing st) (m_hsdone st) (m_active st) (m_hretired st) (m_acid st) (m_atok st)
      (m_since st) (m_ppc st) (m_closed st) (m_log st) n.

(** Operations of a manager history (oracle draws are part of the operation). *)
Inductive mop :=
| MAdd (seq rpt : Z) (c : cid) (tok : Z) (draw : Z)
| MAddPref (c : cid) (tok : Z)
| MGet (draw : Z)
| MSent (k : Z)
| MHsDone
| MClose
| MChangeInit (c : cid)
| MSetTok (tok : Z)
| MPathGet (id : Z)
| MPathRetire (id : Z)
| MIsTok (tok : Z)
| MSetLimit (n : Z).        (* u_conn_id_manager.go SetConnectionIDLimit *)

(** what an operation returns: class, connection ID (Get / GetConnIDForPath), flag
    (GetConnIDForPath's ok, IsActiveStatelessResetToken) *)
Record mret := mkR { r_cls : rclass; r_cid : cid; r_flag : bool }.

Definition mgr_step (o : mop) (st : mgr) : mgr * mret :=
  match o with
  | MAdd seq rpt c tok draw => let (st', r) := mgr_add seq rpt c tok draw st in (st', mkR r [] false)
  | MAddPref c tok => let (st', r) := mgr_add_pref c tok st in (st', mkR r [] false)
  | MGet draw => let '(st', r, c) := mgr_get draw st in (st', mkR r c false)
  | MSent k => (mgr_sent k st, mkR ROk [] false)
  | MHsDone => (mgr_hsdone st, mkR ROk [] false)
  | MClose => (mgr_close st, mkR ROk [] false)
  | MChangeInit c => let (st', r) := mgr_change_initial c st in (st', mkR r [] false)
  | MSetTok t => let (st', r) := mgr_set_token t st in (st', mkR r [] false)
  | MPathGet id => let '(st', r, c, ok) := mgr_path_get id st in (st', mkR r c ok)
  | MPathRetire id => let (st', r) := mgr_path_retire id st in (st', mkR r [] false)
  | MIsTok t => (st, mkR ROk [] (mgr_is_token t st))
  | MSetLimit n => (mgr_set_limit n st, mkR ROk [] false)
  end.

Definition mgr_run (ops : list mop) (st : mgr) : mgr :=
  fold_left (fun s o => fst (mgr_step o s)) ops st.

(* ------------------------------------------------------------------------- *)
(** * connIDGenerator *)

Inductive gev :=
| GAdd (c : cid)                                   (* runner.AddConnectionID *)
| GRem (c : cid)                                   (* runner.RemoveConnectionID *)
| GFrame (seq : Z) (c : cid)                       (* NEW_CONNECTION_ID queued (token: oracle of the HMAC) *)
| GReplace (ids : list cid) (local : bool) (expiry : Z).  (* runner.ReplaceWithClosed *)

Record gen := mkG {
  g_len0 : bool;                      (* generator.ConnectionIDLen() == 0 *)
  g_highest : Z;                      (* highestSeq *)
  g_active : list (Z * cid);          (* activeSrcConnIDs *)
  g_toretire : list (Z * cid);        (* connIDsToRetire: (t, connID), sorted by t *)
  g_initial : option cid;             (* initialClientDestConnID *)
  g_log : list gev
}.

Definition gen_init (initial : cid) (clientDest : option cid) (len0 : bool) : gen :=
  mkG len0 0 [(0, initial)] [] clientDest [].

(** [issueNewConnID]; the oracle is what GenerateConnectionID returned ([None] = error) *)
Definition issue (o : option cid) (g : gen) : gen * rclass :=
  match o with
  | None => (g, ROther)
  | Some c =>
    (mkG (g_len0 g) (g_highest g + 1) (g_active g ++ [(g_highest g + 1, c)]) (g_toretire g) (g_initial g)
         (GFrame (g_highest g + 1) c :: GAdd c :: g_log g), ROk)
  end.

(** the loop of [SetMaxActiveConnIDs]: [k] iterations remaining *)
Fixpoint issue_n (k : nat) (os : list (option cid)) (g : gen) : gen * rclass :=
  match k with
  | O => (g, ROk)
  | S k' =>
    match os with
    | [] => (g, ROracle)
    | o :: os' =>
      let (g', r) := issue o g in
      match r with ROk => issue_n k' os' g' | _ => (g', r) end
    end
  end.

Definition gen_set_max (limit : Z) (os : list (option cid)) (g : gen) : gen * rclass :=
  if g_len0 g then (g, ROk) else
  issue_n (Z.to_nat (Z.min limit MaxIssuedConnectionIDs - zlength (g_active g))) os g.

Fixpoint alookup (k : Z) (l : list (Z * cid)) : option cid :=
  match l with
  | [] => None
  | (i, c) :: r => if i =? k then Some c else alookup k r
  end.
Fixpoint adelete (k : Z) (l : list (Z * cid)) : list (Z * cid) :=
  match l with
  | [] => []
  | (i, c) :: r => if i =? k then adelete k r else (i, c) :: adelete k r
  end.

(** [queueConnIDForRetiring]: insert before the first entry with a later time *)
Fixpoint queue_retire (t : Z) (c : cid) (l : list (Z * cid)) : list (Z * cid) :=
  match l with
  | [] => [(t, c)]
  | (t', c') :: r => if t <? t' then (t, c) :: l else (t', c') :: queue_retire t c r
  end.

Definition set_toretire (g : gen) l := mkG (g_len0 g) (g_highest g) (g_active g) l (g_initial g) (g_log g).

(** [Retire] *)
Definition gen_retire (seq : Z) (sentWith : cid) (expiry : Z) (os : list (option cid)) (g : gen) : gen * rclass :=
  if g_highest g <? seq then (g, RProto) else
  match alookup seq (g_active g) with
  | None => (g, ROk)
  | Some c =>
    if cid_eqb c sentWith then (g, RProto) else
    let g1 := mkG (g_len0 g) (g_highest g) (adelete seq (g_active g)) (queue_retire expiry c (g_toretire g))
                  (g_initial g) (g_log g) in
    if seq =? 0 then (g1, ROk) else
    match os with
    | [] => (g1, ROracle)
    | o :: _ => issue o g1
    end
  end.

(** [SetHandshakeComplete] *)
Definition gen_hsdone (expiry : Z) (g : gen) : gen :=
  match g_initial g with
  | None => g
  | Some c => mkG (g_len0 g) (g_highest g) (g_active g) (queue_retire expiry c (g_toretire g)) None (g_log g)
  end.

(** [RemoveRetiredConnIDs]: drops the prefix whose time is not after [now] *)
Fixpoint remove_retired (now : Z) (l : list (Z * cid)) (log : list gev) : list (Z * cid) * list gev :=
  match l with
  | [] => ([], log)
  | (t, c) :: r => if now <? t then (l, log) else remove_retired now r (GRem c :: log)
  end.

Definition gen_remove_retired (now : Z) (g : gen) : gen :=
  let (l, log) := remove_retired now (g_toretire g) (g_log g) in
  mkG (g_len0 g) (g_highest g) (g_active g) l (g_initial g) log.

(** [NextRetireTime]: when the next retired ID is due for removal (0 = nothing waiting); the run
    loop's timer includes it among its deadlines *)
Definition gen_next_retire (g : gen) : Z :=
  match g_toretire g with
  | [] => 0
  | (t, _) :: _ => t
  end.

(** all IDs the generator knows: initial client destination ID, active ones, ones waiting to expire *)
Definition gen_all_ids (g : gen) : list cid :=
  (match g_initial g with Some c => [c] | None => [] end) ++ map snd (g_active g) ++ map snd (g_toretire g).

(** [RemoveAll] (state unchanged, as in the code) *)
Definition gen_remove_all (g : gen) : gen :=
  mkG (g_len0 g) (g_highest g) (g_active g) (g_toretire g) (g_initial g)
      (rev (map GRem (gen_all_ids g)) ++ g_log g).

(** [ReplaceWithClosed] *)
Definition gen_replace (local : bool) (expiry : Z) (g : gen) : gen :=
  mkG (g_len0 g) (g_highest g) (g_active g) (g_toretire g) (g_initial g)
      (GReplace (gen_all_ids g) local expiry :: g_log g).

Inductive gop :=
| GSetMax (limit : Z) (os : list (option cid))
| GRetire (seq : Z) (sentWith : cid) (expiry : Z) (os : list (option cid))
| GHsDone (expiry : Z)
| GRemoveRetired (now : Z)
| GRemoveAll
| GReplaceClosed (local : bool) (expiry : Z)
| GAddRunner.     (* AddConnRunner: a second transport is told the current IDs; nothing changes for the
                     generator's state or for the first runner, whose callbacks the log records *)

Definition gen_step (o : gop) (g : gen) : gen * rclass :=
  match o with
  | GSetMax limit os => gen_set_max limit os g
  | GRetire seq sw ex os => gen_retire seq sw ex os g
  | GHsDone ex => (gen_hsdone ex g, ROk)
  | GRemoveRetired now => (gen_remove_retired now g, ROk)
  | GRemoveAll => (gen_remove_all g, ROk)
  | GReplaceClosed l ex => (gen_replace l ex g, ROk)
  | GAddRunner => (g, ROk)
  end.

Definition gen_run (ops : list gop) (g : gen) : gen :=
  fold_left (fun s o => fst (gen_step o s)) ops g.
