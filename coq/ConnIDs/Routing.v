(** Routing — executable model of /repo's [packetHandlerMap] (transport.go: Add, Get,
    AddWithConnID, Remove, ReplaceWithClosed with its removal timer, reset tokens) and of
    the closed-connection stand-ins of closed_conn.go. Definitions only.
    Time is the field [rt_now]; a timer is (absolute firing time, IDs, the stand-in it
    installed): when it fires it deletes those of its IDs that still map to that stand-in. *)
From Coq Require Import List ZArith Bool.
From V Require Import Lib.Hex ConnIDs.Model.
Import ListNotations.
Open Scope Z_scope.

Inductive hkind :=
| HConn (n : Z)          (* a live connection *)
| HLocal (j : Z)         (* closedLocalConn number j (creation order) *)
| HRemote.               (* closedRemoteConn *)

(** state of one closedLocalConn: packet counter, size of the CONNECTION_CLOSE packet,
    bytes received for the closed connection, bytes of retransmissions sent *)
Record lstate := mkL { l_cnt : Z; l_psize : Z; l_recv : Z; l_sent : Z }.

Record rt := mkRT {
  rt_handlers : list (cid * hkind);     (* handlers map, keys unique *)
  rt_tokens : list (Z * Z);             (* resetTokens: token -> connection *)
  rt_timers : list (Z * list cid * hkind); (* pending time.AfterFunc of ReplaceWithClosed *)
  rt_now : Z;
  rt_nlocal : Z;                        (* closedLocalConn created so far *)
  rt_locals : list (Z * lstate)         (* closedLocalConn j -> its state *)
}.

Definition rt_init : rt := mkRT [] [] [] 0 0 [].

Fixpoint hget (c : cid) (l : list (cid * hkind)) : option hkind :=
  match l with
  | [] => None
  | (k, h) :: r => if cid_eqb k c then Some h else hget c r
  end.
Fixpoint hdel (c : cid) (l : list (cid * hkind)) : list (cid * hkind) :=
  match l with
  | [] => []
  | (k, h) :: r => if cid_eqb k c then hdel c r else (k, h) :: hdel c r
  end.
Definition hset (c : cid) (h : hkind) (l : list (cid * hkind)) := (c, h) :: hdel c l.

Definition hkind_eqb (a b : hkind) : bool :=
  match a, b with
  | HConn x, HConn y => x =? y
  | HLocal x, HLocal y => x =? y          (* one closedLocalConn per ReplaceWithClosed call *)
  | HRemote, HRemote => true               (* &closedRemoteConn{} is a zero-size allocation: all equal *)
  | _, _ => false
  end.

(** [if h.handlers[id] == handler { delete(h.handlers, id) }] for every id of the timer *)
Definition del_if (k : hkind) (ids : list cid) (hs : list (cid * hkind)) :=
  fold_left (fun h c => match hget c h with
                        | Some k' => if hkind_eqb k' k then hdel c h else h
                        | None => h
                        end) ids hs.
Definition set_all (ids : list cid) (k : hkind) (hs : list (cid * hkind)) := fold_left (fun h c => hset c k h) ids hs.

(** timers whose time has come retire the entries they installed (and only those) *)
Fixpoint fire (now : Z) (timers : list (Z * list cid * hkind)) (hs : list (cid * hkind))
  : list (Z * list cid * hkind) * list (cid * hkind) :=
  match timers with
  | [] => ([], hs)
  | (t, ids, k) :: r =>
    if t <=? now then fire now r (del_if k ids hs)
    else let (r', hs') := fire now r hs in ((t, ids, k) :: r', hs')
  end.

Fixpoint zget {A} (k : Z) (l : list (Z * A)) : option A :=
  match l with [] => None | (i, v) :: r => if i =? k then Some v else zget k r end.
Fixpoint zdel {A} (k : Z) (l : list (Z * A)) : list (Z * A) :=
  match l with [] => [] | (i, v) :: r => if i =? k then zdel k r else (i, v) :: zdel k r end.

(** closed_conn.go closedConnAmplificationFactor *)
Definition closedConnAmplificationFactor : Z := 3.

(** bits.OnesCount32 *)
Fixpoint popcount_pos (p : positive) : Z :=
  match p with xH => 1 | xO q => popcount_pos q | xI q => 1 + popcount_pos q end.
Definition popcount (n : Z) : Z := match n with Zpos p => popcount_pos p | _ => 0 end.

Inductive rop :=
| RAdd (c : cid) (n : Z)
| RAddWith (clientDest newID : cid) (n : Z)
| RRemove (c : cid)
| RReplace (ids : list cid) (local : bool) (expiry : Z) (psize : Z)   (* psize = len(connClosePacket) *)
| RAdvance (d : Z)
| RAddTok (t n : Z)
| RRemTok (t : Z)
| RDeliver (c : cid) (size : Z).      (* a packet of [size] bytes for connection ID c *)

(** result: flag (Add / AddWithConnID), and for Deliver: kind code (0 none, 1 live,
    2 local stand-in, 3 remote stand-in), reference, CONNECTION_CLOSE copies sent *)
Record rres := mkRR { rr_flag : bool; rr_kind : Z; rr_ref : Z; rr_sent : Z }.
Definition rr_none := mkRR false 0 0 0.

Definition with_handlers (s : rt) hs := mkRT hs (rt_tokens s) (rt_timers s) (rt_now s) (rt_nlocal s) (rt_locals s).

Definition rt_step_raw (o : rop) (s : rt) : rt * rres :=
  match o with
  | RAdd c n =>
    match hget c (rt_handlers s) with
    | Some _ => (s, rr_none)
    | None => (with_handlers s (hset c (HConn n) (rt_handlers s)), mkRR true 0 0 0)
    end
  | RAddWith cd nw n =>
    match hget cd (rt_handlers s) with
    | Some _ => (s, rr_none)
    | None => (with_handlers s (hset nw (HConn n) (hset cd (HConn n) (rt_handlers s))), mkRR true 0 0 0)
    end
  | RRemove c => (with_handlers s (hdel c (rt_handlers s)), rr_none)
  | RReplace ids local ex psize =>
    let k := if local then HLocal (rt_nlocal s) else HRemote in
    (mkRT (set_all ids k (rt_handlers s)) (rt_tokens s) (rt_timers s ++ [(rt_now s + ex, ids, k)]) (rt_now s)
          (if local then rt_nlocal s + 1 else rt_nlocal s)
          (if local then (rt_nlocal s, mkL 0 psize 0 0) :: rt_locals s else rt_locals s), rr_none)
  | RAdvance d =>
    (mkRT (rt_handlers s) (rt_tokens s) (rt_timers s) (rt_now s + d) (rt_nlocal s) (rt_locals s), rr_none)
  | RAddTok t n => (mkRT (rt_handlers s) ((t, n) :: zdel t (rt_tokens s)) (rt_timers s) (rt_now s) (rt_nlocal s) (rt_locals s), rr_none)
  | RRemTok t => (mkRT (rt_handlers s) (zdel t (rt_tokens s)) (rt_timers s) (rt_now s) (rt_nlocal s) (rt_locals s), rr_none)
  | RDeliver c size =>
    match hget c (rt_handlers s) with
    | None => (s, rr_none)
    | Some (HConn n) => (s, mkRR false 1 n 0)
    | Some HRemote => (s, mkRR false 3 0 0)
    | Some (HLocal j) =>
      let l := match zget j (rt_locals s) with Some v => v | None => mkL 0 0 0 0 end in
      let n := (l_cnt l + 1) mod 4294967296 in
      let recv := l_recv l + size in
      (* exponential back-off, then the 3x budget of RFC 9000 10.2.1 *)
      let send := (popcount n =? 1) && negb (closedConnAmplificationFactor * recv <? l_sent l + l_psize l) in
      let l' := mkL n (l_psize l) recv (if send then l_sent l + l_psize l else l_sent l) in
      (mkRT (rt_handlers s) (rt_tokens s) (rt_timers s) (rt_now s) (rt_nlocal s) ((j, l') :: zdel j (rt_locals s)),
       mkRR false 2 j (if send then 1 else 0))
    end
  end.

(** every operation is followed by the timers that are due (AfterFunc with expiry <= 0
    fires at once; the harness lets the runtime settle after every call) *)
Definition rt_step (o : rop) (s : rt) : rt * rres :=
  let (s1, r) := rt_step_raw o s in
  let (tm, hs) := fire (rt_now s1) (rt_timers s1) (rt_handlers s1) in
  (mkRT hs (rt_tokens s1) tm (rt_now s1) (rt_nlocal s1) (rt_locals s1), r).

Definition rt_run (ops : list rop) (s : rt) : rt := fold_left (fun x o => fst (rt_step o x)) ops s.
