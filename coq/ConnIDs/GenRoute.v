(** GenRoute — the connIDGenerator driving a packetHandlerMap: composition of the two models
    exactly as connection.go wires them (callbacks AddConnectionID -> runner.Add(id, conn),
    RemoveConnectionID -> runner.Remove, ReplaceWithClosed -> runner.ReplaceWithClosed; the
    transport registers the first IDs itself: server AddWithConnID(client's destination ID,
    source ID), client Add(source ID)). Definitions only. *)
From Coq Require Import List ZArith Bool.
From V Require Import Lib.Hex ConnIDs.Model ConnIDs.Routing.
Import ListNotations.
Open Scope Z_scope.

(** the callbacks an operation made, in call order *)
Definition emitted (old new : list gev) : list gev :=
  rev (firstn (List.length new - List.length old) new).

(** length of the CONNECTION_CLOSE packet the harness hands to ReplaceWithClosed *)
Definition gr_close_len : Z := 4.

Definition ev_rop (e : gev) : option rop :=
  match e with
  | GAdd c => Some (RAdd c 1)
  | GRem c => Some (RRemove c)
  | GReplace ids loc ex => Some (RReplace ids loc ex gr_close_len)
  | GFrame _ _ => None
  end.

Definition apply_ev (t : rt) (e : gev) : rt :=
  match ev_rop e with Some o => fst (rt_step o t) | None => t end.

Definition apply_evs (evs : list gev) (t : rt) : rt := fold_left apply_ev evs t.

Definition gr_init (i : cid) (cd : option cid) (l0 : bool) : gen * rt :=
  (gen_init i cd l0,
   fst (rt_step (match cd with Some d => RAddWith d i 1 | None => RAdd i 1 end) rt_init)).

Inductive grop :=
| GROp (o : gop)          (* a call into the generator; its callbacks reach the table *)
| GRAdvance (d : Z).      (* time passes (the table's removal timers may fire) *)

Definition gr_step (o : grop) (s : gen * rt) : (gen * rt) * rclass :=
  match o with
  | GROp o =>
    let (g', r) := gen_step o (fst s) in
    ((g', apply_evs (emitted (g_log (fst s)) (g_log g')) (snd s)), r)
  | GRAdvance d => ((fst s, fst (rt_step (RAdvance d) (snd s))), ROk)
  end.

Definition gr_run (ops : list grop) (s : gen * rt) : gen * rt :=
  fold_left (fun x o => fst (gr_step o x)) ops s.
