(** Proofs about the [connIDManager] model, part 1: counting, bookkeeping of
    RETIRE_CONNECTION_ID frames and reset tokens that holds for EVERY history. *)
From Coq Require Import List ZArith Bool Lia.
From V Require Import Gen.Params Lib.Hex ConnIDs.Model ConnIDs.ProofsGen.
Import ListNotations.
Open Scope Z_scope.

(* ------------------------------------------------------------------------- *)
(** * Counting *)

Fixpoint cntz (s : Z) (l : list Z) : Z :=
  match l with [] => 0 | x :: r => b2z (x =? s) + cntz s r end.

Lemma b2z_range b : 0 <= b2z b <= 1.
Proof. destruct b; simpl; lia. Qed.

Lemma cntz_app s a b : cntz s (a ++ b) = cntz s a + cntz s b.
Proof. induction a as [|x a IH]; simpl; [reflexivity | rewrite IH; lia]. Qed.

Lemma cntz_nonneg s l : 0 <= cntz s l.
Proof. induction l as [|x l IH]; simpl; [lia | pose proof (b2z_range (x =? s)); lia]. Qed.

Lemma cntz_in s l : In s l <-> 1 <= cntz s l.
Proof.
  induction l as [|x l IH]; simpl; [split; [intros []|lia]|].
  pose proof (cntz_nonneg s l). destruct (Z.eqb_spec x s) as [->|Hne]; cbn [b2z].
  - split; [lia|auto].
  - split; [intros [?|H1]; [congruence|apply IH in H1; lia] | intros H1; right; apply IH; lia].
Qed.

Lemma cntz_notin s l : ~ In s l -> cntz s l = 0.
Proof. intros H. pose proof (cntz_nonneg s l). destruct (Z_le_gt_dec 1 (cntz s l)); [exfalso; apply H, cntz_in; lia | lia]. Qed.

Lemma cntz_le1_nodup l : (forall s, cntz s l <= 1) -> NoDup l.
Proof.
  induction l as [|x l IH]; intros H; constructor.
  - intros Hin. apply cntz_in in Hin. specialize (H x). simpl in H. rewrite Z.eqb_refl in H. cbn [b2z] in H. lia.
  - apply IH. intros s. specialize (H s). simpl in H. pose proof (b2z_range (x =? s)). lia.
Qed.

(** RETIRE_CONNECTION_ID frames queued for sequence number [s] *)
Fixpoint retc (s : Z) (log : list mev) : Z :=
  match log with
  | [] => 0
  | EvRetire x :: r => b2z (x =? s) + retc s r
  | _ :: r => retc s r
  end.

(** registrations minus removals of reset token [t] *)
Fixpoint tokc (t : Z) (log : list mev) : Z :=
  match log with
  | [] => 0
  | EvAddTok x :: r => b2z (x =? t) + tokc t r
  | EvRemTok x :: r => tokc t r - b2z (x =? t)
  | _ :: r => tokc t r
  end.

Lemma retc_nonneg s log : 0 <= retc s log.
Proof. induction log as [|e l IH]; simpl; [lia|]. destruct e; try assumption. pose proof (b2z_range (s0 =? s)). lia. Qed.

Definition qseqs (q : list ncid) : list Z := map n_seq q.
Definition pseqs (p : list (Z * ncid)) : list Z := map (fun pe : Z * ncid => n_seq (snd pe)) p.
Definition ptoks (p : list (Z * ncid)) : list Z := map (fun pe : Z * ncid => n_tok (snd pe)) p.

(** sequence numbers the manager holds: active, queued, in use for path probing *)
Definition held (st : mgr) : list Z := m_active st :: qseqs (m_queue st) ++ pseqs (m_probing st).

(** potential: RETIRE frames queued for [s] + copies of [s] held *)
Definition phi (st : mgr) (s : Z) : Z := retc s (m_log st) + cntz s (held st).

(** reset tokens of the IDs in use: the active one (if known) and the probing ones *)
Definition inuse (st : mgr) (t : Z) : Z :=
  match m_atok st with Some a => b2z (a =? t) | None => 0 end + cntz t (ptoks (m_probing st)).

(** registered-minus-in-use; the token theorem says this is 0 *)
Definition tau (st : mgr) (t : Z) : Z := tokc t (m_log st) - inuse st t.

Definition frame_of (o : mop) (s : Z) : Z :=
  match o with
  | MAdd q _ _ _ _ => b2z (q =? s)
  | MAddPref _ _ => b2z (1 =? s)
  | _ => 0
  end.

(* ------------------------------------------------------------------------- *)
(** * The primitives *)

Lemma rpb_spec rpt : forall p log p' log',
  retire_probing_below rpt p log = (p', log') ->
  p' = filter (fun pe : Z * ncid => negb (n_seq (snd pe) <? rpt)) p /\
  (forall s, retc s log' + cntz s (pseqs p') = retc s log + cntz s (pseqs p)) /\
  (forall t, tokc t log' - cntz t (ptoks p') = tokc t log - cntz t (ptoks p)).
Proof.
  induction p as [|[id e] p IH]; simpl; intros log p' log' H.
  - inversion H; subst. auto.
  - destruct (n_seq e <? rpt) eqn:E; simpl.
    + apply IH in H as (-> & Hr & Ht). split; [reflexivity|]. split.
      * intros s. rewrite Hr. simpl. lia.
      * intros t. rewrite Ht. simpl. lia.
    + destruct (retire_probing_below rpt p log) as [r' l'] eqn:E2. inversion H; subst.
      destruct (IH _ _ _ E2) as (-> & Hr & Ht). split; [reflexivity|]. split.
      * intros s. simpl. specialize (Hr s). lia.
      * intros t. simpl. specialize (Ht t). lia.
Qed.

Lemma rqb_spec rpt : forall q log q' log',
  retire_queue_below rpt q log = (q', log') ->
  q' = filter (fun e => rpt <=? n_seq e) q /\
  (forall s, retc s log' + cntz s (qseqs q') = retc s log + cntz s (qseqs q)) /\
  (forall t, tokc t log' = tokc t log).
Proof.
  induction q as [|e q IH]; simpl; intros log q' log' H.
  - inversion H; subst. auto.
  - destruct (rpt <=? n_seq e) eqn:E; simpl.
    + destruct (retire_queue_below rpt q log) as [r' l'] eqn:E2. inversion H; subst.
      destruct (IH _ _ _ E2) as (-> & Hr & Ht). split; [reflexivity|]. split.
      * intros s. simpl. specialize (Hr s). lia.
      * assumption.
    + apply IH in H as (-> & Hr & Ht). split; [reflexivity|]. split.
      * intros s. rewrite Hr. simpl. lia.
      * intros t. rewrite Ht. reflexivity.
Qed.

Lemma last_in {A} (l : list A) d : l <> [] -> In (last l d) l.
Proof.
  induction l as [|x l IH]; [congruence|]. intros _. destruct l as [|y l]; [left; reflexivity|].
  right. apply IH. discriminate.
Qed.

Lemma add_slow_cnt e : forall q q',
  (exists x, In x q /\ n_seq e <= n_seq x) ->
  add_slow e q = Some q' ->
  (forall s, cntz s (qseqs q) <= cntz s (qseqs q') <= cntz s (qseqs q) + b2z (n_seq e =? s)) /\
  1 <= cntz (n_seq e) (qseqs q').
Proof.
  induction q as [|x q IH]; intros q' (w & Hw & Hle) H.
  - destruct Hw.
  - cbn [add_slow] in H. destruct (Z.eqb_spec (n_seq x) (n_seq e)) as [Heq|Hne].
    + destruct (cid_eqb (n_cid x) (n_cid e) && (n_tok x =? n_tok e)); [|discriminate].
      inversion H; subst. split.
      * intros s. pose proof (b2z_range (n_seq e =? s)). lia.
      * simpl. rewrite Heq, Z.eqb_refl. pose proof (cntz_nonneg (n_seq e) (qseqs q)). cbn [b2z]. lia.
    + destruct (Z.ltb_spec (n_seq e) (n_seq x)) as [Hlt|Hge].
      * inversion H; subst. split.
        -- intros s. simpl. pose proof (b2z_range (n_seq e =? s)). lia.
        -- simpl. rewrite Z.eqb_refl. pose proof (cntz_nonneg (n_seq e) (qseqs q)).
           pose proof (b2z_range (n_seq x =? n_seq e)). cbn [b2z]. lia.
      * destruct (add_slow e q) as [r'|] eqn:E; [|discriminate]. inversion H; subst.
        assert (Hex : exists y, In y q /\ n_seq e <= n_seq y).
        { destruct Hw as [<-|Hw]; [lia|]. exists w. auto. }
        destruct (IH _ Hex eq_refl) as [Hc H1]. split.
        -- intros s. simpl. specialize (Hc s). lia.
        -- simpl. pose proof (b2z_range (n_seq x =? n_seq e)). lia.
Qed.

Lemma add_conn_id_cnt e q q' :
  add_conn_id e q = Some q' ->
  (forall s, cntz s (qseqs q) <= cntz s (qseqs q') <= cntz s (qseqs q) + b2z (n_seq e =? s)) /\
  1 <= cntz (n_seq e) (qseqs q').
Proof.
  unfold add_conn_id. destruct q as [|x q].
  - intros H; inversion H; subst. split; [intros s; pose proof (b2z_range (n_seq e =? s)); simpl; lia|].
    simpl. rewrite Z.eqb_refl. cbn [b2z]. lia.
  - destruct (Z.ltb_spec (n_seq (last (x :: q) e)) (n_seq e)) as [Hlt|Hge].
    + intros H; injection H as <-. unfold qseqs. change (x :: q ++ [e]) with ((x :: q) ++ [e]). rewrite map_app. split.
      * intros s. rewrite cntz_app. pose proof (b2z_range (n_seq e =? s)). simpl. lia.
      * rewrite cntz_app. pose proof (cntz_nonneg (n_seq e) (map n_seq (x :: q))).
        change (cntz (n_seq e) (map n_seq [e])) with (b2z (n_seq e =? n_seq e) + 0). rewrite Z.eqb_refl. cbn [b2z]. lia.
    + apply add_slow_cnt. exists (last (x :: q) e). split; [apply last_in; discriminate|lia].
Qed.

Lemma update_spec d st st' :
  update_conn_id d st = Some st' ->
  exists front rest,
    m_queue st = front :: rest /\ m_closed st = false /\
    m_queue st' = rest /\ m_active st' = n_seq front /\ m_hretired st' = Z.max (m_hretired st) (m_active st) /\
    m_hprobe st' = m_hprobe st /\ m_probing st' = m_probing st /\ m_acid st' = n_cid front /\
    m_atok st' = Some (n_tok front) /\ m_closed st' = false /\ m_hsdone st' = m_hsdone st /\
    (forall s, retc s (m_log st') = retc s (m_log st) + b2z (m_active st =? s)) /\
    (forall t, tokc t (m_log st') = tokc t (m_log st) + b2z (n_tok front =? t)
                                   - match m_atok st with Some a => b2z (a =? t) | None => 0 end).
Proof.
  unfold update_conn_id. destruct (m_closed st) eqn:Ec; [discriminate|].
  destruct (m_queue st) as [|front rest]; [discriminate|].
  intros H; inversion H; subst; clear H. exists front, rest. simpl.
  repeat (split; [reflexivity|]). split.
  - intros s. destruct (m_atok st); simpl; lia.
  - intros t. destruct (m_atok st); simpl; lia.
Qed.

Lemma update_phi d st st' : update_conn_id d st = Some st' -> forall s, phi st' s = phi st s.
Proof.
  intros H s. destruct (update_spec _ _ _ H) as (f & r & Hq & _ & Hq' & Ha & _ & _ & Hp & _ & _ & _ & _ & Hr & _).
  unfold phi, held. rewrite Hr, Hq, Hq', Ha, Hp. simpl. lia.
Qed.

Lemma update_tau d st st' : update_conn_id d st = Some st' -> forall t, tau st' t = tau st t.
Proof.
  intros H t. destruct (update_spec _ _ _ H) as (f & r & _ & _ & _ & _ & _ & _ & Hp & _ & Hat & _ & _ & _ & Ht).
  unfold tau, inuse. rewrite Ht, Hat, Hp. destruct (m_atok st); lia.
Qed.

(* ------------------------------------------------------------------------- *)
(** * Path IDs are unique keys of pathProbing (holds for every history) *)

Definition pids_ok (st : mgr) : Prop := NoDup (map fst (m_probing st)).

Lemma filter_map_nodup {A B} (f : A -> B) (g : A -> bool) l : NoDup (map f l) -> NoDup (map f (filter g l)).
Proof.
  induction l as [|x l IH]; simpl; [auto|]. intros H. inversion H as [|? ? Hni Hnd]; subst.
  destruct (g x); simpl; [|auto]. constructor; [|auto].
  intros Hin. apply Hni. apply in_map_iff in Hin as (y & Hy & Hin). apply filter_In in Hin as [Hin _].
  apply in_map_iff. exists y. auto.
Qed.

Lemma plookup_none id p : plookup id p = None -> ~ In id (map fst p).
Proof.
  induction p as [|[i e] p IH]; simpl; [auto|]. destruct (Z.eqb_spec i id); [discriminate|].
  intros H [?|Hin]; [congruence|]. exact (IH H Hin).
Qed.

Lemma pdelete_in id p x : In x (map fst (pdelete id p)) -> In x (map fst p).
Proof.
  induction p as [|[i e] p IH]; simpl; [auto|]. destruct (i =? id); simpl; [auto|]. intros [?|?]; auto.
Qed.

Lemma pdelete_nodup id p : NoDup (map fst p) -> NoDup (map fst (pdelete id p)).
Proof.
  induction p as [|[i e] p IH]; simpl; [auto|]. intros H. inversion H as [|? ? Hni Hnd]; subst.
  destruct (i =? id); simpl; [auto|]. constructor; [|auto]. intros Hin. apply Hni, pdelete_in with id. assumption.
Qed.

Lemma pdelete_notin id p : ~ In id (map fst p) -> pdelete id p = p.
Proof.
  induction p as [|[i e] p IH]; simpl; [reflexivity|]. intros H.
  destruct (Z.eqb_spec i id) as [->|Hne]; [exfalso; auto|]. f_equal. apply IH. auto.
Qed.

Lemma pdelete_cnt id p e : NoDup (map fst p) -> plookup id p = Some e ->
  (forall s, cntz s (pseqs (pdelete id p)) + b2z (n_seq e =? s) = cntz s (pseqs p)) /\
  (forall t, cntz t (ptoks (pdelete id p)) + b2z (n_tok e =? t) = cntz t (ptoks p)).
Proof.
  induction p as [|[i x] p IH]; simpl; [discriminate|].
  intros Hnd. inversion Hnd as [|? ? Hni Hnd']; subst.
  destruct (Z.eqb_spec i id) as [->|Hne].
  - intros H; inversion H; subst. rewrite pdelete_notin by assumption. split; intros; lia.
  - intros H. destruct (IH Hnd' H) as [Hs Ht]. simpl. split; [intros s; specialize (Hs s)|intros t; specialize (Ht t)]; lia.
Qed.

Lemma pfind_some seq p e : pfind seq p = Some e -> n_seq e = seq /\ In seq (pseqs p) /\ exists id, In (id, e) p.
Proof.
  induction p as [|[i x] p IH]; simpl; [discriminate|]. destruct (Z.eqb_spec (n_seq x) seq) as [Heq|Hne].
  - intros H; inversion H; subst. split; [reflexivity|]. split; [left; reflexivity|]. exists i. left; reflexivity.
  - intros H. destruct (IH H) as (H1 & H2 & id & H3). split; [assumption|]. split; [right; assumption|]. exists id. right; assumption.
Qed.

Lemma pfind_none seq p : pfind seq p = None -> ~ In seq (pseqs p).
Proof.
  induction p as [|[i x] p IH]; simpl; [auto|]. destruct (Z.eqb_spec (n_seq x) seq) as [Heq|Hne]; [discriminate|].
  intros H [Hx|Hin]; [contradiction|]. exact (IH H Hin).
Qed.

Lemma mgr_step_pids o st : pids_ok st -> pids_ok (fst (mgr_step o st)).
Proof.
  unfold pids_ok. intros Hp. destruct o; simpl; try assumption.
  - (* MAdd *)
    unfold mgr_add. destruct (mgr_add_inner seq rpt c tok draw st) as [st' r] eqn:E.
    assert (NoDup (map fst (m_probing st'))).
    { unfold mgr_add_inner in E. destruct (m_acid st); [inversion E; subst; assumption|].
      destruct (pfind seq (m_probing st)); [destruct (_ && _); inversion E; subst; assumption|].
      destruct (negb _ && _); [inversion E; subst; assumption|].
      set (st1 := retire_probing_stage rpt st) in E.
      assert (H1 : NoDup (map fst (m_probing st1))).
      { unfold st1, retire_probing_stage. destruct (rpt =? 0); [assumption|].
        destruct (retire_probing_below rpt (m_probing st) (m_log st)) as [p l] eqn:E1. simpl.
        apply rpb_spec in E1 as (-> & _). apply filter_map_nodup, Hp. }
      set (st2 := retire_queue_stage rpt st1) in E.
      assert (H2 : m_probing st2 = m_probing st1).
      { unfold st2, retire_queue_stage. destruct (m_hretired st1 <? rpt); [|reflexivity].
        destruct (retire_queue_below rpt (m_queue st1) (m_log st1)). reflexivity. }
      destruct (seq =? m_active st2); [inversion E; subst; rewrite H2; assumption|].
      destruct (add_conn_id _ _) as [q'|]; [|inversion E; subst; rewrite H2; assumption].
      destruct (m_active (set_queue st2 q') <? rpt).
      - destruct (update_conn_id draw (set_queue st2 q')) as [st4|] eqn:E4.
        + inversion E; subst. destruct (update_spec _ _ _ E4) as (f & r0 & _ & _ & _ & _ & _ & _ & Hp4 & _).
          rewrite Hp4. simpl. rewrite H2. assumption.
        + inversion E; subst. simpl. rewrite H2. assumption.
      - inversion E; subst. simpl. rewrite H2. assumption. }
    destruct r; simpl; try assumption. destruct (_ <=? _); assumption.
  - unfold mgr_add_pref. destruct (add_conn_id _ _); assumption.
  - unfold mgr_get. destruct (m_closed st); [assumption|]. destruct (should_update st); [|assumption].
    destruct (update_conn_id draw st) as [st'|] eqn:E; [|assumption]. simpl.
    destruct (update_spec _ _ _ E) as (f & r0 & _ & _ & _ & _ & _ & _ & Hp4 & _). rewrite Hp4. assumption.
  - unfold mgr_change_initial. destruct (_ =? _); assumption.
  - unfold mgr_set_token. destruct (m_closed st); [assumption|]. destruct (_ =? _); assumption.
  - unfold mgr_path_get. destruct (m_closed st); [assumption|]. destruct (m_acid st); [assumption|].
    destruct (plookup id (m_probing st)) eqn:El; [assumption|].
    destruct (m_queue st); [assumption|]. simpl. rewrite map_app. simpl.
    apply NoDup_snoc; [assumption|]. apply plookup_none, El.
  - unfold mgr_path_retire. destruct (m_closed st); [assumption|]. destruct (m_acid st); [assumption|].
    destruct (plookup id (m_probing st)); [|assumption]. simpl. apply pdelete_nodup, Hp.
Qed.

(* ------------------------------------------------------------------------- *)
(** * The stages of [add] *)

Lemma rps_spec rpt st :
  let st1 := retire_probing_stage rpt st in
  m_queue st1 = m_queue st /\ m_active st1 = m_active st /\ m_hprobe st1 = m_hprobe st /\
  m_hretired st1 = m_hretired st /\ m_acid st1 = m_acid st /\ m_atok st1 = m_atok st /\
  m_closed st1 = m_closed st /\
  (forall x, In x (m_probing st1) -> In x (m_probing st)) /\
  (forall s, retc s (m_log st1) + cntz s (pseqs (m_probing st1)) = retc s (m_log st) + cntz s (pseqs (m_probing st))) /\
  (forall s, phi st1 s = phi st s) /\ (forall t, tau st1 t = tau st t).
Proof.
  unfold retire_probing_stage. destruct (rpt =? 0); [repeat split; auto|].
  destruct (retire_probing_below rpt (m_probing st) (m_log st)) as [p l] eqn:E. cbn zeta.
  destruct (rpb_spec _ _ _ _ _ E) as (Hp & Hr & Ht). simpl. repeat split; auto.
  - intros x. rewrite Hp. intros Hin. apply filter_In in Hin. tauto.
  - intros s. unfold phi, held. simpl. rewrite !cntz_app. specialize (Hr s). lia.
  - intros t. unfold tau, inuse. simpl. specialize (Ht t). lia.
Qed.

Lemma rqs_spec rpt st :
  let st2 := retire_queue_stage rpt st in
  m_queue st2 = (if m_hretired st <? rpt then filter (fun e => rpt <=? n_seq e) (m_queue st) else m_queue st) /\
  m_hretired st2 = (if m_hretired st <? rpt then rpt else m_hretired st) /\
  m_active st2 = m_active st /\ m_hprobe st2 = m_hprobe st /\ m_probing st2 = m_probing st /\
  m_acid st2 = m_acid st /\ m_atok st2 = m_atok st /\ m_closed st2 = m_closed st /\
  (forall s, retc s (m_log st2) + cntz s (qseqs (m_queue st2)) = retc s (m_log st) + cntz s (qseqs (m_queue st))) /\
  (forall s, phi st2 s = phi st s) /\ (forall t, tau st2 t = tau st t).
Proof.
  unfold retire_queue_stage. destruct (m_hretired st <? rpt); [|repeat split; auto].
  destruct (retire_queue_below rpt (m_queue st) (m_log st)) as [q l] eqn:E. cbn zeta.
  destruct (rqb_spec _ _ _ _ _ E) as (Hq & Hr & Ht). simpl. repeat split; auto.
  - intros s. unfold phi, held. simpl. rewrite !cntz_app. specialize (Hr s). lia.
  - intros t. unfold tau, inuse. simpl. rewrite Ht. reflexivity.
Qed.

Lemma set_queue_phi st q' e :
  (forall s, cntz s (qseqs (m_queue st)) <= cntz s (qseqs q') <= cntz s (qseqs (m_queue st)) + b2z (n_seq e =? s)) ->
  forall s, phi st s <= phi (set_queue st q') s <= phi st s + b2z (n_seq e =? s).
Proof.
  intros H s. unfold phi, held. simpl. rewrite !cntz_app. specialize (H s). lia.
Qed.

Lemma held_active st : 1 <= cntz (m_active st) (held st).
Proof.
  unfold held. simpl. rewrite Z.eqb_refl. cbn [b2z].
  pose proof (cntz_nonneg (m_active st) (qseqs (m_queue st) ++ pseqs (m_probing st))). lia.
Qed.

Definition accepted (r : rclass) : Prop := r = ROk \/ r = RLimit.

(** bookkeeping of [add]: nothing is lost, one copy at most is gained, and an accepted
    frame's sequence number is tracked afterwards *)
Lemma add_inner_phi seq rpt c tok d st st' r :
  mgr_add_inner seq rpt c tok d st = (st', r) ->
  (forall s, phi st s <= phi st' s <= phi st s + b2z (seq =? s)) /\
  (accepted r -> 1 <= phi st' seq) /\
  (forall t, tau st' t = tau st t).
Proof.
  unfold mgr_add_inner. destruct (m_acid st) eqn:Ha.
  { intros H; inversion H; subst. repeat split; try (intros [Hx|Hx]; discriminate Hx); intros; try pose proof (b2z_range (seq =? s)); lia. }
  destruct (pfind seq (m_probing st)) as [e|] eqn:Epf.
  { apply pfind_some in Epf as (_ & Hin & _).
    assert (H1 : 1 <= phi st seq).
    { unfold phi, held. simpl. rewrite cntz_app. apply cntz_in in Hin. pose proof (retc_nonneg seq (m_log st)).
      pose proof (cntz_nonneg seq (qseqs (m_queue st))). pose proof (b2z_range (m_active st =? seq)). lia. }
    destruct (_ && _); intros H; inversion H; subst; (split; [intros s; pose proof (b2z_range (seq =? s)); lia|split; [intros _; assumption|reflexivity]]). }
  destruct (negb _ && _).
  { intros H; inversion H; subst; clear H. split; [|split].
    - intros s. unfold phi, held; simpl. pose proof (b2z_range (seq =? s)). lia.
    - intros _. unfold phi, held; simpl. rewrite Z.eqb_refl. cbn [b2z]. pose proof (retc_nonneg seq (m_log st)).
      pose proof (cntz_nonneg seq (qseqs (m_queue st) ++ pseqs (m_probing st))). pose proof (b2z_range (m_active st =? seq)). lia.
    - intros t. unfold tau, inuse; simpl. lia. }
  set (st1 := retire_probing_stage rpt st).
  set (st2 := retire_queue_stage rpt st1).
  destruct (rps_spec rpt st) as (_ & _ & _ & _ & _ & _ & _ & _ & _ & Hphi1 & Htau1). fold st1 in Hphi1, Htau1.
  destruct (rqs_spec rpt st1) as (_ & _ & _ & _ & _ & _ & _ & _ & _ & Hphi2 & Htau2). fold st2 in Hphi2, Htau2.
  assert (Hphi : forall s, phi st2 s = phi st s) by (intros; rewrite Hphi2; apply Hphi1).
  assert (Htau : forall t, tau st2 t = tau st t) by (intros; rewrite Htau2; apply Htau1).
  destruct (Z.eqb_spec seq (m_active st2)) as [Heq|Hne].
  { intros H; inversion H; subst st' r; clear H. repeat split.
    - rewrite Hphi. lia.
    - rewrite Hphi. pose proof (b2z_range (seq =? s)). lia.
    - intros _. unfold phi. rewrite Heq. pose proof (held_active st2). pose proof (retc_nonneg (m_active st2) (m_log st2)). lia.
    - assumption. }
  destruct (add_conn_id (mkN seq c tok) (m_queue st2)) as [q'|] eqn:Eadd.
  2:{ intros H; inversion H; subst st' r; clear H. repeat split; try (intros [Hx|Hx]; discriminate Hx).
      - rewrite Hphi. lia.
      - rewrite Hphi. pose proof (b2z_range (seq =? s)). lia.
      - assumption. }
  destruct (add_conn_id_cnt _ _ _ Eadd) as [Hc H1]. simpl in Hc, H1.
  pose proof (set_queue_phi st2 q' (mkN seq c tok) Hc) as Hphi3. simpl in Hphi3.
  assert (H3 : 1 <= phi (set_queue st2 q') seq).
  { unfold phi, held. simpl. rewrite cntz_app. pose proof (retc_nonneg seq (m_log st2)).
    pose proof (cntz_nonneg seq (pseqs (m_probing st2))). pose proof (b2z_range (m_active st2 =? seq)). lia. }
  assert (Htau3 : forall t, tau (set_queue st2 q') t = tau st t).
  { intros t. rewrite <- Htau. reflexivity. }
  destruct (m_active (set_queue st2 q') <? rpt).
  - destruct (update_conn_id d (set_queue st2 q')) as [st4|] eqn:E4.
    + intros H; inversion H; subst st' r; clear H. pose proof (update_phi _ _ _ E4) as Hphi4.
      pose proof (update_tau _ _ _ E4) as Htau4. repeat split.
      * rewrite Hphi4. specialize (Hphi3 s). rewrite <- Hphi. lia.
      * rewrite Hphi4. specialize (Hphi3 s). rewrite <- Hphi. lia.
      * intros _. rewrite Hphi4. assumption.
      * intros t. rewrite Htau4. apply Htau3.
    + intros H; inversion H; subst st' r; clear H. repeat split; try (intros [Hx|Hx]; discriminate Hx).
      * specialize (Hphi3 s). rewrite <- Hphi. lia.
      * specialize (Hphi3 s). rewrite <- Hphi. lia.
      * assumption.
  - intros H; inversion H; subst st' r; clear H. repeat split.
    * specialize (Hphi3 s). rewrite <- Hphi. lia.
    * specialize (Hphi3 s). rewrite <- Hphi. lia.
    * intros _. assumption.
    * assumption.
Qed.

Lemma add_phi seq rpt c tok d st st' r :
  mgr_add seq rpt c tok d st = (st', r) ->
  (forall s, phi st s <= phi st' s <= phi st s + b2z (seq =? s)) /\
  (accepted r -> 1 <= phi st' seq) /\
  (forall t, tau st' t = tau st t).
Proof.
  unfold mgr_add. destruct (mgr_add_inner seq rpt c tok d st) as [st1 r1] eqn:E.
  destruct (add_inner_phi _ _ _ _ _ _ _ _ E) as (Hp & Hacc & Ht).
  destruct r1.
  1:{ destruct (_ <=? _); intros H; inversion H; subst;
      (split; [assumption | split; [intros _; apply Hacc; left; reflexivity | assumption]]). }
  all: intros H; inversion H; subst; split; [assumption|split; [assumption | assumption]].
Qed.

Lemma close_log_retc s : forall p log,
  retc s (fold_left (fun l (pe : Z * ncid) => EvRemTok (n_tok (snd pe)) :: l) p log) = retc s log.
Proof. induction p as [|x p IH]; simpl; intros log; [reflexivity|]. rewrite IH. reflexivity. Qed.

(** Bookkeeping for every operation and every state whose pathProbing keys are unique. *)
Lemma phi_step o st s : pids_ok st ->
  phi st s <= phi (fst (mgr_step o st)) s <= phi st s + frame_of o s.
Proof.
  intros Hp.
  destruct o as [seq rpt c tok draw|c tok|draw|k| | |c|tok|id|id|tok|n]; cbn [mgr_step frame_of].
  - destruct (mgr_add seq rpt c tok draw st) as [st' r] eqn:E. cbn [fst].
    destruct (add_phi _ _ _ _ _ _ _ _ E) as (H & _). apply H.
  - unfold mgr_add_pref. destruct (add_conn_id (mkN 1 c tok) (m_queue st)) as [q'|] eqn:E; cbn [fst].
    + destruct (add_conn_id_cnt _ _ _ E) as [Hc _]. apply (set_queue_phi st q' (mkN 1 c tok) Hc).
    + pose proof (b2z_range (1 =? s)). lia.
  - unfold mgr_get. destruct (m_closed st); cbn [fst]; [lia|]. destruct (should_update st); cbn [fst]; [|lia].
    destruct (update_conn_id draw st) as [st'|] eqn:E; cbn [fst]; [|lia]. rewrite (update_phi _ _ _ E). lia.
  - cbn [fst]. unfold phi, held; simpl. lia.
  - cbn [fst]. unfold phi, held; simpl. lia.
  - cbn [fst]. unfold phi, held, mgr_close; simpl. destruct (m_atok st); rewrite close_log_retc; simpl; lia.
  - unfold mgr_change_initial. destruct (_ =? _); cbn [fst]; unfold phi, held; simpl; lia.
  - unfold mgr_set_token. destruct (m_closed st); cbn [fst]; [lia|]. destruct (_ =? _); cbn [fst]; unfold phi, held; simpl; lia.
  - unfold mgr_path_get. destruct (m_closed st); cbn [fst]; [lia|]. destruct (m_acid st); cbn [fst]; [lia|].
    destruct (plookup id (m_probing st)); cbn [fst]; [lia|].
    destruct (m_queue st) as [|f r] eqn:Eq; cbn [fst]; [lia|].
    unfold phi, held; simpl. rewrite Eq. unfold pseqs. rewrite map_app. simpl. rewrite !cntz_app. simpl. lia.
  - unfold mgr_path_retire. destruct (m_closed st); cbn [fst]; [lia|]. destruct (m_acid st); cbn [fst]; [lia|].
    destruct (plookup id (m_probing st)) as [e|] eqn:El; cbn [fst]; [|lia].
    destruct (pdelete_cnt _ _ _ Hp El) as [Hs _]. specialize (Hs s).
    unfold phi, held; simpl. rewrite !cntz_app. lia.
  - cbn [fst]. lia.
  - cbn [fst]. unfold phi, held; simpl. lia.
Qed.

(* ------------------------------------------------------------------------- *)
(** * Histories *)

(** [reachP P init ops st]: [st] is reached from a fresh manager by the operations
    [ops] (newest first), each of which satisfied [P] in the state it was applied to. *)
Inductive reachP (P : mop -> mgr -> Prop) (init : cid) : list mop -> mgr -> Prop :=
| reach_nil : reachP P init [] (mgr_init init)
| reach_cons o ops st : reachP P init ops st -> P o st -> reachP P init (o :: ops) (fst (mgr_step o st)).

Definition any_op (_ : mop) (_ : mgr) : Prop := True.

Lemma reachP_weaken (P Q : mop -> mgr -> Prop) init ops st :
  (forall o s, P o s -> Q o s) -> reachP P init ops st -> reachP Q init ops st.
Proof. intros HPQ H. induction H; constructor; auto. Qed.

Lemma reach_pids P init ops st : reachP P init ops st -> pids_ok st.
Proof.
  induction 1 as [|o ops st _ IH _].
  - unfold pids_ok; simpl. constructor.
  - apply mgr_step_pids, IH.
Qed.

Fixpoint frames_for (s : Z) (ops : list mop) : Z :=
  match ops with [] => 0 | o :: r => frame_of o s + frames_for s r end.

Lemma frame_of_nonneg o s : 0 <= frame_of o s.
Proof. destruct o; simpl; try lia; apply b2z_range. Qed.

(** (c), for EVERY history: bookkeeping of a sequence number never decreases and is
    bounded by the number of frames received for it (the initial ID counts once). *)
Theorem phi_history init ops st s :
  reachP any_op init ops st ->
  b2z (0 =? s) <= phi st s <= b2z (0 =? s) + frames_for s ops.
Proof.
  induction 1 as [|o ops st Hr IH _].
  - unfold phi, held; simpl. lia.
  - pose proof (phi_step o st s (reach_pids _ _ _ _ Hr)). cbn [frames_for]. pose proof (frame_of_nonneg o s). lia.
Qed.

(** once tracked (held, or reported retired), always tracked *)
Theorem phi_monotone init ops st o s :
  reachP any_op init ops st -> 1 <= phi st s -> 1 <= phi (fst (mgr_step o st)) s.
Proof.
  intros Hr H. pose proof (phi_step o st s (reach_pids _ _ _ _ Hr)). lia.
Qed.

Lemma phi_tracked st s : 1 <= phi st s <-> In s (held st) \/ 1 <= retc s (m_log st).
Proof.
  unfold phi. pose proof (retc_nonneg s (m_log st)). pose proof (cntz_nonneg s (held st)).
  rewrite cntz_in. lia.
Qed.

Theorem tracked_stays_tracked init ops st o s :
  reachP any_op init ops st ->
  In s (held st) \/ 1 <= retc s (m_log st) ->
  In s (held (fst (mgr_step o st))) \/ 1 <= retc s (m_log (fst (mgr_step o st))).
Proof.
  intros Hr H. apply phi_tracked. eapply phi_monotone; [eassumption|]. apply phi_tracked. exact H.
Qed.
