(** Proofs about the routing-table model: closed stand-ins never outlive their closing
    period, foreign IDs are never routed, the CONNECTION_CLOSE back-off is exponential. *)
From Coq Require Import List ZArith Bool Lia.
From V Require Import Lib.Hex ConnIDs.Model ConnIDs.Routing.
Import ListNotations.
Open Scope Z_scope.

Lemma cid_eqb_eq a b : cid_eqb a b = true <-> a = b.
Proof. apply zeqb_list_eq. Qed.

Lemma cid_eqb_refl a : cid_eqb a a = true.
Proof. apply cid_eqb_eq. reflexivity. Qed.

Definition closed_kind (h : hkind) : Prop := match h with HConn _ => False | _ => True end.

Lemma hdel_in c k h hs : In (k, h) (hdel c hs) -> In (k, h) hs /\ k <> c.
Proof.
  induction hs as [|[k' h'] hs IH]; simpl; [intros []|].
  destruct (cid_eqb k' c) eqn:E.
  - intros H. destruct (IH H). auto.
  - intros [H|H].
    + inversion H; subst. split; [auto|]. intros ->. rewrite cid_eqb_refl in E. discriminate.
    + destruct (IH H). auto.
Qed.

Lemma del_all_in ids : forall hs k h, In (k, h) (del_all ids hs) -> In (k, h) hs /\ ~ In k ids.
Proof.
  unfold del_all. induction ids as [|c ids IH]; simpl; intros hs k h H; [auto|].
  destruct (IH _ _ _ H) as [H1 H2]. apply hdel_in in H1 as [H1 Hne]. split; [assumption|].
  intros [->|Hin]; [congruence|contradiction].
Qed.

Lemma hset_in c x k h hs : In (k, h) (hset c x hs) -> (k = c /\ h = x) \/ (In (k, h) hs /\ k <> c).
Proof.
  unfold hset. intros [H|H]; [inversion H; auto|]. right. apply hdel_in. assumption.
Qed.

Lemma set_all_in ids x : forall hs k h, In (k, h) (set_all ids x hs) -> (In k ids /\ h = x) \/ In (k, h) hs.
Proof.
  unfold set_all. induction ids as [|c ids IH]; simpl; intros hs k h H; [auto|].
  destruct (IH _ _ _ H) as [[Hin ->]|H1]; [left; auto|].
  apply hset_in in H1 as [[-> ->]|[H1 _]]; [left; auto|right; assumption].
Qed.

Local Arguments hset : simpl never.
Local Arguments hdel : simpl never.
Local Arguments set_all : simpl never.
Local Arguments del_all : simpl never.

(** timers: what fires deletes its IDs; survivors are named by no fired timer *)
Lemma fire_spec now : forall tm hs tm' hs',
  fire now tm hs = (tm', hs') ->
  (forall t ids, In (t, ids) tm' -> In (t, ids) tm /\ now < t) /\
  (forall k h, In (k, h) hs' -> In (k, h) hs /\ forall t ids, In (t, ids) tm -> In k ids -> In (t, ids) tm') /\
  ((forall t ids, In (t, ids) tm -> t <= now) -> tm' = []).
Proof.
  induction tm as [|[t ids] tm IH]; simpl; intros hs tm' hs' H.
  - inversion H; subst. split; [intros t ids []|split; [intros k h Hin; split; [assumption|intros t ids []]|reflexivity]].
  - destruct (Z.leb_spec t now) as [Hle|Hgt].
    + destruct (IH _ _ _ H) as (H1 & H2 & H3). split; [|split].
      * intros t0 i0 Hin. destruct (H1 _ _ Hin). auto.
      * intros k h Hin. destruct (H2 _ _ Hin) as [Hd Hk]. apply del_all_in in Hd as [Hd Hni]. split; [assumption|].
        intros t0 i0 [Heq|Hin0] Hk0; [inversion Heq; subst; contradiction|eauto].
      * intros Hall. apply H3. intros; eapply Hall; eauto.
    + destruct (fire now tm hs) as [r' h'] eqn:E. inversion H; subst.
      destruct (IH _ _ _ E) as (H1 & H2 & H3). split; [|split].
      * intros t0 i0 [Heq|Hin]; [inversion Heq; subst; split; [auto|lia]|]. destruct (H1 _ _ Hin). auto.
      * intros k h Hin. destruct (H2 _ _ Hin) as [Hd Hk]. split; [assumption|].
        intros t0 i0 [Heq|Hin0] Hk0; [left; assumption|right; eauto].
      * intros Hall. specialize (Hall t ids (or_introl eq_refl)). lia.
Qed.

(** every closed stand-in in the table is named by a pending removal timer, and every
    pending timer lies in the future *)
Definition rinv (s : rt) : Prop :=
  (forall k h, In (k, h) (rt_handlers s) -> closed_kind h ->
     exists t ids, In (t, ids) (rt_timers s) /\ In k ids) /\
  (forall t ids, In (t, ids) (rt_timers s) -> rt_now s < t).

Definition rop_ok (o : rop) : Prop :=
  match o with
  | RReplace _ _ ex _ => 0 < ex        (* the closing period 3*PTO is positive *)
  | RAdvance d => 0 <= d
  | _ => True
  end.

Lemma raw_cover o s : rop_ok o ->
  (forall k h, In (k, h) (rt_handlers s) -> closed_kind h -> exists t ids, In (t, ids) (rt_timers s) /\ In k ids) ->
  (forall k h, In (k, h) (rt_handlers (fst (rt_step_raw o s))) -> closed_kind h ->
     exists t ids, In (t, ids) (rt_timers (fst (rt_step_raw o s))) /\ In k ids).
Proof.
  intros Hok Hc. destruct o as [c n|cd nw n|c|ids loc ex ps|d|t n|t|c sz]; simpl.
  - destruct (hget c (rt_handlers s)); simpl; [assumption|]. intros k h Hin Hcl.
    apply hset_in in Hin as [[-> ->]|[Hin _]]; [destruct Hcl|eauto].
  - destruct (hget cd (rt_handlers s)); simpl; [assumption|]. intros k h Hin Hcl.
    apply hset_in in Hin as [[-> ->]|[Hin _]]; [destruct Hcl|].
    apply hset_in in Hin as [[-> ->]|[Hin _]]; [destruct Hcl|eauto].
  - intros k h Hin Hcl. apply hdel_in in Hin as [Hin _]. eauto.
  - intros k h Hin Hcl. apply set_all_in in Hin as [[Hin _]|Hin].
    + exists (rt_now s + ex), ids. split; [apply in_or_app; right; left; reflexivity|assumption].
    + destruct (Hc _ _ Hin Hcl) as (t & i & Ht & Hk). exists t, i. split; [apply in_or_app; left; assumption|assumption].
  - assumption.
  - assumption.
  - assumption.
  - destruct (hget c (rt_handlers s)) as [[n|j|]|]; simpl; assumption.
Qed.

Lemma raw_timers o s : rop_ok o ->
  (forall t ids, In (t, ids) (rt_timers s) -> rt_now s < t) ->
  forall t ids, In (t, ids) (rt_timers (fst (rt_step_raw o s))) ->
    In (t, ids) (rt_timers s) \/ rt_now s < t.
Proof.
  intros Hok Ht. destruct o as [c n|cd nw n|c|ids loc ex ps|d|t0 n|t0|c sz]; simpl; auto.
  - destruct (hget c (rt_handlers s)); simpl; auto.
  - destruct (hget cd (rt_handlers s)); simpl; auto.
  - intros t i Hin. apply in_app_or in Hin as [Hin|[Heq|[]]]; [auto|]. inversion Heq; subst. simpl in Hok. right. lia.
  - destruct (hget c (rt_handlers s)) as [[n|j|]|]; simpl; auto.
Qed.

Lemma rt_step_inv o s : rop_ok o -> rinv s -> rinv (fst (rt_step o s)).
Proof.
  intros Hok [Hc Ht]. unfold rt_step.
  pose proof (raw_cover o s Hok Hc) as Hc1.
  destruct (rt_step_raw o s) as [s1 r] eqn:E1. simpl in Hc1.
  destruct (fire (rt_now s1) (rt_timers s1) (rt_handlers s1)) as [tm hs] eqn:Ef.
  destruct (fire_spec _ _ _ _ _ Ef) as (F1 & F2 & _). simpl. split; simpl.
  - intros k h Hin Hcl. destruct (F2 _ _ Hin) as [Hin1 Hkeep].
    destruct (Hc1 _ _ Hin1 Hcl) as (t & ids & Htm & Hk). exists t, ids. split; [eapply Hkeep; eauto|assumption].
  - intros t ids Hin. apply F1 in Hin. tauto.
Qed.

Lemma rinv_init : rinv rt_init.
Proof. split; simpl; intros; contradiction. Qed.

Theorem rt_run_inv ops : Forall rop_ok ops -> forall s, rinv s -> rinv (rt_run ops s).
Proof.
  unfold rt_run. induction 1 as [|o ops Ho _ IH]; simpl; intros s Hs; [assumption|].
  apply IH, rt_step_inv; assumption.
Qed.

(** (e) After any history, once time has passed the last pending closing period, no
    connection ID maps to a closed connection any more - and in every state a closed
    stand-in is present only while one of its closing periods is still running. *)
Theorem routing_closed_expire ops :
  Forall rop_ok ops ->
  let s := rt_run ops rt_init in
  (forall k h, In (k, h) (rt_handlers s) -> closed_kind h ->
     exists t ids, In (t, ids) (rt_timers s) /\ In k ids /\ rt_now s < t) /\
  (forall d, 0 <= d -> (forall t ids, In (t, ids) (rt_timers s) -> t <= rt_now s + d) ->
     let s' := fst (rt_step (RAdvance d) s) in
     rt_timers s' = [] /\ forall k h, In (k, h) (rt_handlers s') -> ~ closed_kind h).
Proof.
  intros HF s. pose proof (rt_run_inv ops HF rt_init rinv_init) as Hinv. fold s in Hinv.
  split.
  - destruct Hinv as [Hc Ht]. intros k h Hin Hcl. destruct (Hc _ _ Hin Hcl) as (t & ids & H1 & H2).
    exists t, ids. split; [assumption|split; [assumption|eapply Ht; eauto]].
  - intros d Hd Hall s'.
    assert (Hinv' : rinv s') by (apply rt_step_inv; [exact Hd|assumption]).
    assert (Htm : rt_timers s' = []).
    { unfold s', rt_step. simpl rt_step_raw. cbv iota beta.
      destruct (fire _ _ _) as [tm hs] eqn:Ef. simpl in Ef. simpl.
      destruct (fire_spec _ _ _ _ _ Ef) as (_ & _ & F3). apply F3. assumption. }
    split; [assumption|]. intros k h Hin Hcl. destruct Hinv' as [Hc _].
    destruct (Hc _ _ Hin Hcl) as (t & ids & H1 & _). rewrite Htm in H1. destruct H1.
Qed.

(** (d) a connection ID that no Add / AddWithConnID / ReplaceWithClosed ever named is not routed *)
Definition named (o : rop) (c : cid) : Prop :=
  match o with
  | RAdd k _ => k = c
  | RAddWith a b _ => a = c \/ b = c
  | RReplace ids _ _ _ => In c ids
  | _ => False
  end.

Lemma rt_step_keys o s k h : In (k, h) (rt_handlers (fst (rt_step o s))) -> In k (map fst (rt_handlers s)) \/ named o k.
Proof.
  unfold rt_step. destruct (rt_step_raw o s) as [s1 r] eqn:E1.
  destruct (fire (rt_now s1) (rt_timers s1) (rt_handlers s1)) as [tm hs] eqn:Ef. simpl.
  destruct (fire_spec _ _ _ _ _ Ef) as (_ & F2 & _). intros Hin. destruct (F2 _ _ Hin) as [Hin1 _]. clear Hin F2 Ef.
  assert (Hkey : forall x y, In (x, y) (rt_handlers s) -> In x (map fst (rt_handlers s))).
  { intros x y Hx. apply in_map_iff. exists (x, y). auto. }
  destruct o as [c n|cd nw n|c|ids loc ex ps|d|t n|t|c sz]; simpl in E1.
  - destruct (hget c (rt_handlers s)); inversion E1; subst; simpl in *; [eauto|].
    apply hset_in in Hin1 as [[-> _]|[Hin1 _]]; [right; reflexivity|eauto].
  - destruct (hget cd (rt_handlers s)); inversion E1; subst; simpl in *; [eauto|].
    apply hset_in in Hin1 as [[-> _]|[Hin1 _]]; [right; right; reflexivity|].
    apply hset_in in Hin1 as [[-> _]|[Hin1 _]]; [right; left; reflexivity|eauto].
  - inversion E1; subst; simpl in *. apply hdel_in in Hin1 as [Hin1 _]. eauto.
  - inversion E1; subst; simpl in *. apply set_all_in in Hin1 as [[Hin1 _]|Hin1]; [right; assumption|eauto].
  - inversion E1; subst; simpl in *. eauto.
  - inversion E1; subst; simpl in *. eauto.
  - inversion E1; subst; simpl in *. eauto.
  - destruct (hget c (rt_handlers s)) as [[n|j|]|]; inversion E1; subst; simpl in *; eauto.
Qed.

Theorem routing_no_foreign ops : forall s k h,
  In (k, h) (rt_handlers (rt_run ops s)) ->
  In k (map fst (rt_handlers s)) \/ exists o, In o ops /\ named o k.
Proof.
  unfold rt_run. induction ops as [|o ops IH]; simpl; intros s k h Hin.
  - left. apply in_map_iff. exists (k, h). auto.
  - destruct (IH _ _ _ Hin) as [Hk|(o' & Ho & Hn)]; [|right; exists o'; auto].
    apply in_map_iff in Hk as ([k' h'] & Hfst & Hk). simpl in Hfst. subst k'.
    destruct (rt_step_keys _ _ _ _ Hk) as [?|Hn]; [left; assumption|right; exists o; auto].
Qed.

(** closed_conn.go: a locally closed connection answers packet n with CONNECTION_CLOSE iff
    n is a power of two; popcount is bits.OnesCount32 on values below 2^32 *)
Lemma popcount_pos_ge1 p : 1 <= popcount_pos p.
Proof. induction p; cbn [popcount_pos]; lia. Qed.

Lemma popcount_pos_one p : popcount_pos p = 1 <-> exists k : nat, Zpos p = 2 ^ Z.of_nat k.
Proof.
  induction p as [p IH|p IH|]; cbn [popcount_pos].
  - pose proof (popcount_pos_ge1 p). split; [lia|]. intros (k & Hk). exfalso.
    destruct k as [|k]; [simpl in Hk; lia|]. rewrite Nat2Z.inj_succ, Z.pow_succ_r in Hk by lia. lia.
  - rewrite IH. split.
    + intros (k & Hk). exists (S k). rewrite Nat2Z.inj_succ, Z.pow_succ_r by lia. lia.
    + intros (k & Hk). destruct k as [|k]; [simpl in Hk; lia|]. exists k.
      rewrite Nat2Z.inj_succ, Z.pow_succ_r in Hk by lia. lia.
  - split; [intros _; exists O; reflexivity|reflexivity].
Qed.

Local Arguments Z.mul : simpl never.
Local Arguments Z.add : simpl never.

(** closed_conn.go: CONNECTION_CLOSE is retransmitted for packet n iff n is a power of two AND the
    retransmission stays within three times the bytes received for the closed connection *)
Theorem backoff_power_of_two s c j size :
  hget c (rt_handlers s) = Some (HLocal j) ->
  let l := match zget j (rt_locals s) with Some v => v | None => mkL 0 0 0 0 end in
  0 <= l_cnt l -> l_cnt l + 1 < 4294967296 ->
  let r := snd (rt_step (RDeliver c size) s) in
  rr_kind r = 2 /\
  (rr_sent r = 1 <-> (exists k : nat, l_cnt l + 1 = 2 ^ Z.of_nat k) /\
                     l_sent l + l_psize l <= 3 * (l_recv l + size)) /\
  (rr_sent r = 0 \/ rr_sent r = 1).
Proof.
  intros Hg l Hv Hlt. unfold rt_step. simpl rt_step_raw. rewrite Hg.
  destruct (fire _ _ _) as [tm hs]. simpl. fold l.
  rewrite Z.mod_small by lia. split; [reflexivity|]. unfold closedConnAmplificationFactor.
  destruct (l_cnt l + 1) as [|p|p] eqn:Ep; try lia. simpl popcount.
  destruct (Z.eqb_spec (popcount_pos p) 1) as [H1|H1]; simpl.
  - destruct (Z.ltb_spec (3 * (l_recv l + size)) (l_sent l + l_psize l)) as [Hb|Hb]; simpl; split; auto.
    + split; [discriminate|]. intros [_ Hle]. lia.
    + split; [intros _; split; [apply popcount_pos_one; assumption|lia]|reflexivity].
  - split; auto. split; [discriminate|]. intros [Hk _]. apply popcount_pos_one in Hk. contradiction.
Qed.

(** the stand-in never sends more than three times what it received (RFC 9000 10.2.1) *)
Theorem standin_amplification_step s c j size :
  hget c (rt_handlers s) = Some (HLocal j) -> 0 <= size ->
  let l := match zget j (rt_locals s) with Some v => v | None => mkL 0 0 0 0 end in
  0 <= l_psize l -> l_sent l <= 3 * l_recv l ->
  match zget j (rt_locals (fst (rt_step (RDeliver c size) s))) with
  | Some l' => l_sent l' <= 3 * l_recv l' /\ l_psize l' = l_psize l
  | None => False
  end.
Proof.
  intros Hg Hs l Hp Hinv. unfold rt_step. simpl rt_step_raw. rewrite Hg.
  destruct (fire _ _ _) as [tm hs]. simpl. rewrite Z.eqb_refl. fold l. simpl. unfold closedConnAmplificationFactor.
  destruct (popcount _ =? 1); simpl; [|split; [lia|reflexivity]].
  destruct (Z.ltb_spec (3 * (l_recv l + size)) (l_sent l + l_psize l)); simpl; split; try reflexivity; lia.
Qed.

Theorem remote_closed_silent s c size :
  hget c (rt_handlers s) = Some HRemote -> rr_sent (snd (rt_step (RDeliver c size) s)) = 0.
Proof.
  intros Hg. unfold rt_step. simpl rt_step_raw. rewrite Hg. destruct (fire _ _ _). reflexivity.
Qed.
