(** Proofs about the routing-table model: closed stand-ins never outlive their closing
    period, foreign IDs are never routed, the CONNECTION_CLOSE back-off is exponential. *)
From Coq Require Import List ZArith Bool Lia.
From V Require Import Lib.Hex ConnIDs.Model ConnIDs.Routing.
Import ListNotations.
Open Scope Z_scope.

Lemma cid_eqb_eq a b : cid_eqb a b = true <-> a = b.
Proof. apply zeqb_list_eq. Qed.

Lemma cid_eqb_refl a : cid_eqb a a = true.
Proof. apply cid_eqb_eq. reflexivity. Qed.

Definition closed_kind (h : hkind) : Prop := match h with HConn _ => False | _ => True end.

Lemma hdel_in c k h hs : In (k, h) (hdel c hs) -> In (k, h) hs /\ k <> c.
Proof.
  induction hs as [|[k' h'] hs IH]; simpl; [intros []|].
  destruct (cid_eqb k' c) eqn:E.
  - intros H. destruct (IH H). auto.
  - intros [H|H].
    + inversion H; subst. split; [auto|]. intros ->. rewrite cid_eqb_refl in E. discriminate.
    + destruct (IH H). auto.
Qed.

Lemma hset_in c x k h hs : In (k, h) (hset c x hs) -> (k = c /\ h = x) \/ (In (k, h) hs /\ k <> c).
Proof.
  unfold hset. intros [H|H]; [inversion H; auto|]. right. apply hdel_in. assumption.
Qed.

Lemma set_all_in ids x : forall hs k h, In (k, h) (set_all ids x hs) -> (In k ids /\ h = x) \/ In (k, h) hs.
Proof.
  unfold set_all. induction ids as [|c ids IH]; simpl; intros hs k h H; [auto|].
  destruct (IH _ _ _ H) as [[Hin ->]|H1]; [left; auto|].
  apply hset_in in H1 as [[-> ->]|[H1 _]]; [left; auto|right; assumption].
Qed.

(** keys of the handlers map are unique *)
Definition keys_ok (hs : list (cid * hkind)) : Prop := NoDup (map fst hs).

Lemma hdel_key c hs k : In k (map fst (hdel c hs)) -> In k (map fst hs) /\ k <> c.
Proof.
  intros H. apply in_map_iff in H as ([k' h] & Hf & Hin). simpl in Hf. subst k'.
  apply hdel_in in Hin as [Hin Hne]. split; [|assumption]. apply in_map_iff. exists (k, h). auto.
Qed.

Lemma hdel_keys c hs : keys_ok hs -> keys_ok (hdel c hs).
Proof.
  unfold keys_ok. induction hs as [|[k h] hs IH]; simpl; [auto|]. intros H. inversion H as [|? ? Hni Hnd]; subst.
  destruct (cid_eqb k c); [auto|]. simpl. constructor; [|auto]. intros Hin. apply hdel_key in Hin as [Hin _]. auto.
Qed.

Lemma hset_keys c x hs : keys_ok hs -> keys_ok (hset c x hs).
Proof.
  intros H. unfold hset, keys_ok. simpl. constructor; [|apply hdel_keys; assumption].
  intros Hin. apply hdel_key in Hin as [_ Hne]. congruence.
Qed.

Lemma set_all_keys ids x : forall hs, keys_ok hs -> keys_ok (set_all ids x hs).
Proof.
  unfold set_all. induction ids as [|c ids IH]; simpl; intros hs H; [assumption|]. apply IH, hset_keys, H.
Qed.

Lemma hget_in c h hs : keys_ok hs -> In (c, h) hs -> hget c hs = Some h.
Proof.
  unfold keys_ok. induction hs as [|[k h'] hs IH]; simpl; [intros _ []|]. intros Hnd [Heq|Hin].
  - inversion Heq; subst. rewrite cid_eqb_refl. reflexivity.
  - inversion Hnd as [|? ? Hni Hnd']; subst. destruct (cid_eqb k c) eqn:E.
    + apply cid_eqb_eq in E. subst k. exfalso. apply Hni. apply in_map_iff. exists (c, h). auto.
    + auto.
Qed.

Lemma hget_some c h hs : hget c hs = Some h -> In (c, h) hs.
Proof.
  induction hs as [|[k h'] hs IH]; simpl; [discriminate|]. destruct (cid_eqb k c) eqn:E.
  - intros H; inversion H; subst. apply cid_eqb_eq in E. subst. left; reflexivity.
  - intros H. right. auto.
Qed.

Lemma hget_hdel_other c x hs : c <> x -> hget c (hdel x hs) = hget c hs.
Proof.
  intros Hne. induction hs as [|[k h] hs IH]; simpl; [reflexivity|].
  destruct (cid_eqb k x) eqn:Ex.
  - apply cid_eqb_eq in Ex. subst k. destruct (cid_eqb x c) eqn:Ec; [apply cid_eqb_eq in Ec; congruence|assumption].
  - simpl. destruct (cid_eqb k c); [reflexivity|assumption].
Qed.

Lemma hget_hset_other c x k hs : c <> x -> hget c (hset x k hs) = hget c hs.
Proof.
  intros Hne. unfold hset. simpl. destruct (cid_eqb x c) eqn:E; [apply cid_eqb_eq in E; congruence|].
  apply hget_hdel_other. assumption.
Qed.

Lemma hget_set_all_other c ids k : forall hs, ~ In c ids -> hget c (set_all ids k hs) = hget c hs.
Proof.
  unfold set_all. induction ids as [|x ids IH]; simpl; intros hs Hni; [reflexivity|].
  rewrite IH by tauto. apply hget_hset_other. intros ->. tauto.
Qed.

Lemma hkind_eqb_refl h : hkind_eqb h h = true.
Proof. destruct h; simpl; try apply Z.eqb_refl; reflexivity. Qed.

(** one step of the timer's loop *)
Definition del_one (k : hkind) (h : list (cid * hkind)) (c : cid) :=
  match hget c h with
  | Some k' => if hkind_eqb k' k then hdel c h else h
  | None => h
  end.

Lemma del_one_in k hs c x h : In (x, h) (del_one k hs c) -> In (x, h) hs.
Proof.
  unfold del_one. destruct (hget c hs) as [k'|]; [|auto]. destruct (hkind_eqb k' k); [|auto].
  intros H. apply hdel_in in H. tauto.
Qed.

Lemma del_one_keys k hs c : keys_ok hs -> keys_ok (del_one k hs c).
Proof.
  unfold del_one. intros H. destruct (hget c hs) as [k'|]; [|assumption]. destruct (hkind_eqb k' k); [|assumption].
  apply hdel_keys, H.
Qed.

Lemma del_if_in k ids : forall hs x h, In (x, h) (del_if k ids hs) -> In (x, h) hs.
Proof.
  unfold del_if. induction ids as [|c ids IH]; simpl; intros hs x h H; [assumption|].
  apply IH in H. eapply del_one_in. exact H.
Qed.

Lemma del_if_keys k ids : forall hs, keys_ok hs -> keys_ok (del_if k ids hs).
Proof.
  unfold del_if. induction ids as [|c ids IH]; simpl; intros hs H; [assumption|]. apply IH. apply (del_one_keys k hs c H).
Qed.

(** an entry named by the timer that survives it is not the stand-in the timer installed *)
Lemma del_if_gone k ids : forall hs x h, keys_ok hs -> In x ids -> In (x, h) (del_if k ids hs) -> hkind_eqb h k = false.
Proof.
  unfold del_if. induction ids as [|c ids IH]; simpl; intros hs x h Hk Hin H; [destruct Hin|].
  fold (del_one k hs c) in H.
  destruct (list_eq_dec Z.eq_dec c x) as [->|Hne].
  - pose proof (del_if_in k ids _ _ _ H) as H1. fold (del_if k ids (del_one k hs x)) in H.
    pose proof (del_one_in _ _ _ _ _ H1) as H0. pose proof (hget_in _ _ _ Hk H0) as Hg.
    unfold del_one in H1. rewrite Hg in H1. destruct (hkind_eqb h k) eqn:E; [|reflexivity].
    apply hdel_in in H1 as [_ Hc]. congruence.
  - destruct Hin as [->|Hin]; [congruence|]. eapply IH; [apply (del_one_keys k hs c Hk)|exact Hin|exact H].
Qed.

(** live entries are never touched by a timer *)
Lemma del_if_live k ids c n : closed_kind k -> forall hs, hget c hs = Some (HConn n) -> hget c (del_if k ids hs) = Some (HConn n).
Proof.
  intros Hcl. unfold del_if. induction ids as [|x ids IH]; simpl; intros hs Hg; [assumption|].
  apply IH. destruct (list_eq_dec Z.eq_dec c x) as [<-|Hne].
  - rewrite Hg. destruct k; simpl; [destruct Hcl|assumption|assumption].
  - destruct (hget x hs) as [k'|]; [|assumption]. destruct (hkind_eqb k' k); [|assumption].
    rewrite hget_hdel_other; assumption.
Qed.

Local Arguments hset : simpl never.
Local Arguments hdel : simpl never.
Local Arguments set_all : simpl never.
Local Arguments del_if : simpl never.

(** timers: what fires retires the entries it installed; survivors named by a fired timer
    are not its stand-in *)
Lemma fire_spec now : forall tm hs tm' hs',
  fire now tm hs = (tm', hs') -> keys_ok hs ->
  (forall t ids k, In (t, ids, k) tm' -> In (t, ids, k) tm /\ now < t) /\
  (forall x h, In (x, h) hs' -> In (x, h) hs /\
     forall t ids k, In (t, ids, k) tm -> In x ids -> hkind_eqb h k = true -> In (t, ids, k) tm') /\
  keys_ok hs' /\
  ((forall t ids k, In (t, ids, k) tm -> t <= now) -> tm' = []).
Proof.
  induction tm as [|[[t ids] k] tm IH]; simpl; intros hs tm' hs' H Hk.
  - inversion H; subst. split; [intros t ids k []|split; [intros x h Hin; split; [assumption|intros t ids k []]|split; [assumption|reflexivity]]].
  - destruct (Z.leb_spec t now) as [Hle|Hgt].
    + destruct (IH _ _ _ H (del_if_keys k ids hs Hk)) as (H1 & H2 & H3 & H4). split; [|split; [|split]].
      * intros t0 i0 k0 Hin. destruct (H1 _ _ _ Hin). auto.
      * intros x h Hin. destruct (H2 _ _ Hin) as [Hd Hkeep]. split; [eapply del_if_in; eauto|].
        intros t0 i0 k0 [Heq|Hin0] Hx Heqb; [|eauto]. inversion Heq; subst.
        rewrite (del_if_gone _ _ _ _ _ Hk Hx Hd) in Heqb. discriminate.
      * assumption.
      * intros Hall. apply H4. intros; eapply Hall; eauto.
    + destruct (fire now tm hs) as [r' h'] eqn:E. inversion H; subst.
      destruct (IH _ _ _ E Hk) as (H1 & H2 & H3 & H4). split; [|split; [|split]].
      * intros t0 i0 k0 [Heq|Hin]; [inversion Heq; subst; split; [auto|lia]|]. destruct (H1 _ _ _ Hin). auto.
      * intros x h Hin. destruct (H2 _ _ Hin) as [Hd Hkeep]. split; [assumption|].
        intros t0 i0 k0 [Heq|Hin0] Hx Heqb; [left; assumption|right; eauto].
      * assumption.
      * intros Hall. specialize (Hall t ids k (or_introl eq_refl)). lia.
Qed.

Lemma fire_live now c n : forall tm hs tm' hs',
  fire now tm hs = (tm', hs') -> (forall t ids k, In (t, ids, k) tm -> closed_kind k) ->
  hget c hs = Some (HConn n) -> hget c hs' = Some (HConn n).
Proof.
  induction tm as [|[[t ids] k] tm IH]; simpl; intros hs tm' hs' H Hcl Hg.
  - inversion H; subst. assumption.
  - destruct (t <=? now).
    + eapply IH; [exact H|intros; eapply Hcl; eauto|]. apply del_if_live; [eapply Hcl; eauto|assumption].
    + destruct (fire now tm hs) as [r' h'] eqn:E. inversion H; subst. eapply IH; [exact E|intros; eapply Hcl; eauto|assumption].
Qed.

(** the handlers map has unique keys; every closed stand-in in the table was installed by a
    pending removal timer that names its ID; pending timers lie in the future and carry
    closed stand-ins only *)
Definition rinv (s : rt) : Prop :=
  keys_ok (rt_handlers s) /\
  (forall k h, In (k, h) (rt_handlers s) -> closed_kind h ->
     exists t ids, In (t, ids, h) (rt_timers s) /\ In k ids) /\
  (forall t ids k, In (t, ids, k) (rt_timers s) -> rt_now s < t /\ closed_kind k).

Definition rop_ok (o : rop) : Prop :=
  match o with
  | RReplace _ _ ex _ => 0 < ex        (* the closing period 3*PTO is positive *)
  | RAdvance d => 0 <= d
  | _ => True
  end.

Lemma raw_keys o s : keys_ok (rt_handlers s) -> keys_ok (rt_handlers (fst (rt_step_raw o s))).
Proof.
  intros Hk. destruct o as [c n|cd nw n|c|ids loc ex ps|d|t n|t|c sz]; simpl; try assumption.
  - destruct (hget c (rt_handlers s)); simpl; [assumption|apply hset_keys, Hk].
  - destruct (hget cd (rt_handlers s)); simpl; [assumption|apply hset_keys, hset_keys, Hk].
  - apply hdel_keys, Hk.
  - apply set_all_keys, Hk.
  - destruct (hget c (rt_handlers s)) as [[n|j|]|]; simpl; assumption.
Qed.

Lemma raw_cover o s : rop_ok o ->
  (forall k h, In (k, h) (rt_handlers s) -> closed_kind h -> exists t ids, In (t, ids, h) (rt_timers s) /\ In k ids) ->
  (forall k h, In (k, h) (rt_handlers (fst (rt_step_raw o s))) -> closed_kind h ->
     exists t ids, In (t, ids, h) (rt_timers (fst (rt_step_raw o s))) /\ In k ids).
Proof.
  intros Hok Hc. destruct o as [c n|cd nw n|c|ids loc ex ps|d|t n|t|c sz]; simpl.
  - destruct (hget c (rt_handlers s)); simpl; [assumption|]. intros k h Hin Hcl.
    apply hset_in in Hin as [[-> ->]|[Hin _]]; [destruct Hcl|eauto].
  - destruct (hget cd (rt_handlers s)); simpl; [assumption|]. intros k h Hin Hcl.
    apply hset_in in Hin as [[-> ->]|[Hin _]]; [destruct Hcl|].
    apply hset_in in Hin as [[-> ->]|[Hin _]]; [destruct Hcl|eauto].
  - intros k h Hin Hcl. apply hdel_in in Hin as [Hin _]. eauto.
  - intros k h Hin Hcl. apply set_all_in in Hin as [[Hin ->]|Hin].
    + exists (rt_now s + ex), ids. split; [apply in_or_app; right; left; reflexivity|assumption].
    + destruct (Hc _ _ Hin Hcl) as (t & i & Ht & Hk). exists t, i. split; [apply in_or_app; left; assumption|assumption].
  - assumption.
  - assumption.
  - assumption.
  - destruct (hget c (rt_handlers s)) as [[n|j|]|]; simpl; assumption.
Qed.

Lemma raw_timers o s : rop_ok o ->
  (forall t ids k, In (t, ids, k) (rt_timers s) -> rt_now s < t /\ closed_kind k) ->
  forall t ids k, In (t, ids, k) (rt_timers (fst (rt_step_raw o s))) ->
    closed_kind k /\ (In (t, ids, k) (rt_timers s) \/ rt_now s < t).
Proof.
  intros Hok Ht.
  assert (Hold : forall t ids k, In (t, ids, k) (rt_timers s) -> closed_kind k /\ (In (t, ids, k) (rt_timers s) \/ rt_now s < t)).
  { intros t ids k Hin. destruct (Ht _ _ _ Hin). auto. }
  destruct o as [c n|cd nw n|c|ids loc ex ps|d|t0 n|t0|c sz]; simpl; auto.
  - destruct (hget c (rt_handlers s)); simpl; auto.
  - destruct (hget cd (rt_handlers s)); simpl; auto.
  - intros t i k Hin. apply in_app_or in Hin as [Hin|[Heq|[]]]; [auto|]. inversion Heq; subst. simpl in Hok.
    split; [destruct loc; exact I|right; lia].
  - destruct (hget c (rt_handlers s)) as [[n|j|]|]; simpl; auto.
Qed.

Lemma raw_now o s : rop_ok o -> rt_now s <= rt_now (fst (rt_step_raw o s)).
Proof.
  intros Hok. destruct o as [c n|cd nw n|c|ids loc ex ps|d|t n|t|c sz]; simpl in *; try lia.
  - destruct (hget c (rt_handlers s)); simpl; lia.
  - destruct (hget cd (rt_handlers s)); simpl; lia.
  - destruct (hget c (rt_handlers s)) as [[n|j|]|]; simpl; lia.
Qed.

Lemma rt_step_inv o s : rop_ok o -> rinv s -> rinv (fst (rt_step o s)).
Proof.
  intros Hok (Hk & Hc & Ht). unfold rt_step.
  pose proof (raw_cover o s Hok Hc) as Hc1. pose proof (raw_keys o s Hk) as Hk1.
  pose proof (raw_timers o s Hok Ht) as Ht1.
  destruct (rt_step_raw o s) as [s1 r] eqn:E1. simpl in Hc1, Hk1, Ht1.
  destruct (fire (rt_now s1) (rt_timers s1) (rt_handlers s1)) as [tm hs] eqn:Ef.
  destruct (fire_spec _ _ _ _ _ Ef Hk1) as (F1 & F2 & F3 & _). simpl. split; [|split]; simpl.
  - assumption.
  - intros k h Hin Hcl. destruct (F2 _ _ Hin) as [Hin1 Hkeep].
    destruct (Hc1 _ _ Hin1 Hcl) as (t & ids & Htm & Hkk). exists t, ids. split; [|assumption].
    eapply Hkeep; eauto. apply hkind_eqb_refl.
  - intros t ids k Hin. apply F1 in Hin as [Hin Hlt]. split; [assumption|]. apply Ht1 in Hin. tauto.
Qed.

Lemma rinv_init : rinv rt_init.
Proof. split; [constructor|split; simpl; intros; contradiction]. Qed.

Theorem rt_run_inv ops : Forall rop_ok ops -> forall s, rinv s -> rinv (rt_run ops s).
Proof.
  unfold rt_run. induction 1 as [|o ops Ho _ IH]; simpl; intros s Hs; [assumption|].
  apply IH, rt_step_inv; assumption.
Qed.

(** (e) After any history, once time has passed the last pending closing period, no
    connection ID maps to a closed connection any more - and in every state a closed
    stand-in is present only while the closing period that installed it is still running. *)
Theorem routing_closed_expire ops :
  Forall rop_ok ops ->
  let s := rt_run ops rt_init in
  (forall k h, In (k, h) (rt_handlers s) -> closed_kind h ->
     exists t ids, In (t, ids, h) (rt_timers s) /\ In k ids /\ rt_now s < t) /\
  (forall d, 0 <= d -> (forall t ids k, In (t, ids, k) (rt_timers s) -> t <= rt_now s + d) ->
     let s' := fst (rt_step (RAdvance d) s) in
     rt_timers s' = [] /\ forall k h, In (k, h) (rt_handlers s') -> ~ closed_kind h).
Proof.
  intros HF s. pose proof (rt_run_inv ops HF rt_init rinv_init) as Hinv. fold s in Hinv.
  split.
  - destruct Hinv as (_ & Hc & Ht). intros k h Hin Hcl. destruct (Hc _ _ Hin Hcl) as (t & ids & H1 & H2).
    exists t, ids. split; [assumption|split; [assumption|eapply Ht; eauto]].
  - intros d Hd Hall s'.
    assert (Hinv' : rinv s') by (apply rt_step_inv; [exact Hd|assumption]).
    assert (Htm : rt_timers s' = []).
    { unfold s', rt_step. simpl rt_step_raw. cbv iota beta.
      destruct (fire _ _ _) as [tm hs] eqn:Ef. simpl in Ef. simpl.
      destruct Hinv as (Hk & _). destruct (fire_spec _ _ _ _ _ Ef Hk) as (_ & _ & _ & F4). apply F4. assumption. }
    split; [assumption|]. intros k h Hin Hcl. destruct Hinv' as (_ & Hc & _).
    destruct (Hc _ _ Hin Hcl) as (t & ids & H1 & _). rewrite Htm in H1. destruct H1.
Qed.

(** (d) An ID routed to a live connection stays routed to it until an operation names that
    very ID (Remove, ReplaceWithClosed, AddWithConnID as the new ID): in particular the
    expiry of an EARLIER closed stand-in for the same ID does not take it away. *)
Definition touches (o : rop) (c : cid) : Prop :=
  match o with
  | RRemove k => k = c
  | RReplace ids _ _ _ => In c ids
  | RAddWith _ nw _ => nw = c
  | _ => False
  end.

Theorem live_survives o s c n :
  rinv s -> ~ touches o c -> hget c (rt_handlers s) = Some (HConn n) ->
  hget c (rt_handlers (fst (rt_step o s))) = Some (HConn n).
Proof.
  intros (Hk & Hc & Ht) Hnt Hg. unfold rt_step.
  assert (Hraw : hget c (rt_handlers (fst (rt_step_raw o s))) = Some (HConn n) /\
                 rt_timers (fst (rt_step_raw o s)) = rt_timers s ++ match o with RReplace ids loc ex _ => [(rt_now s + ex, ids, if loc then HLocal (rt_nlocal s) else HRemote)] | _ => [] end).
  { destruct o as [k n'|cd nw n'|k|ids loc ex ps|d|t n'|t|k sz]; simpl in *; rewrite ?app_nil_r.
    - destruct (hget k (rt_handlers s)) eqn:E; unfold with_handlers; cbn [fst rt_handlers rt_timers]; [auto|]. split; [|reflexivity].
      rewrite hget_hset_other; [assumption|]. intros ->. congruence.
    - destruct (hget cd (rt_handlers s)) eqn:E; unfold with_handlers; cbn [fst rt_handlers rt_timers]; [auto|]. split; [|reflexivity].
      rewrite hget_hset_other by congruence. rewrite hget_hset_other; [assumption|]. intros ->. congruence.
    - unfold with_handlers; cbn [fst rt_handlers rt_timers]. split; [|reflexivity]. rewrite hget_hdel_other by congruence. assumption.
    - cbn [fst rt_handlers rt_timers]. split; [|reflexivity]. rewrite hget_set_all_other by assumption. assumption.
    - auto.
    - auto.
    - auto.
    - destruct (hget k (rt_handlers s)) as [[m|j|]|]; simpl; auto. }
  destruct (rt_step_raw o s) as [s1 r] eqn:E1. simpl in Hraw. destruct Hraw as [Hg1 Htm1].
  destruct (fire (rt_now s1) (rt_timers s1) (rt_handlers s1)) as [tm hs] eqn:Ef. simpl.
  eapply fire_live; [exact Ef| |exact Hg1].
  intros t ids k Hin. rewrite Htm1 in Hin. apply in_app_or in Hin as [Hin|Hin]; [apply (Ht _ _ _ Hin)|].
  destruct o as [k0 n0|cd nw n0|k0|ids0 loc ex ps|d|t0 n0|t0|k0 sz]; try (destruct Hin; fail).
  destruct Hin as [Heq|[]]. inversion Heq. destruct loc; exact I.
Qed.

Theorem live_survives_history ops o c n :
  Forall rop_ok ops -> ~ touches o c ->
  hget c (rt_handlers (rt_run ops rt_init)) = Some (HConn n) ->
  hget c (rt_handlers (fst (rt_step o (rt_run ops rt_init)))) = Some (HConn n).
Proof. intros HF. apply live_survives. apply rt_run_inv; [assumption|apply rinv_init]. Qed.

(** (d) a connection ID that no Add / AddWithConnID / ReplaceWithClosed ever named is not routed *)
Definition named (o : rop) (c : cid) : Prop :=
  match o with
  | RAdd k _ => k = c
  | RAddWith a b _ => a = c \/ b = c
  | RReplace ids _ _ _ => In c ids
  | _ => False
  end.

Lemma fire_sub now : forall tm hs tm' hs' x h, fire now tm hs = (tm', hs') -> In (x, h) hs' -> In (x, h) hs.
Proof.
  induction tm as [|[[t ids] k] tm IH]; simpl; intros hs tm' hs' x h H Hin.
  - inversion H; subst. assumption.
  - destruct (t <=? now).
    + eapply del_if_in. eapply IH; eauto.
    + destruct (fire now tm hs) as [r' h'] eqn:E. inversion H; subst. eapply IH; eauto.
Qed.

Lemma rt_step_keys o s k h : In (k, h) (rt_handlers (fst (rt_step o s))) -> In k (map fst (rt_handlers s)) \/ named o k.
Proof.
  unfold rt_step. destruct (rt_step_raw o s) as [s1 r] eqn:E1.
  destruct (fire (rt_now s1) (rt_timers s1) (rt_handlers s1)) as [tm hs] eqn:Ef. simpl.
  intros Hin. pose proof (fire_sub _ _ _ _ _ _ _ Ef Hin) as Hin1. clear Hin Ef.
  assert (Hkey : forall x y, In (x, y) (rt_handlers s) -> In x (map fst (rt_handlers s))).
  { intros x y Hx. apply in_map_iff. exists (x, y). auto. }
  destruct o as [c n|cd nw n|c|ids loc ex ps|d|t n|t|c sz]; simpl in E1.
  - destruct (hget c (rt_handlers s)); inversion E1; subst; simpl in *; [eauto|].
    apply hset_in in Hin1 as [[-> _]|[Hin1 _]]; [right; reflexivity|eauto].
  - destruct (hget cd (rt_handlers s)); inversion E1; subst; simpl in *; [eauto|].
    apply hset_in in Hin1 as [[-> _]|[Hin1 _]]; [right; right; reflexivity|].
    apply hset_in in Hin1 as [[-> _]|[Hin1 _]]; [right; left; reflexivity|eauto].
  - inversion E1; subst; simpl in *. apply hdel_in in Hin1 as [Hin1 _]. eauto.
  - inversion E1; subst; simpl in *. apply set_all_in in Hin1 as [[Hin1 _]|Hin1]; [right; assumption|eauto].
  - inversion E1; subst; simpl in *. eauto.
  - inversion E1; subst; simpl in *. eauto.
  - inversion E1; subst; simpl in *. eauto.
  - destruct (hget c (rt_handlers s)) as [[n|j|]|]; inversion E1; subst; simpl in *; eauto.
Qed.

Theorem routing_no_foreign ops : forall s k h,
  In (k, h) (rt_handlers (rt_run ops s)) ->
  In k (map fst (rt_handlers s)) \/ exists o, In o ops /\ named o k.
Proof.
  unfold rt_run. induction ops as [|o ops IH]; simpl; intros s k h Hin.
  - left. apply in_map_iff. exists (k, h). auto.
  - destruct (IH _ _ _ Hin) as [Hk|(o' & Ho & Hn)]; [|right; exists o'; auto].
    apply in_map_iff in Hk as ([k' h'] & Hfst & Hk). simpl in Hfst. subst k'.
    destruct (rt_step_keys _ _ _ _ Hk) as [?|Hn]; [left; assumption|right; exists o; auto].
Qed.

(** closed_conn.go: a locally closed connection answers packet n with CONNECTION_CLOSE iff
    n is a power of two; popcount is bits.OnesCount32 on values below 2^32 *)
Lemma popcount_pos_ge1 p : 1 <= popcount_pos p.
Proof. induction p; cbn [popcount_pos]; lia. Qed.

Lemma popcount_pos_one p : popcount_pos p = 1 <-> exists k : nat, Zpos p = 2 ^ Z.of_nat k.
Proof.
  induction p as [p IH|p IH|]; cbn [popcount_pos].
  - pose proof (popcount_pos_ge1 p). split; [lia|]. intros (k & Hk). exfalso.
    destruct k as [|k]; [simpl in Hk; lia|]. rewrite Nat2Z.inj_succ, Z.pow_succ_r in Hk by lia. lia.
  - rewrite IH. split.
    + intros (k & Hk). exists (S k). rewrite Nat2Z.inj_succ, Z.pow_succ_r by lia. lia.
    + intros (k & Hk). destruct k as [|k]; [simpl in Hk; lia|]. exists k.
      rewrite Nat2Z.inj_succ, Z.pow_succ_r in Hk by lia. lia.
  - split; [intros _; exists O; reflexivity|reflexivity].
Qed.

Local Arguments Z.mul : simpl never.
Local Arguments Z.add : simpl never.

(** closed_conn.go: CONNECTION_CLOSE is retransmitted for packet n iff n is a power of two AND the
    retransmission stays within three times the bytes received for the closed connection *)
Theorem backoff_power_of_two s c j size :
  hget c (rt_handlers s) = Some (HLocal j) ->
  let l := match zget j (rt_locals s) with Some v => v | None => mkL 0 0 0 0 end in
  0 <= l_cnt l -> l_cnt l + 1 < 4294967296 ->
  let r := snd (rt_step (RDeliver c size) s) in
  rr_kind r = 2 /\
  (rr_sent r = 1 <-> (exists k : nat, l_cnt l + 1 = 2 ^ Z.of_nat k) /\
                     l_sent l + l_psize l <= 3 * (l_recv l + size)) /\
  (rr_sent r = 0 \/ rr_sent r = 1).
Proof.
  intros Hg l Hv Hlt. unfold rt_step. simpl rt_step_raw. rewrite Hg.
  destruct (fire _ _ _) as [tm hs]. simpl. fold l.
  rewrite Z.mod_small by lia. split; [reflexivity|]. unfold closedConnAmplificationFactor.
  destruct (l_cnt l + 1) as [|p|p] eqn:Ep; try lia. simpl popcount.
  destruct (Z.eqb_spec (popcount_pos p) 1) as [H1|H1]; simpl.
  - destruct (Z.ltb_spec (3 * (l_recv l + size)) (l_sent l + l_psize l)) as [Hb|Hb]; simpl; split; auto.
    + split; [discriminate|]. intros [_ Hle]. lia.
    + split; [intros _; split; [apply popcount_pos_one; assumption|lia]|reflexivity].
  - split; auto. split; [discriminate|]. intros [Hk _]. apply popcount_pos_one in Hk. contradiction.
Qed.

(** the stand-in never sends more than three times what it received (RFC 9000 10.2.1) *)
Theorem standin_amplification_step s c j size :
  hget c (rt_handlers s) = Some (HLocal j) -> 0 <= size ->
  let l := match zget j (rt_locals s) with Some v => v | None => mkL 0 0 0 0 end in
  0 <= l_psize l -> l_sent l <= 3 * l_recv l ->
  match zget j (rt_locals (fst (rt_step (RDeliver c size) s))) with
  | Some l' => l_sent l' <= 3 * l_recv l' /\ l_psize l' = l_psize l
  | None => False
  end.
Proof.
  intros Hg Hs l Hp Hinv. unfold rt_step. simpl rt_step_raw. rewrite Hg.
  destruct (fire _ _ _) as [tm hs]. simpl. rewrite Z.eqb_refl. fold l. simpl. unfold closedConnAmplificationFactor.
  destruct (popcount _ =? 1); simpl; [|split; [lia|reflexivity]].
  destruct (Z.ltb_spec (3 * (l_recv l + size)) (l_sent l + l_psize l)); simpl; split; try reflexivity; lia.
Qed.

Theorem remote_closed_silent s c size :
  hget c (rt_handlers s) = Some HRemote -> rr_sent (snd (rt_step (RDeliver c size) s)) = 0.
Proof.
  intros Hg. unfold rt_step. simpl rt_step_raw. rewrite Hg. destruct (fire _ _ _). reflexivity.
Qed.
