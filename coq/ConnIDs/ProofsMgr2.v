(** Proofs about the [connIDManager] model, part 2: reset tokens exact; the invariant
    behind "never retire an ID in use / retire exactly once / accept within the limit"
    on every history the connection produces. *)
From Coq Require Import List ZArith Bool Lia.
From V Require Import Gen.Params Lib.Hex ConnIDs.Model ConnIDs.ProofsGen ConnIDs.ProofsMgr.
Import ListNotations.
Open Scope Z_scope.

(* ------------------------------------------------------------------------- *)
(** * Closed flag *)

Lemma add_inner_closed seq rpt c tok d st st' r :
  mgr_add_inner seq rpt c tok d st = (st', r) -> m_closed st' = m_closed st.
Proof.
  unfold mgr_add_inner. destruct (m_acid st); [intros H; inversion H; reflexivity|].
  destruct (pfind seq (m_probing st)); [destruct (_ && _); intros H; inversion H; reflexivity|].
  destruct (negb _ && _); [intros H; inversion H; reflexivity|].
  set (st1 := retire_probing_stage rpt st). set (st2 := retire_queue_stage rpt st1).
  destruct (rps_spec rpt st) as (_ & _ & _ & _ & _ & _ & Hc1 & _). fold st1 in Hc1.
  destruct (rqs_spec rpt st1) as (_ & _ & _ & _ & _ & _ & _ & Hc2 & _). fold st2 in Hc2.
  assert (Hc : m_closed st2 = m_closed st) by congruence.
  destruct (seq =? m_active st2); [intros H; inversion H; subst; assumption|].
  destruct (add_conn_id _ _) as [q'|]; [|intros H; inversion H; subst; assumption].
  destruct (_ <? rpt).
  - destruct (update_conn_id d (set_queue st2 q')) as [st4|] eqn:E4; intros H; inversion H; subst; [|assumption].
    destruct (update_spec _ _ _ E4) as (f & r0 & _ & Hcl & _ & _ & _ & _ & _ & _ & _ & Hcl' & _).
    simpl in Hcl. congruence.
  - intros H; inversion H; subst. assumption.
Qed.

Lemma mgr_step_closed o st : o <> MClose -> m_closed (fst (mgr_step o st)) = m_closed st.
Proof.
  intros Hne. destruct o as [seq rpt c tok draw|c tok|draw|k| | |c|tok|id|id|tok|n]; cbn [mgr_step]; try reflexivity.
  - unfold mgr_add. destruct (mgr_add_inner seq rpt c tok draw st) as [st' r] eqn:E.
    apply add_inner_closed in E. destruct r; simpl; try exact E. destruct (_ <=? _); simpl; exact E.
  - unfold mgr_add_pref. destruct (add_conn_id _ _); reflexivity.
  - unfold mgr_get. destruct (m_closed st) eqn:Ec; [simpl; (assumption || reflexivity)|]. destruct (should_update st); [|simpl; (assumption || reflexivity)].
    destruct (update_conn_id draw st) as [st'|] eqn:E; [|simpl; (assumption || reflexivity)]. simpl.
    destruct (update_spec _ _ _ E) as (f & r0 & _ & _ & _ & _ & _ & _ & _ & _ & _ & Hcl' & _). congruence.
  - congruence.
  - unfold mgr_change_initial. destruct (_ =? _); reflexivity.
  - unfold mgr_set_token. destruct (m_closed st) eqn:Ec; [simpl; (assumption || reflexivity)|]. destruct (_ =? _); simpl; (assumption || reflexivity).
  - unfold mgr_path_get. destruct (m_closed st) eqn:Ec; [simpl; (assumption || reflexivity)|]. destruct (m_acid st); [simpl; (assumption || reflexivity)|].
    destruct (plookup id (m_probing st)); [simpl; (assumption || reflexivity)|]. destruct (m_queue st); simpl; (assumption || reflexivity).
  - unfold mgr_path_retire. destruct (m_closed st) eqn:Ec; [simpl; (assumption || reflexivity)|]. destruct (m_acid st); [simpl; (assumption || reflexivity)|].
    destruct (plookup id (m_probing st)); simpl; (assumption || reflexivity).
Qed.

(* ------------------------------------------------------------------------- *)
(** * The advertised limit is only changed by SetConnectionIDLimit *)

Lemma rps_adv rpt st : m_advlimit (retire_probing_stage rpt st) = m_advlimit st.
Proof. unfold retire_probing_stage. destruct (rpt =? 0); [reflexivity|]. destruct (retire_probing_below _ _ _); reflexivity. Qed.

Lemma rqs_adv rpt st : m_advlimit (retire_queue_stage rpt st) = m_advlimit st.
Proof. unfold retire_queue_stage. destruct (_ <? rpt); [|reflexivity]. destruct (retire_queue_below _ _ _); reflexivity. Qed.

Lemma update_adv d st st' : update_conn_id d st = Some st' -> m_advlimit st' = m_advlimit st.
Proof.
  unfold update_conn_id. destruct (m_closed st); [discriminate|]. destruct (m_queue st); [discriminate|].
  intros H; inversion H; reflexivity.
Qed.

Lemma add_inner_adv seq rpt c tok d st st' r :
  mgr_add_inner seq rpt c tok d st = (st', r) -> m_advlimit st' = m_advlimit st.
Proof.
  unfold mgr_add_inner. destruct (m_acid st); [intros H; inversion H; reflexivity|].
  destruct (pfind seq (m_probing st)); [destruct (_ && _); intros H; inversion H; reflexivity|].
  destruct (negb _ && _); [intros H; inversion H; reflexivity|].
  set (st2 := retire_queue_stage rpt (retire_probing_stage rpt st)).
  assert (Hc : m_advlimit st2 = m_advlimit st) by (unfold st2; rewrite rqs_adv, rps_adv; reflexivity).
  destruct (seq =? m_active st2); [intros H; inversion H; subst; assumption|].
  destruct (add_conn_id _ _) as [q'|]; [|intros H; inversion H; subst; assumption].
  destruct (m_active (set_queue st2 q') <? rpt).
  - destruct (update_conn_id d (set_queue st2 q')) as [st4|] eqn:E4; intros H; inversion H; subst; [|assumption].
    rewrite (update_adv _ _ _ E4). assumption.
  - intros H; inversion H; subst. assumption.
Qed.

Definition sets_limit (o : mop) : option Z := match o with MSetLimit n => Some n | _ => None end.

(** the limit the manager enforces follows the last SetConnectionIDLimit call *)
Theorem mgr_step_adv o st :
  m_advlimit (fst (mgr_step o st)) = match sets_limit o with Some n => n | None => m_advlimit st end.
Proof.
  destruct o as [seq rpt c tok draw|c tok|draw|k| | |c|tok|id|id|tok|n]; cbn [mgr_step sets_limit]; try reflexivity.
  - unfold mgr_add. destruct (mgr_add_inner seq rpt c tok draw st) as [st' r] eqn:E.
    apply add_inner_adv in E. destruct r; simpl; try exact E. destruct (_ <=? _); simpl; exact E.
  - unfold mgr_add_pref. destruct (add_conn_id _ _); reflexivity.
  - unfold mgr_get. destruct (m_closed st); [reflexivity|]. destruct (should_update st); [|reflexivity].
    destruct (update_conn_id draw st) as [st'|] eqn:E; [|reflexivity]. simpl. apply (update_adv _ _ _ E).
  - unfold mgr_change_initial. destruct (_ =? _); reflexivity.
  - unfold mgr_set_token. destruct (m_closed st); [reflexivity|]. destruct (_ =? _); reflexivity.
  - unfold mgr_path_get. destruct (m_closed st); [reflexivity|]. destruct (m_acid st); [reflexivity|].
    destruct (plookup id (m_probing st)); [reflexivity|]. destruct (m_queue st); reflexivity.
  - unfold mgr_path_retire. destruct (m_closed st); [reflexivity|]. destruct (m_acid st); [reflexivity|].
    destruct (plookup id (m_probing st)); reflexivity.
Qed.

(* ------------------------------------------------------------------------- *)
(** * (d) reset tokens: registered == in use, none left after Close *)

(** The connection never uses the manager after Close and learns the peer's
    transport-parameter token at most once. *)
Definition tok_ok (o : mop) (st : mgr) : Prop :=
  m_closed st = false /\
  match o with
  | MSetTok _ => m_atok st = None
  | MClose => False
  | _ => True
  end.

Lemma tau_step o st t : pids_ok st -> tok_ok o st -> tau (fst (mgr_step o st)) t = tau st t.
Proof.
  intros Hp [Hcl Hok].
  destruct o as [seq rpt c tok draw|c tok|draw|k| | |c|tok|id|id|tok|n]; cbn [mgr_step]; try reflexivity.
  - destruct (mgr_add seq rpt c tok draw st) as [st' r] eqn:E. cbn [fst].
    destruct (add_phi _ _ _ _ _ _ _ _ E) as (_ & _ & H). apply H.
  - unfold mgr_add_pref. destruct (add_conn_id _ _); reflexivity.
  - unfold mgr_get. rewrite Hcl. destruct (should_update st); [|reflexivity].
    destruct (update_conn_id draw st) as [st'|] eqn:E; [|reflexivity]. cbn [fst]. apply (update_tau _ _ _ E).
  - destruct Hok.
  - unfold mgr_change_initial. destruct (_ =? _); reflexivity.
  - unfold mgr_set_token. rewrite Hcl. destruct (_ =? _); [|reflexivity]. cbn [fst].
    unfold tau, inuse. simpl. rewrite Hok. lia.
  - unfold mgr_path_get. rewrite Hcl. destruct (m_acid st); [reflexivity|].
    destruct (plookup id (m_probing st)); [reflexivity|]. destruct (m_queue st) as [|f r]; [reflexivity|]. cbn [fst].
    unfold tau, inuse. simpl. unfold ptoks. rewrite map_app, cntz_app. simpl. lia.
  - unfold mgr_path_retire. rewrite Hcl. destruct (m_acid st); [reflexivity|].
    destruct (plookup id (m_probing st)) as [e|] eqn:El; [|reflexivity]. cbn [fst].
    destruct (pdelete_cnt _ _ _ Hp El) as [_ Ht]. specialize (Ht t).
    unfold tau, inuse. simpl. lia.
Qed.

Lemma close_log_tokc t : forall p log,
  tokc t (fold_left (fun l (pe : Z * ncid) => EvRemTok (n_tok (snd pe)) :: l) p log) = tokc t log - cntz t (ptoks p).
Proof.
  induction p as [|x p IH]; simpl; intros log; [lia|]. rewrite IH. simpl. lia.
Qed.

Theorem tokens_exact init ops st :
  reachP tok_ok init ops st ->
  m_closed st = false /\
  (forall t, tokc t (m_log st) = inuse st t) /\
  (forall t, tokc t (m_log (mgr_close st)) = 0).
Proof.
  intros Hr.
  assert (H : m_closed st = false /\ forall t, tau st t = 0).
  { induction Hr as [|o ops st Hr [IHc IHt] Hok].
    - split; [reflexivity|]. intros t. unfold tau, inuse. simpl. lia.
    - split.
      + rewrite mgr_step_closed; [assumption|]. destruct Hok as [_ Hok]. intros ->. exact Hok.
      + intros t. rewrite tau_step; [apply IHt| |assumption].
        eapply reach_pids; eauto. }
  destruct H as [Hc Ht]. split; [assumption|]. split.
  - intros t. specialize (Ht t). unfold tau in Ht. lia.
  - intros t. specialize (Ht t). unfold tau, inuse in Ht. unfold mgr_close. simpl.
    rewrite close_log_tokc. destruct (m_atok st); simpl; lia.
Qed.

(* ------------------------------------------------------------------------- *)
(** * Sorted lists of sequence numbers *)

Fixpoint sorted (l : list Z) : Prop :=
  match l with
  | [] => True
  | x :: r => (forall y, In y r -> x < y) /\ sorted r
  end.

Lemma sorted_cnt_le1 s l : sorted l -> cntz s l <= 1.
Proof.
  induction l as [|x l IH]; simpl; [lia|]. intros [Hlt Hs]. specialize (IH Hs).
  destruct (Z.eqb_spec x s) as [->|Hne]; cbn [b2z]; [|lia].
  rewrite cntz_notin; [lia|]. intros Hin. specialize (Hlt _ Hin). lia.
Qed.

Lemma sorted_filter (g : ncid -> bool) q : sorted (qseqs q) -> sorted (qseqs (filter g q)).
Proof.
  induction q as [|x q IH]; simpl; [auto|]. intros [Hlt Hs]. destruct (g x); simpl; [|auto]. split; [|auto].
  intros y Hy. apply Hlt. unfold qseqs in *. apply in_map_iff in Hy as (e & <- & He). apply filter_In in He as [He _].
  apply in_map. assumption.
Qed.

Lemma sorted_snoc l z : sorted l -> (forall y, In y l -> y < z) -> sorted (l ++ [z]).
Proof.
  induction l as [|x l IH]; simpl; intros Hs Hlt.
  - split; [intros y []|exact I].
  - destruct Hs as [Hx Hs]. split.
    + intros y Hy. apply in_app_or in Hy as [Hy|[<-|[]]]; [auto|]. apply Hlt. left; reflexivity.
    + apply IH; auto.
Qed.

Lemma sorted_le_last q d : q <> [] -> sorted (qseqs q) -> forall x, In x q -> n_seq x <= n_seq (last q d).
Proof.
  induction q as [|a q IH]; [congruence|]. intros _ [Hlt Hs] x Hx.
  destruct q as [|b q].
  - destruct Hx as [<-|[]]. simpl. lia.
  - change (last (a :: b :: q) d) with (last (b :: q) d).
    assert (Hb : forall y, In y (b :: q) -> n_seq y <= n_seq (last (b :: q) d)) by (apply IH; [discriminate|assumption]).
    destruct Hx as [<-|Hx]; [|auto].
    specialize (Hb b (or_introl eq_refl)). specialize (Hlt (n_seq b)). simpl in Hlt. specialize (Hlt (or_introl eq_refl)). lia.
Qed.

Lemma add_slow_sorted e : forall q q',
  sorted (qseqs q) -> add_slow e q = Some q' ->
  sorted (qseqs q') /\ (forall x, In x (qseqs q') -> x = n_seq e \/ In x (qseqs q)).
Proof.
  induction q as [|x q IH]; intros q' Hs H.
  - inversion H; subst. split; [exact I|intros y []].
  - cbn [add_slow] in H. destruct (Z.eqb_spec (n_seq x) (n_seq e)) as [Heq|Hne].
    + destruct (_ && _); [|discriminate]. inversion H; subst. auto.
    + destruct (Z.ltb_spec (n_seq e) (n_seq x)) as [Hlt|Hge].
      * inversion H; subst. split.
        -- simpl. split; [|exact Hs]. destruct Hs as [Hx _]. intros y [<-|Hy]; [assumption|]. specialize (Hx _ Hy). lia.
        -- intros y [<-|Hy]; auto.
      * destruct (add_slow e q) as [r'|] eqn:E; [|discriminate]. inversion H; subst.
        destruct Hs as [Hx Hs]. destruct (IH _ Hs eq_refl) as [Hs' Hin]. split.
        -- simpl. split; [|assumption]. intros y Hy. destruct (Hin _ Hy) as [->|Hy']; [lia|auto].
        -- intros y [<-|Hy]; [right; left; reflexivity|]. destruct (Hin _ Hy) as [->|Hy']; [auto|right; right; assumption].
Qed.

Lemma add_conn_id_sorted e q q' :
  sorted (qseqs q) -> add_conn_id e q = Some q' ->
  sorted (qseqs q') /\ (forall x, In x (qseqs q') -> x = n_seq e \/ In x (qseqs q)).
Proof.
  unfold add_conn_id. destruct q as [|x q].
  - intros _ H; inversion H; subst. simpl. split; [split; [intros y []|exact I]|]. intros y [<-|[]]; auto.
  - destruct (Z.ltb_spec (n_seq (last (x :: q) e)) (n_seq e)) as [Hlt|Hge]; [|apply add_slow_sorted].
    intros Hs H; injection H as <-. unfold qseqs. change (x :: q ++ [e]) with ((x :: q) ++ [e]). rewrite map_app. change (map n_seq [e]) with [n_seq e]. split.
    + apply sorted_snoc; [assumption|]. intros y Hy. apply in_map_iff in Hy as (z & <- & Hz).
      pose proof (sorted_le_last (x :: q) e ltac:(discriminate) Hs z Hz). lia.
    + intros y Hy. apply in_app_or in Hy as [Hy|[<-|[]]]; auto.
Qed.

Lemma cntz_filter_ge rpt s q :
  cntz s (qseqs (filter (fun e => rpt <=? n_seq e) q)) = if rpt <=? s then cntz s (qseqs q) else 0.
Proof.
  induction q as [|x q IH]; simpl; [destruct (rpt <=? s); reflexivity|].
  destruct (Z.leb_spec rpt (n_seq x)) as [Hx|Hx]; simpl; rewrite IH.
  - destruct (Z.eqb_spec (n_seq x) s) as [<-|Hne]; cbn [b2z].
    + destruct (Z.leb_spec rpt (n_seq x)); lia.
    + destruct (rpt <=? s); lia.
  - destruct (Z.eqb_spec (n_seq x) s) as [<-|Hne]; cbn [b2z].
    + destruct (Z.leb_spec rpt (n_seq x)); lia.
    + destruct (rpt <=? s); lia.
Qed.

(* ------------------------------------------------------------------------- *)
(** * The invariant *)

Record core (st : mgr) : Prop := mkCore {
  c_sorted : sorted (qseqs (m_queue st));
  c_qgt : forall q, In q (qseqs (m_queue st)) -> m_active st < q /\ m_hprobe st < q;
  c_ple : forall p, In p (pseqs (m_probing st)) -> p <= m_hprobe st;
  c_one : forall s, In s (held st) -> phi st s = 1;
  c_ret : forall s, 1 <= retc s (m_log st) -> s < m_active st \/ s <= m_hprobe st \/ s < m_hretired st
}.

Lemma core_init i : core (mgr_init i).
Proof.
  constructor.
  - exact I.
  - intros q [].
  - intros p [].
  - intros x [<-|[]]. unfold phi, held. simpl. lia.
  - intros x H. simpl in H. lia.
Qed.

(** states that agree on everything [core] looks at *)
Lemma core_ext st st' :
  m_queue st' = m_queue st -> m_active st' = m_active st -> m_hprobe st' = m_hprobe st ->
  m_probing st' = m_probing st -> m_hretired st' = m_hretired st ->
  (forall s, retc s (m_log st') = retc s (m_log st)) ->
  core st -> core st'.
Proof.
  intros Hq Ha Hh Hp Hr Hl [C1 C2 C3 C4 C5].
  assert (Hheld : held st' = held st) by (unfold held; congruence).
  constructor.
  - rewrite Hq. assumption.
  - rewrite Hq, Ha, Hh. assumption.
  - rewrite Hp, Hh. assumption.
  - intros s. unfold phi. rewrite Hheld, Hl. apply C4.
  - intros s. rewrite Hl, Ha, Hh, Hr. apply C5.
Qed.

Lemma core_emit st seq :
  core st -> ~ In seq (held st) -> (seq < m_active st \/ seq <= m_hprobe st \/ seq < m_hretired st) ->
  core (emit st (EvRetire seq)).
Proof.
  intros [C1 C2 C3 C4 C5] Hni Hlow. constructor; try assumption.
  - intros s Hin. assert (Hh : held (emit st (EvRetire seq)) = held st) by reflexivity. rewrite Hh in Hin.
    unfold phi. rewrite Hh. change (m_log (emit st (EvRetire seq))) with (EvRetire seq :: m_log st). cbn [retc].
    destruct (Z.eqb_spec seq s) as [->|Hne]; [contradiction|]. cbn [b2z]. specialize (C4 s Hin). unfold phi in C4. lia.
  - intros s. change (m_log (emit st (EvRetire seq))) with (EvRetire seq :: m_log st). cbn [retc].
    change (m_active (emit st (EvRetire seq))) with (m_active st). change (m_hprobe (emit st (EvRetire seq))) with (m_hprobe st).
    change (m_hretired (emit st (EvRetire seq))) with (m_hretired st).
    destruct (Z.eqb_spec seq s) as [->|Hne]; cbn [b2z]; [intros _; assumption|].
    intros H. apply C5. lia.
Qed.

Lemma in_pseqs_incl p p' : (forall x, In x p' -> In x p) -> forall s, In s (pseqs p') -> In s (pseqs p).
Proof.
  intros H s Hs. unfold pseqs in *. apply in_map_iff in Hs as (x & <- & Hx). apply in_map_iff. exists x. auto.
Qed.

Lemma core_rps rpt st : core st -> core (retire_probing_stage rpt st).
Proof.
  intros [C1 C2 C3 C4 C5].
  destruct (rps_spec rpt st) as (Hq & Ha & Hh & Hr & _ & _ & _ & Hin & Hcons & Hphi & _).
  set (st1 := retire_probing_stage rpt st) in *.
  constructor.
  - rewrite Hq. assumption.
  - rewrite Hq, Ha, Hh. assumption.
  - rewrite Hh. intros p Hp. apply C3. eapply in_pseqs_incl; eauto.
  - intros s Hs. rewrite Hphi. apply C4. unfold held in *. rewrite Ha, Hq in Hs.
    destruct Hs as [Hs|Hs]; [left; assumption|right]. apply in_app_or in Hs as [Hs|Hs]; apply in_or_app; [left; assumption|right].
    eapply in_pseqs_incl; eauto.
  - intros s Hs. rewrite Ha, Hh, Hr. specialize (Hcons s).
    destruct (Z_le_gt_dec 1 (retc s (m_log st))) as [H1|H0]; [apply C5; assumption|].
    right; left. apply C3. apply cntz_in. pose proof (cntz_nonneg s (pseqs (m_probing st1))). lia.
Qed.

Lemma core_rqs rpt st : core st ->
  core (retire_queue_stage rpt st) /\
  (m_hretired st < rpt -> forall q, In q (qseqs (m_queue (retire_queue_stage rpt st))) -> rpt <= q) /\
  (forall q, In q (qseqs (m_queue (retire_queue_stage rpt st))) -> In q (qseqs (m_queue st))).
Proof.
  intros [C1 C2 C3 C4 C5].
  destruct (rqs_spec rpt st) as (Hq & Hr & Ha & Hh & Hp & _ & _ & _ & Hcons & Hphi & _).
  set (st2 := retire_queue_stage rpt st) in *.
  assert (Hsub : forall q, In q (qseqs (m_queue st2)) -> In q (qseqs (m_queue st))).
  { rewrite Hq. destruct (m_hretired st <? rpt); [|auto]. intros q Hin. unfold qseqs in *.
    apply in_map_iff in Hin as (e & <- & He). apply filter_In in He as [He _]. apply in_map. assumption. }
  split; [|split; [|assumption]].
  - constructor.
    + rewrite Hq. destruct (m_hretired st <? rpt); [apply sorted_filter|]; assumption.
    + rewrite Ha, Hh. intros q Hin. apply C2, Hsub, Hin.
    + rewrite Hp, Hh. assumption.
    + intros s Hs. rewrite Hphi. apply C4. unfold held in *. rewrite Ha, Hp in Hs.
      destruct Hs as [Hs|Hs]; [left; assumption|right]. apply in_app_or in Hs as [Hs|Hs]; apply in_or_app; [left; auto|right; assumption].
    + intros s Hs. rewrite Ha, Hh, Hr. specialize (Hcons s).
      destruct (Z.ltb_spec (m_hretired st) rpt) as [Hlt|Hge].
      * destruct (Z_le_gt_dec 1 (retc s (m_log st))) as [H1|H0].
        { destruct (C5 s H1) as [?|[?|?]]; [auto|auto|right; right; lia]. }
        rewrite Hq in Hcons. destruct (Z.ltb_spec (m_hretired st) rpt); [|lia].
        rewrite cntz_filter_ge in Hcons. destruct (Z.leb_spec rpt s); [lia|]. right; right. assumption.
      * rewrite Hq in Hcons. destruct (Z.ltb_spec (m_hretired st) rpt); [lia|]. apply C5. lia.
  - intros Hlt q Hin. rewrite Hq in Hin. destruct (Z.ltb_spec (m_hretired st) rpt); [|lia].
    unfold qseqs in Hin. apply in_map_iff in Hin as (e & <- & He). apply filter_In in He as [_ He]. lia.
Qed.

Lemma core_insert st seq c tok q' :
  core st -> m_active st < seq -> m_hprobe st < seq -> retc seq (m_log st) = 0 ->
  ~ In seq (pseqs (m_probing st)) ->
  add_conn_id (mkN seq c tok) (m_queue st) = Some q' ->
  core (set_queue st q') /\
  (forall x, In x (qseqs q') -> x = seq \/ In x (qseqs (m_queue st))) /\ In seq (qseqs q').
Proof.
  intros [C1 C2 C3 C4 C5] Hact Hhp Hret Hnp Hadd.
  destruct (add_conn_id_sorted _ _ _ C1 Hadd) as [Hs Hin]. simpl in Hin.
  destruct (add_conn_id_cnt _ _ _ Hadd) as [Hc H1]. simpl in Hc, H1.
  split; [|split; [assumption|apply cntz_in; assumption]].
  constructor; try assumption.
  - intros q Hq. destruct (Hin _ Hq) as [->|Hq']; [simpl; lia|apply C2; assumption].
  - intros s Hs'.
    assert (Hh3 : held (set_queue st q') = m_active st :: qseqs q' ++ pseqs (m_probing st)) by reflexivity.
    rewrite Hh3 in Hs'. unfold phi. rewrite Hh3. change (m_log (set_queue st q')) with (m_log st).
    cbn [cntz]. rewrite cntz_app.
    pose proof (sorted_cnt_le1 s _ Hs) as Hle1. pose proof (Hc s) as Hcs.
    destruct (Z.eq_dec seq s) as [Heq|Hne].
    + subst s. rewrite Z.eqb_refl in Hcs. cbn [b2z] in Hcs. rewrite Hret.
      destruct (Z.eqb_spec (m_active st) seq); [lia|]. cbn [b2z].
      rewrite (cntz_notin seq (pseqs (m_probing st))) by assumption. lia.
    + apply Z.eqb_neq in Hne as Hne'. rewrite Hne' in Hcs. cbn [b2z] in Hcs.
      assert (Heq : cntz s (qseqs q') = cntz s (qseqs (m_queue st))) by lia. rewrite Heq.
      specialize (C4 s). unfold phi, held in C4. cbn [cntz] in C4. rewrite cntz_app in C4. apply C4.
      destruct Hs' as [?|Hs']; [left; assumption|right]. apply in_app_or in Hs' as [Hs'|Hs']; apply in_or_app; [left|right; assumption].
      apply cntz_in. apply cntz_in in Hs'. lia.
Qed.

Lemma core_update d st st' :
  core st -> update_conn_id d st = Some st' ->
  core st' /\ In (m_active st') (qseqs (m_queue st)) /\ m_hretired st' = Z.max (m_hretired st) (m_active st).
Proof.
  intros [C1 C2 C3 C4 C5] H.
  pose proof (update_phi _ _ _ H) as Hphi.
  destruct (update_spec _ _ _ H) as (f & r & Hq & _ & Hq' & Ha & Hr & Hh & Hp & _ & _ & _ & _ & Hret & _).
  rewrite Hq in C1, C2. simpl in C1, C2. destruct C1 as [Hlt Hs].
  split; [|split; [rewrite Ha, Hq; left; reflexivity|assumption]].
  constructor.
  - rewrite Hq'. assumption.
  - rewrite Hq', Ha, Hh. intros q Hin. split; [apply Hlt, Hin|]. apply C2. right; assumption.
  - rewrite Hp, Hh. assumption.
  - intros s Hin. rewrite Hphi. apply C4. unfold held in *. rewrite Ha, Hq', Hp in Hin. rewrite Hq. simpl.
    destruct Hin as [<-|Hin]; [right; left; reflexivity|]. right. right. assumption.
  - intros s Hs1. rewrite Ha, Hh, Hr. rewrite Hret in Hs1.
    destruct (C2 (n_seq f) (or_introl eq_refl)) as [Haf _].
    destruct (Z.eq_dec (m_active st) s) as [Heq|Hne]; [left; lia|].
    apply Z.eqb_neq in Hne. rewrite Hne in Hs1. cbn [b2z] in Hs1.
    destruct (C5 s) as [?|[?|?]]; [lia|left; lia|auto|right; right; lia].
Qed.

(* ------------------------------------------------------------------------- *)
(** * Histories the theorems are about *)

(** What the connection does: frames as the parser delivers them (Retire Prior To <=
    Sequence Number), nothing after Close or after a frame error. (Before the repair of
    conn_id_manager.go:83 the theorems below needed the extra hypothesis that no frame
    repeats a sequence number handed to path probing; see the regression examples.) *)
Definition op_ok (o : mop) (st : mgr) : Prop :=
  m_closed st = false /\ r_cls (snd (mgr_step o st)) = ROk /\
  match o with
  | MAdd seq rpt _ _ _ => 0 <= rpt <= seq
  | MAddPref _ _ => m_active st = 0 /\ m_hprobe st = 0
  | MSetTok _ => m_atok st = None
  | MClose => False
  | _ => True
  end.

Lemma op_ok_tok_ok o st : op_ok o st -> tok_ok o st.
Proof. intros (Hc & _ & H). split; [assumption|]. destruct o; auto. Qed.

Definition minv (st : mgr) : Prop :=
  core st /\ m_hretired st <= m_active st /\ pids_ok st /\ m_closed st = false.

Lemma minv_init i : minv (mgr_init i).
Proof. split; [apply core_init|split; [simpl; lia|split; [unfold pids_ok; simpl; constructor|reflexivity]]]. Qed.

Lemma held_cases st s : In s (held st) -> s = m_active st \/ In s (qseqs (m_queue st)) \/ In s (pseqs (m_probing st)).
Proof. unfold held. intros [<-|H]; [auto|]. apply in_app_or in H. tauto. Qed.

(** [add] preserves the invariant (for every parsable frame, repeated or not) *)
Lemma add_inner_inv seq rpt c tok d st st' r :
  minv st -> 0 <= rpt <= seq ->
  mgr_add_inner seq rpt c tok d st = (st', r) ->
  r <> RPanic /\ (m_acid st <> [] -> r <> RProto) /\
  (r = ROk -> core st' /\ m_hretired st' <= m_active st').
Proof.
  intros (Hcore & HF & Hpid & Hcl) Hv H.
  unfold mgr_add_inner in H. destruct (m_acid st) eqn:Hacid.
  { inversion H; subst. split; [discriminate|split; [congruence|discriminate]]. }
  destruct (pfind seq (m_probing st)) as [e|] eqn:Epf.
  { destruct (_ && _); inversion H; subst; (split; [discriminate|split; [intros _; discriminate|]]);
      [intros _; split; assumption|discriminate]. }
  apply pfind_none in Epf. rename Epf into Hsp.
  destruct (negb (seq =? m_active st) && ((seq <? m_active st) || (seq <=? m_hprobe st) || (seq <? m_hretired st))) eqn:Eimm.
  { inversion H; subst; clear H. split; [discriminate|split; [intros _; discriminate|intros _; split; [|assumption]]].
    apply andb_prop in Eimm as [En Elow]. apply negb_true_iff in En. apply Z.eqb_neq in En.
    assert (Hlow : seq < m_active st \/ seq <= m_hprobe st \/ seq < m_hretired st).
    { apply orb_prop in Elow as [Elow|E3]; [apply orb_prop in Elow as [E1|E2]|].
      - left. apply Z.ltb_lt. assumption.
      - right; left. apply Z.leb_le. assumption.
      - right; right. apply Z.ltb_lt. assumption. }
    apply core_emit; [assumption| |assumption].
    intros Hin. apply held_cases in Hin as [->|[Hin|Hin]].
    - congruence.
    - destruct (c_qgt _ Hcore _ Hin). lia.
    - contradiction. }
  assert (Hthr : seq = m_active st \/ (m_active st < seq /\ m_hprobe st < seq /\ m_hretired st <= seq)).
  { apply andb_false_iff in Eimm as [En|Elow].
    - left. apply negb_false_iff in En. apply Z.eqb_eq. assumption.
    - apply orb_false_elim in Elow as [Elow E3]. apply orb_false_elim in Elow as [E1 E2].
      apply Z.ltb_ge in E1, E3. apply Z.leb_gt in E2.
      destruct (Z.eq_dec seq (m_active st)); [left; assumption|right; lia]. }
  set (st1 := retire_probing_stage rpt st) in *.
  set (st2 := retire_queue_stage rpt st1) in *.
  pose proof (core_rps rpt st Hcore) as Hcore1. fold st1 in Hcore1.
  destruct (core_rqs rpt st1 Hcore1) as (Hcore2 & Hge2 & Hsub2). fold st2 in Hcore2, Hge2, Hsub2.
  destruct (rps_spec rpt st) as (Hq1 & Ha1 & Hh1 & Hr1 & _ & _ & Hc1 & Hin1 & Hcons1 & _). fold st1 in Hq1, Ha1, Hh1, Hr1, Hc1, Hin1, Hcons1.
  destruct (rqs_spec rpt st1) as (Hq2 & Hr2 & Ha2 & Hh2 & Hp2 & _ & _ & Hc2 & Hcons2 & _). fold st2 in Hq2, Hr2, Ha2, Hh2, Hp2, Hc2, Hcons2.
  assert (Ha : m_active st2 = m_active st) by congruence.
  assert (Hh : m_hprobe st2 = m_hprobe st) by congruence.
  assert (Hhr2 : m_hretired st2 = if m_hretired st <? rpt then rpt else m_hretired st) by (rewrite Hr2, Hr1; reflexivity).
  destruct (Z.eqb_spec seq (m_active st2)) as [Heq|Hne].
  { inversion H; subst st' r; clear H. split; [discriminate|split; [intros _; discriminate|intros _; split; [assumption|]]].
    rewrite Hhr2, Ha. destruct (m_hretired st <? rpt); lia. }
  destruct Hthr as [Hx|(Hact0 & Hhp0 & Hhr0)]; [congruence|].
  assert (Hact : m_active st2 < seq) by lia.
  assert (Hhp : m_hprobe st2 < seq) by lia.
  assert (Hnp : ~ In seq (pseqs (m_probing st2))).
  { rewrite Hp2. intros Hin. apply Hsp. eapply in_pseqs_incl; eauto. }
  assert (Hret : retc seq (m_log st2) = 0).
  { pose proof (retc_nonneg seq (m_log st2)). destruct (Z_le_gt_dec 1 (retc seq (m_log st2))) as [H1|]; [|lia].
    destruct (c_ret _ Hcore2 _ H1) as [?|[?|?]]; [lia|lia|].
    rewrite Hhr2 in *. destruct (m_hretired st <? rpt); lia. }
  destruct (add_conn_id (mkN seq c tok) (m_queue st2)) as [q'|] eqn:Eadd.
  2:{ inversion H; subst. split; [discriminate|split; [intros _; discriminate|discriminate]]. }
  destruct (core_insert _ _ _ _ _ Hcore2 Hact Hhp Hret Hnp Eadd) as (Hcore3 & Hin3 & Hseq3).
  set (st3 := set_queue st2 q') in *.
  change (m_active st3) with (m_active st2) in H.
  destruct (Z.ltb_spec (m_active st2) rpt) as [Hlt|Hge].
  - destruct (update_conn_id d st3) as [st4|] eqn:E4.
    + inversion H; subst st' r; clear H. destruct (core_update _ _ _ Hcore3 E4) as (Hcore4 & Hin4 & Hr4).
      split; [discriminate|split; [intros _; discriminate|intros _; split; [assumption|]]].
      rewrite Hr4. change (m_hretired st3) with (m_hretired st2). change (m_active st3) with (m_active st2).
      change (m_queue st3) with q' in Hin4.
      assert (Hlt' : m_hretired st < rpt) by lia.
      rewrite Hhr2. destruct (Z.ltb_spec (m_hretired st) rpt); [|lia].
      destruct (Hin3 _ Hin4) as [Hx|Hq]; [lia|]. rewrite Hr1 in Hge2. specialize (Hge2 Hlt' _ Hq). lia.
    + exfalso. unfold update_conn_id in E4. change (m_closed st3) with (m_closed st2) in E4.
      rewrite Hc2, Hc1, Hcl in E4. change (m_queue st3) with q' in E4. destruct q'; [destruct Hseq3|discriminate].
  - inversion H; subst st' r; clear H. split; [discriminate|split; [intros _; discriminate|intros _; split; [assumption|]]].
    change (m_hretired st3) with (m_hretired st2). change (m_active st3) with (m_active st2).
    rewrite Hhr2, Ha in *. destruct (m_hretired st <? rpt); lia.
Qed.

(* ------------------------------------------------------------------------- *)
(** * Path probing steps *)

Lemma plookup_in id p e : plookup id p = Some e -> In (id, e) p.
Proof.
  induction p as [|[i x] p IH]; simpl; [discriminate|]. destruct (Z.eqb_spec i id) as [->|Hne].
  - intros H; inversion H; subst. left; reflexivity.
  - intros H. right. auto.
Qed.

Lemma pdelete_incl id p x : In x (pdelete id p) -> In x p.
Proof.
  induction p as [|[i e] p IH]; simpl; [auto|]. destruct (i =? id); simpl; [auto|]. intros [?|?]; auto.
Qed.

Lemma core_path_get st id f r :
  core st -> m_queue st = f :: r ->
  core (mkM r (n_seq f) (m_probing st ++ [(id, f)]) (m_hsdone st) (m_active st) (m_hretired st)
            (m_acid st) (m_atok st) (m_since st) (m_ppc st) (m_closed st) (EvAddTok (n_tok f) :: m_log st) (m_advlimit st)).
Proof.
  intros [C1 C2 C3 C4 C5] Hq. rewrite Hq in C1, C2. simpl in C1, C2. destruct C1 as [Hlt Hs].
  destruct (C2 (n_seq f) (or_introl eq_refl)) as [Haf Hhf].
  set (st' := mkM _ _ _ _ _ _ _ _ _ _ _ _ _).
  constructor.
  - simpl. assumption.
  - simpl. intros q Hin. split; [apply C2; right; assumption|apply Hlt, Hin].
  - simpl. intros p Hp. unfold pseqs in Hp. rewrite map_app in Hp. apply in_app_or in Hp as [Hp|[<-|[]]]; simpl; [|lia].
    specialize (C3 p Hp). lia.
  - intros s Hin.
    assert (Hh : held st' = m_active st :: qseqs r ++ pseqs (m_probing st) ++ [n_seq f]).
    { unfold held, st'; simpl. unfold pseqs. rewrite map_app. reflexivity. }
    assert (Hcnt : cntz s (held st') = cntz s (held st)).
    { rewrite Hh. unfold held. rewrite Hq. simpl. rewrite !cntz_app. simpl. lia. }
    unfold phi. rewrite Hcnt. change (m_log st') with (EvAddTok (n_tok f) :: m_log st). cbn [retc].
    apply (C4 s). apply cntz_in. rewrite <- Hcnt. apply cntz_in. exact Hin.
  - simpl. intros s H. destruct (C5 s H) as [?|[?|?]]; [auto|right; left; lia|auto].
Qed.

Lemma core_path_retire st id e :
  core st -> pids_ok st -> plookup id (m_probing st) = Some e ->
  core (mkM (m_queue st) (m_hprobe st) (pdelete id (m_probing st)) (m_hsdone st) (m_active st) (m_hretired st)
            (m_acid st) (m_atok st) (m_since st) (m_ppc st) (m_closed st)
            (EvRemTok (n_tok e) :: EvRetire (n_seq e) :: m_log st) (m_advlimit st)).
Proof.
  intros [C1 C2 C3 C4 C5] Hp El.
  destruct (pdelete_cnt _ _ _ Hp El) as [Hs _].
  assert (Hsub : forall s, In s (pseqs (pdelete id (m_probing st))) -> In s (pseqs (m_probing st))).
  { apply in_pseqs_incl. intros x. apply pdelete_incl. }
  constructor; simpl; try assumption.
  - intros p Hin. apply C3, Hsub, Hin.
  - intros s Hin. specialize (Hs s).
    assert (Hin' : In s (held st)).
    { unfold held in *. simpl in Hin. destruct Hin as [?|Hin]; [left; assumption|right].
      apply in_app_or in Hin as [?|Hin]; apply in_or_app; [left; assumption|right; apply Hsub; assumption]. }
    specialize (C4 s Hin'). unfold phi, held in *. simpl in *. rewrite cntz_app in *. lia.
  - intros s H. destruct (Z.eq_dec (n_seq e) s) as [Heq|Hne].
    + right; left. apply C3. apply plookup_in in El. unfold pseqs. apply in_map_iff. exists (id, e). auto.
    + apply C5. apply Z.eqb_neq in Hne. rewrite Hne in H. cbn [b2z] in H. lia.
Qed.

(* ------------------------------------------------------------------------- *)
(** * The invariant holds along every history the connection produces *)

Lemma step_minv o st : minv st -> op_ok o st -> minv (fst (mgr_step o st)).
Proof.
  intros Hinv (Hcl & Hres & Hok).
  assert (Hne : o <> MClose) by (intros ->; exact Hok).
  pose proof Hinv as (Hcore & HF & Hpid & _).
  split; [|split; [|split; [apply mgr_step_pids; assumption|rewrite mgr_step_closed; assumption]]];
  destruct o as [seq rpt c tok draw|c tok|draw|k| | |c|tok|id|id|tok|n]; cbn [mgr_step] in *; try exact (False_ind _ Hok); try assumption.
  (* core *)
  - unfold mgr_add in *.
    destruct (mgr_add_inner seq rpt c tok draw st) as [st' r] eqn:E.
    destruct (add_inner_inv _ _ _ _ _ _ _ _ Hinv Hok E) as (_ & _ & H).
    destruct r; simpl in Hres; try discriminate. destruct (_ <=? _); simpl in *; [discriminate|]. apply H. reflexivity.
  - destruct Hok as [Ha Hh]. unfold mgr_add_pref in *.
    destruct (add_conn_id (mkN 1 c tok) (m_queue st)) as [q'|] eqn:E; simpl in *; [|discriminate].
    eapply core_insert; eauto; try lia.
    + pose proof (retc_nonneg 1 (m_log st)). destruct (Z_le_gt_dec 1 (retc 1 (m_log st))) as [H1|]; [|lia].
      destruct (c_ret _ Hcore _ H1) as [?|[?|?]]; lia.
    + intros Hin. apply (c_ple _ Hcore) in Hin. lia.
  - unfold mgr_get in *. rewrite Hcl in *. destruct (should_update st); simpl; [|assumption].
    destruct (update_conn_id draw st) as [st'|] eqn:E; simpl; [|assumption].
    apply (core_update _ _ _ Hcore E).
  - simpl. (apply (core_ext st); [reflexivity|reflexivity|reflexivity|reflexivity|reflexivity|intros; reflexivity|exact Hcore]).
  - simpl. (apply (core_ext st); [reflexivity|reflexivity|reflexivity|reflexivity|reflexivity|intros; reflexivity|exact Hcore]).
  - unfold mgr_change_initial. destruct (_ =? _); simpl; [|assumption]. (apply (core_ext st); [reflexivity|reflexivity|reflexivity|reflexivity|reflexivity|intros; reflexivity|exact Hcore]).
  - unfold mgr_set_token. rewrite Hcl. destruct (_ =? _); simpl; [|assumption]. (apply (core_ext st); [reflexivity|reflexivity|reflexivity|reflexivity|reflexivity|intros; reflexivity|exact Hcore]).
  - unfold mgr_path_get. rewrite Hcl. destruct (m_acid st); simpl; [assumption|].
    destruct (plookup id (m_probing st)); simpl; [assumption|]. destruct (m_queue st) as [|f r] eqn:Eq; simpl; [assumption|].
    apply (core_ext (mkM r (n_seq f) (m_probing st ++ [(id, f)]) (m_hsdone st) (m_active st) (m_hretired st)
            (m_acid st) (m_atok st) (m_since st) (m_ppc st) (m_closed st) (EvAddTok (n_tok f) :: m_log st) (m_advlimit st)));
      [reflexivity|reflexivity|reflexivity|reflexivity|reflexivity|intros; reflexivity|apply core_path_get; assumption].
  - unfold mgr_path_retire. rewrite Hcl. destruct (m_acid st); simpl; [assumption|].
    destruct (plookup id (m_probing st)) as [e|] eqn:El; simpl; [|assumption].
    apply (core_ext (mkM (m_queue st) (m_hprobe st) (pdelete id (m_probing st)) (m_hsdone st) (m_active st) (m_hretired st)
            (m_acid st) (m_atok st) (m_since st) (m_ppc st) (m_closed st)
            (EvRemTok (n_tok e) :: EvRetire (n_seq e) :: m_log st) (m_advlimit st)));
      [reflexivity|reflexivity|reflexivity|reflexivity|reflexivity|intros; reflexivity|apply core_path_retire; assumption].
  - simpl. (apply (core_ext st); [reflexivity|reflexivity|reflexivity|reflexivity|reflexivity|intros; reflexivity|exact Hcore]).
  (* highestRetired <= activeSequenceNumber *)
  - unfold mgr_add in *.
    destruct (mgr_add_inner seq rpt c tok draw st) as [st' r] eqn:E.
    destruct (add_inner_inv _ _ _ _ _ _ _ _ Hinv Hok E) as (_ & _ & H).
    destruct r; simpl in Hres; try discriminate. destruct (_ <=? _); simpl in *; [discriminate|]. apply H. reflexivity.
  - unfold mgr_add_pref. destruct (add_conn_id _ _); simpl; assumption.
  - unfold mgr_get in *. rewrite Hcl in *. destruct (should_update st); simpl; [|assumption].
    destruct (update_conn_id draw st) as [st'|] eqn:E; simpl; [|assumption].
    destruct (core_update _ _ _ Hcore E) as (_ & Hin & ->). destruct (c_qgt _ Hcore _ Hin). lia.
  - unfold mgr_change_initial. destruct (_ =? _); simpl; assumption.
  - unfold mgr_set_token. rewrite Hcl. destruct (_ =? _); simpl; assumption.
  - unfold mgr_path_get. rewrite Hcl. destruct (m_acid st); simpl; [assumption|].
    destruct (plookup id (m_probing st)); simpl; [assumption|]. destruct (m_queue st); simpl; assumption.
  - unfold mgr_path_retire. rewrite Hcl. destruct (m_acid st); simpl; [assumption|].
    destruct (plookup id (m_probing st)); simpl; assumption.
Qed.

Theorem reach_minv init ops st : reachP op_ok init ops st -> minv st.
Proof.
  induction 1 as [|o ops st _ IH Hok]; [apply minv_init|apply step_minv; assumption].
Qed.

(* ------------------------------------------------------------------------- *)
(** * (c) retirements reported: never for an ID in use, exactly once per reception *)

Lemma core_held_once st : core st ->
  NoDup (held st) /\ forall s, In s (held st) -> retc s (m_log st) = 0 /\ cntz s (held st) = 1.
Proof.
  intros Hc.
  assert (H : forall s, In s (held st) -> retc s (m_log st) = 0 /\ cntz s (held st) = 1).
  { intros s Hin. pose proof (c_one _ Hc s Hin) as H1. unfold phi in H1.
    pose proof (retc_nonneg s (m_log st)). apply cntz_in in Hin. lia. }
  split; [|assumption]. apply cntz_le1_nodup. intros s.
  destruct (Z_le_gt_dec 1 (cntz s (held st))) as [H1|H0]; [|lia].
  apply cntz_in in H1. destruct (H s H1). lia.
Qed.

Lemma frames_tracked init ops st s :
  reachP op_ok init ops st -> 1 <= frames_for s ops -> 1 <= phi st s.
Proof.
  induction 1 as [|o ops st Hr IH Hok]; simpl; [lia|]. intros Hf.
  assert (Hany : reachP any_op init ops st) by (eapply reachP_weaken; [|eassumption]; intros; exact I).
  destruct (Z_le_gt_dec 1 (frames_for s ops)) as [H1|H0].
  { eapply phi_monotone; eauto. }
  pose proof (frame_of_nonneg o s).
  assert (Hfo : frame_of o s = 1).
  { destruct o; simpl in *; try lia; match goal with |- b2z ?b = 1 => pose proof (b2z_range b); lia end. }
  destruct Hok as (_ & Hres & _).
  destruct o as [seq rpt c tok draw|c tok|draw|k| | |c|tok|id|id|tok|n]; cbn [frame_of] in Hfo; try lia.
  - destruct (Z.eqb_spec seq s) as [Heq|Hne]; cbn [b2z] in Hfo; [subst seq|lia]. cbn [mgr_step] in *.
    destruct (mgr_add s rpt c tok draw st) as [st' r] eqn:E. simpl in *.
    destruct (add_phi _ _ _ _ _ _ _ _ E) as (_ & Hacc & _). apply Hacc. left. assumption.
  - destruct (Z.eqb_spec 1 s) as [Heq|Hne]; cbn [b2z] in Hfo; [subst s|lia]. cbn [mgr_step] in *. unfold mgr_add_pref in *.
    destruct (add_conn_id (mkN 1 c tok) (m_queue st)) as [q'|] eqn:E; simpl in *; [|discriminate].
    destruct (add_conn_id_cnt _ _ _ E) as [_ H1]. simpl in H1.
    unfold phi, held. simpl. rewrite cntz_app. pose proof (retc_nonneg 1 (m_log st)).
    pose proof (cntz_nonneg 1 (pseqs (m_probing st))). pose proof (b2z_range (m_active st =? 1)). lia.
Qed.

(** The retirement theorem. For every history the connection produces (frames as parsed,
    nothing after Close or a frame error):
    - active, queued and probing sequence numbers are pairwise distinct;
    - no RETIRE_CONNECTION_ID was ever queued for a sequence number still held;
    - a sequence number that was received (the initial 0, or in a frame) and is no longer
      held has at least one RETIRE_CONNECTION_ID queued, and at most as many as frames
      were received for it - exactly one if it was received once. *)
Theorem retire_reported_once init ops st :
  reachP op_ok init ops st ->
  NoDup (held st) /\
  (forall s, In s (held st) -> retc s (m_log st) = 0) /\
  (forall s, ~ In s (held st) -> s = 0 \/ 1 <= frames_for s ops ->
             1 <= retc s (m_log st) <= b2z (0 =? s) + frames_for s ops).
Proof.
  intros Hr. destruct (reach_minv _ _ _ Hr) as (Hcore & _).
  destruct (core_held_once _ Hcore) as [Hnd Hh].
  assert (Hany : reachP any_op init ops st) by (eapply reachP_weaken; [|eassumption]; intros; exact I).
  split; [assumption|]. split; [intros s Hin; apply Hh; assumption|].
  intros s Hni Hrecv. pose proof (phi_history _ _ _ s Hany) as [Hlo Hhi].
  assert (H1 : 1 <= phi st s).
  { destruct Hrecv as [->|Hf]; [simpl in Hlo; lia|]. eapply frames_tracked; eauto. }
  unfold phi in *. rewrite (cntz_notin s (held st) Hni) in *. lia.
Qed.

(* ------------------------------------------------------------------------- *)
(** * (b) every connection ID within the advertised limit is accepted *)

Lemma zlength_held st : zlength (held st) = 1 + zlength (m_queue st) + zlength (m_probing st).
Proof. unfold held, zlength, qseqs, pseqs. simpl length. rewrite app_length, !map_length. lia. Qed.

Lemma add_slow_none e : forall q, add_slow e q = None ->
  exists x, In x q /\ n_seq x = n_seq e /\ cid_eqb (n_cid x) (n_cid e) && (n_tok x =? n_tok e) = false.
Proof.
  induction q as [|x q IH]; simpl; [discriminate|].
  destruct (Z.eqb_spec (n_seq x) (n_seq e)) as [Heq|Hne].
  - destruct (cid_eqb (n_cid x) (n_cid e) && (n_tok x =? n_tok e)) eqn:Ec; [discriminate|].
    intros _. exists x. auto.
  - destruct (n_seq e <? n_seq x); [discriminate|]. destruct (add_slow e q); [discriminate|].
    intros _. destruct (IH eq_refl) as (y & Hy & H). exists y. auto.
Qed.

Lemma add_inner_conflict seq rpt c tok d st st' :
  mgr_add_inner seq rpt c tok d st = (st', ROther) ->
  exists x, (In x (m_queue st) \/ exists id, In (id, x) (m_probing st)) /\
            n_seq x = seq /\ cid_eqb (n_cid x) c && (n_tok x =? tok) = false.
Proof.
  unfold mgr_add_inner. destruct (m_acid st); [discriminate|].
  destruct (pfind seq (m_probing st)) as [e|] eqn:Epf.
  { destruct (cid_eqb (n_cid e) c && (n_tok e =? tok)) eqn:Ec; [discriminate|]. intros _.
    apply pfind_some in Epf as (Hs & _ & id & Hin). exists e. split; [right; exists id; assumption|auto]. }
  destruct (negb _ && _); [discriminate|].
  set (st1 := retire_probing_stage rpt st). set (st2 := retire_queue_stage rpt st1).
  destruct (rps_spec rpt st) as (Hq1 & _). fold st1 in Hq1.
  destruct (rqs_spec rpt st1) as (Hq2 & _). fold st2 in Hq2.
  destruct (seq =? m_active st2); [discriminate|].
  destruct (add_conn_id (mkN seq c tok) (m_queue st2)) as [q'|] eqn:E.
  - destruct (m_active (set_queue st2 q') <? rpt); [destruct (update_conn_id _ _)|]; intros Hx; inversion Hx.
  - intros _. unfold add_conn_id in E. destruct (m_queue st2) as [|y q2] eqn:Eq2; [discriminate|].
    revert E. destruct (n_seq (last (y :: q2) (mkN seq c tok)) <? n_seq (mkN seq c tok)); [intros Hx; discriminate Hx|]. intros E. apply add_slow_none in E as (x & Hx & Hs & Hc). simpl in Hs, Hc.
    exists x. split; [left|auto].
    rewrite Hq2, Hq1 in Hx.
    destruct (m_hretired st1 <? rpt); [apply filter_In in Hx; tauto|assumption].
Qed.

Lemma add_inner_classes seq rpt c tok d st st' r :
  mgr_add_inner seq rpt c tok d st = (st', r) -> r = ROk \/ r = RProto \/ r = ROther \/ r = RPanic.
Proof.
  unfold mgr_add_inner. destruct (m_acid st); [intros H; inversion H; auto|].
  destruct (pfind seq (m_probing st)); [destruct (_ && _); intros H; inversion H; auto|].
  destruct (negb _ && _); [intros H; inversion H; auto|].
  destruct (seq =? m_active _); [intros H; inversion H; auto|].
  destruct (add_conn_id _ _); [|intros H; inversion H; auto].
  destruct (m_active _ <? rpt); [destruct (update_conn_id _ _)|]; intros H; inversion H; auto.
Qed.

(** Acceptance theorem: in every state the connection can reach, with non-zero-length
    connection IDs in use, a NEW_CONNECTION_ID frame
    - is never answered with PROTOCOL_VIOLATION and never panics;
    - is refused with CONNECTION_ID_LIMIT_ERROR only if afterwards more than
      lim = max(MaxActiveConnectionIDs, advertised limit) sequence numbers are held, all of them distinct, received and
      not reported retired - so never while the peer's own count of active IDs (any
      duplicate-free list [L] containing what is held) is within the limit;
    - is accepted only if active + queue fit into lim (the first ID beyond is refused);
    - gives another error only for conflicting contents of a queued or probing sequence number. *)
Theorem accept_within_limit init ops st seq rpt c tok d :
  reachP op_ok init ops st -> m_acid st <> [] -> 0 <= rpt <= seq ->
  let st' := fst (mgr_add seq rpt c tok d st) in
  let r := snd (mgr_add seq rpt c tok d st) in
  let lim := Z.max MaxActiveConnectionIDs (m_advlimit st) in
  r <> RProto /\ r <> RPanic /\
  (r = RLimit -> lim < zlength (held st')) /\
  (r = ROk -> 1 + zlength (m_queue st') <= lim) /\
  (accepted r -> NoDup (held st') /\
                 forall s, In s (held st') -> retc s (m_log st') = 0 /\
                                              (s = 0 \/ 1 <= frames_for s (MAdd seq rpt c tok d :: ops))) /\
  (forall L, NoDup L -> incl (held st') L -> zlength L <= lim -> r <> RLimit) /\
  (r = ROther -> exists x, (In x (m_queue st) \/ exists id, In (id, x) (m_probing st)) /\
                           n_seq x = seq /\ cid_eqb (n_cid x) c && (n_tok x =? tok) = false).
Proof.
  intros Hr Hacid Hv st' r lim.
  pose proof (reach_minv _ _ _ Hr) as Hinv.
  assert (Hany : reachP any_op init (MAdd seq rpt c tok d :: ops) st').
  { replace st' with (fst (mgr_step (MAdd seq rpt c tok d) st)).
    - constructor; [|exact I]. eapply reachP_weaken; [|eassumption]. intros; exact I.
    - unfold st'. cbn [mgr_step]. destruct (mgr_add seq rpt c tok d st); reflexivity. }
  unfold st', r in *. clear st' r. unfold mgr_add in *.
  destruct (mgr_add_inner seq rpt c tok d st) as [st1 r1] eqn:E.
  pose proof (add_inner_adv _ _ _ _ _ _ _ _ E) as Hadv. rewrite Hadv in *. fold lim in Hany |- *.
  destruct (add_inner_inv _ _ _ _ _ _ _ _ Hinv Hv E) as (Hnp & Hnproto & Hok).
  specialize (Hnproto Hacid).
  assert (Hheld : r1 = ROk -> NoDup (held st1) /\
            forall s, In s (held st1) -> retc s (m_log st1) = 0 /\ (s = 0 \/ 1 <= frames_for s (MAdd seq rpt c tok d :: ops))).
  { intros ->. destruct (Hok eq_refl) as [Hcore _]. destruct (core_held_once _ Hcore) as [Hnd Hh].
    split; [assumption|]. intros s Hin. split; [apply Hh; assumption|].
    assert (Hany1 : reachP any_op init (MAdd seq rpt c tok d :: ops) st1).
    { destruct (lim <=? zlength (m_queue st1)); exact Hany. }
    pose proof (phi_history _ _ _ s Hany1) as [_ Hhi].
    assert (1 <= phi st1 s) by (apply phi_tracked; left; assumption).
    destruct (Z.eqb_spec 0 s) as [<-|Hne]; [left; reflexivity|right]. cbn [b2z] in Hhi. lia. }
  pose proof (add_inner_classes _ _ _ _ _ _ _ _ E) as Hcls.
  destruct r1; try (exfalso; destruct Hcls as [Hx|[Hx|[Hx|Hx]]]; (discriminate Hx || congruence)).
  - (* inner ROk *)
    destruct (Hheld eq_refl) as [Hnd Hh].
    destruct (Z.leb_spec lim (zlength (m_queue st1))) as [Hge|Hlt]; cbn [fst snd].
    + repeat split; try discriminate.
      * intros _. rewrite zlength_held. pose proof (zlength_nonneg (m_probing st1)). lia.
      * exact Hnd.
      * match goal with Hin : In _ (held st1) |- _ => destruct (Hh _ Hin); assumption end.
      * match goal with Hin : In _ (held st1) |- _ => destruct (Hh _ Hin); assumption end.
      * intros L HL Hincl Hlen _.
        pose proof (NoDup_incl_length Hnd Hincl) as Hle.
        pose proof (zlength_held st1) as Hz. pose proof (zlength_nonneg (m_probing st1)).
        unfold zlength in *. lia.
    + repeat split; try discriminate.
      * intros _. lia.
      * exact Hnd.
      * match goal with Hin : In _ (held st1) |- _ => destruct (Hh _ Hin); assumption end.
      * match goal with Hin : In _ (held st1) |- _ => destruct (Hh _ Hin); assumption end.
  - (* ROther *) cbn [fst snd]. repeat split; try discriminate;
      try (match goal with Ha : accepted ROther |- _ => destruct Ha as [Hx|Hx]; discriminate Hx end).
    intros _. eapply add_inner_conflict; eauto.
Qed.
