(** LimitSel - which active_connection_id_limit a client advertises and which one its
    connIDManager enforces (connection.go newClientConnection: protocol.MaxActiveConnectionIDs on
    the wire, no SetConnectionIDLimit; u_connection.go newUClientConnection:
    SetConnectionIDLimit(params.ActiveConnectionIDLimit) where params is the record read from the
    spec's wire values, with the protocol default 2 for a parameter the spec leaves out - since
    /repo 7263726; before, 0). The call's argument is what the peer reads off the wire.
    Definitions only. *)
From Coq Require Import List ZArith Bool.
From V Require Import Gen.Params Lib.Hex ConnIDs.Model.
Import ListNotations.
Open Scope Z_scope.

Inductive limit_source :=
| LPlain                       (* newClientConnection *)
| LSpec (v : option Z).        (* spec-driven: the spec's active_connection_id_limit as it appears on the wire, or none *)

(** active_connection_id_limit as the peer reads it (RFC 9000 18.2: absent means 2) *)
Definition wire_limit (src : limit_source) : Z :=
  match src with LPlain => MaxActiveConnectionIDs | LSpec (Some v) => v | LSpec None => 2 end.

Definition limit_call (src : limit_source) : list mop :=
  match src with LPlain => [] | LSpec v => [MSetLimit (wire_limit (LSpec v))] end.

Definition limit_init : cid := [1; 2; 3; 4].

(** the manager as the constructor leaves it *)
Definition limit_state (src : limit_source) : mgr := mgr_run (limit_call src) (mgr_init limit_init).

Definition enforced_limit (src : limit_source) (init : cid) : Z :=
  Z.max MaxActiveConnectionIDs (m_advlimit (mgr_run (limit_call src) (mgr_init init))).

(** NEW_CONNECTION_ID frames with consecutive sequence numbers accepted before the first
    CONNECTION_ID_LIMIT_ERROR *)
Fixpoint accepted_frames (fuel : nat) (seq : Z) (st : mgr) : Z :=
  match fuel with
  | O => 0
  | S k =>
    let (st', r) := mgr_add seq 0 [seq; 9] (5000 + seq) 0 st in
    match r with ROk => 1 + accepted_frames k (seq + 1) st' | _ => 0 end
  end.
