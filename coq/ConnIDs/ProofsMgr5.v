(** Proofs about the [connIDManager] model, part 5 (round 4): the reset-token callback
    discipline [disc] is a theorem when the peer gives every sequence number its own token. *)
From Coq Require Import List ZArith Bool Lia.
From V Require Import Gen.Params Lib.Hex ConnIDs.Model ConnIDs.ProofsGen ConnIDs.ProofsMgr ConnIDs.ProofsMgr2 ConnIDs.ProofsMgr3 ConnIDs.ProofsMgr4.
Import ListNotations.
Open Scope Z_scope.

Lemma nodup_app_iff {A} (a b : list A) :
  NoDup (a ++ b) <-> NoDup a /\ NoDup b /\ forall x, In x a -> ~ In x b.
Proof.
  induction a as [|y a IH]; simpl.
  - split; [intros H; repeat split; [constructor|assumption|intros x []]|tauto].
  - split.
    + intros H. inversion H as [|? ? Hni Hnd]; subst. apply IH in Hnd as (Ha & Hb & Hd).
      split; [constructor; [intros Hin; apply Hni, in_or_app; left; assumption|assumption]|].
      split; [assumption|]. intros x [<-|Hx]; [intros Hin; apply Hni, in_or_app; right; assumption|auto].
    + intros (Ha & Hb & Hd). inversion Ha as [|? ? Hni Hnd]; subst. constructor.
      * intros Hin. apply in_app_or in Hin as [Hin|Hin]; [contradiction|]. exact (Hd y (or_introl eq_refl) Hin).
      * apply IH. repeat split; auto.
Qed.

Definition atoks (st : mgr) : list Z := match m_atok st with Some a => [a] | None => [] end.
Definition qtoks (q : list ncid) : list Z := map n_tok q.

(** tokens of all IDs the manager holds *)
Definition all_toks (st : mgr) : list Z := atoks st ++ qtoks (m_queue st) ++ ptoks (m_probing st).

(** the invariant: callback discipline, distinct tokens, and the transport's token map holds
    exactly the tokens of the active and the probing IDs *)
Definition tinv (st : mgr) : Prop :=
  disc (m_log st) = true /\ NoDup (all_toks st) /\
  forall t, reg t (m_log st) = true <-> In t (atoks st) \/ In t (ptoks (m_probing st)).

Lemma reg_retire t s log : reg t (EvRetire s :: log) = reg t log.
Proof. reflexivity. Qed.

(* ---- the retirement loops ---- *)

Lemma rpb_tinv rpt : forall p log p' log',
  retire_probing_below rpt p log = (p', log') ->
  NoDup (ptoks p) -> disc log = true -> (forall x, In x (ptoks p) -> reg x log = true) ->
  disc log' = true /\
  (forall t, reg t log' = true <-> reg t log = true /\ (In t (ptoks p) -> In t (ptoks p'))) /\
  (forall x, In x (ptoks p') -> In x (ptoks p)).
Proof.
  induction p as [|[id e] p IH]; simpl; intros log p' log' H Hnd Hd Hreg.
  - inversion H; subst. split; [assumption|]. split; [intros t; tauto|auto].
  - inversion Hnd as [|? ? Hni Hnd']; subst. destruct (n_seq e <? rpt).
    + assert (Hd2 : disc (EvRemTok (n_tok e) :: EvRetire (n_seq e) :: log) = true).
      { assert (Hre : reg (n_tok e) log = true) by (apply Hreg; left; reflexivity).
        cbn [disc reg]. rewrite Hre. exact Hd. }
      assert (Hreg2 : forall x, In x (ptoks p) -> reg x (EvRemTok (n_tok e) :: EvRetire (n_seq e) :: log) = true).
      { intros x Hx. simpl. destruct (Z.eqb_spec (n_tok e) x) as [Heq|]; [subst x; contradiction|]. apply Hreg. right; assumption. }
      destruct (IH _ _ _ H Hnd' Hd2 Hreg2) as (Hd' & Hr' & Hsub). split; [assumption|]. split.
      * intros t. rewrite Hr'. simpl. destruct (Z.eqb_spec (n_tok e) t) as [Heq|Hne].
        -- subst t. split; [intros [Hx _]; discriminate Hx|]. intros [_ Hx]. exfalso. apply Hni, Hsub, Hx. left; reflexivity.
        -- split; [intros [Hx Hy]; split; [assumption|]; intros [?|Hin]; [congruence|auto]|].
           intros [Hx Hy]; split; [assumption|auto].
      * intros x Hx. right. auto.
    + destruct (retire_probing_below rpt p log) as [r' l'] eqn:E. inversion H; subst.
      assert (Hreg2 : forall x, In x (ptoks p) -> reg x log = true) by (intros; apply Hreg; right; assumption).
      destruct (IH _ _ _ E Hnd' Hd Hreg2) as (Hd' & Hr' & Hsub). split; [assumption|]. split.
      * intros t. rewrite Hr'. simpl. split; intros [Hx Hy]; (split; [assumption|]).
        -- intros [<-|Hin]; [left; reflexivity|right; auto].
        -- intros Hin. destruct (Hy (or_intror Hin)) as [Heq|]; [|assumption]. exfalso. apply Hni. rewrite Heq. assumption.
      * intros x [<-|Hx]; [left; reflexivity|right; auto].
Qed.

Lemma rqb_reg rpt : forall q log q' log',
  retire_queue_below rpt q log = (q', log') ->
  disc log' = disc log /\ (forall t, reg t log' = reg t log).
Proof.
  induction q as [|e q IH]; simpl; intros log q' log' H.
  - inversion H; subst. auto.
  - destruct (rpt <=? n_seq e).
    + destruct (retire_queue_below rpt q log) as [r' l'] eqn:E. inversion H; subst. eauto.
    + destruct (IH _ _ _ H) as [Hd Hr]. split; [rewrite Hd; reflexivity|intros t; rewrite Hr; reflexivity].
Qed.

Lemma filter_sub {A B} (f : A -> B) (g : A -> bool) l x : In x (map f (filter g l)) -> In x (map f l).
Proof. intros H. apply in_map_iff in H as (y & <- & Hy). apply filter_In in Hy as [Hy _]. apply in_map. assumption. Qed.

Lemma nodup_map_filter {A B} (f : A -> B) (g : A -> bool) l : NoDup (map f l) -> NoDup (map f (filter g l)).
Proof. apply filter_map_nodup. Qed.

(* ---- the stages of add ---- *)

Lemma rps_tinv rpt st : tinv st -> tinv (retire_probing_stage rpt st) /\
  m_queue (retire_probing_stage rpt st) = m_queue st /\ atoks (retire_probing_stage rpt st) = atoks st.
Proof.
  intros (Hd & Hnd & Hr). unfold retire_probing_stage. destruct (rpt =? 0); [repeat split; auto; apply Hr|].
  destruct (retire_probing_below rpt (m_probing st) (m_log st)) as [p l] eqn:E.
  unfold all_toks in Hnd. apply nodup_app_iff in Hnd as (Ha & Hqp & Hdis1). apply nodup_app_iff in Hqp as (Hq & Hp & Hdis2).
  assert (Hregp : forall x, In x (ptoks (m_probing st)) -> reg x (m_log st) = true) by (intros x Hx; apply Hr; right; assumption).
  destruct (rpb_tinv _ _ _ _ _ E Hp Hd Hregp) as (Hd' & Hr' & Hsub).
  destruct (rpb_spec _ _ _ _ _ E) as (Hpf & _).
  split; [|split; reflexivity]. unfold tinv, all_toks, atoks. simpl. split; [assumption|]. split.
  - apply nodup_app_iff. split; [assumption|]. split.
    + apply nodup_app_iff. split; [assumption|]. split; [rewrite Hpf; apply nodup_map_filter; assumption|].
      intros x Hx Hin. apply (Hdis2 x Hx), Hsub, Hin.
    + intros x Hx Hin. apply (Hdis1 x Hx). apply in_app_or in Hin as [Hin|Hin]; apply in_or_app; [left; assumption|right; auto].
  - intros t. rewrite Hr', Hr. fold (atoks st). split.
    + intros [[Ha'|Hp'] Himp]; [left; assumption|right; auto].
    + intros [Ha'|Hp']; (split; [|intros Hin]).
      * left; assumption.
      * exfalso. apply (Hdis1 t Ha'). apply in_or_app. right; assumption.
      * right; auto.
      * assumption.
Qed.

Lemma rqs_tinv rpt st : tinv st -> tinv (retire_queue_stage rpt st) /\
  (forall e, In e (m_queue (retire_queue_stage rpt st)) -> In e (m_queue st)) /\
  atoks (retire_queue_stage rpt st) = atoks st /\ m_probing (retire_queue_stage rpt st) = m_probing st.
Proof.
  intros (Hd & Hnd & Hr). unfold retire_queue_stage. destruct (_ <? rpt); [|repeat split; auto; apply Hr].
  destruct (retire_queue_below rpt (m_queue st) (m_log st)) as [q l] eqn:E.
  destruct (rqb_reg _ _ _ _ _ E) as [Hd' Hr']. destruct (rqb_spec _ _ _ _ _ E) as (Hqf & _).
  unfold all_toks in Hnd. apply nodup_app_iff in Hnd as (Ha & Hqp & Hdis1). apply nodup_app_iff in Hqp as (Hq & Hp & Hdis2).
  split; [|split; [|split; reflexivity]].
  - unfold tinv, all_toks, atoks. simpl. split; [rewrite Hd'; assumption|]. split.
    + apply nodup_app_iff. split; [assumption|]. split.
      * apply nodup_app_iff. split; [rewrite Hqf; apply nodup_map_filter; assumption|]. split; [assumption|].
        intros x Hx. apply Hdis2. rewrite Hqf in Hx. eapply filter_sub; eauto.
      * intros x Hx Hin. apply (Hdis1 x Hx). apply in_app_or in Hin as [Hin|Hin]; apply in_or_app; [left|right; assumption].
        rewrite Hqf in Hin. eapply filter_sub; eauto.
    + intros t. rewrite Hr'. apply Hr.
  - simpl. rewrite Hqf. intros e He. apply filter_In in He. tauto.
Qed.

(** a frame's token is new to the manager unless the frame repeats a held sequence number *)
Definition tok_fresh (st : mgr) (seq tok : Z) : Prop :=
  ~ In seq (qseqs (m_queue st)) -> ~ In tok (all_toks st).

Lemma update_tinv d st st' : tinv st -> update_conn_id d st = Some st' -> tinv st'.
Proof.
  intros (Hd & Hnd & Hr) H. unfold update_conn_id in H. destruct (m_closed st); [discriminate|].
  destruct (m_queue st) as [|f rest] eqn:Eq; [discriminate|]. inversion H; subst; clear H.
  unfold all_toks in Hnd. rewrite Eq in Hnd. simpl qtoks in Hnd.
  pose proof Hnd as Hnd0. apply nodup_app_iff in Hnd as (Ha & Hqp & Hdis1).
  simpl in Hqp. inversion Hqp as [|? ? Hfni Hrest]; subst.
  assert (Hfa : ~ In (n_tok f) (atoks st)).
  { intros Hin. apply (Hdis1 _ Hin). left; reflexivity. }
  assert (Hfp : ~ In (n_tok f) (ptoks (m_probing st))).
  { intros Hin. apply Hfni, in_or_app. right; assumption. }
  assert (Hregf : reg (n_tok f) (m_log st) = false).
  { destruct (reg (n_tok f) (m_log st)) eqn:E; [|reflexivity]. apply Hr in E as [?|?]; contradiction. }
  unfold tinv, all_toks, atoks. simpl. unfold atoks in *. destruct (m_atok st) as [a|] eqn:Ea.
  - assert (Hrega : reg a (m_log st) = true) by (apply Hr; left; left; reflexivity).
    assert (Hne : a <> n_tok f) by (intros ->; apply Hfa; left; reflexivity).
    split; [simpl; rewrite Z.eqb_sym; destruct (Z.eqb_spec (n_tok f) a); [congruence|]; rewrite Hregf, Hrega; simpl; exact Hd|].
    split; [exact Hqp|]. intros t. simpl.
    destruct (Z.eqb_spec (n_tok f) t) as [->|Hnt]; [split; [intros _; left; left; reflexivity|reflexivity]|].
    destruct (Z.eqb_spec a t) as [->|Hat].
    + split; [discriminate|]. intros [[?|[]]|Hin]; [congruence|]. exfalso. apply (Hdis1 t (or_introl eq_refl)). right. apply in_or_app. right; assumption.
    + rewrite Hr. simpl. split; [intros [[?|[]]|?]; [congruence|right; assumption]|intros [[?|[]]|?]; [congruence|right; assumption]].
  - split; [simpl; rewrite Hregf; simpl; exact Hd|]. split; [exact Hqp|]. intros t. simpl.
    destruct (Z.eqb_spec (n_tok f) t) as [->|Hnt]; [split; [intros _; left; left; reflexivity|reflexivity]|].
    rewrite Hr. simpl. split; [intros [[]|?]; right; assumption|intros [[?|[]]|?]; [congruence|right; assumption]].
Qed.

(* ---- insertion into the queue ---- *)

Lemma add_slow_shape e : forall q q', add_slow e q = Some q' ->
  q' = q \/ exists a b, q = a ++ b /\ q' = a ++ e :: b.
Proof.
  induction q as [|x q IH]; simpl; intros q' H.
  - inversion H; subst. left; reflexivity.
  - destruct (n_seq x =? n_seq e).
    + destruct (_ && _); [|discriminate]. inversion H; subst. left; reflexivity.
    + destruct (n_seq e <? n_seq x).
      * inversion H; subst. right. exists [], (x :: q). auto.
      * destruct (add_slow e q) as [r'|] eqn:E; [|discriminate]. inversion H; subst.
        destruct (IH _ eq_refl) as [->|(a & b & -> & ->)]; [left; reflexivity|]. right. exists (x :: a), b. auto.
Qed.

Lemma add_conn_id_shape e q q' : add_conn_id e q = Some q' ->
  q' = q \/ exists a b, q = a ++ b /\ q' = a ++ e :: b.
Proof.
  unfold add_conn_id. destruct q as [|y q].
  - intros H; inversion H; subst. right. exists [], []. auto.
  - destruct (_ <? _); [|apply add_slow_shape]. intros H; injection H as <-. right. exists (y :: q), []. rewrite app_nil_r. auto.
Qed.

Lemma insert_tinv st seq c tok q' :
  tinv st -> sorted (qseqs (m_queue st)) ->
  add_conn_id (mkN seq c tok) (m_queue st) = Some q' ->
  (~ In seq (qseqs (m_queue st)) -> ~ In tok (all_toks st)) ->
  tinv (set_queue st q').
Proof.
  intros (Hd & Hnd & Hr) Hs Hadd Hfresh.
  destruct (add_conn_id_shape _ _ _ Hadd) as [->|(a & b & Hq & ->)].
  { unfold tinv, all_toks, atoks in *. simpl. auto. }
  destruct (add_conn_id_sorted _ _ _ Hs Hadd) as [Hs' _].
  assert (Hni : ~ In seq (qseqs (m_queue st))).
  { intros Hin. apply cntz_in in Hin. pose proof (sorted_cnt_le1 seq _ Hs') as Hle.
    rewrite Hq in Hin. unfold qseqs in *. rewrite map_app in *. simpl in Hle. rewrite cntz_app in *. simpl in Hle.
    rewrite Z.eqb_refl in Hle. unfold b2z in Hle. lia. }
  specialize (Hfresh Hni). unfold tinv, all_toks, atoks in *. simpl. split; [assumption|]. split; [|assumption].
  rewrite Hq in *. unfold qtoks in *. rewrite map_app in *. simpl.
  apply nodup_app_iff in Hnd as (Ha & Hqp & Hdis1). rewrite <- app_assoc in Hqp.
  apply nodup_app_iff. split; [assumption|]. split.
  - rewrite <- app_assoc. simpl. apply nodup_app_iff in Hqp as (Hna & Hbp & Hdis2).
    apply nodup_app_iff. split; [assumption|]. split.
    + constructor; [|assumption]. intros Hin. apply Hfresh. apply in_or_app. right. rewrite <- app_assoc. apply in_or_app. right; assumption.
    + intros x Hx [<-|Hin]; [|exact (Hdis2 x Hx Hin)]. apply Hfresh. apply in_or_app. right. rewrite <- app_assoc. apply in_or_app. left; assumption.
  - intros x Hx Hin. rewrite <- app_assoc in Hin. simpl in Hin. apply in_app_or in Hin as [Hin|[<-|Hin]].
    + apply (Hdis1 x Hx). rewrite <- app_assoc. apply in_or_app. left; assumption.
    + apply Hfresh. apply in_or_app. left; assumption.
    + apply (Hdis1 x Hx). rewrite <- app_assoc. apply in_or_app. right; assumption.
Qed.

(* ---- operations ---- *)

Lemma emit_retire_tinv st s : tinv st -> tinv (emit st (EvRetire s)).
Proof. intros H. exact H. Qed.

Definition tok_ok_op (o : mop) (st : mgr) : Prop :=
  match o with
  | MAdd seq _ _ tok _ => ~ In seq (held st) -> ~ In tok (all_toks st)
  | MAddPref _ tok => ~ In 1 (held st) -> ~ In tok (all_toks st)
  | MSetTok t => ~ In t (all_toks st)
  | _ => True
  end.

(** [op_ok] plus: a frame for a sequence number the manager does not hold (neither active, queued
    nor in use for path probing) carries a token it does not hold. Every peer that gives each
    sequence number its own token satisfies this, retransmissions of any frame included
    (a frame for a held number is not constrained at all). *)
Definition op_okt (o : mop) (st : mgr) : Prop := op_ok o st /\ tok_ok_op o st.

Lemma add_inner_tinv seq rpt c tok d st st' r :
  minv st -> tinv st -> 0 <= rpt <= seq ->
  (seq <> m_active st -> ~ In seq (pseqs (m_probing st)) -> ~ In seq (qseqs (m_queue st)) -> ~ In tok (all_toks st)) ->
  mgr_add_inner seq rpt c tok d st = (st', r) -> tinv st'.
Proof.
  intros (Hcore & _) Ht Hv Hfresh0. unfold mgr_add_inner.
  destruct (m_acid st); [intros H; inversion H; subst; assumption|].
  destruct (pfind seq (m_probing st)) eqn:Epf; [destruct (_ && _); intros H; inversion H; subst; assumption|].
  apply pfind_none in Epf.
  destruct (negb _ && _); [intros H; inversion H; subst; apply emit_retire_tinv; assumption|].
  set (st1 := retire_probing_stage rpt st). set (st2 := retire_queue_stage rpt st1).
  destruct (rps_tinv rpt st Ht) as (Ht1 & Hq1 & Ha1). fold st1 in Ht1, Hq1, Ha1.
  destruct (rqs_tinv rpt st1 Ht1) as (Ht2 & Hq2 & Ha2 & Hp2). fold st2 in Ht2, Hq2, Ha2, Hp2.
  pose proof (core_rps rpt st Hcore) as Hc1. fold st1 in Hc1.
  destruct (core_rqs rpt st1 Hc1) as (Hc2 & _ & _). fold st2 in Hc2.
  destruct (rps_spec rpt st) as (_ & _ & _ & _ & _ & _ & _ & Hpin & _). fold st1 in Hpin.
  destruct (rqs_spec rpt st1) as (Hq2eq & _). fold st2 in Hq2eq.
  destruct (rqs_spec rpt st1) as (_ & _ & Hact2 & _). fold st2 in Hact2.
  destruct (rps_spec rpt st) as (_ & Hact1 & _). fold st1 in Hact1.
  destruct (Z.eqb_spec seq (m_active st2)) as [|Hna]; [intros H; inversion H; subst; assumption|].
  assert (Hfresh : ~ In seq (qseqs (m_queue st)) -> ~ In tok (all_toks st)).
  { apply Hfresh0; [congruence|assumption]. }
  destruct (add_conn_id (mkN seq c tok) (m_queue st2)) as [q'|] eqn:E; [|intros H; inversion H; subst; assumption].
  assert (Ht3 : tinv (set_queue st2 q')).
  { apply (insert_tinv st2 seq c tok q' Ht2 (c_sorted _ Hc2) E). intros Hni2 Hin.
    apply Hfresh.
    - intros Hin0. apply Hni2. rewrite Hq2eq, Hq1. destruct (m_hretired st1 <? rpt); [|assumption].
      unfold qseqs in *. apply in_map_iff in Hin0 as (e & He & Hin0). apply in_map_iff. exists e. split; [assumption|].
      apply filter_In. split; [assumption|]. apply Z.leb_le. lia.
    - unfold all_toks in *. rewrite Ha2, Ha1, Hp2 in Hin. apply in_app_or in Hin as [Hin|Hin]; apply in_or_app; [left; assumption|right].
      apply in_app_or in Hin as [Hin|Hin]; apply in_or_app; [left|right].
      + unfold qtoks in *. apply in_map_iff in Hin as (e & He & Hin). apply in_map_iff. exists e. split; [assumption|].
        rewrite <- Hq1. apply Hq2. assumption.
      + unfold ptoks in *. apply in_map_iff in Hin as (e & He & Hin). apply in_map_iff. exists e. split; [assumption|]. apply Hpin. assumption. }
  destruct (m_active (set_queue st2 q') <? rpt).
  - destruct (update_conn_id d (set_queue st2 q')) as [st4|] eqn:E4; intros H; inversion H; subst; [|assumption].
    eapply update_tinv; eauto.
  - intros H; inversion H; subst. assumption.
Qed.

Lemma pdelete_ptoks id p x : In x (ptoks (pdelete id p)) -> In x (ptoks p).
Proof.
  unfold ptoks. intros H. apply in_map_iff in H as (e & He & Hin). apply in_map_iff. exists e. split; [assumption|].
  apply pdelete_incl with id. assumption.
Qed.

Lemma step_tinv o st : minv st -> tinv st -> op_okt o st -> tinv (fst (mgr_step o st)).
Proof.
  intros Hinv Ht [(Hcl & Hres & Hok) Htok]. pose proof Hinv as (Hcore & _ & Hpid & _).
  destruct o as [seq rpt c tok draw|c tok|draw|k| | |c|tok|id|id|tok|n]; cbn [mgr_step tok_ok_op] in *; try exact Ht.
  - unfold mgr_add. destruct (mgr_add_inner seq rpt c tok draw st) as [st' r] eqn:E.
    assert (Htok' : seq <> m_active st -> ~ In seq (pseqs (m_probing st)) -> ~ In seq (qseqs (m_queue st)) -> ~ In tok (all_toks st)).
    { intros H1 H2 H3. apply Htok. unfold held. intros [?|Hin]; [congruence|]. apply in_app_or in Hin. tauto. }
    pose proof (add_inner_tinv _ _ _ _ _ _ _ _ Hinv Ht Hok Htok' E) as H. destruct r; simpl; try exact H. destruct (_ <=? _); exact H.
  - unfold mgr_add_pref. destruct (add_conn_id (mkN 1 c tok) (m_queue st)) as [q'|] eqn:E; [|exact Ht]. simpl.
    eapply insert_tinv; eauto; [apply (c_sorted _ Hcore)|]. intros Hnq. apply Htok. destruct Hok as [Ha0 Hh0].
    unfold held. intros [Hx|Hin]; [lia|]. apply in_app_or in Hin as [Hin|Hin]; [contradiction|].
    apply (c_ple _ Hcore) in Hin. lia.
  - unfold mgr_get. rewrite Hcl. destruct (should_update st); [|exact Ht].
    destruct (update_conn_id draw st) as [st'|] eqn:E; [|exact Ht]. simpl. eapply update_tinv; eauto.
  - destruct Hok.
  - unfold mgr_change_initial. destruct (_ =? _); exact Ht.
  - (* SetStatelessResetToken *)
    unfold mgr_set_token. rewrite Hcl. destruct (_ =? _); [|exact Ht]. simpl.
    destruct Ht as (Hd & Hnd & Hr). unfold tinv, all_toks, atoks in *. simpl. rewrite Hok in *. simpl in *.
    assert (Hreg : reg tok (m_log st) = false).
    { destruct (reg tok (m_log st)) eqn:E; [|reflexivity]. apply Hr in E as [[]|E]. exfalso. apply Htok. apply in_or_app. right; assumption. }
    split; [rewrite Hreg; simpl; exact Hd|]. split; [constructor; assumption|].
    intros t. destruct (Z.eqb_spec tok t) as [->|Hne]; [split; [intros _; left; left; reflexivity|reflexivity]|].
    rewrite Hr. split; [intros [[]|?]; right; assumption|intros [[?|[]]|?]; [congruence|right; assumption]].
  - (* GetConnIDForPath *)
    unfold mgr_path_get. rewrite Hcl. destruct (m_acid st); [exact Ht|].
    destruct (plookup id (m_probing st)); [exact Ht|]. destruct (m_queue st) as [|f rest] eqn:Eq; [exact Ht|]. simpl.
    destruct Ht as (Hd & Hnd & Hr). unfold tinv, all_toks, atoks in *. simpl. rewrite Eq in Hnd. simpl qtoks in Hnd.
    apply nodup_app_iff in Hnd as (Ha & Hqp & Hdis1). simpl in Hqp. inversion Hqp as [|? ? Hfni Hrest]; subst.
    apply nodup_app_iff in Hrest as (Hnr & Hnp & Hdis2).
    assert (Hfa : ~ In (n_tok f) (match m_atok st with Some a => [a] | None => [] end)) by (intros Hin; apply (Hdis1 _ Hin); left; reflexivity).
    assert (Hfp : ~ In (n_tok f) (ptoks (m_probing st))) by (intros Hin; apply Hfni, in_or_app; right; assumption).
    assert (Hfr : ~ In (n_tok f) (qtoks rest)) by (intros Hin; apply Hfni, in_or_app; left; assumption).
    assert (Hreg : reg (n_tok f) (m_log st) = false).
    { destruct (reg (n_tok f) (m_log st)) eqn:E; [|reflexivity]. apply Hr in E as [?|?]; contradiction. }
    split; [rewrite Hreg; simpl; exact Hd|]. split.
    + unfold ptoks. rewrite map_app. simpl. apply nodup_app_iff. split; [assumption|]. split.
      * apply nodup_app_iff. split; [assumption|]. split.
        -- apply nodup_app_iff. split; [assumption|]. split; [constructor; [intros []|constructor]|]. intros x Hx [<-|[]]. contradiction.
        -- intros x Hx Hin. apply in_app_or in Hin as [Hin|[<-|[]]]; [exact (Hdis2 x Hx Hin)|contradiction].
      * intros x Hx Hin. apply in_app_or in Hin as [Hin|Hin].
        -- apply (Hdis1 x Hx). right. apply in_or_app. left; assumption.
        -- apply in_app_or in Hin as [Hin|[<-|[]]]; [|contradiction]. apply (Hdis1 x Hx). right. apply in_or_app. right; assumption.
    + intros t. unfold ptoks. rewrite map_app. simpl. destruct (Z.eqb_spec (n_tok f) t) as [->|Hne].
      * split; [intros _; right; apply in_or_app; right; left; reflexivity|reflexivity].
      * rewrite Hr. split; [intros [?|Hin]; [left; assumption|right; apply in_or_app; left; assumption]|].
        intros [?|Hin]; [left; assumption|]. apply in_app_or in Hin as [Hin|[?|[]]]; [right; assumption|congruence].
  - (* RetireConnIDForPath *)
    unfold mgr_path_retire. rewrite Hcl. destruct (m_acid st); [exact Ht|].
    destruct (plookup id (m_probing st)) as [e|] eqn:El; [|exact Ht]. simpl.
    destruct Ht as (Hd & Hnd & Hr). unfold tinv, all_toks, atoks in *. simpl.
    destruct (pdelete_cnt _ _ _ Hpid El) as [_ Hcnt].
    apply nodup_app_iff in Hnd as (Ha & Hqp & Hdis1). apply nodup_app_iff in Hqp as (Hnq & Hnp & Hdis2).
    assert (Hein : In (n_tok e) (ptoks (m_probing st))).
    { apply plookup_in in El. unfold ptoks. apply in_map_iff. exists (id, e). auto. }
    assert (Heout : ~ In (n_tok e) (ptoks (pdelete id (m_probing st)))).
    { intros Hin. apply cntz_in in Hin. specialize (Hcnt (n_tok e)). rewrite Z.eqb_refl in Hcnt. unfold b2z in Hcnt.
      pose proof (cntz_le1_nodup). assert (cntz (n_tok e) (ptoks (m_probing st)) <= 1); [|lia].
      clear -Hnp. induction Hnp as [|x l Hni Hnd IH]; simpl; [lia|]. destruct (Z.eqb_spec x (n_tok e)) as [->|]; unfold b2z; [|lia].
      rewrite cntz_notin by assumption. lia. }
    assert (Hnp' : NoDup (ptoks (pdelete id (m_probing st)))).
    { apply cntz_le1_nodup. intros s. specialize (Hcnt s). pose proof (b2z_range (n_tok e =? s)).
      assert (cntz s (ptoks (m_probing st)) <= 1); [|lia].
      clear -Hnp. induction Hnp as [|x l Hni Hnd IH]; simpl; [lia|]. destruct (Z.eqb_spec x s) as [->|]; unfold b2z; [|lia].
      rewrite cntz_notin by assumption. lia. }
    split; [rewrite (proj2 (Hr (n_tok e))) by (right; assumption); simpl; exact Hd|]. split.
    + apply nodup_app_iff. split; [assumption|]. split.
      * apply nodup_app_iff. split; [assumption|]. split; [assumption|]. intros x Hx Hin. apply (Hdis2 x Hx), pdelete_ptoks with id, Hin.
      * intros x Hx Hin. apply (Hdis1 x Hx). apply in_app_or in Hin as [Hin|Hin]; apply in_or_app; [left; assumption|right; eapply pdelete_ptoks; eauto].
    + intros t. destruct (Z.eqb_spec (n_tok e) t) as [Heq|Hne].
      * subst t. split; [discriminate|]. intros [Hin|Hin]; [|contradiction]. exfalso. apply (Hdis1 _ Hin). apply in_or_app. right; assumption.
      * rewrite Hr. split.
        -- intros [?|Hin]; [left; assumption|right]. apply cntz_in. apply cntz_in in Hin. specialize (Hcnt t).
           apply Z.eqb_neq in Hne. rewrite Hne in Hcnt. unfold b2z in Hcnt. lia.
        -- intros [?|Hin]; [left; assumption|right; eapply pdelete_ptoks; eauto].
Qed.

Lemma tinv_init i : tinv (mgr_init i).
Proof. split; [reflexivity|]. split; [constructor|]. intros t. simpl. split; [discriminate|intros [[]|[]]]. Qed.

Lemma close_probing_disc : forall (p : list (Z * ncid)) log,
  NoDup (ptoks p) -> disc log = true -> (forall t, reg t log = true <-> In t (ptoks p)) ->
  disc (fold_left (fun l (pe : Z * ncid) => EvRemTok (n_tok (snd pe)) :: l) p log) = true /\
  forall t, reg t (fold_left (fun l (pe : Z * ncid) => EvRemTok (n_tok (snd pe)) :: l) p log) = false.
Proof.
  induction p as [|[id e] p IH]; simpl; intros log Hnp Hd1 Hr1.
  - split; [assumption|]. intros t. destruct (reg t log) eqn:E; [apply Hr1 in E; destruct E|reflexivity].
  - inversion Hnp as [|? ? Hni Hnp']; subst. apply IH; [assumption| |].
    + simpl. rewrite (proj2 (Hr1 (n_tok e))) by (left; reflexivity). exact Hd1.
    + intros t. simpl. destruct (Z.eqb_spec (n_tok e) t) as [Heq|Hne].
      * subst t. split; [discriminate|]. intros Hin. contradiction.
      * rewrite Hr1. split; [intros [?|?]; [congruence|assumption]|auto].
Qed.

(** The token discipline is a theorem: on every history the connection produces in which a frame
    for a not-queued sequence number never carries a token the manager holds, the callbacks
    never register a registered token nor remove an unregistered one, the held tokens are
    pairwise distinct, and the transport's token map is exactly {active token} + probing tokens;
    Close then empties the map, again within the discipline. *)
Theorem token_discipline init ops st :
  reachP op_okt init ops st ->
  disc (m_log st) = true /\ NoDup (all_toks st) /\
  (forall t, reg t (m_log st) = true <-> In t (atoks st) \/ In t (ptoks (m_probing st))) /\
  disc (m_log (mgr_close st)) = true /\ (forall t, reg t (m_log (mgr_close st)) = false).
Proof.
  intros Hr.
  assert (H : minv st /\ tinv st).
  { induction Hr as [|o ops st Hr [IHm IHt] Hok]; [split; [apply minv_init|apply tinv_init]|].
    split; [apply step_minv; [assumption|exact (proj1 Hok)]|apply step_tinv; assumption]. }
  destruct H as [_ (Hd & Hnd & Hreg)]. split; [assumption|]. split; [assumption|]. split; [assumption|].
  (* Close: remove the active token, then every probing token *)
  unfold mgr_close. simpl. unfold all_toks, atoks in *.
  apply nodup_app_iff in Hnd as (Ha & Hqp & Hdis1). apply nodup_app_iff in Hqp as (_ & Hnp & _).
  set (log1 := match m_atok st with Some t => EvRemTok t :: m_log st | None => m_log st end).
  assert (H1 : disc log1 = true /\ forall t, reg t log1 = true <-> In t (ptoks (m_probing st))).
  { unfold log1. destruct (m_atok st) as [a|] eqn:Ea.
    - split; [simpl; rewrite (proj2 (Hreg a)) by (left; left; reflexivity); exact Hd|].
      intros t. simpl. destruct (Z.eqb_spec a t) as [Heq|Hne].
      + subst t. split; [discriminate|]. intros Hin. exfalso. apply (Hdis1 a (or_introl eq_refl)). apply in_or_app. right; assumption.
      + rewrite Hreg. split; [intros [[?|[]]|?]; [congruence|assumption]|auto].
    - split; [assumption|]. intros t. rewrite Hreg. split; [intros [[]|?]; assumption|auto]. }
  destruct H1 as [Hd1 Hr1]. apply close_probing_disc; assumption.
Qed.

(* ---- computable check of the hypotheses, for the non-vacuity example ---- *)

Definition zmem (x : Z) (l : list Z) : bool := existsb (Z.eqb x) l.
Lemma zmem_in x l : zmem x l = true <-> In x l.
Proof.
  unfold zmem. rewrite existsb_exists. split.
  - intros (y & Hy & He). apply Z.eqb_eq in He. subst. assumption.
  - intros H. exists x. split; [assumption|apply Z.eqb_refl].
Qed.

Definition tok_okb (o : mop) (st : mgr) : bool :=
  match o with
  | MAdd seq _ _ tok _ => zmem seq (held st) || negb (zmem tok (all_toks st))
  | MAddPref _ tok => zmem 1 (held st) || negb (zmem tok (all_toks st))
  | MSetTok t => negb (zmem t (all_toks st))
  | _ => true
  end.

Lemma tok_okb_ok o st : tok_okb o st = true -> tok_ok_op o st.
Proof.
  destruct o; cbn [tok_okb tok_ok_op]; try (intros; exact I).
  - intros H Hni Hin. apply orb_prop in H as [H|H]; [apply zmem_in in H; contradiction|].
    apply negb_true_iff in H. apply zmem_in in Hin. congruence.
  - intros H Hni Hin. apply orb_prop in H as [H|H]; [apply zmem_in in H; contradiction|].
    apply negb_true_iff in H. apply zmem_in in Hin. congruence.
  - intros H Hin. apply negb_true_iff in H. apply zmem_in in Hin. congruence.
Qed.

Fixpoint hist_oktb (ops : list mop) (st : mgr) : bool :=
  match ops with
  | [] => true
  | o :: r => op_okb o st && tok_okb o st && hist_oktb r (fst (mgr_step o st))
  end.

Lemma hist_oktb_reach_gen init : forall ops past st,
  reachP op_okt init past st -> hist_oktb ops st = true ->
  reachP op_okt init (rev ops ++ past) (mgr_run ops st).
Proof.
  induction ops as [|o ops IH]; simpl; intros past st Hr H; [assumption|].
  apply andb_prop in H as [Ho Hrest]. apply andb_prop in Ho as [Ho Hc]. rewrite <- app_assoc. simpl.
  apply (IH (o :: past)); [|assumption]. constructor; [assumption|]. split; [apply op_okb_ok|apply tok_okb_ok]; assumption.
Qed.

Theorem hist_oktb_reach init ops :
  hist_oktb ops (mgr_init init) = true -> reachP op_okt init (rev ops) (mgr_run ops (mgr_init init)).
Proof. intros H. rewrite <- (app_nil_r (rev ops)). apply hist_oktb_reach_gen; [constructor|assumption]. Qed.

Lemma w_good_okt : hist_oktb w_good (mgr_init w_init) = true.
Proof. vm_compute. reflexivity. Qed.

(** honest retransmissions are inside the hypothesis: the frame of the ACTIVE ID and the frame of a
    PROBING ID repeated (the two histories the round-5 audit used against the former hypothesis) *)
Lemma retransmissions_okt :
  hist_oktb [w_add 1; MHsDone; MGet 0; w_add 1] (mgr_init w_init) = true /\
  hist_oktb [w_add 1; w_add 2; MPathGet 1; w_add 1] (mgr_init w_init) = true /\
  hist_oktb [w_add 1; w_add 2; w_add 3; MPathGet 1; MHsDone; MGet 0; w_add 1; w_add 2; w_add 3; MPathRetire 1; w_add 1] (mgr_init w_init) = true.
Proof. vm_compute. auto. Qed.

(* ---- "every sequence number has its own token" as a function ---- *)

(** the peer's tokens follow an injective function of the sequence number (number 0: the token
    of the transport parameters) *)
Definition frame_follows (f : Z -> Z) (o : mop) : Prop :=
  match o with
  | MAdd seq _ _ tok _ => tok = f seq
  | MAddPref _ tok => tok = f 1
  | MSetTok t => t = f 0
  | _ => True
  end.

Definition follows (f : Z -> Z) (st : mgr) : Prop :=
  (forall e, In e (m_queue st) -> n_tok e = f (n_seq e)) /\
  (forall pe, In pe (m_probing st) -> n_tok (snd pe) = f (n_seq (snd pe))) /\
  (forall t, m_atok st = Some t -> t = f (m_active st)).

Lemma update_follows f d st st' : follows f st -> update_conn_id d st = Some st' -> follows f st'.
Proof.
  intros (Hq & Hp & Ha) H. destruct (update_spec _ _ _ H) as (fr & r & Hq0 & _ & Hq' & Hact & _ & _ & Hpr & _ & Hat & _).
  split; [|split].
  - intros e He. apply Hq. rewrite Hq0. right. rewrite <- Hq'. assumption.
  - rewrite Hpr. assumption.
  - intros t Ht. rewrite Hat in Ht. inversion Ht; subst. rewrite Hact. apply Hq. rewrite Hq0. left; reflexivity.
Qed.

Lemma add_inner_follows f seq rpt c tok d st st' r :
  tok = f seq -> follows f st -> mgr_add_inner seq rpt c tok d st = (st', r) -> follows f st'.
Proof.
  intros Htok Hf. unfold mgr_add_inner. destruct (m_acid st); [intros H; inversion H; subst; assumption|].
  destruct (pfind seq (m_probing st)); [destruct (_ && _); intros H; inversion H; subst; assumption|].
  destruct (negb _ && _); [intros H; inversion H; subst; exact Hf|].
  set (st1 := retire_probing_stage rpt st). set (st2 := retire_queue_stage rpt st1).
  destruct (rps_spec rpt st) as (Hq1 & Hact1 & _ & _ & _ & Hat1 & _ & Hpin & _). fold st1 in Hq1, Hact1, Hat1, Hpin.
  destruct (rqs_spec rpt st1) as (Hq2 & _ & Hact2 & _ & Hp2 & _ & Hat2 & _). fold st2 in Hq2, Hact2, Hp2, Hat2.
  assert (Hf2 : follows f st2).
  { destruct Hf as (Hq & Hp & Ha). split; [|split].
    - intros e He. apply Hq. rewrite Hq2, Hq1 in He. destruct (m_hretired st1 <? rpt); [apply filter_In in He; tauto|assumption].
    - rewrite Hp2. intros pe Hpe. apply Hp, Hpin, Hpe.
    - rewrite Hat2, Hat1, Hact2, Hact1. assumption. }
  destruct (seq =? m_active st2); [intros H; inversion H; subst; assumption|].
  destruct (add_conn_id (mkN seq c tok) (m_queue st2)) as [q'|] eqn:E; [|intros H; inversion H; subst; assumption].
  assert (Hf3 : follows f (set_queue st2 q')).
  { destruct Hf2 as (Hq & Hp & Ha). split; [|split; assumption]. intros e He. simpl in He.
    destruct (add_conn_id_elems _ _ _ _ E He) as [->|Hin]; [exact Htok|auto]. }
  destruct (m_active (set_queue st2 q') <? rpt).
  - destruct (update_conn_id d (set_queue st2 q')) as [st4|] eqn:E4; intros H; inversion H; subst; [|assumption].
    eapply update_follows; eauto.
  - intros H; inversion H; subst. assumption.
Qed.

Lemma step_follows f o st : frame_follows f o -> follows f st -> follows f (fst (mgr_step o st)).
Proof.
  intros Hfo Hf. destruct o as [seq rpt c tok draw|c tok|draw|k| | |c|tok|id|id|tok|n]; cbn [mgr_step frame_follows] in *; try exact Hf.
  - unfold mgr_add. destruct (mgr_add_inner seq rpt c tok draw st) as [st' r] eqn:E.
    pose proof (add_inner_follows _ _ _ _ _ _ _ _ _ Hfo Hf E) as H. destruct r; simpl; try exact H. destruct (_ <=? _); exact H.
  - unfold mgr_add_pref. destruct (add_conn_id (mkN 1 c tok) (m_queue st)) as [q'|] eqn:E; [|exact Hf]. simpl.
    destruct Hf as (Hq & Hp & Ha). split; [|split; assumption]. intros e He. simpl in He.
    destruct (add_conn_id_elems _ _ _ _ E He) as [->|Hin]; [exact Hfo|auto].
  - unfold mgr_get. destruct (m_closed st); [exact Hf|]. destruct (should_update st); [|exact Hf].
    destruct (update_conn_id draw st) as [st'|] eqn:E; [|exact Hf]. simpl. eapply update_follows; eauto.
  - unfold mgr_change_initial. destruct (_ =? _); exact Hf.
  - unfold mgr_set_token. destruct (m_closed st); [exact Hf|]. destruct (Z.eqb_spec (m_active st) 0) as [H0|]; [|exact Hf]. simpl.
    destruct Hf as (Hq & Hp & Ha). split; [assumption|]. split; [assumption|]. simpl. intros t Ht. inversion Ht; subst. rewrite H0. reflexivity.
  - unfold mgr_path_get. destruct (m_closed st); [exact Hf|]. destruct (m_acid st); [exact Hf|].
    destruct (plookup id (m_probing st)); [exact Hf|]. destruct (m_queue st) as [|fr rest] eqn:Eq; [exact Hf|]. simpl.
    destruct Hf as (Hq & Hp & Ha). rewrite Eq in Hq. split; [|split].
    + intros e He. apply Hq. right; assumption.
    + intros pe Hpe. simpl in Hpe. apply in_app_or in Hpe as [Hpe|[<-|[]]]; [auto|]. simpl. apply Hq. left; reflexivity.
    + assumption.
  - unfold mgr_path_retire. destruct (m_closed st); [exact Hf|]. destruct (m_acid st); [exact Hf|].
    destruct (plookup id (m_probing st)); [|exact Hf]. simpl. destruct Hf as (Hq & Hp & Ha).
    split; [assumption|]. split; [|assumption]. intros pe Hpe. apply Hp. eapply pdelete_incl; eauto.
Qed.

Lemma follows_tok_ok f o st :
  (forall a b, f a = f b -> a = b) -> minv st -> op_ok o st -> frame_follows f o -> follows f st -> tok_ok_op o st.
Proof.
  intros Hinj (Hcore & _) (Hcl & Hres & Hok) Hfo (Hq & Hp & Ha).
  assert (Hheld : forall t, In t (all_toks st) ->
            (exists a, m_atok st = Some a /\ t = f (m_active st)) \/
            exists s, In s (qseqs (m_queue st) ++ pseqs (m_probing st)) /\ t = f s).
  { intros t Hin. unfold all_toks, atoks in Hin. apply in_app_or in Hin as [Hin|Hin].
    - destruct (m_atok st) as [a|] eqn:Ea; [|destruct Hin]. destruct Hin as [<-|[]]. left. exists a. split; [reflexivity|apply Ha; reflexivity].
    - right. apply in_app_or in Hin as [Hin|Hin].
      + unfold qtoks in Hin. apply in_map_iff in Hin as (e & <- & He). exists (n_seq e). split; [|apply Hq; assumption].
        apply in_or_app. left. unfold qseqs. apply in_map. assumption.
      + unfold ptoks in Hin. apply in_map_iff in Hin as (pe & <- & Hpe). exists (n_seq (snd pe)). split; [|apply Hp; assumption].
        apply in_or_app. right. unfold pseqs. apply in_map_iff. exists pe. auto. }
  destruct o; cbn [tok_ok_op frame_follows] in *; try exact I.
  - intros Hni Hin. subst tok. destruct (Hheld _ Hin) as [(a & _ & Heq)|(s & Hs & Heq)]; apply Hinj in Heq; subst; apply Hni; unfold held; [left; reflexivity|right; assumption].
  - intros Hni Hin. subst tok. destruct (Hheld _ Hin) as [(a & _ & Heq)|(s & Hs & Heq)]; apply Hinj in Heq; apply Hni; unfold held; [left; congruence|right; subst; assumption].
  - (* SetStatelessResetToken: the manager is at sequence number 0 and has no active token yet *)
    intros Hin. subst tok. destruct (Hheld _ Hin) as [(a & Hat & _)|(s & Hs & Heq)]; [congruence|].
    apply Hinj in Heq. subst s. cbn [mgr_step] in Hres. unfold mgr_set_token in Hres. rewrite Hcl in Hres.
    destruct (Z.eqb_spec (m_active st) 0) as [H0|]; [|discriminate Hres].
    destruct (core_held_once _ Hcore) as [Hnd _]. unfold held in Hnd. rewrite H0 in Hnd. inversion Hnd; contradiction.
Qed.

(** The token discipline from "every sequence number has its own token": if the tokens of all
    frames (and of the transport parameters, for number 0) follow an injective function of the
    sequence number - retransmissions of any frame included -, the conclusions of
    [token_discipline] hold. *)
Theorem token_discipline_fn (f : Z -> Z) init ops st :
  (forall a b, f a = f b -> a = b) ->
  reachP (fun o s => op_ok o s /\ frame_follows f o) init ops st ->
  disc (m_log st) = true /\ NoDup (all_toks st) /\
  (forall t, reg t (m_log st) = true <-> In t (atoks st) \/ In t (ptoks (m_probing st))) /\
  disc (m_log (mgr_close st)) = true /\ (forall t, reg t (m_log (mgr_close st)) = false).
Proof.
  intros Hinj Hr. apply (token_discipline init ops).
  assert (H : reachP op_okt init ops st /\ minv st /\ follows f st).
  { induction Hr as [|o ops st Hr (IHr & IHm & IHf) [Hok Hfo]].
    - split; [constructor|]. split; [apply minv_init|]. split; [intros e []|split; [intros pe []|discriminate]].
    - split; [|split].
      + constructor; [assumption|]. split; [assumption|]. eapply follows_tok_ok; eauto.
      + apply step_minv; assumption.
      + apply step_follows; assumption. }
  apply H.
Qed.

Lemma frame_follows_example :
  let f := fun s => 1000 + s in
  (forall a b, f a = f b -> a = b) /\
  Forall (frame_follows f) [w_add 1; w_add 2; MPathGet 1; w_add 1; MHsDone; MGet 0; w_add 2; MPathRetire 1; w_add 1].
Proof. intros f. split; [intros a b H; unfold f in H; lia|repeat constructor]. Qed.

Lemma hist_fn_reach_gen f init : forall ops past st,
  reachP (fun o s => op_ok o s /\ frame_follows f o) init past st ->
  hist_okb ops st = true -> Forall (frame_follows f) ops ->
  reachP (fun o s => op_ok o s /\ frame_follows f o) init (rev ops ++ past) (mgr_run ops st).
Proof.
  induction ops as [|o ops IH]; simpl; intros past st Hr H HF; [assumption|].
  apply andb_prop in H as [Ho Hrest]. inversion HF; subst. rewrite <- app_assoc. simpl.
  apply (IH (o :: past)); [|assumption|assumption]. constructor; [assumption|]. split; [apply op_okb_ok; assumption|assumption].
Qed.

(** non-vacuity with retransmissions for a probing, an active and a retired ID *)
Lemma token_fn_example :
  let f := fun s => 1000 + s in
  let ops := [w_add 1; w_add 2; MPathGet 1; w_add 1; MHsDone; MGet 0; w_add 2; MPathRetire 1; w_add 1] in
  (forall a b, f a = f b -> a = b) /\
  reachP (fun o s => op_ok o s /\ frame_follows f o) w_init (rev ops) (mgr_run ops (mgr_init w_init)).
Proof.
  intros f ops. destruct frame_follows_example as [Hinj HF]. split; [exact Hinj|].
  rewrite <- (app_nil_r (rev ops)). apply hist_fn_reach_gen; [constructor| |exact HF]. vm_compute. reflexivity.
Qed.
