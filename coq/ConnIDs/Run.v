(** Correspondence glue for the ConnIDs unit: a case is what the Go harness logged
    (operations with their oracle values + what the implementation returned, the
    callbacks it made and a digest of its state after every operation). *)
From Coq Require Import List ZArith Bool String.
From V Require Import Gen.Params Lib.Hex Lib.Corr.
From V Require Export ConnIDs.Model ConnIDs.Routing ConnIDs.GenRoute.
From V Require Export ConnIDs.LimitSel.
Import ListNotations.
Open Scope Z_scope.

(** state digest of the manager after an operation *)
Inductive mdigest :=
| MS (active hretired hprobe : Z) (qseqs : list Z) (probing : list (Z * Z)) (since ppc : Z)
     (atok : option Z) (acid : cid) (hsdone closed : bool) (advlimit : Z).

(** observation of one manager operation: class code, returned ID, returned flag,
    callbacks in call order, digest *)
Inductive mobs := MO (cls : Z) (rc : cid) (flag : bool) (evs : list mev) (d : mdigest).

Inductive gdigest :=
| GS (highest : Z) (active : list (Z * cid)) (toretire : list (Z * cid)) (initial : option cid)
     (nextRetire : option Z).   (* NextRetireTime(); None when the tree under test has no such accessor *)

Inductive gobs := GO (cls : Z) (evs : list gev) (d : gdigest).

(** observation of one routing operation: flag, kind, reference, copies sent, then the
    handlers map as (ID, kind code, reference) and the reset-token map *)
Inductive robs := RO (flag : bool) (kind ref sent : Z) (routes : list (cid * Z * Z)) (toks : list (Z * Z)).

(** generator wired to a real packetHandlerMap: the generator's observation plus the map *)
Inductive grobs := GRO (g : gobs) (table : list (cid * Z * Z)).

Inductive case :=
| LimitCase (src : limit_source) (advlimit accepted : Z)   (* real client constructor: manager's advertisedLimit, frames accepted before the first LIMIT error *)
| GenRouteCase (initial : cid) (clientDest : option cid) (len0 : bool) (ops : list (grop * grobs))
| MgrCase (initial : cid) (ops : list (mop * mobs))
| GenCase (initial : cid) (clientDest : option cid) (len0 : bool) (ops : list (gop * gobs))
| RouteCase (ops : list (rop * robs)).

Inductive obs :=
| LimitObs (advlimit accepted : Z)
| GenRouteObs (l : list grobs)
| MgrObs (l : list mobs)
| GenObs (l : list gobs)
| RouteObs (l : list robs).

(* ---- the model's observations ---- *)

Definition new_events {A} (old new : list A) : list A :=
  rev (firstn (List.length new - List.length old) new).

Definition mdigest_of (st : mgr) : mdigest :=
  MS (m_active st) (m_hretired st) (m_hprobe st) (map n_seq (m_queue st))
     (map (fun pe : Z * ncid => (fst pe, n_seq (snd pe))) (m_probing st))
     (m_since st) (m_ppc st) (m_atok st) (m_acid st) (m_hsdone st) (m_closed st) (m_advlimit st).

Fixpoint mgr_trace (ops : list mop) (st : mgr) : list mobs :=
  match ops with
  | [] => []
  | o :: r =>
    let (st', ret) := mgr_step o st in
    MO (rclass_code (r_cls ret)) (r_cid ret) (r_flag ret) (new_events (m_log st) (m_log st')) (mdigest_of st')
    :: mgr_trace r st'
  end.

Definition gdigest_of (g : gen) : gdigest :=
  GS (g_highest g) (g_active g) (g_toretire g) (g_initial g) (Some (gen_next_retire g)).

Fixpoint gen_trace (ops : list gop) (g : gen) : list gobs :=
  match ops with
  | [] => []
  | o :: r =>
    let (g', cls) := gen_step o g in
    GO (rclass_code cls) (new_events (g_log g) (g_log g')) (gdigest_of g') :: gen_trace r g'
  end.

Definition hkind_code (h : hkind) : Z * Z :=
  match h with HConn n => (1, n) | HLocal j => (2, j) | HRemote => (3, 0) end.

Fixpoint rt_trace (ops : list rop) (s : rt) : list robs :=
  match ops with
  | [] => []
  | o :: r =>
    let (s', res) := rt_step o s in
    RO (rr_flag res) (rr_kind res) (rr_ref res) (rr_sent res)
       (map (fun e : cid * hkind => (fst e, fst (hkind_code (snd e)), snd (hkind_code (snd e)))) (rt_handlers s'))
       (rt_tokens s')
    :: rt_trace r s'
  end.

Definition table_of (t : rt) : list (cid * Z * Z) :=
  map (fun e : cid * hkind => (fst e, fst (hkind_code (snd e)), snd (hkind_code (snd e)))) (rt_handlers t).

Fixpoint gr_trace (ops : list grop) (s : gen * rt) : list grobs :=
  match ops with
  | [] => []
  | o :: r =>
    let (s', cls) := gr_step o s in
    GRO (GO (rclass_code cls) (new_events (g_log (fst s)) (g_log (fst s'))) (gdigest_of (fst s'))) (table_of (snd s'))
    :: gr_trace r s'
  end.

Definition model_obs (c : case) : obs :=
  match c with
  | LimitCase src _ _ => LimitObs (m_advlimit (limit_state src)) (accepted_frames 40 1 (limit_state src))
  | GenRouteCase i cd l0 ops => GenRouteObs (gr_trace (map fst ops) (gr_init i cd l0))
  | MgrCase i ops => MgrObs (mgr_trace (map fst ops) (mgr_init i))
  | GenCase i cd l0 ops => GenObs (gen_trace (map fst ops) (gen_init i cd l0))
  | RouteCase ops => RouteObs (rt_trace (map fst ops) rt_init)
  end.

(* ---- comparison (event lists and map digests up to permutation) ---- *)

Section Perm.
  Context {A : Type} (eqb : A -> A -> bool).
  Fixpoint remove_first (x : A) (l : list A) : option (list A) :=
    match l with
    | [] => None
    | y :: r => if eqb x y then Some r else
                  match remove_first x r with Some r' => Some (y :: r') | None => None end
    end.
  Fixpoint perm_eqb (a b : list A) : bool :=
    match a with
    | [] => match b with [] => true | _ => false end
    | x :: r => match remove_first x b with Some b' => perm_eqb r b' | None => false end
    end.
  Fixpoint list_eqb (a b : list A) : bool :=
    match a, b with
    | [], [] => true
    | x :: a', y :: b' => eqb x y && list_eqb a' b'
    | _, _ => false
    end.
End Perm.

Definition mev_eqb (a b : mev) : bool :=
  match a, b with
  | EvRetire x, EvRetire y => x =? y
  | EvAddTok x, EvAddTok y => x =? y
  | EvRemTok x, EvRemTok y => x =? y
  | _, _ => false
  end.

Definition opt_eqb {A} (eqb : A -> A -> bool) (a b : option A) : bool :=
  match a, b with
  | Some x, Some y => eqb x y
  | None, None => true
  | _, _ => false
  end.

Definition zz_eqb (a b : Z * Z) : bool := (fst a =? fst b) && (snd a =? snd b).
Definition zc_eqb (a b : Z * cid) : bool := (fst a =? fst b) && cid_eqb (snd a) (snd b).

Definition mdigest_eqb (a b : mdigest) : bool :=
  match a, b with
  | MS a1 a2 a3 q1 p1 s1 c1 t1 i1 h1 cl1 l1, MS b1 b2 b3 q2 p2 s2 c2 t2 i2 h2 cl2 l2 =>
    (l1 =? l2) && (a1 =? b1) && (a2 =? b2) && (a3 =? b3) && list_eqb Z.eqb q1 q2 && perm_eqb zz_eqb p1 p2 &&
    (s1 =? s2) && (c1 =? c2) && opt_eqb Z.eqb t1 t2 && cid_eqb i1 i2 && Bool.eqb h1 h2 && Bool.eqb cl1 cl2
  end.

Definition mobs_eqb (a b : mobs) : bool :=
  match a, b with
  | MO c1 r1 f1 e1 d1, MO c2 r2 f2 e2 d2 =>
    (c1 =? c2) && cid_eqb r1 r2 && Bool.eqb f1 f2 && perm_eqb mev_eqb e1 e2 && mdigest_eqb d1 d2
  end.

Definition gev_eqb (a b : gev) : bool :=
  match a, b with
  | GAdd x, GAdd y => cid_eqb x y
  | GRem x, GRem y => cid_eqb x y
  | GFrame s x, GFrame t y => (s =? t) && cid_eqb x y
  | GReplace i l e, GReplace j m f => perm_eqb cid_eqb i j && Bool.eqb l m && (e =? f)
  | _, _ => false
  end.

Definition gdigest_eqb (a b : gdigest) : bool :=
  match a, b with
  | GS h1 a1 r1 i1 n1, GS h2 a2 r2 i2 n2 =>
    (h1 =? h2) && perm_eqb zc_eqb a1 a2 && list_eqb zc_eqb r1 r2 && opt_eqb cid_eqb i1 i2 &&
    match n1, n2 with Some x, Some y => x =? y | _, _ => true end
  end.

Definition gobs_eqb (a b : gobs) : bool :=
  match a, b with
  | GO c1 e1 d1, GO c2 e2 d2 => (c1 =? c2) && perm_eqb gev_eqb e1 e2 && gdigest_eqb d1 d2
  end.

Definition route_eqb (a b : cid * Z * Z) : bool :=
  cid_eqb (fst (fst a)) (fst (fst b)) && (snd (fst a) =? snd (fst b)) && (snd a =? snd b).

Definition robs_eqb (a b : robs) : bool :=
  match a, b with
  | RO f1 k1 r1 s1 h1 t1, RO f2 k2 r2 s2 h2 t2 =>
    Bool.eqb f1 f2 && (k1 =? k2) && (r1 =? r2) && (s1 =? s2) && perm_eqb route_eqb h1 h2 && perm_eqb zz_eqb t1 t2
  end.

Definition grobs_eqb (a b : grobs) : bool :=
  match a, b with GRO g1 t1, GRO g2 t2 => gobs_eqb g1 g2 && perm_eqb route_eqb t1 t2 end.

Definition check_case (c : case) : bool :=
  match c, model_obs c with
  | LimitCase _ a n, LimitObs a' n' => (a =? a') && (n =? n')
  | GenRouteCase _ _ _ ops, GenRouteObs l => list_eqb grobs_eqb (map snd ops) l
  | MgrCase _ ops, MgrObs l => list_eqb mobs_eqb (map snd ops) l
  | GenCase _ _ _ ops, GenObs l => list_eqb gobs_eqb (map snd ops) l
  | RouteCase ops, RouteObs l => list_eqb robs_eqb (map snd ops) l
  | _, _ => false
  end.
