(** Proofs about the [connIDManager] model, part 3: a computable check of the history
    hypotheses (for non-vacuity examples and for reading the theorems in chronological
    order), and the former witnesses against the retirement statement (repeated
    NEW_CONNECTION_ID for a probing ID), kept as regression examples of the repaired code. *)
From Coq Require Import List ZArith Bool Lia.
From V Require Import Gen.Params Lib.Hex ConnIDs.Model ConnIDs.ProofsGen ConnIDs.ProofsMgr ConnIDs.ProofsMgr2.
Import ListNotations.
Open Scope Z_scope.

Definition is_ok (r : rclass) : bool := match r with ROk => true | _ => false end.

Definition op_okb (o : mop) (st : mgr) : bool :=
  negb (m_closed st) && is_ok (r_cls (snd (mgr_step o st))) &&
  match o with
  | MAdd seq rpt _ _ _ => (0 <=? rpt) && (rpt <=? seq)
  | MAddPref _ _ => (m_active st =? 0) && (m_hprobe st =? 0)
  | MSetTok _ => match m_atok st with None => true | Some _ => false end
  | MClose => false
  | _ => true
  end.

Lemma op_okb_ok o st : op_okb o st = true -> op_ok o st.
Proof.
  unfold op_okb, op_ok. intros H. apply andb_prop in H as [H H3]. apply andb_prop in H as [H1 H2].
  apply negb_true_iff in H1. split; [assumption|]. split.
  - destruct (r_cls (snd (mgr_step o st))); try discriminate. reflexivity.
  - destruct o; try exact I; try discriminate.
    + apply andb_prop in H3 as [Ha Hb]. apply Z.leb_le in Ha, Hb. lia.
    + apply andb_prop in H3 as [Ha Hb]. apply Z.eqb_eq in Ha, Hb. auto.
    + destruct (m_atok st); [discriminate|reflexivity].
Qed.

(** [hist_okb ops st]: the operations [ops] (chronological) all satisfy [op_ok] when run from [st] *)
Fixpoint hist_okb (ops : list mop) (st : mgr) : bool :=
  match ops with
  | [] => true
  | o :: r => op_okb o st && hist_okb r (fst (mgr_step o st))
  end.

Lemma hist_okb_reach_gen init : forall ops past st,
  reachP op_ok init past st -> hist_okb ops st = true ->
  reachP op_ok init (rev ops ++ past) (mgr_run ops st).
Proof.
  induction ops as [|o ops IH]; simpl; intros past st Hr H; [assumption|].
  apply andb_prop in H as [Ho Hrest]. rewrite <- app_assoc. simpl.
  apply (IH (o :: past)); [|assumption]. constructor; [assumption|apply op_okb_ok; assumption].
Qed.

Theorem hist_okb_reach init ops :
  hist_okb ops (mgr_init init) = true ->
  reachP op_ok init (rev ops) (mgr_run ops (mgr_init init)).
Proof.
  intros H. rewrite <- (app_nil_r (rev ops)). apply hist_okb_reach_gen; [constructor|assumption].
Qed.

(* ---- witnesses (also replayed on the implementation by the harness: W1, W2, W3, W3b) ---- *)

Definition w_init : cid := [222; 173; 190; 239].
Definition w_add (s : Z) : mop := MAdd s 0 [s; 7] (1000 + s) 0.

(** W1: the frame of an ID in use on a probing path is retransmitted after rotation *)
Definition w1 : list mop := [w_add 1; w_add 2; w_add 3; MPathGet 1; MHsDone; MGet 0; w_add 1].
(** W2: the frame of highestProbingID is retransmitted while the ID is in use *)
Definition w2 : list mop := [w_add 1; w_add 2; MPathGet 1; w_add 1].
(** W3: the probing ID is retired, its frame is retransmitted, the ID becomes active *)
Definition w3 : list mop := [w_add 1; w_add 2; MPathGet 1; MPathRetire 1; w_add 1; MHsDone; MGet 0].
(** W3b: the active ID's frame is retransmitted while highestProbingID is above it *)
Definition w3b : list mop := [w_add 1; w_add 2; w_add 3; MHsDone; MGet 0; MPathGet 1; w_add 1].

(** Regression: before the repair of conn_id_manager.go:83 these four histories queued
    RETIRE_CONNECTION_ID for an ID in use (W1, W3b), held a sequence number twice (W2), or
    re-queued a retired ID that then became active (W3). On the repaired code each is an
    ordinary history ([hist_okb]) and ends as the retirement theorem demands. *)
Lemma retire_regression_w :
  (hist_okb w1 (mgr_init w_init) = true /\
   cntz 1 (held (mgr_run w1 (mgr_init w_init))) = 1 /\ retc 1 (m_log (mgr_run w1 (mgr_init w_init))) = 0) /\
  (hist_okb w2 (mgr_init w_init) = true /\ cntz 1 (held (mgr_run w2 (mgr_init w_init))) = 1) /\
  (hist_okb w3 (mgr_init w_init) = true /\
   m_active (mgr_run w3 (mgr_init w_init)) = 2 /\ cntz 1 (held (mgr_run w3 (mgr_init w_init))) = 0 /\
   retc 1 (m_log (mgr_run w3 (mgr_init w_init))) = 2) /\
  (hist_okb w3b (mgr_init w_init) = true /\
   m_active (mgr_run w3b (mgr_init w_init)) = 1 /\ retc 1 (m_log (mgr_run w3b (mgr_init w_init))) = 0).
Proof. vm_compute. repeat split; reflexivity. Qed.

(** a history that satisfies all hypotheses and exercises reordering, Retire Prior To,
    rotation, path probing and a retransmission that is harmless *)
Definition w_good : list mop :=
  [MSetTok 999; w_add 1; w_add 3; MAdd 2 0 [2; 7] 1002 0; w_add 1; MHsDone; MGet 17; MPathGet 1;
   MAdd 5 3 [5; 7] 1005 4; MPathRetire 1; MSent 12000; MGet 5; MAdd 4 3 [4; 7] 1004 0].

Lemma w_good_ok : hist_okb w_good (mgr_init w_init) = true.
Proof. vm_compute. reflexivity. Qed.

(** the advertised limit at work: after SetConnectionIDLimit(8) seven more IDs are accepted
    (8 with the active one) and the next one is refused; without the call the limit is
    MaxActiveConnectionIDs *)
Definition w_lim8 : list mop := MSetLimit 8 :: map w_add [1; 2; 3; 4; 5; 6; 7].

Lemma advertised_limit_example :
  hist_okb w_lim8 (mgr_init w_init) = true /\
  m_advlimit (mgr_run w_lim8 (mgr_init w_init)) = 8 /\
  snd (mgr_add 8 0 [8; 7] 1008 0 (mgr_run w_lim8 (mgr_init w_init))) = RLimit /\
  snd (mgr_add MaxActiveConnectionIDs 0 [4; 7] 1004 0
         (mgr_run (map w_add [1; 2; 3]) (mgr_init w_init))) = RLimit.
Proof. vm_compute. repeat split; reflexivity. Qed.
