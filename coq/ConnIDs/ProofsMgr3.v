(** Proofs about the [connIDManager] model, part 3: a computable check of the history
    hypotheses (for non-vacuity examples and for reading the theorems in chronological
    order), and the witnesses that refute the retirement statement without [safe_add]. *)
From Coq Require Import List ZArith Bool Lia.
From V Require Import Gen.Params Lib.Hex ConnIDs.Model ConnIDs.ProofsGen ConnIDs.ProofsMgr ConnIDs.ProofsMgr2.
Import ListNotations.
Open Scope Z_scope.

Definition safe_addb (st : mgr) (seq : Z) : bool :=
  negb (existsb (Z.eqb seq) (pseqs (m_probing st))) &&
  negb ((m_active st <? m_hprobe st) && ((seq =? m_hprobe st) || (seq =? m_active st))).

Definition is_ok (r : rclass) : bool := match r with ROk => true | _ => false end.

Definition op_okb (o : mop) (st : mgr) : bool :=
  negb (m_closed st) && is_ok (r_cls (snd (mgr_step o st))) &&
  match o with
  | MAdd seq rpt _ _ _ => (0 <=? rpt) && (rpt <=? seq) && safe_addb st seq
  | MAddPref _ _ => (m_active st =? 0) && (m_hprobe st =? 0)
  | MSetTok _ => match m_atok st with None => true | Some _ => false end
  | MClose => false
  | _ => true
  end.

Lemma safe_addb_ok st seq : safe_addb st seq = true -> safe_add st seq.
Proof.
  unfold safe_addb, safe_add. intros H. apply andb_prop in H as [H1 H2].
  apply negb_true_iff in H1. apply negb_true_iff in H2. split.
  - intros Hin. assert (existsb (Z.eqb seq) (pseqs (m_probing st)) = true); [|congruence].
    apply existsb_exists. exists seq. split; [assumption|apply Z.eqb_refl].
  - intros [Hlt Heq]. apply andb_false_iff in H2 as [H2|H2].
    + apply Z.ltb_ge in H2. lia.
    + apply orb_false_elim in H2 as [Ha Hb]. apply Z.eqb_neq in Ha, Hb. lia.
Qed.

Lemma op_okb_ok o st : op_okb o st = true -> op_ok o st.
Proof.
  unfold op_okb, op_ok. intros H. apply andb_prop in H as [H H3]. apply andb_prop in H as [H1 H2].
  apply negb_true_iff in H1. split; [assumption|]. split.
  - destruct (r_cls (snd (mgr_step o st))); try discriminate. reflexivity.
  - destruct o; try exact I; try discriminate.
    + apply andb_prop in H3 as [H3 Hs]. apply andb_prop in H3 as [Ha Hb].
      apply Z.leb_le in Ha, Hb. split; [lia|apply safe_addb_ok; assumption].
    + apply andb_prop in H3 as [Ha Hb]. apply Z.eqb_eq in Ha, Hb. auto.
    + destruct (m_atok st); [discriminate|reflexivity].
Qed.

(** [hist_okb ops st]: the operations [ops] (chronological) all satisfy [op_ok] when run from [st] *)
Fixpoint hist_okb (ops : list mop) (st : mgr) : bool :=
  match ops with
  | [] => true
  | o :: r => op_okb o st && hist_okb r (fst (mgr_step o st))
  end.

Lemma hist_okb_reach_gen init : forall ops past st,
  reachP op_ok init past st -> hist_okb ops st = true ->
  reachP op_ok init (rev ops ++ past) (mgr_run ops st).
Proof.
  induction ops as [|o ops IH]; simpl; intros past st Hr H; [assumption|].
  apply andb_prop in H as [Ho Hrest]. rewrite <- app_assoc. simpl.
  apply (IH (o :: past)); [|assumption]. constructor; [assumption|apply op_okb_ok; assumption].
Qed.

Theorem hist_okb_reach init ops :
  hist_okb ops (mgr_init init) = true ->
  reachP op_ok init (rev ops) (mgr_run ops (mgr_init init)).
Proof.
  intros H. rewrite <- (app_nil_r (rev ops)). apply hist_okb_reach_gen; [constructor|assumption].
Qed.

(** classes returned along a run *)
Fixpoint mgr_classes (ops : list mop) (st : mgr) : list rclass :=
  match ops with
  | [] => []
  | o :: r => r_cls (snd (mgr_step o st)) :: mgr_classes r (fst (mgr_step o st))
  end.

(** frames the parser can deliver: Retire Prior To <= Sequence Number, non-empty ID *)
Definition parsable (o : mop) : bool :=
  match o with
  | MAdd seq rpt c _ _ => (0 <=? rpt) && (rpt <=? seq) && match c with [] => false | _ => true end
  | _ => true
  end.

(* ---- witnesses (also replayed on the implementation by the harness: W1, W2, W3, W3b) ---- *)

Definition w_init : cid := [222; 173; 190; 239].
Definition w_add (s : Z) : mop := MAdd s 0 [s; 7] (1000 + s) 0.

(** W1: the frame of an ID in use on a probing path is retransmitted after rotation *)
Definition w1 : list mop := [w_add 1; w_add 2; w_add 3; MPathGet 1; MHsDone; MGet 0; w_add 1].
(** W2: the frame of highestProbingID is retransmitted while the ID is in use *)
Definition w2 : list mop := [w_add 1; w_add 2; MPathGet 1; w_add 1].
(** W3: the probing ID is retired, its frame is retransmitted, the ID becomes active *)
Definition w3 : list mop := [w_add 1; w_add 2; MPathGet 1; MPathRetire 1; w_add 1; MHsDone; MGet 0].
(** W3b: the active ID's frame is retransmitted while highestProbingID is above it *)
Definition w3b : list mop := [w_add 1; w_add 2; w_add 3; MHsDone; MGet 0; MPathGet 1; w_add 1].

Definition all_ok (ops : list mop) : bool :=
  forallb parsable ops && forallb is_ok (mgr_classes ops (mgr_init w_init)).

Lemma retire_refuted_in_use_w :
  all_ok w1 = true /\
  In 1 (held (mgr_run w1 (mgr_init w_init))) /\ retc 1 (m_log (mgr_run w1 (mgr_init w_init))) = 1.
Proof. vm_compute. repeat split; auto. Qed.

Lemma retire_refuted_held_twice_w :
  all_ok w2 = true /\ cntz 1 (held (mgr_run w2 (mgr_init w_init))) = 2.
Proof. vm_compute. auto. Qed.

Lemma retire_refuted_reuse_w :
  all_ok w3 = true /\
  m_active (mgr_run w3 (mgr_init w_init)) = 1 /\ retc 1 (m_log (mgr_run w3 (mgr_init w_init))) = 1.
Proof. vm_compute. auto. Qed.

Lemma retire_refuted_active_w :
  all_ok w3b = true /\
  m_active (mgr_run w3b (mgr_init w_init)) = 1 /\ retc 1 (m_log (mgr_run w3b (mgr_init w_init))) = 1.
Proof. vm_compute. auto. Qed.

(** Without [safe_add] the retirement statement is false: there are histories of parsable
    frames, all accepted, after which a RETIRE_CONNECTION_ID has been queued for a
    sequence number the manager still uses (on a probing path: W1; as the active ID after
    re-queuing a retired one: W3; as the active ID: W3b), or after which one sequence
    number is held twice (W2). *)
Theorem retire_refuted :
  (exists ops s, forallb parsable ops = true /\ forallb is_ok (mgr_classes ops (mgr_init w_init)) = true /\
                 In s (held (mgr_run ops (mgr_init w_init))) /\
                 1 <= retc s (m_log (mgr_run ops (mgr_init w_init)))) /\
  (exists ops, forallb parsable ops = true /\ forallb is_ok (mgr_classes ops (mgr_init w_init)) = true /\
               ~ NoDup (held (mgr_run ops (mgr_init w_init)))).
Proof.
  split.
  - exists w1, 1. destruct retire_refuted_in_use_w as (Hok & Hin & Hr). unfold all_ok in Hok.
    apply andb_prop in Hok as [H1 H2]. repeat split; auto. lia.
  - exists w2. destruct retire_refuted_held_twice_w as (Hok & Hc). unfold all_ok in Hok.
    apply andb_prop in Hok as [H1 H2]. repeat split; auto.
    intros Hnd. pose proof (fun s => proj1 (cntz_in s (held (mgr_run w2 (mgr_init w_init))))) as _.
    assert (Hle : cntz 1 (held (mgr_run w2 (mgr_init w_init))) <= 1).
    { clear Hc. induction Hnd as [|x l Hni Hnd IH]; simpl; [lia|].
      destruct (Z.eqb_spec x 1) as [->|]; cbn [b2z]; [|lia]. rewrite cntz_notin by assumption. lia. }
    lia.
Qed.

(** a history that satisfies all hypotheses and exercises reordering, Retire Prior To,
    rotation, path probing and a retransmission that is harmless *)
Definition w_good : list mop :=
  [MSetTok 999; w_add 1; w_add 3; MAdd 2 0 [2; 7] 1002 0; w_add 1; MHsDone; MGet 17; MPathGet 1;
   MAdd 5 3 [5; 7] 1005 4; MPathRetire 1; MSent 12000; MGet 5; MAdd 4 3 [4; 7] 1004 0].

Lemma w_good_ok : hist_okb w_good (mgr_init w_init) = true.
Proof. vm_compute. reflexivity. Qed.
