(** Proofs about the [connIDManager] model, part 4 (round 3):
    - the active connection ID of a manager that starts with a non-empty ID and is fed
      non-empty IDs never becomes empty (discharges the last hypothesis of the acceptance
      theorem); the zero-length case as its own statement;
    - set-level reading of the reset-token bookkeeping. *)
From Coq Require Import List ZArith Bool Lia.
From V Require Import Gen.Params Lib.Hex ConnIDs.Model ConnIDs.ProofsGen ConnIDs.ProofsMgr ConnIDs.ProofsMgr2 ConnIDs.ProofsMgr3.
Import ListNotations.
Open Scope Z_scope.

(* ------------------------------------------------------------------------- *)
(** * Non-empty connection IDs *)

(** the frame parser rejects zero-length connection IDs in NEW_CONNECTION_ID and the preferred
    address carries a non-empty one. For ChangeInitialConnID (the server's source connection ID
    from its first packet / Retry) non-emptiness is an ASSUMPTION about the server, not a
    protocol fact: a server may choose a zero-length source ID; that connection is then covered by
    [zero_length_refused], not by the theorems under [op_okc]. *)
Definition cid_ok (o : mop) : Prop :=
  match o with
  | MAdd _ _ c _ _ => c <> []
  | MAddPref c _ => c <> []
  | MChangeInit c => c <> []
  | _ => True
  end.

Definition op_okc (o : mop) (st : mgr) : Prop := op_ok o st /\ cid_ok o.

Definition cids_ok (st : mgr) : Prop :=
  m_acid st <> [] /\ forall e, In e (m_queue st) -> n_cid e <> [].

Lemma add_slow_elems e : forall q q' x, add_slow e q = Some q' -> In x q' -> x = e \/ In x q.
Proof.
  induction q as [|y q IH]; simpl; intros q' x H Hin.
  - inversion H; subst. destruct Hin.
  - destruct (n_seq y =? n_seq e).
    + destruct (_ && _); [|discriminate]. inversion H; subst. right; assumption.
    + destruct (n_seq e <? n_seq y).
      * inversion H; subst. destruct Hin as [<-|Hin]; [left; reflexivity|right; assumption].
      * destruct (add_slow e q) as [r'|] eqn:E; [|discriminate]. inversion H; subst.
        destruct Hin as [<-|Hin]; [right; left; reflexivity|]. destruct (IH _ _ eq_refl Hin); [left|right; right]; assumption.
Qed.

Lemma add_conn_id_elems e q q' x : add_conn_id e q = Some q' -> In x q' -> x = e \/ In x q.
Proof.
  unfold add_conn_id. destruct q as [|y q].
  - intros H; inversion H; subst. intros [<-|[]]. left; reflexivity.
  - destruct (_ <? _); [|apply add_slow_elems].
    intros H; injection H as <-. intros Hin. change (y :: q ++ [e]) with ((y :: q) ++ [e]) in Hin.
    apply in_app_or in Hin as [Hin|[<-|[]]]; [right|left]; auto.
Qed.

Lemma update_cids d st st' : update_conn_id d st = Some st' -> cids_ok st -> cids_ok st'.
Proof.
  intros H [_ Hq]. destruct (update_spec _ _ _ H) as (f & r & Hq0 & _ & Hq' & _ & _ & _ & _ & Hac & _).
  split.
  - rewrite Hac. apply Hq. rewrite Hq0. left; reflexivity.
  - intros e Hin. apply Hq. rewrite Hq0. right. rewrite <- Hq'. assumption.
Qed.

Lemma add_inner_cids seq rpt c tok d st st' r :
  c <> [] -> cids_ok st -> mgr_add_inner seq rpt c tok d st = (st', r) -> cids_ok st'.
Proof.
  intros Hc Hok. unfold mgr_add_inner. destruct (m_acid st) eqn:Ha; [intros H; inversion H; subst; assumption|].
  destruct (pfind seq (m_probing st)); [destruct (_ && _); intros H; inversion H; subst; assumption|].
  destruct (negb _ && _).
  { intros H; inversion H; subst. exact Hok. }
  set (st1 := retire_probing_stage rpt st). set (st2 := retire_queue_stage rpt st1).
  destruct (rps_spec rpt st) as (Hq1 & _ & _ & _ & Hac1 & _). fold st1 in Hq1, Hac1.
  destruct (rqs_spec rpt st1) as (Hq2 & _ & _ & _ & _ & Hac2 & _). fold st2 in Hq2, Hac2.
  assert (Hok2 : cids_ok st2).
  { destruct Hok as [Hacid Hq]. split; [rewrite Hac2, Hac1; assumption|].
    intros e Hin. apply Hq. rewrite Hq2, Hq1 in Hin.
    destruct (m_hretired st1 <? rpt); [apply filter_In in Hin; tauto|assumption]. }
  destruct (seq =? m_active st2); [intros H; inversion H; subst; assumption|].
  destruct (add_conn_id (mkN seq c tok) (m_queue st2)) as [q'|] eqn:E; [|intros H; inversion H; subst; assumption].
  assert (Hok3 : cids_ok (set_queue st2 q')).
  { destruct Hok2 as [Hacid Hq]. split; [exact Hacid|]. intros e Hin. simpl in Hin.
    destruct (add_conn_id_elems _ _ _ _ E Hin) as [->|Hin']; [exact Hc|auto]. }
  destruct (m_active (set_queue st2 q') <? rpt).
  - destruct (update_conn_id d (set_queue st2 q')) as [st4|] eqn:E4; intros H; inversion H; subst; [|assumption].
    eapply update_cids; eauto.
  - intros H; inversion H; subst. assumption.
Qed.

Lemma step_cids o st : cid_ok o -> cids_ok st -> cids_ok (fst (mgr_step o st)).
Proof.
  intros Hc Hok. destruct o as [seq rpt c tok draw|c tok|draw|k| | |c|tok|id|id|tok|n]; cbn [mgr_step]; try exact Hok.
  - unfold mgr_add. destruct (mgr_add_inner seq rpt c tok draw st) as [st' r] eqn:E.
    pose proof (add_inner_cids _ _ _ _ _ _ _ _ Hc Hok E) as H. destruct r; simpl; try exact H. destruct (_ <=? _); exact H.
  - unfold mgr_add_pref. destruct (add_conn_id (mkN 1 c tok) (m_queue st)) as [q'|] eqn:E; [|exact Hok].
    destruct Hok as [Ha Hq]. split; [exact Ha|]. intros e Hin. simpl in Hin.
    destruct (add_conn_id_elems _ _ _ _ E Hin) as [->|Hin']; [exact Hc|auto].
  - unfold mgr_get. destruct (m_closed st); [exact Hok|]. destruct (should_update st); [|exact Hok].
    destruct (update_conn_id draw st) as [st'|] eqn:E; [|exact Hok]. simpl. eapply update_cids; eauto.
  - unfold mgr_change_initial. destruct (_ =? _); [|exact Hok]. destruct Hok as [_ Hq]. split; [exact Hc|exact Hq].
  - unfold mgr_set_token. destruct (m_closed st); [exact Hok|]. destruct (_ =? _); exact Hok.
  - unfold mgr_path_get. destruct (m_closed st); [exact Hok|]. destruct (m_acid st) eqn:Ha; [exact Hok|].
    destruct (plookup id (m_probing st)); [exact Hok|]. destruct (m_queue st) as [|f r] eqn:Eq; [exact Hok|]. simpl.
    destruct Hok as [Hac Hq]. split; [rewrite Ha in Hac; exact Hac|]. intros e Hin. apply Hq. rewrite Eq. right; assumption.
  - unfold mgr_path_retire. destruct (m_closed st); [exact Hok|]. destruct (m_acid st) eqn:Ha; [exact Hok|].
    destruct (plookup id (m_probing st)); [|exact Hok]. simpl. destruct Hok as [Hac Hq]. split; [rewrite Ha in Hac; exact Hac|exact Hq].
Qed.

Theorem active_cid_nonempty init ops st :
  init <> [] -> reachP op_okc init ops st -> m_acid st <> [].
Proof.
  intros Hi Hr. assert (H : cids_ok st); [|apply H].
  induction Hr as [|o ops st Hr IH [_ Hc]].
  - split; [exact Hi|intros e []].
  - apply step_cids; assumption.
Qed.

Lemma reach_okc_ok init ops st : reachP op_okc init ops st -> reachP op_ok init ops st.
Proof. intros H. eapply reachP_weaken; [|exact H]. intros o s [Ho _]. exact Ho. Qed.

(** The acceptance theorem without a hypothesis on the current state: the connection started
    with a non-empty destination connection ID and every ID it was handed is non-empty. *)
Theorem accept_within_limit_nz init ops st seq rpt c tok d :
  init <> [] -> reachP op_okc init ops st -> 0 <= rpt <= seq ->
  let st' := fst (mgr_add seq rpt c tok d st) in
  let r := snd (mgr_add seq rpt c tok d st) in
  let lim := Z.max MaxActiveConnectionIDs (m_advlimit st) in
  r <> RProto /\ r <> RPanic /\
  (r = RLimit -> lim < zlength (held st')) /\
  (r = ROk -> 1 + zlength (m_queue st') <= lim) /\
  (accepted r -> NoDup (held st') /\
                 forall s, In s (held st') -> retc s (m_log st') = 0 /\
                                              (s = 0 \/ 1 <= frames_for s (MAdd seq rpt c tok d :: ops))) /\
  (forall L, NoDup L -> incl (held st') L -> zlength L <= lim -> r <> RLimit) /\
  (r = ROther -> exists x, (In x (m_queue st) \/ exists id, In (id, x) (m_probing st)) /\
                           n_seq x = seq /\ cid_eqb (n_cid x) c && (n_tok x =? tok) = false).
Proof.
  intros Hi Hr Hv. apply (accept_within_limit init ops); [apply reach_okc_ok; assumption| |assumption].
  eapply active_cid_nonempty; eauto.
Qed.

(** Zero-length connection IDs in use: every NEW_CONNECTION_ID frame is a PROTOCOL_VIOLATION and
    changes nothing; path probing needs no new ID. *)
Theorem zero_length_refused st seq rpt c tok d id :
  m_acid st = [] ->
  mgr_add seq rpt c tok d st = (st, RProto) /\
  (m_closed st = false -> mgr_path_get id st = (st, ROk, [], true) /\ mgr_path_retire id st = (st, ROk)).
Proof.
  intros Ha. split.
  - unfold mgr_add, mgr_add_inner. rewrite Ha. reflexivity.
  - intros Hc. unfold mgr_path_get, mgr_path_retire. rewrite Hc, Ha. auto.
Qed.

Definition cid_okb (o : mop) : bool :=
  match o with
  | MAdd _ _ c _ _ => match c with [] => false | _ => true end
  | MAddPref c _ => match c with [] => false | _ => true end
  | MChangeInit c => match c with [] => false | _ => true end
  | _ => true
  end.

Lemma cid_okb_ok o : cid_okb o = true -> cid_ok o.
Proof. destruct o; simpl; try (intros; exact I); destruct c; (discriminate || (intros _ H; discriminate H)). Qed.

Fixpoint hist_okcb (ops : list mop) (st : mgr) : bool :=
  match ops with
  | [] => true
  | o :: r => op_okb o st && cid_okb o && hist_okcb r (fst (mgr_step o st))
  end.

Lemma hist_okcb_reach_gen init : forall ops past st,
  reachP op_okc init past st -> hist_okcb ops st = true ->
  reachP op_okc init (rev ops ++ past) (mgr_run ops st).
Proof.
  induction ops as [|o ops IH]; simpl; intros past st Hr H; [assumption|].
  apply andb_prop in H as [Ho Hrest]. apply andb_prop in Ho as [Ho Hc]. rewrite <- app_assoc. simpl.
  apply (IH (o :: past)); [|assumption]. constructor; [assumption|]. split; [apply op_okb_ok|apply cid_okb_ok]; assumption.
Qed.

Theorem hist_okcb_reach init ops :
  hist_okcb ops (mgr_init init) = true -> reachP op_okc init (rev ops) (mgr_run ops (mgr_init init)).
Proof. intros H. rewrite <- (app_nil_r (rev ops)). apply hist_okcb_reach_gen; [constructor|assumption]. Qed.

Lemma w_good_okc : hist_okcb w_good (mgr_init w_init) = true /\ w_init <> [].
Proof. split; [vm_compute; reflexivity|discriminate]. Qed.

(* ------------------------------------------------------------------------- *)
(** * Reset tokens, set level *)

(** What the transport's [resetTokens] map holds for token [t] after the callbacks of the log
    (newest first): a map entry only depends on the last call that named the token. *)
Fixpoint reg (t : Z) (log : list mev) : bool :=
  match log with
  | [] => false
  | EvAddTok x :: r => if x =? t then true else reg t r
  | EvRemTok x :: r => if x =? t then false else reg t r
  | _ :: r => reg t r
  end.

(** discipline of the callbacks: a token is registered only while it is not registered,
    removed only while it is (what the harness monitors token-double-add /
    token-remove-unregistered check on the implementation; it holds whenever the peer gives
    every connection ID its own reset token, as RFC 9000 10.3 demands) *)
Fixpoint disc (log : list mev) : bool :=
  match log with
  | [] => true
  | EvAddTok x :: r => negb (reg x r) && disc r
  | EvRemTok x :: r => reg x r && disc r
  | _ :: r => disc r
  end.

Lemma disc_count log : disc log = true -> forall t, tokc t log = b2z (reg t log).
Proof.
  induction log as [|e log IH]; simpl; intros H t; [reflexivity|].
  destruct e as [s|x|x]; [auto| |]; apply andb_prop in H as [H1 H2]; specialize (IH H2).
  - apply negb_true_iff in H1. destruct (Z.eqb_spec x t) as [->|Hne]; cbn [b2z].
    + rewrite IH, H1. reflexivity.
    + rewrite IH. lia.
  - destruct (Z.eqb_spec x t) as [->|Hne]; cbn [b2z].
    + rewrite IH, H1. reflexivity.
    + rewrite IH. lia.
Qed.

(** Set-level token theorem: under the callback discipline the transport's token map is
    exactly the set of tokens of the IDs in use, each in use once; after Close it is empty. *)
Theorem tokens_exact_set init ops st :
  reachP tok_ok init ops st -> disc (m_log st) = true ->
  (forall t, reg t (m_log st) = true <-> inuse st t = 1) /\
  (forall t, inuse st t = 0 \/ inuse st t = 1) /\
  (disc (m_log (mgr_close st)) = true -> forall t, reg t (m_log (mgr_close st)) = false).
Proof.
  intros Hr Hd. destruct (tokens_exact _ _ _ Hr) as (_ & Ht & Hc).
  pose proof (disc_count _ Hd) as Hcnt. split; [|split].
  - intros t. rewrite <- Ht, Hcnt. destruct (reg t (m_log st)); simpl; split; (reflexivity || discriminate || lia).
  - intros t. rewrite <- Ht, Hcnt. destruct (reg t (m_log st)); simpl; auto.
  - intros Hd' t. pose proof (disc_count _ Hd' t) as H. rewrite Hc in H. destruct (reg t _); [discriminate H|reflexivity].
Qed.

Lemma w_good_disc : disc (m_log (mgr_run w_good (mgr_init w_init))) = true.
Proof. vm_compute. reflexivity. Qed.
