(** Proofs about the [connIDGenerator] model: issue limit, Retire rules, routing exact. *)
From Coq Require Import List ZArith Bool Lia.
From V Require Import Gen.Params Lib.Hex ConnIDs.Model.
Import ListNotations.
Open Scope Z_scope.

Definition b2z (b : bool) : Z := if b then 1 else 0.

Lemma zlength_app1 {A} (l : list A) x : zlength (l ++ [x]) = zlength l + 1.
Proof. unfold zlength. rewrite app_length. simpl. lia. Qed.
Lemma zlength_cons {A} (l : list A) x : zlength (x :: l) = zlength l + 1.
Proof. unfold zlength. simpl length. lia. Qed.
Lemma zlength_nonneg {A} (l : list A) : 0 <= zlength l.
Proof. unfold zlength. lia. Qed.

(** occurrences of a connection ID in a list *)
Fixpoint cnt (c : cid) (l : list cid) : Z :=
  match l with [] => 0 | x :: r => b2z (cid_eqb x c) + cnt c r end.

Lemma cnt_app c a b : cnt c (a ++ b) = cnt c a + cnt c b.
Proof. induction a as [|x a IH]; simpl; [reflexivity | rewrite IH; lia]. Qed.
Lemma cnt_nonneg c l : 0 <= cnt c l.
Proof. induction l as [|x l IH]; simpl; [lia | destruct (cid_eqb x c); unfold b2z; lia]. Qed.

(** net routing effect of the callback log on connection ID [c]:
    AddConnectionID counts +1, RemoveConnectionID counts -1 *)
Fixpoint rcount (c : cid) (log : list gev) : Z :=
  match log with
  | [] => 0
  | GAdd x :: r => b2z (cid_eqb x c) + rcount c r
  | GRem x :: r => rcount c r - b2z (cid_eqb x c)
  | _ :: r => rcount c r
  end.

Lemma rcount_app c a b : rcount c (a ++ b) = rcount c a + rcount c b.
Proof. induction a as [|x a IH]; simpl; [reflexivity | destruct x; rewrite IH; lia]. Qed.

Lemma rcount_rev_rem c l : rcount c (rev (map GRem l)) = - cnt c l.
Proof.
  induction l as [|x l IH]; simpl; [reflexivity|].
  rewrite rcount_app, IH. simpl. lia.
Qed.

(* ------------------------------------------------------------------------- *)
(** * Structural invariant *)

Fixpoint tsorted (l : list (Z * cid)) : Prop :=
  match l with
  | [] => True
  | x :: r => (forall y, In y r -> fst x <= fst y) /\ tsorted r
  end.

Definition ginv (g : gen) : Prop :=
  NoDup (map fst (g_active g)) /\
  (forall k, In k (map fst (g_active g)) -> k <= g_highest g) /\
  tsorted (g_toretire g).

Lemma ginv_init i cd l0 : ginv (gen_init i cd l0).
Proof.
  unfold ginv, gen_init; simpl. repeat split.
  - constructor; [intros []|constructor].
  - intros k [<-|[]]. lia.
Qed.

Lemma queue_retire_in t c l y : In y (queue_retire t c l) -> y = (t, c) \/ In y l.
Proof.
  induction l as [|[t' c'] l IH]; simpl.
  - intros [<-|[]]; auto.
  - destruct (t <? t').
    + intros [<-|H]; auto.
    + intros [<-|H]; auto. destruct (IH H); auto.
Qed.

Lemma queue_retire_sorted t c l : tsorted l -> tsorted (queue_retire t c l).
Proof.
  induction l as [|[t' c'] l IH]; simpl.
  - intros _. split; [intros y []|exact I].
  - intros [Hle Hs]. destruct (Z.ltb_spec t t') as [Hlt|Hge].
    + split.
      * intros y [<-|Hy]; simpl; [lia|]. specialize (Hle y Hy). simpl in Hle. lia.
      * split; assumption.
    + split.
      * intros y Hy. apply queue_retire_in in Hy as [->|Hy]; simpl; [lia|]. apply (Hle y Hy).
      * apply IH, Hs.
Qed.

Lemma adelete_in k l x : In x (map fst (adelete k l)) -> In x (map fst l) /\ x <> k.
Proof.
  induction l as [|[i c] l IH]; simpl; [intros []|].
  destruct (Z.eqb_spec i k) as [->|Hne].
  - intros H. destruct (IH H). auto.
  - simpl. intros [<-|H]; [auto|]. destruct (IH H). auto.
Qed.

Lemma adelete_nodup k l : NoDup (map fst l) -> NoDup (map fst (adelete k l)).
Proof.
  induction l as [|[i c] l IH]; simpl; [auto|].
  intros H. inversion H as [|? ? Hni Hnd]; subst.
  destruct (i =? k); [auto|]. simpl. constructor; [|auto].
  intros Hin. apply adelete_in in Hin as [Hin _]. auto.
Qed.

Lemma NoDup_snoc {A} (l : list A) x : NoDup l -> ~ In x l -> NoDup (l ++ [x]).
Proof.
  induction l as [|y l IH]; simpl; intros Hnd Hni.
  - constructor; [intros []|constructor].
  - inversion Hnd as [|? ? Hy Hnd']; subst. constructor.
    + intros Hin. apply in_app_or in Hin as [Hin|[->|[]]]; auto.
    + apply IH; auto.
Qed.

Lemma issue_inv o g g' r : issue o g = (g', r) -> ginv g -> ginv g'.
Proof.
  unfold issue. destruct o as [c|]; intros H; inversion H; subst; clear H; [|auto].
  intros (Hnd & Hle & Hs). unfold ginv; simpl. rewrite map_app; simpl. repeat split.
  - apply NoDup_snoc; [assumption|]. intros Hin. apply Hle in Hin. lia.
  - intros k Hin. apply in_app_or in Hin as [Hin|[<-|[]]]; [apply Hle in Hin|]; lia.
  - assumption.
Qed.

Lemma issue_n_inv k : forall os g g' r, issue_n k os g = (g', r) -> ginv g -> ginv g'.
Proof.
  induction k as [|k IH]; simpl; intros os g g' r H Hi.
  - inversion H; subst; auto.
  - destruct os as [|o os]; [inversion H; subst; auto|].
    destruct (issue o g) as [g1 r1] eqn:E. pose proof (issue_inv _ _ _ _ E Hi) as Hi1.
    destruct r1; try (inversion H; subst; assumption). eapply IH; eauto.
Qed.

Lemma remove_retired_spec now : forall l log l' log',
  remove_retired now l log = (l', log') ->
  tsorted l ->
  tsorted l' /\ (forall y, In y l' -> now < fst y) /\
  exists gone, l = gone ++ l' /\ log' = rev (map GRem (map snd gone)) ++ log /\
               (forall y, In y gone -> fst y <= now).
Proof.
  induction l as [|[t c] l IH]; simpl; intros log l' log' H Hs.
  - inversion H; subst. repeat split; auto. { intros y []. }
    exists []. repeat split; auto. intros y [].
  - destruct Hs as [Hle Hs]. destruct (Z.ltb_spec now t) as [Hlt|Hge].
    + inversion H; subst. repeat split; auto.
      * intros y [<-|Hy]; simpl; [lia|]. specialize (Hle y Hy). simpl in Hle. lia.
      * exists []. repeat split; auto. intros y [].
    + destruct (IH _ _ _ H Hs) as (Hs' & Hgt & gone & -> & -> & Hgone).
      repeat split; auto. exists ((t, c) :: gone). repeat split.
      * simpl. rewrite <- app_assoc. reflexivity.
      * intros y [<-|Hy]; simpl; [lia|auto].
Qed.

Lemma gen_step_inv o g : ginv g -> ginv (fst (gen_step o g)).
Proof.
  intros Hi. destruct o as [limit os|seq sw ex os|ex|now| |l ex| ]; simpl.
  - unfold gen_set_max. destruct (g_len0 g); [assumption|].
    destruct (issue_n _ os g) as [g' r] eqn:E. simpl. eapply issue_n_inv; eauto.
  - unfold gen_retire. destruct (g_highest g <? seq); [assumption|].
    destruct (alookup seq (g_active g)) as [c|] eqn:El; [|assumption].
    destruct (cid_eqb c sw); [assumption|].
    set (g1 := mkG _ _ _ _ _ _).
    assert (Hi1 : ginv g1).
    { destruct Hi as (Hnd & Hle & Hs). unfold ginv, g1; simpl. repeat split.
      - apply adelete_nodup, Hnd.
      - intros k Hin. apply adelete_in in Hin as [Hin _]. auto.
      - apply queue_retire_sorted, Hs. }
    destruct (seq =? 0); [assumption|].
    destruct os as [|o os]; [assumption|].
    destruct (issue o g1) as [g' r] eqn:E. simpl. eapply issue_inv; eauto.
  - unfold gen_hsdone. destruct (g_initial g) as [c|]; [|assumption].
    destruct Hi as (Hnd & Hle & Hs). unfold ginv; simpl. repeat split; auto.
    apply queue_retire_sorted, Hs.
  - unfold gen_remove_retired. destruct (remove_retired now (g_toretire g) (g_log g)) as [l log] eqn:E.
    destruct Hi as (Hnd & Hle & Hs). destruct (remove_retired_spec _ _ _ _ _ E Hs) as (Hs' & _).
    unfold ginv; simpl. auto.
  - assumption.
  - assumption.
  - assumption.
Qed.

Lemma gen_run_inv ops : forall g, ginv g -> ginv (gen_run ops g).
Proof.
  unfold gen_run. induction ops as [|o ops IH]; simpl; intros g Hi; [assumption|].
  apply IH, gen_step_inv, Hi.
Qed.

(* ------------------------------------------------------------------------- *)
(** * (a) never more unretired IDs issued than the peer's limit *)

Lemma issue_len o g g' r : issue o g = (g', r) ->
  zlength (g_active g) <= zlength (g_active g') <= zlength (g_active g) + 1.
Proof.
  unfold issue. destruct o; intros H; inversion H; subst; simpl; [rewrite zlength_app1|]; lia.
Qed.

Lemma issue_n_len k : forall os g g' r, issue_n k os g = (g', r) ->
  zlength (g_active g) <= zlength (g_active g') <= zlength (g_active g) + Z.of_nat k.
Proof.
  induction k as [|k IH]; intros os g g' r H.
  - simpl in H. inversion H; subst. lia.
  - cbn [issue_n] in H. destruct os as [|o os]; [inversion H; subst; lia|].
    destruct (issue o g) as [g1 r1] eqn:E. pose proof (issue_len _ _ _ _ E) as H1.
    destruct r1; try (inversion H; subst; lia).
    pose proof (IH _ _ _ _ H). lia.
Qed.

Lemma adelete_len k l c : alookup k l = Some c -> zlength (adelete k l) + 1 <= zlength l.
Proof.
  induction l as [|[i x] l IH]; simpl; [discriminate|].
  destruct (i =? k).
  - intros _. rewrite zlength_cons.
    assert (zlength (adelete k l) <= zlength l); [|lia].
    clear. induction l as [|[j y] l IH]; simpl; [lia|]. destruct (j =? k); rewrite ?zlength_cons; lia.
  - intros H. rewrite !zlength_cons. specialize (IH H). lia.
Qed.

Definition limit_of (o : gop) : Z := match o with GSetMax l _ => l | _ => 0 end.

Lemma gen_step_bound L o g :
  limit_of o <= L ->
  zlength (g_active g) <= Z.max 1 (Z.min L MaxIssuedConnectionIDs) ->
  zlength (g_active (fst (gen_step o g))) <= Z.max 1 (Z.min L MaxIssuedConnectionIDs).
Proof.
  intros HL Hb. destruct o as [limit os|seq sw ex os|ex|now| |l ex| ]; simpl in *.
  - unfold gen_set_max. destruct (g_len0 g); [assumption|].
    destruct (issue_n _ os g) as [g' r] eqn:E. simpl. apply issue_n_len in E. lia.
  - unfold gen_retire. destruct (g_highest g <? seq); [assumption|].
    destruct (alookup seq (g_active g)) as [c|] eqn:El; [|assumption].
    destruct (cid_eqb c sw); [assumption|].
    apply adelete_len in El.
    destruct (seq =? 0); simpl; [lia|].
    destruct os as [|o os]; simpl; [lia|].
    match goal with |- context [issue o ?g1] => destruct (issue o g1) as [g' r] eqn:E end.
    apply issue_len in E. simpl in *. lia.
  - unfold gen_hsdone. destruct (g_initial g); assumption.
  - unfold gen_remove_retired. destruct (remove_retired _ _ _). assumption.
  - assumption.
  - assumption.
  - assumption.
Qed.

Theorem gen_issue_within_limit L ops : forall g,
  Forall (fun o => limit_of o <= L) ops ->
  zlength (g_active g) <= Z.max 1 (Z.min L MaxIssuedConnectionIDs) ->
  zlength (g_active (gen_run ops g)) <= Z.max 1 (Z.min L MaxIssuedConnectionIDs).
Proof.
  unfold gen_run. induction ops as [|o ops IH]; simpl; intros g HF Hb; [assumption|].
  inversion HF; subst. apply IH; [assumption|]. apply gen_step_bound; assumption.
Qed.

Theorem gen_issue_within_limit_init L ops i cd l0 :
  Forall (fun o => limit_of o <= L) ops ->
  zlength (g_active (gen_run ops (gen_init i cd l0))) <= Z.max 1 (Z.min L MaxIssuedConnectionIDs).
Proof.
  intros HF. apply gen_issue_within_limit; [assumption|]. unfold gen_init, zlength; simpl. lia.
Qed.

(** the rules for RETIRE_CONNECTION_ID from the peer *)
Theorem gen_retire_rules g seq sw ex os :
  (g_highest g < seq -> gen_step (GRetire seq sw ex os) g = (g, RProto)) /\
  (seq <= g_highest g -> alookup seq (g_active g) = Some sw -> gen_step (GRetire seq sw ex os) g = (g, RProto)) /\
  (seq <= g_highest g -> alookup seq (g_active g) = None -> gen_step (GRetire seq sw ex os) g = (g, ROk)).
Proof.
  simpl. unfold gen_retire. repeat split.
  - intros H. destruct (Z.ltb_spec (g_highest g) seq); [reflexivity|lia].
  - intros H Hl. destruct (Z.ltb_spec (g_highest g) seq); [lia|]. rewrite Hl.
    unfold cid_eqb. replace (zeqb_list sw sw) with true; [reflexivity|].
    symmetry. apply zeqb_list_eq. reflexivity.
  - intros H Hl. destruct (Z.ltb_spec (g_highest g) seq); [lia|]. rewrite Hl. reflexivity.
Qed.

(** highestSeq counts the NEW_CONNECTION_ID frames queued; their numbers are consecutive *)
Fixpoint frames (log : list gev) : list Z :=
  match log with
  | [] => []
  | GFrame s _ :: r => s :: frames r
  | _ :: r => frames r
  end.

Fixpoint down_from (n : nat) : list Z :=
  match n with O => [] | S k => Z.of_nat n :: down_from k end.

Definition frames_ok (g : gen) : Prop :=
  exists n, g_highest g = Z.of_nat n /\ frames (g_log g) = down_from n.

Lemma frames_app a b : frames (a ++ b) = frames a ++ frames b.
Proof. induction a as [|x a IH]; simpl; [reflexivity|]. destruct x; simpl; rewrite IH; reflexivity. Qed.

Lemma frames_rev_rem l : frames (rev (map GRem l)) = [].
Proof. induction l as [|x l IH]; simpl; [reflexivity|]. rewrite frames_app, IH. reflexivity. Qed.

Lemma issue_frames o g g' r : issue o g = (g', r) -> frames_ok g -> frames_ok g'.
Proof.
  unfold issue. destruct o; intros H; inversion H; subst; clear H; [|auto].
  intros (n & Hh & Hf). exists (S n). simpl g_highest. simpl g_log. cbn [frames]. rewrite Hf, Hh.
  split; [lia|]. cbn [down_from]. f_equal. lia.
Qed.

Lemma issue_n_frames k : forall os g g' r, issue_n k os g = (g', r) -> frames_ok g -> frames_ok g'.
Proof.
  induction k as [|k IH]; simpl; intros os g g' r H Hi.
  - inversion H; subst; auto.
  - destruct os as [|o os]; [inversion H; subst; auto|].
    destruct (issue o g) as [g1 r1] eqn:E. pose proof (issue_frames _ _ _ _ E Hi) as Hi1.
    destruct r1; try (inversion H; subst; assumption). eapply IH; eauto.
Qed.

Lemma gen_step_frames o g : ginv g -> frames_ok g -> frames_ok (fst (gen_step o g)).
Proof.
  intros Hinv Hi. destruct o as [limit os|seq sw ex os|ex|now| |l ex| ]; simpl.
  - unfold gen_set_max. destruct (g_len0 g); [assumption|].
    destruct (issue_n _ os g) as [g' r] eqn:E. simpl. eapply issue_n_frames; eauto.
  - unfold gen_retire. destruct (g_highest g <? seq); [assumption|].
    destruct (alookup seq (g_active g)) as [c|]; [|assumption].
    destruct (cid_eqb c sw); [assumption|].
    destruct (seq =? 0); [assumption|].
    destruct os as [|o os]; [assumption|].
    match goal with |- context [issue o ?g1] => destruct (issue o g1) as [g' r] eqn:E end.
    simpl. eapply issue_frames; eauto.
  - unfold gen_hsdone. destruct (g_initial g); assumption.
  - unfold gen_remove_retired. destruct (remove_retired now (g_toretire g) (g_log g)) as [l log] eqn:E.
    destruct Hinv as (_ & _ & Hs). destruct (remove_retired_spec _ _ _ _ _ E Hs) as (_ & _ & gone & _ & -> & _).
    destruct Hi as (n & Hh & Hf). exists n. simpl. rewrite frames_app, frames_rev_rem. auto.
  - destruct Hi as (n & Hh & Hf). exists n. simpl. rewrite frames_app, frames_rev_rem. auto.
  - assumption.
  - assumption.
Qed.

(* ------------------------------------------------------------------------- *)
(** * (d)/(e) routing: what the runner routes = what the generator knows *)

Definition init_count (i : cid) (cd : option cid) (c : cid) : Z :=
  b2z (cid_eqb i c) + match cd with Some x => b2z (cid_eqb x c) | None => 0 end.

(** routed i cd g c: how often [c] is routed to this connection after the callbacks so far
    (the transport registers the initial source ID and, on the server, the client's
    original destination ID itself) *)
Definition routed (i : cid) (cd : option cid) (g : gen) (c : cid) : Z :=
  init_count i cd c + rcount c (g_log g).

Definition route_inv (i : cid) (cd : option cid) (g : gen) : Prop :=
  forall c, routed i cd g c = cnt c (gen_all_ids g).

Lemma route_inv_init i cd l0 : route_inv i cd (gen_init i cd l0).
Proof.
  intros c. unfold routed, init_count, gen_all_ids, gen_init; simpl.
  destruct cd; simpl; rewrite ?cnt_app; simpl; lia.
Qed.

Definition all_cnt c (g : gen) : Z :=
  match g_initial g with Some x => b2z (cid_eqb x c) | None => 0 end
  + cnt c (map snd (g_active g)) + cnt c (map snd (g_toretire g)).

Lemma all_cnt_eq c g : cnt c (gen_all_ids g) = all_cnt c g.
Proof.
  unfold gen_all_ids, all_cnt. rewrite !cnt_app. destruct (g_initial g); simpl; lia.
Qed.

Lemma queue_retire_cnt c t x l : cnt c (map snd (queue_retire t x l)) = b2z (cid_eqb x c) + cnt c (map snd l).
Proof.
  induction l as [|[t' c'] l IH]; simpl; [lia|].
  destruct (t <? t'); simpl; [lia|]. rewrite IH. lia.
Qed.

Lemma adelete_notin k l : ~ In k (map fst l) -> adelete k l = l.
Proof.
  induction l as [|[i x] l IH]; simpl; [reflexivity|]. intros H.
  destruct (Z.eqb_spec i k) as [->|Hne]; [exfalso; auto|]. f_equal. apply IH. auto.
Qed.

Lemma adelete_cnt c k l x : NoDup (map fst l) -> alookup k l = Some x ->
  cnt c (map snd (adelete k l)) + b2z (cid_eqb x c) = cnt c (map snd l).
Proof.
  induction l as [|[i y] l IH]; simpl; [discriminate|].
  intros Hnd. inversion Hnd as [|? ? Hni Hnd']; subst.
  destruct (Z.eqb_spec i k) as [->|Hne].
  - intros H; inversion H; subst. rewrite adelete_notin by assumption. lia.
  - intros H. simpl. specialize (IH Hnd' H). lia.
Qed.

Lemma issue_route i cd o g g' r : issue o g = (g', r) -> route_inv i cd g -> route_inv i cd g'.
Proof.
  unfold issue. destruct o as [x|]; intros H; inversion H; subst; clear H; [|auto].
  intros Hr c. specialize (Hr c). unfold routed in *. rewrite all_cnt_eq in *. unfold all_cnt in *. simpl.
  rewrite map_app, cnt_app. simpl. lia.
Qed.

Lemma issue_n_route i cd k : forall os g g' r, issue_n k os g = (g', r) -> route_inv i cd g -> route_inv i cd g'.
Proof.
  induction k as [|k IH]; simpl; intros os g g' r H Hi.
  - inversion H; subst; auto.
  - destruct os as [|o os]; [inversion H; subst; auto|].
    destruct (issue o g) as [g1 r1] eqn:E. pose proof (issue_route _ _ _ _ _ _ E Hi) as Hi1.
    destruct r1; try (inversion H; subst; assumption). eapply IH; eauto.
Qed.

Definition not_close (o : gop) : Prop :=
  match o with GRemoveAll => False | _ => True end.

Lemma gen_step_route i cd o g : not_close o -> ginv g -> route_inv i cd g -> route_inv i cd (fst (gen_step o g)).
Proof.
  intros Hnc Hinv Hr. destruct o as [limit os|seq sw ex os|ex|now| |l ex| ]; simpl.
  - unfold gen_set_max. destruct (g_len0 g); [assumption|].
    destruct (issue_n _ os g) as [g' r] eqn:E. simpl. eapply issue_n_route; eauto.
  - unfold gen_retire. destruct (g_highest g <? seq); [assumption|].
    destruct (alookup seq (g_active g)) as [c|] eqn:El; [|assumption].
    destruct (cid_eqb c sw); [assumption|].
    set (g1 := mkG _ _ _ _ _ _).
    assert (Hr1 : route_inv i cd g1).
    { intros x. specialize (Hr x). unfold routed in *. rewrite all_cnt_eq in *. unfold all_cnt, g1 in *. simpl.
      rewrite queue_retire_cnt. destruct Hinv as (Hnd & _).
      pose proof (adelete_cnt x _ _ _ Hnd El). lia. }
    destruct (seq =? 0); [assumption|].
    destruct os as [|o os]; [assumption|].
    destruct (issue o g1) as [g' r] eqn:E. simpl. eapply issue_route; eauto.
  - unfold gen_hsdone. destruct (g_initial g) as [c|] eqn:Ei; [|assumption].
    intros x. specialize (Hr x). unfold routed in *. rewrite all_cnt_eq in *. unfold all_cnt in *. simpl.
    rewrite Ei in Hr. rewrite queue_retire_cnt. lia.
  - unfold gen_remove_retired. destruct (remove_retired now (g_toretire g) (g_log g)) as [l log] eqn:E.
    destruct Hinv as (_ & _ & Hs). destruct (remove_retired_spec _ _ _ _ _ E Hs) as (_ & _ & gone & Hl & -> & _).
    intros x. specialize (Hr x). unfold routed in *. rewrite all_cnt_eq in *. unfold all_cnt in *. simpl.
    rewrite rcount_app, rcount_rev_rem. rewrite Hl in Hr. rewrite map_app, cnt_app in Hr. lia.
  - destruct Hnc.
  - intros x. specialize (Hr x). unfold routed in *. simpl. assumption.
  - assumption.
Qed.

Lemma gen_run_route i cd ops : forall g, Forall not_close ops -> ginv g -> route_inv i cd g ->
  ginv (gen_run ops g) /\ route_inv i cd (gen_run ops g).
Proof.
  unfold gen_run. induction ops as [|o ops IH]; simpl; intros g HF Hi Hr; [auto|].
  inversion HF; subst. apply IH; [assumption|apply gen_step_inv, Hi|apply gen_step_route; assumption].
Qed.

(** Main routing statement for every history without RemoveAll:
    (1) each connection ID is routed exactly as often as the generator holds it
        (client's original destination ID until handshake completion + expiry, active
        IDs, retired IDs that have not expired);
    (2) right after RemoveRetiredConnIDs(now) nothing with expiry <= now is left;
    (3) RemoveAll un-routes everything;
    (4) ReplaceWithClosed hands the runner exactly the routed IDs. *)
Theorem gen_routing_exact i cd l0 ops :
  Forall not_close ops ->
  let g := gen_run ops (gen_init i cd l0) in
  (forall c, routed i cd g c = cnt c (gen_all_ids g)) /\
  (forall now y, In y (g_toretire (fst (gen_step (GRemoveRetired now) g))) -> now < fst y) /\
  (forall c, routed i cd (fst (gen_step GRemoveAll g)) c = 0) /\
  (forall loc ex, exists ids, g_log (fst (gen_step (GReplaceClosed loc ex) g)) = GReplace ids loc ex :: g_log g /\
                              forall c, cnt c ids = routed i cd g c).
Proof.
  intros HF g.
  destruct (gen_run_route i cd ops (gen_init i cd l0) HF (ginv_init _ _ _) (route_inv_init _ _ _)) as [Hi Hr].
  fold g in Hi, Hr. repeat split.
  - exact Hr.
  - intros now y. simpl. unfold gen_remove_retired.
    destruct (remove_retired now (g_toretire g) (g_log g)) as [l log] eqn:E. simpl.
    destruct Hi as (_ & _ & Hs). destruct (remove_retired_spec _ _ _ _ _ E Hs) as (_ & Hgt & _). apply Hgt.
  - intros c. specialize (Hr c). unfold routed in *. simpl. rewrite rcount_app, rcount_rev_rem. lia.
  - intros loc ex. exists (gen_all_ids g). split; [reflexivity|]. intros c. symmetry. apply Hr.
Qed.

(** Expired entries really are dropped: what RemoveRetiredConnIDs removes is exactly the
    prefix with expiry <= now, and it is un-routed. *)
Theorem gen_remove_retired_exact i cd l0 ops now :
  Forall not_close ops ->
  let g := gen_run ops (gen_init i cd l0) in
  let g' := fst (gen_step (GRemoveRetired now) g) in
  exists gone, g_toretire g = gone ++ g_toretire g' /\
               (forall y, In y gone -> fst y <= now) /\
               (forall y, In y (g_toretire g') -> now < fst y) /\
               g_log g' = rev (map GRem (map snd gone)) ++ g_log g.
Proof.
  intros HF g g'.
  destruct (gen_run_route i cd ops (gen_init i cd l0) HF (ginv_init _ _ _) (route_inv_init _ _ _)) as [Hi _].
  fold g in Hi. unfold g'. simpl. unfold gen_remove_retired.
  destruct (remove_retired now (g_toretire g) (g_log g)) as [l log] eqn:E. simpl.
  destruct Hi as (_ & _ & Hs). destruct (remove_retired_spec _ _ _ _ _ E Hs) as (_ & Hgt & gone & Hl & Hlog & Hle).
  exists gone. auto.
Qed.

(** NEW_CONNECTION_ID sequence numbers are issued consecutively: after any history the
    frames queued so far carry n, n-1, ..., 1 (newest first) and highestSeq = n. *)
Theorem gen_frames_consecutive i cd l0 ops :
  frames_ok (gen_run ops (gen_init i cd l0)).
Proof.
  assert (H : forall g, ginv g -> frames_ok g -> frames_ok (gen_run ops g)).
  { unfold gen_run. induction ops as [|o ops IH]; simpl; intros g Hi Hf; [assumption|].
    apply IH; [apply gen_step_inv, Hi|apply gen_step_frames; assumption]. }
  apply H; [apply ginv_init|]. exists O. split; reflexivity.
Qed.

Lemma limits_at_least_two : 2 <= MaxActiveConnectionIDs /\ 2 <= MaxIssuedConnectionIDs.
Proof. unfold MaxActiveConnectionIDs, MaxIssuedConnectionIDs. lia. Qed.

(* ------------------------------------------------------------------------- *)
(** * Routing, set level (round 3) *)

(** how often AddConnectionID was called for [c] *)
Fixpoint adds (c : cid) (log : list gev) : Z :=
  match log with
  | [] => 0
  | GAdd x :: r => b2z (cid_eqb x c) + adds c r
  | _ :: r => adds c r
  end.

Lemma rcount_le_adds c log : rcount c log <= adds c log.
Proof.
  induction log as [|e log IH]; simpl; [lia|]. destruct e; try lia.
  destruct (cid_eqb c0 c); unfold b2z; lia.
Qed.

Lemma cnt_in c l : 1 <= cnt c l <-> In c l.
Proof.
  induction l as [|x l IH]; simpl; [split; [lia|intros []]|].
  pose proof (cnt_nonneg c l). destruct (cid_eqb x c) eqn:E; unfold b2z.
  - apply zeqb_list_eq in E. subst. split; [auto|lia].
  - split.
    + intros H1. right. apply IH. lia.
    + intros [->|Hin]; [|apply IH in Hin; lia].
      assert (cid_eqb c c = true) by (apply zeqb_list_eq; reflexivity). congruence.
Qed.

Lemma cnt_le1_nodup l : (forall c, cnt c l <= 1) -> NoDup l.
Proof.
  induction l as [|x l IH]; intros H; constructor.
  - intros Hin. apply cnt_in in Hin. specialize (H x). simpl in H.
    assert (E : cid_eqb x x = true) by (apply zeqb_list_eq; reflexivity). rewrite E in H. unfold b2z in H. lia.
  - apply IH. intros c. specialize (H c). simpl in H. destruct (cid_eqb x c); unfold b2z in H; lia.
Qed.

(** Set-level routing theorem. If no connection ID is handed to the runner twice (the
    generated IDs are fresh and differ from the two initial IDs - what the harness monitor
    route-double-add checks on the implementation), then the IDs the generator knows are
    pairwise distinct and the runner routes exactly them, each once. *)
Theorem gen_routing_exact_set i cd l0 ops :
  Forall not_close ops ->
  let g := gen_run ops (gen_init i cd l0) in
  (forall c, init_count i cd c + adds c (g_log g) <= 1) ->
  NoDup (gen_all_ids g) /\
  (forall c, routed i cd g c = 1 <-> In c (gen_all_ids g)) /\
  (forall c, routed i cd g c = 0 \/ routed i cd g c = 1).
Proof.
  intros HF g Hfresh. destruct (gen_routing_exact i cd l0 ops HF) as (Hr & _). fold g in Hr.
  assert (Hle : forall c, cnt c (gen_all_ids g) <= 1).
  { intros c. rewrite <- Hr. unfold routed. pose proof (rcount_le_adds c (g_log g)). specialize (Hfresh c). lia. }
  split; [apply cnt_le1_nodup; assumption|]. split.
  - intros c. rewrite Hr. rewrite <- cnt_in. specialize (Hle c). lia.
  - intros c. rewrite Hr. specialize (Hle c). pose proof (cnt_nonneg c (gen_all_ids g)). lia.
Qed.

(** non-vacuity of the freshness hypothesis *)
Lemma gen_fresh_example :
  let ops := [GSetMax 2 [Some [3]]; GHsDone 10; GRetire 1 [1] 20 [Some [4]]; GRemoveRetired 15] in
  Forall not_close ops /\
  forall c, init_count [1] (Some [2]) c + adds c (g_log (gen_run ops (gen_init [1] (Some [2]) false))) <= 1.
Proof.
  split; [repeat constructor|]. intros c.
  match goal with |- context [g_log ?g] => let v := eval vm_compute in (g_log g) in change (g_log g) with v end.
  unfold init_count. cbn [adds].
  assert (E : forall a b : cid, a <> b -> cid_eqb a c = true -> cid_eqb b c = true -> False).
  { intros a b Hne Ha Hb. apply zeqb_list_eq in Ha, Hb. congruence. }
  destruct (cid_eqb [1] c) eqn:E1, (cid_eqb [2] c) eqn:E2, (cid_eqb [3] c) eqn:E3, (cid_eqb [4] c) eqn:E4; unfold b2z; try lia;
    exfalso;
    first [ exact (E [1] [2] ltac:(discriminate) E1 E2) | exact (E [1] [3] ltac:(discriminate) E1 E3)
          | exact (E [1] [4] ltac:(discriminate) E1 E4) | exact (E [2] [3] ltac:(discriminate) E2 E3)
          | exact (E [2] [4] ltac:(discriminate) E2 E4) | exact (E [3] [4] ltac:(discriminate) E3 E4) ].
Qed.

(* ------------------------------------------------------------------------- *)
(** * NextRetireTime (repair of simconnids/idle-expired-still-routed) *)

(** After any history the accessor names the earliest pending expiry: it is the time of a
    waiting entry, no waiting entry is earlier, and it is 0 exactly when nothing waits
    (expiry times are positive monotonic-clock values). Waking up at that time and calling
    RemoveRetiredConnIDs removes that entry ([gen_remove_retired_exact]). *)
Theorem gen_next_retire_earliest i cd l0 ops :
  let g := gen_run ops (gen_init i cd l0) in
  (g_toretire g = [] -> gen_next_retire g = 0) /\
  (g_toretire g <> [] -> exists c, In (gen_next_retire g, c) (g_toretire g)) /\
  (forall y, In y (g_toretire g) -> gen_next_retire g <= fst y) /\
  (forall y, In y (g_toretire g) ->
     ~ In (gen_next_retire g) (map fst (g_toretire (fst (gen_step (GRemoveRetired (gen_next_retire g)) g))))).
Proof.
  intros g. pose proof (gen_run_inv ops _ (ginv_init i cd l0)) as (_ & _ & Hs). fold g in Hs.
  unfold gen_next_retire. destruct (g_toretire g) as [|[t c] r] eqn:E.
  - repeat split; try reflexivity; try congruence; intros y [].
  - simpl in Hs. destruct Hs as [Hle Hs]. split; [discriminate|]. split; [intros _; exists c; left; reflexivity|]. split.
    + intros y [<-|Hy]; simpl; [lia|]. specialize (Hle y Hy). simpl in Hle. exact Hle.
    + intros y _ Hin. simpl in Hin. unfold gen_remove_retired in Hin. rewrite E in Hin.
      destruct (remove_retired t ((t, c) :: r) (g_log g)) as [l log] eqn:Er. simpl in Hin.
      assert (Hsort : tsorted ((t, c) :: r)) by (simpl; auto).
      destruct (remove_retired_spec _ _ _ _ _ Er Hsort) as (_ & Hgt & _).
      apply in_map_iff in Hin as (z & Hz & Hin). specialize (Hgt z Hin). lia.
Qed.
