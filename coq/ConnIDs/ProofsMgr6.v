(** Proofs about the [connIDManager] model, part 6 (round 5, audit): the peer's own view of its
    active connection IDs as a concrete list; the advertised limit as connection.go /
    u_connection.go select it, composed with C12's model of advertised vs enforced limits. *)
From Coq Require Import List ZArith Bool Lia.
From V Require Import Gen.Params Lib.Hex ConnIDs.Model ConnIDs.ProofsGen ConnIDs.ProofsMgr ConnIDs.ProofsMgr2 ConnIDs.ProofsMgr3 ConnIDs.ProofsMgr4 ConnIDs.LimitSel.
From V Require AdvEnf.Model.
Import ListNotations.
Open Scope Z_scope.

(** sequence numbers the peer has sent frames for (chronological order irrelevant) *)
Definition frame_seqs (ops : list mop) : list Z :=
  flat_map (fun o => match o with MAdd s _ _ _ _ => [s] | MAddPref _ _ => [1] | _ => [] end) ops.

Lemma frames_for_in s ops : 1 <= frames_for s ops -> In s (frame_seqs ops).
Proof.
  induction ops as [|o ops IH]; [simpl; lia|]. intros H. cbn [frames_for] in H.
  change (frame_seqs (o :: ops)) with ((match o with MAdd q _ _ _ _ => [q] | MAddPref _ _ => [1] | _ => [] end) ++ frame_seqs ops).
  apply in_or_app. destruct (Z_le_gt_dec 1 (frames_for s ops)); [right; auto|left].
  destruct o; cbn [frame_of] in H; try lia.
  - destruct (Z.eqb_spec seq s); [left; assumption|cbn [b2z] in H; lia].
  - destruct (Z.eqb_spec 1 s); [left; assumption|cbn [b2z] in H; lia].
Qed.

(** what the PEER counts as its active connection IDs after the history [ops]: every sequence
    number it issued (0 and the ones in its frames) for which it has not been sent a
    RETIRE_CONNECTION_ID *)
Definition peer_unretired (ops : list mop) (st : mgr) : list Z :=
  filter (fun s => retc s (m_log st) =? 0) (nodup Z.eq_dec (0 :: frame_seqs ops)).

(** The limit is honoured as the peer sees it - no free hypothesis: if the peer's own count of
    unretired IDs after this frame is within lim = max(MaxActiveConnectionIDs, advertised limit),
    the frame is not refused with CONNECTION_ID_LIMIT_ERROR. *)
Theorem no_limit_error_within_peer_view init ops st seq rpt c tok d :
  init <> [] -> reachP op_okc init ops st -> 0 <= rpt <= seq ->
  let st' := fst (mgr_add seq rpt c tok d st) in
  zlength (peer_unretired (MAdd seq rpt c tok d :: ops) st') <= Z.max MaxActiveConnectionIDs (m_advlimit st) ->
  snd (mgr_add seq rpt c tok d st) <> RLimit.
Proof.
  intros Hi Hr Hv st' Hlen Hlim.
  destruct (accept_within_limit_nz init ops st seq rpt c tok d Hi Hr Hv) as (_ & _ & _ & _ & Hacc & HL & _).
  fold st' in Hacc, HL. destruct (Hacc (or_intror Hlim)) as [Hnd Hheld].
  apply (HL (peer_unretired (MAdd seq rpt c tok d :: ops) st')); [| |assumption|assumption].
  - unfold peer_unretired. apply NoDup_filter, NoDup_nodup.
  - intros s Hs. destruct (Hheld s Hs) as [Hret Hrecv]. unfold peer_unretired. apply filter_In. split.
    + apply nodup_In. destruct Hrecv as [->|Hf]; [left; reflexivity|right; apply frames_for_in; assumption].
    + rewrite Hret. reflexivity.
Qed.

(* ------------------------------------------------------------------------- *)
(** * Which limit is advertised (connection.go / u_connection.go) and which is enforced *)

(** the enforced bound is never below what is on the wire, and equal to it for the plain client
    and for every spec that advertises at least MaxActiveConnectionIDs *)
Theorem enforced_covers_wire src init :
  wire_limit src <= enforced_limit src init /\
  (MaxActiveConnectionIDs <= wire_limit src -> enforced_limit src init = wire_limit src) /\
  (src = LPlain -> enforced_limit src init = wire_limit src).
Proof.
  assert (Ha : m_advlimit (mgr_run (limit_call src) (mgr_init init)) =
               match src with LSpec (Some v) => v | LSpec None => 2 | LPlain => 0 end) by (destruct src as [|[v|]]; reflexivity).
  unfold enforced_limit. rewrite Ha. unfold wire_limit, MaxActiveConnectionIDs.
  destruct src as [|[v|]]; (split; [lia|split; [intros; lia|intros Hs; try discriminate Hs; lia]]).
Qed.

(** the same selection in C12's model of advertised vs enforced limits (tied to the real
    constructors by C12's correspondence): its connection ID component is our enforced limit *)
Theorem enforced_limit_is_C12 (a : AdvEnf.Model.limits) (c : AdvEnf.Model.config) init v :
  (v = Some (AdvEnf.Model.l_cid a) \/ (v = None /\ AdvEnf.Model.l_cid a = 2)) ->
  AdvEnf.Model.l_cid (AdvEnf.Model.enforced_spec a c) = enforced_limit (LSpec v) init /\
  AdvEnf.Model.l_cid a = wire_limit (LSpec v) /\
  AdvEnf.Model.l_cid (AdvEnf.Model.plain_advertised c) = wire_limit LPlain.
Proof.
  intros H.
  assert (Ha : m_advlimit (mgr_run (limit_call (LSpec v)) (mgr_init init)) = match v with Some x => x | None => 2 end)
    by (destruct v; reflexivity).
  unfold enforced_limit. rewrite Ha.
  assert (He : AdvEnf.Model.l_cid (AdvEnf.Model.enforced_spec a c) = Z.max protoMaxActiveConnectionIDs (AdvEnf.Model.l_cid a)) by reflexivity.
  assert (Hp : AdvEnf.Model.l_cid (AdvEnf.Model.plain_advertised c) = protoMaxActiveConnectionIDs) by reflexivity.
  rewrite He, Hp. unfold wire_limit, MaxActiveConnectionIDs, protoMaxActiveConnectionIDs.
  destruct H as [->|[-> H2]]; [|rewrite H2]; (split; [lia|split; [lia|reflexivity]]).
Qed.
