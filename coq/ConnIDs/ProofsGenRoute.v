(** Proofs about the composition generator + routing table (GenRoute): while the connection
    lives the table routes exactly the IDs the generator knows; after RemoveAll, or after
    ReplaceWithClosed and the closing period, nothing of the connection is left - for every
    history, whatever retirements are still waiting for their expiry. *)
From Coq Require Import List ZArith Bool Lia Permutation.
From V Require Import Gen.Params Lib.Hex ConnIDs.Model ConnIDs.Routing ConnIDs.GenRoute ConnIDs.ProofsGen ConnIDs.ProofsRouting.
Import ListNotations.
Open Scope Z_scope.

(* ---- emitted batches ---- *)

Definition ext (l0 l1 : list gev) : Prop := exists B, l1 = B ++ l0.

Lemma ext_refl l : ext l l.
Proof. exists []. reflexivity. Qed.
Lemma ext_trans a b c : ext a b -> ext b c -> ext a c.
Proof. intros [B1 ->] [B2 ->]. exists (B2 ++ B1). rewrite app_assoc. reflexivity. Qed.

Lemma emitted_app B L : emitted L (B ++ L) = rev B.
Proof.
  unfold emitted. rewrite app_length. replace (length B + length L - length L)%nat with (length B) by lia.
  rewrite firstn_app, firstn_all, Nat.sub_diag. simpl. rewrite app_nil_r. reflexivity.
Qed.

Lemma push_trans l0 l1 l2 t : ext l0 l1 -> ext l1 l2 ->
  apply_evs (emitted l0 l2) t = apply_evs (emitted l1 l2) (apply_evs (emitted l0 l1) t).
Proof.
  intros [B1 ->] [B2 ->].
  assert (E1 : emitted l0 (B2 ++ B1 ++ l0) = rev B1 ++ rev B2).
  { rewrite app_assoc, emitted_app, rev_app_distr. reflexivity. }
  rewrite E1, !emitted_app. unfold apply_evs. rewrite fold_left_app. reflexivity.
Qed.

Lemma push_refl l t : apply_evs (emitted l l) t = t.
Proof. change l with ([] ++ l) at 2. rewrite emitted_app. reflexivity. Qed.

(* ---- table facts ---- *)

Lemma hget_hset_same c k hs : hget c (hset c k hs) = Some k.
Proof. unfold hset. simpl. rewrite cid_eqb_refl. reflexivity. Qed.

Lemma hget_hdel_same c hs : hget c (hdel c hs) = None.
Proof.
  induction hs as [|[k h] hs IH]; simpl; [reflexivity|]. destruct (cid_eqb k c) eqn:E; [assumption|].
  simpl. rewrite E. assumption.
Qed.

Local Arguments hset : simpl never.
Local Arguments hdel : simpl never.
Local Arguments set_all : simpl never.
Local Arguments del_if : simpl never.

(** the table of a live connection: no removal timer pending *)
Definition quiet (t : rt) : Prop := rt_timers t = [].

Lemma step_add_quiet c t : quiet t ->
  quiet (fst (rt_step (RAdd c 1) t)) /\
  rt_handlers (fst (rt_step (RAdd c 1) t)) =
    match hget c (rt_handlers t) with Some _ => rt_handlers t | None => hset c (HConn 1) (rt_handlers t) end.
Proof.
  unfold quiet, rt_step. simpl. intros Hq. destruct (hget c (rt_handlers t)); simpl; rewrite Hq; simpl; auto.
Qed.

Lemma step_rem_quiet c t : quiet t ->
  quiet (fst (rt_step (RRemove c) t)) /\ rt_handlers (fst (rt_step (RRemove c) t)) = hdel c (rt_handlers t).
Proof. unfold quiet, rt_step. simpl. intros Hq. rewrite Hq. simpl. auto. Qed.

Definition cin (c : cid) (l : list cid) : {In c l} + {~ In c l} := in_dec (list_eq_dec Z.eq_dec) c l.

(** the table routes exactly the IDs of the list [ids] to connection 1 *)
Definition routes (ids : list cid) (t : rt) : Prop :=
  quiet t /\ forall c, hget c (rt_handlers t) = if cin c ids then Some (HConn 1) else None.

Lemma routes_perm ids ids' t : Permutation ids ids' -> routes ids t -> routes ids' t.
Proof.
  intros Hp [Hq H]. split; [assumption|]. intros c. rewrite H.
  destruct (cin c ids) as [Hi|Hn], (cin c ids') as [Hi'|Hn']; try reflexivity; exfalso.
  - apply Hn'. eapply Permutation_in; eauto.
  - apply Hn. eapply Permutation_in; [apply Permutation_sym|]; eauto.
Qed.

Lemma routes_add c ids t : routes ids t -> ~ In c ids -> routes (c :: ids) (apply_ev t (GAdd c)).
Proof.
  intros [Hq H] Hni. unfold apply_ev. simpl ev_rop. cbv iota.
  destruct (step_add_quiet c t Hq) as [Hq' Hh]. split; [assumption|]. intros x. rewrite Hh.
  pose proof (H c) as Hc. destruct (cin c ids); [contradiction|]. rewrite Hc.
  destruct (list_eq_dec Z.eq_dec x c) as [->|Hne].
  - rewrite hget_hset_same. destruct (cin c (c :: ids)) as [|Hn]; [reflexivity|]. exfalso. apply Hn. left; reflexivity.
  - rewrite hget_hset_other by assumption. rewrite H.
    destruct (cin x ids) as [Hi|Hn], (cin x (c :: ids)) as [Hi'|Hn']; try reflexivity; exfalso.
    + apply Hn'. right; assumption.
    + destruct Hi' as [?|?]; [congruence|contradiction].
Qed.

Lemma routes_rem c ids t : routes (c :: ids) t -> ~ In c ids -> routes ids (apply_ev t (GRem c)).
Proof.
  intros [Hq H] Hni. unfold apply_ev. simpl ev_rop. cbv iota.
  destruct (step_rem_quiet c t Hq) as [Hq' Hh]. split; [assumption|]. intros x. rewrite Hh.
  destruct (list_eq_dec Z.eq_dec x c) as [->|Hne].
  - rewrite hget_hdel_same. destruct (cin c ids); [contradiction|reflexivity].
  - rewrite hget_hdel_other by assumption. rewrite H.
    destruct (cin x ids) as [Hi|Hn], (cin x (c :: ids)) as [Hi'|Hn']; try reflexivity; exfalso.
    + apply Hn'. right; assumption.
    + destruct Hi' as [?|?]; [congruence|contradiction].
Qed.

Lemma routes_frame s c ids t : routes ids t -> routes ids (apply_ev t (GFrame s c)).
Proof. auto. Qed.

(** removing a duplicate-free batch of IDs one after the other *)
Lemma routes_rem_list gone : forall ids t, routes (gone ++ ids) t -> NoDup (gone ++ ids) ->
  routes ids (apply_evs (map GRem gone) t).
Proof.
  induction gone as [|c gone IH]; simpl; intros ids t Hr Hnd; [assumption|].
  inversion Hnd as [|? ? Hni Hnd']; subst. apply IH; [|assumption].
  apply routes_rem; assumption.
Qed.

(* ---- the invariant of the composition ---- *)

Definition tbl_ok (g : gen) (t : rt) : Prop :=
  ginv g /\ NoDup (gen_all_ids g) /\ routes (gen_all_ids g) t.

Definition init_ids (g : gen) : list cid := match g_initial g with Some c => [c] | None => [] end.
Lemma all_ids_eq g : gen_all_ids g = init_ids g ++ map snd (g_active g) ++ map snd (g_toretire g).
Proof. reflexivity. Qed.

Lemma nodup_app_r {A} (a b : list A) : NoDup (a ++ b) -> NoDup b.
Proof. induction a as [|x a IH]; simpl; [auto|]. intros H. inversion H; auto. Qed.

Lemma perm_insert {A} (c : A) I X R : Permutation (c :: I ++ X ++ R) (I ++ (X ++ [c]) ++ R).
Proof.
  replace (I ++ (X ++ [c]) ++ R) with ((I ++ X) ++ c :: R) by (rewrite <- !app_assoc; reflexivity).
  rewrite (app_assoc I X R). apply Permutation_middle.
Qed.

Lemma issue_tbl c g g' r t :
  issue (Some c) g = (g', r) -> tbl_ok g t -> ~ In c (gen_all_ids g) ->
  tbl_ok g' (apply_evs (emitted (g_log g) (g_log g')) t) /\ ext (g_log g) (g_log g').
Proof.
  intros H (Hi & Hnd & Hr) Hni. pose proof (issue_inv _ _ _ _ H Hi) as Hi'.
  unfold issue in H. inversion H; subst; clear H. simpl g_log.
  change (GFrame (g_highest g + 1) c :: GAdd c :: g_log g) with ([GFrame (g_highest g + 1) c; GAdd c] ++ g_log g).
  rewrite emitted_app. simpl rev. split; [|eexists; reflexivity].
  assert (Hp : Permutation (c :: gen_all_ids g)
                 (gen_all_ids (mkG (g_len0 g) (g_highest g + 1) (g_active g ++ [(g_highest g + 1, c)]) (g_toretire g) (g_initial g)
                                   ([GFrame (g_highest g + 1) c; GAdd c] ++ g_log g)))).
  { rewrite !all_ids_eq. unfold init_ids. simpl. rewrite map_app. simpl. apply perm_insert. }
  split; [assumption|]. split.
  - eapply Permutation_NoDup; [exact Hp|]. constructor; assumption.
  - eapply routes_perm; [exact Hp|]. unfold apply_evs. simpl. apply routes_frame. apply routes_add; assumption.
Qed.

(** the oracle of a loop of issues hands out IDs the generator does not know yet *)
Fixpoint issue_n_fresh (k : nat) (os : list (option cid)) (g : gen) : Prop :=
  match k, os with
  | S k', Some c :: os' => ~ In c (gen_all_ids g) /\ issue_n_fresh k' os' (fst (issue (Some c) g))
  | _, _ => True
  end.

Lemma issue_n_tbl k : forall os g g' r t,
  issue_n k os g = (g', r) -> tbl_ok g t -> issue_n_fresh k os g ->
  tbl_ok g' (apply_evs (emitted (g_log g) (g_log g')) t) /\ ext (g_log g) (g_log g').
Proof.
  induction k as [|k IH]; intros os g g' r t H Hok Hf.
  - simpl in H. inversion H; subst. rewrite push_refl. split; [assumption|apply ext_refl].
  - cbn [issue_n] in H. destruct os as [|[c|] os].
    + inversion H; subst. rewrite push_refl. split; [assumption|apply ext_refl].
    + cbn [issue_n_fresh] in Hf. destruct Hf as [Hni Hf].
      destruct (issue (Some c) g) as [g1 r1] eqn:E. simpl in Hf.
      destruct (issue_tbl _ _ _ _ _ E Hok Hni) as [Hok1 He1].
      assert (r1 = ROk) by (unfold issue in E; inversion E; reflexivity). subst r1.
      destruct (IH _ _ _ _ _ H Hok1 Hf) as [Hok2 He2].
      rewrite (push_trans _ _ _ _ He1 He2). split; [assumption|eapply ext_trans; eauto].
    + simpl in H. inversion H; subst. rewrite push_refl. split; [assumption|apply ext_refl].
Qed.

Lemma adelete_perm k l c : NoDup (map fst l) -> alookup k l = Some c ->
  Permutation (map snd l) (c :: map snd (adelete k l)).
Proof.
  induction l as [|[i x] l IH]; simpl; [discriminate|]. intros Hnd. inversion Hnd as [|? ? Hni Hnd']; subst.
  destruct (Z.eqb_spec i k) as [->|Hne].
  - intros H; inversion H; subst. rewrite adelete_notin by assumption. apply Permutation_refl.
  - intros H. simpl. eapply perm_trans; [apply perm_skip, IH; assumption|apply perm_swap].
Qed.

Lemma queue_retire_perm t c l : Permutation (map snd (queue_retire t c l)) (c :: map snd l).
Proof.
  induction l as [|[t' c'] l IH]; simpl; [apply Permutation_refl|].
  destruct (t <? t'); simpl; [apply Permutation_refl|]. eapply perm_trans; [apply perm_skip, IH|apply perm_swap].
Qed.

(** what each operation needs from its oracle *)
Definition op_fresh (o : gop) (g : gen) : Prop :=
  match o with
  | GSetMax limit os =>
    g_len0 g = false -> issue_n_fresh (Z.to_nat (Z.min limit MaxIssuedConnectionIDs - zlength (g_active g))) os g
  | GRetire _ _ _ (Some c :: _) => ~ In c (gen_all_ids g)
  | _ => True
  end.

Definition live_op (o : gop) : Prop :=
  match o with GRemoveAll | GReplaceClosed _ _ => False | _ => True end.

Lemma gen_step_tbl o g t :
  live_op o -> op_fresh o g -> tbl_ok g t ->
  tbl_ok (fst (gen_step o g)) (apply_evs (emitted (g_log g) (g_log (fst (gen_step o g)))) t).
Proof.
  intros Hl Hf Hok. pose proof Hok as (Hi & Hnd & Hr).
  destruct o as [limit os|seq sw ex os|ex|now| |l ex| ]; simpl gen_step; try destruct Hl.
  - unfold gen_set_max. simpl in Hf. destruct (g_len0 g); [simpl; rewrite push_refl; assumption|].
    destruct (issue_n _ os g) as [g' r] eqn:E. simpl. eapply issue_n_tbl; eauto.
  - unfold gen_retire. destruct (g_highest g <? seq); [simpl; rewrite push_refl; assumption|].
    destruct (alookup seq (g_active g)) as [c|] eqn:El; [|simpl; rewrite push_refl; assumption].
    destruct (cid_eqb c sw) eqn:Ecs; [simpl; rewrite push_refl; assumption|].
    set (g1 := mkG _ _ _ _ _ _).
    assert (Hp : Permutation (gen_all_ids g) (gen_all_ids g1)).
    { rewrite !all_ids_eq. unfold g1, init_ids. simpl. apply Permutation_app_head.
      destruct Hi as (Hk & _).
      eapply perm_trans; [apply Permutation_app_tail, (adelete_perm _ _ _ Hk El)|].
      simpl. eapply perm_trans; [apply Permutation_middle|].
      apply Permutation_app_head. apply Permutation_sym, queue_retire_perm. }
    assert (Hok1 : tbl_ok g1 t).
    { split; [|split].
      - pose proof (gen_step_inv (GRetire seq sw ex []) g Hi) as H1. simpl in H1. unfold gen_retire in H1.
        destruct (g_highest g <? seq) eqn:E1; [|rewrite El in H1].
        + exfalso. revert El. clear -E1 Hi. intros El. destruct Hi as (_ & Hle & _).
          assert (In seq (map fst (g_active g))).
          { clear -El. induction (g_active g) as [|[i x] l IH]; simpl in *; [discriminate|].
            destruct (Z.eqb_spec i seq); [left; assumption|right; auto]. }
          apply Hle in H. apply Z.ltb_lt in E1. lia.
        + rewrite Ecs in H1. fold g1 in H1. destruct (seq =? 0); simpl in H1; exact H1.
      - eapply Permutation_NoDup; eauto.
      - eapply routes_perm; eauto. }
    destruct (seq =? 0); [simpl; rewrite push_refl; assumption|].
    destruct os as [|[c'|] os]; [simpl; rewrite push_refl; assumption| |simpl; rewrite push_refl; assumption].
    destruct (issue (Some c') g1) as [g' r] eqn:E. simpl.
    assert (Hni : ~ In c' (gen_all_ids g1)).
    { simpl in Hf. intros Hin. apply Hf. eapply Permutation_in; [apply Permutation_sym|]; eauto. }
    change (g_log g) with (g_log g1). eapply issue_tbl; eauto.
  - unfold gen_hsdone. destruct (g_initial g) as [c|] eqn:Ei; [|simpl; rewrite push_refl; assumption].
    simpl. rewrite push_refl. split; [|split].
    + pose proof (gen_step_inv (GHsDone ex) g Hi) as H1. simpl in H1. unfold gen_hsdone in H1. rewrite Ei in H1. exact H1.
    + eapply Permutation_NoDup; [|exact Hnd]. rewrite !all_ids_eq. unfold init_ids. simpl. rewrite Ei. simpl.
      eapply perm_trans; [apply Permutation_middle|]. apply Permutation_app_head. apply Permutation_sym, queue_retire_perm.
    + eapply routes_perm; [|exact Hr]. rewrite !all_ids_eq. unfold init_ids. simpl. rewrite Ei. simpl.
      eapply perm_trans; [apply Permutation_middle|]. apply Permutation_app_head. apply Permutation_sym, queue_retire_perm.
  - unfold gen_remove_retired. destruct (remove_retired now (g_toretire g) (g_log g)) as [l log] eqn:E.
    destruct Hi as (Hk & Hle & Hs). destruct (remove_retired_spec _ _ _ _ _ E Hs) as (Hs' & _ & gone & Hl & -> & _).
    simpl. rewrite emitted_app, rev_involutive.
    assert (Hp : Permutation (gen_all_ids g) (map snd gone ++ (init_ids g ++ map snd (g_active g) ++ map snd l))).
    { rewrite all_ids_eq, Hl, map_app. rewrite !app_assoc. apply Permutation_sym.
      rewrite <- !app_assoc. eapply perm_trans; [apply Permutation_app_comm|]. rewrite <- !app_assoc.
      apply Permutation_app_head. apply Permutation_app_head. apply Permutation_app_comm. }
    split; [repeat split; assumption|]. split.
    + apply (Permutation_NoDup Hp) in Hnd. apply nodup_app_r in Hnd. exact Hnd.
    + apply routes_rem_list; [eapply routes_perm; eauto|eapply Permutation_NoDup; eauto].
  - simpl. rewrite push_refl. assumption.
Qed.

(* ---- histories ---- *)

Definition grop_ok (o : grop) (s : gen * rt) : Prop :=
  match o with
  | GROp o => live_op o /\ op_fresh o (fst s)
  | GRAdvance d => 0 <= d
  end.

Inductive gr_reach (i : cid) (cd : option cid) (l0 : bool) : list grop -> gen * rt -> Prop :=
| gr_nil : gr_reach i cd l0 [] (gr_init i cd l0)
| gr_cons o ops s : gr_reach i cd l0 ops s -> grop_ok o s -> gr_reach i cd l0 (o :: ops) (fst (gr_step o s)).

Lemma gr_init_table i cd l0 :
  rt_timers (snd (gr_init i cd l0)) = [] /\
  rt_handlers (snd (gr_init i cd l0)) =
    match cd with Some d => hset i (HConn 1) (hset d (HConn 1) []) | None => hset i (HConn 1) [] end.
Proof. destruct cd; split; reflexivity. Qed.

Lemma tbl_ok_init i cd l0 : cd <> Some i -> tbl_ok (gen_init i cd l0) (snd (gr_init i cd l0)).
Proof.
  intros Hne. split; [apply ginv_init|]. destruct (gr_init_table i cd l0) as [Hq Hh].
  unfold routes, quiet. rewrite Hh. unfold gen_init, gen_all_ids. cbn [g_initial g_active g_toretire map snd app].
  destruct cd as [d|].
  - assert (Hd : d <> i) by congruence. split; [constructor; [intros [?|[]]; congruence|constructor; [intros []|constructor]]|].
    split; [exact Hq|]. intros c.
    destruct (cin c ([d] ++ [i])) as [[<-|[<-|[]]]|Hn].
    + rewrite hget_hset_other by congruence. apply hget_hset_same.
    + apply hget_hset_same.
    + rewrite !hget_hset_other; [reflexivity| |]; intros ->; apply Hn; simpl; auto.
  - split; [constructor; [intros []|constructor]|]. split; [exact Hq|]. intros c.
    destruct (cin c ([] ++ [i])) as [[<-|[]]|Hn]; [apply hget_hset_same|].
    rewrite hget_hset_other; [reflexivity|]. intros ->. apply Hn. left; reflexivity.
Qed.

Lemma advance_routes ids t d : routes ids t -> routes ids (fst (rt_step (RAdvance d) t)).
Proof. intros [Hq H]. unfold routes, quiet, rt_step in *. simpl. rewrite Hq. simpl. auto. Qed.

(** (d) For every history of a live connection (generator calls with fresh generated IDs, time
    passing): the transport's table routes to the connection exactly the IDs the generator
    knows - the client's original destination ID until it expires, the active IDs, the
    retired IDs that have not expired - which are pairwise distinct; nothing else, no timer. *)
Theorem gr_routes_exact i cd l0 ops s :
  cd <> Some i -> gr_reach i cd l0 ops s ->
  NoDup (gen_all_ids (fst s)) /\ rt_timers (snd s) = [] /\
  forall c, hget c (rt_handlers (snd s)) = if cin c (gen_all_ids (fst s)) then Some (HConn 1) else None.
Proof.
  intros Hne Hr. assert (H : tbl_ok (fst s) (snd s)).
  { induction Hr as [|o ops s Hr IH Hok]; [apply tbl_ok_init; assumption|].
    destruct s as [g t]. destruct o as [o|d]; simpl in *.
    - destruct Hok as [Hl Hf]. pose proof (gen_step_tbl o g t Hl Hf IH) as H.
      destruct (gen_step o g) as [g' r]. exact H.
    - destruct IH as (Hi & Hnd & Hrt). split; [assumption|]. split; [assumption|]. apply advance_routes. assumption. }
  destruct H as (_ & Hnd & Hq & Hh). auto.
Qed.

Lemma hget_set_all_in c k ids : forall hs, In c ids \/ hget c hs = Some k -> hget c (set_all ids k hs) = Some k.
Proof.
  unfold set_all. induction ids as [|x ids IH]; simpl; intros hs H.
  - destruct H as [[]|H]; assumption.
  - apply IH. destruct (list_eq_dec Z.eq_dec c x) as [->|Hne].
    + right. apply hget_hset_same.
    + destruct H as [[?|Hin]|Hg]; [congruence|left; assumption|right; rewrite hget_hset_other; assumption].
Qed.

Lemma hget_del_if c k ids : forall hs,
  hget c hs = None \/ (hget c hs = Some k /\ In c ids) -> hget c (del_if k ids hs) = None.
Proof.
  unfold del_if. induction ids as [|x ids IH]; simpl; intros hs H.
  - destruct H as [H|[_ []]]; assumption.
  - apply IH. destruct (list_eq_dec Z.eq_dec c x) as [->|Hne].
    + left. destruct H as [H|[H _]]; rewrite H; [assumption|]. rewrite hkind_eqb_refl. apply hget_hdel_same.
    + assert (Hsame : hget c (match hget x hs with Some k' => if hkind_eqb k' k then hdel x hs else hs | None => hs end) = hget c hs).
      { destruct (hget x hs) as [k'|]; [|reflexivity]. destruct (hkind_eqb k' k); [|reflexivity]. apply hget_hdel_other. assumption. }
      rewrite Hsame. destruct H as [H|[H [?|Hin]]]; [left; assumption|congruence|right; auto].
Qed.

Lemma step_replace_quiet ids (loc : bool) ex ps t : quiet t -> 0 < ex ->
  let k := if loc then HLocal (rt_nlocal t) else HRemote in
  let t1 := fst (rt_step (RReplace ids loc ex ps) t) in
  rt_handlers t1 = set_all ids k (rt_handlers t) /\ rt_timers t1 = [(rt_now t + ex, ids, k)] /\ rt_now t1 = rt_now t.
Proof.
  intros Hq Hex. unfold quiet in Hq. unfold rt_step. simpl rt_step_raw. rewrite Hq. simpl.
  destruct (Z.leb_spec (rt_now t + ex) (rt_now t)) as [Hbad|_]; [lia|]. simpl. auto.
Qed.

Lemma step_advance_fire t d ids k T : rt_timers t = [(T, ids, k)] -> T <= rt_now t + d ->
  let t2 := fst (rt_step (RAdvance d) t) in
  rt_timers t2 = [] /\ rt_handlers t2 = del_if k ids (rt_handlers t).
Proof.
  intros Ht Hd. unfold rt_step. simpl rt_step_raw. simpl. rewrite Ht. simpl.
  destruct (Z.leb_spec T (rt_now t + d)) as [_|Hbad]; [|lia]. simpl. auto.
Qed.

(** (e) Closing, for every such history and whatever is still waiting for its expiry:
    RemoveAll leaves nothing of the connection in the table; ReplaceWithClosed puts a closed
    stand-in on every one of its IDs and, once the closing period has passed, the table holds
    nothing of the connection and no timer is pending. *)
Theorem gr_cleanup i cd l0 ops s :
  cd <> Some i -> gr_reach i cd l0 ops s ->
  (let s1 := fst (gr_step (GROp GRemoveAll) s) in
   rt_timers (snd s1) = [] /\ forall c, hget c (rt_handlers (snd s1)) = None) /\
  (forall loc ex d, 0 < ex -> ex <= d ->
   let s1 := fst (gr_step (GROp (GReplaceClosed loc ex)) s) in
   (forall c, hget c (rt_handlers (snd s1)) =
      if cin c (gen_all_ids (fst s)) then Some (if loc then HLocal (rt_nlocal (snd s)) else HRemote) else None) /\
   let s2 := fst (gr_step (GRAdvance d) s1) in
   rt_timers (snd s2) = [] /\ forall c, hget c (rt_handlers (snd s2)) = None).
Proof.
  intros Hne Hr. destruct (gr_routes_exact _ _ _ _ _ Hne Hr) as (Hnd & Hq & Hh). destruct s as [g t]. simpl in *.
  split.
  - unfold gen_remove_all. simpl. rewrite emitted_app, rev_involutive.
    assert (Hr0 : routes [] (apply_evs (map GRem (gen_all_ids g)) t)).
    { apply routes_rem_list; rewrite app_nil_r; [split; assumption|assumption]. }
    destruct Hr0 as [Hq0 H0]. split; [exact Hq0|]. intros c. rewrite H0. destruct (cin c []) as [[]|]; reflexivity.
  - intros loc ex d Hex Hd. unfold gen_replace. simpl.
    change (GReplace (gen_all_ids g) loc ex :: g_log g) with ([GReplace (gen_all_ids g) loc ex] ++ g_log g).
    rewrite emitted_app. simpl rev. unfold apply_evs. simpl fold_left. unfold apply_ev. simpl ev_rop. cbv iota.
    set (k := if loc then HLocal (rt_nlocal t) else HRemote).
    destruct (step_replace_quiet (gen_all_ids g) loc ex gr_close_len t Hq Hex) as (Hh1 & Ht1 & Hn1). fold k in Hh1, Ht1.
    set (t1 := fst (rt_step (RReplace (gen_all_ids g) loc ex gr_close_len) t)) in *.
    split.
    + intros c. rewrite Hh1. destruct (cin c (gen_all_ids g)) as [Hin|Hn].
      * apply hget_set_all_in. left; assumption.
      * rewrite hget_set_all_other by assumption. rewrite Hh. destruct (cin c (gen_all_ids g)); [contradiction|reflexivity].
    + assert (Hdue : rt_now t + ex <= rt_now t1 + d) by lia.
      destruct (step_advance_fire t1 d _ _ _ Ht1 Hdue) as [Ht2 Hh2]. split; [exact Ht2|]. intros c. rewrite Hh2, Hh1.
      apply hget_del_if. destruct (cin c (gen_all_ids g)) as [Hin|Hn].
      * right. split; [apply hget_set_all_in; left; assumption|assumption].
      * left. rewrite hget_set_all_other by assumption. rewrite Hh. destruct (cin c (gen_all_ids g)); [contradiction|reflexivity].
Qed.

(** non-vacuity: a server connection issues an ID, the handshake completes, the peer retires
    ID 1 (replacement [4]), time passes *)
Lemma gr_reach_example :
  exists s, gr_reach [1] (Some [2]) false
    [GRAdvance 5; GROp (GRetire 1 [1] 20 [Some [4]]); GROp (GHsDone 10); GROp (GSetMax 2 [Some [3]])] s /\ Some [2] <> Some [1].
Proof.
  eexists. split; [|discriminate].
  apply gr_cons; [apply gr_cons; [apply gr_cons; [apply gr_cons; [apply gr_nil|]|]|]|].
  - split; [exact I|]. intros _. vm_compute. split; [|exact I]. intros [H|[H|[]]]; discriminate H.
  - split; exact I.
  - split; [exact I|]. vm_compute. intros [H|[H|[H|[]]]]; discriminate H.
  - simpl. lia.
Qed.
