(** C20 round 4 — hybrid slow start: under a sustained RTT increase the sender DOES leave slow
    start; and the window arithmetic stays inside int64. *)
From Coq Require Import List ZArith Bool Lia.
From V Require Import Gen.Params Congestion.Model Congestion.ProofsCut Congestion.ProofsCubic Congestion.ProofsPacer.
Import ListNotations.
Open Scope Z_scope.

(** the delay-increase threshold of ShouldExitSlowStart: clamp(minRTT[us]/8, 4ms, 16ms), in ns *)
Definition hs_threshold (minrtt : Z) : Z :=
  Z.max (Z.min (Z.shiftr (Z.quot minrtt 1000) cc_hybridStartDelayFactorExp) cc_hybridStartDelayMaxThresholdUs)
        cc_hybridStartDelayMinThresholdUs * 1000.

Lemma hs_threshold_range m : 4000000 <= hs_threshold m <= 16000000.
Proof. unfold hs_threshold, cc_hybridStartDelayMaxThresholdUs, cc_hybridStartDelayMinThresholdUs. lia. Qed.

(** state of a round after [k] samples that were all above the bound [B] *)
Definition in_round (B k : Z) (s : sender) : Prop :=
  cwnd s < ssthresh s /\ hs_started (hs s) = true /\ hs_count (hs s) = k /\ hs_found (hs s) = false /\
  ((k = 0 /\ hs_min (hs s) = 0) \/ B < hs_min (hs s)) /\ 0 < mds s /\ 16 * mds s <= cwnd s.

Lemma window_at_least_16 s : 0 < mds s -> 16 * mds s <= cwnd s ->
  (Z.quot (cwnd s) (mds s) >=? cc_hybridStartLowWindow) = true.
Proof.
  intros Hm Hc. unfold cc_hybridStartLowWindow. apply Z.geb_le.
  apply Z.quot_le_lower_bound; lia.
Qed.

Lemma u32_small k : 0 <= k < 100 -> u32 (k + 1) = k + 1.
Proof. intros H. unfold u32. apply Z.mod_small. lia. Qed.

(** one more sample above the bound: either the 8th — exit — or the round goes on *)
Lemma round_step minrtt k s l : 0 <= minrtt -> 0 <= k < 8 ->
  in_round (minrtt + hs_threshold minrtt) k s -> minrtt + hs_threshold minrtt < l ->
  let s' := step s (ExitSS l minrtt) in
  cwnd s' = cwnd s /\
  (if k =? 7 then ssthresh s' = cwnd s else in_round (minrtt + hs_threshold minrtt) (k + 1) s').
Proof.
  intros Hmin Hk (Hss & Hst & Hc & Hf & Hm & Hmds & Hw) Hl.
  pose proof (hs_threshold_range minrtt) as Hthr.
  unfold step, step_full, maybe_exit_ss; cbn [fst].
  assert (Hin : in_slow_start s = true) by (unfold in_slow_start; apply Z.ltb_lt; exact Hss).
  rewrite Hin. unfold hs_should_exit. rewrite Hst, Hf, Hc.
  rewrite (u32_small k) by lia.
  rewrite (window_at_least_16 s Hmds Hw).
  unfold cc_hybridStartMinSamples.
  destruct (Z.leb_spec (k + 1) 8) as [_|]; [|lia].
  fold (hs_threshold minrtt).
  set (m := if (hs_min (hs s) =? 0) || (hs_min (hs s) >? l) then l else hs_min (hs s)).
  assert (Hmm : minrtt + hs_threshold minrtt < m).
  { unfold m. destruct Hm as [[_ ->]|Hm].
    - (* first sample of the round: currentMinRTT was reset to 0 *)
      cbn [Z.eqb orb]. lia.
    - destruct ((hs_min (hs s) =? 0) || (hs_min (hs s) >? l)); lia. }
  destruct (Z.eqb_spec k 7) as [->|Hk7].
  - cbn [Z.add Z.eqb Pos.add Pos.eqb Pos.succ]. change (7 + 1 =? 8) with true. cbn iota.
    destruct (Z.gtb_spec m (minrtt + hs_threshold minrtt)); [|lia].
    cbn [andb]. projs. auto.
  - destruct (Z.eqb_spec (k + 1) 8); [lia|].
    cbn [andb]. projs.
    split; [reflexivity|]. unfold in_round; cbn [hs hs_started hs_count hs_found hs_min set_hs upd cwnd ssthresh mds].
    repeat split; auto.
Qed.

Lemma round_run minrtt : 0 <= minrtt -> forall lats k s, 0 <= k -> k + Z.of_nat (length lats) = 8 ->
  in_round (minrtt + hs_threshold minrtt) k s ->
  Forall (fun l => minrtt + hs_threshold minrtt < l) lats -> lats <> [] ->
  let s' := run s (map (fun l => ExitSS l minrtt) lats) in
  cwnd s' = cwnd s /\ ssthresh s' = cwnd s.
Proof.
  intros Hmin lats. induction lats as [|l lats IH]; intros k s Hk Hlen Hr Hf Hne; [congruence|].
  inversion Hf as [|? ? Hl Hf']; subst. cbn [map run fold_left]. cbn [length] in Hlen.
  assert (Hk8 : 0 <= k < 8) by lia.
  pose proof (round_step minrtt k s l Hmin Hk8 Hr Hl) as [Hc Hn]. cbv zeta in Hn.
  destruct (Z.eqb_spec k 7) as [->|Hk7].
  - assert (lats = []) by (destruct lats; [reflexivity|cbn [length] in Hlen; lia]). subst lats.
    cbn [map fold_left]. split; [exact Hc|exact Hn].
  - assert (lats <> []) by (destruct lats; [cbn [length] in Hlen; lia|discriminate]).
    destruct (IH (k + 1) (step s (ExitSS l minrtt)) ltac:(lia) ltac:(lia) Hn Hf' H) as [A B].
    fold (run (step s (ExitSS l minrtt)) (map (fun l0 => ExitSS l0 minrtt) lats)).
    split; congruence.
Qed.

(** C20 round 4: a sustained RTT increase ends slow start. In slow start with a window of at
    least 16 packets, at the start of a receive round (no round in progress): eight consecutive
    RTT samples above minRTT + clamp(minRTT/8, 4ms, 16ms) — whatever their values — make
    MaybeExitSlowStart set ssthresh to the current window at the eighth; the window itself is
    untouched. (If a delay increase had already been found, the very first call exits.) *)
Theorem sustained_rtt_increase_exits : forall s minrtt lats,
  cwnd s < ssthresh s -> hs_started (hs s) = false -> 0 < mds s -> 16 * mds s <= cwnd s ->
  0 <= minrtt -> length lats = 8%nat -> Forall (fun l => minrtt + hs_threshold minrtt < l) lats ->
  let s' := run s (map (fun l => ExitSS l minrtt) lats) in
  cwnd s' = cwnd s /\ ssthresh s' = cwnd s /\ in_slow_start s' = false.
Proof.
  intros s minrtt lats Hss Hst Hm Hw Hmin Hlen Hf s'.
  assert (G : cwnd s' = cwnd s /\ ssthresh s' = cwnd s).
  { destruct lats as [|l lats]; [discriminate|]. inversion Hf as [|? ? Hl Hf']; subst.
    unfold s'. cbn [map run fold_left].
    destruct (hs_found (hs s)) eqn:Hfd.
    - (* already found: the first call exits; the remaining calls find the sender out of slow start *)
      assert (E : cwnd (step s (ExitSS l minrtt)) = cwnd s /\ ssthresh (step s (ExitSS l minrtt)) = cwnd s).
      { unfold step, step_full, maybe_exit_ss; cbn [fst].
        assert (Hin : in_slow_start s = true) by (unfold in_slow_start; apply Z.ltb_lt; exact Hss).
        rewrite Hin. unfold hs_should_exit. rewrite Hst. cbn [hs_found]. rewrite Hfd. projs. auto. }
      destruct E as [E1 E2].
      assert (N : forall ops s1, ssthresh s1 = cwnd s1 -> Forall (fun o => exists a b, o = ExitSS a b) ops ->
                  cwnd (run s1 ops) = cwnd s1 /\ ssthresh (run s1 ops) = ssthresh s1).
      { induction ops as [|o ops IH]; intros s1 H1 Ho; cbn [run fold_left]; [auto|].
        inversion Ho as [|? ? [a [b ->]] Ho']; subst.
        assert (S1 : step s1 (ExitSS a b) = s1).
        { unfold step, step_full, maybe_exit_ss; cbn [fst]. unfold in_slow_start. rewrite H1, Z.ltb_irrefl. reflexivity. }
        rewrite S1. apply IH; auto. }
      destruct (N (map (fun l0 => ExitSS l0 minrtt) lats) (step s (ExitSS l minrtt)) ltac:(congruence)) as [N1 N2].
      { clear. induction lats; constructor; eauto. }
      fold (run (step s (ExitSS l minrtt)) (map (fun l0 => ExitSS l0 minrtt) lats)). split; congruence.
    - (* fresh round: the first call starts it and takes the first sample *)
      pose proof (hs_threshold_range minrtt) as Hthr.
      assert (R1 : cwnd (step s (ExitSS l minrtt)) = cwnd s /\ in_round (minrtt + hs_threshold minrtt) 1 (step s (ExitSS l minrtt))).
      { unfold step, step_full, maybe_exit_ss; cbn [fst].
        assert (Hin : in_slow_start s = true) by (unfold in_slow_start; apply Z.ltb_lt; exact Hss).
        rewrite Hin. unfold hs_should_exit. rewrite Hst. cbn [hs_found hs_count hs_min hs_started hs_end hs_last]. rewrite Hfd.
        change (u32 (0 + 1)) with 1. unfold cc_hybridStartMinSamples. cbn [Z.leb Z.compare Pos.compare Pos.compare_cont Z.eqb Pos.eqb orb].
        rewrite andb_false_r. projs. split; [reflexivity|].
        unfold in_round; cbn [hs hs_started hs_count hs_found hs_min set_hs upd cwnd ssthresh mds].
        repeat split; auto. }
      destruct R1 as [C1 R1].
      destruct lats as [|l2 lats]; [discriminate|].
      destruct (round_run minrtt Hmin (l2 :: lats) 1 (step s (ExitSS l minrtt)) ltac:(lia)
                  ltac:(cbn [length] in *; lia) R1 Hf' ltac:(discriminate)) as [A B].
      fold (run (step s (ExitSS l minrtt)) (map (fun l0 => ExitSS l0 minrtt) (l2 :: lats))).
      split; congruence. }
  destruct G as [G1 G2]. repeat split; auto. unfold in_slow_start. rewrite G1, G2. apply Z.ltb_irrefl.
Qed.

Example sustained_increase_example :
  let s := new_sender 1280 true 100000000 in
  cwnd s < ssthresh s /\ hs_started (hs s) = false /\ 16 * mds s <= cwnd s /\
  hs_threshold 20000000 = 4000000 /\ hs_threshold 64000000 = 8000000 /\ hs_threshold 400000000 = 16000000.
Proof. vm_compute. repeat split; reflexivity || discriminate. Qed.

(** ** The window arithmetic never leaves int64 (cwnd is modelled in unbounded Z) *)

(** Under the proved bounds and datagram sizes below 2^40 every value the code computes from the
    window — cwnd + maxDatagramSize, maxCongestionWindow(), minCongestionWindow(), cwnd/2, the
    float64 cut — lies in [0, 2^63): the int64 arithmetic of the code agrees with the model's Z. *)
Theorem cwnd_no_int64_wrap : forall s, InvC s -> mds s < 2^40 ->
  0 <= cwnd s /\ cwnd s + mds s < 2^63 /\ 0 <= max_cwnd s < 2^63 /\ 0 <= min_cwnd s < 2^63 /\
  0 <= reno_cut (cwnd s) <= cwnd s /\ cc_maxCongestionWindowPackets * mds s + mds s < 2^63.
Proof.
  intros s (Hm & Hlo & Hhi) Hb. unfold min_cwnd, max_cwnd, cc_minCongestionWindowPackets, cc_maxCongestionWindowPackets in *.
  assert (Hc : 0 <= cwnd s) by lia.
  pose proof (ProofsCut.reno_cut_bounds (cwnd s) Hc). lia.
Qed.

(** ** SendMode's decision order, joined with the sender model *)

(** "SendAny => in flight < cwnd and the pacer has budget": the gate fed with the sender model's own
    answers — window [cwnd s], HasPacingBudget = [Budget now >= maxDatagramSize] — as the sendmode
    unit replays it on the handler's real call sequence. *)
Theorem send_gate_sender : forall s now srtt tracked amp probes pto bif,
  pto <> sm_SendAny ->
  let hb := budget (pc s) now (bw_est s srtt) >=? mds s in
  send_mode (G tracked amp probes pto bif (cwnd s) hb) = sm_SendAny ->
  bif < cwnd s /\ mds s <= budget (pc s) now (bw_est s srtt) /\
  budget (pc s) now (bw_est s srtt) <= max_burst (pc s) (bw_est s srtt) /\
  amp = false /\ probes <= 0 /\ tracked < sm_maxOutstandingSentPackets.
Proof.
  intros s now srtt tracked amp probes pto bif Hp hb H.
  destruct (send_gate tracked amp probes pto bif (cwnd s) hb Hp H) as (A & B & C & _ & D & E).
  unfold hb in E. apply Z.geb_le in E.
  repeat split; auto. apply ProofsPacer.budget_le_burst.
Qed.

(** "... unless probes are due": the decision order. Amplification limit and the tracked-packets cap
    come first (SendNone); then a due probe packet is released in the PTO mode whatever window and
    pacer say; then the window (SendAck), the outstanding cap (SendAck), the pacer (SendPacingLimited). *)
Theorem send_mode_order : forall tracked amp probes pto bif cw bud,
  let m := send_mode (G tracked amp probes pto bif cw bud) in
  (amp = true -> m = sm_SendNone) /\
  (amp = false -> sm_maxTrackedSentPackets <= tracked -> m = sm_SendNone) /\
  (amp = false -> tracked < sm_maxTrackedSentPackets -> 0 < probes -> m = pto) /\
  (amp = false -> tracked < sm_maxTrackedSentPackets -> probes <= 0 -> cw <= bif -> m = sm_SendAck) /\
  (amp = false -> tracked < sm_maxOutstandingSentPackets -> probes <= 0 -> bif < cw -> bud = false -> m = sm_SendPacingLimited) /\
  (amp = false -> tracked < sm_maxOutstandingSentPackets -> probes <= 0 -> bif < cw -> bud = true -> m = sm_SendAny).
Proof.
  intros tracked amp probes pto bif cw bud m. unfold m, send_mode.
  assert (Hcaps : sm_maxOutstandingSentPackets <= sm_maxTrackedSentPackets) by (vm_compute; discriminate).
  repeat split; intros; subst;
    repeat match goal with
    | |- context[?a >=? ?b] => destruct (Z.geb_spec a b); try lia
    | |- context[?a >? ?b] => destruct (Z.gtb_spec a b); try lia
    | |- context[?a <? ?b] => destruct (Z.ltb_spec a b); try lia
    end; cbn [negb]; try reflexivity; try lia.
Qed.

(** ** The connection's send path (Conn.triggerSending … sendPacketsWithoutGSO) *)

Fixpoint count_any (l : list Z) : Z :=
  match l with [] => 0 | m :: r => (if m =? sm_SendAny then 1 else 0) + count_any r end.

Lemma count_any_nonneg l : 0 <= count_any l.
Proof. induction l as [|m r IH]; cbn [count_any]; [lia|]. destruct (m =? sm_SendAny); lia. Qed.

Lemma pace_deadline_nonzero tus : pace_deadline tus <> 0.
Proof. unfold pace_deadline. destruct (Z.eqb_spec tus 0); [vm_compute; discriminate|auto]. Qed.

Lemma pace_loop_bound fuel : forall avail hr modes tus sent s' d rest,
  pace_loop fuel avail hr modes tus sent = (s', d, rest) ->
  sent <= s' /\ s' - sent <= 1 + count_any modes /\ s' - sent <= Z.max avail 0 /\
  (d = 0 \/ d = pg_deadlineSendImmediately \/ d = pace_deadline tus).
Proof.
  induction fuel as [|f IH]; intros avail hr modes tus sent s' d rest H; cbn [pace_loop] in H;
    pose proof (count_any_nonneg modes) as Hcm.
  - inversion H; subst. lia.
  - destruct (Z.leb_spec avail 0).
    + inversion H; subst. lia.
    + destruct modes as [|m r]; [inversion H; subst; cbn [count_any]; lia|].
      pose proof (count_any_nonneg r) as Hr. cbn [count_any].
      destruct (Z.eqb_spec m sm_SendPacingLimited).
      { inversion H; subst. destruct (sm_SendPacingLimited =? sm_SendAny); lia. }
      destruct (Z.eqb_spec m sm_SendAny) as [->|]; cbn [negb] in H.
      2:{ inversion H; subst. lia. }
      destruct hr.
      { inversion H; subst. lia. }
      apply IH in H. lia.
Qed.

(** Every packet the send path releases is licensed by its own SendMode = any answer (asked right
    before it): the number of packets sent in one triggerSending never exceeds the number of "any"
    answers, nor the data available; a pacing-limited answer always arms the pacing deadline (with
    TimeUntilSend, or "immediately" if that is zero) — it is never left at 0. *)
Theorem trigger_sending_gated : forall avail hr modes tus,
  let r := trigger_sending avail hr modes tus in
  pr_sent r <= count_any modes /\ pr_sent r <= Z.max avail 0 /\
  (pr_deadline r = 0 \/ pr_deadline r = pg_deadlineSendImmediately \/ pr_deadline r = pace_deadline tus) /\
  (forall rest, modes = sm_SendPacingLimited :: rest -> pr_sent r = 0 /\ pr_deadline r = pace_deadline tus /\ pr_deadline r <> 0).
Proof.
  intros avail hr modes tus r. unfold r, trigger_sending.
  destruct modes as [|m rest0].
  - cbn. repeat split; try lia; intros; discriminate.
  - pose proof (count_any_nonneg rest0) as Hc. cbn [count_any].
    destruct (Z.eqb_spec m sm_SendAny) as [->|Hany].
    + destruct (pace_loop (Z.to_nat avail + 1) avail hr rest0 tus 0) as [[s' d] rest] eqn:E.
      apply pace_loop_bound in E. cbn [pr_sent pr_deadline pr_blocked].
      repeat split; try lia; exfalso; match goal with H : _ :: _ = _ :: _ |- _ => inversion H as [[H2 H3]]; vm_compute in H2; discriminate end.
    + pose proof (Z.le_max_r avail 0) as Hmx.
      destruct (Z.eqb_spec m sm_SendNone) as [->|].
      { cbn [pr_sent pr_deadline]. repeat split; try lia; exfalso; match goal with H : _ :: _ = _ :: _ |- _ => inversion H as [[H2 H3]]; vm_compute in H2; discriminate end. }
      destruct (Z.eqb_spec m sm_SendPacingLimited) as [->|].
      { cbn [pr_sent pr_deadline]. repeat split; try lia; auto. apply pace_deadline_nonzero. }
      destruct (Z.eqb_spec m sm_SendAck) as [->|].
      { cbn [pr_sent pr_deadline]. repeat split; try lia; exfalso; match goal with H : _ :: _ = _ :: _ |- _ => inversion H as [[H2 H3]]; vm_compute in H2; discriminate end. }
      cbn [pr_sent pr_deadline]. repeat split; try lia; exfalso; match goal with H : _ :: _ = _ :: _ |- _ => inversion H; congruence end.
Qed.

Example trigger_sending_example :
  let r := trigger_sending 40 false [6;6;6;6;6;6;6;6;6;6;5] 541066375 in
  pr_sent r = 10 /\ pr_deadline r = 541066375 /\ pr_rest r = [] /\
  pr_sent (trigger_sending 3 true [6;6] (-1)) = 1 /\ pr_deadline (trigger_sending 3 true [6;6] (-1)) = pg_deadlineSendImmediately.
Proof. vm_compute. repeat split; reflexivity. Qed.
