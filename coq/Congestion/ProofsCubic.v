(** C20 — the congestion window of the Reno sender (what production constructs): bounds,
    at most one reduction per window of packets, no reduction on ACK, growth only while
    window-limited. All statements are about the model of Congestion.Model, for ALL op
    lists and ALL oracle values (RTTs, cubic-mode oracles are unused in Reno mode). *)
From Coq Require Import List ZArith Bool Lia.
From V Require Import Gen.Params Congestion.Model Congestion.ProofsCut.
Import ListNotations.
Open Scope Z_scope.

Ltac consts := unfold min_cwnd, max_cwnd, cc_minCongestionWindowPackets, cc_maxCongestionWindowPackets,
  cc_initialCongestionWindow, cc_maxBurstPackets, cc_invalidPacketNumber in *.
Ltac break_if := match goal with |- context[if ?c then _ else _] => destruct c eqn:? end.
Ltac fin := repeat split; auto; try lia; try congruence.
Ltac projs := cbn [reno ls la lc exited cwnd ssthresh nacked initCwnd initMaxCwnd mds hs pc upd set_window set_hs fst snd] in *.

(** The property fixes these numbers. *)
Lemma min_window_is_two_packets : cc_minCongestionWindowPackets = 2.
Proof. reflexivity. Qed.
Lemma max_window_above_min : cc_minCongestionWindowPackets < cc_maxCongestionWindowPackets.
Proof. reflexivity. Qed.

(** Configuration fields never change, except mds by SetMaxDatagramSize. *)
Definition same_cfg (s s' : sender) : Prop :=
  reno s' = reno s /\ initCwnd s' = initCwnd s /\ initMaxCwnd s' = initMaxCwnd s.

Definition is_mtu (o : op) : bool := match o with SetMDS _ => true | _ => false end.
Definition is_reset (o : op) : bool := match o with RTO _ | Migrate => true | _ => false end.

(** ** ACKs *)

(** What one ACK can do to the window (Reno). *)
Lemma maybe_increase_spec s prior orc : reno s = true ->
  let s' := maybe_increase s prior orc in
  same_cfg s s' /\ mds s' = mds s /\ ls s' = ls s /\ la s' = la s /\ lc s' = lc s /\ ssthresh s' = ssthresh s /\
  (cwnd s' = cwnd s \/
   (cwnd s' = cwnd s + mds s /\ is_cwnd_limited s prior = true /\ cwnd s < max_cwnd s)).
Proof.
  intros Hr. unfold maybe_increase, same_cfg. rewrite Hr.
  repeat break_if; projs; repeat split; auto; right; repeat split; auto;
    try (destruct (is_cwnd_limited s prior); [reflexivity|discriminate]); lia.
Qed.

Lemma on_acked_spec s pn prior orc : reno s = true ->
  let s' := on_acked s pn prior orc in
  same_cfg s s' /\ mds s' = mds s /\ ls s' = ls s /\ lc s' = lc s /\ ssthresh s' = ssthresh s /\
  (cwnd s' = cwnd s \/
   (cwnd s' = cwnd s + mds s /\ is_cwnd_limited s prior = true /\ cwnd s < max_cwnd s)).
Proof.
  intros Hr. unfold on_acked.
  set (s1 := upd s (ls s) (Z.max pn (la s)) (lc s) (exited s) (cwnd s) (ssthresh s) (nacked s) (mds s) (hs s) (pc s)).
  assert (Hr1 : reno s1 = true) by exact Hr.
  pose proof (maybe_increase_spec s1 prior orc Hr1) as H. cbv zeta in H.
  assert (Hl : is_cwnd_limited s1 prior = is_cwnd_limited s prior) by reflexivity.
  assert (Hm : max_cwnd s1 = max_cwnd s) by reflexivity.
  rewrite Hl, Hm in H.
  destruct H as ((A1 & A2 & A3) & B & C & D & E & F & G).
  unfold same_cfg in *.
  repeat break_if; projs; subst s1; projs; repeat split; auto; try congruence.
Qed.

Lemma ack_run_spec k : forall s pn prior, reno s = true -> 0 <= mds s ->
  let s' := ack_run k s pn prior in
  same_cfg s s' /\ mds s' = mds s /\ ls s' = ls s /\ lc s' = lc s /\ ssthresh s' = ssthresh s /\ cwnd s <= cwnd s'.
Proof.
  induction k as [|k IH]; intros s pn prior Hr Hm; cbn [ack_run].
  - unfold same_cfg; repeat split; auto; lia.
  - pose proof (on_acked_spec s pn prior 0 Hr) as H; cbv zeta in H.
    destruct H as ((A1 & A2 & A3) & B & C & D & E & F).
    set (s1 := on_acked s pn prior 0) in *.
    assert (Hr1 : reno s1 = true) by congruence.
    assert (Hm1 : 0 <= mds s1) by lia.
    pose proof (IH s1 (pn + 1) prior Hr1 Hm1) as H; cbv zeta in H.
    destruct H as ((A1' & A2' & A3') & B' & C' & D' & E' & F').
    unfold same_cfg; repeat split; try congruence. lia.
Qed.

(** ** Window bounds *)

Definition Inv (s : sender) : Prop :=
  0 < mds s /\ min_cwnd s <= cwnd s /\ cwnd s < max_cwnd s + mds s /\
  min_cwnd s <= initCwnd s /\ initCwnd s < max_cwnd s + mds s.

(** the weaker invariant that survives MTU increases: upper bound, and the lower bound of the
    datagram size [m0] the connection started with *)
Definition InvW (m0 : Z) (s : sender) : Prop :=
  0 < m0 /\ m0 <= mds s /\ m0 * cc_minCongestionWindowPackets <= cwnd s /\ cwnd s < max_cwnd s + mds s /\
  m0 * cc_minCongestionWindowPackets <= initCwnd s /\ initCwnd s < m0 * cc_maxCongestionWindowPackets + m0.

Lemma ack_run_bounds k : forall s pn prior, reno s = true -> 0 < mds s -> cwnd s < max_cwnd s + mds s ->
  cwnd (ack_run k s pn prior) < max_cwnd s + mds s.
Proof.
  induction k as [|k IH]; intros s pn prior Hr Hm Hc; cbn [ack_run]; [exact Hc|].
  pose proof (on_acked_spec s pn prior 0 Hr) as H; cbv zeta in H.
  destruct H as ((A1 & A2 & A3) & B & C & D & E & F).
  set (s1 := on_acked s pn prior 0) in *.
  assert (Hmx : max_cwnd s1 = max_cwnd s) by (unfold max_cwnd; congruence).
  rewrite <- Hmx, <- B. apply IH; [congruence|lia|]. rewrite Hmx, B. lia.
Qed.

Lemma on_lost_spec s pn orc : reno s = true -> 0 <= cwnd s ->
  let s' := on_lost s pn orc in
  same_cfg s s' /\ mds s' = mds s /\ ls s' = ls s /\
  ((s' = s /\ pn <= lc s) \/
   (lc s < pn /\ lc s' = ls s /\ min_cwnd s <= cwnd s' /\ (cwnd s' <= cwnd s \/ cwnd s' = min_cwnd s))).
Proof.
  intros Hr Hc. unfold on_lost, same_cfg. rewrite Hr.
  pose proof (reno_cut_bounds (cwnd s) Hc) as Hcut.
  repeat break_if; projs; repeat split; auto; try (left; split; [reflexivity|lia]); right; repeat split; try lia.
Qed.

(** the bounds proper, and what OnConnectionMigration needs of the initial window *)
Definition InvC (s : sender) : Prop := 0 < mds s /\ min_cwnd s <= cwnd s /\ cwnd s < max_cwnd s + mds s.
Definition InvJ (s : sender) : Prop := min_cwnd s <= initCwnd s /\ initCwnd s < max_cwnd s + mds s.
Definition is_migrate (o : op) : bool := match o with Migrate => true | _ => false end.

Ltac fin2 := repeat split; auto; try lia; try congruence; try (left; congruence).

(** One event: the bounds are kept by EVERY op (SetMaxDatagramSize included: the window is
    re-floored to the new minimum); only OnConnectionMigration needs the initial window to
    be a legal window for the current datagram size. *)
Lemma step_core s o : reno s = true -> InvC s -> (is_migrate o = true -> InvJ s) ->
  InvC (step s o) /\ reno (step s o) = true /\ initCwnd (step s o) = initCwnd s /\
  (mds (step s o) = mds s \/ (o = SetMDS (mds (step s o)) /\ mds s <= mds (step s o))).
Proof.
  intros Hr (Hm & Hlo & Hhi) HJ.
  destruct o; unfold step, step_full; cbn [fst].
  - (* Sent *) unfold on_sent. destruct retrans; projs; unfold InvC; projs; consts; projs; fin2.
  - (* Acked *)
    pose proof (on_acked_spec s pn prior orc Hr) as H; cbv zeta in H.
    destruct H as ((A1 & A2 & A3) & B & C & D & E & F).
    unfold InvC. consts. rewrite B. fin2.
  - (* Lost *)
    assert (Hc : 0 <= cwnd s) by (consts; lia).
    pose proof (on_lost_spec s pn orc Hr Hc) as H; cbv zeta in H.
    destruct H as ((A1 & A2 & A3) & B & C & [[E _]|(E1 & E2 & E3 & E4)]).
    + rewrite E. unfold InvC. fin2.
    + unfold InvC. consts. rewrite B. fin2.
  - (* RTO *) unfold on_rto. destruct b; projs; unfold InvC; projs; consts; projs; fin2.
  - (* SetMDS *) unfold set_mds. destruct (Z.ltb_spec m (mds s)); cbn [fst]; [unfold InvC; fin2|].
    unfold InvC; consts; projs. fin2.
  - (* ExitSS *) unfold maybe_exit_ss. break_if; [|unfold InvC; fin2].
    destruct (hs_should_exit (hs s) latest minrtt (Z.quot (cwnd s) (mds s))) as [h' ex].
    destruct ex; unfold InvC; consts; projs; fin2.
  - (* Migrate *) destruct (HJ eq_refl) as [J1 J2]. unfold on_migration, InvC; consts; projs. fin2.
  - (* AckRun *)
    assert (Hm0 : 0 <= mds s) by lia.
    pose proof (ack_run_spec (Z.to_nat n) s pn0 prior Hr Hm0) as H; cbv zeta in H.
    destruct H as ((A1 & A2 & A3) & B & C & D & E & F).
    pose proof (ack_run_bounds (Z.to_nat n) s pn0 prior Hr Hm Hhi) as Hb.
    unfold InvC. consts. rewrite B. fin2.
  - unfold InvC; fin2.
  - destruct (time_until_send (pc s) (bw_est s srtt)); cbn [fst]; unfold InvC; fin2.
  - unfold InvC; fin2.
  - unfold InvC; fin2.
  - unfold InvC; fin2.
Qed.

(** C20(a) for every history of the events production issues (everything but the never-called
    OnConnectionMigration), SetMaxDatagramSize with ANY sizes included:
    two full-size packets <= cwnd <= maximum (+ one packet). *)
Theorem cwnd_bounds_production : forall s ops, reno s = true -> InvC s -> Forall (fun o => is_migrate o = false) ops ->
  let s' := run s ops in
  cc_minCongestionWindowPackets * mds s' <= cwnd s' /\ cwnd s' <= cc_maxCongestionWindowPackets * mds s' + mds s'.
Proof.
  intros s ops Hr Hi Hf.
  assert (H : InvC (run s ops)).
  { revert s Hr Hi. induction ops as [|o ops IH]; intros s Hr Hi; cbn [run fold_left]; [auto|].
    inversion Hf as [|? ? Ho Hf']; subst.
    destruct (step_core s o Hr Hi ltac:(intro X; congruence)) as (A & B & _).
    apply IH; auto. }
  cbv zeta. destruct H as (Hm & Hlo & Hhi). unfold min_cwnd, max_cwnd in *. lia.
Qed.

(** [Inv] = bounds + the initial window is a legal window: kept by ALL ops as long as the
    new datagram sizes leave the initial window legal (m * 2 <= initial window, i.e.
    m <= 16 x the initial size for NewCubicSender). *)
Definition op_fits (c : Z) (o : op) : Prop :=
  match o with SetMDS m => m * cc_minCongestionWindowPackets <= c | _ => True end.

Lemma step_Inv s o : reno s = true -> op_fits (initCwnd s) o -> Inv s ->
  Inv (step s o) /\ reno (step s o) = true /\ initCwnd (step s o) = initCwnd s.
Proof.
  intros Hr Ho (Hm & Hlo & Hhi & Hilo & Hihi).
  destruct (step_core s o Hr (conj Hm (conj Hlo Hhi)) (fun _ => conj Hilo Hihi)) as ((A1 & A2 & A3) & B & C & D).
  split; [|auto]. unfold Inv. rewrite C.
  destruct D as [D|[D1 D2]].
  - unfold min_cwnd, max_cwnd in *. rewrite D in *. fin2.
  - rewrite D1 in Ho. cbn in Ho. consts. fin2.
Qed.

Lemma run_Inv ops : forall s, reno s = true ->
  Forall (op_fits (initCwnd s)) ops -> Inv s -> Inv (run s ops) /\ reno (run s ops) = true.
Proof.
  induction ops as [|o ops IH]; intros s Hr Hf Hi; cbn [run fold_left]; [auto|].
  inversion Hf as [|? ? Ho Hf']; subst.
  destruct (step_Inv s o Hr Ho Hi) as (Hi' & Hr' & Hc).
  apply IH; auto. rewrite Hc. exact Hf'.
Qed.

(** C20(a) for ALL ops (migration included), across MTU increases. *)
Theorem cwnd_bounds : forall s ops, reno s = true -> Inv s -> Forall (op_fits (initCwnd s)) ops ->
  let s' := run s ops in
  cc_minCongestionWindowPackets * mds s' <= cwnd s' /\ cwnd s' <= cc_maxCongestionWindowPackets * mds s' + mds s'.
Proof.
  intros s ops Hr Hi Hf s'.
  destruct (run_Inv ops s Hr Hf Hi) as [(Hm & Hlo & Hhi & _) _].
  fold s' in Hm, Hlo, Hhi. unfold min_cwnd, max_cwnd in *. lia.
Qed.

Lemma new_sender_Inv m r srtt0 : 0 < m -> Inv (new_sender m r srtt0).
Proof. intros Hm. unfold Inv, new_sender, new_sender_w; consts; projs. lia. Qed.

Lemma new_sender_InvC m r srtt0 : 0 < m -> InvC (new_sender m r srtt0).
Proof. intros Hm. unfold InvC, new_sender, new_sender_w; consts; projs. lia. Qed.

Lemma new_sender_initCwnd m r srtt0 : initCwnd (new_sender m r srtt0) = cc_initialCongestionWindow * m.
Proof. reflexivity. Qed.

(** An MTU increase always keeps the bounds (the repaired SetMaxDatagramSize re-floors the window). *)
Lemma set_mds_Inv s m : reno s = true -> Inv s -> m * cc_minCongestionWindowPackets <= initCwnd s ->
  Inv (step s (SetMDS m)).
Proof. intros Hr Hi Hic. destruct (step_Inv s (SetMDS m) Hr Hic Hi) as [H _]. exact H. Qed.

(** With arbitrary MTU sizes AND migration: the upper bound always holds, the lower bound
    for the initial datagram size. *)
Lemma step_InvW m0 s o : reno s = true -> InvW m0 s -> InvW m0 (step s o) /\ reno (step s o) = true.
Proof.
  intros Hr (H0 & Hm & Hlo & Hhi & Hilo & Hihi).
  assert (Hms : 0 < mds s) by lia.
  destruct o; unfold step, step_full; cbn [fst].
  - unfold on_sent. destruct retrans; projs; unfold InvW; projs; consts; projs; fin.
  - pose proof (on_acked_spec s pn prior orc Hr) as H; cbv zeta in H.
    destruct H as ((A1 & A2 & A3) & B & C & D & E & F).
    unfold InvW. consts. rewrite B, A2. fin.
  - assert (Hc : 0 <= cwnd s) by (consts; lia).
    pose proof (on_lost_spec s pn orc Hr Hc) as H; cbv zeta in H.
    destruct H as ((A1 & A2 & A3) & B & C & [[E _]|(E1 & E2 & E3 & E4)]).
    + rewrite E. fin.
    + unfold InvW. consts. rewrite B, A2. fin.
  - unfold on_rto. destruct b; projs; unfold InvW; projs; consts; projs; fin.
  - unfold set_mds. destruct (Z.ltb_spec m (mds s)); cbn [fst]; [fin|].
    unfold InvW; consts; projs. fin.
  - unfold maybe_exit_ss. break_if; [|split; [repeat split; auto|auto]].
    destruct (hs_should_exit (hs s) latest minrtt (Z.quot (cwnd s) (mds s))) as [h' ex].
    destruct ex; unfold InvW; consts; projs; fin.
  - unfold on_migration, InvW; consts; projs. fin.
  - assert (Hm0 : 0 <= mds s) by lia.
    pose proof (ack_run_spec (Z.to_nat n) s pn0 prior Hr Hm0) as H; cbv zeta in H.
    destruct H as ((A1 & A2 & A3) & B & C & D & E & F).
    assert (Hhi' : cwnd s < max_cwnd s + mds s) by (consts; lia).
    pose proof (ack_run_bounds (Z.to_nat n) s pn0 prior Hr Hms Hhi') as Hb.
    unfold InvW. consts. rewrite B, A2. fin.
  - fin.
  - destruct (time_until_send (pc s) (bw_est s srtt)); cbn [fst]; fin.
  - fin.
  - fin.
  - fin.
Qed.

Theorem cwnd_bounds_with_mtu : forall m0 r0 srtt0 ops, 0 < m0 -> r0 = true ->
  let s' := run (new_sender m0 r0 srtt0) ops in
  m0 <= mds s' /\ cc_minCongestionWindowPackets * m0 <= cwnd s' /\
  cwnd s' <= cc_maxCongestionWindowPackets * mds s' + mds s'.
Proof.
  intros m0 r0 srtt0 ops Hm0 ->.
  assert (H : forall ops s, reno s = true -> InvW m0 s -> InvW m0 (run s ops)).
  { induction ops0 as [|o ops0 IH]; intros s Hr Hi; cbn [run fold_left]; [auto|].
    destruct (step_InvW m0 s o Hr Hi). apply IH; auto. }
  intros s'. assert (Hi : InvW m0 s').
  { apply H; [reflexivity|]. unfold InvW, new_sender, new_sender_w; consts; projs. lia. }
  destruct Hi as (_ & A & B & C & _). unfold max_cwnd in *. lia.
Qed.

(** Regression: the histories that used to leave the window below two full-size packets
    (finding cubic/min-after-mtu, formerly min_after_mtu_refuted) now end exactly at the
    new minimum. *)
Definition witness_short : list op :=
  [RTO true; Acked 1 1280 3000 5 0; Lost 2 1280 3000 0; SetMDS 1452].

(** only events the ackhandler really issues (Sent / Acked / Lost / SetMaxDatagramSize), packet numbers increasing *)
Definition witness_prod : list op :=
  [Sent 10 0 1280 true 100000000; Lost 0 1280 1280 0; Sent 20 1 1280 true 100000000; Lost 1 1280 1280 0;
   Sent 30 2 1280 true 100000000; Lost 2 1280 1280 0; Sent 40 3 1280 true 100000000; Lost 3 1280 1280 0;
   Sent 50 4 1280 true 100000000; Lost 4 1280 1280 0;
   Sent 60 5 1280 true 100000000; Sent 61 6 1280 true 100000000; Sent 62 7 1280 true 100000000;
   Sent 63 8 1280 true 100000000; Sent 64 9 1280 true 100000000;
   Acked 5 1280 6400 100 0; Acked 6 1280 6400 101 0; Acked 7 1280 6400 102 0; Acked 8 1280 6400 103 0; Acked 9 1280 6400 104 0;
   Sent 70 10 1280 true 100000000; Lost 10 1280 1280 0; Sent 80 11 1280 true 100000000; Lost 11 1280 1280 0;
   Sent 90 12 1280 true 100000000; Lost 12 1280 1280 0;
   SetMDS 1452].

Example min_after_mtu_regression :
  let a := run (new_sender 1280 true 100000000) (removelast witness_short) in
  let a' := step a (SetMDS 1452) in
  let b := run (new_sender 1280 true 100000000) (removelast witness_prod) in
  let b' := step b (SetMDS 1452) in
  cwnd a = 2688 /\ cwnd a' = 2904 /\ cwnd b = 2799 /\ cwnd b' = 2904 /\
  cwnd a' = cc_minCongestionWindowPackets * mds a' /\ cwnd b' = cc_minCongestionWindowPackets * mds b'.
Proof. vm_compute. repeat split; reflexivity. Qed.

(** ** No reduction on ACK; only loss / timeout / migration events shrink the window *)

Definition may_shrink (o : op) : bool :=
  match o with Lost _ _ _ _ | RTO _ | Migrate => true | _ => false end.

Theorem ack_never_shrinks : forall s o, reno s = true -> 0 <= mds s -> may_shrink o = false ->
  cwnd s <= cwnd (step s o).
Proof.
  intros s o Hr Hm Ho. destruct o; try discriminate Ho; unfold step, step_full; cbn [fst]; try lia.
  - unfold on_sent. destruct retrans; projs; lia.
  - pose proof (on_acked_spec s pn prior orc Hr) as H; cbv zeta in H.
    destruct H as (_ & B & C & D & E & F). lia.
  - unfold set_mds. destruct (Z.ltb_spec m (mds s)); cbn [fst]; [lia|]. projs. lia.
  - unfold maybe_exit_ss. break_if; [|lia].
    destruct (hs_should_exit (hs s) latest minrtt (Z.quot (cwnd s) (mds s))) as [h' ex]. destruct ex; projs; lia.
  - pose proof (ack_run_spec (Z.to_nat n) s pn0 prior Hr Hm) as H; cbv zeta in H. lia.
  - destruct (time_until_send (pc s) (bw_est s srtt)); cbn [fst]; lia.
Qed.

(** ** Hybrid slow start: an exit only lowers ssthresh to the current window *)

Theorem exit_ss_only_lowers_ssthresh : forall s latest minrtt,
  let s' := step s (ExitSS latest minrtt) in
  cwnd s' = cwnd s /\ mds s' = mds s /\ ls s' = ls s /\ la s' = la s /\ lc s' = lc s /\ nacked s' = nacked s /\
  pc s' = pc s /\
  (ssthresh s' = ssthresh s \/ (ssthresh s' = cwnd s /\ cwnd s < ssthresh s)).
Proof.
  intros s latest minrtt. unfold step, step_full, maybe_exit_ss; cbn [fst].
  destruct (in_slow_start s) eqn:Hss; [|repeat split; auto].
  destruct (hs_should_exit (hs s) latest minrtt (Z.quot (cwnd s) (mds s))) as [h' ex].
  destruct ex; projs; repeat split; auto.
  right. split; [reflexivity|]. unfold in_slow_start in Hss. apply Z.ltb_lt. exact Hss.
Qed.

(** the exit really happens: eight RTT samples 25 ms above a 20 ms minimum within one round *)
Example exit_ss_example :
  let s := run (new_sender 1280 true 100000000) (repeat (ExitSS 45000000 20000000) 8) in
  cwnd s = 40960 /\ ssthresh s = 40960 /\ hs_found (hs s) = true /\
  ssthresh (run (new_sender 1280 true 100000000) (repeat (ExitSS 45000000 20000000) 7)) = cc_maxByteCount.
Proof. vm_compute. repeat split; reflexivity. Qed.

(** ** Growth only while window-limited *)

Theorem growth_needs_limit : forall s pn bytes prior now orc, reno s = true ->
  cwnd s < cwnd (step s (Acked pn bytes prior now orc)) ->
  is_cwnd_limited s prior = true /\ cwnd s < max_cwnd s /\
  cwnd (step s (Acked pn bytes prior now orc)) = cwnd s + mds s.
Proof.
  intros s pn bytes prior now orc Hr Hg. unfold step, step_full in *; cbn [fst] in *.
  pose proof (on_acked_spec s pn prior orc Hr) as H; cbv zeta in H.
  destruct H as (_ & B & C & D & E & [F|(F1 & F2 & F3)]); [lia|auto].
Qed.

(** what "window-limited" means, in terms of the bytes in flight reported with the ACK *)
Lemma is_cwnd_limited_spec s bif : is_cwnd_limited s bif = true ->
  cwnd s <= bif \/ cwnd s - bif <= cc_maxBurstPackets * mds s \/ (cwnd s < ssthresh s /\ Z.quot (cwnd s) 2 < bif).
Proof.
  unfold is_cwnd_limited, in_slow_start. intros H.
  destruct (Z.geb_spec bif (cwnd s)); [lia|].
  apply orb_true_iff in H. destruct H as [H|H].
  - apply andb_true_iff in H. destruct H as [H1 H2]. right; right. split; [apply Z.ltb_lt; auto|apply Z.gtb_lt in H2; lia].
  - apply Z.leb_le in H. lia.
Qed.

(** ** At most one reduction per window of packets *)

Lemma step_cutback_mono b s o : reno s = true -> 0 <= cwnd s -> is_reset o = false ->
  b <= lc s -> b <= ls s -> b <= lc (step s o) /\ b <= ls (step s o) /\ reno (step s o) = true.
Proof.
  intros Hr Hc Ho Hlc Hls. destruct o; try discriminate Ho; unfold step, step_full; cbn [fst].
  - unfold on_sent. destruct retrans; projs; fin.
  - pose proof (on_acked_spec s pn prior orc Hr) as H; cbv zeta in H.
    destruct H as ((A1 & _) & B & C & D & _). rewrite C, D, A1. auto.
  - pose proof (on_lost_spec s pn orc Hr Hc) as H; cbv zeta in H.
    destruct H as ((A1 & _) & B & C & [[E _]|(E1 & E2 & _)]).
    + rewrite E. auto.
    + rewrite E2, C, A1. auto.
  - unfold set_mds. destruct (Z.ltb_spec m (mds s)); cbn [fst]; projs; auto.
  - unfold maybe_exit_ss. break_if; [|auto].
    destruct (hs_should_exit (hs s) latest minrtt (Z.quot (cwnd s) (mds s))) as [h' ex]. destruct ex; projs; auto.
  - (* ack_run never touches ls / lc, whatever mds is *)
    assert (G : forall k s pn, reno s = true -> ls (ack_run k s pn prior) = ls s /\ lc (ack_run k s pn prior) = lc s /\ reno (ack_run k s pn prior) = true).
    { induction k as [|k IH]; intros s1 pn1 Hr1; cbn [ack_run]; [auto|].
      pose proof (on_acked_spec s1 pn1 prior 0 Hr1) as H; cbv zeta in H.
      destruct H as ((A1 & _) & B & C & D & _).
      destruct (IH (on_acked s1 pn1 prior 0) (pn1 + 1) ltac:(congruence)) as (X & Y & Z0).
      repeat split; congruence. }
    destruct (G (Z.to_nat n) s pn0 Hr) as (X & Y & Z0). rewrite X, Y. auto.
  - auto.
  - destruct (time_until_send (pc s) (bw_est s srtt)); cbn [fst]; auto.
  - auto.
  - auto.
  - auto.
Qed.

(** the window never becomes negative along any history (needed for the float cut) *)
Lemma step_nonneg s o : reno s = true -> 0 <= mds s -> 0 <= cwnd s -> 0 <= initCwnd s ->
  0 <= cwnd (step s o) /\ 0 <= mds (step s o) /\ 0 <= initCwnd (step s o) /\ reno (step s o) = true.
Proof.
  intros Hr Hm Hc Hi. destruct o; unfold step, step_full; cbn [fst].
  - unfold on_sent. destruct retrans; projs; auto.
  - pose proof (on_acked_spec s pn prior orc Hr) as H; cbv zeta in H.
    destruct H as ((A1 & A2 & A3) & B & C & D & E & F). rewrite B, A1, A2. repeat split; auto; lia.
  - pose proof (on_lost_spec s pn orc Hr Hc) as H; cbv zeta in H.
    destruct H as ((A1 & A2 & A3) & B & C & [[E _]|(E1 & E2 & E3 & E4)]).
    + rewrite E. auto.
    + rewrite B, A1, A2. consts. repeat split; auto; lia.
  - unfold on_rto. destruct b; projs; consts; repeat split; auto; lia.
  - unfold set_mds. destruct (Z.ltb_spec m (mds s)); cbn [fst]; projs; auto.
    consts; repeat split; auto; lia.
  - unfold maybe_exit_ss. break_if; [|auto].
    destruct (hs_should_exit (hs s) latest minrtt (Z.quot (cwnd s) (mds s))) as [h' ex]. destruct ex; projs; auto.
  - unfold on_migration; projs; auto.
  - pose proof (ack_run_spec (Z.to_nat n) s pn0 prior Hr Hm) as H; cbv zeta in H.
    destruct H as ((A1 & A2 & A3) & B & C & D & E & F). rewrite B, A1, A2. repeat split; auto; lia.
  - auto.
  - destruct (time_until_send (pc s) (bw_est s srtt)); cbn [fst]; auto.
  - auto.
  - auto.
  - auto.
Qed.

Lemma run_cutback_mono b ops : forall s, reno s = true -> 0 <= mds s -> 0 <= cwnd s -> 0 <= initCwnd s ->
  Forall (fun o => is_reset o = false) ops ->
  b <= lc s -> b <= ls s ->
  b <= lc (run s ops) /\ b <= ls (run s ops) /\ reno (run s ops) = true /\ 0 <= cwnd (run s ops).
Proof.
  induction ops as [|o ops IH]; intros s Hr Hm Hc Hi Hf Hlc Hls; cbn [run fold_left]; [auto|].
  inversion Hf as [|? ? Ho1 Hf']; subst.
  destruct (step_cutback_mono b s o Hr Hc Ho1 Hlc Hls) as (A & B & C).
  destruct (step_nonneg s o Hr Hm Hc Hi) as (D & E & F & _).
  apply IH; auto.
Qed.

(** largestSentPacketNumber never decreases between resets *)
Lemma ls_mono_run ops : forall s0, reno s0 = true -> 0 <= mds s0 -> 0 <= cwnd s0 -> 0 <= initCwnd s0 ->
  Forall (fun o => is_reset o = false) ops -> ls s0 <= ls (run s0 ops).
Proof.
  induction ops as [|o' ops' IH']; intros s0 Hr0 Hm0 Hc0 Hi0 Hf0; cbn [run fold_left]; [lia|].
  inversion Hf0 as [|? ? Ho0 Hf0']; subst.
  destruct (step_nonneg s0 o' Hr0 Hm0 Hc0 Hi0) as (D0 & E0 & F0 & R0).
  specialize (IH' (step s0 o') R0 E0 D0 F0 Hf0').
  assert (ls s0 <= ls (step s0 o')).
  { destruct o'; try discriminate Ho0; unfold step, step_full; cbn [fst].
    - unfold on_sent. destruct retrans; projs; lia.
    - pose proof (on_acked_spec s0 pn prior orc Hr0) as H; cbv zeta in H. destruct H as (_ & _ & C & _). lia.
    - pose proof (on_lost_spec s0 pn orc Hr0 Hc0) as H; cbv zeta in H. destruct H as (_ & _ & C & _). lia.
    - unfold set_mds. destruct (m <? mds s0); cbn [fst]; projs; lia.
    - unfold maybe_exit_ss. break_if; [|lia].
      destruct (hs_should_exit _ _ _ _) as [h' ex]. destruct ex; projs; lia.
    - pose proof (ack_run_spec (Z.to_nat n) s0 pn0 prior Hr0 Hm0) as H; cbv zeta in H.
      destruct H as (_ & _ & C & _). lia.
    - lia.
    - destruct (time_until_send (pc s0) (bw_est s0 srtt)); cbn [fst]; lia.
    - lia.
    - lia.
    - lia. }
  unfold run in *. lia.
Qed.

(** every ack-eliciting packet handed to OnPacketSent since the last reset has a number
    <= largestSentPacketNumber — whatever packet number space it belongs to *)
Lemma sent_le_ls pre : forall s t pn b srtt, reno s = true -> 0 <= mds s -> 0 <= cwnd s -> 0 <= initCwnd s ->
  Forall (fun o => is_reset o = false) pre ->
  In (Sent t pn b true srtt) pre -> pn <= ls (run s pre).
Proof.
  induction pre as [|o pre IH]; intros s t pn b srtt Hr Hm Hc Hi Hf Hin; [destruct Hin|].
  inversion Hf as [|? ? Ho Hf']; subst. cbn [run fold_left].
  destruct (step_nonneg s o Hr Hm Hc Hi) as (D & E & F & R).
  destruct Hin as [->|Hin].
  - assert (Hs : pn <= ls (step s (Sent t pn b true srtt))).
    { unfold step, step_full, on_sent; cbn [fst]; projs. lia. }
    pose proof (ls_mono_run pre _ R E D F Hf'). unfold run in *. lia.
  - apply (IH (step s o) t pn b srtt R E D F Hf' Hin).
Qed.

(** C20(b), for ANY numbering of the packets (all packet number spaces feed one sender): if
    two loss events both reduce the window and no timeout/migration reset happened in
    between, the second lost packet's number exceeds largestSentPacketNumber at the first
    reduction … *)
Theorem cut_once_per_window : forall s1 pn1 b1 p1 o1 mid pn2 b2 p2 o2,
  reno s1 = true -> 0 <= mds s1 -> 0 <= cwnd s1 -> 0 <= initCwnd s1 ->
  let s1' := step s1 (Lost pn1 b1 p1 o1) in
  let s2 := run s1' mid in
  let s2' := step s2 (Lost pn2 b2 p2 o2) in
  Forall (fun o => is_reset o = false) mid ->
  cwnd s1' < cwnd s1 -> cwnd s2' < cwnd s2 ->
  ls s1 < pn2.
Proof.
  intros s1 pn1 b1 p1 o1 mid pn2 b2 p2 o2 Hr Hm Hc Hi s1' s2 s2' Hmid Hcut1 Hcut2.
  assert (H1 : lc s1' = ls s1 /\ ls s1' = ls s1 /\ reno s1' = true).
  { unfold s1', step, step_full in *; cbn [fst] in *.
    pose proof (on_lost_spec s1 pn1 o1 Hr Hc) as H; cbv zeta in H.
    destruct H as ((A1 & _) & B & C & [[E _]|(E1 & E2 & _)]); [rewrite E in Hcut1; lia|].
    repeat split; congruence. }
  destruct H1 as (L1 & L2 & R1).
  destruct (step_nonneg s1 (Lost pn1 b1 p1 o1) Hr Hm Hc Hi) as (N1 & N2 & N3 & _). fold s1' in N1, N2, N3.
  destruct (run_cutback_mono (ls s1) mid s1' R1 N2 N1 N3 Hmid ltac:(lia) ltac:(lia)) as (M1 & _ & M2 & M3).
  fold s2 in M1, M2, M3.
  unfold s2', step, step_full in Hcut2; cbn [fst] in Hcut2.
  pose proof (on_lost_spec s2 pn2 o2 M2 M3) as H; cbv zeta in H.
  destruct H as (_ & _ & _ & [[E _]|(E1 & _)]); [rewrite E in Hcut2; lia|lia].
Qed.

(** … hence it is not the number of any ack-eliciting packet sent (in whatever packet number
    space) since the last reset before the first reduction: the second reduction answers the
    loss of a packet sent AFTER the first one. Holds for every sequence of calls the
    sentPacketHandler can make. *)
Theorem cut_once_per_window_history : forall s0 pre pn1 b1 p1 o1 mid pn2 b2 p2 o2,
  reno s0 = true -> 0 <= mds s0 -> 0 <= cwnd s0 -> 0 <= initCwnd s0 ->
  let s1 := run s0 pre in
  let s1' := step s1 (Lost pn1 b1 p1 o1) in
  let s2 := run s1' mid in
  let s2' := step s2 (Lost pn2 b2 p2 o2) in
  Forall (fun o => is_reset o = false) pre -> Forall (fun o => is_reset o = false) mid ->
  cwnd s1' < cwnd s1 -> cwnd s2' < cwnd s2 ->
  forall t b srtt, ~ In (Sent t pn2 b true srtt) pre.
Proof.
  intros s0 pre pn1 b1 p1 o1 mid pn2 b2 p2 o2 Hr Hm Hc Hi s1 s1' s2 s2' Hpre Hmid Hcut1 Hcut2 t b srtt Hin.
  pose proof (sent_le_ls pre s0 t pn2 b srtt Hr Hm Hc Hi Hpre Hin) as Hle. fold s1 in Hle.
  assert (N : reno s1 = true /\ 0 <= mds s1 /\ 0 <= cwnd s1 /\ 0 <= initCwnd s1).
  { clear - Hr Hm Hc Hi. unfold s1. clear s1. revert s0 Hr Hm Hc Hi.
    induction pre as [|o pre IH]; intros s0 Hr Hm Hc Hi; cbn [run fold_left]; [auto|].
    destruct (step_nonneg s0 o Hr Hm Hc Hi) as (D & E & F & R). apply IH; auto. }
  destruct N as (R1 & M1 & C1 & I1).
  pose proof (cut_once_per_window s1 pn1 b1 p1 o1 mid pn2 b2 p2 o2 R1 M1 C1 I1 Hmid Hcut1 Hcut2). lia.
Qed.

(** Non-vacuity: a history with two reductions. *)
Example cut_once_example :
  let s1 := run (new_sender 1280 true 100000000) [Sent 10 0 1280 true 100000000] in
  let s1' := step s1 (Lost 0 1280 1280 0) in
  let s2 := run s1' [Sent 20 1 1280 true 100000000] in
  cwnd s1' < cwnd s1 /\ cwnd (step s2 (Lost 1 1280 1280 0)) < cwnd s2 /\ cwnd (step s2 (Lost 0 1280 1280 0)) = cwnd s2.
Proof. vm_compute. repeat split; reflexivity. Qed.

(** Regression (finding sendmode/multi-cut-pn-spaces): the ackhandler feeds packet numbers of
    three packet number spaces into one sender. Handshake packets 0..5, then 1-RTT packet 0,
    then the loss of Handshake packets 0, 1, 2 (one ACK, packet threshold) used to cut the
    window three times (40960 -> 28672 -> 20070 -> 14049); now once. *)
Example pn_space_mixing_regression :
  let s := run (new_sender 1280 true 100000000)
               [Sent 10 0 1280 true 100000000; Sent 20 1 1280 true 100000000; Sent 30 2 1280 true 100000000;
                Sent 40 3 1280 true 100000000; Sent 50 4 1280 true 100000000; Sent 60 5 1280 true 100000000;
                Sent 70 0 1280 true 100000000] in
  let s1 := step s (Lost 0 1280 8960 0) in
  let s2 := step s1 (Lost 1 1280 8960 0) in
  let s3 := step s2 (Lost 2 1280 8960 0) in
  ls s = 5 /\ cwnd s = 40960 /\ cwnd s1 = 28672 /\ cwnd s2 = 28672 /\ cwnd s3 = 28672.
Proof. vm_compute. repeat split; reflexivity. Qed.

(** ** Send gating (sentPacketHandler.SendMode) *)

(** C20(d): SendMode answers "any" (new ack-eliciting data may be sent) only while the bytes
    in flight are below the congestion window, the sender is not amplification-limited,
    fewer than MaxOutstandingSentPackets packets are tracked, no probe packet is due and
    the pacer has budget. (ptoMode only ever holds one of the three PTO modes.) *)
Theorem send_gate : forall tracked amp probes pto bif cw bud,
  pto <> sm_SendAny ->
  send_mode (G tracked amp probes pto bif cw bud) = sm_SendAny ->
  bif < cw /\ amp = false /\ tracked < sm_maxOutstandingSentPackets /\ tracked < sm_maxTrackedSentPackets /\
  probes <= 0 /\ bud = true.
Proof.
  intros tracked amp probes pto bif cw bud Hpto H. unfold send_mode in H.
  destruct amp; [discriminate|].
  destruct (Z.geb_spec tracked sm_maxTrackedSentPackets); [discriminate|].
  destruct (Z.gtb_spec probes 0); [contradiction|].
  destruct (Z.ltb_spec bif cw); cbn [negb] in H; [|discriminate].
  destruct (Z.geb_spec tracked sm_maxOutstandingSentPackets); [discriminate|].
  destruct bud; cbn [negb] in H; [|discriminate].
  repeat split; auto; lia.
Qed.

Example send_gate_nonvacuous : send_mode (G 3 false 0 0 2560 40960 true) = sm_SendAny /\ 0 <> sm_SendAny.
Proof. vm_compute. split; [reflexivity|discriminate]. Qed.
