(** C20 — the token-bucket pacer: under the guards in the code no uint64 product and no
    int64 sum wraps; the budget never exceeds one burst; over any sequence of sends the
    bytes authorised are at most one burst plus the rate-scaled elapsed time;
    TimeUntilSend returns a time at which one datagram really fits. Bandwidth is a per-op
    oracle value: every statement holds for ALL bandwidth values. *)
From Coq Require Import List ZArith Bool Lia.
From Coq Require Import ZifyBool.
From V Require Import Gen.Params Congestion.Model.
Import ListNotations.
Open Scope Z_scope.

Ltac pconsts := unfold cc_bytesPerSecond, cc_maxBurstSizePackets, cc_minPacingDelayNs, cc_timerGranularityNs,
  cc_maxByteCount, nsPerSecond, maxU64 in *.

(** Ranges the code lives in: datagram sizes up to 2^30, budget below 2^40. *)
Definition PInv (p : pacer) : Prop := 0 <= p_budget p < 2^40 /\ 0 < p_mds p <= 2^30.
Definition bw_ok (bw : Z) : Prop := 0 <= bw < 2^64.

Lemma u64_id x : 0 <= x < 2^64 -> u64 x = x.
Proof. intros H. unfold u64. apply Z.mod_small. exact H. Qed.
Lemma i64_id x : - 2^63 <= x < 2^63 -> i64 x = x.
Proof. intros H. unfold i64. rewrite Z.mod_small; lia. Qed.

(** ** Ideal (unbounded-integer) versions of the pacer functions *)
Definition adj_ideal (bw : Z) : Z := Z.max (bw / 8 * 5 / 4) 1.
Definition ts_ideal (m bw ns : Z) : Z :=
  let a := adj_ideal bw in
  if a =? 0 then 0 else if ns >? (2^64 - 1) / a then 10 * m else a * ns / 1000000000.
Definition mb_ideal (m bw : Z) : Z := Z.max (ts_ideal m bw 2000000) (10 * m).
Definition budget_ideal (p : pacer) (now bw : Z) : Z :=
  if p_last p =? 0 then mb_ideal (p_mds p) bw
  else
    let d := now - p_last p in
    let added := if d >? 0 then ts_ideal (p_mds p) bw d else 0 in
    Z.min (mb_ideal (p_mds p) bw) (p_budget p + added).

Lemma adj_bw_ideal bw : bw_ok bw -> adj_bw bw = adj_ideal bw /\ 1 <= adj_ideal bw < 2^62.
Proof.
  intros [H0 H1]. unfold adj_bw, adj_ideal. pconsts.
  assert (0 <= bw / 8 < 2^61) by (split; [apply Z.div_pos; lia|apply Z.div_lt_upper_bound; lia]).
  rewrite u64_id by lia. split; [reflexivity|].
  assert (0 <= bw / 8 * 5 / 4 < 2^62) by (split; [apply Z.div_pos; lia|apply Z.div_lt_upper_bound; lia]).
  lia.
Qed.

(** 1.25 x the bandwidth in bytes/s, never more — except for the floor of 1 byte/s *)
Lemma adj_ideal_le bw : 0 <= bw -> 4 * adj_ideal bw <= Z.max (5 * (bw / 8)) 4.
Proof.
  intros H. unfold adj_ideal.
  assert (0 <= bw / 8) by (apply Z.div_pos; lia).
  pose proof (Z.mul_div_le (bw / 8 * 5) 4 ltac:(lia)). lia.
Qed.

Lemma adj_ideal_mono a b : 0 <= a <= b -> adj_ideal a <= adj_ideal b.
Proof.
  intros H. unfold adj_ideal. apply Z.max_le_compat_r. apply Z.div_le_mono; [lia|].
  apply Z.mul_le_mono_nonneg_r; [lia|]. apply Z.div_le_mono; lia.
Qed.

Lemma ts_ideal_bounds m bw ns : 0 < m <= 2^30 -> 0 <= adj_ideal bw -> 0 <= ns ->
  0 <= ts_ideal m bw ns <= 2^35 /\ ts_ideal m bw ns <= adj_ideal bw * ns / 1000000000.
Proof.
  intros Hm Ha Hns. unfold ts_ideal. set (a := adj_ideal bw) in *.
  destruct (Z.eqb_spec a 0) as [E|E].
  - rewrite E. cbn. lia.
  - assert (Hap : 0 < a) by lia.
    destruct (Z.gtb_spec ns ((2^64 - 1) / a)) as [G|G].
    + (* overflow guard taken: the true product exceeds 2^64-1 *)
      assert (Hbig : 2^64 <= a * ns).
      { pose proof (Z.div_mod (2^64 - 1) a ltac:(lia)) as Hdm.
        pose proof (Z.mod_pos_bound (2^64 - 1) a Hap) as Hr.
        assert (a * ((2^64 - 1) / a + 1) <= a * ns) by (apply Z.mul_le_mono_nonneg_l; lia). lia. }
      split; [lia|].
      apply Z.div_le_lower_bound; lia.
    + assert (Hle : a * ns <= 2^64 - 1).
      { pose proof (Z.mul_div_le (2^64 - 1) a Hap).
        assert (a * ns <= a * ((2^64 - 1) / a)) by (apply Z.mul_le_mono_nonneg_l; lia). lia. }
      assert (0 <= a * ns) by (apply Z.mul_nonneg_nonneg; lia).
      split; [|lia].
      split; [apply Z.div_pos; lia|].
      apply Z.div_le_upper_bound; lia.
Qed.

Lemma time_scaled_ideal p bw ns : PInv p -> bw_ok bw -> 0 <= ns < 2^64 ->
  time_scaled p bw ns = ts_ideal (p_mds p) bw ns.
Proof.
  intros [Hb Hm] Hbw Hns. destruct (adj_bw_ideal bw Hbw) as [Ea Ha].
  unfold time_scaled, ts_ideal, p_maxBurstPkts. rewrite Ea. pconsts.
  set (a := adj_ideal bw) in *.
  destruct (Z.eqb_spec a 0); [reflexivity|].
  destruct (Z.gtb_spec ns ((2^64 - 1) / a)) as [G|G].
  - apply i64_id. lia.
  - assert (Hap : 0 < a) by lia.
    assert (Hle : a * ns <= 2^64 - 1).
    { pose proof (Z.mul_div_le (2^64 - 1) a Hap).
      assert (a * ns <= a * ((2^64 - 1) / a)) by (apply Z.mul_le_mono_nonneg_l; lia). lia. }
    assert (0 <= a * ns) by (apply Z.mul_nonneg_nonneg; lia).
    rewrite u64_id by lia. apply i64_id.
    split; [assert (0 <= a * ns / 1000000000) by (apply Z.div_pos; lia); lia|].
    apply Z.div_lt_upper_bound; lia.
Qed.

Lemma max_burst_ideal p bw : PInv p -> bw_ok bw ->
  max_burst p bw = mb_ideal (p_mds p) bw /\ 10 * p_mds p <= mb_ideal (p_mds p) bw <= 2^35.
Proof.
  intros HP Hbw. pose proof HP as [Hb Hm]. destruct (adj_bw_ideal bw Hbw) as [Ea Ha].
  unfold max_burst, mb_ideal, p_maxBurstPkts. pconsts.
  change (u64 (1000000 + 1000000)) with 2000000.
  rewrite time_scaled_ideal by (auto; lia). rewrite i64_id by lia.
  split; [reflexivity|].
  pose proof (ts_ideal_bounds (p_mds p) bw 2000000 Hm ltac:(lia) ltac:(lia)) as [[T0 T1] _]. lia.
Qed.

(** C20_pacer_no_overflow (Budget): under PInv, bandwidth in uint64 range and clock values
    whose difference fits int64, no product and no sum in Budget wraps. *)
Lemma budget_no_overflow p now bw : PInv p -> bw_ok bw -> - 2^63 <= now - p_last p < 2^63 ->
  budget p now bw = budget_ideal p now bw.
Proof.
  intros HP Hbw Ht. pose proof HP as [Hb Hm].
  destruct (max_burst_ideal p bw HP Hbw) as [Emb [Mlo Mhi]].
  unfold budget, budget_ideal. rewrite Emb. pconsts.
  destruct (Z.eqb_spec (p_last p) 0); [reflexivity|].
  rewrite (i64_id (now - p_last p)) by lia.
  set (d := now - p_last p) in *.
  destruct (adj_bw_ideal bw Hbw) as [Ea Ha].
  destruct (Z.gtb_spec d 0) as [G|G].
  - rewrite u64_id by lia. rewrite time_scaled_ideal by (auto; lia).
    pose proof (ts_ideal_bounds (p_mds p) bw d Hm ltac:(lia) ltac:(lia)) as [[T0 T1] _].
    set (ad := ts_ideal (p_mds p) bw d) in *.
    rewrite i64_id by lia.
    replace ((ad >? 0) && (p_budget p + ad <? p_budget p)) with false; [reflexivity|].
    symmetry. apply andb_false_iff. right. apply Z.ltb_ge. lia.
  - rewrite Z.add_0_r. rewrite i64_id by lia. cbn [andb Z.gtb Z.compare]. reflexivity.
Qed.

(** Budget <= maxBurst, always (for every clock value and bandwidth). *)
Lemma budget_le_burst p now bw : budget p now bw <= max_burst p bw.
Proof. unfold budget. destruct (p_last p =? 0); [lia|]. apply Z.le_min_l. Qed.

Definition credit_at (p : pacer) (t bw : Z) : Z :=
  if t - p_last p >? 0 then adj_ideal bw * (t - p_last p) / 1000000000 else 0.

Lemma budget_credit p now bw : PInv p -> bw_ok bw -> - 2^63 <= now - p_last p < 2^63 ->
  0 <= budget p now bw <= 2^35 /\ (p_last p <> 0 -> budget p now bw <= p_budget p + credit_at p now bw).
Proof.
  intros HP Hbw Ht. pose proof HP as [Hb Hm].
  rewrite budget_no_overflow by auto.
  destruct (max_burst_ideal p bw HP Hbw) as [_ [Mlo Mhi]].
  destruct (adj_bw_ideal bw Hbw) as [_ Ha].
  unfold budget_ideal, credit_at.
  destruct (Z.eqb_spec (p_last p) 0); [split; [lia|congruence]|].
  set (d := now - p_last p) in *.
  destruct (Z.gtb_spec d 0) as [G|G].
  - pose proof (ts_ideal_bounds (p_mds p) bw d Hm ltac:(lia) ltac:(lia)) as [[T0 T1] T2]. lia.
  - lia.
Qed.

Lemma sent_packet_spec p t size bw : PInv p -> bw_ok bw -> - 2^63 <= t - p_last p < 2^63 -> 0 <= size ->
  let p' := sent_packet p t size bw in
  PInv p' /\ p_last p' = t /\ p_mds p' = p_mds p /\ Z.min size (budget p t bw) + p_budget p' = budget p t bw.
Proof.
  intros HP Hbw Ht Hs. pose proof HP as [Hb Hm].
  destruct (budget_credit p t bw HP Hbw Ht) as [[B0 B1] _].
  unfold sent_packet, PInv. cbn [p_budget p_mds p_last].
  destruct (Z.geb_spec size (budget p t bw)); [lia|].
  rewrite i64_id by lia. lia.
Qed.

(** ** The interval bound *)

Definition pop_ok (o : pop) : Prop :=
  match o with
  | PSent t size bw => 0 < t < 2^62 /\ 0 <= size /\ bw_ok bw
  | PSetMDS m => 0 < m <= 2^30
  | _ => True
  end.

(** bytes of a send the pacer really authorised: the whole packet when it fits the budget
    (always the case for sends gated by HasPacingBudget and no larger than one datagram) *)
Definition auth (p : pacer) (o : pop) : Z :=
  match o with PSent t size bw => Z.min size (budget p t bw) | _ => 0 end.
Definition credit (p : pacer) (o : pop) : Z :=
  match o with PSent t _ bw => credit_at p t bw | _ => 0 end.

Fixpoint sum_auth (p : pacer) (l : list pop) : Z :=
  match l with [] => 0 | o :: r => auth p o + sum_auth (pstep p o) r end.
Fixpoint sum_credit (p : pacer) (l : list pop) : Z :=
  match l with [] => 0 | o :: r => credit p o + sum_credit (pstep p o) r end.
Definition prun (p : pacer) (l : list pop) : pacer := fold_left pstep l p.

Definition PT (p : pacer) : Prop := 0 <= p_last p < 2^62.

Lemma pstep_keeps p o : PInv p -> PT p -> pop_ok o ->
  PInv (pstep p o) /\ PT (pstep p o) /\ (p_last p <> 0 -> p_last (pstep p o) <> 0) /\
  (p_last p <> 0 -> auth p o + p_budget (pstep p o) <= p_budget p + credit p o) /\
  (match o with PSent _ _ _ => True | _ => p_budget (pstep p o) = p_budget p /\ p_last (pstep p o) = p_last p end).
Proof.
  intros HP HT Ho. pose proof HP as [Hb Hm]. unfold PT in *.
  destruct o; unfold pstep, pstep_full; cbn [fst auth credit].
  - destruct Ho as (Ht & Hs & Hbw).
    assert (Hd : - 2^63 <= t - p_last p < 2^63) by lia.
    destruct (sent_packet_spec p t size bw HP Hbw Hd Hs) as (A & B & C & D).
    destruct (budget_credit p t bw HP Hbw Hd) as [_ E].
    split; [exact A|]. split; [rewrite B; lia|]. split; [rewrite B; lia|]. split; [|exact I].
    intros Hn. specialize (E Hn). lia.
  - repeat split; auto; lia.
  - destruct (time_until_send p bw); cbn [fst]; repeat split; auto; lia.
  - unfold pacer_set_mds, PInv; cbn [p_budget p_mds p_last]. cbn in Ho. repeat split; auto; lia.
  - repeat split; auto; lia.
  - repeat split; auto; lia.
Qed.

(** From any state in which a packet has already been sent: authorised bytes <= remaining
    budget + credits earned since. *)
Lemma pacer_bound_from l : forall p, PInv p -> PT p -> p_last p <> 0 -> Forall pop_ok l ->
  sum_auth p l <= p_budget p + sum_credit p l.
Proof.
  induction l as [|o r IH]; intros p HP HT Hl Hf; cbn [sum_auth sum_credit].
  - destruct HP; lia.
  - inversion Hf as [|? ? Ho Hf']; subst.
    destruct (pstep_keeps p o HP HT Ho) as (A & B & C & D & _).
    specialize (IH (pstep p o) A B (C Hl) Hf'). specialize (D Hl). lia.
Qed.

(** C20(e): over any interval that starts with a send at time [t] — from ANY pacer state —
    the bytes authorised are at most one burst (at the bandwidth of that first send) plus
    the credits [adjusted bandwidth x elapsed time] of the later sends. *)
Theorem pacer_bound : forall p t size bw r, PInv p -> PT p -> pop_ok (PSent t size bw) -> Forall pop_ok r ->
  sum_auth p (PSent t size bw :: r) <= max_burst p bw + sum_credit (pstep p (PSent t size bw)) r.
Proof.
  intros p t size bw r HP HT Ho Hf. cbn [sum_auth].
  destruct (pstep_keeps p (PSent t size bw) HP HT Ho) as (A & B & _ & _ & _).
  assert (Hl : p_last (pstep p (PSent t size bw)) <> 0).
  { unfold pstep, pstep_full, sent_packet; cbn [fst p_last]. cbn in Ho. lia. }
  pose proof (pacer_bound_from r _ A B Hl Hf) as H.
  cbn in Ho. destruct Ho as (Ht & Hs & Hbw).
  assert (Hd : - 2^63 <= t - p_last p < 2^63) by (unfold PT in HT; lia).
  destruct (sent_packet_spec p t size bw HP Hbw Hd Hs) as (_ & _ & _ & D).
  pose proof (budget_le_burst p t bw).
  cbn [auth]. change (pstep p (PSent t size bw)) with (sent_packet p t size bw) in *. lia.
Qed.

(** Constant-rate corollary: if every send sees a bandwidth <= BW and the clock is monotone,
    the credits are at most adjusted(BW) x elapsed. *)
Fixpoint mono (p : pacer) (l : list pop) : Prop :=
  match l with
  | [] => True
  | o :: r => (match o with PSent t _ _ => p_last p <= t | _ => True end) /\ mono (pstep p o) r
  end.
Definition bw_below (BW : Z) (o : pop) : Prop := match o with PSent _ _ bw => bw <= BW | _ => True end.

Lemma credit_rate l : forall p BW, PInv p -> PT p -> Forall pop_ok l -> Forall (bw_below BW) l -> mono p l ->
  p_last p <= p_last (prun p l) /\
  sum_credit p l <= adj_ideal BW * (p_last (prun p l) - p_last p) / 1000000000.
Proof.
  induction l as [|o r IH]; intros p BW HP HT Hf Hb Hm; cbn [sum_credit prun fold_left].
  - rewrite Z.sub_diag, Z.mul_0_r. cbn. lia.
  - inversion Hf as [|? ? Ho Hf']; subst. inversion Hb as [|? ? Hbo Hb']; subst.
    destruct Hm as [Hm1 Hm2].
    destruct (pstep_keeps p o HP HT Ho) as (A & B & _ & _ & E).
    destruct (IH (pstep p o) BW A B Hf' Hb' Hm2) as [I1 I2].
    fold (prun (pstep p o) r) in *.
    set (T := p_last (prun (pstep p o) r)) in *.
    destruct o; cbn [credit]; [ | destruct E as [E1 E2]; rewrite E2 in *; split; [lia|]; lia .. ].
    assert (Hl : p_last (pstep p (PSent t size bw)) = t) by reflexivity.
    rewrite Hl in *. cbn in Ho, Hbo. destruct Ho as (Ht & Hs & Hbw).
    split; [lia|].
    unfold credit_at.
    assert (HA : 0 <= adj_ideal bw <= adj_ideal BW).
    { split; [destruct (adj_bw_ideal bw Hbw); lia|apply adj_ideal_mono; unfold bw_ok in Hbw; lia]. }
    set (a := adj_ideal bw) in *. set (A' := adj_ideal BW) in *.
    destruct (Z.gtb_spec (t - p_last p) 0) as [G|G].
    + assert (a * (t - p_last p) <= A' * (t - p_last p)) by (apply Z.mul_le_mono_nonneg_r; lia).
      assert (a * (t - p_last p) / 1000000000 <= A' * (t - p_last p) / 1000000000) by (apply Z.div_le_mono; lia).
      replace (A' * (T - p_last p)) with (A' * (t - p_last p) + A' * (T - t)) by ring.
      pose proof (Z.div_mod (A' * (t - p_last p)) 1000000000 ltac:(lia)).
      pose proof (Z.div_mod (A' * (T - t)) 1000000000 ltac:(lia)).
      pose proof (Z.mod_pos_bound (A' * (t - p_last p)) 1000000000 ltac:(lia)).
      pose proof (Z.mod_pos_bound (A' * (T - t)) 1000000000 ltac:(lia)).
      assert (A' * (t - p_last p) / 1000000000 + A' * (T - t) / 1000000000 <= (A' * (t - p_last p) + A' * (T - t)) / 1000000000).
      { apply Z.div_le_lower_bound; lia. }
      lia.
    + assert (t = p_last p) by lia. subst t. lia.
Qed.

Theorem pacer_bound_const_rate : forall p t size bw r BW, PInv p -> PT p ->
  pop_ok (PSent t size bw) -> Forall pop_ok r -> Forall (bw_below BW) r ->
  mono (pstep p (PSent t size bw)) r ->
  let T := p_last (prun p (PSent t size bw :: r)) in
  sum_auth p (PSent t size bw :: r) <= max_burst p bw + adj_ideal BW * (T - t) / 1000000000 /\
  4 * adj_ideal BW <= Z.max (5 * (BW / 8)) 4.
Proof.
  intros p t size bw r BW HP HT Ho Hf Hb Hm T.
  pose proof (pacer_bound p t size bw r HP HT Ho Hf) as H.
  destruct (pstep_keeps p (PSent t size bw) HP HT Ho) as (A & B & _ & _ & _).
  destruct (credit_rate r _ BW A B Hf Hb Hm) as [_ C].
  assert (Hl : p_last (pstep p (PSent t size bw)) = t) by reflexivity.
  rewrite Hl in C. split; [unfold T; cbn [prun fold_left]; fold (prun (pstep p (PSent t size bw)) r); lia|].
  unfold adj_ideal. pose proof (Z.mul_div_le (BW / 8 * 5) 4 ltac:(lia)). lia.
Qed.

(** ** TimeUntilSend *)

(** no wrap in TimeUntilSend, and at the returned time the budget covers one datagram *)
Lemma time_until_send_wait : forall p bw T, PInv p -> bw_ok bw -> 0 < p_last p < 2^62 ->
  p_budget p < p_mds p -> time_until_send p bw = Some T ->
  p_last p + cc_minPacingDelayNs <= T /\ p_mds p <= budget p T bw.
Proof.
  intros p bw T HP Hbw HT HG Hq. pose proof HP as [Hb Hm].
  destruct (adj_bw_ideal bw Hbw) as [Ea Ha].
  unfold time_until_send in Hq. rewrite Ea in Hq. pconsts.
  destruct (Z.geb_spec (p_budget p) (p_mds p)) as [G|G]; [lia|].
  rewrite (i64_id (p_mds p - p_budget p)) in Hq by lia.
  rewrite (u64_id (p_mds p - p_budget p)) in Hq by lia.
  rewrite (u64_id (1000000000 * (p_mds p - p_budget p))) in Hq by lia.
  set (diff := 1000000000 * (p_mds p - p_budget p)) in *.
  set (a := adj_ideal bw) in *.
  destruct (Z.eqb_spec a 0) as [E|E]; [discriminate|].
  assert (Hap : 0 < a) by lia.
  assert (Hdiff : 0 < diff <= 2^60) by (unfold diff; lia).
  pose proof (Z.div_mod diff a ltac:(lia)) as Hdm.
  pose proof (Z.mod_pos_bound diff a Hap) as Hr.
  assert (Hq0 : 0 <= diff / a <= diff).
  { split; [apply Z.div_pos; lia|]. apply Z.div_le_upper_bound; nia. }
  set (d := if diff mod a >? 0 then u64 (diff / a + 1) else diff / a) in *.
  assert (Hd : 0 <= d <= 2^60 + 1 /\ diff <= a * d).
  { unfold d. destruct (Z.gtb_spec (diff mod a) 0).
    - rewrite u64_id by lia. split; [lia|]. nia.
    - split; [lia|]. assert (diff mod a = 0) by lia. lia. }
  destruct Hd as [Hd1 Hd2].
  rewrite (i64_id d) in Hq by lia.
  rewrite i64_id in Hq by lia.
  inversion Hq as [HTeq]. clear Hq.
  set (w := Z.max 1000000 d) in *.
  assert (Hw : 1000000 <= w /\ d <= w /\ w <= 2^60 + 1) by (unfold w; lia).
  split; [lia|].
  rewrite budget_no_overflow by (auto; lia).
  unfold budget_ideal.
  destruct (Z.eqb_spec (p_last p) 0); [lia|].
  replace (p_last p + w - p_last p) with w by lia.
  destruct (Z.gtb_spec w 0); [|lia].
  destruct (max_burst_ideal p bw HP Hbw) as [_ [Mlo _]].
  assert (Hts : p_mds p - p_budget p <= ts_ideal (p_mds p) bw w).
  { unfold ts_ideal. fold a. destruct (Z.eqb_spec a 0); [lia|].
    destruct (Z.gtb_spec w ((2^64 - 1) / a)); [lia|].
    apply Z.div_le_lower_bound; [lia|].
    assert (a * d <= a * w) by (apply Z.mul_le_mono_nonneg_l; lia). unfold diff in *. lia. }
  lia.
Qed.

Theorem time_until_send_sufficient : forall p bw T, PInv p -> bw_ok bw -> 0 < p_last p < 2^62 ->
  time_until_send p bw = Some T -> T <> 0 ->
  p_last p + cc_minPacingDelayNs <= T /\ p_mds p <= budget p T bw.
Proof.
  intros p bw T HP Hbw HT Hq HT0.
  apply time_until_send_wait; auto.
  unfold time_until_send in Hq. destruct (Z.geb_spec (p_budget p) (p_mds p)); [inversion Hq; lia|lia].
Qed.

(** adjustedBandwidth is never 0, so TimeUntilSend never divides by zero (formerly a panic
    when the smoothed RTT in seconds exceeded the window in bytes) *)
Lemma adj_bw_pos bw : 1 <= adj_bw bw.
Proof. unfold adj_bw. lia. Qed.

Theorem time_until_send_total : forall p bw, time_until_send p bw <> None.
Proof.
  intros p bw. unfold time_until_send. destruct (p_budget p >=? p_mds p); [discriminate|].
  pose proof (adj_bw_pos bw). destruct (Z.eqb_spec (adj_bw bw) 0); [lia|discriminate].
Qed.

(** No pacing livelock: whenever the gate is closed at [now] (Budget now < one datagram, what
    HasPacingBudget reports when the pacer's datagram size is the sender's), TimeUntilSend
    names a real time in the future of the last send — not "immediately" — at which the
    budget covers one datagram. *)
Theorem gate_closed_then_wait : forall p now bw, PInv p -> bw_ok bw -> 0 <= p_last p < 2^62 ->
  - 2^63 <= now - p_last p < 2^63 -> budget p now bw < p_mds p ->
  exists T, time_until_send p bw = Some T /\ T <> 0 /\ p_last p + cc_minPacingDelayNs <= T /\ p_mds p <= budget p T bw.
Proof.
  intros p now bw HP Hbw HT Hd Hc. pose proof HP as [Hb Hm].
  destruct (max_burst_ideal p bw HP Hbw) as [_ [Mlo _]].
  destruct (adj_bw_ideal bw Hbw) as [_ Ha].
  assert (Hl : p_last p <> 0 /\ p_budget p < p_mds p).
  { rewrite budget_no_overflow in Hc by auto. unfold budget_ideal in Hc.
    destruct (Z.eqb_spec (p_last p) 0); [lia|]. split; [auto|].
    destruct (Z.gtb_spec (now - p_last p) 0).
    - pose proof (ts_ideal_bounds (p_mds p) bw (now - p_last p) Hm ltac:(lia) ltac:(lia)) as [[T0 _] _]. lia.
    - lia. }
  destruct Hl as [Hl Hg].
  destruct (time_until_send p bw) as [T|] eqn:Hq; [|exfalso; exact (time_until_send_total p bw Hq)].
  destruct (time_until_send_wait p bw T HP Hbw ltac:(lia) Hg Hq) as [W1 W2].
  exists T. repeat split; auto. unfold cc_minPacingDelayNs in *. lia.
Qed.

(** ** BandwidthFromDelta / the sender's bandwidth estimate *)

(** For windows below 2^31 bytes and a positive smoothed RTT nothing wraps, and the pacing
    rate is at most 1.25 x cwnd / srtt. *)
Theorem bandwidth_no_overflow : forall bytes delta, 0 <= bytes < 2^31 -> 0 < delta < 2^63 ->
  bfd bytes delta = Some (bytes * 1000000000 / delta * 8) /\
  bw_ok (bytes * 1000000000 / delta * 8) /\
  adj_bw (bytes * 1000000000 / delta * 8) = Z.max (bytes * 1000000000 / delta * 5 / 4) 1.
Proof.
  intros bytes delta Hb Hd. unfold bfd. pconsts.
  rewrite (u64_id delta) by lia.
  destruct (Z.eqb_spec delta 0); [lia|].
  rewrite (u64_id bytes) by lia.
  rewrite (u64_id (bytes * 1000000000)) by lia.
  assert (Hq : 0 <= bytes * 1000000000 / delta <= bytes * 1000000000).
  { split; [apply Z.div_pos; lia|]. apply Z.div_le_upper_bound; nia. }
  rewrite u64_id by lia.
  assert (Hok : bw_ok (bytes * 1000000000 / delta * 8)) by (unfold bw_ok; lia).
  repeat split; try (unfold bw_ok in Hok; lia).
  destruct (adj_bw_ideal _ Hok) as [-> _]. unfold adj_ideal.
  rewrite Z.div_mul by lia. reflexivity.
Qed.

(** ** The pacer inside the sender *)

Lemma new_pacer_PInv bw : bw_ok bw -> PInv (new_pacer bw) /\ p_last (new_pacer bw) = 0.
Proof.
  intros Hbw. unfold new_pacer.
  set (p0 := {| p_budget := 0; p_mds := cc_initialMaxDatagramSize; p_last := 0 |}).
  assert (HP0 : PInv p0) by (unfold PInv, p0; cbn; unfold cc_initialMaxDatagramSize; lia).
  destruct (max_burst_ideal p0 bw HP0 Hbw) as [-> [Mlo Mhi]].
  unfold PInv; cbn [p_budget p_mds p_last]. unfold p0 in *; cbn [p_mds] in *. unfold cc_initialMaxDatagramSize in *. lia.
Qed.

Lemma bw_est_ok s srtt : bw_ok (bw_est s srtt).
Proof.
  unfold bw_est, bfd, bw_ok. destruct (u64 _ =? 0); [lia|].
  unfold u64 at 1. apply Z.mod_pos_bound. lia.
Qed.

Lemma ack_run_pc k : forall s pn prior, pc (ack_run k s pn prior) = pc s.
Proof.
  induction k as [|k IH]; intros s pn prior; cbn [ack_run]; [reflexivity|].
  rewrite IH. unfold on_acked, maybe_increase, set_window, set_hs, upd.
  repeat match goal with |- context[if ?c then _ else _] => destruct c end; reflexivity.
Qed.

(** The sender's pacer is exactly the pacer model, fed with the sender's bandwidth estimate
    (a uint64 value, so every pacer theorem applies to it). *)
Theorem sender_pacer_step : forall s o,
  pc (step s o) =
  match o with
  | Sent now _ bytes _ srtt => pstep (pc s) (PSent now bytes (bw_est s srtt))
  | SetMDS m => if m <? mds s then pc s else pstep (pc s) (PSetMDS m)
  | _ => pc s
  end.
Proof.
  intros s o. destruct o; unfold step, step_full; cbn [fst]; try reflexivity.
  - unfold on_sent. destruct retrans; reflexivity.
  - unfold on_acked, maybe_increase, set_window, set_hs, upd.
    repeat match goal with |- context[if ?c then _ else _] => destruct c end; reflexivity.
  - unfold on_lost, upd. repeat match goal with |- context[if ?c then _ else _] => destruct c end; reflexivity.
  - unfold on_rto. destruct b; reflexivity.
  - unfold set_mds. destruct (m <? mds s); reflexivity.
  - unfold maybe_exit_ss, set_hs, upd. destruct (in_slow_start s); [|reflexivity].
    destruct (hs_should_exit _ _ _ _) as [h' ex]. destruct ex; reflexivity.
  - apply ack_run_pc.
  - destruct (time_until_send (pc s) (bw_est s srtt)); reflexivity.
Qed.

Example pacer_example :
  let p := new_pacer 800000000 in
  let l := [PSent 1000 1280 800000000; PSent 2000 1280 800000000; PSent 1000000 1280 800000000] in
  Forall pop_ok l /\ sum_auth p l = 3840 /\ time_until_send (prun p [PSent 5 12000 8000000]) 8000000 = Some 1000005.
Proof.
  cbv zeta. split; [|split; vm_compute; reflexivity].
  repeat (constructor; [cbv; repeat split; discriminate|]). constructor.
Qed.

(** ** The pacer's datagram size is the sender's, from construction on *)

Lemma ack_run_mds k : forall s pn prior, mds (ack_run k s pn prior) = mds s.
Proof.
  induction k as [|k IH]; intros s pn prior; cbn [ack_run]; [reflexivity|].
  rewrite IH. unfold on_acked, maybe_increase, set_window, set_hs, upd.
  repeat match goal with |- context[if ?c then _ else _] => destruct c end; reflexivity.
Qed.

Lemma step_synced s o : p_mds (pc s) = mds s -> p_mds (pc (step s o)) = mds (step s o).
Proof.
  intros H. destruct o; unfold step, step_full; cbn [fst]; try exact H.
  - unfold on_sent. destruct retrans; exact H.
  - unfold on_acked, maybe_increase, set_window, set_hs, upd.
    repeat match goal with |- context[if ?c then _ else _] => destruct c end; exact H.
  - unfold on_lost, upd. repeat match goal with |- context[if ?c then _ else _] => destruct c end; exact H.
  - unfold on_rto. destruct b; exact H.
  - unfold set_mds. destruct (m <? mds s); cbn [fst]; [exact H|reflexivity].
  - unfold maybe_exit_ss, set_hs, upd. destruct (in_slow_start s); [|exact H].
    destruct (hs_should_exit _ _ _ _) as [h' ex]. destruct ex; exact H.
  - rewrite ack_run_pc, ack_run_mds. exact H.
  - destruct (time_until_send (pc s) (bw_est s srtt)); exact H.
Qed.

(** For every history from (new)CubicSender: pacer.maxDatagramSize = sender.maxDatagramSize, so
    HasPacingBudget (Budget >= sender size) and TimeUntilSend (pacer size) speak about the same
    datagram (formerly 1280 vs. the configured initial size: finding cubic/pacing-livelock). *)
Theorem pacer_synced : forall m r icw imax srtt0 ops,
  let s' := run (new_sender_w m r icw imax srtt0) ops in p_mds (pc s') = mds s'.
Proof.
  intros m r icw imax srtt0 ops.
  assert (H : forall ops s, p_mds (pc s) = mds s -> p_mds (pc (run s ops)) = mds (run s ops)).
  { induction ops0 as [|o ops0 IH]; intros s Hs; cbn [run fold_left]; [exact Hs|].
    apply IH. apply step_synced. exact Hs. }
  apply H. reflexivity.
Qed.

(** Regression for cubic/pacing-livelock (the history the harness replays as its fixed case 2):
    sender with 1350-byte datagrams; eight full packets and one of 700 bytes at the same instant.
    Before the repair the pacer (datagram size 1280, burst 12800) was left with 1300 bytes:
    HasPacingBudget false (1300 < 1350) but TimeUntilSend = 0 (1300 >= 1280) — the run loop spins.
    Now the budget is 2000 (gate open); one more packet leaves 650: gate closed and TimeUntilSend
    names a real time. *)
Example pacing_livelock_regression :
  let s8 := run (new_sender 1350 true 100000000)
               (map (fun i => Sent 1000 i 1350 true 100000000) [0;1;2;3;4;5;6;7] ++ [Sent 1000 8 700 true 100000000]) in
  p_mds (pc s8) = 1350 /\ p_budget (pc s8) = 2000 /\ step_full s8 (QBudget 1000 100000000) = (s8, 1, false) /\
  let s9 := step s8 (Sent 1000 9 1350 true 100000000) in
  p_budget (pc s9) = 650 /\ step_full s9 (QBudget 1000 100000000) = (s9, 0, false) /\
  exists T, step_full s9 (QTimeUntil 100000000) = (s9, T, false) /\ 1001000 <= T.
Proof. vm_compute. repeat split; try reflexivity. eexists. split; [reflexivity|discriminate]. Qed.
