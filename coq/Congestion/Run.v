(** Correspondence glue for the units "cubic" and "pacer" (property C20): a case is what the
    Go harness logged — the op sequence with, after every op, the observable state the
    implementation reached. *)
From Coq Require Import List ZArith Bool String.
From V Require Import Gen.Params Lib.Corr Lib.Hex.
From V Require Export Congestion.Model.
Import ListNotations.
Open Scope Z_scope.

(** Observables after one op: return value, panicked, then every modelled field. *)
Inductive ob :=
| Ob (ret : Z) (pan : bool) (cw ss l_s l_a l_c : Z) (ex : bool) (na md hend hlast : Z) (hstarted hfound : bool)
     (hmin hcount pb pmds plast : Z).

Inductive pob := PO (ret : Z) (pan : bool) (b m l : Z).

Inductive case :=
| CubicCase (mds0 : Z) (reno : bool) (steps : list (op * ob))
| CubicCaseW (mds0 : Z) (reno : bool) (icw imax : Z) (steps : list (op * ob))
| PacerCase (steps : list (pop * pob))
| BwCase (bytes delta ret : Z) (pan : bool)
| SendModeCase (l : list (gate * Z))
| PaceCase (avail : Z) (hasRecv : bool) (modes : list Z) (tus sent deadline blocked ackonly : Z).

Definition ob_of (s : sender) (ret : Z) (pan : bool) : ob :=
  Ob ret pan (cwnd s) (ssthresh s) (ls s) (la s) (lc s) (exited s) (nacked s) (mds s)
     (hs_end (hs s)) (hs_last (hs s)) (hs_started (hs s)) (hs_found (hs s)) (hs_min (hs s)) (hs_count (hs s))
     (p_budget (pc s)) (p_mds (pc s)) (p_last (pc s)).

Definition beqb (a b : bool) : bool := Bool.eqb a b.

Definition ob_eqb (a b : ob) : bool :=
  match a, b with
  | Ob r1 p1 a1 a2 a3 a4 a5 e1 a6 a7 a8 a9 s1 f1 a10 a11 a12 a13 a14,
    Ob r2 p2 b1 b2 b3 b4 b5 e2 b6 b7 b8 b9 s2 f2 b10 b11 b12 b13 b14 =>
    (r1 =? r2) && beqb p1 p2 && (a1 =? b1) && (a2 =? b2) && (a3 =? b3) && (a4 =? b4) && (a5 =? b5) && beqb e1 e2 &&
    (a6 =? b6) && (a7 =? b7) && (a8 =? b8) && (a9 =? b9) && beqb s1 s2 && beqb f1 f2 && (a10 =? b10) && (a11 =? b11) &&
    (a12 =? b12) && (a13 =? b13) && (a14 =? b14)
  end.

Definition pob_eqb (a b : pob) : bool :=
  match a, b with
  | PO r1 p1 b1 m1 l1, PO r2 p2 b2 m2 l2 => (r1 =? r2) && beqb p1 p2 && (b1 =? b2) && (m1 =? m2) && (l1 =? l2)
  end.

(** utils.NewRTTStats(): smoothed RTT = DefaultInitialRTT = 100ms when the sender (and its pacer) is built. *)
Definition defaultInitialRTTns : Z := 100000000.

Fixpoint model_steps (s : sender) (ops : list op) : list ob :=
  match ops with
  | [] => []
  | o :: r => let '(s', ret, pan) := step_full s o in ob_of s' ret pan :: model_steps s' r
  end.

Fixpoint model_psteps (p : pacer) (ops : list pop) : list pob :=
  match ops with
  | [] => []
  | o :: r => let '(p', ret, pan) := pstep_full p o in PO ret pan (p_budget p') (p_mds p') (p_last p') :: model_psteps p' r
  end.

Inductive obs :=
| CubicObs (l : list ob)
| PacerObs (l : list pob)
| BwObs (ret : Z) (pan : bool)
| SendModeObs (l : list Z)
| PaceObs (r : pace_result).

(** the harness builds the stand-alone pacer with bandwidth 0 and sets the bandwidth afterwards *)
Definition model_obs (c : case) : obs :=
  match c with
  | CubicCase m r steps => CubicObs (model_steps (new_sender m r defaultInitialRTTns) (map fst steps))
  | CubicCaseW m r icw imax steps => CubicObs (model_steps (new_sender_w m r icw imax defaultInitialRTTns) (map fst steps))
  | PacerCase steps => PacerObs (model_psteps (new_pacer 0) (map fst steps))
  | BwCase b d _ _ => match bfd b d with Some v => BwObs v false | None => BwObs 0 true end
  | SendModeCase l => SendModeObs (map (fun x => send_mode (fst x)) l)
  | PaceCase avail hasRecv modes tus _ _ _ _ => PaceObs (trigger_sending avail hasRecv modes tus)
  end.

Fixpoint all2 {A} (f : A -> A -> bool) (a b : list A) : bool :=
  match a, b with
  | [], [] => true
  | x :: a', y :: b' => f x y && all2 f a' b'
  | _, _ => false
  end.

Definition check_case (c : case) : bool :=
  match c, model_obs c with
  | CubicCase _ _ steps, CubicObs l => all2 ob_eqb l (map snd steps)
  | CubicCaseW _ _ _ _ steps, CubicObs l => all2 ob_eqb l (map snd steps)
  | PacerCase steps, PacerObs l => all2 pob_eqb l (map snd steps)
  | BwCase _ _ ret pan, BwObs r p => (r =? ret) && beqb p pan
  | SendModeCase l, SendModeObs m => all2 Z.eqb m (map snd l)
  | PaceCase _ _ _ _ sent deadline blocked ackonly, PaceObs r =>
    pr_ok r && (pr_sent r =? sent) && (pr_deadline r =? deadline) && (pr_blocked r =? blocked) && (pr_ackonly r =? ackonly) &&
    match pr_rest r with [] => true | _ => false end
  | _, _ => false
  end.
