(** C20 — Gallina model of /repo/internal/congestion: cubicSender (Reno mode computed,
    cubic mode with the Cubic window functions as per-op oracle values), HybridSlowStart,
    the token-bucket pacer with explicit uint64/int64 wrap-around, BandwidthFromDelta.
    Executable definitions only. Same state variables, same branch structure, constants
    from Gen.Params. RTT values (smoothed / latest / min) are per-op oracle arguments. *)
From Coq Require Import List ZArith Bool.
From V Require Import Gen.Params.
Import ListNotations.
Open Scope Z_scope.

(** * Machine integers *)
Definition u64 (x : Z) : Z := x mod 2^64.
Definition i64 (x : Z) : Z := (x + 2^63) mod 2^64 - 2^63.
Definition u32 (x : Z) : Z := x mod 2^32.
Definition maxU64 : Z := 2^64 - 1.
Definition nsPerSecond : Z := 1000000000.   (* time.Second, and the pacer's nsPerSecond = 1e9 *)

(** * float64(w) * renoBeta, converted back to int64 — exact IEEE-754 semantics.
    [rne53 p]: the integer [p >= 0] rounded to 53 significant bits, ties to even
    (int64 -> float64 conversion, and rounding of an exact product scaled by 2^k).
    renoBeta as compiled = cc_renoBetaMant * 2^-cc_renoBetaExp (read from the binary). *)
Definition rne53 (p : Z) : Z :=
  if p <? 2^53 then p else
  let s := Z.log2 p - 52 in
  let q := p / 2^s in
  let r := p mod 2^s in
  let half := 2^(s-1) in
  let q' := if r <? half then q else if half <? r then q + 1 else if Z.even q then q else q + 1 in
  q' * 2^s.

Definition cutpos (w : Z) : Z := rne53 (rne53 w * cc_renoBetaMant) / 2^cc_renoBetaExp.
Definition reno_cut (w : Z) : Z := if w <? 0 then - cutpos (- w) else cutpos w.

(** * BandwidthFromDelta: Bandwidth(bytes) * Bandwidth(time.Second) / Bandwidth(delta) * BytesPerSecond,
    all in uint64. [None] = division by zero (run-time panic). *)
Definition bfd (bytes delta : Z) : option Z :=
  if u64 delta =? 0 then None
  else Some (u64 (u64 (u64 bytes * nsPerSecond) / u64 delta * cc_bytesPerSecond)).

(** * Pacer *)
Record pacer := { p_budget : Z; p_mds : Z; p_last : Z }.

(** adjustedBandwidth: bw is getBandwidth() in bits/s (uint64); never 0 (max(bw*5/4, 1)). *)
Definition adj_bw (bw : Z) : Z := Z.max (u64 (bw / cc_bytesPerSecond * 5) / 4) 1.

Definition p_maxBurstPkts (p : pacer) : Z := i64 (cc_maxBurstSizePackets * p_mds p).

Definition time_scaled (p : pacer) (bw ns : Z) : Z :=
  let a := adj_bw bw in
  if a =? 0 then 0
  else if ns >? maxU64 / a then p_maxBurstPkts p
  else i64 (u64 (a * ns) / nsPerSecond).

Definition max_burst (p : pacer) (bw : Z) : Z :=
  Z.max (time_scaled p bw (u64 (cc_minPacingDelayNs + cc_timerGranularityNs))) (p_maxBurstPkts p).

Definition budget (p : pacer) (now bw : Z) : Z :=
  if p_last p =? 0 then max_burst p bw
  else
    let delta := i64 (now - p_last p) in
    let added := if delta >? 0 then time_scaled p bw (u64 delta) else 0 in
    let b := i64 (p_budget p + added) in
    let b := if (added >? 0) && (b <? p_budget p) then cc_maxByteCount else b in
    Z.min (max_burst p bw) b.

Definition sent_packet (p : pacer) (t size bw : Z) : pacer :=
  let b := budget p t bw in
  {| p_budget := if size >=? b then 0 else i64 (b - size); p_mds := p_mds p; p_last := t |}.

(** TimeUntilSend: [None] = integer division by zero (bandwidth estimate 0). *)
Definition time_until_send (p : pacer) (bw : Z) : option Z :=
  if p_budget p >=? p_mds p then Some 0
  else
    let diff := u64 (nsPerSecond * u64 (i64 (p_mds p - p_budget p))) in
    let a := adj_bw bw in
    if a =? 0 then None
    else
      let d := diff / a in
      let d := if diff mod a >? 0 then u64 (d + 1) else d in
      Some (i64 (p_last p + Z.max cc_minPacingDelayNs (i64 d))).

Definition pacer_set_mds (p : pacer) (s : Z) : pacer :=
  {| p_budget := p_budget p; p_mds := s; p_last := p_last p |}.

(** newPacer: maxDatagramSize = initialMaxDatagramSize (the package constant), full burst. *)
Definition new_pacer (bw : Z) : pacer :=
  let p0 := {| p_budget := 0; p_mds := cc_initialMaxDatagramSize; p_last := 0 |} in
  {| p_budget := max_burst p0 bw; p_mds := cc_initialMaxDatagramSize; p_last := 0 |}.

(** * Hybrid slow start *)
Record hss := { hs_end : Z; hs_last : Z; hs_started : bool; hs_min : Z; hs_count : Z; hs_found : bool }.

Definition hs_init : hss := {| hs_end := 0; hs_last := 0; hs_started := false; hs_min := 0; hs_count := 0; hs_found := false |}.

Definition hs_restart (h : hss) : hss :=
  {| hs_end := hs_end h; hs_last := hs_last h; hs_started := false; hs_min := hs_min h; hs_count := hs_count h; hs_found := false |}.

Definition hs_on_sent (h : hss) (pn : Z) : hss :=
  {| hs_end := hs_end h; hs_last := pn; hs_started := hs_started h; hs_min := hs_min h; hs_count := hs_count h; hs_found := hs_found h |}.

Definition hs_on_acked (h : hss) (pn : Z) : hss :=
  if hs_end h <? pn
  then {| hs_end := hs_end h; hs_last := hs_last h; hs_started := false; hs_min := hs_min h; hs_count := hs_count h; hs_found := hs_found h |}
  else h.

(** ShouldExitSlowStart latestRTT minRTT congestionWindow(in packets) *)
Definition hs_should_exit (h : hss) (latest minrtt cwndpk : Z) : hss * bool :=
  let h1 := if hs_started h then h
            else {| hs_end := hs_last h; hs_last := hs_last h; hs_started := true; hs_min := 0; hs_count := 0; hs_found := hs_found h |} in
  if hs_found h1 then (h1, true)
  else
    let c := u32 (hs_count h1 + 1) in
    let m := if c <=? cc_hybridStartMinSamples
             then (if (hs_min h1 =? 0) || (hs_min h1 >? latest) then latest else hs_min h1)
             else hs_min h1 in
    let f := if c =? cc_hybridStartMinSamples
             then
               let thrUs := Z.shiftr (Z.quot minrtt 1000) cc_hybridStartDelayFactorExp in
               let thrUs := Z.min thrUs cc_hybridStartDelayMaxThresholdUs in
               let thr := Z.max thrUs cc_hybridStartDelayMinThresholdUs * 1000 in
               if m >? minrtt + thr then true else hs_found h1
             else hs_found h1 in
    ({| hs_end := hs_end h1; hs_last := hs_last h1; hs_started := hs_started h1; hs_min := m; hs_count := c; hs_found := f |},
     (cwndpk >=? cc_hybridStartLowWindow) && f).

(** * cubicSender *)
Record sender := {
  reno : bool;
  ls : Z;          (* largestSentPacketNumber *)
  la : Z;          (* largestAckedPacketNumber *)
  lc : Z;          (* largestSentAtLastCutback *)
  exited : bool;   (* lastCutbackExitedSlowstart *)
  cwnd : Z;        (* congestionWindow *)
  ssthresh : Z;    (* slowStartThreshold *)
  nacked : Z;      (* numAckedPackets, uint64 *)
  initCwnd : Z;    (* initialCongestionWindow *)
  initMaxCwnd : Z; (* initialMaxCongestionWindow *)
  mds : Z;         (* maxDatagramSize *)
  hs : hss;
  pc : pacer
}.

Definition upd (s : sender) (ls' la' lc' : Z) (ex' : bool) (cw' ss' na' md' : Z) (h' : hss) (p' : pacer) : sender :=
  {| reno := reno s; ls := ls'; la := la'; lc := lc'; exited := ex'; cwnd := cw'; ssthresh := ss'; nacked := na';
     initCwnd := initCwnd s; initMaxCwnd := initMaxCwnd s; mds := md'; hs := h'; pc := p' |}.

Definition set_window (s : sender) (cw' ss' na' : Z) : sender :=
  upd s (ls s) (la s) (lc s) (exited s) cw' ss' na' (mds s) (hs s) (pc s).
Definition set_hs (s : sender) (h' : hss) : sender :=
  upd s (ls s) (la s) (lc s) (exited s) (cwnd s) (ssthresh s) (nacked s) (mds s) h' (pc s).

Definition max_cwnd (s : sender) : Z := mds s * cc_maxCongestionWindowPackets.
Definition min_cwnd (s : sender) : Z := mds s * cc_minCongestionWindowPackets.
Definition in_recovery (s : sender) : bool := negb (la s =? cc_invalidPacketNumber) && (la s <=? lc s).
Definition in_slow_start (s : sender) : bool := cwnd s <? ssthresh s.

(** BandwidthEstimate (srtt is the RTTStats oracle); BandwidthFromDelta cannot divide by zero here. *)
Definition bw_est (s : sender) (srtt : Z) : Z :=
  match bfd (cwnd s) (if srtt =? 0 then cc_timerGranularityNs else srtt) with Some b => b | None => 0 end.

(** newCubicSender(clock, rtt, stats, reno, initialMaxDatagramSize = m, initialCongestionWindow = icw,
    initialMaxCongestionWindow = imax, qlogger); srtt0 is the smoothed RTT at construction (the pacer's
    initial burst reads the bandwidth estimate). *)
Definition new_sender_w (m : Z) (r : bool) (icw imax srtt0 : Z) : sender :=
  let s0 := {| reno := r; ls := cc_invalidPacketNumber; la := cc_invalidPacketNumber; lc := cc_invalidPacketNumber;
               exited := false; cwnd := icw; ssthresh := cc_maxByteCount; nacked := 0;
               initCwnd := icw; initMaxCwnd := imax;
               mds := m; hs := hs_init; pc := {| p_budget := 0; p_mds := 0; p_last := 0 |} |} in
  (* c.pacer = newPacer(c.BandwidthEstimate); c.pacer.SetMaxDatagramSize(initialMaxDatagramSize) *)
  upd s0 (ls s0) (la s0) (lc s0) (exited s0) (cwnd s0) (ssthresh s0) (nacked s0) (mds s0) (hs s0)
      (pacer_set_mds (new_pacer (bw_est s0 srtt0)) m).

(** NewCubicSender(clock, rtt, stats, initialMaxDatagramSize = m, reno, qlogger) — what production calls. *)
Definition new_sender (m : Z) (r : bool) (srtt0 : Z) : sender :=
  new_sender_w m r (cc_initialCongestionWindow * m) (cc_maxCongestionWindowPackets * m) srtt0.

Definition is_cwnd_limited (s : sender) (bif : Z) : bool :=
  if bif >=? cwnd s then true
  else
    let avail := cwnd s - bif in
    let ssl := in_slow_start s && (bif >? Z.quot (cwnd s) 2) in
    ssl || (avail <=? cc_maxBurstPackets * mds s).

(** maybeIncreaseCwnd; [orc] = value Cubic.CongestionWindowAfterAck would return (cubic mode only). *)
Definition maybe_increase (s : sender) (prior orc : Z) : sender :=
  if negb (is_cwnd_limited s prior) then s
  else if cwnd s >=? max_cwnd s then s
  else if in_slow_start s then set_window s (cwnd s + mds s) (ssthresh s) (nacked s)
  else if reno s then
    let n := u64 (nacked s + 1) in
    if n >=? u64 (Z.quot (cwnd s) (mds s)) then set_window s (cwnd s + mds s) (ssthresh s) 0
    else set_window s (cwnd s) (ssthresh s) n
  else set_window s (Z.min (max_cwnd s) orc) (ssthresh s) (nacked s).

Definition on_acked (s : sender) (pn prior orc : Z) : sender :=
  let s1 := upd s (ls s) (Z.max pn (la s)) (lc s) (exited s) (cwnd s) (ssthresh s) (nacked s) (mds s) (hs s) (pc s) in
  if in_recovery s1 then s1
  else
    let s2 := maybe_increase s1 prior orc in
    if in_slow_start s2 then set_hs s2 (hs_on_acked (hs s2) pn) else s2.

(** OnCongestionEvent; [orc] = value Cubic.CongestionWindowAfterPacketLoss would return (cubic mode only). *)
Definition on_lost (s : sender) (pn orc : Z) : sender :=
  if pn <=? lc s then s
  else
    let ex := in_slow_start s in
    let w := if reno s then reno_cut (cwnd s) else orc in
    let w := if w <? min_cwnd s then min_cwnd s else w in
    upd s (ls s) (la s) (ls s) ex w w 0 (mds s) (hs s) (pc s).

Definition on_rto (s : sender) (b : bool) : sender :=
  if b then upd s (ls s) (la s) cc_invalidPacketNumber (exited s) (min_cwnd s) (Z.quot (cwnd s) 2) (nacked s) (mds s) (hs_restart (hs s)) (pc s)
  else upd s (ls s) (la s) cc_invalidPacketNumber (exited s) (cwnd s) (ssthresh s) (nacked s) (mds s) (hs s) (pc s).

Definition on_migration (s : sender) : sender :=
  upd s cc_invalidPacketNumber cc_invalidPacketNumber cc_invalidPacketNumber false (initCwnd s) (initMaxCwnd s) 0 (mds s)
      (hs_restart (hs s)) (pc s).

(** SetMaxDatagramSize; [None] = the "congestion BUG" panic on a decrease. The window is
    re-floored to the new minimum: cwnd = max(cwnd, minCongestionWindow()). *)
Definition set_mds (s : sender) (m : Z) : option sender :=
  if m <? mds s then None
  else
    Some (upd s (ls s) (la s) (lc s) (exited s) (Z.max (cwnd s) (m * cc_minCongestionWindowPackets))
              (ssthresh s) (nacked s) m (hs s) (pacer_set_mds (pc s) m)).

Definition maybe_exit_ss (s : sender) (latest minrtt : Z) : sender :=
  if in_slow_start s then
    let '(h', ex) := hs_should_exit (hs s) latest minrtt (Z.quot (cwnd s) (mds s)) in
    if ex then upd s (ls s) (la s) (lc s) (exited s) (cwnd s) (cwnd s) (nacked s) (mds s) h' (pc s)
    else set_hs s h'
  else s.

Definition on_sent (s : sender) (now pn bytes : Z) (retrans : bool) (srtt : Z) : sender :=
  let p' := sent_packet (pc s) now bytes (bw_est s srtt) in
  (* largestSentPacketNumber = max(largestSentPacketNumber, pn): packet numbers of all packet number spaces arrive here *)
  if retrans then upd s (Z.max (ls s) pn) (la s) (lc s) (exited s) (cwnd s) (ssthresh s) (nacked s) (mds s) (hs_on_sent (hs s) pn) p'
  else upd s (ls s) (la s) (lc s) (exited s) (cwnd s) (ssthresh s) (nacked s) (mds s) (hs s) p'.

Fixpoint ack_run (k : nat) (s : sender) (pn prior : Z) : sender :=
  match k with
  | O => s
  | S k' => ack_run k' (on_acked s pn prior 0) (pn + 1) prior
  end.

Inductive op :=
| Sent (now pn bytes : Z) (retrans : bool) (srtt : Z)
| Acked (pn bytes prior now orc : Z)
| Lost (pn bytes prior orc : Z)
| RTO (b : bool)
| SetMDS (m : Z)
| ExitSS (latest minrtt : Z)
| Migrate
| AckRun (n pn0 bytes prior now : Z)
| QBudget (now srtt : Z)
| QTimeUntil (srtt : Z)
| QCanSend (bif : Z)
| QInRecovery
| QInSlowStart.

Definition b2z (b : bool) : Z := if b then 1 else 0.

(** One event: new state, return value (queries), panicked. *)
Definition step_full (s : sender) (o : op) : sender * Z * bool :=
  match o with
  | Sent now pn bytes r srtt => (on_sent s now pn bytes r srtt, 0, false)
  | Acked pn _ prior _ orc => (on_acked s pn prior orc, 0, false)
  | Lost pn _ _ orc => (on_lost s pn orc, 0, false)
  | RTO b => (on_rto s b, 0, false)
  | SetMDS m => match set_mds s m with Some s' => (s', 0, false) | None => (s, 0, true) end
  | ExitSS l m => (maybe_exit_ss s l m, 0, false)
  | Migrate => (on_migration s, 0, false)
  | AckRun n pn0 _ prior _ => (ack_run (Z.to_nat n) s pn0 prior, 0, false)
  | QBudget now srtt => (s, b2z (budget (pc s) now (bw_est s srtt) >=? mds s), false)
  | QTimeUntil srtt => match time_until_send (pc s) (bw_est s srtt) with Some t => (s, t, false) | None => (s, 0, true) end
  | QCanSend bif => (s, b2z (bif <? cwnd s), false)
  | QInRecovery => (s, b2z (in_recovery s), false)
  | QInSlowStart => (s, b2z (in_slow_start s), false)
  end.

Definition step (s : sender) (o : op) : sender := fst (fst (step_full s o)).
Definition run (s : sender) (ops : list op) : sender := fold_left step ops s.

(** * Pacer on its own (bandwidth as a per-op oracle: the value getBandwidth() returns) *)
Inductive pop :=
| PSent (t size bw : Z)
| PBudget (t bw : Z)
| PUntil (bw : Z)
| PSetMDS (m : Z)
| PMaxBurst (bw : Z)
| PScaled (ns bw : Z).

Definition pstep_full (p : pacer) (o : pop) : pacer * Z * bool :=
  match o with
  | PSent t size bw => (sent_packet p t size bw, 0, false)
  | PBudget t bw => (p, budget p t bw, false)
  | PUntil bw => match time_until_send p bw with Some t => (p, t, false) | None => (p, 0, true) end
  | PSetMDS m => (pacer_set_mds p m, 0, false)
  | PMaxBurst bw => (p, max_burst p bw, false)
  | PScaled ns bw => (p, time_scaled p bw ns, false)
  end.
Definition pstep (p : pacer) (o : pop) : pacer := fst (fst (pstep_full p o)).

(** * sentPacketHandler.SendMode: the decision, as a function of the inputs it reads
    (number of tracked packets, amplification limit, probes to send and their mode,
    bytes in flight, congestion window, HasPacingBudget). Modes are the SendMode enum values. *)
Inductive gate := G (tracked : Z) (amp : bool) (probes pto bif cw : Z) (budget : bool).

Definition send_mode (g : gate) : Z :=
  match g with
  | G tracked amp probes pto bif cw bud =>
    if amp then sm_SendNone
    else if tracked >=? sm_maxTrackedSentPackets then sm_SendNone
    else if probes >? 0 then pto
    else if negb (bif <? cw) then sm_SendAck          (* !congestion.CanSend(bytesInFlight) *)
    else if tracked >=? sm_maxOutstandingSentPackets then sm_SendAck
    else if negb bud then sm_SendPacingLimited
    else sm_SendAny
  end.

(** * Conn.triggerSending / sendPackets / sendPacketsWithoutGSO / resetPacingDeadline (connection.go),
    after the handshake, no path/MTU probe due: a function of how many packets of data wait, whether a
    received packet waits in the queue, the successive SendMode answers of the handler and its
    TimeUntilSend answer. Result: packets sent, pacingDeadline, blocked mode, ACK-only attempts, and
    the SendMode answers not consumed. *)
Definition pace_deadline (tus : Z) : Z := if tus =? 0 then pg_deadlineSendImmediately else tus.

(** the loop of sendPacketsWithoutGSO: one packet, then ask SendMode again *)
Fixpoint pace_loop (fuel : nat) (avail : Z) (hasRecv : bool) (modes : list Z) (tus sent : Z) : Z * Z * list Z :=
  match fuel with
  | O => (sent, 0, modes)
  | S f =>
    if avail <=? 0 then (sent, 0, modes)                       (* errNothingToPack *)
    else match modes with
         | [] => (sent + 1, 0, [])
         | m :: r =>
           if m =? sm_SendPacingLimited then (sent + 1, pace_deadline tus, r)      (* resetPacingDeadline *)
           else if negb (m =? sm_SendAny) then (sent + 1, 0, r)
           else if hasRecv then (sent + 1, pg_deadlineSendImmediately, r)  (* receiving has priority *)
           else pace_loop f (avail - 1) hasRecv r tus (sent + 1)
         end
  end.

Record pace_result := { pr_sent : Z; pr_deadline : Z; pr_blocked : Z; pr_ackonly : Z; pr_rest : list Z; pr_ok : bool }.

Definition trigger_sending (avail : Z) (hasRecv : bool) (modes : list Z) (tus : Z) : pace_result :=
  match modes with
  | [] => {| pr_sent := 0; pr_deadline := 0; pr_blocked := 0; pr_ackonly := 0; pr_rest := []; pr_ok := false |}
  | m :: r =>
    if m =? sm_SendAny then
      let '(sent, dl, rest) := pace_loop (Z.to_nat avail + 1) avail hasRecv r tus 0 in
      {| pr_sent := sent; pr_deadline := dl; pr_blocked := pg_blockModeNone; pr_ackonly := 0; pr_rest := rest; pr_ok := true |}
    else if m =? sm_SendNone then
      {| pr_sent := 0; pr_deadline := 0; pr_blocked := pg_blockModeHardBlocked; pr_ackonly := 0; pr_rest := r; pr_ok := true |}
    else if m =? sm_SendPacingLimited then
      {| pr_sent := 0; pr_deadline := pace_deadline tus; pr_blocked := pg_blockModeNone; pr_ackonly := 1; pr_rest := r; pr_ok := true |}
    else if m =? sm_SendAck then
      {| pr_sent := 0; pr_deadline := 0; pr_blocked := pg_blockModeCongestionLimited; pr_ackonly := 1; pr_rest := r; pr_ok := true |}
    else (* PTO modes: sendProbePacket, not modelled *)
      {| pr_sent := 0; pr_deadline := 0; pr_blocked := 0; pr_ackonly := 0; pr_rest := r; pr_ok := false |}
  end.
