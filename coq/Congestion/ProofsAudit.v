(** C20 round 5 (audit): the pacer clause lifted to sender histories; bytes really sent by
    gated sends; panic-freedom of production histories; one send-gate statement with the real
    bytes in flight AND the real window. *)
From Coq Require Import List ZArith Bool Lia.
From V Require Import Gen.Params Congestion.Model Congestion.ProofsCut Congestion.ProofsCubic Congestion.ProofsPacer.
Import ListNotations.
Open Scope Z_scope.

(** * 1. The sender's pacer satisfies the pacer theorems' hypotheses in every sender history *)

(** ranges of the sender ops: send times in (0, 2^62) ns, sizes >= 0, datagram sizes in (0, 2^30] *)
Definition op_rng (o : op) : Prop :=
  match o with
  | Sent now _ bytes _ _ => 0 < now < 2^62 /\ 0 <= bytes
  | SetMDS m => 0 < m <= 2^30
  | _ => True
  end.

(** the pacer ops a sender history induces (bandwidth = the sender's estimate at that moment) *)
Definition pop_of (s : sender) (o : op) : list pop :=
  match o with
  | Sent now _ bytes _ srtt => [PSent now bytes (bw_est s srtt)]
  | SetMDS m => if m <? mds s then [] else [PSetMDS m]
  | _ => []
  end.
Fixpoint sender_pops (s : sender) (ops : list op) : list pop :=
  match ops with [] => [] | o :: r => pop_of s o ++ sender_pops (step s o) r end.

Lemma pc_step_pops s o : pc (step s o) = prun (pc s) (pop_of s o).
Proof.
  rewrite sender_pacer_step. destruct o; try reflexivity.
  cbn [pop_of]. destruct (m <? mds s); reflexivity.
Qed.

Lemma pop_of_ok s o : op_rng o -> Forall pop_ok (pop_of s o).
Proof.
  intros H. destruct o; cbn [pop_of]; try constructor.
  - cbn in H. cbn. destruct H. repeat split; auto; try lia; apply bw_est_ok.
  - constructor.
  - destruct (m <? mds s); constructor; [exact H|constructor].
Qed.

Lemma prun_keeps l : forall p, PInv p -> PT p -> Forall pop_ok l -> PInv (prun p l) /\ PT (prun p l).
Proof.
  induction l as [|o r IH]; intros p HP HT Hf; cbn [prun fold_left]; [auto|].
  inversion Hf as [|? ? Ho Hf']; subst.
  destruct (pstep_keeps p o HP HT Ho) as (A & B & _). apply IH; auto.
Qed.

Lemma prun_app p l1 l2 : prun p (l1 ++ l2) = prun (prun p l1) l2.
Proof. unfold prun. apply fold_left_app. Qed.

Lemma sender_pops_run ops : forall s, pc (run s ops) = prun (pc s) (sender_pops s ops).
Proof.
  induction ops as [|o r IH]; intros s; cbn [run fold_left sender_pops]; [reflexivity|].
  fold (run (step s o) r). rewrite IH, pc_step_pops, prun_app. reflexivity.
Qed.

Lemma sender_pops_ok ops : forall s, Forall op_rng ops -> Forall pop_ok (sender_pops s ops).
Proof.
  induction ops as [|o r IH]; intros s Hf; cbn [sender_pops]; [constructor|].
  inversion Hf as [|? ? Ho Hf']; subst. apply Forall_app. split; [apply pop_of_ok; auto|apply IH; auto].
Qed.

Lemma new_sender_pacer_ok m r icw imax srtt0 : 0 < m <= 2^30 ->
  PInv (pc (new_sender_w m r icw imax srtt0)) /\ PT (pc (new_sender_w m r icw imax srtt0)).
Proof.
  intros Hm. unfold new_sender_w; cbn [pc upd].
  match goal with |- context[new_pacer ?b] => generalize (new_pacer_PInv b); set (B := b) end.
  intros H. destruct (H ltac:(unfold B; apply bw_est_ok)) as [[Hb _] Hl].
  unfold PInv, PT, pacer_set_mds; cbn [p_budget p_mds p_last]. rewrite Hl. lia.
Qed.

(** In every history of a sender built by (new)CubicSender with a datagram size in (0, 2^30], whose
    sends have times in (0, 2^62) and sizes >= 0 and whose MTU updates are in (0, 2^30]: the sender's
    pacer satisfies PInv and PT — the hypotheses of every pacer theorem. *)
Theorem sender_pacer_inv : forall m r icw imax srtt0 ops, 0 < m <= 2^30 -> Forall op_rng ops ->
  let s := run (new_sender_w m r icw imax srtt0) ops in PInv (pc s) /\ PT (pc s).
Proof.
  intros m r icw imax srtt0 ops Hm Hf s. unfold s. rewrite sender_pops_run.
  destruct (new_sender_pacer_ok m r icw imax srtt0 Hm) as [A B].
  apply prun_keeps; auto. apply sender_pops_ok; auto.
Qed.

(** * 2. Bytes really sent by gated sends *)

(** a send is gated when HasPacingBudget held (Budget >= one datagram) and it is at most one datagram *)
Definition gated (p : pacer) (o : pop) : bool :=
  match o with PSent t size bw => (budget p t bw >=? p_mds p) && (size <=? p_mds p) | _ => false end.
Definition gated_bytes (p : pacer) (o : pop) : Z :=
  match o with PSent _ size _ => if gated p o then size else 0 | _ => 0 end.
Fixpoint sum_gated (p : pacer) (l : list pop) : Z :=
  match l with [] => 0 | o :: r => gated_bytes p o + sum_gated (pstep p o) r end.

(** a gated send is authorised in full *)
Lemma gated_auth p o : gated p o = true -> auth p o = gated_bytes p o.
Proof.
  destruct o; try discriminate. intros H. unfold gated_bytes. rewrite H. unfold gated in H. cbn [auth].
  apply andb_true_iff in H. destruct H as [H1 H2]. apply Z.geb_le in H1. apply Z.leb_le in H2. lia.
Qed.

Lemma gated_le_auth l : forall p, PInv p -> PT p -> Forall pop_ok l -> sum_gated p l <= sum_auth p l.
Proof.
  induction l as [|o r IH]; intros p HP HT Hf; cbn [sum_gated sum_auth]; [lia|].
  inversion Hf as [|? ? Ho Hf']; subst.
  destruct (pstep_keeps p o HP HT Ho) as (A & B & _).
  specialize (IH (pstep p o) A B Hf').
  assert (gated_bytes p o <= auth p o).
  { destruct (gated p o) eqn:G; [rewrite (gated_auth p o G); lia|].
    destruct o; try (cbn [gated_bytes auth]; lia). unfold gated_bytes. rewrite G. cbn [auth].
    cbn in Ho. destruct Ho as (Ht & Hs & Hbw). unfold PT in HT.
    destruct (budget_credit p t bw HP Hbw ltac:(lia)) as [[B0 _] _]. lia. }
  lia.
Qed.

(** The property's pacer clause for bytes really SENT: over any interval that starts with a send,
    from any pacer state, the sizes of the sends gated by HasPacingBudget (and no larger than a
    datagram) sum to at most one burst + the credits [adjusted bandwidth x elapsed]. Ungated sends —
    PTO probes and ACK-only packets, which SendMode releases without consulting the pacer — are the
    exception the property allows: they are not counted, and they only reduce the budget. *)
Theorem pacer_bound_gated : forall p t size bw r, PInv p -> PT p -> pop_ok (PSent t size bw) -> Forall pop_ok r ->
  sum_gated p (PSent t size bw :: r) <= max_burst p bw + sum_credit (pstep p (PSent t size bw)) r.
Proof.
  intros p t size bw r HP HT Ho Hf.
  pose proof (gated_le_auth (PSent t size bw :: r) p HP HT (Forall_cons _ Ho Hf)).
  pose proof (pacer_bound p t size bw r HP HT Ho Hf). lia.
Qed.

(** … and for the sender's own pacer, in every sender history: [pre] any history from NewCubicSender,
    then a send, then [rest]; the gate is HasPacingBudget (pacer size = sender size, pacer_synced). *)
Theorem sender_pacer_bound_gated : forall m r0 icw imax srtt0 pre now pn bytes retr srtt rest,
  0 < m <= 2^30 -> Forall op_rng pre -> op_rng (Sent now pn bytes retr srtt) -> Forall op_rng rest ->
  let s := run (new_sender_w m r0 icw imax srtt0) pre in
  let s1 := step s (Sent now pn bytes retr srtt) in
  p_mds (pc s) = mds s /\
  sum_gated (pc s) (sender_pops s (Sent now pn bytes retr srtt :: rest)) <=
    max_burst (pc s) (bw_est s srtt) + sum_credit (pc s1) (sender_pops s1 rest).
Proof.
  intros m r0 icw imax srtt0 pre now pn bytes retr srtt rest Hm Hpre Ho Hrest s s1.
  split; [apply pacer_synced|].
  destruct (sender_pacer_inv m r0 icw imax srtt0 pre Hm Hpre) as [HP HT]. fold s in HP, HT.
  cbn [sender_pops pop_of app]. fold s1.
  assert (E : pc s1 = pstep (pc s) (PSent now bytes (bw_est s srtt))) by (unfold s1; rewrite sender_pacer_step; reflexivity).
  rewrite E. apply pacer_bound_gated; auto.
  - pose proof (pop_of_ok s _ Ho) as H. cbn [pop_of] in H. inversion H; auto.
  - apply sender_pops_ok; auto.
Qed.

(** * 3. Production histories never panic and never divide by zero *)

(** some step of the history sets the panicked flag (decreasing SetMaxDatagramSize = "congestion BUG"
    panic; TimeUntilSend dividing by zero) *)
Fixpoint any_panic (s : sender) (ops : list op) : bool :=
  match ops with [] => false | o :: r => snd (step_full s o) || any_panic (step s o) r end.

(** SetMaxDatagramSize arguments never decrease (what connection.go guarantees: it only forwards an MTU
    estimate larger than every earlier one, and a new sender starts at the initial size) *)
Fixpoint mtu_nondecreasing (m : Z) (ops : list op) : Prop :=
  match ops with
  | [] => True
  | SetMDS m' :: r => m <= m' /\ mtu_nondecreasing m' r
  | _ :: r => mtu_nondecreasing m r
  end.

Lemma step_mds s o : mds (step s o) = match o with SetMDS m => if m <? mds s then mds s else m | _ => mds s end.
Proof.
  destruct o; unfold step, step_full; cbn [fst]; try reflexivity.
  - unfold on_sent. destruct retrans; reflexivity.
  - unfold on_acked, maybe_increase, set_window, set_hs, upd.
    repeat match goal with |- context[if ?c then _ else _] => destruct c end; reflexivity.
  - unfold on_lost, upd. repeat match goal with |- context[if ?c then _ else _] => destruct c end; reflexivity.
  - unfold on_rto. destruct b; reflexivity.
  - unfold set_mds. destruct (m <? mds s); reflexivity.
  - unfold maybe_exit_ss, set_hs, upd. destruct (in_slow_start s); [|reflexivity].
    destruct (hs_should_exit _ _ _ _) as [h' ex]. destruct ex; reflexivity.
  - apply ack_run_mds.
  - destruct (time_until_send (pc s) (bw_est s srtt)); reflexivity.
Qed.

Lemma no_panic_run ops : forall s, 0 < mds s -> mtu_nondecreasing (mds s) ops ->
  any_panic s ops = false /\ 0 < mds (run s ops) /\ mds s <= mds (run s ops).
Proof.
  induction ops as [|o r IH]; intros s Hm Hn; cbn [any_panic run fold_left]; [repeat split; auto; lia|].
  fold (run (step s o) r).
  assert (Hstep : snd (step_full s o) = false /\ 0 < mds (step s o) /\ mds s <= mds (step s o) /\ mtu_nondecreasing (mds (step s o)) r).
  { rewrite step_mds. destruct o; cbn [mtu_nondecreasing] in Hn; unfold step_full; cbn [snd]; try (repeat split; auto; lia).
    - destruct Hn as [Hle Hn]. unfold set_mds. destruct (Z.ltb_spec m (mds s)); [lia|]. cbn [snd]. repeat split; auto; lia.
    - pose proof (time_until_send_total (pc s) (bw_est s srtt)) as Ht.
      destruct (time_until_send (pc s) (bw_est s srtt)); [cbn [snd]; repeat split; auto; lia|congruence]. }
  destruct Hstep as (A & B & C & D).
  destruct (IH (step s o) B D) as (E & F & G). rewrite A, E. repeat split; auto; lia.
Qed.

(** From NewCubicSender with a positive datagram size, every history whose SetMaxDatagramSize arguments
    never decrease: no step panics (neither the "congestion BUG" panic of SetMaxDatagramSize nor a division
    by zero in TimeUntilSend), and maxDatagramSize stays positive, so cwnd/maxDatagramSize never divides
    by zero. *)
Theorem production_histories_never_panic : forall m r icw imax srtt0 ops, 0 < m -> mtu_nondecreasing m ops ->
  let s0 := new_sender_w m r icw imax srtt0 in
  any_panic s0 ops = false /\ 0 < mds (run s0 ops) /\
  (forall pre post, ops = pre ++ post -> 0 < mds (run s0 pre)).
Proof.
  intros m r icw imax srtt0 ops Hm Hn s0.
  destruct (no_panic_run ops s0 Hm Hn) as (A & B & _). repeat split; auto.
  intros pre post ->.
  assert (P : forall l1 l2 mm, mtu_nondecreasing mm (l1 ++ l2) -> mtu_nondecreasing mm l1).
  { induction l1 as [|o l1 IH1]; intros l2 mm H; cbn [app mtu_nondecreasing] in *; [exact I|].
    destruct o; try (apply (IH1 l2); exact H). destruct H as [H1 H2]. split; [auto|apply (IH1 l2); exact H2]. }
  destruct (no_panic_run pre s0 Hm (P pre post _ Hn)) as (_ & C & _). exact C.
Qed.

Example panic_example :
  any_panic (new_sender 1280 true 100000000) [SetMDS 1452; SetMDS 1300] = true /\
  mtu_nondecreasing 1280 [SetMDS 1452; Sent 5 0 100 true 7; SetMDS 1452] /\
  any_panic (new_sender 1280 true 100000000) [SetMDS 1452; Sent 5 0 100 true 7; SetMDS 1452; QTimeUntil 0] = false.
Proof. vm_compute. repeat split; reflexivity || discriminate || (intro; discriminate) || auto. Qed.

(** a non-vacuity example that really instantiates [mono] and [bw_below] of pacer_bound_const_rate *)
Example const_rate_hypotheses_example :
  let p := new_pacer 800000000 in
  let r := [PSent 2000 1280 800000000; PBudget 3000 800000000; PSent 1000000 1280 640000000] in
  PInv p /\ PT p /\ pop_ok (PSent 1000 1280 800000000) /\ Forall pop_ok r /\ Forall (bw_below 800000000) r /\
  mono (pstep p (PSent 1000 1280 800000000)) r /\
  sum_gated p (PSent 1000 1280 800000000 :: r) = 3840.
Proof.
  cbv zeta. destruct (new_pacer_PInv 800000000 ltac:(unfold bw_ok; lia)) as [A B].
  split; [exact A|]. split; [unfold PT; rewrite B; lia|].
  split; [cbv; repeat split; discriminate|].
  split; [repeat (constructor; [cbv; repeat split; try discriminate; auto|]); constructor|].
  split; [repeat (constructor; [cbv; try discriminate; auto|]); constructor|].
  split; [cbn [mono]; vm_compute; repeat split; try discriminate; auto|].
  vm_compute. reflexivity.
Qed.
