(** C20 — the Reno multiplicative decrease [float64(w) * renoBeta] never increases the
    window and never makes it negative: 0 <= reno_cut w <= w, for the exact IEEE-754
    semantics of the expression and the compiled value of renoBeta. *)
From Coq Require Import List ZArith Bool Lia.
From V Require Import Gen.Params Congestion.Model.
Open Scope Z_scope.

(** Rounding to 53 significant bits moves an integer by at most 2^-53 of itself. *)
Lemma rne53_bounds p : 0 <= p -> 0 <= rne53 p /\ 2^53 * rne53 p <= (2^53 + 1) * p.
Proof.
  intros Hp. unfold rne53.
  destruct (Z.ltb_spec p (2^53)) as [Hlt|Hge]; [lia|].
  assert (Hp0 : 0 < p) by lia.
  pose proof (Z.log2_spec p Hp0) as [Hlo Hhi].
  assert (Hl53 : 53 <= Z.log2 p) by (apply Z.log2_le_pow2; lia).
  set (s := Z.log2 p - 52) in *.
  assert (Hs : 1 <= s) by (unfold s; lia).
  assert (Epow : 2 ^ Z.log2 p = 2^52 * 2^s).
  { replace (Z.log2 p) with (52 + s) by (unfold s; lia). rewrite Z.pow_add_r by lia. reflexivity. }
  assert (Ehalf : 2 ^ s = 2 * 2 ^ (s - 1)).
  { replace s with (1 + (s - 1)) at 1 by lia. rewrite Z.pow_add_r by lia. reflexivity. }
  assert (Hh : 0 < 2 ^ (s - 1)) by (apply Z.pow_pos_nonneg; lia).
  set (h := 2 ^ (s - 1)) in *.
  assert (Hps : 0 < 2 ^ s) by lia.
  pose proof (Z.div_mod p (2^s) ltac:(lia)) as Hdm.
  pose proof (Z.mod_pos_bound p (2^s) Hps) as Hr.
  set (q := p / 2 ^ s) in *. set (r := p mod 2 ^ s) in *.
  rewrite Ehalf in *.
  assert (Hq : 0 <= q) by (unfold q; apply Z.div_pos; lia).
  (* 2^52 * (2h) <= p, hence 2^53 * h <= p *)
  assert (Hhp : 2^53 * h <= p) by (change (2^53) with (2 * 2^52); lia).
  assert (Hcases : forall q', q' = q \/ (q' = q + 1 /\ h <= r) ->
            0 <= q' * (2 * h) /\ 2 ^ 53 * (q' * (2 * h)) <= (2 ^ 53 + 1) * p).
  { intros q' [->| [-> Hhr]].
    - split; [nia|]. assert (q * (2 * h) <= p) by lia. nia.
    - split; [nia|]. assert ((q + 1) * (2 * h) <= p + h) by lia. nia. }
  destruct (Z.ltb_spec r h); [apply Hcases; left; reflexivity|].
  destruct (Z.ltb_spec h r); [apply Hcases; right; split; [reflexivity|lia]|].
  destruct (Z.even q); apply Hcases; [left; reflexivity|right; split; [reflexivity|lia]].
Qed.

(** The compiled renoBeta is a factor in [0,1] with room for two roundings (this is where an
    edited constant > 1 breaks the proof). *)
Lemma beta_facts : 0 <= cc_renoBetaMant /\ 0 <= cc_renoBetaExp /\
  cc_renoBetaMant * ((2^53 + 1) * (2^53 + 1)) <= 2^cc_renoBetaExp * (2^53 * 2^53).
Proof. vm_compute. repeat split; discriminate. Qed.

Lemma cutpos_bounds w : 0 <= w -> 0 <= cutpos w <= w.
Proof.
  intros Hw. unfold cutpos.
  destruct beta_facts as (Hm & He & Hb).
  destruct (rne53_bounds w Hw) as [Ha0 Ha].
  set (A := rne53 w) in *.
  assert (HP0 : 0 <= A * cc_renoBetaMant) by nia.
  destruct (rne53_bounds _ HP0) as [Hr0 Hr].
  set (R := rne53 (A * cc_renoBetaMant)) in *.
  assert (HE : 0 < 2 ^ cc_renoBetaExp) by (apply Z.pow_pos_nonneg; lia).
  set (E := 2 ^ cc_renoBetaExp) in *.
  split; [apply Z.div_pos; lia|].
  apply Z.div_le_upper_bound; [lia|].
  (* R <= E * w: chain through the two rounding bounds and beta_facts *)
  set (K := 2 ^ 53) in *.
  assert (HK : 0 < K) by (unfold K; lia).
  assert (H1 : K * K * R <= (K + 1) * (K + 1) * cc_renoBetaMant * w).
  { assert (K * (K * R) <= K * ((K + 1) * (A * cc_renoBetaMant))) by (apply Z.mul_le_mono_nonneg_l; lia).
    assert ((K + 1) * cc_renoBetaMant * (K * A) <= (K + 1) * cc_renoBetaMant * ((K + 1) * w))
      by (apply Z.mul_le_mono_nonneg_l; nia).
    nia. }
  assert (H2 : (K + 1) * (K + 1) * cc_renoBetaMant * w <= E * (K * K) * w)
    by (apply Z.mul_le_mono_nonneg_r; lia).
  assert (H3 : K * K * R <= K * K * (E * w)) by nia.
  apply Z.mul_le_mono_pos_l in H3; nia.
Qed.

Lemma reno_cut_bounds w : 0 <= w -> 0 <= reno_cut w <= w.
Proof.
  intros Hw. unfold reno_cut. destruct (Z.ltb_spec w 0); [lia|]. apply cutpos_bounds; lia.
Qed.

(** The rational value 7w/10 is NOT what the code computes: float64(90)*0.7 = 62.999… -> 62. *)
Example reno_cut_is_not_rational : reno_cut 90 = 62 /\ 7 * 90 / 10 = 63.
Proof. vm_compute. split; reflexivity. Qed.
