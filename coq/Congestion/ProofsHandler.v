(** C20(d) at full-handler level: a pure proof-level composition of two already-tied pieces —
    the C06 unit's model of sentPacketHandler (V.SentPH.Model, tied to the code by the C06
    correspondence) and this unit's SendMode decision function (Congestion.Model.send_mode, tied
    by the unit "sendmode"). C06 proved that the handler's SendMode IS send_mode on the gate
    read from the handler state (sendMode_is_gate) and what follows in every reachable state
    (send_gate_history); here the two are joined into the statement C20 makes. *)
From Coq Require Import List ZArith Bool Lia.
From V Require Import Gen.Params SentPH.Model SentPH.ProofsHist SentPH.ProofsBase SentPH.ProofsAckRules SentPH.ProofsScalars.
From V Require Congestion.Model.
Import ListNotations.
Open Scope Z_scope.

(** the gate SendMode reads, taken from a handler state; [cw] = window reported by the congestion
    controller, [hb] = its HasPacingBudget answer *)
Definition gate_of (st : state) (cw : Z) (hb : bool) : V.Congestion.Model.gate :=
  V.Congestion.Model.G (tracked_count st) (isAmplificationLimited st) (sProbes st) (sPtoM st) (sBif st) cw hb.

Lemma send_any_same : sm_SendAny = sph_SendAny.
Proof. reflexivity. Qed.

Theorem send_gate_handler : forall client validated ipn period maxPeriod rnd0 ops cw hb,
  0 <= ipn ->
  let st := run (init client validated ipn period maxPeriod rnd0) ops in
  sendMode st (sBif st <? cw) hb = V.Congestion.Model.send_mode (gate_of st cw hb) /\
  (V.Congestion.Model.send_mode (gate_of st cw hb) = sm_SendAny ->
   sBif st < cw /\ isAmplificationLimited st = false /\
   tracked_count st < sph_MaxOutstandingSentPackets /\ sProbes st <= 0 /\ hb = true /\
   (forall l t la sfs fs size mtu probe rnd orc,
      op_valid st (OSend l t la sfs fs size mtu probe rnd) = true ->
      sBif (fst (step st (OSend l t la sfs fs size mtu probe rnd, orc))) < cw + size)).
Proof.
  intros client validated ipn period maxPeriod rnd0 ops cw hb Hipn st.
  split; [apply sendMode_is_gate|].
  intros H. unfold gate_of in H. rewrite <- sendMode_is_gate, send_any_same in H.
  destruct (send_gate_history client validated ipn period maxPeriod rnd0 ops cw hb Hipn H)
    as (A & B & C & _ & D & E & _ & F).
  repeat split; auto. intros. apply (F l t la sfs fs size mtu probe rnd orc H0).
Qed.

(** Non-vacuity (the C06 unit's witness history): a reachable handler state whose gate says "any". *)
Example send_gate_handler_nonvacuous :
  let st := run (init false true 0 256 131072 100)
                [ (ODrop 1 1000000000, w_orc); (ODrop 2 1000000000, w_orc); (OSend 4 1000000000 (-1) [] [1] 1200 false false 0, w_orc) ] in
  V.Congestion.Model.send_mode (gate_of st 40960 true) = sm_SendAny /\ sBif st = 1200.
Proof. vm_compute. auto. Qed.

(** ** Round 5: one statement with the REAL bytes in flight and the REAL window *)
From V Require Congestion.ProofsCubic Congestion.ProofsPacer.
Module CM := V.Congestion.Model.

(** [st]: any state the sentPacketHandler model reaches from NewSentPacketHandler; [s]: any state the
    Reno sender model reaches from NewCubicSender by production events (no OnConnectionMigration). The
    handler asks the sender CanSend(bytesInFlight) and HasPacingBudget(now): the gate is fed with the
    handler's own bytesInFlight, the sender's own window and the sender's own pacer budget. Then
    SendMode = any implies: bytes in flight (= sum of the tracked in-flight packets) < cwnd, the window is
    within its bounds, the pacer's budget covers a datagram and is at most one burst, no amplification
    limit, no probe owed — and the next accepted packet leaves bytesInFlight < cwnd + its size.
    The statement holds for EVERY pair (st, s), hence for the pair a connection is in; that the two
    models run in lock-step with the code is what the spy cases of unit sendmode check. *)
Theorem send_gate_composed : forall client validated ipn period maxPeriod rnd0 hops m0 srtt0 sops now srtt,
  0 <= ipn -> 0 < m0 -> Forall (fun o => V.Congestion.ProofsCubic.is_migrate o = false) sops ->
  let st := run (init client validated ipn period maxPeriod rnd0) hops in
  let s := CM.run (CM.new_sender m0 true srtt0) sops in
  let hb := CM.budget (CM.pc s) now (CM.bw_est s srtt) >=? CM.mds s in
  sendMode st (sBif st <? CM.cwnd s) hb = sph_SendAny ->
  sBif st < CM.cwnd s /\
  sBif st = msum f_incl (pk st SI) + msum f_incl (pk st SH) + msum f_incl (pk st SA) /\
  cc_minCongestionWindowPackets * CM.mds s <= CM.cwnd s <= cc_maxCongestionWindowPackets * CM.mds s + CM.mds s /\
  CM.mds s <= CM.budget (CM.pc s) now (CM.bw_est s srtt) <= CM.max_burst (CM.pc s) (CM.bw_est s srtt) /\
  isAmplificationLimited st = false /\ sProbes st <= 0 /\
  (forall l t la sfs fs size mtu probe rnd orc,
     op_valid st (OSend l t la sfs fs size mtu probe rnd) = true ->
     sBif (fst (step st (OSend l t la sfs fs size mtu probe rnd, orc))) < CM.cwnd s + size).
Proof.
  intros client validated ipn period maxPeriod rnd0 hops m0 srtt0 sops now srtt Hipn Hm0 Hmig st s hb H.
  destruct (send_gate_history client validated ipn period maxPeriod rnd0 hops (CM.cwnd s) hb Hipn H)
    as (A & B & C & _ & D & E & F & G).
  pose proof (V.Congestion.ProofsCubic.cwnd_bounds_production (CM.new_sender m0 true srtt0) sops eq_refl
                (V.Congestion.ProofsCubic.new_sender_InvC m0 true srtt0 Hm0) Hmig) as [W1 W2].
  fold s in W1, W2.
  unfold hb in E. apply Z.geb_le in E.
  pose proof (V.Congestion.ProofsPacer.budget_le_burst (CM.pc s) now (CM.bw_est s srtt)).
  repeat split; auto; try lia.
  intros. apply (G l t la sfs fs size mtu probe rnd orc H1).
Qed.
