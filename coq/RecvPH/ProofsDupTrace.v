(** RecvPH — duplicate detection over whole handler histories, with the per-space watermark of
    numbers dropped by the MaxNumAckRanges limit (trace form of C07_duplicate_detected). *)
From Coq Require Import List ZArith Bool Lia Arith.
From V Require Import Gen.Params RecvPH.Model RecvPH.ProofsHist RecvPH.ProofsAck RecvPH.ProofsDue
  RecvPH.ProofsMissing RecvPH.ProofsNonempty RecvPH.ProofsGap RecvPH.ProofsImmediate.
Import ListNotations.
Open Scope Z_scope.

(** a packet that is not accepted leaves every history alone *)
Lemma step_recv_notok : forall h pn ecn lvl t ae,
  (forall sp x, hist_of h sp = Some x -> hist_ok x) ->
  snd (step h (Recv pn ecn lvl t ae)) <> ROk ->
  forall sp, hist_of (fst (step h (Recv pn ecn lvl t ae))) sp = hist_of h sp.
Proof.
  intros h pn ecn lvl t ae Hok Hr. cbn [step] in *. unfold h_recv in *.
  destruct (Z.eqb_spec lvl rph_EncInitial) as [E0 | E0].
  { destruct (hInitial h) as [t0 |] eqn:Hi; [| reflexivity].
    pose proof (tr_recv_hist t0 pn ecn ae) as Hh. pose proof (tr_recv_flag t0 pn ecn ae) as Hf.
    destruct (tr_recv t0 pn ecn ae) as [t' ok]. cbn [fst snd] in *. destruct ok; [contradiction |].
    assert (Hx : hist_ok (tHist t0)) by (apply (Hok 0%nat); cbn; now rewrite Hi).
    intros [| [| [| sp]]]; cbn [hist_of hInitial hHandshake hApp option_map]; try reflexivity.
    rewrite Hi. cbn. rewrite Hh. now rewrite (hist_recv_refused _ _ Hx (eq_sym Hf)). }
  destruct (Z.eqb_spec lvl rph_EncHandshake) as [E1 | E1].
  { destruct (hHandshake h) as [t0 |] eqn:Hi; [| reflexivity].
    pose proof (tr_recv_hist t0 pn ecn ae) as Hh. pose proof (tr_recv_flag t0 pn ecn ae) as Hf.
    destruct (tr_recv t0 pn ecn ae) as [t' ok]. cbn [fst snd] in *. destruct ok; [contradiction |].
    assert (Hx : hist_ok (tHist t0)) by (apply (Hok 1%nat); cbn; now rewrite Hi).
    intros [| [| [| sp]]]; cbn [hist_of hInitial hHandshake hApp option_map]; try reflexivity.
    rewrite Hi. cbn. rewrite Hh. now rewrite (hist_recv_refused _ _ Hx (eq_sym Hf)). }
  assert (Happ : forall low,
    snd (let (a', r) := app_recv (hApp h) pn ecn t ae in
         match r with
         | Panic3 => (h, RPanic)
         | _ => (mkH (hInitial h) (hHandshake h) a' low, res_of3 r)
         end) <> ROk ->
    forall sp, hist_of (fst (let (a', r) := app_recv (hApp h) pn ecn t ae in
         match r with
         | Panic3 => (h, RPanic)
         | _ => (mkH (hInitial h) (hHandshake h) a' low, res_of3 r)
         end)) sp = hist_of h sp).
  { intros low Hr'.
    assert (Hx : hist_ok (tHist (aTr (hApp h)))) by (apply (Hok 2%nat); reflexivity).
    pose proof (app_recv_err_iff (hApp h) pn ecn t ae) as He.
    destruct (app_recv_hist (hApp h) pn ecn t ae) as [[Hp Hst] | (Hp & Hh & _)];
      destruct (app_recv (hApp h) pn ecn t ae) as [a' r]; cbn [fst snd] in *.
    - subst r. reflexivity.
    - destruct r; cbn [snd res_of3] in Hr'; try contradiction.
      destruct He as [He _]. specialize (He eq_refl).
      intros [| [| [| sp]]]; cbn [fst hist_of hInitial hHandshake hApp option_map]; try reflexivity.
      rewrite Hh. now rewrite (hist_recv_refused _ _ Hx He). }
  destruct (Z.eqb_spec lvl rph_Enc0RTT) as [E2 | E2].
  { destruct (negb (hLowest1RTT h =? rph_InvalidPacketNumber) && (pn >? hLowest1RTT h)); [reflexivity |].
    now apply Happ. }
  destruct (Z.eqb_spec lvl rph_Enc1RTT) as [E3 | E3]; [now apply Happ | reflexivity].
Qed.

Lemma res_eq_ROk_dec : forall r : res, {r = ROk} + {r <> ROk}.
Proof. intros r. destruct r; try (right; discriminate). now left. Qed.

(** * The per-space watermark along a run *)

Definition wmap := nat -> option Z.

Definition wstep (h : handler) (W : wmap) (o : op) : wmap :=
  match o with
  | Recv pn _ lvl _ _ =>
    match sp_of lvl, snd (step h o), (match sp_of lvl with Some sp => hist_of h sp | None => None end) with
    | Some sp, ROk, Some x => fun s => if Nat.eqb s sp then omax (W s) (pruned_by x pn) else W s
    | _, _, _ => W
    end
  | _ => W
  end.

(** [run] instrumented with the watermarks: per space, the highest number that an accepted
    packet pushed out of the history through the MaxNumAckRanges limit. *)
Fixpoint runW (h : handler) (W : wmap) (ops : list op) : handler * wmap :=
  match ops with
  | [] => (h, W)
  | o :: rest =>
    match snd (step h o) with
    | RPanic => (fst (step h o), W)
    | _ => runW (fst (step h o)) (wstep h W o) rest
    end
  end.

Lemma runW_fst : forall ops h W, fst (runW h W ops) = fst (run h ops).
Proof.
  induction ops as [| o ops IH]; intros h W; [reflexivity |].
  cbn [runW run]. destruct (step h o) as [h' r]. cbn [fst snd].
  destruct r; try (rewrite IH; destruct (run h' ops); reflexivity). reflexivity.
Qed.

Definition invW (tr : list (op * res)) (h : handler) (W : wmap) : Prop :=
  invA tr h /\
  forall sp x q, hist_of h sp = Some x -> accepted tr sp q -> remembered (x, W sp) q.

Lemma le_opt_wstep : forall h W o sp q, le_opt q (W sp) -> le_opt q (wstep h W o sp).
Proof.
  intros h W o sp q H. destruct o; cbn [wstep]; try assumption.
  destruct (sp_of lvl) as [sp' |]; [| assumption].
  destruct (snd (step h (Recv pn ecn lvl rcvTime ackEliciting))); try assumption.
  destruct (hist_of h sp'); [| assumption].
  destruct (Nat.eqb sp sp'); [now apply le_opt_omax_l | assumption].
Qed.

Lemma invW_step : forall tr h W o, invW tr h W ->
  invW (tr ++ [(o, snd (step h o))]) (fst (step h o)) (wstep h W o).
Proof.
  intros tr h W o (HA & HW). split; [now apply invA_step |].
  assert (Hoks : forall sp x, hist_of h sp = Some x -> hist_ok x) by (intros sp x Hx; now apply (HA sp x)).
  intros sp y q Hy Hacc.
  destruct (step_hist h o sp y Hy) as (x & Hx & Htr).
  pose proof (Hoks sp x Hx) as Hok.
  destruct Hacc as (ecn & lvl & t & ae & Hin & Hsp).
  apply in_app_or in Hin as [Hin | [Hin | []]].
  - (* accepted earlier *)
    assert (Hacc : accepted tr sp q) by (exists ecn, lvl, t, ae; auto).
    pose proof (HW sp x q Hx Hacc) as Hrem. unfold remembered in *. cbn [fst snd] in *.
    destruct Hrem as [Hrem | [Hrem | Hrem]]; [| | right; right; now apply le_opt_wstep].
    + (* below the forget threshold: stays below *)
      destruct Htr as [| pn' ecn' lvl' t' ae' Ho Hsp' | p Ho Hsp'].
      * now left.
      * left. pose proof (hist_recv_db_le x pn' Hok). lia.
      * left. pose proof (hist_delete_below_db x p). lia.
    + destruct Htr as [| pn' ecn' lvl' t' ae' Ho Hsp' | p Ho Hsp'].
      * right; now left.
      * subst o.
        destruct (res_eq_ROk_dec (snd (step h (Recv pn' ecn' lvl' t' ae')))) as [Er | Er].
        -- destruct (hist_recv_retains x pn' q Hok (or_intror (or_intror Hrem))) as [H | [H | H]];
             [now left | right; now left |].
           right; right. cbn [wstep]. rewrite Hsp', Er, Hx, Nat.eqb_refl. now apply le_opt_omax_r.
        -- rewrite (step_recv_notok h pn' ecn' lvl' t' ae' Hoks Er sp) in Hy. rewrite Hx in Hy.
           assert (Hyx : fst (hist_recv x pn') = x) by congruence. rewrite Hyx. right; now left.
      * destruct (hist_delete_below_retains x p q Hok (or_intror Hrem)); tauto.
  - (* accepted by this very call *)
    inversion Hin as [[Ho Hr]]. subst o.
    destruct (step_recv_ok h q ecn lvl t ae sp y Hr Hsp Hy) as (x' & Hx' & Hy' & _).
    rewrite Hx in Hx'. inversion Hx'; subst x'. subst y.
    unfold remembered. cbn [fst snd].
    destruct (hist_recv_retains x q q Hok (or_introl eq_refl)) as [H | [H | H]]; [now left | right; now left |].
    right; right. cbn [wstep]. rewrite Hsp, Hr, Hx, Nat.eqb_refl. now apply le_opt_omax_r.
Qed.

Lemma runW_preserves : forall ops tr h W, invW tr h W ->
  invW (tr ++ trace h ops) (fst (runW h W ops)) (snd (runW h W ops)).
Proof.
  induction ops as [| o ops IH]; intros tr h W HI.
  - unfold trace. simpl. now rewrite app_nil_r.
  - pose proof (invW_step tr h W o HI) as Hs. unfold trace in *. cbn [runW run].
    destruct (step h o) as [h' r] eqn:Hst. cbn [fst snd] in *.
    specialize (IH (tr ++ [(o, r)]) h' (wstep h W o) Hs).
    destruct r; try (destruct (run h' ops) as [h'' rs] eqn:Hrun; cbn [fst snd combine] in *;
                     rewrite <- app_assoc in IH; exact IH).
    cbn [fst snd combine]. destruct Hs as (HA & HW). split; [destruct ops; exact HA |].
    intros sp x q Hx Hacc. assert (Hacc' : accepted (tr ++ [(o, RPanic)]) sp q) by (destruct ops; exact Hacc).
    specialize (HW sp x q Hx Hacc'). unfold remembered in *. cbn [fst snd] in *.
    destruct HW as [H | [H | H]]; [now left | right; now left |].
    (* a panicking call is no accepted Recv: the watermark did not move *)
    right; right. destruct o; cbn [wstep] in H; try assumption.
    rewrite Hst in H. cbn [snd] in H. destruct (sp_of lvl); exact H.
Qed.

Lemma invW_init : invW [] newHandler (fun _ => None).
Proof. split; [apply invA_init |]. intros sp x q _ (ecn & lvl & t & ae & [] & _). Qed.

(** C07_duplicate_detected at the handler, over whole histories: every number accepted in a space
    is flagged by IsPotentiallyDuplicate and refused by ReceivedPacket for as long as the space
    exists, unless it is at or below the watermark of that space — whatever IgnorePacketsBelow,
    DropPackets of other spaces, ACK retrievals and receptions happen in between. *)
Lemma handler_duplicate_detected : forall ops sp q x,
  let hw := runW newHandler (fun _ => None) ops in
  accepted (trace newHandler ops) sp q ->
  hist_of (fst hw) sp = Some x ->
  ~ le_opt q (snd hw sp) ->
  is_dup x q = true /\ snd (hist_recv x q) = false.
Proof.
  intros ops sp q x hw Hacc Hx Hnw.
  destruct (runW_preserves ops [] newHandler (fun _ => None) invW_init) as (HA & HW). cbn [List.app] in HA, HW.
  fold hw in HA, HW.
  destruct (HA sp x Hx) as (Hok & _).
  assert (Hd : is_dup x q = true).
  { apply is_dup_spec; [assumption |]. destruct (HW sp x q Hx Hacc) as [H | [H | H]]; cbn [fst snd] in *; tauto. }
  split; [assumption |]. rewrite hist_recv_isNew by assumption. now rewrite Hd.
Qed.

(** The watermark of a space stays empty while fewer than MaxNumAckRanges ranges are tracked
    whenever a packet is accepted; in particular a connection whose peer never opens that many gaps
    never forgets a duplicate. Stated for one step: the watermark only moves when the history holds
    MaxNumAckRanges ranges. *)
Lemma wstep_unchanged : forall h W o sp x,
  hist_of h sp = Some x -> hist_ok x -> Z.of_nat (length (ranges x)) < rph_MaxNumAckRanges ->
  wstep h W o sp = W sp.
Proof.
  intros h W o sp x Hx Hok Hlen. destruct o; cbn [wstep]; try reflexivity.
  destruct (sp_of lvl) as [sp' |]; [| reflexivity].
  destruct (snd (step h (Recv pn ecn lvl rcvTime ackEliciting))); try reflexivity.
  destruct (hist_of h sp') as [x' |] eqn:Hx'; [| reflexivity].
  destruct (Nat.eqb_spec sp sp') as [E | E]; [| reflexivity]. subst sp'.
  rewrite Hx in Hx'. inversion Hx'; subst x'. rewrite pruned_by_none by assumption.
  destruct (W sp); reflexivity.
Qed.

(** * The forget threshold is one of the thresholds the caller passed *)

Definition invT (tr : list (op * res)) (h : handler) : Prop :=
  aIgnoreBelow (hApp h) = 0 \/ exists r, In (Ignore (aIgnoreBelow (hApp h)), r) tr.

Lemma invT_step : forall tr h o, invT tr h -> invT (tr ++ [(o, snd (step h o))]) (fst (step h o)).
Proof.
  intros tr h o HT. unfold invT in *.
  destruct (step_app h o) as [(E1 & _) | (p & Ho & E)].
  - rewrite E1. destruct HT as [HT | (r & HT)]; [now left | right; exists r; apply in_or_app; now left].
  - rewrite E. subst o. unfold app_ignore_below.
    destruct (Z.leb_spec p (aIgnoreBelow (hApp h))).
    + destruct HT as [HT | (r & HT)]; [now left | right; exists r; apply in_or_app; now left].
    + cbn [aIgnoreBelow]. right. eexists. apply in_or_app. right. left. reflexivity.
Qed.

Lemma invT_run : forall ops, invT (trace newHandler ops) (fst (run newHandler ops)).
Proof.
  intros ops. apply (run_preserves invT invT_step ops [] newHandler). now left.
Qed.

(** * Where [deletedBelow] comes from (repaired trimming) *)

Lemma hist_recv_db_pruned : forall h p,
  deletedBelow (fst (hist_recv h p)) =
  match pruned_by h p with Some e => Z.max (deletedBelow h) (e + 1) | None => deletedBelow h end.
Proof.
  intros h p. unfold hist_recv, pruned_by, trimmed_end.
  destruct (p <? deletedBelow h); [reflexivity |].
  destruct (addToRanges p (ranges h)) as [rs b]. cbn [fst deletedBelow].
  destruct (rev (firstn (length rs - Z.to_nat rph_MaxNumAckRanges) rs)) as [| [s e] l]; reflexivity.
Qed.

Lemma wstep_panic : forall h W o, snd (step h o) = RPanic -> wstep h W o = W.
Proof.
  intros h W o Hr. destruct o; cbn [wstep]; try reflexivity. rewrite Hr. destruct (sp_of lvl); reflexivity.
Qed.

Lemma runW_preserves_gen : forall (P : list (op * res) -> handler -> wmap -> Prop),
  (forall tr h W o, P tr h W -> P (tr ++ [(o, snd (step h o))]) (fst (step h o)) (wstep h W o)) ->
  forall ops tr h W, P tr h W -> P (tr ++ trace h ops) (fst (runW h W ops)) (snd (runW h W ops)).
Proof.
  intros P Hstep. induction ops as [| o ops IH]; intros tr h W HP.
  - unfold trace. simpl. now rewrite app_nil_r.
  - pose proof (Hstep tr h W o HP) as Hs. pose proof (wstep_panic h W o) as Hpan.
    unfold trace in *. cbn [runW run].
    destruct (step h o) as [h' r] eqn:Hst. cbn [fst snd] in *.
    specialize (IH (tr ++ [(o, r)]) h' (wstep h W o) Hs).
    destruct r; try (destruct (run h' ops) as [h'' rs] eqn:Hrun; cbn [fst snd combine] in *;
                     rewrite <- app_assoc in IH; exact IH).
    cbn [fst snd combine]. rewrite (Hpan eq_refl) in Hs. destruct ops; exact Hs.
Qed.

(** the threshold of a space is the initial one, or one the caller passed (application data),
    or one past the highest number the range limit dropped; and it covers every dropped number *)
Definition invK (tr : list (op * res)) (h : handler) (W : wmap) : Prop :=
  invA tr h /\
  forall sp x, hist_of h sp = Some x ->
    (forall w, W sp = Some w -> w + 1 <= deletedBelow x) /\
    (deletedBelow x = rph_InvalidPacketNumber \/
     (sp = 2%nat /\ exists r, In (Ignore (deletedBelow x), r) tr) \/
     W sp = Some (deletedBelow x - 1)).

Lemma invK_step : forall tr h W o, invK tr h W ->
  invK (tr ++ [(o, snd (step h o))]) (fst (step h o)) (wstep h W o).
Proof.
  intros tr h W o (HA & HK). split; [now apply invA_step |].
  assert (Hoks : forall sp x, hist_of h sp = Some x -> hist_ok x) by (intros sp x Hx; now apply (HA sp x)).
  intros sp y Hy.
  destruct (step_hist h o sp y Hy) as (x & Hx & Htr).
  destruct (HK sp x Hx) as (K1 & K2).
  assert (Hmono : forall r0, (sp = 2%nat /\ exists r, In (Ignore (deletedBelow x), r) tr) ->
                  (sp = 2%nat /\ exists r, In (Ignore (deletedBelow x), r) (tr ++ [(o, r0)]))).
  { intros r0 (E & r & Hin). split; [assumption |]. exists r. apply in_or_app. now left. }
  (* is this call an accepted packet of this space? *)
  assert (Hcase : (exists pn ecn lvl t ae, o = Recv pn ecn lvl t ae /\ sp_of lvl = Some sp /\ snd (step h o) = ROk) \/
                  (wstep h W o sp = W sp /\
                   ~ (exists pn ecn lvl t ae, o = Recv pn ecn lvl t ae /\ sp_of lvl = Some sp /\ snd (step h o) = ROk))).
  { destruct o as [pn ecn lvl t ae | | | | | | |];
      try (right; split; [reflexivity | intros (a1 & a2 & a3 & a4 & a5 & C & _); discriminate C]).
    cbn [wstep]. destruct (sp_of lvl) as [sp' |] eqn:Hsp.
    2:{ right. split; [reflexivity |]. intros (a1 & a2 & a3 & a4 & a5 & C & C2 & _). inversion C; subst. congruence. }
    destruct (res_eq_ROk_dec (snd (step h (Recv pn ecn lvl t ae)))) as [Er | Er].
    - destruct (Nat.eq_dec sp sp') as [E | E].
      + subst sp'. left. exists pn, ecn, lvl, t, ae. auto.
      + right. split.
        * rewrite Er. destruct (hist_of h sp'); [| reflexivity].
          destruct (Nat.eqb_spec sp sp'); [contradiction | reflexivity].
        * intros (a1 & a2 & a3 & a4 & a5 & C & C2 & _). inversion C; subst. congruence.
    - right. split.
      + destruct (snd (step h (Recv pn ecn lvl t ae))); try reflexivity. contradiction.
      + intros (a1 & a2 & a3 & a4 & a5 & C & _ & C3). inversion C; subst. contradiction. }
  destruct Hcase as [(pn & ecn & lvl & t & ae & Ho & Hsp & Hr) | (HW & Hnot)].
  - subst o. destruct (step_recv_ok h pn ecn lvl t ae sp y Hr Hsp Hy) as (x' & Hx' & Hy' & _).
    rewrite Hx in Hx'. inversion Hx'; subst x'. subst y.
    cbn [wstep]. rewrite Hsp, Hr, Hx, Nat.eqb_refl. rewrite hist_recv_db_pruned.
    destruct (pruned_by x pn) as [e |].
    + destruct (Z_le_dec (e + 1) (deletedBelow x)) as [Hle | Hgt].
      * rewrite Z.max_l by lia. split.
        -- intros w Hw. destruct (W sp) as [w0 |]; cbn [omax] in Hw; inversion Hw; subst; [specialize (K1 w0 eq_refl) |]; lia.
        -- destruct K2 as [K2 | [K2 | K2]]; [now left | right; left; now apply Hmono |].
           right; right. rewrite K2. cbn [omax]. f_equal. lia.
      * rewrite Z.max_r by lia. split.
        -- intros w Hw. destruct (W sp) as [w0 |]; cbn [omax] in Hw; inversion Hw; subst; [specialize (K1 w0 eq_refl) |]; lia.
        -- right; right. destruct (W sp) as [w0 |]; cbn [omax]; f_equal; [specialize (K1 w0 eq_refl) |]; lia.
    + split.
      * intros w Hw. apply K1. destruct (W sp); cbn [omax] in Hw; exact Hw.
      * destruct K2 as [K2 | [K2 | K2]]; [now left | right; left; now apply Hmono |].
        right; right. rewrite K2. reflexivity.
  - rewrite HW.
    destruct Htr as [| pn' ecn' lvl' t' ae' Ho Hsp' | p Ho Hsp'].
    + split; [assumption |]. destruct K2 as [K2 | [K2 | K2]]; [now left | right; left; now apply Hmono | now right; right].
    + (* a reception that was not accepted (or belongs to the other case): history unchanged *)
      subst o. destruct (res_eq_ROk_dec (snd (step h (Recv pn' ecn' lvl' t' ae')))) as [Er | Er].
      * exfalso. apply Hnot. exists pn', ecn', lvl', t', ae'. auto.
      * rewrite (step_recv_notok h pn' ecn' lvl' t' ae' Hoks Er sp) in Hy. rewrite Hx in Hy.
        assert (Hyx : fst (hist_recv x pn') = x) by congruence. rewrite Hyx.
        split; [assumption |]. destruct K2 as [K2 | [K2 | K2]]; [now left | right; left; now apply Hmono | now right; right].
    + subst o sp. unfold hist_delete_below. destruct (Z.ltb_spec p (deletedBelow x)) as [Hlt | Hge].
      * split; [assumption |]. destruct K2 as [K2 | [K2 | K2]]; [now left | right; left; now apply Hmono | now right; right].
      * cbn [deletedBelow]. split.
        -- intros w Hw. specialize (K1 w Hw). lia.
        -- right; left. split; [reflexivity |]. eexists. apply in_or_app. right. left. reflexivity.
Qed.

Lemma invK_run : forall ops,
  invK (trace newHandler ops) (fst (runW newHandler (fun _ => None) ops)) (snd (runW newHandler (fun _ => None) ops)).
Proof.
  intros ops. apply (runW_preserves_gen invK invK_step ops [] newHandler (fun _ => None)).
  split; [apply invA_init |]. intros sp x Hx. apply newHandler_hist in Hx. subst x.
  split; [intros w Hw; discriminate | now left].
Qed.

(** The clause "not below the threshold the peer allowed it to forget": if every threshold passed
    to IgnorePacketsBelow is at most [A] (what the peer confirmed), then every accepted
    application-data packet at or above [A] that the range limit has not dropped is listed in every
    ACK frame generated for the application data space. *)
Lemma unconfirmed_stay_acked : forall ops A q now only f,
  let hw := runW newHandler (fun _ => None) ops in
  0 <= A ->
  (forall p r, In (Ignore p, r) (trace newHandler ops) -> p <= A) ->
  accepted (trace newHandler ops) 2 q -> A <= q ->
  ~ le_opt q (snd hw 2%nat) ->
  snd (h_get_ack (fst hw) rph_Enc1RTT now only) = Some f ->
  inR q (aRanges f).
Proof.
  intros ops A q now only f hw HA Hign Hacc HAq Hnw Hf.
  assert (Eh : fst hw = fst (run newHandler ops)) by apply runW_fst.
  set (x := tHist (aTr (hApp (fst hw)))).
  assert (Hx : hist_of (fst hw) 2%nat = Some x) by reflexivity.
  destruct (handler_duplicate_detected ops 2%nat q x Hacc Hx Hnw) as (Hd & _).
  destruct (h_get_ack_frame (fst hw) rph_Enc1RTT now only f Hf) as (sp & x' & Hsp & Hx' & Hr & _).
  assert (Esp : sp = 2%nat) by (cbv in Hsp; now inversion Hsp). subst sp.
  rewrite Hx in Hx'. inversion Hx'; subst x'.
  pose proof (invA_run ops 2%nat x) as HokA. rewrite <- Eh in HokA. destruct (HokA Hx) as (Hok & _).
  apply (is_dup_spec x q Hok) in Hd.
  assert (Hdb : deletedBelow x <= q).
  { destruct (invK_run ops) as (_ & HK). fold hw in HK. destruct (HK 2%nat x Hx) as (_ & K2).
    destruct K2 as [K2 | [(_ & r & K2) | K2]].
    - rewrite K2. unfold rph_InvalidPacketNumber. lia.
    - specialize (Hign _ _ K2). lia.
    - rewrite K2 in Hnw. cbn [le_opt] in Hnw. lia. }
  destruct Hd as [Hd | Hd]; [lia |]. rewrite Hr. unfold backward. now rewrite inR_rev.
Qed.

(** * With the repaired trimming: no watermark is needed *)

Definition invS (tr : list (op * res)) (h : handler) : Prop :=
  invA tr h /\
  forall sp x q, hist_of h sp = Some x -> accepted tr sp q -> known x q.

Lemma invS_step : forall tr h o, invS tr h -> invS (tr ++ [(o, snd (step h o))]) (fst (step h o)).
Proof.
  intros tr h o (HA & HS). split; [now apply invA_step |].
  assert (Hoks : forall sp x, hist_of h sp = Some x -> hist_ok x) by (intros sp x Hx; now apply (HA sp x)).
  intros sp y q Hy Hacc.
  destruct (step_hist h o sp y Hy) as (x & Hx & Htr).
  pose proof (Hoks sp x Hx) as Hok.
  destruct Hacc as (ecn & lvl & t & ae & Hin & Hsp).
  apply in_app_or in Hin as [Hin | [Hin | []]].
  - assert (Hacc : accepted tr sp q) by (exists ecn, lvl, t, ae; auto).
    pose proof (HS sp x q Hx Hacc) as Hk.
    destruct Htr as [| pn' ecn' lvl' t' ae' Ho Hsp' | p Ho Hsp'].
    + exact Hk.
    + apply (hist_recv_retains_strong x pn' q Hok). unfold known in Hk. tauto.
    + now apply hist_delete_below_retains.
  - inversion Hin as [[Ho Hr]]. subst o.
    destruct (step_recv_ok h q ecn lvl t ae sp y Hr Hsp Hy) as (x' & Hx' & Hy' & _).
    rewrite Hx in Hx'. inversion Hx'; subst x'. subst y.
    apply (hist_recv_retains_strong x q q Hok). now left.
Qed.

Lemma invS_run : forall ops, invS (trace newHandler ops) (fst (run newHandler ops)).
Proof.
  intros ops. apply (run_preserves invS invS_step ops [] newHandler).
  split; [apply invA_init |]. intros sp x q _ (ecn & lvl & t & ae & [] & _).
Qed.

(** C07_duplicate_detected at the handler, final form: every number accepted in a space is flagged
    by IsPotentiallyDuplicate and refused by ReceivedPacket for as long as the space exists. *)
Lemma handler_duplicate_always : forall ops sp q x,
  let h := fst (run newHandler ops) in
  accepted (trace newHandler ops) sp q ->
  hist_of h sp = Some x ->
  is_dup x q = true /\ snd (hist_recv x q) = false.
Proof.
  intros ops sp q x h Hacc Hx. destruct (invS_run ops) as (HA & HS). fold h in HA, HS.
  destruct (HA sp x Hx) as (Hok & _).
  assert (Hd : is_dup x q = true) by (apply is_dup_spec; [assumption | now apply (HS sp x q)]).
  split; [assumption |]. rewrite hist_recv_isNew by assumption. now rewrite Hd.
Qed.

(** ... and everything accepted that is not below the threshold is in every generated ACK. *)
Lemma accepted_stay_acked : forall ops sp q x lvl now only f,
  let h := fst (run newHandler ops) in
  accepted (trace newHandler ops) sp q -> sp_of lvl = Some sp -> hist_of h sp = Some x ->
  deletedBelow x <= q ->
  snd (h_get_ack h lvl now only) = Some f ->
  inR q (aRanges f).
Proof.
  intros ops sp q x lvl now only f h Hacc Hsp Hx Hdb Hf.
  destruct (handler_duplicate_always ops sp q x Hacc Hx) as (Hd & _).
  destruct (h_get_ack_frame h lvl now only f Hf) as (sp' & x' & Hsp' & Hx' & Hr & _).
  rewrite Hsp in Hsp'. inversion Hsp'; subst sp'. fold h in Hx. rewrite Hx in Hx'. inversion Hx'; subst x'.
  destruct (invA_run ops sp x Hx) as (Hok & _).
  apply (is_dup_spec x q Hok) in Hd. destruct Hd as [Hd | Hd]; [lia |].
  rewrite Hr. unfold backward. now rewrite inR_rev.
Qed.
