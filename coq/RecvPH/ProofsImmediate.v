(** RecvPH — the four causes of an immediate ACK in the application data space, as an iff. *)
From Coq Require Import List ZArith Bool Lia.
From V Require Import Gen.Params RecvPH.Model RecvPH.ProofsHist RecvPH.ProofsAck RecvPH.ProofsDue
  RecvPH.ProofsMissing RecvPH.ProofsNonempty RecvPH.ProofsGap.
Import ListNotations.
Open Scope Z_scope.

Lemma fills_gap_ext : forall a b p, aTr a = aTr b -> aIgnoreBelow a = aIgnoreBelow b ->
  (fills_gap a p <-> fills_gap b p).
Proof. intros a b p E1 E2. unfold fills_gap. rewrite E1, E2. tauto. Qed.

Lemma reveals_gap_ext : forall a b, aTr a = aTr b -> aLargestObserved a = aLargestObserved b ->
  (reveals_gap a <-> reveals_gap b).
Proof. intros a b E1 E2. unfold reveals_gap. rewrite E1, E2. tauto. Qed.

Lemma isMissing_ext : forall a b p, aTr a = aTr b -> aIgnoreBelow a = aIgnoreBelow b -> isMissing a p = isMissing b p.
Proof. intros a b p E1 E2. unfold isMissing. now rewrite E1, E2. Qed.

Lemma hasNewMissing_ext : forall a b, aTr a = aTr b -> aLargestObserved a = aLargestObserved b ->
  hasNewMissingPackets a = hasNewMissingPackets b.
Proof. intros a b E1 E2. unfold hasNewMissingPackets. now rewrite E1, E2. Qed.

(** State hypotheses, all invariants of reachable states except the last one, which holds
    under the caller discipline (C07_ack_nonempty) as long as Truncate keeps a range. *)
Definition app_wf (a : app) : Prop :=
  hist_ok (tHist (aTr a)) /\
  rph_InvalidPacketNumber <= deletedBelow (tHist (aTr a)) /\
  (forall la, tLastAck (aTr a) = Some la ->
     (exists lo hi, wfd lo hi la) /\ (forall l, largestAcked la = Some l -> 0 <= l)).

Lemma immediate_ack_iff_app : forall a pn ecn t,
  app_wf a ->
  (forall la, tLastAck (aTr a) = Some la -> la <> []) ->
  aAckQueued a = false ->
  snd (app_recv a pn ecn t true) = Ok3 ->
  let a' := fst (app_recv a pn ecn t true) in
  (aAckQueued a' = true <->
     fills_gap a' pn \/ rph_packetsBeforeAck <= aCnt a' \/ reveals_gap a' \/ ecn = rph_ECNCE).
Proof.
  intros a pn ecn t (Hok & Hdb & Hlast) Hne Hq Hres. cbn zeta.
  unfold app_recv in *.
  pose proof (tr_recv_hist (aTr a) pn ecn true) as Hh.
  pose proof (tr_recv_flag (aTr a) pn ecn true) as Hf.
  pose proof (tr_recv_lastAck (aTr a) pn ecn true) as Hl.
  destruct (tr_recv (aTr a) pn ecn true) as [t' ok]. cbn [fst snd] in Hh, Hf, Hl.
  destruct ok; cbn [negb] in *; [| discriminate].
  assert (Hok' : hist_ok (tHist t')) by (rewrite Hh; now apply hist_recv_ok).
  assert (Hne' : ranges (tHist t') <> []) by (rewrite Hh; apply hist_recv_accept_nonempty; auto).
  assert (Hdb' : rph_InvalidPacketNumber <= deletedBelow (tHist t')) by (rewrite Hh; pose proof (hist_recv_db_le (tHist (aTr a)) pn Hok); lia).
  set (lo' := if pn >=? aLargestObserved a then pn else aLargestObserved a) in *.
  set (lt' := if pn >=? aLargestObserved a then t else aLorTime a) in *.
  set (a2 := mkApp t' lt' lo' (aIgnoreBelow a) (aMaxAckDelay a) (aAckQueued a) (aCnt a + 1) (aAckAlarm a)) in *.
  (* meaning of the two gap tests on the intermediate state *)
  assert (Hboth : ((isMissing a2 pn = Some true <-> fills_gap a2 pn) /\ exists b, isMissing a2 pn = Some b) /\
                  ((hasNewMissingPackets a2 = Some true <-> reveals_gap a2) /\ exists b, hasNewMissingPackets a2 = Some b)).
  { destruct (tLastAck (aTr a)) as [la |] eqn:Hla.
    - destruct (Hlast la eq_refl) as ((lo & hi & Hwf) & Hl0). pose proof (Hne la eq_refl) as Hnela.
      split.
      + eapply (isMissing_spec a2 pn la lo hi); eauto.
      + destruct la as [| [s0 l0] r0] eqn:E; [contradiction |]. rewrite <- E in *.
        assert (Hlg : largestAcked la = Some l0) by (subst la; reflexivity).
        eapply (hasNewMissing_spec a2 la l0); eauto.
    - split.
      + split; [| exists false; unfold isMissing; cbn [a2 aTr]; now rewrite Hl].
        unfold isMissing, fills_gap. cbn [a2 aTr]. rewrite Hl. split; [discriminate |].
        intros (la & l & C & _). discriminate.
      + split; [| exists false; unfold hasNewMissingPackets; cbn [a2 aTr]; now rewrite Hl].
        unfold hasNewMissingPackets, reveals_gap. cbn [a2 aTr]. rewrite Hl. split; [discriminate |].
        intros (la & l & eT & m & C & _). discriminate. }
  destruct Hboth as (Hmiss & Hgap).
  destruct Hmiss as (Hmiss & (bm & Hbm)). destruct Hgap as (Hgap & (bg & Hbg)).
  rewrite Hbm in *. cbn [aAckQueued a2] in Hres |- *. rewrite Hq in *.
  unfold shouldQueueACK in *. cbn [aCnt a2] in *. rewrite Hbg in *.
  (* transport the two predicates to the final state *)
  assert (Tf : forall a3, aTr a3 = t' -> aIgnoreBelow a3 = aIgnoreBelow a -> (fills_gap a3 pn <-> fills_gap a2 pn)).
  { intros a3 E1 E2. apply fills_gap_ext; [now rewrite E1 | now rewrite E2]. }
  assert (Tr : forall a3, aTr a3 = t' -> aLargestObserved a3 = lo' -> (reveals_gap a3 <-> reveals_gap a2)).
  { intros a3 E1 E2. apply reveals_gap_ext; [now rewrite E1 | now rewrite E2]. }
  destruct bm.
  { cbn [fst snd orb aAckQueued aCnt]. rewrite Tf by reflexivity. split; [intros _; left; now apply Hmiss | reflexivity]. }
  destruct (Z.geb_spec (aCnt a + 1) rph_packetsBeforeAck) as [Hc | Hc].
  { cbn [fst snd orb aAckQueued aCnt]. split; [intros _; right; left; lia | reflexivity]. }
  destruct bg.
  { cbn [fst snd orb aAckQueued aCnt]. rewrite Tr by reflexivity.
    split; [intros _; right; right; left; now apply Hgap | reflexivity]. }
  cbn [fst snd orb aAckQueued aCnt]. rewrite Tf, Tr by reflexivity.
  destruct (Z.eqb_spec ecn rph_ECNCE) as [He | He].
  - split; [intros _; now repeat right | reflexivity].
  - split; [discriminate |]. intros [C | [C | [C | C]]].
    + apply Hmiss in C. discriminate.
    + lia.
    + apply Hgap in C. discriminate.
    + contradiction.
Qed.

(** reachable states satisfy [app_wf] when packet numbers are non-negative *)
Lemma reachable_app_wf : forall ops, pn_nonneg ops -> app_wf (hApp (fst (run newHandler ops))).
Proof.
  intros ops Hnn. destruct (invL_run ops) as (HA & HL).
  destruct (HA 2%nat _ eq_refl) as (Hok & _).
  destruct (invB_run ops) as (_ & B1 & B2 & _).
  split; [assumption | split].
  - destruct B2 as [B2 | [B2 _]]; unfold rph_InvalidPacketNumber in *; lia.
  - intros la Hla. destruct (HL la Hla) as ((lo & hi & Hwf) & Hs). split; [eauto |].
    intros l Hl. destruct la as [| [s0 l0] r0]; [discriminate |]. inversion Hl; subst l0.
    simpl in Hwf. apply (recvd_nonneg ops 2%nat l Hnn). apply Hs. apply inR_cons. left. lia.
Qed.

(** C07_immediate_ack_iff: after every history of calls with non-negative packet numbers, for an
    accepted ack-eliciting application-data packet arriving while no ACK is queued: an ACK is
    queued by this packet IF AND ONLY IF the packet fills a gap of the last ACK frame, or it is
    the second unacknowledged ack-eliciting packet, or it reveals a new gap, or it is ECN-CE. *)
Lemma immediate_ack_iff : forall ops pn ecn t,
  pn_nonneg ops ->
  let a := hApp (fst (run newHandler ops)) in
  (forall la, tLastAck (aTr a) = Some la -> la <> []) ->
  aAckQueued a = false ->
  snd (app_recv a pn ecn t true) = Ok3 ->
  let a' := fst (app_recv a pn ecn t true) in
  (aAckQueued a' = true <->
     fills_gap a' pn \/ rph_packetsBeforeAck <= aCnt a' \/ reveals_gap a' \/ ecn = rph_ECNCE).
Proof.
  intros ops pn ecn t Hnn a Hne Hq Hres. apply immediate_ack_iff_app; auto. now apply reachable_app_wf.
Qed.

(** * The packer's Truncate on the frame that is also [lastAck] cannot suppress an ACK *)

Definition app_trunc (a : app) (n : Z) : app :=
  mkApp (tr_trunc (aTr a) n) (aLorTime a) (aLargestObserved a) (aIgnoreBelow a) (aMaxAckDelay a)
        (aAckQueued a) (aCnt a) (aAckAlarm a).

Lemma largestAcked_firstn : forall n la, (1 <= n)%nat -> largestAcked (firstn n la) = largestAcked la.
Proof. intros [| n] la H; [lia |]. destruct la as [| [s l] r]; reflexivity. Qed.

Lemma app_trunc_wf : forall a n, 1 <= n -> app_wf a ->
  (forall la, tLastAck (aTr a) = Some la -> la <> []) ->
  app_wf (app_trunc a n) /\ (forall la, tLastAck (aTr (app_trunc a n)) = Some la -> la <> []).
Proof.
  intros a n Hn (Hok & Hdb & Hlast) Hne. unfold app_trunc, tr_trunc. cbn [aTr tHist tLastAck].
  assert (Hn' : (1 <= Z.to_nat n)%nat) by lia.
  split; [split; [assumption | split; [assumption |]] |].
  - intros la Hla. destruct (tLastAck (aTr a)) as [la0 |]; [| discriminate]. inversion Hla; subst la.
    destruct (Hlast la0 eq_refl) as ((lo & hi & Hwf) & Hl0). split.
    + exists lo, hi. now apply wfd_firstn.
    + intros l Hl. rewrite largestAcked_firstn in Hl by assumption. auto.
  - intros la Hla. destruct (tLastAck (aTr a)) as [la0 |]; [| discriminate]. inversion Hla; subst la.
    pose proof (Hne la0 eq_refl) as H0. destruct la0 as [| x r]; [contradiction |].
    destruct (Z.to_nat n); [lia | discriminate].
Qed.

Lemma app_recv_no_panic : forall a pn ecn t ae, app_wf a ->
  (forall la, tLastAck (aTr a) = Some la -> la <> []) ->
  snd (app_recv a pn ecn t ae) <> Panic3.
Proof.
  intros a pn ecn t ae (Hok & Hdb & Hlast) Hne. unfold app_recv.
  pose proof (tr_recv_hist (aTr a) pn ecn ae) as Hh.
  pose proof (tr_recv_flag (aTr a) pn ecn ae) as Hf.
  pose proof (tr_recv_lastAck (aTr a) pn ecn ae) as Hl.
  destruct (tr_recv (aTr a) pn ecn ae) as [t' ok]. cbn [fst snd] in Hh, Hf, Hl.
  destruct ok; cbn [negb]; [| discriminate]. destruct ae; cbn [negb]; [| discriminate].
  assert (Hok' : hist_ok (tHist t')) by (rewrite Hh; now apply hist_recv_ok).
  assert (Hne' : ranges (tHist t') <> []) by (rewrite Hh; apply hist_recv_accept_nonempty; auto).
  assert (Hdb' : rph_InvalidPacketNumber <= deletedBelow (tHist t')) by (rewrite Hh; pose proof (hist_recv_db_le (tHist (aTr a)) pn Hok); lia).
  match goal with |- context [isMissing ?x pn] => set (a2 := x) end.
  assert (Hboth : (exists b, isMissing a2 pn = Some b) /\ (exists b, hasNewMissingPackets a2 = Some b)).
  { destruct (tLastAck (aTr a)) as [la |] eqn:Hla.
    - destruct (Hlast la eq_refl) as ((lo & hi & Hwf) & Hl0). pose proof (Hne la eq_refl) as Hnela.
      split.
      + eapply (isMissing_spec a2 pn la lo hi); eauto.
      + destruct la as [| [s0 l0] r0] eqn:E; [contradiction |]. rewrite <- E in *.
        assert (Hlg : largestAcked la = Some l0) by (subst la; reflexivity).
        eapply (hasNewMissing_spec a2 la l0); eauto.
    - split; [exists false; unfold isMissing | exists false; unfold hasNewMissingPackets]; cbn [a2 aTr]; now rewrite Hl. }
  destruct Hboth as ((bm & Hbm) & (bg & Hbg)). rewrite Hbm.
  destruct (aAckQueued a2); [discriminate |].
  unfold shouldQueueACK. destruct bm; [discriminate |].
  destruct (aCnt a2 >=? rph_packetsBeforeAck); [discriminate |]. rewrite Hbg. destruct bg; discriminate.
Qed.

Lemma fills_gap_trunc : forall a b p n, (1 <= n)%nat ->
  tLastAck (aTr b) = option_map (firstn n) (tLastAck (aTr a)) -> aIgnoreBelow b = aIgnoreBelow a ->
  fills_gap a p -> fills_gap b p.
Proof.
  intros a b p n Hn E1 E2 (la & l & Hla & Hl & Hib & Hpl & Hnin).
  exists (firstn n la), l. rewrite E1, Hla, E2, largestAcked_firstn by assumption.
  repeat split; auto. intros Hq. apply Hnin. eapply inR_firstn; eauto.
Qed.

Lemma reveals_gap_trunc : forall a b n, (1 <= n)%nat ->
  tLastAck (aTr b) = option_map (firstn n) (tLastAck (aTr a)) -> tHist (aTr b) = tHist (aTr a) ->
  aLargestObserved b = aLargestObserved a ->
  reveals_gap a -> reveals_gap b.
Proof.
  intros a b n Hn E1 E2 E3 (la & l & eT & m & Hla & Hl & Htop & R).
  exists (firstn n la), l, eT, m. rewrite E1, Hla, E2, E3, largestAcked_firstn by assumption. auto.
Qed.

Lemma app_recv_err_iff : forall a pn ecn t ae,
  snd (app_recv a pn ecn t ae) = Err3 <-> snd (hist_recv (tHist (aTr a)) pn) = false.
Proof.
  intros a pn ecn t ae. unfold app_recv, tr_recv.
  destruct (hist_recv (tHist (aTr a)) pn) as [h' isNew]. destruct isNew; cbn [negb fst snd].
  - split; [| discriminate]. destruct ae; cbn [negb]; [| discriminate].
    match goal with |- context [isMissing ?x pn] => destruct (isMissing x pn) end; [| discriminate].
    match goal with |- context [if ?c then Some false else ?z] => destruct (if c then Some false else z) end; discriminate.
  - split; reflexivity.
Qed.

(** Whatever queues an ACK with the untruncated [lastAck] queues it with the truncated one:
    [ack.Truncate] by the packer (which keeps at least one range) never makes a later packet miss
    its immediate ACK. *)
Lemma truncate_never_suppresses : forall a n pn ecn t,
  app_wf a -> (forall la, tLastAck (aTr a) = Some la -> la <> []) -> 1 <= n ->
  aAckQueued a = false ->
  snd (app_recv a pn ecn t true) = Ok3 ->
  snd (app_recv (app_trunc a n) pn ecn t true) = Ok3 /\
  (aAckQueued (fst (app_recv a pn ecn t true)) = true ->
   aAckQueued (fst (app_recv (app_trunc a n) pn ecn t true)) = true).
Proof.
  intros a n pn ecn t Hwf Hne Hn Hq Hres.
  destruct (app_trunc_wf a n Hn Hwf Hne) as (Hwf' & Hne').
  assert (Hn' : (1 <= Z.to_nat n)%nat) by lia.
  assert (Hres' : snd (app_recv (app_trunc a n) pn ecn t true) = Ok3).
  { pose proof (app_recv_no_panic (app_trunc a n) pn ecn t true Hwf' Hne') as Hnp.
    pose proof (app_recv_err_iff (app_trunc a n) pn ecn t true) as He'.
    pose proof (app_recv_err_iff a pn ecn t true) as He.
    change (tHist (aTr (app_trunc a n))) with (tHist (aTr a)) in He'.
    destruct (snd (app_recv (app_trunc a n) pn ecn t true)); [reflexivity | | contradiction].
    exfalso. destruct He' as [He' _]. specialize (He' eq_refl). apply He in He'. congruence. }
  split; [assumption |]. intros Hqd.
  apply (immediate_ack_iff_app a pn ecn t Hwf Hne Hq Hres) in Hqd.
  apply (immediate_ack_iff_app (app_trunc a n) pn ecn t Hwf' Hne' Hq Hres').
  (* the post-states differ only in lastAck *)
  assert (Ea : forall b, b = a \/ b = app_trunc a n ->
            snd (app_recv b pn ecn t true) = Ok3 ->
            tLastAck (aTr (fst (app_recv b pn ecn t true))) = tLastAck (aTr b) /\
            tHist (aTr (fst (app_recv b pn ecn t true))) = fst (hist_recv (tHist (aTr b)) pn) /\
            aIgnoreBelow (fst (app_recv b pn ecn t true)) = aIgnoreBelow b /\
            aCnt (fst (app_recv b pn ecn t true)) = aCnt b + 1 /\
            aLargestObserved (fst (app_recv b pn ecn t true)) = (if pn >=? aLargestObserved b then pn else aLargestObserved b)).
  { intros b _ Hb. unfold app_recv in *.
    pose proof (tr_recv_hist (aTr b) pn ecn true) as Hh.
    pose proof (tr_recv_lastAck (aTr b) pn ecn true) as Hl.
    destruct (tr_recv (aTr b) pn ecn true) as [t' ok]. cbn [fst snd] in Hh, Hl.
    destruct ok; cbn [negb] in *; [| discriminate].
    match goal with |- context [isMissing ?x pn] => destruct (isMissing x pn) end; [| discriminate].
    match goal with |- context [if ?c then Some false else ?z] => destruct (if c then Some false else z) end; [| discriminate].
    cbn [fst aTr aIgnoreBelow aCnt aLargestObserved]. auto. }
  destruct (Ea a (or_introl eq_refl) Hres) as (A1 & A2 & A3 & A4 & A5).
  destruct (Ea (app_trunc a n) (or_intror eq_refl) Hres') as (B1 & B2 & B3 & B4 & B5).
  cbn [app_trunc aTr tr_trunc tLastAck tHist aIgnoreBelow aCnt aLargestObserved] in B1, B2, B3, B4, B5.
  destruct Hqd as [C | [C | [C | C]]].
  - left. eapply (fills_gap_trunc _ _ pn (Z.to_nat n) Hn'); [| | exact C].
    + rewrite B1, A1. reflexivity.
    + rewrite B3, A3. reflexivity.
  - right; left. rewrite B4. rewrite A4 in C. exact C.
  - right; right; left. eapply (reveals_gap_trunc _ _ (Z.to_nat n) Hn'); [| | | exact C].
    + rewrite B1, A1. reflexivity.
    + rewrite B2, A2. reflexivity.
    + rewrite B5, A5. reflexivity.
  - now repeat right.
Qed.
