(** RecvPH — a generated ACK frame has at least one range, under the discipline of the caller.

    [IgnorePacketsBelow] is only called by the sent-packet handler while the frames of a 1-RTT
    packet are being handled (connection.go: handleFrames -> handleAckFrame -> ReceivedAck ->
    ignorePacketsBelow); the connection registers that very packet with [ReceivedPacket] right
    afterwards, before any ACK frame is requested, or it closes with an error and requests none.
    A registered packet is accepted only if its number is at or above the new threshold.
    Hence at every [GetAckFrame] call the last [IgnorePacketsBelow] has been followed by an
    ACCEPTED application-data packet: [owes trace = false]. *)
From Coq Require Import List ZArith Bool Lia.
From V Require Import Gen.Params RecvPH.Model RecvPH.ProofsHist RecvPH.ProofsAck RecvPH.ProofsDue RecvPH.ProofsDup.
Import ListNotations.
Open Scope Z_scope.

(** [true]: an IgnorePacketsBelow call has not yet been followed by an accepted packet of the
    application data space. *)
Definition owes1 (x : op * res) (acc : bool) : bool :=
  match x with
  | (Ignore _, _) => true
  | (Recv _ _ lvl _ _, ROk) => if is_app lvl then false else acc
  | _ => acc
  end.

Definition owes (tr : list (op * res)) : bool := fold_left (fun acc x => owes1 x acc) tr false.

Lemma owes_snoc : forall tr x, owes (tr ++ [x]) = owes1 x (owes tr).
Proof. intros tr x. unfold owes. now rewrite fold_left_app. Qed.

Definition tr_nonempty (t : tracker) : Prop := tHasNewAck t = true -> ranges (tHist t) <> [].

Lemma hist_recv_accept_nonempty : forall x p, hist_ok x ->
  snd (hist_recv x p) = true -> ranges (fst (hist_recv x p)) <> [].
Proof.
  intros x p Hok Hacc.
  assert (Hdb : deletedBelow x <= p).
  { unfold hist_recv in Hacc. destruct (Z.ltb_spec p (deletedBelow x)); [discriminate | assumption]. }
  destruct (hist_recv_keeps_above x p p Hok (or_intror (conj eq_refl Hdb))) as (q & _ & Hq).
  intros E. rewrite E in Hq. now apply inR_nil in Hq.
Qed.

Lemma tr_recv_nonempty : forall t pn ecn ae, hist_ok (tHist t) -> tr_nonempty t ->
  tr_nonempty (fst (tr_recv t pn ecn ae)) /\
  (snd (tr_recv t pn ecn ae) = true -> ranges (tHist (fst (tr_recv t pn ecn ae))) <> []).
Proof.
  intros t pn ecn ae Hok Hne. unfold tr_recv.
  pose proof (hist_recv_accept_nonempty (tHist t) pn Hok) as Hacc.
  pose proof (hist_recv_refused (tHist t) pn Hok) as Href.
  destruct (hist_recv (tHist t) pn) as [h' isNew]. cbn [fst snd] in *.
  destruct isNew; cbn [negb fst snd].
  - split; [intros _; cbn [tHist]; auto | intros _; cbn [tHist]; auto].
  - rewrite (Href eq_refl). split; [| discriminate]. unfold tr_nonempty. cbn [tHist tHasNewAck]. exact Hne.
Qed.

Lemma tr_get_ack_nonempty : forall t, tr_nonempty t -> tr_nonempty (fst (tr_get_ack t)).
Proof.
  intros t H. unfold tr_get_ack. destruct (tHasNewAck t) eqn:Hn; cbn [negb fst]; [| exact H].
  unfold tr_nonempty. cbn [tHasNewAck]. discriminate.
Qed.

Lemma app_recv_nonempty : forall a pn ecn t ae, hist_ok (tHist (aTr a)) ->
  let a' := fst (app_recv a pn ecn t ae) in
  let r := snd (app_recv a pn ecn t ae) in
  (r = Ok3 -> ranges (tHist (aTr a')) <> []) /\
  (r <> Ok3 -> tr_nonempty (aTr a) -> tr_nonempty (aTr a')).
Proof.
  intros a pn ecn t ae Hok. cbn zeta. unfold app_recv.
  pose proof (hist_recv_accept_nonempty (tHist (aTr a)) pn Hok) as Hacc.
  pose proof (hist_recv_refused (tHist (aTr a)) pn Hok) as Href.
  unfold tr_recv. destruct (hist_recv (tHist (aTr a)) pn) as [h' isNew]. cbn [fst snd] in *.
  destruct isNew; cbn [negb fst snd].
  - destruct ae; cbn [negb].
    + match goal with |- context [isMissing ?x pn] => destruct (isMissing x pn) as [miss |] end;
        [| split; [discriminate | auto]].
      match goal with |- context [if ?c then Some false else ?y] => destruct (if c then Some false else y) as [q |] end;
        [| split; [discriminate | auto]].
      cbn [fst snd aTr tHist]. split; [auto | intros C; now contradiction C].
    + cbn [fst snd aTr tHist]. split; [auto | intros C; now contradiction C].
  - cbn [fst snd aTr]. rewrite (Href eq_refl). split; [discriminate |]. intros _ Hne.
    unfold tr_nonempty in *. cbn [tHist tHasNewAck]. exact Hne.
Qed.

Definition invN (tr : list (op * res)) (h : handler) : Prop :=
  invA tr h /\
  (forall t, hInitial h = Some t -> tr_nonempty t) /\
  (forall t, hHandshake h = Some t -> tr_nonempty t) /\
  (owes tr = false -> tr_nonempty (aTr (hApp h))).

Lemma invN_init : invN [] newHandler.
Proof.
  split; [apply invA_init |]. unfold tr_nonempty. cbn.
  repeat split; intros; try (match goal with H : Some _ = Some _ |- _ => inversion H; subst end); cbn in *; discriminate.
Qed.

Lemma invN_step : forall tr h o, invN tr h -> invN (tr ++ [(o, snd (step h o))]) (fst (step h o)).
Proof.
  intros tr h o (HA & HI & HH & HP). split; [now apply invA_step |]. rewrite owes_snoc.
  assert (HokI : forall t, hInitial h = Some t -> hist_ok (tHist t)).
  { intros t Ht. apply (HA 0%nat). cbn. now rewrite Ht. }
  assert (HokH : forall t, hHandshake h = Some t -> hist_ok (tHist t)).
  { intros t Ht. apply (HA 1%nat). cbn. now rewrite Ht. }
  assert (HokA : hist_ok (tHist (aTr (hApp h)))) by (apply (HA 2%nat); reflexivity).
  destruct o as [pn ecn lvl t ae | p | lvl | lvl now only | pn lvl | | | lvl n]; cbn [step].
  - (* Recv *)
    unfold h_recv.
    assert (Happ : forall low, is_app lvl = true ->
      let s := (let (a', r) := app_recv (hApp h) pn ecn t ae in
                match r with
                | Panic3 => (h, RPanic)
                | _ => (mkH (hInitial h) (hHandshake h) a' low, res_of3 r)
                end) in
      (forall t0, hInitial (fst s) = Some t0 -> tr_nonempty t0) /\
      (forall t0, hHandshake (fst s) = Some t0 -> tr_nonempty t0) /\
      (owes1 (Recv pn ecn lvl t ae, snd s) (owes tr) = false -> tr_nonempty (aTr (hApp (fst s))))).
    { intros low Hia. cbn zeta.
      destruct (app_recv_nonempty (hApp h) pn ecn t ae HokA) as (N1 & N2).
      destruct (app_recv (hApp h) pn ecn t ae) as [a' r]. cbn [fst snd] in *.
      destruct r; cbn [fst snd hInitial hHandshake hApp res_of3 owes1].
      - rewrite Hia. repeat split; auto. intros _ _. now apply N1.
      - repeat split; auto. intros Ho. apply N2; [discriminate | auto].
      - repeat split; auto. }
    destruct (Z.eqb_spec lvl rph_EncInitial) as [E0 | E0].
    { assert (Hia : is_app lvl = false) by (subst lvl; reflexivity).
      destruct (hInitial h) as [t0 |] eqn:Hi.
      - destruct (tr_recv_nonempty t0 pn ecn ae (HokI t0 eq_refl) (HI t0 eq_refl)) as (T1 & _).
        destruct (tr_recv t0 pn ecn ae) as [t' ok]. cbn [fst snd hInitial hHandshake hApp] in *.
        repeat split; auto.
        + intros t1 Ht1. inversion Ht1; subst. exact T1.
        + intros Ho. apply HP. destruct ok; cbn [owes1] in Ho; rewrite ?Hia in Ho; exact Ho.
      - cbn [fst snd]. repeat split; auto; try (rewrite Hi; discriminate). }
    destruct (Z.eqb_spec lvl rph_EncHandshake) as [E1 | E1].
    { assert (Hia : is_app lvl = false) by (subst lvl; reflexivity).
      destruct (hHandshake h) as [t0 |] eqn:Hi.
      - destruct (tr_recv_nonempty t0 pn ecn ae (HokH t0 eq_refl) (HH t0 eq_refl)) as (T1 & _).
        destruct (tr_recv t0 pn ecn ae) as [t' ok]. cbn [fst snd hInitial hHandshake hApp] in *.
        repeat split; auto.
        + intros t1 Ht1. inversion Ht1; subst. exact T1.
        + intros Ho. apply HP. destruct ok; cbn [owes1] in Ho; rewrite ?Hia in Ho; exact Ho.
      - cbn [fst snd]. repeat split; auto.
        + rewrite Hi; discriminate.
        + intros Ho. apply HP. cbn [owes1] in Ho. rewrite Hia in Ho. exact Ho. }
    destruct (Z.eqb_spec lvl rph_Enc0RTT) as [E2 | E2].
    { assert (Hia : is_app lvl = true) by (subst lvl; reflexivity).
      destruct (negb (hLowest1RTT h =? rph_InvalidPacketNumber) && (pn >? hLowest1RTT h)).
      - cbn [fst snd owes1]. repeat split; auto.
      - apply (Happ _ Hia). }
    destruct (Z.eqb_spec lvl rph_Enc1RTT) as [E3 | E3].
    { assert (Hia : is_app lvl = true) by (subst lvl; reflexivity). apply (Happ _ Hia). }
    cbn [fst snd owes1]. repeat split; auto.
  - (* Ignore *)
    cbn [fst snd hInitial hHandshake hApp owes1]. repeat split; auto. discriminate.
  - (* Drop *)
    unfold h_drop.
    destruct (lvl =? rph_EncInitial); [| destruct (lvl =? rph_EncHandshake); [| destruct (lvl =? rph_Enc0RTT)]];
      cbn [fst snd hInitial hHandshake hApp owes1]; repeat split; auto; discriminate.
  - (* GetAck *)
    unfold h_get_ack.
    destruct (lvl =? rph_EncInitial).
    { destruct (hInitial h) as [t0 |] eqn:Hi.
      - pose proof (tr_get_ack_nonempty t0 (HI t0 eq_refl)) as T1.
        destruct (tr_get_ack t0) as [t' a]. cbn [fst snd hInitial hHandshake hApp owes1] in *.
        repeat split; auto. intros t1 Ht1. inversion Ht1; subst. exact T1.
      - cbn [fst snd owes1]. repeat split; auto. rewrite Hi; discriminate. }
    destruct (lvl =? rph_EncHandshake).
    { destruct (hHandshake h) as [t0 |] eqn:Hi.
      - pose proof (tr_get_ack_nonempty t0 (HH t0 eq_refl)) as T1.
        destruct (tr_get_ack t0) as [t' a]. cbn [fst snd hInitial hHandshake hApp owes1] in *.
        repeat split; auto. intros t1 Ht1. inversion Ht1; subst. exact T1.
      - cbn [fst snd owes1]. repeat split; auto. rewrite Hi; discriminate. }
    destruct (lvl =? rph_Enc1RTT).
    { pose proof (app_get_ack_due (hApp h) now only) as Hd. cbn zeta in Hd.
      destruct (app_get_ack (hApp h) now only) as [a' [f |]]; cbn [fst snd hInitial hHandshake hApp owes1] in *.
      - destruct Hd as (D1 & _). repeat split; auto. intros _. unfold tr_nonempty. rewrite D1. discriminate.
      - subst a'. repeat split; auto. }
    cbn [fst snd owes1]. repeat split; auto.
  - cbn [fst snd owes1]. repeat split; auto.
  - cbn [fst snd owes1]. repeat split; auto.
  - cbn [fst snd owes1]. repeat split; auto.
  - (* Trunc: history and hasNewAck untouched *)
    cbn [fst snd owes1]. unfold h_trunc.
    destruct (lvl =? rph_EncInitial); [| destruct (lvl =? rph_EncHandshake); [| destruct (lvl =? rph_Enc1RTT)]];
      cbn [hInitial hHandshake hApp aTr]; repeat split; auto;
      try (intros t0 Ht0; destruct (hInitial h) as [t1 |] eqn:Hi; [| discriminate]; inversion Ht0; subst;
           unfold tr_nonempty, tr_trunc; cbn [tHasNewAck tHist]; now apply HI);
      try (intros t0 Ht0; destruct (hHandshake h) as [t1 |] eqn:Hi; [| discriminate]; inversion Ht0; subst;
           unfold tr_nonempty, tr_trunc; cbn [tHasNewAck tHist]; now apply HH);
      try (intros Ho; unfold tr_nonempty, tr_trunc; cbn [tHasNewAck tHist]; now apply HP).
Qed.

Lemma invN_run : forall ops, invN (trace newHandler ops) (fst (run newHandler ops)).
Proof.
  intros ops. apply (run_preserves invN invN_step ops [] newHandler invN_init).
Qed.

(** C07_ack_nonempty: after every history of calls, an ACK frame handed out for Initial or
    Handshake always has a range; one handed out for the application data space has a range
    whenever the caller discipline holds at that moment; such a frame passes validateAckRanges. *)
Lemma ack_nonempty : forall ops lvl now only f,
  let h := fst (run newHandler ops) in
  (lvl = rph_Enc1RTT -> owes (trace newHandler ops) = false) ->
  snd (h_get_ack h lvl now only) = Some f ->
  aRanges f <> [] /\ validateAckRanges (aRanges f) = true.
Proof.
  intros ops lvl now only f h Hdisc Hf.
  assert (Hne : aRanges f <> []).
  { destruct (invN_run ops) as (_ & HI & HH & HP). fold h in HI, HH, HP.
    unfold h_get_ack in Hf.
    destruct (Z.eqb_spec lvl rph_EncInitial) as [E0 | E0].
    { destruct (hInitial h) as [t0 |] eqn:Hi; [| discriminate]. specialize (HI t0 eq_refl).
      unfold tr_get_ack in Hf. destruct (tHasNewAck t0) eqn:Hn; cbn [negb snd] in Hf; [| discriminate].
      inversion Hf; subst f. cbn [aRanges]. unfold backward. intros E.
      apply (f_equal (@rev _)) in E. rewrite rev_involutive in E. now apply HI. }
    destruct (Z.eqb_spec lvl rph_EncHandshake) as [E1 | E1].
    { destruct (hHandshake h) as [t0 |] eqn:Hi; [| discriminate]. specialize (HH t0 eq_refl).
      unfold tr_get_ack in Hf. destruct (tHasNewAck t0) eqn:Hn; cbn [negb snd] in Hf; [| discriminate].
      inversion Hf; subst f. cbn [aRanges]. unfold backward. intros E.
      apply (f_equal (@rev _)) in E. rewrite rev_involutive in E. now apply HI || now apply HH. }
    destruct (Z.eqb_spec lvl rph_Enc1RTT) as [E3 | E3]; [| discriminate].
    specialize (HP (Hdisc E3)). unfold app_get_ack in Hf.
    destruct (only && negb (aAckQueued (hApp h)) && ((aAckAlarm (hApp h) =? 0) || (aAckAlarm (hApp h) >? now)));
      [discriminate |].
    unfold tr_get_ack in Hf. destruct (tHasNewAck (aTr (hApp h))) eqn:Hn; cbn [negb snd] in Hf; [| discriminate].
    inversion Hf; subst f. cbn [aRanges]. unfold backward. intros E.
    apply (f_equal (@rev _)) in E. rewrite rev_involutive in E. now apply HP. }
  split; [assumption |].
  destruct (ack_sound ops lvl now only f Hf) as (sp & _ & _ & _ & _ & Hv & _). now apply Hv.
Qed.

(** The discipline is needed: outside of it the handler hands out a frame without ranges. *)
Lemma ack_nonempty_needs_discipline :
  exists ops now f,
    owes (trace newHandler ops) = true /\
    snd (h_get_ack (fst (run newHandler ops)) rph_Enc1RTT now false) = Some f /\ aRanges f = [] /\
    validateAckRanges (aRanges f) = false.
Proof. exists empty_ack_witness, 2000, (mkAck [] 1000 0 0 0). vm_compute. auto. Qed.
