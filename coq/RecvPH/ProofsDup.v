(** RecvPH — duplicate detection at the handler (C07_duplicate_detected) and the two
    refuted readings of the property. *)
From Coq Require Import List ZArith Bool Lia.
From V Require Import Gen.Params RecvPH.Model RecvPH.ProofsHist RecvPH.ProofsAck.
Import ListNotations.
Open Scope Z_scope.

Lemma is_dup_remembered : forall x q, hist_ok x ->
  (is_dup x q = true <-> q < deletedBelow x \/ inR q (ranges x)).
Proof. intros. now apply is_dup_spec. Qed.

(** A number flagged as duplicate stays flagged across every handler call, except when the
    call is the reception of a packet in the same space that pushes it out of the history
    through the MaxNumAckRanges limit. *)
Lemma handler_dup_retained : forall ops o sp x y q,
  let h := fst (run newHandler ops) in
  hist_of h sp = Some x -> hist_of (fst (step h o)) sp = Some y ->
  is_dup x q = true ->
  is_dup y q = true \/
  (exists pn ecn lvl t ae, o = Recv pn ecn lvl t ae /\ sp_of lvl = Some sp /\ le_opt q (pruned_by x pn)).
Proof.
  intros ops o sp x y q h Hx Hy Hd.
  destruct (invA_run ops sp x Hx) as (Hok & _). fold h in Hx.
  destruct (step_hist h o sp y Hy) as (x' & Hx' & Htr). rewrite Hx in Hx'. inversion Hx'; subst x'.
  apply (is_dup_spec x q Hok) in Hd.
  destruct Htr as [| pn ecn lvl t ae Ho Hsp | p Ho Hsp].
  - left. now apply is_dup_spec.
  - destruct (hist_recv_retains x pn q Hok (or_intror Hd)) as [H | [H | H]].
    + left. apply is_dup_spec; [now apply hist_recv_ok | now left].
    + left. apply is_dup_spec; [now apply hist_recv_ok | now right].
    + right. exists pn, ecn, lvl, t, ae. auto.
  - left. apply is_dup_spec; [now apply hist_delete_below_ok |].
    now apply hist_delete_below_retains.
Qed.

(** An accepted packet was not flagged before and is flagged afterwards (same exception). *)
Lemma handler_accept_flagged : forall ops pn ecn lvl t ae sp y,
  let h := fst (run newHandler ops) in
  snd (step h (Recv pn ecn lvl t ae)) = ROk -> sp_of lvl = Some sp ->
  hist_of (fst (step h (Recv pn ecn lvl t ae))) sp = Some y ->
  exists x, hist_of h sp = Some x /\ is_dup x pn = false /\
            (is_dup y pn = true \/ le_opt pn (pruned_by x pn)).
Proof.
  intros ops pn ecn lvl t ae sp y h Hr Hsp Hy.
  destruct (step_recv_ok h pn ecn lvl t ae sp y Hr Hsp Hy) as (x & Hx & Hyx & Hnew).
  destruct (invA_run ops sp x Hx) as (Hok & _).
  exists x. split; [assumption |]. rewrite hist_recv_isNew in Hnew by assumption.
  split; [now destruct (is_dup x pn) |].
  subst y. destruct (hist_recv_retains x pn pn Hok (or_introl eq_refl)) as [H | [H | H]].
  - left. apply is_dup_spec; [now apply hist_recv_ok | now left].
  - left. apply is_dup_spec; [now apply hist_recv_ok | now right].
  - now right.
Qed.

(** A packet whose number is flagged is refused by the tracker, and no history changes. *)
Lemma handler_dup_refused : forall ops pn ecn lvl t ae,
  let h := fst (run newHandler ops) in
  h_is_dup h pn lvl = RB true ->
  (snd (step h (Recv pn ecn lvl t ae)) = RErrDup \/ snd (step h (Recv pn ecn lvl t ae)) = RErr0RTT) /\
  forall sp, hist_of (fst (step h (Recv pn ecn lvl t ae))) sp = hist_of h sp.
Proof.
  intros ops pn ecn lvl t ae h Hd. pose proof (invA_run ops) as HA. fold h in HA.
  unfold h_is_dup in Hd. cbn [step]. unfold h_recv.
  destruct (Z.eqb_spec lvl rph_EncInitial) as [E0 | E0].
  { destruct (hInitial h) as [t0 |] eqn:Hi; [| discriminate]. inversion Hd as [Hd'].
    destruct (HA 0%nat (tHist t0)) as (Hok & _); [cbn; now rewrite Hi |].
    pose proof (tr_recv_hist t0 pn ecn ae) as Hh. pose proof (tr_recv_flag t0 pn ecn ae) as Hf.
    rewrite hist_recv_isNew, Hd' in Hf by assumption. cbn [negb] in Hf.
    assert (Hsame : fst (hist_recv (tHist t0) pn) = tHist t0).
    { apply hist_recv_refused; [assumption |]. rewrite hist_recv_isNew by assumption. now rewrite Hd'. }
    destruct (tr_recv t0 pn ecn ae) as [t' ok]. cbn [fst snd] in *. subst ok. split; [now left |].
    intros [| [| [| sp]]]; cbn [hist_of hInitial hHandshake hApp option_map]; try reflexivity.
    rewrite Hi. cbn. now rewrite Hh, Hsame. }
  destruct (Z.eqb_spec lvl rph_EncHandshake) as [E1 | E1].
  { destruct (hHandshake h) as [t0 |] eqn:Hi; [| discriminate]. inversion Hd as [Hd'].
    destruct (HA 1%nat (tHist t0)) as (Hok & _); [cbn; now rewrite Hi |].
    pose proof (tr_recv_hist t0 pn ecn ae) as Hh. pose proof (tr_recv_flag t0 pn ecn ae) as Hf.
    rewrite hist_recv_isNew, Hd' in Hf by assumption. cbn [negb] in Hf.
    assert (Hsame : fst (hist_recv (tHist t0) pn) = tHist t0).
    { apply hist_recv_refused; [assumption |]. rewrite hist_recv_isNew by assumption. now rewrite Hd'. }
    destruct (tr_recv t0 pn ecn ae) as [t' ok]. cbn [fst snd] in *. subst ok. split; [now left |].
    intros [| [| [| sp]]]; cbn [hist_of hInitial hHandshake hApp option_map]; try reflexivity.
    rewrite Hi. cbn. now rewrite Hh, Hsame. }
  assert (Happ : is_dup (tHist (aTr (hApp h))) pn = true -> forall low,
    let s := (let (a', r) := app_recv (hApp h) pn ecn t ae in
              match r with
              | Panic3 => (h, RPanic)
              | _ => (mkH (hInitial h) (hHandshake h) a' low, res_of3 r)
              end) in
    snd s = RErrDup /\ forall sp, hist_of (fst s) sp = hist_of h sp).
  { intros Hd' low. cbn zeta.
    destruct (HA 2%nat (tHist (aTr (hApp h))) eq_refl) as (Hok & _).
    unfold app_recv.
    pose proof (tr_recv_hist (aTr (hApp h)) pn ecn ae) as Hh. pose proof (tr_recv_flag (aTr (hApp h)) pn ecn ae) as Hf.
    rewrite hist_recv_isNew, Hd' in Hf by assumption. cbn [negb] in Hf.
    assert (Hsame : fst (hist_recv (tHist (aTr (hApp h))) pn) = tHist (aTr (hApp h))).
    { apply hist_recv_refused; [assumption |]. rewrite hist_recv_isNew by assumption. now rewrite Hd'. }
    destruct (tr_recv (aTr (hApp h)) pn ecn ae) as [t' ok]. cbn [fst snd] in *. subst ok. cbn [negb fst snd res_of3].
    split; [reflexivity |].
    intros [| [| [| sp]]]; cbn [hist_of hInitial hHandshake hApp option_map aTr]; try reflexivity.
    now rewrite Hh, Hsame. }
  destruct (Z.eqb_spec lvl rph_Enc0RTT) as [E2 | E2].
  { cbn [orb] in Hd. inversion Hd as [Hd'].
    destruct (negb (hLowest1RTT h =? rph_InvalidPacketNumber) && (pn >? hLowest1RTT h)).
    - split; [now right | reflexivity].
    - destruct (Happ Hd' (hLowest1RTT h)) as (H1 & H2). split; [now left | assumption]. }
  destruct (Z.eqb_spec lvl rph_Enc1RTT) as [E3 | E3]; [| discriminate].
  cbn [orb] in Hd. inversion Hd as [Hd'].
  match goal with |- context [mkH _ _ _ ?low] => destruct (Happ Hd' low) as (H1 & H2) end.
  split; [now left | assumption].
Qed.

(** * Refuted readings *)

(** (1) "Every generated ACK has at least one range" needs the caller discipline
    (ProofsNonempty.v): the witness below is outside of it. *)
Definition empty_ack_witness : list op :=
  [Recv 3 1 rph_Enc1RTT 1000 true; Ignore 10].

(** (2) "A received number at or above the Start of the lowest tracked range is flagged": false
    once the MaxNumAckRanges limit has dropped a range and a later, lower packet opens a new
    lowest range. MaxNumAckRanges+1 isolated numbers 10,12,.. (10 is dropped), 13 merges two
    ranges, 5 opens a new lowest range: 10 was received, 5 <= 10, yet 10 is not flagged. *)
Definition lowstart_witness : list hop :=
  map (fun i => HRecv (10 + 2 * Z.of_nat i)) (seq 0 (S (Z.to_nat rph_MaxNumAckRanges))) ++ [HRecv 13; HRecv 5].

(** Before fixes/C07-trimmed-history-counts-as-received.patch this history refuted duplicate
    detection (10 was received, dropped by the range limit and accepted a second time). With the
    repaired trimming the threshold follows what is forgotten: 10 stays flagged, and the late packet
    5 is refused as well. Kept as a regression example. *)
Lemma lowstart_witness_handled :
  let h := fst (hrun newHist lowstart_witness) in
  In (HRecv 10) lowstart_witness /\ is_dup h 10 = true /\ snd (hist_recv h 10) = false /\
  deletedBelow h = 11 /\ is_dup h 5 = true.
Proof. vm_compute. repeat split; try reflexivity. left. reflexivity. Qed.

(** What is flagged as duplicate and not below the forget threshold is acknowledged: together
    with [handler_accept_flagged] and [handler_dup_retained], an accepted packet is covered by
    every later ACK of its space until it is forgotten (threshold or range limit). *)
Lemma ack_covers_flagged : forall ops lvl now only f,
  let h := fst (run newHandler ops) in
  snd (h_get_ack h lvl now only) = Some f ->
  exists sp x, sp_of lvl = Some sp /\ hist_of h sp = Some x /\
    forall q, is_dup x q = true -> deletedBelow x <= q -> inR q (aRanges f).
Proof.
  intros ops lvl now only f h Hf.
  destruct (h_get_ack_frame h lvl now only f Hf) as (sp & x & Hsp & Hx & Hr & _).
  exists sp, x. split; [assumption | split; [assumption |]].
  intros q Hd Hdb. destruct (invA_run ops sp x Hx) as (Hok & _).
  apply (is_dup_spec x q Hok) in Hd. destruct Hd as [Hd | Hd]; [lia |].
  rewrite Hr. unfold backward. now rewrite inR_rev.
Qed.
