(** RecvPH — the trackers and the three-space handler: what a generated ACK frame contains. *)
From Coq Require Import List ZArith Bool Lia.
From V Require Import Gen.Params RecvPH.Model RecvPH.ProofsHist.
Import ListNotations.
Open Scope Z_scope.

(** * Spaces *)

(** packet number space of an encryption level: 0 Initial, 1 Handshake, 2 application data *)
Definition sp_of (lvl : Z) : option nat :=
  if lvl =? rph_EncInitial then Some 0%nat
  else if lvl =? rph_EncHandshake then Some 1%nat
  else if (lvl =? rph_Enc0RTT) || (lvl =? rph_Enc1RTT) then Some 2%nat
  else None.

Definition hist_of (h : handler) (sp : nat) : option hist :=
  match sp with
  | 0%nat => option_map tHist (hInitial h)
  | 1%nat => option_map tHist (hHandshake h)
  | 2%nat => Some (tHist (aTr (hApp h)))
  | _ => None
  end.

(** * The executed trace *)

Definition trace (h : handler) (ops : list op) : list (op * res) := combine ops (snd (run h ops)).

Lemma run_preserves : forall (P : list (op * res) -> handler -> Prop),
  (forall tr h o, P tr h -> P (tr ++ [(o, snd (step h o))]) (fst (step h o))) ->
  forall ops tr h, P tr h -> P (tr ++ trace h ops) (fst (run h ops)).
Proof.
  intros P Hstep. induction ops as [| o ops IH]; intros tr h HP.
  - unfold trace. simpl. now rewrite app_nil_r.
  - unfold trace. cbn [run]. specialize (Hstep tr h o HP).
    destruct (step h o) as [h' r] eqn:Hs. cbn [fst snd] in Hstep.
    specialize (IH (tr ++ [(o, r)]) h' Hstep). unfold trace in IH.
    destruct r; try (destruct (run h' ops) as [h'' rs]; cbn [fst snd combine] in *;
                     rewrite <- app_assoc in IH; exact IH).
    cbn [fst snd combine]. destruct ops; exact Hstep.
Qed.

(** * Frame lemmas: how one call changes the history of a space *)

Lemma tr_recv_hist : forall t pn ecn ae, tHist (fst (tr_recv t pn ecn ae)) = fst (hist_recv (tHist t) pn).
Proof.
  intros t pn ecn ae. unfold tr_recv. destruct (hist_recv (tHist t) pn) as [h' b].
  destruct b; reflexivity.
Qed.

Lemma tr_recv_flag : forall t pn ecn ae, snd (tr_recv t pn ecn ae) = snd (hist_recv (tHist t) pn).
Proof.
  intros t pn ecn ae. unfold tr_recv. destruct (hist_recv (tHist t) pn) as [h' b].
  destruct b; reflexivity.
Qed.

Lemma tr_get_ack_hist : forall t, tHist (fst (tr_get_ack t)) = tHist t.
Proof. intros t. unfold tr_get_ack. destruct (tHasNewAck t); reflexivity. Qed.

Lemma app_recv_hist : forall a pn ecn t ae,
  (snd (app_recv a pn ecn t ae) = Panic3 /\ fst (app_recv a pn ecn t ae) = a) \/
  (snd (app_recv a pn ecn t ae) <> Panic3 /\
   tHist (aTr (fst (app_recv a pn ecn t ae))) = fst (hist_recv (tHist (aTr a)) pn) /\
   aIgnoreBelow (fst (app_recv a pn ecn t ae)) = aIgnoreBelow a /\
   aMaxAckDelay (fst (app_recv a pn ecn t ae)) = aMaxAckDelay a).
Proof.
  intros a pn ecn t ae. unfold app_recv.
  pose proof (tr_recv_hist (aTr a) pn ecn ae) as Hh.
  destruct (tr_recv (aTr a) pn ecn ae) as [t' ok]. cbn [fst] in Hh.
  destruct ok; cbn [negb].
  - destruct ae; cbn [negb].
    + match goal with |- context [isMissing ?x pn] => destruct (isMissing x pn) as [miss |] end;
        [| left; split; reflexivity].
      match goal with |- context [if ?c then Some false else ?y] => destruct (if c then Some false else y) as [q |] end;
        [| left; split; reflexivity].
      right. cbn [fst snd aTr aIgnoreBelow aMaxAckDelay]. repeat split; auto; discriminate.
    + right. cbn [fst snd aTr aIgnoreBelow aMaxAckDelay]. repeat split; auto; discriminate.
  - right. cbn [fst snd aTr aIgnoreBelow aMaxAckDelay]. repeat split; auto; discriminate.
Qed.

Lemma app_get_ack_frame : forall a now only,
  tHist (aTr (fst (app_get_ack a now only))) = tHist (aTr a) /\
  aIgnoreBelow (fst (app_get_ack a now only)) = aIgnoreBelow a /\
  aMaxAckDelay (fst (app_get_ack a now only)) = aMaxAckDelay a /\
  (forall f, snd (app_get_ack a now only) = Some f -> aRanges f = backward (tHist (aTr a))).
Proof.
  intros a now only. unfold app_get_ack.
  destruct (only && negb (aAckQueued a) && ((aAckAlarm a =? 0) || (aAckAlarm a >? now))).
  - cbn [fst snd]. repeat split; auto. discriminate.
  - unfold tr_get_ack. destruct (tHasNewAck (aTr a)); cbn [negb fst snd aTr tHist aIgnoreBelow aMaxAckDelay].
    + repeat split; auto. intros f Hf. inversion Hf; subst. reflexivity.
    + repeat split; auto. discriminate.
Qed.

(** How the history [x] of space [sp] may change in one handler call. *)
Inductive hist_tr (o : op) (sp : nat) (x : hist) : hist -> Prop :=
| ht_same : hist_tr o sp x x
| ht_recv : forall pn ecn lvl t ae,
    o = Recv pn ecn lvl t ae -> sp_of lvl = Some sp -> hist_tr o sp x (fst (hist_recv x pn))
| ht_del : forall p, o = Ignore p -> sp = 2%nat -> hist_tr o sp x (hist_delete_below x p).

Ltac lvl_cases lvl :=
  unfold sp_of;
  destruct (Z.eqb_spec lvl rph_EncInitial); [|
  destruct (Z.eqb_spec lvl rph_EncHandshake); [|
  destruct (Z.eqb_spec lvl rph_Enc0RTT); [|
  destruct (Z.eqb_spec lvl rph_Enc1RTT)]]].

Lemma step_hist : forall h o sp y,
  hist_of (fst (step h o)) sp = Some y -> exists x, hist_of h sp = Some x /\ hist_tr o sp x y.
Proof.
  intros h o sp y Hy.
  assert (Hsame : forall h', fst (step h o) = h' -> hist_of h' sp = hist_of h sp ->
                  exists x, hist_of h sp = Some x /\ hist_tr o sp x y).
  { intros h' E1 E2. rewrite E1, E2 in Hy. exists y. split; [assumption | constructor]. }
  destruct o as [pn ecn lvl t ae | p | lvl | lvl now only | pn lvl | | | lvl n]; cbn [step] in *.
  - (* Recv *)
    unfold h_recv in *.
    destruct (Z.eqb_spec lvl rph_EncInitial) as [E0 | E0].
    { destruct (hInitial h) as [t0 |] eqn:Hi; [| eapply Hsame; reflexivity].
      pose proof (tr_recv_hist t0 pn ecn ae) as Hh. destruct (tr_recv t0 pn ecn ae) as [t' ok].
      cbn [fst] in *. destruct sp as [| [| [| sp]]]; cbn [hist_of hInitial hHandshake hApp option_map] in *.
      - inversion Hy; subst. rewrite Hi. exists (tHist t0). split; [reflexivity |]. rewrite Hh.
        eapply ht_recv; reflexivity.
      - exists y. split; [assumption | constructor].
      - exists y. split; [assumption | constructor].
      - discriminate. }
    destruct (Z.eqb_spec lvl rph_EncHandshake) as [E1 | E1].
    { destruct (hHandshake h) as [t0 |] eqn:Hi; [| eapply Hsame; reflexivity].
      pose proof (tr_recv_hist t0 pn ecn ae) as Hh. destruct (tr_recv t0 pn ecn ae) as [t' ok].
      cbn [fst] in *. destruct sp as [| [| [| sp]]]; cbn [hist_of hInitial hHandshake hApp option_map] in *.
      - exists y. split; [assumption | constructor].
      - inversion Hy; subst. rewrite Hi. exists (tHist t0). split; [reflexivity |]. rewrite Hh.
        eapply ht_recv; reflexivity.
      - exists y. split; [assumption | constructor].
      - discriminate. }
    assert (Happ : forall low,
      hist_of (fst (let (a', r) := app_recv (hApp h) pn ecn t ae in
                    match r with
                    | Panic3 => (h, RPanic)
                    | _ => (mkH (hInitial h) (hHandshake h) a' low, res_of3 r)
                    end)) sp = Some y ->
      sp_of lvl = Some 2%nat ->
      exists x, hist_of h sp = Some x /\ hist_tr (Recv pn ecn lvl t ae) sp x y).
    { intros low Hy' Hsp.
      destruct (app_recv_hist (hApp h) pn ecn t ae) as [[Hp Hst] | (Hp & Hh & _)];
        destruct (app_recv (hApp h) pn ecn t ae) as [a' r]; cbn [fst snd] in *.
      - subst r. cbn [fst] in Hy'. exists y. split; [assumption | constructor].
      - destruct r; try contradiction; cbn [fst] in Hy';
          (destruct sp as [| [| [| sp]]]; cbn [hist_of hInitial hHandshake hApp option_map] in *;
           [exists y; split; [assumption | constructor]
           | exists y; split; [assumption | constructor]
           | inversion Hy'; subst; eexists; split; [reflexivity |]; rewrite Hh; eapply ht_recv; [reflexivity | assumption]
           | discriminate]). }
    destruct (Z.eqb_spec lvl rph_Enc0RTT) as [E2 | E2].
    { destruct (negb (hLowest1RTT h =? rph_InvalidPacketNumber) && (pn >? hLowest1RTT h));
        [eapply Hsame; reflexivity |].
      apply (Happ _ Hy). unfold sp_of. subst lvl. reflexivity. }
    destruct (Z.eqb_spec lvl rph_Enc1RTT) as [E3 | E3].
    { apply (Happ _ Hy). unfold sp_of. subst lvl. reflexivity. }
    eapply Hsame; reflexivity.
  - (* Ignore *)
    cbn [fst] in Hy. unfold app_ignore_below in Hy.
    destruct (p <=? aIgnoreBelow (hApp h)).
    + exists y. split; [| constructor]. destruct sp as [| [| [| sp]]]; exact Hy.
    + destruct sp as [| [| [| sp]]]; cbn [hist_of hInitial hHandshake hApp option_map aTr tHist] in *.
      * exists y. split; [assumption | constructor].
      * exists y. split; [assumption | constructor].
      * inversion Hy; subst. eexists. split; [reflexivity |]. eapply ht_del; reflexivity.
      * discriminate.
  - (* Drop *)
    unfold h_drop in Hy.
    destruct (lvl =? rph_EncInitial); [| destruct (lvl =? rph_EncHandshake); [| destruct (lvl =? rph_Enc0RTT)]];
      cbn [fst] in Hy; destruct sp as [| [| [| sp]]]; cbn [hist_of hInitial hHandshake hApp option_map] in *;
      try discriminate; exists y; (split; [assumption | constructor]).
  - (* GetAck *)
    unfold h_get_ack in Hy.
    destruct (lvl =? rph_EncInitial).
    { destruct (hInitial h) as [t0 |] eqn:Hi; cbn [fst] in Hy.
      - pose proof (tr_get_ack_hist t0) as Hh. destruct (tr_get_ack t0) as [t' a]. cbn [fst] in *.
        destruct sp as [| [| [| sp]]]; cbn [hist_of hInitial hHandshake hApp option_map] in *;
          try discriminate; try (exists y; split; [assumption | constructor]).
        rewrite Hi. cbn [option_map]. rewrite <- Hh. exists y. split; [assumption | constructor].
      - exists y. split; [assumption | constructor]. }
    destruct (lvl =? rph_EncHandshake).
    { destruct (hHandshake h) as [t0 |] eqn:Hi; cbn [fst] in Hy.
      - pose proof (tr_get_ack_hist t0) as Hh. destruct (tr_get_ack t0) as [t' a]. cbn [fst] in *.
        destruct sp as [| [| [| sp]]]; cbn [hist_of hInitial hHandshake hApp option_map] in *;
          try discriminate; try (exists y; split; [assumption | constructor]).
        rewrite Hi. cbn [option_map]. rewrite <- Hh. exists y. split; [assumption | constructor].
      - exists y. split; [assumption | constructor]. }
    destruct (lvl =? rph_Enc1RTT).
    { destruct (app_get_ack_frame (hApp h) now only) as (Hh & _).
      destruct (app_get_ack (hApp h) now only) as [a' f]. cbn [fst] in *.
      destruct sp as [| [| [| sp]]]; cbn [hist_of hInitial hHandshake hApp option_map] in *;
        try discriminate; try (exists y; split; [assumption | constructor]).
      rewrite <- Hh. exists y. split; [assumption | constructor]. }
    cbn [fst] in Hy. exists y. split; [assumption | constructor].
  - exists y. split; [assumption | constructor].
  - exists y. split; [assumption | constructor].
  - exists y. split; [assumption | constructor].
  - (* Trunc: only lastAck changes *)
    exists y. split; [| constructor]. cbn [fst] in Hy. unfold h_trunc in Hy.
    destruct (lvl =? rph_EncInitial); [| destruct (lvl =? rph_EncHandshake); [| destruct (lvl =? rph_Enc1RTT)]];
      destruct sp as [| [| [| sp]]]; cbn [hist_of hInitial hHandshake hApp option_map aTr] in *; try exact Hy;
      try (destruct (hInitial h); exact Hy); try (destruct (hHandshake h); exact Hy).
Qed.

(** * What was received, read off the executed trace *)

Definition recvd (tr : list (op * res)) (sp : nat) (q : Z) : Prop :=
  exists ecn lvl t ae r, In (Recv q ecn lvl t ae, r) tr /\ sp_of lvl = Some sp.

Definition accepted (tr : list (op * res)) (sp : nat) (q : Z) : Prop :=
  exists ecn lvl t ae, In (Recv q ecn lvl t ae, ROk) tr /\ sp_of lvl = Some sp.

Lemma recvd_app_l : forall tr tr' sp q, recvd tr sp q -> recvd (tr ++ tr') sp q.
Proof.
  intros tr tr' sp q (ecn & lvl & t & ae & r & Hin & Hsp). exists ecn, lvl, t, ae, r.
  split; [apply in_or_app; now left | assumption].
Qed.

Lemma accepted_app_l : forall tr tr' sp q, accepted tr sp q -> accepted (tr ++ tr') sp q.
Proof.
  intros tr tr' sp q (ecn & lvl & t & ae & Hin & Hsp). exists ecn, lvl, t, ae.
  split; [apply in_or_app; now left | assumption].
Qed.

(** * Invariant A: every tracked history is well-formed and contains only received numbers *)

Definition invA (tr : list (op * res)) (h : handler) : Prop :=
  forall sp x, hist_of h sp = Some x ->
    hist_ok x /\ forall q, inR q (ranges x) -> recvd tr sp q.

Lemma newHandler_hist : forall sp x, hist_of newHandler sp = Some x -> x = newHist.
Proof.
  intros sp x H. destruct sp as [| [| [| sp]]]; cbn in H; try discriminate; now inversion H.
Qed.

Lemma invA_init : invA [] newHandler.
Proof.
  intros sp x H. apply newHandler_hist in H. subst x. split; [apply newHist_ok |].
  intros q Hq. now apply inR_nil in Hq.
Qed.

Lemma invA_step : forall tr h o, invA tr h -> invA (tr ++ [(o, snd (step h o))]) (fst (step h o)).
Proof.
  intros tr h o HA sp y Hy.
  destruct (step_hist h o sp y Hy) as (x & Hx & Htr).
  destruct (HA sp x Hx) as (Hok & Hs).
  destruct Htr as [| pn ecn lvl t ae Ho Hsp | p Ho Hsp].
  - split; [assumption |]. intros q Hq. apply recvd_app_l. auto.
  - split; [now apply hist_recv_ok |]. intros q Hq.
    destruct (hist_recv_mem x pn q Hok Hq) as [Hq' | [Hq' _]].
    + apply recvd_app_l. auto.
    + subst q o. exists ecn, lvl, t, ae, (snd (step h (Recv pn ecn lvl t ae))).
      split; [apply in_or_app; right; now left | assumption].
  - split; [now apply hist_delete_below_ok |]. intros q Hq.
    apply recvd_app_l. apply Hs. now apply (hist_delete_below_mem x p q Hok).
Qed.

Lemma invA_run : forall ops, invA (trace newHandler ops) (fst (run newHandler ops)).
Proof.
  intros ops. apply (run_preserves invA invA_step ops [] newHandler invA_init).
Qed.

(** * Invariant B: the forget threshold of the application data space *)

Definition invB (tr : list (op * res)) (h : handler) : Prop :=
  let a := hApp h in
  let x := tHist (aTr a) in
  invA tr h /\
  0 <= aIgnoreBelow a /\
  (aIgnoreBelow a <= deletedBelow x \/ (deletedBelow x = rph_InvalidPacketNumber /\ aIgnoreBelow a = 0)) /\
  (forall p r, In (Ignore p, r) tr -> p <= aIgnoreBelow a) /\
  aMaxAckDelay a = rph_MaxAckDelay.

Lemma step_app : forall h o,
  let a := hApp h in
  let a' := hApp (fst (step h o)) in
  (aIgnoreBelow a' = aIgnoreBelow a /\ aMaxAckDelay a' = aMaxAckDelay a /\ (forall p, o <> Ignore p)) \/
  (exists p, o = Ignore p /\ a' = app_ignore_below a p).
Proof.
  intros h o. cbn zeta.
  assert (Hsame : forall h', hApp h' = hApp h -> (forall p, o <> Ignore p) ->
    (aIgnoreBelow (hApp h') = aIgnoreBelow (hApp h) /\
     aMaxAckDelay (hApp h') = aMaxAckDelay (hApp h) /\
     (forall p, o <> Ignore p)) \/
    (exists p, o = Ignore p /\ hApp h' = app_ignore_below (hApp h) p)).
  { intros h' E2 E3. left. rewrite E2. auto. }
  destruct o as [pn ecn lvl t ae | p | lvl | lvl now only | pn lvl | | | lvl n]; cbn [step].
  - assert (Happ : forall low,
      let hh := fst (let (a', r) := app_recv (hApp h) pn ecn t ae in
                    match r with
                    | Panic3 => (h, RPanic)
                    | _ => (mkH (hInitial h) (hHandshake h) a' low, res_of3 r)
                    end) in
      aIgnoreBelow (hApp hh) = aIgnoreBelow (hApp h) /\ aMaxAckDelay (hApp hh) = aMaxAckDelay (hApp h)).
    { intros low. cbn zeta.
      destruct (app_recv_hist (hApp h) pn ecn t ae) as [[Hp Hst] | (Hp & Hh & Hi & Hm)];
        destruct (app_recv (hApp h) pn ecn t ae) as [a' r]; cbn [fst snd] in *.
      - subst r. cbn [fst]. auto.
      - destruct r; try contradiction; cbn [fst hApp]; rewrite Hi, Hm; auto. }
    unfold h_recv.
    destruct (lvl =? rph_EncInitial).
    { destruct (hInitial h); [destruct (tr_recv t0 pn ecn ae) |]; (apply Hsame; [reflexivity | discriminate]). }
    destruct (lvl =? rph_EncHandshake).
    { destruct (hHandshake h); [destruct (tr_recv t0 pn ecn ae) |]; (apply Hsame; [reflexivity | discriminate]). }
    destruct (lvl =? rph_Enc0RTT).
    { destruct (negb (hLowest1RTT h =? rph_InvalidPacketNumber) && (pn >? hLowest1RTT h));
        [apply Hsame; [reflexivity | discriminate] |].
      left. destruct (Happ (hLowest1RTT h)) as (H1 & H2). repeat split; auto; discriminate. }
    destruct (lvl =? rph_Enc1RTT).
    { left. match goal with |- context [mkH _ _ _ ?low] => destruct (Happ low) as (H1 & H2) end.
      repeat split; auto; discriminate. }
    apply Hsame; [reflexivity | discriminate].
  - right. exists p. split; reflexivity.
  - unfold h_drop.
    destruct (lvl =? rph_EncInitial); [| destruct (lvl =? rph_EncHandshake); [| destruct (lvl =? rph_Enc0RTT)]];
      (apply Hsame; [reflexivity | discriminate]).
  - unfold h_get_ack.
    destruct (lvl =? rph_EncInitial).
    { destruct (hInitial h); [destruct (tr_get_ack t) |]; (apply Hsame; [reflexivity | discriminate]). }
    destruct (lvl =? rph_EncHandshake).
    { destruct (hHandshake h); [destruct (tr_get_ack t) |]; (apply Hsame; [reflexivity | discriminate]). }
    destruct (lvl =? rph_Enc1RTT).
    { left. destruct (app_get_ack_frame (hApp h) now only) as (Hh & Hi & Hm & _).
      destruct (app_get_ack (hApp h) now only) as [a' f]. cbn [fst hApp] in *. rewrite Hi, Hm.
      repeat split; auto; discriminate. }
    apply Hsame; [reflexivity | discriminate].
  - apply Hsame; [reflexivity | discriminate].
  - apply Hsame; [reflexivity | discriminate].
  - apply Hsame; [reflexivity | discriminate].
  - left. cbn [fst]. unfold h_trunc.
    destruct (lvl =? rph_EncInitial); [| destruct (lvl =? rph_EncHandshake); [| destruct (lvl =? rph_Enc1RTT)]];
      cbn [hApp aIgnoreBelow aMaxAckDelay aTr tr_trunc tHist]; repeat split; auto; discriminate.
Qed.

Lemma invB_init : invB [] newHandler.
Proof.
  unfold invB. split; [apply invA_init |]. cbn.
  split; [lia | split; [right; split; reflexivity | split; [intros p r [] | reflexivity]]].
Qed.

Lemma invB_step : forall tr h o, invB tr h -> invB (tr ++ [(o, snd (step h o))]) (fst (step h o)).
Proof.
  intros tr h o (HA & B1 & B2 & B3 & B4). unfold invB. cbn zeta. split; [now apply invA_step |].
  destruct (HA 2%nat _ eq_refl) as (Hok & _).
  (* how the application data history moved *)
  remember (tHist (aTr (hApp (fst (step h o))))) as y eqn:Hy.
  assert (Hyy : hist_of (fst (step h o)) 2%nat = Some y) by (subst y; reflexivity).
  destruct (step_hist h o 2%nat y Hyy) as (x & Hx & Htr).
  cbn [hist_of] in Hx. inversion Hx; subst x. clear Hx.
  destruct (step_app h o) as [(E1 & E2 & E4) | (p & Ho & E)].
  - rewrite E1, E2. split; [assumption | split; [| split; [| assumption]]].
    + destruct Htr as [| pn ecn lvl t ae Ho Hsp | p Ho Hsp].
      * exact B2.
      * pose proof (hist_recv_db_le (tHist (aTr (hApp h))) pn Hok) as Hle.
        destruct B2 as [B2 | [B2 B2']]; [left; lia |].
        destruct (Z.eq_dec (deletedBelow (fst (hist_recv (tHist (aTr (hApp h))) pn))) rph_InvalidPacketNumber) as [Ed | Ed];
          [right; split; assumption | left; unfold rph_InvalidPacketNumber in *; lia].
      * exfalso. now apply (E4 p).
    + intros p r Hin. apply in_app_or in Hin as [Hin | [Hin | []]]; [eauto |].
      inversion Hin; subst. exfalso. now apply (E4 p).
  - rewrite E. subst o. unfold app_ignore_below.
    destruct (Z.leb_spec p (aIgnoreBelow (hApp h))) as [Hle | Hgt].
    + subst y. rewrite E. unfold app_ignore_below. destruct (Z.leb_spec p (aIgnoreBelow (hApp h))); [| lia].
      split; [assumption | split; [exact B2 | split; [| assumption]]].
      intros p' r Hin. apply in_app_or in Hin as [Hin | [Hin | []]]; [eauto |].
      inversion Hin; subst. assumption.
    + subst y. rewrite E. unfold app_ignore_below. destruct (Z.leb_spec p (aIgnoreBelow (hApp h))); [lia |].
      cbn [aIgnoreBelow aTr tHist aMaxAckDelay]. unfold hist_delete_below.
      split; [lia | split; [| split; [| assumption]]].
      * destruct (Z.ltb_spec p (deletedBelow (tHist (aTr (hApp h))))); cbn [deletedBelow]; left; lia.
      * intros p' r Hin. apply in_app_or in Hin as [Hin | [Hin | []]].
        -- specialize (B3 _ _ Hin). lia.
        -- inversion Hin; subst. lia.
Qed.

Lemma invB_run : forall ops, invB (trace newHandler ops) (fst (run newHandler ops)).
Proof.
  intros ops. apply (run_preserves invB invB_step ops [] newHandler invB_init).
Qed.

(** * The ranges of a generated ACK frame *)

Lemma h_get_ack_frame : forall h lvl now only f,
  snd (h_get_ack h lvl now only) = Some f ->
  exists sp x, sp_of lvl = Some sp /\ hist_of h sp = Some x /\ aRanges f = backward x /\
               (sp = 2%nat -> lvl = rph_Enc1RTT).
Proof.
  intros h lvl now only f Hf. unfold h_get_ack in Hf. unfold sp_of.
  destruct (Z.eqb_spec lvl rph_EncInitial) as [E0 | E0].
  { destruct (hInitial h) as [t |] eqn:Hi; [| discriminate].
    unfold tr_get_ack in Hf. destruct (tHasNewAck t); cbn [negb snd] in Hf; [| discriminate].
    inversion Hf; subst f. exists 0%nat, (tHist t). cbn [hist_of]. rewrite Hi. repeat split; auto. discriminate. }
  destruct (Z.eqb_spec lvl rph_EncHandshake) as [E1 | E1].
  { destruct (hHandshake h) as [t |] eqn:Hi; [| discriminate].
    unfold tr_get_ack in Hf. destruct (tHasNewAck t); cbn [negb snd] in Hf; [| discriminate].
    inversion Hf; subst f. exists 1%nat, (tHist t). cbn [hist_of]. rewrite Hi. repeat split; auto. discriminate. }
  destruct (Z.eqb_spec lvl rph_Enc1RTT) as [E3 | E3]; [| discriminate].
  destruct (app_get_ack_frame (hApp h) now only) as (_ & _ & _ & Hr).
  destruct (app_get_ack (hApp h) now only) as [a' f']. cbn [snd] in *. subst f'.
  exists 2%nat, (tHist (aTr (hApp h))). rewrite orb_true_r. cbn [hist_of]. repeat split; auto.
Qed.

(** descending, as in an ACK frame: every range non-empty, below [hi], the next range ends at
    least two below the start of this one (disjoint and non-adjacent) *)
Fixpoint ack_ranges_ok (l : list interval) : Prop :=
  match l with
  | [] => True
  | (s, e) :: r =>
    s <= e /\ match r with [] => True | (_, e') :: _ => e' + 1 < s end /\ ack_ranges_ok r
  end.

Lemma wfd_ack_ranges_ok : forall l lo hi, wfd lo hi l -> ack_ranges_ok l.
Proof.
  induction l as [| [s e] r IH]; intros lo hi H; simpl in *; [exact I |].
  destruct H as (H1 & H2 & H3 & H4). split; [assumption | split; [| eauto]].
  destruct r as [| [s' e'] r']; [exact I |]. simpl in H4. lia.
Qed.

Lemma ack_ranges_ok_each : forall l, ack_ranges_ok l -> forallb (fun x => negb (fst x >? snd x)) l = true.
Proof.
  induction l as [| [s' e'] r' IH]; intros H; [reflexivity |].
  simpl in H. destruct H as (H1 & _ & H3). cbn [forallb fst snd]. rewrite (IH H3).
  destruct (Z.gtb_spec s' e'); [lia | reflexivity].
Qed.

Lemma ack_ranges_ok_rest : forall r s e, ack_ranges_ok ((s, e) :: r) -> validate_rest s r = true.
Proof.
  induction r as [| [s' e'] r' IH]; intros s e H; [reflexivity |].
  simpl in H. destruct H as (H1 & H2 & H3). cbn [validate_rest].
  assert (Hs' : s' <= e') by (simpl in H3; tauto).
  rewrite (IH s' e' H3).
  destruct (Z.leb_spec s s'); [lia |]. destruct (Z.leb_spec s (e' + 1)); [lia | reflexivity].
Qed.

Lemma ack_ranges_ok_validate : forall l, ack_ranges_ok l -> l <> [] -> validateAckRanges l = true.
Proof.
  intros l H Hne. destruct l as [| [s e] r]; [contradiction |]. unfold validateAckRanges.
  rewrite (ack_ranges_ok_each _ H), (ack_ranges_ok_rest _ _ _ H). reflexivity.
Qed.

(** * Invariant C: the largest accepted number stays at the top of the history *)

Lemma wfa_nonempty_inR : forall l lo hi, wfa lo hi l -> l <> [] -> exists q, inR q l.
Proof.
  intros [| [s e] r] lo hi H Hne; [contradiction |]. simpl in H. exists s. apply inR_cons. left. lia.
Qed.

Lemma hist_recv_keeps_above : forall x p q', hist_ok x ->
  (inR q' (ranges x) \/ (q' = p /\ deletedBelow x <= p)) ->
  exists q'', q' <= q'' /\ inR q'' (ranges (fst (hist_recv x p))).
Proof.
  intros x p q' Hok Hq. pose proof Hok as ((hi & Hwf) & Hlen). unfold hist_recv.
  destruct (Z.ltb_spec p (deletedBelow x)) as [Hlt | Hge]; cbn [fst].
  - destruct Hq as [Hq | [_ Hq]]; [| lia]. exists q'. split; [lia | assumption].
  - assert (Hwf' : wfa (deletedBelow x - 1) (Z.max hi (p + 2)) (ranges x)) by (eapply wfa_weaken; eauto; lia).
    destruct (addToRanges_spec p (ranges x) _ _ Hwf') as (A1 & A2 & _); try lia.
    destruct (addToRanges p (ranges x)) as [rs b]. cbn [fst snd ranges] in *.
    assert (Hin : inR q' rs) by (apply A2; tauto).
    destruct (classic_inR q' (truncate rs)) as [Ht | Ht]; [exists q'; split; [lia | assumption] |].
    destruct (truncate_dropped rs _ _ q' A1 Hin Ht) as (Hgt & _ & Habove).
    destruct (truncate_spec rs _ _ A1) as (T1 & _).
    assert (Hne : truncate rs <> []).
    { unfold truncate. destruct (Z.gtb_spec (Z.of_nat (length rs)) rph_MaxNumAckRanges); [| lia].
      intros E. apply (f_equal (@length _)) in E. rewrite skipn_length in E. simpl in E.
      pose proof MaxNumAckRanges_pos. lia. }
    destruct (wfa_nonempty_inR _ _ _ T1 Hne) as (q'' & Hq'').
    exists q''. split; [specialize (Habove _ Hq''); lia | assumption].
Qed.

Lemma hist_delete_below_db : forall x p, deletedBelow x <= deletedBelow (hist_delete_below x p).
Proof.
  intros x p. unfold hist_delete_below. destruct (Z.ltb_spec p (deletedBelow x)); cbn [deletedBelow]; lia.
Qed.

Lemma hist_delete_below_keeps : forall x p q, hist_ok x ->
  inR q (ranges x) -> deletedBelow (hist_delete_below x p) <= q -> inR q (ranges (hist_delete_below x p)).
Proof.
  intros x p q ((hi & Hwf) & Hlen) Hq. unfold hist_delete_below.
  destruct (Z.ltb_spec p (deletedBelow x)) as [Hlt | Hge]; [auto |].
  destruct (del_below_spec p (ranges x) _ hi Hwf) as (_ & D2 & _); [lia |].
  cbn [ranges deletedBelow]. intros Hp. apply D2. auto.
Qed.

(** an accepted packet really went through [hist_recv] of its space *)
Lemma step_recv_ok : forall h pn ecn lvl t ae sp y,
  snd (step h (Recv pn ecn lvl t ae)) = ROk -> sp_of lvl = Some sp ->
  hist_of (fst (step h (Recv pn ecn lvl t ae))) sp = Some y ->
  exists x, hist_of h sp = Some x /\ y = fst (hist_recv x pn) /\ snd (hist_recv x pn) = true.
Proof.
  intros h pn ecn lvl t ae sp y Hr Hsp Hy. cbn [step] in *. unfold h_recv, sp_of in *.
  destruct (Z.eqb_spec lvl rph_EncInitial) as [E0 | E0].
  { inversion Hsp; subst sp. destruct (hInitial h) as [t0 |] eqn:Hi; [| discriminate].
    pose proof (tr_recv_hist t0 pn ecn ae) as Hh. pose proof (tr_recv_flag t0 pn ecn ae) as Hf.
    destruct (tr_recv t0 pn ecn ae) as [t' ok]. cbn [fst snd hist_of hInitial option_map] in *.
    destruct ok; [| discriminate]. inversion Hy; subst y. rewrite Hi. exists (tHist t0). auto. }
  destruct (Z.eqb_spec lvl rph_EncHandshake) as [E1 | E1].
  { inversion Hsp; subst sp. destruct (hHandshake h) as [t0 |] eqn:Hi; [| cbn in Hy; rewrite Hi in Hy; discriminate].
    pose proof (tr_recv_hist t0 pn ecn ae) as Hh. pose proof (tr_recv_flag t0 pn ecn ae) as Hf.
    destruct (tr_recv t0 pn ecn ae) as [t' ok]. cbn [fst snd hist_of hHandshake option_map] in *.
    destruct ok; [| discriminate]. inversion Hy; subst y. rewrite Hi. exists (tHist t0). auto. }
  assert (Happ : forall low,
    snd (let (a', r) := app_recv (hApp h) pn ecn t ae in
         match r with
         | Panic3 => (h, RPanic)
         | _ => (mkH (hInitial h) (hHandshake h) a' low, res_of3 r)
         end) = ROk ->
    hist_of (fst (let (a', r) := app_recv (hApp h) pn ecn t ae in
         match r with
         | Panic3 => (h, RPanic)
         | _ => (mkH (hInitial h) (hHandshake h) a' low, res_of3 r)
         end)) 2%nat = Some y ->
    exists x, hist_of h 2%nat = Some x /\ y = fst (hist_recv x pn) /\ snd (hist_recv x pn) = true).
  { intros low Hr' Hy'. unfold app_recv in *.
    pose proof (tr_recv_hist (aTr (hApp h)) pn ecn ae) as Hh. pose proof (tr_recv_flag (aTr (hApp h)) pn ecn ae) as Hf.
    destruct (tr_recv (aTr (hApp h)) pn ecn ae) as [t' ok]. cbn [fst snd] in Hh, Hf.
    destruct ok; cbn [negb] in *; [| discriminate].
    exists (tHist (aTr (hApp h))). split; [reflexivity |]. split; [| now symmetry].
    destruct ae; cbn [negb] in *.
    - match type of Hr' with context [isMissing ?x pn] => destruct (isMissing x pn) as [miss |] end; [| discriminate].
      match type of Hr' with context [if ?c then Some false else ?z] => destruct (if c then Some false else z) as [q |] end;
        [| discriminate].
      cbn [fst hist_of hApp aTr] in Hy'. inversion Hy'. now symmetry.
    - cbn [fst hist_of hApp aTr] in Hy'. inversion Hy'. now symmetry. }
  destruct (Z.eqb_spec lvl rph_Enc0RTT) as [E2 | E2].
  { cbn [orb] in Hsp. inversion Hsp; subst sp.
    destruct (negb (hLowest1RTT h =? rph_InvalidPacketNumber) && (pn >? hLowest1RTT h)); [discriminate |].
    eapply Happ; eauto. }
  destruct (Z.eqb_spec lvl rph_Enc1RTT) as [E3 | E3]; [| discriminate].
  cbn [orb] in Hsp. inversion Hsp; subst sp. eapply Happ; eauto.
Qed.

Definition invC (tr : list (op * res)) (h : handler) : Prop :=
  invA tr h /\
  forall sp x q, hist_of h sp = Some x -> accepted tr sp q -> deletedBelow x <= q ->
    exists q', q <= q' /\ inR q' (ranges x).

Lemma invC_init : invC [] newHandler.
Proof.
  split; [apply invA_init |]. intros sp x q _ (ecn & lvl & t & ae & [] & _).
Qed.

Lemma invC_step : forall tr h o, invC tr h -> invC (tr ++ [(o, snd (step h o))]) (fst (step h o)).
Proof.
  intros tr h o (HA & HC). split; [now apply invA_step |].
  intros sp y q Hy Hacc Hdb.
  destruct (step_hist h o sp y Hy) as (x & Hx & Htr).
  destruct (HA sp x Hx) as (Hok & _).
  destruct Hacc as (ecn & lvl & t & ae & Hin & Hsp).
  apply in_app_or in Hin as [Hin | [Hin | []]].
  - assert (Hacc : accepted tr sp q) by (exists ecn, lvl, t, ae; auto).
    destruct Htr as [| pn' ecn' lvl' t' ae' Ho Hsp' | p Ho Hsp'].
    + now apply (HC sp x q).
    + pose proof (hist_recv_db_le x pn' Hok) as Hmono.
      destruct (HC sp x q Hx Hacc ltac:(lia)) as (q' & Hle & Hq').
      destruct (hist_recv_keeps_above x pn' q' Hok (or_introl Hq')) as (q'' & Hle' & Hq'').
      exists q''. split; [lia | assumption].
    + pose proof (hist_delete_below_db x p) as Hmono.
      destruct (HC sp x q Hx Hacc) as (q' & Hle & Hq'); [lia |].
      exists q'. split; [assumption |]. apply hist_delete_below_keeps; auto. lia.
  - inversion Hin as [[Ho Hr]]. subst o.
    destruct (step_recv_ok h q ecn lvl t ae sp y Hr Hsp Hy) as (x' & Hx' & Hy' & Hnew).
    rewrite Hx in Hx'. inversion Hx'; subst x'. subst y.
    assert (Hdbx : deletedBelow x <= q).
    { unfold hist_recv in Hnew. destruct (Z.ltb_spec q (deletedBelow x)); [discriminate | assumption]. }
    destruct (hist_recv_keeps_above x q q Hok) as (q'' & Hle' & Hq''); [right; auto |].
    exists q''. auto.
Qed.

Lemma invC_run : forall ops, invC (trace newHandler ops) (fst (run newHandler ops)).
Proof.
  intros ops. apply (run_preserves invC invC_step ops [] newHandler invC_init).
Qed.

(** the first range of [backward] dominates the whole history *)
Lemma backward_first_largest : forall x q, hist_ok x -> inR q (ranges x) ->
  exists s l rest, backward x = (s, l) :: rest /\ q <= l.
Proof.
  intros x q ((hi & Hwf) & _) Hq. unfold backward.
  destruct (wfa_le_last_end _ _ _ q Hwf Hq) as (s & e & l' & Hr & Hle). exists s, e, l'. auto.
Qed.

(** * Soundness of generated ACK frames *)

Definition pn_nonneg (ops : list op) : Prop :=
  forall pn ecn lvl t ae, In (Recv pn ecn lvl t ae) ops -> 0 <= pn.

Lemma trace_in_ops : forall h ops o r, In (o, r) (trace h ops) -> In o ops.
Proof. intros h ops o r H. unfold trace in H. now apply in_combine_l in H. Qed.

Lemma recvd_nonneg : forall ops sp q, pn_nonneg ops -> recvd (trace newHandler ops) sp q -> 0 <= q.
Proof.
  intros ops sp q Hnn (ecn & lvl & t & ae & r & Hin & _). apply trace_in_ops in Hin. eauto.
Qed.

Lemma ack_sound : forall ops lvl now only f,
  let h := fst (run newHandler ops) in
  let tr := trace newHandler ops in
  snd (h_get_ack h lvl now only) = Some f ->
  exists sp, sp_of lvl = Some sp /\
    (forall q, inR q (aRanges f) -> recvd tr sp q) /\
    ack_ranges_ok (aRanges f) /\
    Z.of_nat (length (aRanges f)) <= rph_MaxNumAckRanges /\
    (aRanges f <> [] -> validateAckRanges (aRanges f) = true) /\
    (sp = 2%nat -> pn_nonneg ops -> forall q, inR q (aRanges f) -> aIgnoreBelow (hApp h) <= q) /\
    (forall q, accepted tr sp q -> (forall x, hist_of h sp = Some x -> deletedBelow x <= q) ->
       exists s l rest, aRanges f = (s, l) :: rest /\ q <= l).
Proof.
  intros ops lvl now only f h tr Hf.
  destruct (h_get_ack_frame h lvl now only f Hf) as (sp & x & Hsp & Hx & Hr & _).
  destruct (invC_run ops) as (HA & HC). fold h tr in HA, HC.
  destruct (HA sp x Hx) as (Hok & Hs). pose proof Hok as ((hi & Hwf) & Hlen).
  pose proof (invB_run ops) as (_ & B1 & B2 & _). fold h in B1, B2.
  exists sp. split; [assumption |]. rewrite Hr. unfold backward.
  assert (Hwd : wfd (deletedBelow x - 1) hi (rev (ranges x))) by now apply wfa_wfd_rev.
  split; [| split; [| split; [| split; [| split]]]].
  - intros q Hq. apply Hs. now rewrite inR_rev in Hq.
  - eapply wfd_ack_ranges_ok; eauto.
  - now rewrite rev_length.
  - intros Hne. apply ack_ranges_ok_validate; [eapply wfd_ack_ranges_ok; eauto | assumption].
  - intros E Hnn q Hq. subst sp. cbn [hist_of] in Hx. inversion Hx; subst x.
    rewrite inR_rev in Hq. destruct (wfa_bounds _ _ _ _ Hwf Hq) as (Hlo & _).
    destruct B2 as [B2 | [B2 B2']]; [lia |].
    pose proof (recvd_nonneg ops 2%nat q Hnn (Hs q Hq)). lia.
  - intros q Hacc Hq0. pose proof (Hq0 x Hx) as Hdb.
    destruct (HC sp x q Hx Hacc Hdb) as (q' & Hle & Hq').
    destruct (backward_first_largest x q' Hok Hq') as (s & l & rest & Hb & Hl).
    exists s, l, rest. unfold backward in Hb. split; [assumption | lia].
Qed.

(** C07_forget *)
Lemma forget : forall ops p r now only f,
  pn_nonneg ops ->
  In (Ignore p, r) (trace newHandler ops) ->
  snd (h_get_ack (fst (run newHandler ops)) rph_Enc1RTT now only) = Some f ->
  forall q, inR q (aRanges f) -> p <= q.
Proof.
  intros ops p r now only f Hnn Hin Hf q Hq.
  destruct (ack_sound ops _ _ _ _ Hf) as (sp & Hsp & _ & _ & _ & _ & Hib & _).
  assert (E : sp = 2%nat) by (cbv in Hsp; now inversion Hsp).
  specialize (Hib E Hnn q Hq).
  destruct (invB_run ops) as (_ & _ & _ & B3 & _). specialize (B3 _ _ Hin). lia.
Qed.

(** handler-level C07_ranges_inv *)
Lemma handler_ranges_inv : forall ops sp x,
  hist_of (fst (run newHandler ops)) sp = Some x -> ranges_inv x.
Proof.
  intros ops sp x Hx. apply hist_ok_ranges_inv. now apply (invA_run ops sp x).
Qed.
