(** RecvPH — stable export for other units (C01's NetPkt): after the repair
    fixes/C07-trimmed-history-counts-as-received.patch (/repo 4675722) no watermark exists any more.
    Every packet number accepted earlier in a still-existing space is answered
    IsPotentiallyDuplicate = true and refused by ReceivedPacket, after every history of handler calls.

    Step-wise interface (replaces [invW] / [wstep] / [le_opt _ (W sp)]):
      [dup_inv tr h]        the invariant, over the executed trace [tr] and the handler state [h]
      [dup_inv_init]        holds initially
      [dup_inv_step]        preserved by every call: [tr ++ [(o, snd (step h o))]], [fst (step h o)]
      [dup_always_step]     its consequence on [h_is_dup]
    Run-level: [dup_always]. *)
From Coq Require Import List ZArith Bool Lia.
From V Require Import Gen.Params RecvPH.Model RecvPH.ProofsHist RecvPH.ProofsAck RecvPH.ProofsDupTrace RecvPH.ProofsGlue.
Import ListNotations.
Open Scope Z_scope.

Definition dup_inv (tr : list (op * res)) (h : handler) : Prop := invS tr h.

Lemma dup_inv_init : dup_inv [] newHandler.
Proof. split; [apply invA_init |]. intros sp x q _ (ecn & lvl & t & ae & [] & _). Qed.

Lemma dup_inv_step : forall tr h o, dup_inv tr h -> dup_inv (tr ++ [(o, snd (step h o))]) (fst (step h o)).
Proof. exact invS_step. Qed.

(** under the invariant: an accepted number of a still-existing space is a duplicate *)
Lemma dup_always_step : forall tr h sp x q lvl,
  dup_inv tr h -> hist_of h sp = Some x -> accepted tr sp q -> sp_of lvl = Some sp ->
  h_is_dup h q lvl = RB true /\ is_dup x q = true /\ snd (hist_recv x q) = false.
Proof.
  intros tr h sp x q lvl (HA & HS) Hx Hacc Hsp. destruct (HA sp x Hx) as (Hok & _).
  assert (Hd : is_dup x q = true) by (apply is_dup_spec; [assumption | now apply (HS sp x q)]).
  split; [rewrite (h_is_dup_hist h q lvl sp x Hsp Hx); now rewrite Hd |].
  split; [assumption |]. rewrite hist_recv_isNew by assumption. now rewrite Hd.
Qed.

(** For every history of handler calls: every packet number accepted earlier in a space that still
    exists is answered IsPotentiallyDuplicate = true (at every encryption level of that space) and
    would be refused by ReceivedPacket. No watermark, no "tracked history" hypothesis. *)
Theorem dup_always : forall (ops : list op) sp q x lvl,
  let h := fst (run newHandler ops) in
  accepted (trace newHandler ops) sp q ->
  hist_of h sp = Some x -> sp_of lvl = Some sp ->
  h_is_dup h q lvl = RB true /\ is_dup x q = true /\ snd (hist_recv x q) = false.
Proof.
  intros ops sp q x lvl h Hacc Hx Hsp.
  apply (dup_always_step (trace newHandler ops) h sp x q lvl); auto. apply invS_run.
Qed.

(** The application data space is never dropped: for it the statement needs no side condition. *)
Corollary dup_always_appdata : forall (ops : list op) q lvl,
  let h := fst (run newHandler ops) in
  accepted (trace newHandler ops) 2 q -> sp_of lvl = Some 2%nat ->
  h_is_dup h q lvl = RB true.
Proof.
  intros ops q lvl h Hacc Hsp.
  destruct (dup_always ops 2%nat q (tHist (aTr (hApp h))) lvl Hacc eq_refl Hsp) as (H & _). exact H.
Qed.
