(** Correspondence glue for the RecvPH unit: a case is what the Go harness logged
    (op sequence + the observables the implementation produced + the final state fields). *)
From Coq Require Import List ZArith Bool String.
From V Require Import Gen.Params Lib.Hex Lib.Corr.
From V Require Export RecvPH.Model.
Import ListNotations.
Open Scope Z_scope.

Inductive space :=
| Sp (rs : list interval) (db : Z) (e0 e1 ce : Z) (hasNew : bool) (last : option (list interval)).

Inductive fin :=
| Fin (ini hs : option space) (ap : space)
      (largestObs lorTime ignoreBelow mad : Z) (queued : bool) (cnt alarm lowest1rtt : Z).

(** what the connection did with one packet: frames handled, an error was returned,
    a packet_dropped(duplicate) event was recorded (only observable with a tracer) *)
Inductive gobs := GObs (handled err dupEvent : bool).

Inductive case :=
| HistCase (ops : list (hop * hres)) (final : list interval) (db : Z) (back : list interval)
| HandlerCase (ops : list (op * res)) (final : fin)
| ValidCase (l : list interval) (valid : bool) (acks : list (Z * bool))
| GlueCase (server tracer : bool) (pkts : list (pkt * gobs)) (dropped : bool) (final : fin).

Inductive obs :=
| HistObs (rs : list hres) (final : list interval) (db : Z) (back : list interval)
| HandlerObs (rs : list res) (final : fin)
| ValidObs (valid : bool) (acks : list (option bool))
| GlueObs (outs : list gout) (dropped : bool) (final : fin).

Definition space_of (t : tracker) : space :=
  Sp (ranges (tHist t)) (deletedBelow (tHist t)) (tECT0 t) (tECT1 t) (tECNCE t) (tHasNewAck t) (tLastAck t).

Definition fin_of (h : handler) : fin :=
  let a := hApp h in
  Fin (option_map space_of (hInitial h)) (option_map space_of (hHandshake h)) (space_of (aTr a))
      (aLargestObserved a) (aLorTime a) (aIgnoreBelow a) (aMaxAckDelay a) (aAckQueued a) (aCnt a) (aAckAlarm a)
      (hLowest1RTT h).

Definition model_obs (c : case) : obs :=
  match c with
  | HistCase ops _ _ _ =>
    let (h, rs) := hrun newHist (map fst ops) in HistObs rs (ranges h) (deletedBelow h) (backward h)
  | HandlerCase ops _ =>
    let (h, rs) := run newHandler (map fst ops) in HandlerObs rs (fin_of h)
  | GlueCase server _ pkts _ _ =>
    let (g, os) := conn_run (mkG newHandler server false) (map fst pkts) in GlueObs os (gInitDropped g) (fin_of (gH g))
  | ValidCase l _ acks => ValidObs (validateAckRanges l) (map (fun x => acksPacket l (fst x)) acks)
  end.

(** boolean equalities *)
Definition iv_eqb (a b : interval) : bool := (fst a =? fst b) && (snd a =? snd b).
Fixpoint list_eqb {A} (f : A -> A -> bool) (a b : list A) : bool :=
  match a, b with
  | [], [] => true
  | x :: a', y :: b' => f x y && list_eqb f a' b'
  | _, _ => false
  end.
Definition opt_eqb {A} (f : A -> A -> bool) (a b : option A) : bool :=
  match a, b with
  | None, None => true
  | Some x, Some y => f x y
  | _, _ => false
  end.
Definition ivs_eqb := list_eqb iv_eqb.

Definition ack_eqb (a b : ackFrame) : bool :=
  ivs_eqb (aRanges a) (aRanges b) && (aDelay a =? aDelay b) && (aECT0 a =? aECT0 b) &&
  (aECT1 a =? aECT1 b) && (aECNCE a =? aECNCE b).

Definition res_eqb (a b : res) : bool :=
  match a, b with
  | ROk, ROk | RErrDup, RErrDup | RErr0RTT, RErr0RTT | RPanic, RPanic => true
  | RB x, RB y => Bool.eqb x y
  | RAck x, RAck y => opt_eqb ack_eqb x y
  | RZ x, RZ y => x =? y
  | RPeek q c n l, RPeek q' c' n' l' => Bool.eqb q q' && (c =? c') && Bool.eqb n n' && (l =? l')
  | _, _ => false
  end.

Definition hres_eqb (a b : hres) : bool :=
  match a, b with
  | HB x, HB y => Bool.eqb x y
  | HU, HU => true
  | HZ x, HZ y => x =? y
  | _, _ => false
  end.

Definition space_eqb (a b : space) : bool :=
  match a, b with
  | Sp r d e0 e1 ce n l, Sp r' d' e0' e1' ce' n' l' =>
    ivs_eqb r r' && (d =? d') && (e0 =? e0') && (e1 =? e1') && (ce =? ce') && Bool.eqb n n' && opt_eqb ivs_eqb l l'
  end.

Definition fin_eqb (a b : fin) : bool :=
  match a, b with
  | Fin i h p lo lt ib mad q c al low, Fin i' h' p' lo' lt' ib' mad' q' c' al' low' =>
    opt_eqb space_eqb i i' && opt_eqb space_eqb h h' && space_eqb p p' && (lo =? lo') && (lt =? lt') &&
    (ib =? ib') && (mad =? mad') && Bool.eqb q q' && (c =? c') && (al =? al') && (low =? low')
  end.

Fixpoint list_all2 {A B} (f : A -> B -> bool) (a : list A) (b : list B) : bool :=
  match a, b with
  | [], [] => true
  | x :: a', y :: b' => f x y && list_all2 f a' b'
  | _, _ => false
  end.

Definition gobs_ok (tracer : bool) (o : gout) (b : gobs) : bool :=
  match b with
  | GObs handled err dupEvent =>
    match o with
    | GProcessed r => handled && Bool.eqb err (negb (res_eqb r ROk)) && negb dupEvent
    | GDropDup => negb handled && negb err && (negb tracer || dupEvent)
    | GDrop0RTT => negb handled && negb err && negb dupEvent
    | GPanic => false
    end
  end.

Definition ends_in_panic (rs : list res) : bool :=
  match rev rs with RPanic :: _ => true | _ => false end.

(** true = the model agrees with what the implementation logged. After a panic the
    final state is not compared (the implementation may have stopped half-way through the call). *)
Definition check_case (c : case) : bool :=
  match c, model_obs c with
  | HistCase ops final db back, HistObs rs f d b =>
    list_eqb hres_eqb rs (map snd ops) && ivs_eqb f final && (d =? db) && ivs_eqb b back
  | HandlerCase ops final, HandlerObs rs f =>
    list_eqb res_eqb rs (map snd ops) && (ends_in_panic rs || fin_eqb f final)
  | GlueCase _ tracer pkts dropped final, GlueObs os d f =>
    list_all2 (gobs_ok tracer) os (map snd pkts) && Bool.eqb d dropped && fin_eqb f final
  | ValidCase _ v acks, ValidObs v' acks' =>
    Bool.eqb v v' && list_eqb (opt_eqb Bool.eqb) acks' (map (fun x => Some (snd x)) acks)
  | _, _ => false
  end.
