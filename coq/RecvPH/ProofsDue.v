(** RecvPH — when an ACK becomes due (C07_ack_due). *)
From Coq Require Import List ZArith Bool Lia.
From V Require Import Gen.Params RecvPH.Model RecvPH.ProofsHist RecvPH.ProofsAck.
Import ListNotations.
Open Scope Z_scope.

Definition is_app (lvl : Z) : bool := (lvl =? rph_Enc0RTT) || (lvl =? rph_Enc1RTT).

(** Receive time of the first ack-eliciting packet accepted in the application data space
    since the last ACK frame generated for it ([None]: nothing waits for an ACK). Read off the
    executed trace only. *)
Definition pending1 (x : op * res) (acc : option Z) : option Z :=
  match x with
  | (Recv _ _ lvl t true, ROk) =>
    if is_app lvl then (match acc with None => Some t | Some _ => acc end) else acc
  | (GetAck lvl _ _, RAck (Some _)) => if lvl =? rph_Enc1RTT then None else acc
  | _ => acc
  end.

Definition pending (tr : list (op * res)) : option Z := fold_left (fun acc x => pending1 x acc) tr None.

Lemma pending_snoc : forall tr x, pending (tr ++ [x]) = pending1 x (pending tr).
Proof. intros tr x. unfold pending. now rewrite fold_left_app. Qed.

(** the flags of the application data tracker that decide when an ACK is sent *)
Definition flags (a : app) := (tHasNewAck (aTr a), aAckQueued a, aAckAlarm a, aCnt a, aMaxAckDelay a).

Lemma app_recv_due : forall a pn ecn t ae,
  let a' := fst (app_recv a pn ecn t ae) in
  let r := snd (app_recv a pn ecn t ae) in
  (r = Panic3 /\ a' = a) \/
  (r = Err3 /\ flags a' = flags a) \/
  (r = Ok3 /\ ae = false /\ flags a' = flags a) \/
  (r = Ok3 /\ ae = true /\ tHasNewAck (aTr a') = true /\ aCnt a' = aCnt a + 1 /\
   aMaxAckDelay a' = aMaxAckDelay a /\
   (aAckQueued a = true -> aAckQueued a' = true) /\
   (aAckQueued a' = true \/ aAckAlarm a' = t + aMaxAckDelay a) /\
   (rph_packetsBeforeAck <= aCnt a + 1 -> aAckQueued a' = true) /\
   (ecn = rph_ECNCE -> aAckQueued a' = true)).
Proof.
  intros a pn ecn t ae. cbn zeta. unfold app_recv.
  assert (Hfl : forall b, tHasNewAck (fst (tr_recv (aTr a) pn ecn ae)) =
                          (if snd (tr_recv (aTr a) pn ecn ae) then (if ae then true else tHasNewAck (aTr a)) else tHasNewAck (aTr a)) \/ b = true).
  { intros b. left. unfold tr_recv. destruct (hist_recv (tHist (aTr a)) pn) as [h' isNew]. destruct isNew; reflexivity. }
  specialize (Hfl false). destruct Hfl as [Hfl | Hfl]; [| discriminate].
  destruct (tr_recv (aTr a) pn ecn ae) as [t' ok]. cbn [fst snd] in Hfl.
  destruct ok; cbn [negb].
  - destruct ae; cbn [negb].
    + match goal with |- context [isMissing ?x pn] => destruct (isMissing x pn) as [miss |] end;
        [| left; split; reflexivity].
      cbn [aAckQueued aCnt aAckAlarm aMaxAckDelay].
      destruct (aAckQueued a) eqn:Hq.
      * right; right; right. cbn [fst snd aTr aCnt aMaxAckDelay aAckQueued aAckAlarm orb].
        repeat split; auto; try discriminate; try lia.
      * unfold shouldQueueACK. cbn [aCnt].
        destruct miss.
        { right; right; right. cbn [fst snd aTr aCnt aMaxAckDelay aAckQueued aAckAlarm orb]. repeat split; auto; try discriminate; try lia. }
        destruct (Z.geb_spec (aCnt a + 1) rph_packetsBeforeAck) as [Hc | Hc].
        { right; right; right. cbn [fst snd aTr aCnt aMaxAckDelay aAckQueued aAckAlarm orb]. repeat split; auto; try discriminate; try lia. }
        match goal with |- context [hasNewMissingPackets ?x] => destruct (hasNewMissingPackets x) as [[|] |] end.
        { right; right; right. cbn [fst snd aTr aCnt aMaxAckDelay aAckQueued aAckAlarm orb]. repeat split; auto; try discriminate; try lia. }
        { right; right; right. cbn [fst snd aTr aCnt aMaxAckDelay aAckQueued aAckAlarm orb].
          destruct (Z.eqb_spec ecn rph_ECNCE) as [He | He]; repeat split; auto; try discriminate; try lia; try contradiction. }
        { left; split; reflexivity. }
    + right; right; left. unfold flags. cbn [fst snd aTr aCnt aMaxAckDelay aAckQueued aAckAlarm]. rewrite Hfl. auto.
  - right; left. unfold flags. cbn [fst snd aTr aCnt aMaxAckDelay aAckQueued aAckAlarm]. rewrite Hfl. auto.
Qed.

Lemma app_get_ack_due : forall a now only,
  let a' := fst (app_get_ack a now only) in
  match snd (app_get_ack a now only) with
  | Some f => tHasNewAck (aTr a') = false /\ aAckQueued a' = false /\ aAckAlarm a' = 0 /\ aCnt a' = 0 /\
              aMaxAckDelay a' = aMaxAckDelay a
  | None => a' = a
  end.
Proof.
  intros a now only. cbn zeta. unfold app_get_ack.
  destruct (only && negb (aAckQueued a) && ((aAckAlarm a =? 0) || (aAckAlarm a >? now))); [reflexivity |].
  unfold tr_get_ack. destruct (tHasNewAck (aTr a)); cbn [negb fst snd]; [| reflexivity].
  cbn. auto.
Qed.

Lemma app_get_ack_some : forall a now only,
  tHasNewAck (aTr a) = true ->
  (only = false \/ aAckQueued a = true \/ (aAckAlarm a <> 0 /\ aAckAlarm a <= now)) ->
  exists f, snd (app_get_ack a now only) = Some f.
Proof.
  intros a now only Hn Hc. unfold app_get_ack.
  assert (Hg : only && negb (aAckQueued a) && ((aAckAlarm a =? 0) || (aAckAlarm a >? now)) = false).
  { destruct Hc as [Hc | [Hc | [Hc1 Hc2]]].
    - subst only. reflexivity.
    - rewrite Hc. cbn. now rewrite andb_false_r.
    - destruct (Z.eqb_spec (aAckAlarm a) 0); [contradiction |].
      destruct (Z.gtb_spec (aAckAlarm a) now); [lia |]. cbn. now rewrite andb_false_r. }
  rewrite Hg. unfold tr_get_ack. rewrite Hn. cbn. eauto.
Qed.

(** How one handler call relates to the application data tracker. *)
Lemma step_app_cases : forall h o,
  let a := hApp h in
  let a' := hApp (fst (step h o)) in
  let r := snd (step h o) in
  (exists pn ecn lvl t ae, o = Recv pn ecn lvl t ae /\ is_app lvl = true /\ r = ROk /\
     a' = fst (app_recv a pn ecn t ae) /\ snd (app_recv a pn ecn t ae) = Ok3) \/
  (exists now only f, o = GetAck rph_Enc1RTT now only /\ r = RAck (Some f) /\
     a' = fst (app_get_ack a now only) /\ snd (app_get_ack a now only) = Some f) \/
  (flags a' = flags a /\ forall acc, pending1 (o, r) acc = acc).
Proof.
  intros h o. cbn zeta.
  destruct o as [pn ecn lvl t ae | p | lvl | lvl now only | pn lvl | | | lvl n]; cbn [step].
  - unfold h_recv.
    assert (Happ : forall low, is_app lvl = true ->
      let s := (let (a', r) := app_recv (hApp h) pn ecn t ae in
                match r with
                | Panic3 => (h, RPanic)
                | _ => (mkH (hInitial h) (hHandshake h) a' low, res_of3 r)
                end) in
      (exists pn0 ecn0 lvl0 t0 ae0, Recv pn ecn lvl t ae = Recv pn0 ecn0 lvl0 t0 ae0 /\ is_app lvl0 = true /\ snd s = ROk /\
         hApp (fst s) = fst (app_recv (hApp h) pn0 ecn0 t0 ae0) /\ snd (app_recv (hApp h) pn0 ecn0 t0 ae0) = Ok3) \/
      (exists now only f, Recv pn ecn lvl t ae = GetAck rph_Enc1RTT now only /\ snd s = RAck (Some f) /\
         hApp (fst s) = fst (app_get_ack (hApp h) now only) /\ snd (app_get_ack (hApp h) now only) = Some f) \/
      (flags (hApp (fst s)) = flags (hApp h) /\ forall acc, pending1 (Recv pn ecn lvl t ae, snd s) acc = acc)).
    { intros low Hia. cbn zeta.
      destruct (app_recv_due (hApp h) pn ecn t ae) as [(Hr & Ha) | [(Hr & Ha) | [(Hr & Hae & Ha) | (Hr & _)]]];
        destruct (app_recv (hApp h) pn ecn t ae) as [a' r] eqn:Har; cbn [fst snd] in *; subst r.
      - right; right. cbn [fst snd]. split; [reflexivity |]. intros acc. cbn. destruct ae; reflexivity.
      - right; right. cbn [fst snd hApp res_of3]. split; [assumption |]. intros acc. cbn. destruct ae; reflexivity.
      - right; right. cbn [fst snd hApp res_of3]. split; [assumption |]. intros acc. subst ae. reflexivity.
      - left. exists pn, ecn, lvl, t, ae. cbn [fst snd hApp res_of3]. rewrite Har. auto. }
    destruct (Z.eqb_spec lvl rph_EncInitial) as [E0 | E0].
    { right; right. assert (Hia : is_app lvl = false) by (subst lvl; reflexivity).
      destruct (hInitial h); [destruct (tr_recv t0 pn ecn ae) as [t' ok] |]; cbn [fst snd hApp];
        (split; [reflexivity |]); intros acc; try (destruct ok); destruct ae; cbn [pending1]; rewrite ?Hia; reflexivity. }
    destruct (Z.eqb_spec lvl rph_EncHandshake) as [E1 | E1].
    { right; right. assert (Hia : is_app lvl = false) by (subst lvl; reflexivity).
      destruct (hHandshake h); [destruct (tr_recv t0 pn ecn ae) as [t' ok] |]; cbn [fst snd hApp];
        (split; [reflexivity |]); intros acc; try (destruct ok); destruct ae; cbn [pending1]; rewrite ?Hia; reflexivity. }
    destruct (Z.eqb_spec lvl rph_Enc0RTT) as [E2 | E2].
    { assert (Hia : is_app lvl = true) by (subst lvl; reflexivity).
      destruct (negb (hLowest1RTT h =? rph_InvalidPacketNumber) && (pn >? hLowest1RTT h)).
      - right; right. cbn [fst snd]. split; [reflexivity |]. intros acc. cbn. destruct ae; reflexivity.
      - apply (Happ _ Hia). }
    destruct (Z.eqb_spec lvl rph_Enc1RTT) as [E3 | E3].
    { assert (Hia : is_app lvl = true) by (subst lvl; reflexivity). apply (Happ _ Hia). }
    right; right. cbn [fst snd]. split; [reflexivity |]. intros acc. cbn. destruct ae; reflexivity.
  - right; right. cbn [fst snd hApp]. split; [| reflexivity].
    unfold app_ignore_below. destruct (p <=? aIgnoreBelow (hApp h)); reflexivity.
  - right; right. unfold h_drop.
    destruct (lvl =? rph_EncInitial); [| destruct (lvl =? rph_EncHandshake); [| destruct (lvl =? rph_Enc0RTT)]];
      (split; reflexivity).
  - unfold h_get_ack.
    destruct (Z.eqb_spec lvl rph_EncInitial) as [E0 | E0].
    { right; right. assert (Hl : (lvl =? rph_Enc1RTT) = false) by (subst lvl; reflexivity).
      destruct (hInitial h); [destruct (tr_get_ack t) as [t' [f |]] |]; cbn [fst snd hApp];
        (split; [reflexivity |]); intros acc; cbn [pending1]; rewrite ?Hl; reflexivity. }
    destruct (Z.eqb_spec lvl rph_EncHandshake) as [E1 | E1].
    { right; right. assert (Hl : (lvl =? rph_Enc1RTT) = false) by (subst lvl; reflexivity).
      destruct (hHandshake h); [destruct (tr_get_ack t) as [t' [f |]] |]; cbn [fst snd hApp];
        (split; [reflexivity |]); intros acc; cbn [pending1]; rewrite ?Hl; reflexivity. }
    destruct (Z.eqb_spec lvl rph_Enc1RTT) as [E3 | E3].
    { subst lvl. pose proof (app_get_ack_due (hApp h) now only) as Hd. cbn zeta in Hd.
      destruct (app_get_ack (hApp h) now only) as [a' [f |]] eqn:Hga; cbn [fst snd hApp] in *.
      - right; left. exists now, only, f. rewrite Hga. auto.
      - right; right. subst a'. split; reflexivity. }
    right; right. cbn [fst snd]. split; [reflexivity |]. intros acc. cbn [pending1].
    destruct (Z.eqb_spec lvl rph_Enc1RTT); [contradiction | reflexivity].
  - right; right. split; reflexivity.
  - right; right. split; reflexivity.
  - right; right. split; reflexivity.
  - right; right. split; [| reflexivity]. cbn [fst]. unfold h_trunc.
    destruct (lvl =? rph_EncInitial); [| destruct (lvl =? rph_EncHandshake); [| destruct (lvl =? rph_Enc1RTT)]]; reflexivity.
Qed.

(** * Invariant D *)

Definition invD (tr : list (op * res)) (h : handler) : Prop :=
  let a := hApp h in
  aMaxAckDelay a = rph_MaxAckDelay /\
  match pending tr with
  | None => tHasNewAck (aTr a) = false /\ aAckQueued a = false /\ aAckAlarm a = 0 /\ aCnt a = 0
  | Some t => tHasNewAck (aTr a) = true /\ 1 <= aCnt a /\
              (aAckQueued a = true \/ (aAckAlarm a = t + rph_MaxAckDelay /\ aCnt a = 1))
  end.

Lemma invD_init : invD [] newHandler.
Proof. unfold invD. cbn. auto. Qed.

Lemma packetsBeforeAck_is_2 : rph_packetsBeforeAck = 2.
Proof. reflexivity. Qed.

Lemma invD_step : forall tr h o, invD tr h -> invD (tr ++ [(o, snd (step h o))]) (fst (step h o)).
Proof.
  intros tr h o (Hm & HD). unfold invD. cbn zeta. rewrite pending_snoc.
  destruct (step_app_cases h o) as
    [(pn & ecn & lvl & t & ae & Ho & Hia & Hr & Ha & Hok) | [(now & only & f & Ho & Hr & Ha & Hf) | (Hfl & Hp)]].
  - rewrite Hr, Ha. subst o.
    destruct (app_recv_due (hApp h) pn ecn t ae) as [(Hr' & _) | [(Hr' & _) | [(Hr' & Hae & Hfl) | (Hr' & Hae & Hn & Hc & Hmm & Hq & Hal & H2 & _)]]];
      try (rewrite Hok in Hr'; discriminate).
    + subst ae. cbn [pending1]. unfold flags in Hfl. inversion Hfl as [[F1 F2 F3 F4 F5]].
      rewrite F1, F2, F3, F4, F5. split; assumption.
    + subst ae. cbn [pending1]. rewrite Hia. rewrite Hmm. split; [assumption |].
      destruct (pending tr) as [t0 |].
      * destruct HD as (D1 & D2 & D3). split; [assumption | split; [lia |]].
        destruct D3 as [D3 | (D3 & D4)]; [left; auto |].
        left. apply H2. rewrite packetsBeforeAck_is_2. lia.
      * destruct HD as (D1 & D2 & D3 & D4). split; [assumption | split; [lia |]].
        destruct Hal as [Hal | Hal]; [now left |]. right. rewrite Hm in Hal. split; [assumption | lia].
  - rewrite Hr, Ha. subst o. cbn [pending1]. rewrite Z.eqb_refl.
    pose proof (app_get_ack_due (hApp h) now only) as Hd. cbn zeta in Hd. rewrite Hf in Hd.
    destruct Hd as (D1 & D2 & D3 & D4 & D5). rewrite D5. auto.
  - rewrite Hp. unfold flags in Hfl. inversion Hfl as [[F1 F2 F3 F4 F5]].
    rewrite F1, F2, F3, F4, F5. split; assumption.
Qed.

Lemma invD_run : forall ops, invD (trace newHandler ops) (fst (run newHandler ops)).
Proof.
  intros ops. apply (run_preserves invD invD_step ops [] newHandler invD_init).
Qed.

(** C07_ack_due, application data space: while an accepted ack-eliciting packet is
    unacknowledged, an ACK is queued or the alarm is set to exactly [max ack delay] after the
    arrival of the FIRST such packet; the frame is handed out when asked for unconditionally,
    when queued, or once the alarm has expired. *)
Lemma ack_due : forall ops t,
  let h := fst (run newHandler ops) in
  pending (trace newHandler ops) = Some t ->
  (aAckQueued (hApp h) = true \/ aAckAlarm (hApp h) = t + rph_MaxAckDelay) /\
  (forall now only,
     only = false \/ aAckQueued (hApp h) = true \/ (0 <= t /\ t + rph_MaxAckDelay <= now) ->
     exists f, snd (h_get_ack h rph_Enc1RTT now only) = Some f).
Proof.
  intros ops t h Hp. destruct (invD_run ops) as (Hm & HD). fold h in Hm, HD. rewrite Hp in HD.
  destruct HD as (D1 & D2 & D3). split; [tauto |].
  intros now only Hc.
  assert (Hc' : only = false \/ aAckQueued (hApp h) = true \/ (aAckAlarm (hApp h) <> 0 /\ aAckAlarm (hApp h) <= now)).
  { destruct Hc as [Hc | [Hc | (Hc1 & Hc2)]]; [now left | right; now left |].
    destruct D3 as [D3 | (D3 & _)]; [right; now left |]. right; right. rewrite D3.
    unfold rph_MaxAckDelay in *. lia. }
  destruct (app_get_ack_some (hApp h) now only D1 Hc') as (f & Hf).
  exists f. unfold h_get_ack. cbn. destruct (app_get_ack (hApp h) now only). exact Hf.
Qed.

(** nothing pending: no ACK is queued, no alarm is armed *)
Lemma ack_idle : forall ops,
  let h := fst (run newHandler ops) in
  pending (trace newHandler ops) = None ->
  aAckQueued (hApp h) = false /\ aAckAlarm (hApp h) = 0.
Proof.
  intros ops h Hp. destruct (invD_run ops) as (_ & HD). fold h in HD. rewrite Hp in HD. tauto.
Qed.

(** the queueing rules, one accepted ack-eliciting packet at a time *)
Lemma ack_queued_rules : forall a pn ecn t,
  snd (app_recv a pn ecn t true) = Ok3 ->
  (rph_packetsBeforeAck <= aCnt a + 1 \/ ecn = rph_ECNCE \/ aAckQueued a = true) ->
  aAckQueued (fst (app_recv a pn ecn t true)) = true.
Proof.
  intros a pn ecn t Hok Hc.
  destruct (app_recv_due a pn ecn t true) as [(Hr & _) | [(Hr & _) | [(_ & Hae & _) | (_ & _ & _ & _ & _ & Hq & _ & H2 & Hce)]]];
    try (rewrite Hok in Hr; discriminate); try discriminate.
  destruct Hc as [Hc | [Hc | Hc]]; auto.
Qed.

(** Initial / Handshake: an accepted ack-eliciting packet makes an ACK available at once *)
Lemma ack_immediate : forall h pn ecn lvl t now only sp x,
  sp_of lvl = Some sp -> sp <> 2%nat -> hist_of h sp = Some x ->
  snd (step h (Recv pn ecn lvl t true)) = ROk ->
  exists f, snd (h_get_ack (fst (step h (Recv pn ecn lvl t true))) lvl now only) = Some f.
Proof.
  intros h pn ecn lvl t now only sp x Hsp Hne Hx Hr. cbn [step] in *. unfold h_recv, h_get_ack, sp_of in *.
  destruct (Z.eqb_spec lvl rph_EncInitial) as [E0 | E0].
  { destruct (hInitial h) as [t0 |]; [| discriminate]. unfold tr_recv in *.
    destruct (hist_recv (tHist t0) pn) as [h' isNew]. destruct isNew; cbn [negb fst snd] in *; [| discriminate].
    cbn [hInitial]. unfold tr_get_ack. cbn. eauto. }
  destruct (Z.eqb_spec lvl rph_EncHandshake) as [E1 | E1].
  { inversion Hsp; subst sp. cbn [hist_of] in Hx. destruct (hHandshake h) as [t0 |]; [| discriminate]. unfold tr_recv in *.
    destruct (hist_recv (tHist t0) pn) as [h' isNew]. destruct isNew; cbn [negb fst snd] in *; [| discriminate].
    cbn [hHandshake]. unfold tr_get_ack. cbn. eauto. }
  destruct ((lvl =? rph_Enc0RTT) || (lvl =? rph_Enc1RTT)); [| discriminate]. inversion Hsp. now subst sp.
Qed.
