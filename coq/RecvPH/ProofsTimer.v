(** RecvPH x RunLoop — the ACK alarm through the connection's timer: composition of C07_ack_due
    with C17's model of [maybeResetTimer] (imported read-only). *)
From Coq Require Import List ZArith Bool Lia.
From V Require Import Gen.Params RecvPH.Model RecvPH.ProofsHist RecvPH.ProofsAck RecvPH.ProofsDue.
From V Require RunLoop.Model RunLoop.Proofs.
Import ListNotations.
Open Scope Z_scope.

(** [connection.go maybeResetTimer] takes [receivedPacketHandler.GetAlarmTimeout()] as one of its
    deadline sources unless the connection is hard-blocked (send queue full). With the ACK alarm of
    the received-packet handler plugged into C17's model of that function:
    while an accepted ack-eliciting application-data packet is unacknowledged, either an ACK is
    already queued (the run loop proceeds to sending right after handling packets, and the packer's
    GetAckFrame(1-RTT, now, onlyIfQueued=true) returns the frame), or the timer the run loop arms is
    due no later than [t_first + MaxAckDelay]; and at every wake-up at or after that instant the
    packer's call returns the frame, whatever [onlyIfQueued] it passes. *)
Lemma ack_leaves_by_deadline : forall ops t (s : RunLoop.Model.st) pto retire loss,
  let h := fst (run newHandler ops) in
  pending (trace newHandler ops) = Some t -> 0 <= t ->
  RunLoop.Model.blocked s <> rl_blockModeHardBlocked ->
  (aAckQueued (hApp h) = true /\
     forall now only, exists f, snd (h_get_ack h rph_Enc1RTT now only) = Some f) \/
  (RunLoop.Model.maybeResetTimer s pto retire (aAckAlarm (hApp h)) loss <= t + rph_MaxAckDelay /\
     forall now only, t + rph_MaxAckDelay <= now -> exists f, snd (h_get_ack h rph_Enc1RTT now only) = Some f).
Proof.
  intros ops t s pto retire loss h Hp Ht Hb.
  destruct (ack_due ops t Hp) as (Hd & Hget). fold h in Hd, Hget.
  destruct (aAckQueued (hApp h)) eqn:Hq.
  - left. split; [reflexivity |]. intros now only. apply Hget. right; now left.
  - right. destruct Hd as [Hd | Hd]; [discriminate |]. split.
    + destruct (RunLoop.Proofs.timer_covers_every_source s pto retire (aAckAlarm (hApp h)) loss) as (_ & _ & Hc & _).
      destruct (Hc Hb) as (Hack & _). rewrite Hd in *. apply Hack. unfold rph_MaxAckDelay. lia.
    + intros now only Hn. apply Hget. right; right. split; assumption.
Qed.
