(** RecvPH — executable model of /repo/internal/ackhandler/received_packet_{history,tracker,handler}.go.
    Definitions only (no proofs), so that the correspondence check keeps running when a proof breaks.

    Conventions: packet numbers, counters and times (ns) are [Z]; an [interval] is
    [(Start, End)]; an ACK range is [(Smallest, Largest)]. The Go slice [ranges] is ascending and
    [addToRanges] / [IsPotentiallyDuplicate] / [HighestMissingUpTo] walk it from the LAST index
    down: those loops are structural recursions over [rev ranges] (suffix [_desc]).
    Deviations from the Go text, all validated by the correspondence check:
      - uint64 ECN counters and int64 time arithmetic do not wrap;
      - [lastAck] keeps only the ranges of the frame (the other fields are never read back); the
        frame GetAckFrame returns IS [lastAck] (same struct), so the packer's [ack.Truncate]
        shortens [lastAck] too: op [Trunc lvl n] (n = number of ranges Truncate kept, logged from
        the implementation; the size computation of numEncodableAckRanges is not modelled);
      - a Go panic (nil tracker, index out of range on an ACK without ranges, unknown level) is the
        result [RPanic]; the model state after a panic is the state before the call. *)
From Coq Require Import List ZArith Bool.
From V Require Import Gen.Params.
Import ListNotations.
Open Scope Z_scope.

Definition interval := (Z * Z)%type.

(** * receivedPacketHistory *)

Record hist := mkHist { ranges : list interval; deletedBelow : Z }.

Definition newHist : hist := mkHist [] rph_InvalidPacketNumber.

(** The loop of [addToRanges], [i = len-1 .. 0], over the reversed slice. The head of [l] is
    [ranges[i]], the head of its tail is [ranges[i-1]]. Falling off the end is the final
    "create a new range at the beginning" (also the [len == 0] case). *)
Fixpoint add_desc (p : Z) (l : list interval) : list interval * bool :=
  match l with
  | [] => ([(p, p)], true)
  | (s, e) :: rest =>
    if (s <=? p) && (p <=? e) then (l, false)
    else if e =? p - 1 then ((s, p) :: rest, true)
    else if s =? p + 1 then
      match rest with
      | (s', e') :: rest' =>
        if e' + 1 =? p then ((s', e) :: rest', true) (* merge two ranges *)
        else ((p, e) :: rest, true)
      | [] => ((p, e) :: rest, true)
      end
    else if p >? e then ((p, p) :: l, true)
    else let (r, b) := add_desc p rest in ((s, e) :: r, b)
  end.

Definition addToRanges (p : Z) (rs : list interval) : list interval * bool :=
  let (d, isNew) := add_desc p (rev rs) in (rev d, isNew).

(** [slices.Delete(h.ranges, 0, len-Max)] when [len > Max]. *)
Definition truncate (rs : list interval) : list interval :=
  if Z.of_nat (length rs) >? rph_MaxNumAckRanges
  then skipn (length rs - Z.to_nat rph_MaxNumAckRanges) rs
  else rs.

(** End of the highest range that the truncation drops ([h.ranges[n-1].End]); [None]: nothing dropped. *)
Definition trimmed_end (rs : list interval) : option Z :=
  match rev (firstn (length rs - Z.to_nat rph_MaxNumAckRanges) rs) with
  | [] => None
  | (_, e) :: _ => Some e
  end.

(** [ReceivedPacket] (with fixes/C07-trimmed-history-counts-as-received.patch): when the oldest
    ranges are forgotten, [deletedBelow] is raised past them, so that everything at or below what
    was forgotten counts as (potentially) received. *)
Definition hist_recv (h : hist) (p : Z) : hist * bool :=
  if p <? deletedBelow h then (h, false)
  else
    let (rs, isNew) := addToRanges p (ranges h) in
    let db := match trimmed_end rs with
              | Some e => Z.max (deletedBelow h) (e + 1)
              | None => deletedBelow h
              end in
    (mkHist (truncate rs) db, isNew).

(** The ascending loop of [DeleteBelow]: whole ranges below [p] go, a range containing [p]
    strictly inside is cut, anything else stops the loop. *)
Fixpoint del_below (p : Z) (l : list interval) : list interval :=
  match l with
  | [] => []
  | (s, e) :: rest =>
    if e <? p then del_below p rest
    else if (s <? p) && (p <=? e) then (p, e) :: rest
    else l
  end.

Definition hist_delete_below (h : hist) (p : Z) : hist :=
  if p <? deletedBelow h then h
  else mkHist (del_below p (ranges h)) p.

Fixpoint dup_desc (p : Z) (l : list interval) : bool :=
  match l with
  | [] => false
  | (s, e) :: rest =>
    if p >? e then false
    else if (p <=? e) && (s <=? p) then true
    else dup_desc p rest
  end.

Definition is_dup (h : hist) (p : Z) : bool :=
  if p <? deletedBelow h then true else dup_desc p (rev (ranges h)).

Fixpoint hm_desc (db p : Z) (l : list interval) : Z :=
  match l with
  | [] => p
  | (s, e) :: rest =>
    if (s <=? p) && (p <=? e) then
      let highest := s - 1 in
      if negb (db =? rph_InvalidPacketNumber) && (highest <? db) then rph_InvalidPacketNumber else highest
    else
      match rest with
      | (_, e') :: _ => if (p >? e') && (p <=? s) then p else hm_desc db p rest
      | [] => hm_desc db p rest
      end
  end.

Definition highest_missing_up_to (h : hist) (p : Z) : Z :=
  match rev (ranges h) with
  | [] => rph_InvalidPacketNumber
  | (_, eTop) :: _ =>
    if negb (deletedBelow h =? rph_InvalidPacketNumber) && (p <? deletedBelow h) then rph_InvalidPacketNumber
    else hm_desc (deletedBelow h) (Z.min eTop p) (rev (ranges h))
  end.

(** What [Backward] yields, as ACK ranges (Smallest := Start, Largest := End). *)
Definition backward (h : hist) : list interval := rev (ranges h).

(** * wire.AckFrame, as far as the handler touches it *)

Record ackFrame := mkAck { aRanges : list interval; aDelay : Z; aECT0 : Z; aECT1 : Z; aECNCE : Z }.

(** [LargestAcked] / [LowestAcked] index the slice: [None] = index out of range (panic). *)
Definition largestAcked (a : list interval) : option Z :=
  match a with [] => None | (_, l) :: _ => Some l end.
Definition lowestAcked (a : list interval) : option Z :=
  match rev a with [] => None | (s, _) :: _ => Some s end.

(** Go's [sort.Search(n, f)]: binary search for the smallest index in [0, n) with [f i = true]
    ([n] if none), exactly as the standard library does it ([h := int(uint(i+j) >> 1)]).
    The loop halves [j - i]; [S n] iterations are more than enough fuel. *)
Fixpoint bsearch (fuel : nat) (f : nat -> bool) (i j : nat) : nat :=
  match fuel with
  | O => i
  | S k =>
    if (i <? j)%nat then
      let h := Nat.div2 (i + j) in
      if f h then bsearch k f i h else bsearch k f (S h) j
    else i
  end.

Definition sort_search (n : nat) (f : nat -> bool) : nat := bsearch (S n) f 0 n.

(** [AcksPacket]; [None] = index out of range (panic). *)
Definition acksPacket (a : list interval) (p : Z) : option bool :=
  match lowestAcked a, largestAcked a with
  | Some lo, Some la =>
    if (p <? lo) || (p >? la) then Some false
    else
      let i := sort_search (length a)
                 (fun i => match nth_error a i with Some (s, _) => p >=? s | None => false end) in
      match nth_error a i with
      | Some (_, l) => Some (p <=? l)
      | None => None
      end
  | _, _ => None
  end.

(** Go's [AckFrame.validateAckRanges], transliterated. *)
Fixpoint validate_rest (prevSmallest : Z) (l : list interval) : bool :=
  match l with
  | [] => true
  | (s, e) :: r => negb (prevSmallest <=? s) && negb (prevSmallest <=? e + 1) && validate_rest s r
  end.

Definition validateAckRanges (l : list interval) : bool :=
  match l with
  | [] => false
  | (s, e) :: r => forallb (fun x => negb (fst x >? snd x)) l && validate_rest s r
  end.

(** * receivedPacketTracker (Initial / Handshake) *)

Record tracker := mkTr {
  tECT0 : Z; tECT1 : Z; tECNCE : Z;
  tHist : hist;
  tLastAck : option (list interval);
  tHasNewAck : bool }.

Definition newTracker : tracker := mkTr 0 0 0 newHist None false.

(** [false] = the "BUG: ReceivedPacket called for old / duplicate packet" error. *)
Definition tr_recv (t : tracker) (pn ecn : Z) (ackEliciting : bool) : tracker * bool :=
  let (h', isNew) := hist_recv (tHist t) pn in
  if negb isNew then (mkTr (tECT0 t) (tECT1 t) (tECNCE t) h' (tLastAck t) (tHasNewAck t), false)
  else
    let e0 := if ecn =? rph_ECT0 then tECT0 t + 1 else tECT0 t in
    let e1 := if ecn =? rph_ECT1 then tECT1 t + 1 else tECT1 t in
    let ce := if ecn =? rph_ECNCE then tECNCE t + 1 else tECNCE t in
    (mkTr e0 e1 ce h' (tLastAck t) (if ackEliciting then true else tHasNewAck t), true).

Definition tr_get_ack (t : tracker) : tracker * option ackFrame :=
  if negb (tHasNewAck t) then (t, None)
  else
    let rs := backward (tHist t) in
    (mkTr (tECT0 t) (tECT1 t) (tECNCE t) (tHist t) (Some rs) false,
     Some (mkAck rs 0 (tECT0 t) (tECT1 t) (tECNCE t))).

(** * appDataReceivedPacketTracker *)

Record app := mkApp {
  aTr : tracker;
  aLorTime : Z;          (* largestObservedRcvdTime *)
  aLargestObserved : Z;
  aIgnoreBelow : Z;
  aMaxAckDelay : Z;
  aAckQueued : bool;
  aCnt : Z;              (* ackElicitingPacketsReceivedSinceLastAck *)
  aAckAlarm : Z }.

Definition newApp : app := mkApp newTracker 0 0 0 rph_MaxAckDelay false 0 0.

Inductive res3 := Ok3 | Err3 | Panic3.

(** [isMissing]; [None] = panic ([LargestAcked] of an ACK without ranges). *)
Definition isMissing (a : app) (p : Z) : option bool :=
  match tLastAck (aTr a) with
  | None => Some false
  | Some la =>
    if p <? aIgnoreBelow a then Some false
    else
      match largestAcked la with
      | None => None
      | Some l =>
        if p <? l then
          match acksPacket la p with None => None | Some b => Some (negb b) end
        else Some false
      end
  end.

Definition hasNewMissingPackets (a : app) : option bool :=
  match tLastAck (aTr a) with
  | None => Some false
  | Some la =>
    if aLargestObserved a <? rph_reorderingThreshold then Some false
    else
      let hm := highest_missing_up_to (tHist (aTr a)) (aLargestObserved a - rph_reorderingThreshold) in
      if hm =? rph_InvalidPacketNumber then Some false
      else
        match largestAcked la with
        | None => None
        | Some l => if hm <? l then Some false else Some (hm >? l - rph_reorderingThreshold)
        end
  end.

Definition shouldQueueACK (a : app) (ecn : Z) (wasMissing : bool) : option bool :=
  if wasMissing then Some true
  else if aCnt a >=? rph_packetsBeforeAck then Some true
  else
    match hasNewMissingPackets a with
    | None => None
    | Some true => Some true
    | Some false => Some (ecn =? rph_ECNCE)
    end.

Definition app_recv (a : app) (pn ecn rcvTime : Z) (ackEliciting : bool) : app * res3 :=
  let (t', ok) := tr_recv (aTr a) pn ecn ackEliciting in
  if negb ok then (mkApp t' (aLorTime a) (aLargestObserved a) (aIgnoreBelow a) (aMaxAckDelay a) (aAckQueued a) (aCnt a) (aAckAlarm a), Err3)
  else
    let lo := if pn >=? aLargestObserved a then pn else aLargestObserved a in
    let lt := if pn >=? aLargestObserved a then rcvTime else aLorTime a in
    let a1 := mkApp t' lt lo (aIgnoreBelow a) (aMaxAckDelay a) (aAckQueued a) (aCnt a) (aAckAlarm a) in
    if negb ackEliciting then (a1, Ok3)
    else
      let a2 := mkApp t' lt lo (aIgnoreBelow a) (aMaxAckDelay a) (aAckQueued a) (aCnt a + 1) (aAckAlarm a) in
      match isMissing a2 pn with
      | None => (a, Panic3)
      | Some miss =>
        match (if aAckQueued a2 then Some false else shouldQueueACK a2 ecn miss) with
        | None => (a, Panic3)
        | Some q =>
          let queued := aAckQueued a2 || q in
          let alarm :=
            if queued then (if q then 0 else aAckAlarm a2)
            else rcvTime + aMaxAckDelay a2 in
          (mkApp t' lt lo (aIgnoreBelow a) (aMaxAckDelay a) queued (aCnt a + 1) alarm, Ok3)
        end
      end.

Definition app_ignore_below (a : app) (pn : Z) : app :=
  if pn <=? aIgnoreBelow a then a
  else
    let t := aTr a in
    mkApp (mkTr (tECT0 t) (tECT1 t) (tECNCE t) (hist_delete_below (tHist t) pn) (tLastAck t) (tHasNewAck t))
          (aLorTime a) (aLargestObserved a) pn (aMaxAckDelay a) (aAckQueued a) (aCnt a) (aAckAlarm a).

Definition app_get_ack (a : app) (now : Z) (onlyIfQueued : bool) : app * option ackFrame :=
  if onlyIfQueued && negb (aAckQueued a) && ((aAckAlarm a =? 0) || (aAckAlarm a >? now)) then (a, None)
  else
    match tr_get_ack (aTr a) with
    | (_, None) => (a, None)
    | (t', Some ack) =>
      (mkApp t' (aLorTime a) (aLargestObserved a) (aIgnoreBelow a) (aMaxAckDelay a) false 0 0,
       Some (mkAck (aRanges ack) (Z.max 0 (now - aLorTime a)) (aECT0 ack) (aECT1 ack) (aECNCE ack)))
    end.

(** * ReceivedPacketHandler: three packet number spaces *)

Record handler := mkH {
  hInitial : option tracker;
  hHandshake : option tracker;
  hApp : app;
  hLowest1RTT : Z }.

Definition newHandler : handler := mkH (Some newTracker) (Some newTracker) newApp rph_InvalidPacketNumber.

Inductive op :=
| Recv (pn ecn lvl rcvTime : Z) (ackEliciting : bool)
| Ignore (pn : Z)
| Drop (lvl : Z)
| GetAck (lvl now : Z) (onlyIfQueued : bool)
| IsDup (pn lvl : Z)
| Alarm
| Peek
| Trunc (lvl n : Z).

Inductive res :=
| ROk | RErrDup | RErr0RTT | RPanic
| RB (b : bool)
| RAck (a : option ackFrame)
| RZ (z : Z)
| RPeek (queued : bool) (cnt : Z) (hasNew : bool) (largestObserved : Z).

Definition res_of3 (r : res3) : res := match r with Ok3 => ROk | Err3 => RErrDup | Panic3 => RPanic end.

Definition h_recv (h : handler) (pn ecn lvl rcvTime : Z) (ackEl : bool) : handler * res :=
  if lvl =? rph_EncInitial then
    match hInitial h with
    | None => (h, RPanic) (* nil *receivedPacketTracker dereferenced *)
    | Some t => let (t', ok) := tr_recv t pn ecn ackEl in
                (mkH (Some t') (hHandshake h) (hApp h) (hLowest1RTT h), if ok then ROk else RErrDup)
    end
  else if lvl =? rph_EncHandshake then
    match hHandshake h with
    | None => (h, ROk)
    | Some t => let (t', ok) := tr_recv t pn ecn ackEl in
                (mkH (hInitial h) (Some t') (hApp h) (hLowest1RTT h), if ok then ROk else RErrDup)
    end
  else if lvl =? rph_Enc0RTT then
    if negb (hLowest1RTT h =? rph_InvalidPacketNumber) && (pn >? hLowest1RTT h) then (h, RErr0RTT)
    else
      let (a', r) := app_recv (hApp h) pn ecn rcvTime ackEl in
      match r with
      | Panic3 => (h, RPanic)
      | _ => (mkH (hInitial h) (hHandshake h) a' (hLowest1RTT h), res_of3 r)
      end
  else if lvl =? rph_Enc1RTT then
    let low := if (hLowest1RTT h =? rph_InvalidPacketNumber) || (pn <? hLowest1RTT h) then pn else hLowest1RTT h in
    let (a', r) := app_recv (hApp h) pn ecn rcvTime ackEl in
    match r with
    | Panic3 => (h, RPanic)
    | _ => (mkH (hInitial h) (hHandshake h) a' low, res_of3 r)
    end
  else (h, RPanic).

Definition h_drop (h : handler) (lvl : Z) : handler * res :=
  if lvl =? rph_EncInitial then (mkH None (hHandshake h) (hApp h) (hLowest1RTT h), ROk)
  else if lvl =? rph_EncHandshake then (mkH (hInitial h) None (hApp h) (hLowest1RTT h), ROk)
  else if lvl =? rph_Enc0RTT then (h, ROk)
  else (h, RPanic).

Definition h_get_ack (h : handler) (lvl now : Z) (only : bool) : handler * option ackFrame :=
  if lvl =? rph_EncInitial then
    match hInitial h with
    | None => (h, None)
    | Some t => let (t', a) := tr_get_ack t in (mkH (Some t') (hHandshake h) (hApp h) (hLowest1RTT h), a)
    end
  else if lvl =? rph_EncHandshake then
    match hHandshake h with
    | None => (h, None)
    | Some t => let (t', a) := tr_get_ack t in (mkH (hInitial h) (Some t') (hApp h) (hLowest1RTT h), a)
    end
  else if lvl =? rph_Enc1RTT then
    let (a', f) := app_get_ack (hApp h) now only in (mkH (hInitial h) (hHandshake h) a' (hLowest1RTT h), f)
  else (h, None).

Definition h_is_dup (h : handler) (pn lvl : Z) : res :=
  if lvl =? rph_EncInitial then
    match hInitial h with Some t => RB (is_dup (tHist t) pn) | None => RPanic end
  else if lvl =? rph_EncHandshake then
    match hHandshake h with Some t => RB (is_dup (tHist t) pn) | None => RPanic end
  else if (lvl =? rph_Enc0RTT) || (lvl =? rph_Enc1RTT) then RB (is_dup (tHist (aTr (hApp h))) pn)
  else RPanic.

(** [ack.Truncate] applied by the caller to the frame returned last for that space:
    [f.AckRanges = f.AckRanges[:n]] on the struct that is also the tracker's [lastAck]. *)
Definition tr_trunc (t : tracker) (n : Z) : tracker :=
  mkTr (tECT0 t) (tECT1 t) (tECNCE t) (tHist t) (option_map (firstn (Z.to_nat n)) (tLastAck t)) (tHasNewAck t).

Definition h_trunc (h : handler) (lvl n : Z) : handler :=
  if lvl =? rph_EncInitial then mkH (option_map (fun t => tr_trunc t n) (hInitial h)) (hHandshake h) (hApp h) (hLowest1RTT h)
  else if lvl =? rph_EncHandshake then mkH (hInitial h) (option_map (fun t => tr_trunc t n) (hHandshake h)) (hApp h) (hLowest1RTT h)
  else if lvl =? rph_Enc1RTT then
    let a := hApp h in
    mkH (hInitial h) (hHandshake h)
        (mkApp (tr_trunc (aTr a) n) (aLorTime a) (aLargestObserved a) (aIgnoreBelow a) (aMaxAckDelay a)
               (aAckQueued a) (aCnt a) (aAckAlarm a))
        (hLowest1RTT h)
  else h.

Definition step (h : handler) (o : op) : handler * res :=
  match o with
  | Recv pn ecn lvl t ae => h_recv h pn ecn lvl t ae
  | Ignore pn => (mkH (hInitial h) (hHandshake h) (app_ignore_below (hApp h) pn) (hLowest1RTT h), ROk)
  | Drop lvl => h_drop h lvl
  | GetAck lvl now only => let (h', a) := h_get_ack h lvl now only in (h', RAck a)
  | IsDup pn lvl => (h, h_is_dup h pn lvl)
  | Alarm => (h, RZ (aAckAlarm (hApp h)))
  | Peek => (h, RPeek (aAckQueued (hApp h)) (aCnt (hApp h)) (tHasNewAck (aTr (hApp h))) (aLargestObserved (hApp h)))
  | Trunc lvl n => (h_trunc h lvl n, ROk)
  end.

(** Runs an op list; stops after the first panic (the Go harness ends the case there). *)
Fixpoint run (h : handler) (ops : list op) : handler * list res :=
  match ops with
  | [] => (h, [])
  | o :: rest =>
    let (h', r) := step h o in
    match r with
    | RPanic => (h', [r])
    | _ => let (h'', rs) := run h' rest in (h'', r :: rs)
    end
  end.

(** * connection.go: the receive glue in front of the handler *)

(** One decrypted packet as the connection sees it: encryption level, number, ECN marking, receive
    time and the kinds of its frames (0 PING, 1 STREAM, 2 PADDING, 3 MAX_DATA). *)
Record pkt := mkPkt { kLvl : Z; kPn : Z; kEcn : Z; kTime : Z; kFrames : list Z }.

(** [handleFrames]: ack-eliciting iff some frame is neither ACK nor PADDING nor CONNECTION_CLOSE
    (ackhandler.IsFrameTypeAckEliciting); of the generated kinds only PADDING is not. *)
Definition frame_ack_eliciting (k : Z) : bool := negb (k =? 2).

Record gconn := mkG { gH : handler; gServer : bool; gInitDropped : bool }.

Inductive gout :=
| GProcessed (r : res)   (* frames handled, then ReceivedPacket returned r *)
| GDropDup               (* IsPotentiallyDuplicate: dropped before any frame is looked at *)
| GDrop0RTT              (* a client drops 0-RTT packets before unpacking *)
| GPanic.

(** [handleShortHeaderPacket] / [handleLongHeaderPacket] after the unpacker:
    duplicate check, (server, first Handshake packet) drop of the Initial space, frames,
    [ReceivedPacket(pn, ecn, level, rcvTime, isAckEliciting)]. *)
Definition conn_packet (g : gconn) (p : pkt) : gconn * gout :=
  if negb (gServer g) && (kLvl p =? rph_Enc0RTT) then (g, GDrop0RTT)
  else
    match h_is_dup (gH g) (kPn p) (kLvl p) with
    | RB true => (g, GDropDup)
    | RB false =>
      let dropInit := gServer g && (kLvl p =? rph_EncHandshake) && negb (gInitDropped g) in
      let h1 := if dropInit then fst (h_drop (gH g) rph_EncInitial) else gH g in
      let ae := existsb frame_ack_eliciting (kFrames p) in
      let (h2, r) := h_recv h1 (kPn p) (kEcn p) (kLvl p) (kTime p) ae in
      (mkG h2 (gServer g) (gInitDropped g || dropInit), GProcessed r)
    | _ => (g, GPanic)
    end.

Fixpoint conn_run (g : gconn) (ps : list pkt) : gconn * list gout :=
  match ps with
  | [] => (g, [])
  | p :: rest => let (g', o) := conn_packet g p in let (g'', os) := conn_run g' rest in (g'', o :: os)
  end.

(** * The history alone, as driven by the harness *)

Inductive hop := HRecv (p : Z) | HDel (p : Z) | HDup (p : Z) | HMiss (p : Z).
Inductive hres := HB (b : bool) | HU | HZ (z : Z).

Definition hstep (h : hist) (o : hop) : hist * hres :=
  match o with
  | HRecv p => let (h', b) := hist_recv h p in (h', HB b)
  | HDel p => (hist_delete_below h p, HU)
  | HDup p => (h, HB (is_dup h p))
  | HMiss p => (h, HZ (highest_missing_up_to h p))
  end.

Fixpoint hrun (h : hist) (ops : list hop) : hist * list hres :=
  match ops with
  | [] => (h, [])
  | o :: rest => let (h', r) := hstep h o in let (h'', rs) := hrun h' rest in (h'', r :: rs)
  end.
