(** RecvPH — the coverage clause as one statement over handler histories (add-only, round 6). *)
From Coq Require Import List ZArith Bool Lia.
From V Require Import Gen.Params RecvPH.Model RecvPH.ProofsHist RecvPH.ProofsAck RecvPH.ProofsDue
  RecvPH.ProofsDupTrace.
Import ListNotations.
Open Scope Z_scope.

(** The accepted ack-eliciting application-data packets since the last ACK frame generated for
    that space, read off the executed trace (newest first). [pending] of ProofsDue is the receive
    time of the oldest of them. *)
Definition pendset1 (x : op * res) (acc : list Z) : list Z :=
  match x with
  | (Recv q _ lvl _ true, ROk) => if is_app lvl then q :: acc else acc
  | (GetAck lvl _ _, RAck (Some _)) => if lvl =? rph_Enc1RTT then [] else acc
  | _ => acc
  end.

Definition pendset (tr : list (op * res)) : list Z := fold_left (fun acc x => pendset1 x acc) tr [].

Lemma pendset_snoc : forall tr x, pendset (tr ++ [x]) = pendset1 x (pendset tr).
Proof. intros tr x. unfold pendset. now rewrite fold_left_app. Qed.

Lemma is_app_sp : forall lvl, is_app lvl = true -> sp_of lvl = Some 2%nat.
Proof.
  intros lvl H. unfold is_app in H. unfold sp_of.
  destruct (Z.eqb_spec lvl rph_EncInitial) as [E | E]; [subst; discriminate |].
  destruct (Z.eqb_spec lvl rph_EncHandshake) as [E1 | E1]; [subst; discriminate |].
  now rewrite H.
Qed.

Lemma pendset_accepted : forall tr q, In q (pendset tr) -> accepted tr 2 q.
Proof.
  induction tr as [| x tr IH] using rev_ind; intros q Hq; [contradiction |].
  rewrite pendset_snoc in Hq.
  assert (Hcases : In q (pendset tr) \/
            exists ecn lvl t, x = (Recv q ecn lvl t true, ROk) /\ is_app lvl = true).
  { destruct x as [o r]. destruct o; cbn [pendset1] in Hq; try (now left).
    - destruct ackEliciting; [| now left]. destruct r; try (now left).
      destruct (is_app lvl) eqn:Hia; [| now left].
      destruct Hq as [Hq | Hq]; [subst; right; eauto | now left].
    - destruct r; try (now left). destruct a; [| now left].
      destruct (lvl =? rph_Enc1RTT); [contradiction | now left]. }
  destruct Hcases as [Hc | (ecn & lvl & t & Hx & Hia)].
  - apply accepted_app_l. auto.
  - subst x. exists ecn, lvl, t, true. split; [apply in_or_app; right; now left | now apply is_app_sp].
Qed.

Lemma pending_pendset : forall tr, pending tr = None <-> pendset tr = [].
Proof.
  induction tr as [| x tr IH] using rev_ind; [split; reflexivity |].
  rewrite pending_snoc, pendset_snoc. destruct x as [o r].
  destruct o; cbn [pending1 pendset1]; try exact IH.
  - destruct ackEliciting; [| exact IH]. destruct r; try exact IH.
    destruct (is_app lvl); [| exact IH].
    destruct (pending tr); split; discriminate.
  - destruct r; try exact IH. destruct a; [| exact IH].
    destruct (lvl =? rph_Enc1RTT); [split; reflexivity | exact IH].
Qed.

(** C07_every_packet_covered. After every history of handler calls in which an accepted
    ack-eliciting application-data packet is unacknowledged ([pending = Some t], [t] the arrival
    of the oldest such packet):
    (1) an ACK is queued, or the alarm stands at [t + MaxAckDelay];
    (2) whenever GetAckFrame(1-RTT) is asked unconditionally, or while queued, or at/after
        [t + MaxAckDelay], it returns a frame [f];
    (3) that frame lists EVERY pending packet, except those below the space's [deletedBelow]
        (forgotten by the peer's permission or pushed out by the range limit: C07_threshold_origin);
    (4) and generating it clears [pending] / [pendset]. *)
Lemma every_packet_covered : forall ops t,
  let h := fst (run newHandler ops) in
  let tr := trace newHandler ops in
  pending tr = Some t -> 0 <= t ->
  (aAckQueued (hApp h) = true \/ aAckAlarm (hApp h) = t + rph_MaxAckDelay) /\
  pendset tr <> [] /\
  forall now only,
    only = false \/ aAckQueued (hApp h) = true \/ t + rph_MaxAckDelay <= now ->
    exists f, snd (h_get_ack h rph_Enc1RTT now only) = Some f /\
      (forall q, In q (pendset tr) ->
         accepted tr 2 q /\
         (inR q (aRanges f) \/ q < deletedBelow (tHist (aTr (hApp h))))) /\
      pending (tr ++ [(GetAck rph_Enc1RTT now only, RAck (Some f))]) = None /\
      pendset (tr ++ [(GetAck rph_Enc1RTT now only, RAck (Some f))]) = [].
Proof.
  intros ops t h tr Hp Ht.
  destruct (ack_due ops t Hp) as (Hd & Hget). fold h in Hd, Hget.
  split; [exact Hd | split].
  - intros E. apply pending_pendset in E. fold tr in Hp. congruence.
  - intros now only Hc.
    destruct (Hget now only) as (f & Hf).
    { destruct Hc as [Hc | [Hc | Hc]]; [now left | right; now left | right; right; split; assumption]. }
    exists f. split; [exact Hf | split; [| split]].
    + intros q Hq. pose proof (pendset_accepted tr q Hq) as Hacc. split; [exact Hacc |].
      destruct (Z_lt_dec q (deletedBelow (tHist (aTr (hApp h))))) as [Hlt | Hge]; [now right | left].
      apply (accepted_stay_acked ops 2%nat q (tHist (aTr (hApp h))) rph_Enc1RTT now only f Hacc); auto. lia.
    + rewrite pending_snoc. cbn [pending1]. now rewrite Z.eqb_refl.
    + rewrite pendset_snoc. cbn [pendset1]. now rewrite Z.eqb_refl.
Qed.

(** * The [accepted] form of ACK soundness *)

Definition invAcc (tr : list (op * res)) (h : handler) : Prop :=
  invA tr h /\
  forall sp x q, hist_of h sp = Some x -> inR q (ranges x) -> accepted tr sp q.

Lemma invAcc_step : forall tr h o, invAcc tr h -> invAcc (tr ++ [(o, snd (step h o))]) (fst (step h o)).
Proof.
  intros tr h o (HA & HS). split; [now apply invA_step |].
  assert (Hoks : forall sp x, hist_of h sp = Some x -> hist_ok x) by (intros sp x Hx; now apply (HA sp x)).
  intros sp y q Hy Hq.
  destruct (step_hist h o sp y Hy) as (x & Hx & Htr).
  pose proof (Hoks sp x Hx) as Hok.
  destruct Htr as [| pn ecn lvl t ae Ho Hsp | p Ho Hsp].
  - apply accepted_app_l. eauto.
  - subst o. destruct (res_eq_ROk_dec (snd (step h (Recv pn ecn lvl t ae)))) as [Er | Er].
    + destruct (hist_recv_mem x pn q Hok Hq) as [Hq' | [Hq' _]].
      * apply accepted_app_l. eauto.
      * subst q. exists ecn, lvl, t, ae. split; [apply in_or_app; right; left; now rewrite Er | assumption].
    + rewrite (step_recv_notok h pn ecn lvl t ae Hoks Er sp) in Hy. rewrite Hx in Hy.
      assert (Hyx : fst (hist_recv x pn) = x) by congruence. rewrite Hyx in Hq.
      apply accepted_app_l. eauto.
  - apply accepted_app_l. apply (HS sp x q Hx). now apply (hist_delete_below_mem x p q Hok).
Qed.

Lemma invAcc_run : forall ops, invAcc (trace newHandler ops) (fst (run newHandler ops)).
Proof.
  intros ops. apply (run_preserves invAcc invAcc_step ops [] newHandler).
  split; [apply invA_init |]. intros sp x q Hx Hq. apply newHandler_hist in Hx. subst x. now apply inR_nil in Hq.
Qed.

(** every number in a generated ACK frame was ACCEPTED ([ReceivedPacket] returned nil) in that space *)
Lemma ack_sound_accepted : forall ops lvl now only f,
  let h := fst (run newHandler ops) in
  snd (h_get_ack h lvl now only) = Some f ->
  exists sp, sp_of lvl = Some sp /\ forall q, inR q (aRanges f) -> accepted (trace newHandler ops) sp q.
Proof.
  intros ops lvl now only f h Hf.
  destruct (h_get_ack_frame h lvl now only f Hf) as (sp & x & Hsp & Hx & Hr & _).
  exists sp. split; [assumption |]. intros q Hq. rewrite Hr in Hq. unfold backward in Hq. rewrite inR_rev in Hq.
  destruct (invAcc_run ops) as (_ & HS). now apply (HS sp x q).
Qed.
