(** RecvPH — connection.go's receive glue ([conn_packet]): a duplicate within tracked history
    never has its frames processed. *)
From Coq Require Import List ZArith Bool Lia.
From V Require Import Gen.Params RecvPH.Model RecvPH.ProofsHist RecvPH.ProofsAck RecvPH.ProofsDue
  RecvPH.ProofsMissing RecvPH.ProofsNonempty RecvPH.ProofsGap RecvPH.ProofsImmediate RecvPH.ProofsDupTrace.
Import ListNotations.
Open Scope Z_scope.

Lemma h_is_dup_hist : forall h pn lvl sp x,
  sp_of lvl = Some sp -> hist_of h sp = Some x -> h_is_dup h pn lvl = RB (is_dup x pn).
Proof.
  intros h pn lvl sp x Hsp Hx. unfold h_is_dup, sp_of in *.
  destruct (Z.eqb_spec lvl rph_EncInitial).
  { inversion Hsp; subst sp. cbn [hist_of] in Hx. destruct (hInitial h); inversion Hx; reflexivity. }
  destruct (Z.eqb_spec lvl rph_EncHandshake).
  { inversion Hsp; subst sp. cbn [hist_of] in Hx. destruct (hHandshake h); inversion Hx; reflexivity. }
  destruct ((lvl =? rph_Enc0RTT) || (lvl =? rph_Enc1RTT)); [| discriminate].
  inversion Hsp; subst sp. cbn [hist_of] in Hx. inversion Hx. reflexivity.
Qed.

(** After every history of handler calls: a packet whose number was accepted before in its space
    (the space still exists, the number is above the space's watermark of range-limit drops) is
    dropped by the connection before any of its frames is handled; nothing changes. *)
Lemma conn_packet_duplicate : forall ops sp q x p srv d,
  let hw := runW newHandler (fun _ => None) ops in
  accepted (trace newHandler ops) sp q ->
  hist_of (fst hw) sp = Some x -> ~ le_opt q (snd hw sp) ->
  sp_of (kLvl p) = Some sp -> kPn p = q ->
  let g := mkG (fst hw) srv d in
  fst (conn_packet g p) = g /\
  (snd (conn_packet g p) = GDropDup \/ snd (conn_packet g p) = GDrop0RTT).
Proof.
  intros ops sp q x p srv d hw Hacc Hx Hnw Hsp Hpn. cbn zeta.
  destruct (handler_duplicate_detected ops sp q x Hacc Hx Hnw) as (Hd & _).
  unfold conn_packet. cbn [gH gServer gInitDropped].
  destruct (negb srv && (kLvl p =? rph_Enc0RTT)); [split; [reflexivity | now right] |].
  rewrite (h_is_dup_hist (fst hw) (kPn p) (kLvl p) sp x Hsp Hx), Hpn, Hd. split; [reflexivity | now left].
Qed.

(** * Glue runs are handler histories *)

Definition out_ok (o : gout) : bool :=
  match o with GPanic => false | GProcessed RPanic => false | _ => true end.

Definition no_panic (rs : list res) : Prop := Forall (fun r => r <> RPanic) rs.

Lemma run_app : forall a b h,
  no_panic (snd (run h a)) ->
  run h (a ++ b) = (fst (run (fst (run h a)) b), snd (run h a) ++ snd (run (fst (run h a)) b)).
Proof.
  induction a as [| o a IH]; intros b h Hnp.
  - cbn. destruct (run h b); reflexivity.
  - cbn [List.app run] in *. destruct (step h o) as [h' r].
    destruct r; try (destruct (run h' a) as [h'' rs] eqn:Hra; cbn [snd fst] in *;
                     inversion Hnp as [| ? ? _ Hnp']; subst;
                     specialize (IH b h'); rewrite Hra in IH; cbn [fst snd] in IH; rewrite (IH Hnp');
                     reflexivity).
    cbn [snd] in Hnp. inversion Hnp as [| ? ? Hc _]. now contradiction Hc.
Qed.

Lemma run_length : forall a h, no_panic (snd (run h a)) -> length (snd (run h a)) = length a.
Proof.
  induction a as [| o a IH]; intros h Hnp; [reflexivity |].
  cbn [run] in *. destruct (step h o) as [h' r].
  destruct r; try (destruct (run h' a) as [h'' rs] eqn:Hra; cbn [snd length] in *;
                   inversion Hnp as [| ? ? _ Hnp']; subst; specialize (IH h'); rewrite Hra in IH;
                   cbn [snd] in IH; now rewrite (IH Hnp')).
  cbn [snd] in Hnp. inversion Hnp as [| ? ? Hc _]. now contradiction Hc.
Qed.

Lemma combine_app_eq : forall {A B} (a1 a2 : list A) (b1 b2 : list B), length a1 = length b1 ->
  combine (a1 ++ a2) (b1 ++ b2) = combine a1 b1 ++ combine a2 b2.
Proof.
  induction a1 as [| x a1 IH]; intros a2 b1 b2 H; destruct b1 as [| y b1]; cbn in *; try discriminate; [reflexivity |].
  f_equal. apply IH. lia.
Qed.

Lemma trace_app : forall a b h, no_panic (snd (run h a)) ->
  trace h (a ++ b) = trace h a ++ trace (fst (run h a)) b.
Proof.
  intros a b h Hnp. unfold trace. rewrite (run_app a b h Hnp). cbn [snd].
  rewrite combine_app_eq; [reflexivity | now rewrite run_length].
Qed.

(** the handler calls one packet causes *)
Definition pkt_ops (g : gconn) (p : pkt) : list op :=
  if negb (gServer g) && (kLvl p =? rph_Enc0RTT) then []
  else
    match h_is_dup (gH g) (kPn p) (kLvl p) with
    | RB false =>
      let dropInit := gServer g && (kLvl p =? rph_EncHandshake) && negb (gInitDropped g) in
      [IsDup (kPn p) (kLvl p)] ++ (if dropInit then [Drop rph_EncInitial] else []) ++
      [Recv (kPn p) (kEcn p) (kLvl p) (kTime p) (existsb frame_ack_eliciting (kFrames p))]
    | _ => [IsDup (kPn p) (kLvl p)]
    end.

Lemma conn_packet_run : forall g p,
  out_ok (snd (conn_packet g p)) = true ->
  let ops := pkt_ops g p in
  fst (run (gH g) ops) = gH (fst (conn_packet g p)) /\ no_panic (snd (run (gH g) ops)) /\
  (forall r, snd (conn_packet g p) = GProcessed r ->
     In (Recv (kPn p) (kEcn p) (kLvl p) (kTime p) (existsb frame_ack_eliciting (kFrames p)), r) (trace (gH g) ops)).
Proof.
  intros g p Hok. cbn zeta. unfold conn_packet, pkt_ops in *.
  destruct (negb (gServer g) && (kLvl p =? rph_Enc0RTT)).
  { cbn. repeat split; [constructor | discriminate]. }
  destruct (h_is_dup (gH g) (kPn p) (kLvl p)) as [| | | | b | | |] eqn:Hd; cbn [snd out_ok] in Hok; try discriminate.
  destruct b.
  - (* duplicate *)
    cbn [fst snd List.app run step]. rewrite Hd. cbn [fst snd gH].
    repeat split; [repeat constructor; discriminate | discriminate].
  - set (dropInit := gServer g && (kLvl p =? rph_EncHandshake) && negb (gInitDropped g)) in *.
    set (ae := existsb frame_ack_eliciting (kFrames p)) in *.
    destruct dropInit.
    + cbn [List.app run step]. rewrite Hd.
      assert (Hdr : h_drop (gH g) rph_EncInitial = (fst (h_drop (gH g) rph_EncInitial), ROk)) by reflexivity.
      rewrite Hdr. cbn [fst snd].
      destruct (h_recv (fst (h_drop (gH g) rph_EncInitial)) (kPn p) (kEcn p) (kLvl p) (kTime p) ae) as [h2 r] eqn:Hr.
      cbn [fst snd gH out_ok] in *.
      destruct r; try discriminate; cbn [fst snd]; unfold trace; cbn [run step]; rewrite Hd, Hdr; cbn [fst snd]; rewrite Hr;
        cbn [fst snd combine];
        (split; [reflexivity | split; [repeat constructor; discriminate |]]);
        intros r0 E; inversion E; subst; right; right; left; reflexivity.
    + cbn [List.app run step]. rewrite Hd.
      destruct (h_recv (gH g) (kPn p) (kEcn p) (kLvl p) (kTime p) ae) as [h2 r] eqn:Hr.
      cbn [fst snd gH out_ok] in *.
      destruct r; try discriminate; cbn [fst snd]; unfold trace; cbn [run step]; rewrite Hd; cbn [fst snd]; rewrite Hr;
        cbn [fst snd combine];
        (split; [reflexivity | split; [repeat constructor; discriminate |]]);
        intros r0 E; inversion E; subst; right; left; reflexivity.
Qed.

Fixpoint conn_ops (g : gconn) (ps : list pkt) : list op :=
  match ps with
  | [] => []
  | p :: rest => pkt_ops g p ++ conn_ops (fst (conn_packet g p)) rest
  end.

(** every run of the glue without a Go panic is a history of handler calls, and every packet it
    processed with a nil result is an accepted packet of that history *)
Lemma conn_run_is_run : forall ps g,
  forallb out_ok (snd (conn_run g ps)) = true ->
  let ops := conn_ops g ps in
  fst (run (gH g) ops) = gH (fst (conn_run g ps)) /\ no_panic (snd (run (gH g) ops)) /\
  (forall p, In (p, GProcessed ROk) (combine ps (snd (conn_run g ps))) ->
     In (Recv (kPn p) (kEcn p) (kLvl p) (kTime p) (existsb frame_ack_eliciting (kFrames p)), ROk) (trace (gH g) ops)).
Proof.
  induction ps as [| p ps IH]; intros g Hok; cbn zeta.
  - cbn. repeat split; [constructor | intros p []].
  - cbn [conn_run conn_ops] in *.
    destruct (conn_packet g p) as [g' o] eqn:Hcp. cbn [fst].
    destruct (conn_run g' ps) as [g'' os] eqn:Hcr. cbn [snd fst forallb combine] in *.
    apply andb_prop in Hok as [Ho Hos].
    pose proof (conn_packet_run g p) as H1. rewrite Hcp in H1. cbn [fst snd] in H1.
    destruct (H1 Ho) as (R1 & R2 & R3).
    specialize (IH g'). rewrite Hcr in IH. cbn [fst snd] in IH. destruct (IH Hos) as (I1 & I2 & I3).
    rewrite (run_app _ _ _ R2). cbn [fst snd]. rewrite R1.
    split; [exact I1 | split].
    + unfold no_panic in *. apply Forall_app. split; assumption.
    + intros p0 [Hin | Hin].
      * inversion Hin; subst. rewrite (trace_app _ _ _ R2). apply in_or_app. left. now apply R3.
      * rewrite (trace_app _ _ _ R2). apply in_or_app. right. rewrite R1. now apply I3.
Qed.

(** final form (repaired trimming): no watermark hypothesis *)
Lemma conn_packet_duplicate_always : forall ops sp q x p srv d,
  let h := fst (run newHandler ops) in
  accepted (trace newHandler ops) sp q -> hist_of h sp = Some x ->
  sp_of (kLvl p) = Some sp -> kPn p = q ->
  let g := mkG h srv d in
  fst (conn_packet g p) = g /\
  (snd (conn_packet g p) = GDropDup \/ snd (conn_packet g p) = GDrop0RTT).
Proof.
  intros ops sp q x p srv d h Hacc Hx Hsp Hpn. cbn zeta.
  destruct (handler_duplicate_always ops sp q x Hacc Hx) as (Hd & _).
  unfold conn_packet. cbn [gH gServer gInitDropped].
  destruct (negb srv && (kLvl p =? rph_Enc0RTT)); [split; [reflexivity | now right] |].
  rewrite (h_is_dup_hist h (kPn p) (kLvl p) sp x Hsp Hx), Hpn, Hd. split; [reflexivity | now left].
Qed.
