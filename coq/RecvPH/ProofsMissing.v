(** RecvPH — "an ACK is queued when a packet fills a gap that the last ACK reported":
    correctness of the binary search in [AckFrame.AcksPacket] on well-formed ranges, the meaning
    of [isMissing], and the queueing rule. *)
From Coq Require Import List ZArith Bool Lia Arith.
From V Require Import Gen.Params RecvPH.Model RecvPH.ProofsHist RecvPH.ProofsAck RecvPH.ProofsDue.
Import ListNotations.
Open Scope Z_scope.

(** * sort.Search *)

Lemma div2_between : forall i j : nat, (i < j)%nat -> (i <= Nat.div2 (i + j) < j)%nat.
Proof.
  intros i j H. rewrite Nat.div2_div.
  split.
  - apply Nat.div_le_lower_bound; lia.
  - apply Nat.div_lt_upper_bound; lia.
Qed.

Lemma bsearch_spec : forall fuel (f : nat -> bool) (n i j : nat),
  (j - i < fuel)%nat -> (i <= j)%nat -> (j <= n)%nat ->
  (forall k l, (k <= l)%nat -> (l < n)%nat -> f k = true -> f l = true) ->
  (forall k, (k < i)%nat -> f k = false) ->
  (f j = true \/ j = n) ->
  let r := bsearch fuel f i j in
  (i <= r <= j)%nat /\ (forall k, (k < r)%nat -> f k = false) /\ (f r = true \/ r = n).
Proof.
  induction fuel as [| fuel IH]; intros f n i j Hfuel Hij Hjn Hmono Hlow Hj; [lia |].
  cbn [bsearch]. destruct (Nat.ltb_spec i j) as [Hlt | Hge].
  - pose proof (div2_between i j Hlt) as Hh. set (h := Nat.div2 (i + j)) in *.
    destruct (f h) eqn:Hfh.
    + destruct (IH f n i h) as (R1 & R2 & R3); try lia; auto.
      cbn zeta in *. repeat split; auto; lia.
    + destruct (IH f n (S h) j) as (R1 & R2 & R3); try lia; auto.
      * intros k Hk. destruct (f k) eqn:Hfk; [| reflexivity].
        assert (f h = true) by (apply (Hmono k h); [lia | lia | assumption]). congruence.
      * cbn zeta in *. repeat split; auto; lia.
  - cbn zeta. assert (i = j) by lia. subst j. repeat split; auto; lia.
Qed.

(** * AcksPacket on well-formed (descending) ACK ranges *)

Lemma wfd_nth_order : forall a lo hi i j s e s' e',
  wfd lo hi a -> nth_error a i = Some (s, e) -> nth_error a j = Some (s', e') -> (i < j)%nat ->
  e' + 1 < s.
Proof.
  induction a as [| [s0 e0] r IH]; intros lo hi i j s e s' e' Hwf Hi Hj Hlt.
  - destruct i; discriminate.
  - simpl in Hwf. destruct Hwf as (H1 & H2 & H3 & H4).
    destruct j as [| j]; [lia |]. cbn [nth_error] in Hj.
    destruct i as [| i].
    + cbn [nth_error] in Hi. inversion Hi; subst s0 e0.
      assert (Hq : inR e' r).
      { exists s', e'. split; [eapply nth_error_In; eauto |].
        assert (Hin : In (s', e') r) by (eapply nth_error_In; eauto).
        clear -Hin H4. revert s H4. induction r as [| [a b] r IHr]; intros s H4; [contradiction |].
        simpl in H4. destruct H4 as (A1 & A2 & A3 & A4). destruct Hin as [Heq | Hin].
        - inversion Heq; subst. lia.
        - eapply IHr; eauto. }
      destruct (wfd_bounds _ _ _ _ H4 Hq). lia.
    + cbn [nth_error] in Hi. eapply IH; eauto. lia.
Qed.

Lemma wfd_nth_ok : forall a lo hi i s e, wfd lo hi a -> nth_error a i = Some (s, e) -> s <= e.
Proof.
  induction a as [| [s0 e0] r IH]; intros lo hi i s e Hwf Hi; [destruct i; discriminate |].
  simpl in Hwf. destruct Hwf as (H1 & H2 & H3 & H4). destruct i as [| i]; cbn [nth_error] in Hi.
  - inversion Hi; subst. assumption.
  - eapply IH; eauto.
Qed.

Lemma lowestAcked_nth : forall a lo, lowestAcked a = Some lo ->
  exists e, nth_error a (length a - 1) = Some (lo, e) /\ (0 < length a)%nat.
Proof.
  intros a lo H. unfold lowestAcked in H. destruct (rev a) as [| [s e] r] eqn:Hr; [discriminate |].
  inversion H; subst s. exists e.
  assert (Ha : a = rev r ++ [(lo, e)]) by (rewrite <- (rev_involutive a), Hr; reflexivity).
  subst a. rewrite app_length, rev_length. cbn [length]. split; [| lia].
  rewrite nth_error_app2; rewrite rev_length; [| lia].
  replace (length r + 1 - 1 - length r)%nat with 0%nat by lia. reflexivity.
Qed.

Lemma acksPacket_spec : forall a lo hi p,
  wfd lo hi a -> a <> [] -> exists b, acksPacket a p = Some b /\ (b = true <-> inR p a).
Proof.
  intros a lo hi p Hwf Hne.
  destruct a as [| [s0 l0] r0]; [contradiction |].
  match goal with |- context [acksPacket ?x p] => remember x as a eqn:Ha end.
  assert (Hla : largestAcked a = Some l0) by (subst a; reflexivity).
  assert (Hhead : nth_error a 0 = Some (s0, l0)) by (subst a; reflexivity).
  unfold acksPacket. rewrite Hla.
  destruct (lowestAcked a) as [lw |] eqn:Hlw.
  2:{ unfold lowestAcked in Hlw. destruct (rev a) as [| [s e] r] eqn:Hr; [| discriminate].
      apply (f_equal (@rev _)) in Hr. rewrite rev_involutive in Hr. contradiction. }
  destruct (lowestAcked_nth a lw Hlw) as (elw & Hnlw & Hlen).
  unfold interval in *.
  destruct (Z.ltb_spec p lw) as [Hplw | Hplw]; cbn [orb].
  { exists false. split; [reflexivity |]. split; [discriminate |]. intros (s & e & Hin & Hr).
    apply In_nth_error in Hin as (k & Hk).
    destruct (Nat.eq_dec k (length a - 1)) as [E | E].
    - subst k. rewrite Hnlw in Hk. inversion Hk; subst. lia.
    - assert (Hkl : (k < length a)%nat) by (apply nth_error_Some; congruence).
      pose proof (wfd_nth_order a lo hi k (length a - 1) s e lw elw Hwf Hk Hnlw ltac:(lia)).
      pose proof (wfd_nth_ok a lo hi _ _ _ Hwf Hnlw). lia. }
  destruct (Z.gtb_spec p l0) as [Hpl0 | Hpl0].
  { exists false. split; [reflexivity |]. split; [discriminate |]. intros (s & e & Hin & Hr).
    apply In_nth_error in Hin as (k & Hk).
    destruct k as [| k]; [rewrite Hhead in Hk; inversion Hk; subst; lia |].
    pose proof (wfd_nth_order a lo hi 0 (S k) s0 l0 s e Hwf Hhead Hk ltac:(lia)).
    pose proof (wfd_nth_ok a lo hi _ _ _ Hwf Hhead). lia. }
  set (f := fun i : nat => match nth_error a i with Some (s, _) => p >=? s | None => false end).
  assert (Hmono : forall k l, (k <= l)%nat -> (l < length a)%nat -> f k = true -> f l = true).
  { intros k l Hkl Hl Hfk. unfold f in *.
    destruct (nth_error a k) as [[sk ek] |] eqn:Hk; [| discriminate].
    destruct (nth_error a l) as [[sl el] |] eqn:Hnl; [| apply nth_error_None in Hnl; lia].
    destruct (Nat.eq_dec k l) as [E | E]; [subst l; rewrite Hk in Hnl; inversion Hnl; subst; assumption |].
    pose proof (wfd_nth_order a lo hi k l sk ek sl el Hwf Hk Hnl ltac:(lia)).
    pose proof (wfd_nth_ok a lo hi _ _ _ Hwf Hnl). destruct (Z.geb_spec p sk); [| discriminate].
    destruct (Z.geb_spec p sl); [reflexivity | lia]. }
  assert (Hlast : f (length a - 1)%nat = true).
  { unfold f. rewrite Hnlw. destruct (Z.geb_spec p lw); [reflexivity | lia]. }
  destruct (bsearch_spec (S (length a)) f (length a) 0 (length a)) as (R1 & R2 & R3);
    try lia; auto.
  fold (sort_search (length a) f) in R1, R2, R3. set (r := sort_search (length a) f) in *.
  assert (Hr : (r < length a)%nat).
  { destruct (Nat.lt_ge_cases r (length a)) as [Hlt | Hge]; [assumption |].
    assert (Hf : f (length a - 1)%nat = false) by (apply R2; lia). congruence. }
  destruct R3 as [R3 | R3]; [| lia].
  unfold f in R3. destruct (nth_error a r) as [[sr lr] |] eqn:Hnr; [| discriminate].
  destruct (Z.geb_spec p sr) as [Hpsr | Hpsr]; [| discriminate].
  exists (p <=? lr). split; [reflexivity |]. split.
  - intros Hb. apply Z.leb_le in Hb. exists sr, lr. split; [eapply nth_error_In; eauto | lia].
  - intros (s & e & Hin & Hse). apply In_nth_error in Hin as (k & Hk).
    destruct (lt_eq_lt_dec k r) as [[Hkr | Hkr] | Hkr].
    + specialize (R2 k Hkr). unfold f in R2. rewrite Hk in R2. destruct (Z.geb_spec p s); [discriminate | lia].
    + subst k. rewrite Hnr in Hk. inversion Hk; subst. apply Z.leb_le. lia.
    + pose proof (wfd_nth_order a lo hi r k sr lr s e Hwf Hnr Hk Hkr). lia.
Qed.

(** * isMissing *)

Lemma isMissing_true : forall a p la l lo hi,
  tLastAck (aTr a) = Some la -> wfd lo hi la -> largestAcked la = Some l ->
  aIgnoreBelow a <= p -> p < l -> ~ inR p la ->
  isMissing a p = Some true.
Proof.
  intros a p la l lo hi Hla Hwf Hl Hib Hpl Hn. unfold isMissing. rewrite Hla, Hl.
  destruct (Z.ltb_spec p (aIgnoreBelow a)); [lia |]. destruct (Z.ltb_spec p l); [| lia].
  assert (Hne : la <> []) by (intros E; subst la; discriminate).
  destruct (acksPacket_spec la lo hi p Hwf Hne) as (b & Hb & Hiff). rewrite Hb.
  destruct b; [exfalso; apply Hn; now apply Hiff | reflexivity].
Qed.

Lemma tr_recv_lastAck : forall t pn ecn ae, tLastAck (fst (tr_recv t pn ecn ae)) = tLastAck t.
Proof.
  intros t pn ecn ae. unfold tr_recv. destruct (hist_recv (tHist t) pn) as [h' b]. destruct b; reflexivity.
Qed.

(** the queueing rule "this packet was reported missing in the last ACK" *)
Lemma app_recv_missing : forall a pn ecn t,
  snd (app_recv a pn ecn t true) = Ok3 -> isMissing a pn = Some true ->
  aAckQueued (fst (app_recv a pn ecn t true)) = true.
Proof.
  intros a pn ecn t Hok Hm. unfold app_recv in *.
  pose proof (tr_recv_lastAck (aTr a) pn ecn true) as Hla.
  destruct (tr_recv (aTr a) pn ecn true) as [t' ok]. cbn [fst] in Hla.
  destruct ok; cbn [negb] in *; [| discriminate].
  match goal with |- context [isMissing ?x pn] => assert (Hm' : isMissing x pn = Some true) end.
  { unfold isMissing in *. cbn [aTr aIgnoreBelow]. rewrite Hla. exact Hm. }
  rewrite Hm' in *. cbn [aAckQueued] in *.
  destruct (aAckQueued a); cbn [fst snd orb aAckQueued]; [reflexivity |].
  unfold shouldQueueACK. cbn [fst aAckQueued orb]. reflexivity.
Qed.

(** * the last ACK remembered by the application data tracker is well-formed *)

Lemma wfd_firstn : forall n l lo hi, wfd lo hi l -> wfd lo hi (firstn n l).
Proof.
  induction n as [| n IH]; intros l lo hi H; [exact I |].
  destruct l as [| [s e] r]; [exact I |]. simpl in *. destruct H as (H1 & H2 & H3 & H4). auto.
Qed.

Lemma inR_firstn : forall n l q, inR q (firstn n l) -> inR q l.
Proof.
  intros n l q H. rewrite <- (firstn_skipn n l). apply inR_app. now left.
Qed.

Lemma step_lastAck : forall h o,
  tLastAck (aTr (hApp (fst (step h o)))) = tLastAck (aTr (hApp h)) \/
  tLastAck (aTr (hApp (fst (step h o)))) = Some (backward (tHist (aTr (hApp h)))) \/
  (exists n, tLastAck (aTr (hApp (fst (step h o)))) = option_map (firstn n) (tLastAck (aTr (hApp h)))).
Proof.
  intros h o.
  destruct (step_app_cases h o) as
    [(pn & ecn & lvl & t & ae & Ho & Hia & Hr & Ha & Hok) | [(now & only & f & Ho & Hr & Ha & Hf) | (Hfl & Hp)]].
  - left. rewrite Ha. unfold app_recv.
    pose proof (tr_recv_lastAck (aTr (hApp h)) pn ecn ae) as Hla.
    destruct (tr_recv (aTr (hApp h)) pn ecn ae) as [t' ok]. cbn [fst] in Hla.
    destruct ok; cbn [negb]; [| exact Hla].
    destruct ae; cbn [negb]; [| exact Hla].
    match goal with |- context [isMissing ?x pn] => destruct (isMissing x pn) end; [| reflexivity].
    match goal with |- context [if ?c then Some false else ?z] => destruct (if c then Some false else z) end;
      [exact Hla | reflexivity].
  - right; left. rewrite Ha. unfold app_get_ack in *.
    destruct (only && negb (aAckQueued (hApp h)) && ((aAckAlarm (hApp h) =? 0) || (aAckAlarm (hApp h) >? now)));
      [discriminate |].
    unfold tr_get_ack in *. destruct (tHasNewAck (aTr (hApp h))); cbn [negb fst snd] in *; [reflexivity | discriminate].
  - (* every other call leaves the tracker's lastAck alone *)
    destruct o as [pn ecn lvl t ae | p | lvl | lvl now only | pn lvl | | | lvl n]; cbn [step] in *;
      [left | left | left | left | left | left | left |].
    + unfold h_recv.
      assert (Happ : forall low,
        tLastAck (aTr (hApp (fst (let (a', r) := app_recv (hApp h) pn ecn t ae in
              match r with
              | Panic3 => (h, RPanic)
              | _ => (mkH (hInitial h) (hHandshake h) a' low, res_of3 r)
              end)))) = tLastAck (aTr (hApp h))).
      { intros low. unfold app_recv.
        pose proof (tr_recv_lastAck (aTr (hApp h)) pn ecn ae) as Hla.
        destruct (tr_recv (aTr (hApp h)) pn ecn ae) as [t' ok]. cbn [fst] in Hla.
        destruct ok; cbn [negb]; [| exact Hla].
        destruct ae; cbn [negb]; [| exact Hla].
        match goal with |- context [isMissing ?x pn] => destruct (isMissing x pn) end; [| reflexivity].
        match goal with |- context [if ?c then Some false else ?z] => destruct (if c then Some false else z) end;
          [exact Hla | reflexivity]. }
      destruct (lvl =? rph_EncInitial); [destruct (hInitial h); [destruct (tr_recv t0 pn ecn ae) |]; reflexivity |].
      destruct (lvl =? rph_EncHandshake); [destruct (hHandshake h); [destruct (tr_recv t0 pn ecn ae) |]; reflexivity |].
      destruct (lvl =? rph_Enc0RTT).
      { destruct (negb (hLowest1RTT h =? rph_InvalidPacketNumber) && (pn >? hLowest1RTT h)); [reflexivity | apply Happ]. }
      destruct (lvl =? rph_Enc1RTT); [apply Happ | reflexivity].
    + cbn [fst hApp]. unfold app_ignore_below. destruct (p <=? aIgnoreBelow (hApp h)); reflexivity.
    + unfold h_drop.
      destruct (lvl =? rph_EncInitial); [| destruct (lvl =? rph_EncHandshake); [| destruct (lvl =? rph_Enc0RTT)]]; reflexivity.
    + unfold h_get_ack in *.
      destruct (lvl =? rph_EncInitial); [destruct (hInitial h); [destruct (tr_get_ack t) |]; reflexivity |].
      destruct (lvl =? rph_EncHandshake); [destruct (hHandshake h); [destruct (tr_get_ack t) |]; reflexivity |].
      destruct (Z.eqb_spec lvl rph_Enc1RTT) as [E | E]; [| reflexivity].
      subst lvl. pose proof (app_get_ack_due (hApp h) now only) as Hd. cbn zeta in Hd.
      destruct (app_get_ack (hApp h) now only) as [a' [f |]] eqn:Hga; cbn [fst snd hApp] in *.
      * exfalso. specialize (Hp (Some 0)). cbn in Hp. discriminate.
      * now subst a'.
    + reflexivity.
    + reflexivity.
    + reflexivity.
    + cbn [fst]. unfold h_trunc.
      destruct (lvl =? rph_EncInitial); [left; reflexivity |].
      destruct (lvl =? rph_EncHandshake); [left; reflexivity |].
      destruct (lvl =? rph_Enc1RTT); [| left; reflexivity].
      right; right. exists (Z.to_nat n). reflexivity.
Qed.

Definition invL (tr : list (op * res)) (h : handler) : Prop :=
  invA tr h /\
  forall la, tLastAck (aTr (hApp h)) = Some la ->
    (exists lo hi, wfd lo hi la) /\ (forall q, inR q la -> recvd tr 2 q).

Lemma invL_init : invL [] newHandler.
Proof. split; [apply invA_init |]. intros la H. discriminate. Qed.

Lemma invL_step : forall tr h o, invL tr h -> invL (tr ++ [(o, snd (step h o))]) (fst (step h o)).
Proof.
  intros tr h o (HA & HL). split; [now apply invA_step |].
  intros la Hla. destruct (step_lastAck h o) as [E | [E | (n & E)]]; rewrite E in Hla.
  - destruct (HL la Hla) as (Hw & Hs). split; [assumption |]. intros q Hq. apply recvd_app_l. auto.
  - inversion Hla; subst la. destruct (HA 2%nat (tHist (aTr (hApp h))) eq_refl) as (((hi & Hwf) & _) & Hs).
    split.
    + exists (deletedBelow (tHist (aTr (hApp h))) - 1), hi. unfold backward. now apply wfa_wfd_rev.
    + intros q Hq. apply recvd_app_l. apply Hs. unfold backward in Hq. now rewrite inR_rev in Hq.
  - destruct (tLastAck (aTr (hApp h))) as [la0 |]; [| discriminate]. inversion Hla; subst la.
    destruct (HL la0 eq_refl) as ((lo & hi & Hwf) & Hs). split.
    + exists lo, hi. now apply wfd_firstn.
    + intros q Hq. apply recvd_app_l. apply Hs. eapply inR_firstn; eauto.
Qed.

Lemma invL_run : forall ops, invL (trace newHandler ops) (fst (run newHandler ops)).
Proof.
  intros ops. apply (run_preserves invL invL_step ops [] newHandler invL_init).
Qed.

(** (b) "when it fills a gap": after every history of calls, an accepted ack-eliciting packet
    that the last generated ACK frame reported missing (below its Largest, in none of its ranges,
    not below the ignore threshold) queues an ACK at once. *)
Lemma ack_queued_when_missing : forall ops pn ecn t la l,
  let a := hApp (fst (run newHandler ops)) in
  tLastAck (aTr a) = Some la -> largestAcked la = Some l ->
  aIgnoreBelow a <= pn -> pn < l -> ~ inR pn la ->
  snd (app_recv a pn ecn t true) = Ok3 ->
  aAckQueued (fst (app_recv a pn ecn t true)) = true.
Proof.
  intros ops pn ecn t la l a Hla Hl Hib Hpl Hn Hok.
  destruct (invL_run ops) as (_ & HL). destruct (HL la Hla) as ((lo & hi & Hwf) & _).
  apply app_recv_missing; [assumption |]. eapply isMissing_true; eauto.
Qed.
