(** RecvPH — exactly when an accepted ack-eliciting application-data packet queues an ACK at
    once: it fills a gap of the last ACK, it is the second one, it reveals a new gap above the last
    ACK, or it is ECN-CE marked. Meaning of [HighestMissingUpTo] / [hasNewMissingPackets]. *)
From Coq Require Import List ZArith Bool Lia.
From V Require Import Gen.Params RecvPH.Model RecvPH.ProofsHist RecvPH.ProofsAck RecvPH.ProofsDue
  RecvPH.ProofsMissing.
Import ListNotations.
Open Scope Z_scope.

(** * HighestMissingUpTo *)

(** [M] is the highest number at or below [p] that is in none of the ranges *)
Definition is_hm (l : list interval) (p M : Z) : Prop :=
  M <= p /\ ~ inR M l /\ forall m, M < m <= p -> inR m l.

Lemma is_hm_unique : forall l p M M', is_hm l p M -> is_hm l p M' -> M = M'.
Proof.
  intros l p M M' (A1 & A2 & A3) (B1 & B2 & B3).
  destruct (Z.lt_trichotomy M M') as [H | [H | H]]; [| assumption |].
  - exfalso. apply B2. apply A3. lia.
  - exfalso. apply A2. apply B3. lia.
Qed.

Lemma hm_desc_spec : forall l lo hi db p,
  wfd lo hi l ->
  match l with (_, e) :: _ => p <= e | [] => True end ->
  (db = rph_InvalidPacketNumber \/ db <= p) ->
  exists M, is_hm l p M /\
    hm_desc db p l = if negb (db =? rph_InvalidPacketNumber) && (M <? db) then rph_InvalidPacketNumber else M.
Proof.
  induction l as [| [s e] rest IH]; intros lo hi db p Hwf Hpe Hdb.
  - exists p. split.
    + split; [lia | split; [apply inR_nil | intros m Hm; lia]].
    + cbn [hm_desc]. destruct (Z.eqb_spec db rph_InvalidPacketNumber); cbn [negb andb]; [reflexivity |].
      destruct (Z.ltb_spec p db); [lia | reflexivity].
  - simpl in Hwf. destruct Hwf as (H1 & H2 & H3 & H4).
    pose proof (fun q => wfd_bounds rest lo s q H4) as Hrb.
    cbn [hm_desc].
    destruct (Z.leb_spec s p) as [Hsp | Hsp]; destruct (Z.leb_spec p e) as [Hpe' | Hpe']; cbn [andb]; try lia.
    + (* p inside the head range *)
      exists (s - 1). split; [| reflexivity].
      split; [lia | split].
      * intros Hq. apply inR_cons in Hq as [Hq | Hq]; [lia |]. specialize (Hrb _ Hq). lia.
      * intros m Hm. apply inR_cons. left. lia.
    + (* p below the head range *)
      assert (Hsame : forall m, m <= p -> (inR m ((s, e) :: rest) <-> inR m rest)).
      { intros m Hm. rewrite inR_cons. intuition lia. }
      destruct rest as [| [s' e'] r'].
      * exists p. split.
        -- split; [lia | split; [| intros m Hm; lia]]. intros Hq. apply inR_cons in Hq as [Hq | Hq]; [lia | now apply inR_nil in Hq].
        -- cbn [hm_desc]. destruct (Z.eqb_spec db rph_InvalidPacketNumber); cbn [negb andb]; [reflexivity |].
           destruct (Z.ltb_spec p db); [lia | reflexivity].
      * destruct (Z.gtb_spec p e') as [Hgt | Hle]; destruct (Z.leb_spec p s) as [Hps | Hps]; cbn [andb]; try lia.
        -- exists p. split.
           ++ split; [lia | split; [| intros m Hm; lia]]. intros Hq. apply Hsame in Hq; [| lia].
              simpl in H4. destruct H4 as (G1 & G2 & G3 & G4).
              apply inR_cons in Hq as [Hq | Hq]; [lia |]. destruct (wfd_bounds _ _ _ _ G4 Hq). lia.
           ++ destruct (Z.eqb_spec db rph_InvalidPacketNumber); cbn [negb andb]; [reflexivity |].
              destruct (Z.ltb_spec p db); [lia | reflexivity].
        -- destruct (IH lo s db p H4 Hle Hdb) as (M & (M1 & M2 & M3) & Hres).
           exists M. split; [| exact Hres].
           split; [assumption | split].
           ++ intros Hq. apply M2. apply Hsame; [lia | assumption].
           ++ intros m Hm. apply Hsame; [lia |]. now apply M3.
Qed.

(** the highest tracked number *)
Definition top_end (h : hist) : option Z :=
  match rev (ranges h) with [] => None | (_, e) :: _ => Some e end.

Lemma highest_missing_spec : forall h p eT,
  hist_ok h -> top_end h = Some eT ->
  (deletedBelow h = rph_InvalidPacketNumber \/ deletedBelow h <= p) ->
  exists M, is_hm (ranges h) (Z.min eT p) M /\
    highest_missing_up_to h p =
      if negb (deletedBelow h =? rph_InvalidPacketNumber) && (M <? deletedBelow h) then rph_InvalidPacketNumber else M.
Proof.
  intros h p eT ((hi & Hwf) & _) Htop Hdb. unfold highest_missing_up_to, top_end in *.
  apply wfa_wfd_rev in Hwf.
  destruct (rev (ranges h)) as [| [sT eT'] r] eqn:Hr; [discriminate |]. inversion Htop; subst eT'.
  assert (Hg : negb (deletedBelow h =? rph_InvalidPacketNumber) && (p <? deletedBelow h) = false).
  { destruct (Z.eqb_spec (deletedBelow h) rph_InvalidPacketNumber); cbn [negb andb]; [reflexivity |].
    destruct (Z.ltb_spec p (deletedBelow h)); [lia | reflexivity]. }
  rewrite Hg.
  assert (Hdb' : deletedBelow h = rph_InvalidPacketNumber \/ deletedBelow h <= Z.min eT p).
  { destruct Hdb as [Hdb | Hdb]; [now left | right]. simpl in Hwf. lia. }
  destruct (hm_desc_spec ((sT, eT) :: r) _ _ (deletedBelow h) (Z.min eT p) Hwf ltac:(simpl; lia) Hdb') as (M & (M1 & M2 & M3) & Hres).
  exists M. split; [| exact Hres].
  split; [assumption | split].
  - intros Hq. apply M2. apply inR_rev in Hq. rewrite Hr in Hq. exact Hq.
  - intros m Hm. specialize (M3 m Hm). apply inR_rev. rewrite Hr. exact M3.
Qed.

(** * The two gap-related causes *)

(** the packet was reported missing by the last ACK frame *)
Definition fills_gap (a : app) (pn : Z) : Prop :=
  exists la l, tLastAck (aTr a) = Some la /\ largestAcked la = Some l /\
    aIgnoreBelow a <= pn /\ pn < l /\ ~ inR pn la.

(** there is a number that is not tracked as received, at or above the Largest of the last ACK
    frame and the forget threshold, below the largest observed number by at least the reordering
    threshold, and not above the highest tracked number *)
Definition reveals_gap (a : app) : Prop :=
  exists la l eT m, tLastAck (aTr a) = Some la /\ largestAcked la = Some l /\
    top_end (tHist (aTr a)) = Some eT /\
    l <= m /\ m <= aLargestObserved a - rph_reorderingThreshold /\ m <= eT /\
    deletedBelow (tHist (aTr a)) <= m /\ ~ inR m (ranges (tHist (aTr a))).

Lemma isMissing_spec : forall a p la lo hi,
  tLastAck (aTr a) = Some la -> wfd lo hi la -> la <> [] ->
  (isMissing a p = Some true <-> fills_gap a p) /\ (exists b, isMissing a p = Some b).
Proof.
  intros a p la lo hi Hla Hwf Hne.
  destruct la as [| [s0 l0] r0] eqn:E; [contradiction |]. rewrite <- E in *.
  assert (Hl : largestAcked la = Some l0) by (subst la; reflexivity).
  destruct (acksPacket_spec la lo hi p Hwf Hne) as (b & Hb & Hiff).
  split.
  - split.
    + intros Hm. unfold isMissing in Hm. rewrite Hla, Hl, Hb in Hm.
      destruct (Z.ltb_spec p (aIgnoreBelow a)); [discriminate |].
      destruct (Z.ltb_spec p l0); [| discriminate].
      exists la, l0. repeat split; auto. intros Hq. apply Hiff in Hq. subst b. discriminate.
    + intros (la' & l & Hla' & Hl' & Hib & Hpl & Hn). rewrite Hla in Hla'. inversion Hla'; subst la'.
      eapply isMissing_true; eauto.
  - unfold isMissing. rewrite Hla, Hl, Hb.
    destruct (p <? aIgnoreBelow a); [eauto |]. destruct (p <? l0); eauto.
Qed.

Lemma hasNewMissing_spec : forall a la l,
  hist_ok (tHist (aTr a)) -> ranges (tHist (aTr a)) <> [] ->
  tLastAck (aTr a) = Some la -> largestAcked la = Some l -> 0 <= l ->
  rph_InvalidPacketNumber <= deletedBelow (tHist (aTr a)) ->
  (hasNewMissingPackets a = Some true <-> reveals_gap a) /\ (exists b, hasNewMissingPackets a = Some b).
Proof.
  intros a la l Hok Hne Hla Hl Hl0 Hdbge.
  assert (Htop : exists eT, top_end (tHist (aTr a)) = Some eT).
  { unfold top_end. destruct (rev (ranges (tHist (aTr a)))) as [| [s e] r] eqn:Hr; [| eauto].
    apply (f_equal (@rev _)) in Hr. rewrite rev_involutive in Hr. contradiction. }
  destruct Htop as (eT & Htop).
  unfold hasNewMissingPackets. rewrite Hla, Hl. unfold reveals_gap.
  set (x := tHist (aTr a)) in *. set (lo := aLargestObserved a) in *.
  unfold rph_reorderingThreshold in *.
  destruct (Z.ltb_spec lo 1) as [Hlo | Hlo].
  { split; [| eauto]. split; [discriminate |].
    intros (la' & l' & eT' & m & Hla' & Hl' & _ & Hlm & Hmlo & _). rewrite Hla in Hla'. inversion Hla'; subst la'.
    rewrite Hl in Hl'. inversion Hl'; subst l'. fold lo in Hmlo. lia. }
  destruct (Z_lt_dec (lo - 1) (deletedBelow x)) as [Hpdb | Hpdb].
  { (* the bound lies below the forget threshold: nothing to report *)
    assert (Hdbne : deletedBelow x <> rph_InvalidPacketNumber) by (unfold rph_InvalidPacketNumber in *; lia).
    assert (Hhm : highest_missing_up_to x (lo - 1) = rph_InvalidPacketNumber).
    { unfold highest_missing_up_to. unfold top_end in Htop. destruct (rev (ranges x)) as [| [sT e] r]; [reflexivity |].
      destruct (Z.eqb_spec (deletedBelow x) rph_InvalidPacketNumber); [contradiction |]. cbn [negb andb].
      destruct (Z.ltb_spec (lo - 1) (deletedBelow x)); [reflexivity | lia]. }
    rewrite Hhm, Z.eqb_refl. split; [| eauto]. split; [discriminate |].
    intros (la' & l' & eT' & m & _ & _ & _ & _ & Hmlo & _ & Hdbm & _). fold x lo in Hmlo, Hdbm. lia. }
  assert (Hdb : deletedBelow x = rph_InvalidPacketNumber \/ deletedBelow x <= lo - 1) by lia.
  destruct (highest_missing_spec x (lo - 1) eT Hok Htop Hdb) as (M & (M1 & M2 & M3) & Hres).
  rewrite Hres.
  destruct (Z.eqb_spec (deletedBelow x) rph_InvalidPacketNumber) as [Edb | Edb]; cbn [negb andb].
  - (* nothing deleted so far *)
    destruct (Z.eqb_spec M rph_InvalidPacketNumber) as [EM | EM].
    + split; [| eauto]. split; [discriminate |].
      intros (la' & l' & eT' & m & Hla' & Hl' & Htop' & Hlm & Hmlo & HmeT & Hdbm & Hnin).
      rewrite Hla in Hla'. inversion Hla'; subst la'. rewrite Hl in Hl'. inversion Hl'; subst l'.
      fold x in Htop', Hnin. rewrite Htop in Htop'. inversion Htop'; subst eT'. fold lo in Hmlo.
      exfalso; destruct (Z_lt_dec M m) as [Hlt | Hge]; [apply Hnin, M3; lia |]. unfold rph_InvalidPacketNumber in *. lia.
    + destruct (Z.ltb_spec M l) as [HMl | HMl].
      * split; [| eauto]. split; [discriminate |].
        intros (la' & l' & eT' & m & Hla' & Hl' & Htop' & Hlm & Hmlo & HmeT & Hdbm & Hnin).
        rewrite Hla in Hla'. inversion Hla'; subst la'. rewrite Hl in Hl'. inversion Hl'; subst l'.
        fold x in Htop', Hnin. rewrite Htop in Htop'. inversion Htop'; subst eT'. fold lo in Hmlo.
        exfalso; destruct (Z_lt_dec M m) as [Hlt | Hge]; [apply Hnin, M3; lia | lia].
      * destruct (Z.gtb_spec M (l - 1)) as [Hg | Hg]; [| lia].
        split; [| eauto]. split; [| reflexivity]. intros _.
        exists la, l, eT, M. fold x lo. repeat split; auto; try lia. rewrite Edb. unfold rph_InvalidPacketNumber. lia.
  - destruct (Z.ltb_spec M (deletedBelow x)) as [HMdb | HMdb].
    + rewrite Z.eqb_refl. split; [| eauto]. split; [discriminate |].
      intros (la' & l' & eT' & m & Hla' & Hl' & Htop' & Hlm & Hmlo & HmeT & Hdbm & Hnin).
      fold x in Htop', Hnin, Hdbm. rewrite Htop in Htop'. inversion Htop'; subst eT'. fold lo in Hmlo.
      exfalso; destruct (Z_lt_dec M m) as [Hlt | Hge]; [apply Hnin, M3; lia | lia].
    + destruct (Z.eqb_spec M rph_InvalidPacketNumber) as [EM | EM]; [unfold rph_InvalidPacketNumber in *; lia |].
      destruct (Z.ltb_spec M l) as [HMl | HMl].
      * split; [| eauto]. split; [discriminate |].
        intros (la' & l' & eT' & m & Hla' & Hl' & Htop' & Hlm & Hmlo & HmeT & Hdbm & Hnin).
        rewrite Hla in Hla'. inversion Hla'; subst la'. rewrite Hl in Hl'. inversion Hl'; subst l'.
        fold x in Htop', Hnin. rewrite Htop in Htop'. inversion Htop'; subst eT'. fold lo in Hmlo.
        exfalso; destruct (Z_lt_dec M m) as [Hlt | Hge]; [apply Hnin, M3; lia | lia].
      * destruct (Z.gtb_spec M (l - 1)) as [Hg | Hg]; [| lia].
        split; [| eauto]. split; [| reflexivity]. intros _.
        exists la, l, eT, M. fold x lo. repeat split; auto; lia.
Qed.
