(** RecvPH — lemmas about [receivedPacketHistory]: the interval list stays sorted, disjoint,
    non-adjacent and bounded; it contains exactly what was received and not forgotten. *)
From Coq Require Import List ZArith Bool Lia.
From V Require Import Gen.Params RecvPH.Model.
Import ListNotations.
Open Scope Z_scope.

(** * Well-formed interval lists *)

(** descending list (as the loops walk it): every range non-empty, strictly inside (lo, hi-1),
    each range ends at least two below the start of its predecessor. *)
Fixpoint wfd (lo hi : Z) (l : list interval) : Prop :=
  match l with
  | [] => True
  | (s, e) :: r => s <= e /\ e + 1 < hi /\ lo < s /\ wfd lo s r
  end.

(** ascending list (as stored). *)
Fixpoint wfa (lo hi : Z) (l : list interval) : Prop :=
  match l with
  | [] => True
  | (s, e) :: r => s <= e /\ lo < s /\ e + 1 < hi /\ wfa (e + 1) hi r
  end.

Definition inR (p : Z) (l : list interval) : Prop := exists s e, In (s, e) l /\ s <= p <= e.

Lemma inR_nil : forall p, ~ inR p [].
Proof. intros p (s & e & H & _). inversion H. Qed.

Lemma inR_cons : forall p s e r, inR p ((s, e) :: r) <-> (s <= p <= e) \/ inR p r.
Proof.
  intros p s e r. split.
  - intros (s' & e' & [Heq | Hin] & Hr).
    + inversion Heq; subst. now left.
    + right. now exists s', e'.
  - intros [Hr | (s' & e' & Hin & Hr)].
    + exists s, e. split; [now left | assumption].
    + exists s', e'. split; [now right | assumption].
Qed.

Lemma inR_app : forall p l1 l2, inR p (l1 ++ l2) <-> inR p l1 \/ inR p l2.
Proof.
  intros p l1 l2. split.
  - intros (s & e & Hin & Hr). apply in_app_or in Hin as [H | H]; [left | right]; now exists s, e.
  - intros [(s & e & Hin & Hr) | (s & e & Hin & Hr)]; exists s, e; (split; [apply in_or_app; auto | assumption]).
Qed.

Lemma inR_rev : forall p l, inR p (rev l) <-> inR p l.
Proof.
  intros p l. split; intros (s & e & Hin & Hr); exists s, e; (split; [| assumption]).
  - now apply in_rev.
  - now apply -> in_rev.
Qed.

Lemma wfd_weaken : forall l lo hi lo' hi', wfd lo hi l -> lo' <= lo -> hi <= hi' -> wfd lo' hi' l.
Proof.
  induction l as [| [s e] r IH]; simpl; intros lo hi lo' hi' H Hlo Hhi; [exact I |].
  destruct H as (H1 & H2 & H3 & H4). repeat split; try lia.
  apply (IH lo s); auto; lia.
Qed.

Lemma wfa_weaken : forall l lo hi lo' hi', wfa lo hi l -> lo' <= lo -> hi <= hi' -> wfa lo' hi' l.
Proof.
  induction l as [| [s e] r IH]; simpl; intros lo hi lo' hi' H Hlo Hhi; [exact I |].
  destruct H as (H1 & H2 & H3 & H4). repeat split; try lia.
  apply (IH (e + 1) hi); auto; lia.
Qed.

Lemma wfd_bounds : forall l lo hi q, wfd lo hi l -> inR q l -> lo < q /\ q + 1 < hi.
Proof.
  induction l as [| [s e] r IH]; intros lo hi q H Hq.
  - now apply inR_nil in Hq.
  - simpl in H. destruct H as (H1 & H2 & H3 & H4). apply inR_cons in Hq as [Hq | Hq]; [lia |].
    destruct (IH lo s q H4 Hq). lia.
Qed.

Lemma wfa_bounds : forall l lo hi q, wfa lo hi l -> inR q l -> lo < q /\ q + 1 < hi.
Proof.
  induction l as [| [s e] r IH]; intros lo hi q H Hq.
  - now apply inR_nil in Hq.
  - simpl in H. destruct H as (H1 & H2 & H3 & H4). apply inR_cons in Hq as [Hq | Hq]; [lia |].
    destruct (IH (e + 1) hi q H4 Hq). lia.
Qed.

Lemma wfd_app_last : forall l lo hi s e,
  wfd lo hi (l ++ [(s, e)]) <-> wfd (e + 1) hi l /\ s <= e /\ lo < s /\ e + 1 < hi.
Proof.
  induction l as [| [s1 e1] r IH]; intros lo hi s e; simpl.
  - intuition lia.
  - rewrite (IH lo s1 s e). intuition lia.
Qed.

Lemma wfa_wfd_rev : forall l lo hi, wfa lo hi l <-> wfd lo hi (rev l).
Proof.
  induction l as [| [s e] r IH]; intros lo hi; simpl.
  - tauto.
  - rewrite wfd_app_last, <- IH. intuition lia.
Qed.

Lemma wfd_wfa_rev : forall l lo hi, wfd lo hi l <-> wfa lo hi (rev l).
Proof. intros l lo hi. rewrite wfa_wfd_rev, rev_involutive. tauto. Qed.

(** elements of an ascending list are separated: everything in a prefix lies at least two
    below everything in the suffix *)
Lemma wfa_app_sep : forall l1 l2 lo hi q1 q2,
  wfa lo hi (l1 ++ l2) -> inR q1 l1 -> inR q2 l2 -> q1 + 1 < q2.
Proof.
  induction l1 as [| [s e] r IH]; intros l2 lo hi q1 q2 H H1 H2.
  - now apply inR_nil in H1.
  - simpl in H. destruct H as (Ha & Hb & Hc & Hd). apply inR_cons in H1 as [H1 | H1].
    + assert (Hq : inR q2 (r ++ l2)) by (apply inR_app; now right).
      destruct (wfa_bounds _ _ _ _ Hd Hq). lia.
    + eapply IH; eauto.
Qed.

Lemma wfa_app_r : forall l1 l2 lo hi, wfa lo hi (l1 ++ l2) -> wfa lo hi l2.
Proof.
  induction l1 as [| [s e] r IH]; intros l2 lo hi H; simpl in *; [assumption |].
  destruct H as (Ha & Hb & Hc & Hd). apply IH in Hd. eapply wfa_weaken; eauto; lia.
Qed.

(** * addToRanges *)

Ltac memsolve :=
  repeat match goal with
  | H : inR _ [] |- _ => now apply inR_nil in H
  | H : context [inR _ (_ :: _)] |- _ => rewrite inR_cons in H
  | |- context [inR _ (_ :: _)] => rewrite inR_cons
  end; try (intuition lia);
  try (intuition (repeat match goal with
       | Hb : (forall q, inR q ?r -> _), H : inR ?q ?r |- _ => specialize (Hb _ H)
       end; try lia)).

Ltac split5 := split; [| split; [| split; [| split]]].

Lemma add_desc_spec : forall p l lo hi,
  wfd lo hi l -> lo < p -> p + 1 < hi ->
  wfd lo hi (fst (add_desc p l)) /\
  (forall q, inR q (fst (add_desc p l)) <-> q = p \/ inR q l) /\
  (snd (add_desc p l) = false <-> inR p l) /\
  (length (fst (add_desc p l)) <= S (length l))%nat /\
  (snd (add_desc p l) = false -> fst (add_desc p l) = l).
Proof.
  intros p l. induction l as [| [s e] rest IH]; intros lo hi Hwf Hlo Hhi.
  - cbn [add_desc fst snd]. split5.
    + simpl; lia.
    + intros q; memsolve.
    + split; [discriminate | intros Hq; memsolve].
    + simpl; lia.
    + discriminate.
  - simpl in Hwf. destruct Hwf as (Hse & Heh & Hls & Hrest).
    pose proof (fun q => wfd_bounds rest lo s q Hrest) as Hrb.
    cbn [add_desc].
    destruct (Z.leb_spec s p) as [Hsp | Hsp]; destruct (Z.leb_spec p e) as [Hpe | Hpe]; cbn [andb].
    + (* already contained *)
      cbn [fst snd]. split5.
      * simpl; auto.
      * intros q; memsolve.
      * split; [intros _; memsolve | reflexivity].
      * simpl; lia.
      * reflexivity.
    + (* s <= p, e < p *)
      destruct (Z.eqb_spec e (p - 1)) as [Hep | Hep].
      * cbn [fst snd]. split5.
        -- simpl; auto with zarith.
        -- intros q; memsolve.
        -- split; [discriminate | intros Hq; memsolve].
        -- simpl; lia.
        -- discriminate.
      * destruct (Z.eqb_spec s (p + 1)) as [Hs1 | Hs1]; [lia |].
        destruct (Z.gtb_spec p e) as [Hgt | Hgt]; [| lia].
        cbn [fst snd]. split5.
        -- simpl. intuition lia.
        -- intros q; memsolve.
        -- split; [discriminate | intros Hq; memsolve].
        -- simpl; lia.
        -- discriminate.
    + (* p < s, p <= e *)
      destruct (Z.eqb_spec e (p - 1)) as [Hep | Hep]; [lia |].
      destruct (Z.eqb_spec s (p + 1)) as [Hs1 | Hs1].
      * destruct rest as [| [s' e'] rest'].
        -- cbn [fst snd]. split5.
           ++ simpl. intuition lia.
           ++ intros q; memsolve.
           ++ split; [discriminate | intros Hq; memsolve].
           ++ simpl; lia.
           ++ discriminate.
        -- simpl in Hrest. destruct Hrest as (Hse' & Heh' & Hls' & Hrest').
           assert (Hnot : ~ inR p rest').
           { intros Hq. destruct (wfd_bounds _ _ _ _ Hrest' Hq). lia. }
           destruct (Z.eqb_spec (e' + 1) p) as [Hm | Hm].
           ++ cbn [fst snd]. split5.
              ** simpl. intuition lia.
              ** intros q; memsolve.
              ** split; [discriminate | intros Hq; memsolve].
              ** simpl; lia.
              ** discriminate.
           ++ cbn [fst snd]. split5.
              ** simpl. repeat split; try lia. eapply wfd_weaken; eauto; lia.
              ** intros q; memsolve.
              ** split; [discriminate | intros Hq; memsolve].
              ** simpl; lia.
              ** discriminate.
      * destruct (Z.gtb_spec p e) as [Hgt | Hgt]; [lia |].
        assert (Hps : p + 1 < s) by lia.
        destruct (IH lo s Hrest Hlo Hps) as (I1 & I2 & I3 & I4 & I5).
        destruct (add_desc p rest) as [r b]. cbn [fst snd] in *.
        split5.
        -- simpl. repeat split; try lia. assumption.
        -- intros q. rewrite !inR_cons, I2. tauto.
        -- rewrite inR_cons. rewrite I3. intuition lia.
        -- simpl; lia.
        -- intros Hb. now rewrite (I5 Hb).
    + lia.
Qed.

Lemma addToRanges_spec : forall p rs lo hi,
  wfa lo hi rs -> lo < p -> p + 1 < hi ->
  wfa lo hi (fst (addToRanges p rs)) /\
  (forall q, inR q (fst (addToRanges p rs)) <-> q = p \/ inR q rs) /\
  (snd (addToRanges p rs) = false <-> inR p rs) /\
  (length (fst (addToRanges p rs)) <= S (length rs))%nat /\
  (snd (addToRanges p rs) = false -> fst (addToRanges p rs) = rs).
Proof.
  intros p rs lo hi Hwf Hlo Hhi. unfold addToRanges.
  apply wfa_wfd_rev in Hwf.
  destruct (add_desc_spec p (rev rs) lo hi Hwf Hlo Hhi) as (A1 & A2 & A3 & A4 & A5).
  destruct (add_desc p (rev rs)) as [d b]. cbn [fst snd] in *.
  split5.
  - now apply wfd_wfa_rev.
  - intros q. rewrite inR_rev, A2, inR_rev. tauto.
  - rewrite A3, inR_rev. tauto.
  - rewrite rev_length. rewrite rev_length in A4. exact A4.
  - intros Hb. rewrite (A5 Hb). apply rev_involutive.
Qed.

(** * truncation to MaxNumAckRanges *)

Lemma wfa_skipn : forall k l lo hi, wfa lo hi l -> wfa lo hi (skipn k l).
Proof.
  intros k l lo hi H. rewrite <- (firstn_skipn k l) in H. now apply wfa_app_r in H.
Qed.

Lemma inR_skipn : forall k l q, inR q (skipn k l) -> inR q l.
Proof.
  intros k l q H. rewrite <- (firstn_skipn k l). apply inR_app. now right.
Qed.

Lemma truncate_spec : forall rs lo hi,
  wfa lo hi rs ->
  wfa lo hi (truncate rs) /\
  (forall q, inR q (truncate rs) -> inR q rs) /\
  (Z.of_nat (length (truncate rs)) <= Z.max rph_MaxNumAckRanges 0) /\
  (Z.of_nat (length rs) <= rph_MaxNumAckRanges -> truncate rs = rs).
Proof.
  intros rs lo hi H. unfold truncate.
  destruct (Z.gtb_spec (Z.of_nat (length rs)) rph_MaxNumAckRanges) as [Hgt | Hle].
  - split; [| split; [| split]].
    + now apply wfa_skipn.
    + intros q. apply inR_skipn.
    + rewrite skipn_length. lia.
    + lia.
  - split; [| split; [| split]]; auto; try lia.
Qed.

(** what the truncation drops lies below everything it keeps *)
Lemma truncate_dropped : forall rs lo hi q,
  wfa lo hi rs -> inR q rs -> ~ inR q (truncate rs) ->
  Z.of_nat (length rs) > rph_MaxNumAckRanges /\
  inR q (firstn (length rs - Z.to_nat rph_MaxNumAckRanges) rs) /\
  (forall q', inR q' (truncate rs) -> q + 1 < q').
Proof.
  intros rs lo hi q H Hq Hn. unfold truncate in *.
  destruct (Z.gtb_spec (Z.of_nat (length rs)) rph_MaxNumAckRanges) as [Hgt | Hle]; [| contradiction].
  set (k := (length rs - Z.to_nat rph_MaxNumAckRanges)%nat) in *.
  rewrite <- (firstn_skipn k rs) in Hq, H. apply inR_app in Hq as [Hq | Hq]; [| contradiction].
  repeat split; auto; try lia.
  intros q' Hq'. eapply wfa_app_sep; eauto.
Qed.

(** * DeleteBelow *)

Lemma del_below_spec : forall p l lo hi,
  wfa lo hi l -> lo <= p ->
  wfa (p - 1) hi (del_below p l) /\
  (forall q, inR q (del_below p l) <-> inR q l /\ p <= q) /\
  (length (del_below p l) <= length l)%nat.
Proof.
  intros p l. induction l as [| [s e] r IH]; intros lo hi H Hlo.
  - simpl. split; [exact I | split; [| lia]]. intros q.
    split; [intros Hq; now apply inR_nil in Hq | intros [Hq _]; now apply inR_nil in Hq].
  - simpl in H. destruct H as (H1 & H2 & H3 & H4). cbn [del_below].
    pose proof (fun q => wfa_bounds r (e + 1) hi q H4) as Hrb.
    destruct (Z.ltb_spec e p) as [Hep | Hep].
    + assert (Hlo' : e + 1 <= p) by lia.
      destruct (IH (e + 1) hi H4 Hlo') as (I1 & I2 & I3).
      split; [assumption | split].
      * intros q. rewrite I2, inR_cons. intuition lia.
      * simpl; lia.
    + destruct (Z.ltb_spec s p) as [Hsp | Hsp]; destruct (Z.leb_spec p e) as [Hpe | Hpe]; cbn [andb]; try lia.
      * split; [simpl; intuition lia | split; [| simpl; lia]].
        intros q. memsolve.
      * split; [simpl; intuition lia | split; [| simpl; lia]].
        intros q. memsolve.
Qed.

(** * IsPotentiallyDuplicate *)

Lemma dup_desc_spec : forall p l lo hi, wfd lo hi l -> (dup_desc p l = true <-> inR p l).
Proof.
  intros p l. induction l as [| [s e] r IH]; intros lo hi H.
  - simpl. split; [discriminate | intros Hq; now apply inR_nil in Hq].
  - simpl in H. destruct H as (H1 & H2 & H3 & H4). cbn [dup_desc].
    pose proof (fun q => wfd_bounds r lo s q H4) as Hrb.
    destruct (Z.gtb_spec p e) as [Hgt | Hgt].
    + split; [discriminate | intros Hq; memsolve].
    + destruct (Z.leb_spec p e) as [Hpe | Hpe]; [| lia].
      destruct (Z.leb_spec s p) as [Hsp | Hsp]; cbn [andb].
      * split; [intros _; memsolve | reflexivity].
      * rewrite (IH lo s H4), inR_cons. intuition lia.
Qed.

Lemma wfa_app_l : forall l1 l2 lo hi, wfa lo hi (l1 ++ l2) -> wfa lo hi l1.
Proof.
  induction l1 as [| [s e] r IH]; intros l2 lo hi H; simpl in *; [exact I |].
  destruct H as (Ha & Hb & Hc & Hd). repeat split; auto. eapply IH; eauto.
Qed.

Lemma wfa_le_last_end : forall l lo hi q, wfa lo hi l -> inR q l ->
  exists s e l', rev l = (s, e) :: l' /\ q <= e.
Proof.
  intros l lo hi q H Hq. apply wfa_wfd_rev in H. apply inR_rev in Hq.
  destruct (rev l) as [| [s e] l']; [now apply inR_nil in Hq |].
  exists s, e, l'. split; [reflexivity |].
  simpl in H. destruct H as (H1 & H2 & H3 & H4).
  apply inR_cons in Hq as [Hq | Hq]; [lia |]. destruct (wfd_bounds _ _ _ _ H4 Hq). lia.
Qed.

Lemma wfa_nonempty_first : forall l lo hi, wfa lo hi l -> l <> [] -> exists q, inR q l.
Proof.
  intros [| [s e] r] lo hi H Hne; [contradiction |]. simpl in H. exists s. apply inR_cons. left. lia.
Qed.

Lemma MaxNumAckRanges_pos0 : 1 <= rph_MaxNumAckRanges.
Proof. unfold rph_MaxNumAckRanges. lia. Qed.

Lemma wfa_raise : forall l lo hi lo', wfa lo hi l -> (forall q, inR q l -> lo' < q) -> wfa lo' hi l.
Proof.
  intros [| [s e] r] lo hi lo' H Hq; [exact I |]. simpl in *. destruct H as (H1 & H2 & H3 & H4).
  repeat split; auto. apply Hq. apply inR_cons. left. lia.
Qed.

(** the truncation of [ReceivedPacket] together with the raise of [deletedBelow] *)
Definition trim_db (db : Z) (rs : list interval) : Z :=
  match trimmed_end rs with Some e => Z.max db (e + 1) | None => db end.

Lemma trim_spec : forall rs db hi,
  wfa (db - 1) hi rs ->
  wfa (trim_db db rs - 1) hi (truncate rs) /\ db <= trim_db db rs /\
  (forall q, inR q rs -> inR q (truncate rs) \/ q < trim_db db rs) /\
  (Z.of_nat (length rs) <= rph_MaxNumAckRanges -> trim_db db rs = db /\ truncate rs = rs).
Proof.
  intros rs db hi H. pose proof MaxNumAckRanges_pos0 as Hmax. unfold trim_db, trimmed_end, truncate. unfold interval in *.
  set (k := (length rs - Z.to_nat rph_MaxNumAckRanges)%nat).
  destruct (Z.gtb_spec (Z.of_nat (length rs)) rph_MaxNumAckRanges) as [Hgt | Hle].
  - assert (Hsplit : rs = firstn k rs ++ skipn k rs) by (symmetry; apply firstn_skipn).
    rewrite Hsplit in H.
    pose proof (wfa_app_l _ _ _ _ H) as Hl. pose proof (wfa_app_r _ _ _ _ H) as Hr.
    assert (Hk : (1 <= k)%nat) by (unfold k; lia).
    assert (Hne : firstn k rs <> []).
    { intros E. apply (f_equal (@length _)) in E. rewrite firstn_length in E. simpl in E. lia. }
    destruct (wfa_nonempty_first _ _ _ Hl Hne) as (q0 & Hq0).
    destruct (wfa_le_last_end _ _ _ q0 Hl Hq0) as (s & e & l' & Hrev & _).
    unfold interval in *. rewrite Hrev.
    assert (Hine : inR e (firstn k rs)).
    { exists s, e. split; [apply in_rev; rewrite Hrev; now left |].
      assert (Hin : In (s, e) (firstn k rs)) by (apply in_rev; rewrite Hrev; now left).
      clear -Hl Hin. revert Hl Hin. generalize (db - 1). induction (firstn k rs) as [| [a b] r IH]; intros lo Hl Hin; [contradiction |].
      simpl in Hl. destruct Hl as (A1 & A2 & A3 & A4). destruct Hin as [E | Hin]; [inversion E; subst; lia | eauto]. }
    split; [| split; [lia | split; [| lia]]].
    + apply (wfa_raise _ (db - 1)); [assumption |]. intros q Hq.
      pose proof (wfa_app_sep _ _ _ _ e q H Hine Hq). destruct (wfa_bounds _ _ _ _ Hr Hq). lia.
    + intros q Hq. rewrite Hsplit in Hq. apply inR_app in Hq as [Hq | Hq]; [| now left].
      right. destruct (wfa_le_last_end _ _ _ q Hl Hq) as (s' & e' & l'' & Hrev' & Hle). unfold interval in *.
      assert (E : (s', e') :: l'' = (s, e) :: l') by congruence. inversion E; subst. lia.
  - replace k with 0%nat by (unfold k; lia). cbn [firstn rev].
    split; [assumption | split; [lia | split; [intros q Hq; now left | auto]]].
Qed.

(** * The history invariant *)

Definition hist_ok (h : hist) : Prop :=
  (exists hi, wfa (deletedBelow h - 1) hi (ranges h)) /\
  Z.of_nat (length (ranges h)) <= rph_MaxNumAckRanges.

Lemma MaxNumAckRanges_pos : 1 <= rph_MaxNumAckRanges.
Proof. unfold rph_MaxNumAckRanges. lia. Qed.

Lemma newHist_ok : hist_ok newHist.
Proof.
  split; [exists 0; exact I |]. simpl. pose proof MaxNumAckRanges_pos. lia.
Qed.

Lemma hist_recv_ok : forall h p, hist_ok h -> hist_ok (fst (hist_recv h p)).
Proof.
  intros h p ((hi & Hwf) & Hlen). unfold hist_recv.
  destruct (Z.ltb_spec p (deletedBelow h)) as [Hlt | Hge]; [split; eauto |].
  assert (Hwf' : wfa (deletedBelow h - 1) (Z.max hi (p + 2)) (ranges h)) by (eapply wfa_weaken; eauto; lia).
  destruct (addToRanges_spec p (ranges h) _ _ Hwf') as (A1 & _); try lia.
  destruct (addToRanges p (ranges h)) as [rs b]. cbn [fst snd] in *.
  destruct (truncate_spec rs _ _ A1) as (_ & _ & T3 & _).
  destruct (trim_spec rs _ _ A1) as (S1 & _).
  split; cbn [ranges deletedBelow]; [fold (trim_db (deletedBelow h) rs); eauto |]. pose proof MaxNumAckRanges_pos. lia.
Qed.

Lemma hist_delete_below_ok : forall h p, hist_ok h -> hist_ok (hist_delete_below h p).
Proof.
  intros h p ((hi & Hwf) & Hlen). unfold hist_delete_below.
  destruct (Z.ltb_spec p (deletedBelow h)) as [Hlt | Hge]; [split; eauto |].
  destruct (del_below_spec p (ranges h) _ hi Hwf) as (D1 & _ & D3); [lia |].
  split; cbn [ranges deletedBelow]; [eauto | lia].
Qed.

(** membership after the two mutators *)
Lemma hist_recv_mem : forall h p q, hist_ok h ->
  inR q (ranges (fst (hist_recv h p))) -> inR q (ranges h) \/ (q = p /\ deletedBelow h <= p).
Proof.
  intros h p q ((hi & Hwf) & Hlen). unfold hist_recv.
  destruct (Z.ltb_spec p (deletedBelow h)) as [Hlt | Hge]; [now left |].
  assert (Hwf' : wfa (deletedBelow h - 1) (Z.max hi (p + 2)) (ranges h)) by (eapply wfa_weaken; eauto; lia).
  destruct (addToRanges_spec p (ranges h) _ _ Hwf') as (A1 & A2 & _); try lia.
  destruct (addToRanges p (ranges h)) as [rs b]. cbn [fst snd ranges] in *.
  intros Hq. destruct (truncate_spec rs _ _ A1) as (_ & T2 & _). apply T2, A2 in Hq. intuition.
Qed.

Lemma hist_recv_db_le : forall h p, hist_ok h -> deletedBelow h <= deletedBelow (fst (hist_recv h p)).
Proof.
  intros h p ((hi & Hwf) & Hlen). unfold hist_recv.
  destruct (Z.ltb_spec p (deletedBelow h)) as [Hlt | Hge]; [cbn; lia |].
  assert (Hwf' : wfa (deletedBelow h - 1) (Z.max hi (p + 2)) (ranges h)) by (eapply wfa_weaken; eauto; lia).
  destruct (addToRanges_spec p (ranges h) _ _ Hwf') as (A1 & _); try lia.
  destruct (addToRanges p (ranges h)) as [rs b]. cbn [fst snd deletedBelow] in *.
  destruct (trim_spec rs _ _ A1) as (_ & S2 & _). exact S2.
Qed.

(** nothing is trimmed, and the threshold stays, while fewer than MaxNumAckRanges ranges are tracked *)
Lemma hist_recv_db_same : forall h p, hist_ok h ->
  Z.of_nat (length (ranges h)) < rph_MaxNumAckRanges -> deletedBelow (fst (hist_recv h p)) = deletedBelow h.
Proof.
  intros h p ((hi & Hwf) & _) Hlen. unfold hist_recv.
  destruct (Z.ltb_spec p (deletedBelow h)) as [Hlt | Hge]; [reflexivity |].
  assert (Hwf' : wfa (deletedBelow h - 1) (Z.max hi (p + 2)) (ranges h)) by (eapply wfa_weaken; eauto; lia).
  destruct (addToRanges_spec p (ranges h) _ _ Hwf') as (A1 & _ & _ & A4 & _); try lia.
  destruct (addToRanges p (ranges h)) as [rs b]. cbn [fst snd deletedBelow] in *.
  destruct (trim_spec rs _ _ A1) as (_ & _ & _ & S4). destruct S4 as (S4 & _); [lia | exact S4].
Qed.

(** the boolean verdicts *)
Lemma is_dup_spec : forall h p, hist_ok h -> (is_dup h p = true <-> p < deletedBelow h \/ inR p (ranges h)).
Proof.
  intros h p ((hi & Hwf) & _). unfold is_dup.
  destruct (Z.ltb_spec p (deletedBelow h)) as [Hlt | Hge]; [intuition |].
  apply wfa_wfd_rev in Hwf. rewrite (dup_desc_spec p _ _ _ Hwf), inR_rev. intuition lia.
Qed.

Lemma hist_recv_isNew : forall h p, hist_ok h -> snd (hist_recv h p) = negb (is_dup h p).
Proof.
  intros h p Hok. pose proof (is_dup_spec h p Hok) as Hd. destruct Hok as ((hi & Hwf) & Hlen).
  unfold hist_recv. unfold is_dup in *.
  destruct (Z.ltb_spec p (deletedBelow h)) as [Hlt | Hge]; [reflexivity |].
  assert (Hwf' : wfa (deletedBelow h - 1) (Z.max hi (p + 2)) (ranges h)) by (eapply wfa_weaken; eauto; lia).
  destruct (addToRanges_spec p (ranges h) _ _ Hwf') as (_ & _ & A3 & _); try lia.
  destruct (addToRanges p (ranges h)) as [rs b]. cbn [fst snd] in *.
  destruct b, (dup_desc p (rev (ranges h))); try reflexivity.
  - exfalso. destruct Hd as [Hd _]. specialize (Hd eq_refl). destruct Hd as [Hd | Hd]; [lia |].
    apply A3 in Hd. discriminate.
  - exfalso. destruct A3 as [A3 _]. specialize (A3 eq_refl).
    destruct Hd as [_ Hd]. assert (false = true) by (apply Hd; now right). discriminate.
Qed.

(** a refused packet leaves the history alone *)
Lemma hist_recv_refused : forall h p, hist_ok h -> snd (hist_recv h p) = false -> fst (hist_recv h p) = h.
Proof.
  intros h p ((hi & Hwf) & Hlen). unfold hist_recv.
  destruct (Z.ltb_spec p (deletedBelow h)) as [Hlt | Hge]; [reflexivity |].
  assert (Hwf' : wfa (deletedBelow h - 1) (Z.max hi (p + 2)) (ranges h)) by (eapply wfa_weaken; eauto; lia).
  destruct (addToRanges_spec p (ranges h) _ _ Hwf') as (_ & _ & _ & _ & A5); try lia.
  destruct (addToRanges p (ranges h)) as [rs b]. cbn [fst snd] in *.
  intros Hb. rewrite (A5 Hb).
  destruct (trim_spec (ranges h) _ _ Hwf) as (_ & _ & _ & S4). destruct (S4 Hlen) as (S5 & S6).
  fold (trim_db (deletedBelow h) (ranges h)). rewrite S5, S6.
  destruct h; reflexivity.
Qed.

(** * Presentation of the invariant used in the property theorems *)

(** ascending, every range non-empty and at or above [lo], consecutive ranges separated by
    at least one missing number (disjoint and non-adjacent) *)
Fixpoint sorted_from (lo : Z) (l : list interval) : Prop :=
  match l with
  | [] => True
  | (s, e) :: r => lo <= s /\ s <= e /\ sorted_from (e + 2) r
  end.

Lemma wfa_sorted_from : forall l lo hi, wfa (lo - 1) hi l -> sorted_from lo l.
Proof.
  induction l as [| [s e] r IH]; intros lo hi H; simpl in *; [exact I |].
  destruct H as (H1 & H2 & H3 & H4). repeat split; try lia.
  apply (IH (e + 2) hi). replace (e + 2 - 1) with (e + 1) by lia. assumption.
Qed.

Definition ranges_inv (h : hist) : Prop :=
  sorted_from (deletedBelow h) (ranges h) /\ Z.of_nat (length (ranges h)) <= rph_MaxNumAckRanges.

Lemma hist_ok_ranges_inv : forall h, hist_ok h -> ranges_inv h.
Proof. intros h ((hi & Hwf) & Hlen). split; [eapply wfa_sorted_from; eauto | assumption]. Qed.

(** * Histories of the bare receivedPacketHistory *)

Lemma hstep_ok : forall h o, hist_ok h -> hist_ok (fst (hstep h o)).
Proof.
  intros h [p | p | p | p] Hok; cbn [hstep].
  - pose proof (hist_recv_ok h p Hok). destruct (hist_recv h p); assumption.
  - now apply hist_delete_below_ok.
  - assumption.
  - assumption.
Qed.

Lemma hrun_ok : forall ops h, hist_ok h -> hist_ok (fst (hrun h ops)).
Proof.
  induction ops as [| o ops IH]; intros h Hok; [assumption |].
  cbn [hrun]. pose proof (hstep_ok h o Hok) as H1. destruct (hstep h o) as [h' r]. cbn [fst] in H1.
  specialize (IH h' H1). destruct (hrun h' ops) as [h'' rs]. assumption.
Qed.

Lemma hist_delete_below_mem : forall h p q, hist_ok h ->
  inR q (ranges (hist_delete_below h p)) -> inR q (ranges h) /\ deletedBelow (hist_delete_below h p) <= q.
Proof.
  intros h p q ((hi & Hwf) & Hlen). unfold hist_delete_below.
  destruct (Z.ltb_spec p (deletedBelow h)) as [Hlt | Hge].
  - intros Hq. split; [assumption |]. destruct (wfa_bounds _ _ _ _ Hwf Hq). lia.
  - destruct (del_below_spec p (ranges h) _ hi Hwf) as (_ & D2 & _); [lia |].
    cbn [ranges deletedBelow]. intros Hq. now apply D2 in Hq.
Qed.

Lemma hrun_sound : forall ops h q, hist_ok h ->
  inR q (ranges (fst (hrun h ops))) -> inR q (ranges h) \/ In (HRecv q) ops.
Proof.
  induction ops as [| o ops IH]; intros h q Hok Hq; [now left |].
  cbn [hrun] in Hq. pose proof (hstep_ok h o Hok) as H1.
  destruct (hstep h o) as [h' r] eqn:Hs. cbn [fst] in H1.
  specialize (IH h' q H1). destruct (hrun h' ops) as [h'' rs]. cbn [fst] in *.
  destruct (IH Hq) as [Hin | Hin]; [| right; now right].
  destruct o as [p | p | p | p]; cbn [hstep] in Hs.
  - pose proof (hist_recv_mem h p q Hok) as Hm. destruct (hist_recv h p) as [hh b]. inversion Hs; subst.
    cbn [fst] in Hm. destruct (Hm Hin) as [Hm' | [Hm' _]]; [now left | right; left; now subst].
  - inversion Hs; subst. left. now apply (hist_delete_below_mem h p q Hok).
  - inversion Hs; subst. now left.
  - inversion Hs; subst. now left.
Qed.

(** * Duplicate detection: what is remembered, what the range limit may forget *)

Definition omax (a b : option Z) : option Z :=
  match a, b with
  | Some x, Some y => Some (Z.max x y)
  | Some x, None => Some x
  | None, b => b
  end.

Definition le_opt (q : Z) (w : option Z) : Prop := match w with Some x => q <= x | None => False end.

Lemma le_opt_omax_l : forall q a b, le_opt q a -> le_opt q (omax a b).
Proof. intros q [x |] [y |]; simpl; try lia; tauto. Qed.
Lemma le_opt_omax_r : forall q a b, le_opt q b -> le_opt q (omax a b).
Proof. intros q [x |] [y |]; simpl; try lia; tauto. Qed.

(** End of the highest range that [ReceivedPacket p] drops because more than
    MaxNumAckRanges ranges would be tracked ([None]: nothing is dropped). *)
Definition pruned_by (h : hist) (p : Z) : option Z :=
  if p <? deletedBelow h then None
  else
    let rs := fst (addToRanges p (ranges h)) in
    match rev (firstn (length rs - Z.to_nat rph_MaxNumAckRanges) rs) with
    | [] => None
    | (_, e) :: _ => Some e
    end.

Lemma classic_inR : forall q l, inR q l \/ ~ inR q l.
Proof.
  intros q l. induction l as [| [s e] r IH].
  - right. apply inR_nil.
  - destruct IH as [IH | IH]; [left; apply inR_cons; now right |].
    destruct (Z_le_dec s q) as [H1 | H1]; destruct (Z_le_dec q e) as [H2 | H2];
      try (right; intros Hq; apply inR_cons in Hq as [Hq | Hq]; [lia | contradiction]).
    left. apply inR_cons. left. lia.
Qed.

(** one step of retention: whatever was recognised as duplicate before [ReceivedPacket p],
    and [p] itself, is recognised afterwards - what the range limit forgets falls below the
    raised [deletedBelow] *)
Lemma hist_recv_retains_strong : forall h p q, hist_ok h ->
  (q = p \/ q < deletedBelow h \/ inR q (ranges h)) ->
  let h' := fst (hist_recv h p) in
  q < deletedBelow h' \/ inR q (ranges h').
Proof.
  intros h p q Hok Hq. pose proof Hok as ((hi & Hwf) & Hlen). cbn zeta.
  unfold hist_recv.
  destruct (Z.ltb_spec p (deletedBelow h)) as [Hlt | Hge]; cbn [fst].
  - destruct Hq as [Hq | [Hq | Hq]]; [left; lia | now left | now right].
  - assert (Hwf' : wfa (deletedBelow h - 1) (Z.max hi (p + 2)) (ranges h)) by (eapply wfa_weaken; eauto; lia).
    destruct (addToRanges_spec p (ranges h) _ _ Hwf') as (A1 & A2 & _); try lia.
    destruct (addToRanges p (ranges h)) as [rs b]. cbn [fst snd ranges deletedBelow] in *.
    destruct (trim_spec rs _ _ A1) as (_ & S2 & S3 & _). fold (trim_db (deletedBelow h) rs).
    destruct Hq as [Hq | [Hq | Hq]]; [| left; lia |].
    + destruct (S3 q) as [H | H]; [apply A2; now left | now right | now left].
    + destruct (S3 q) as [H | H]; [apply A2; now right | now right | now left].
Qed.

Lemma hist_recv_retains : forall h p q, hist_ok h ->
  (q = p \/ q < deletedBelow h \/ inR q (ranges h)) ->
  let h' := fst (hist_recv h p) in
  q < deletedBelow h' \/ inR q (ranges h') \/ le_opt q (pruned_by h p).
Proof.
  intros h p q Hok Hq. cbn zeta. destruct (hist_recv_retains_strong h p q Hok Hq); tauto.
Qed.

Lemma hist_delete_below_retains : forall h p q, hist_ok h ->
  (q < deletedBelow h \/ inR q (ranges h)) ->
  q < deletedBelow (hist_delete_below h p) \/ inR q (ranges (hist_delete_below h p)).
Proof.
  intros h p q ((hi & Hwf) & Hlen) Hq. unfold hist_delete_below.
  destruct (Z.ltb_spec p (deletedBelow h)) as [Hlt | Hge]; [assumption |].
  destruct (del_below_spec p (ranges h) _ hi Hwf) as (_ & D2 & _); [lia |].
  cbn [ranges deletedBelow]. destruct Hq as [Hq | Hq]; [left; lia |].
  destruct (Z_lt_dec q p) as [Hqp | Hqp]; [now left | right; apply D2; split; [assumption | lia]].
Qed.

(** [hrun] instrumented with the ghost [W]: the highest number the range limit has dropped *)
Definition hstepW (hw : hist * option Z) (o : hop) : hist * option Z :=
  match o with
  | HRecv p => (fst (hist_recv (fst hw) p), omax (snd hw) (pruned_by (fst hw) p))
  | _ => (fst (hstep (fst hw) o), snd hw)
  end.

Definition hrunW (ops : list hop) (hw : hist * option Z) : hist * option Z := fold_left hstepW ops hw.

Lemma hrunW_fst : forall ops hw, fst (hrunW ops hw) = fst (hrun (fst hw) ops).
Proof.
  induction ops as [| o ops IH]; intros hw; [reflexivity |].
  unfold hrunW in *. cbn [fold_left hrun]. rewrite IH.
  destruct o as [p | p | p | p]; cbn [hstepW hstep fst];
    try (destruct (hist_recv (fst hw) p) as [h' b]; cbn [fst]);
    match goal with |- context [hrun ?x ops] => destruct (hrun x ops) end; reflexivity.
Qed.

Definition remembered (hw : hist * option Z) (q : Z) : Prop :=
  q < deletedBelow (fst hw) \/ inR q (ranges (fst hw)) \/ le_opt q (snd hw).

Lemma hstepW_ok : forall hw o, hist_ok (fst hw) -> hist_ok (fst (hstepW hw o)).
Proof.
  intros [h w] o Hok. pose proof (hstep_ok h o Hok) as H.
  destruct o as [p | p | p | p]; cbn [hstepW hstep fst snd] in *; try assumption.
  destruct (hist_recv h p); assumption.
Qed.

Lemma hstepW_remembered : forall hw o q, hist_ok (fst hw) ->
  (remembered hw q \/ o = HRecv q) -> remembered (hstepW hw o) q.
Proof.
  intros [h w] o q Hok Hq. unfold remembered in *. cbn [fst snd] in *.
  destruct o as [p | p | p | p]; cbn [hstepW hstep fst snd].
  - assert (Hc : le_opt q w \/ (q = p \/ q < deletedBelow h \/ inR q (ranges h))).
    { destruct Hq as [[Hq | [Hq | Hq]] | Hq]; [right; tauto | right; tauto | now left | right; left; congruence]. }
    destruct Hc as [Hc | Hc]; [right; right; now apply le_opt_omax_l |].
    destruct (hist_recv_retains h p q Hok Hc) as [H | [H | H]]; [now left | right; now left |].
    right; right. now apply le_opt_omax_r.
  - destruct Hq as [[Hq | [Hq | Hq]] | Hq]; try discriminate; [| | tauto].
    + destruct (hist_delete_below_retains h p q Hok (or_introl Hq)); tauto.
    + destruct (hist_delete_below_retains h p q Hok (or_intror Hq)); tauto.
  - destruct Hq as [Hq | Hq]; [assumption | discriminate].
  - destruct Hq as [Hq | Hq]; [assumption | discriminate].
Qed.

Lemma hrunW_remembered : forall ops hw q, hist_ok (fst hw) ->
  (remembered hw q \/ In (HRecv q) ops) -> remembered (hrunW ops hw) q.
Proof.
  induction ops as [| o ops IH]; intros hw q Hok Hq.
  - destruct Hq as [Hq | []]. exact Hq.
  - unfold hrunW. cbn [fold_left]. apply IH; [now apply hstepW_ok |].
    destruct Hq as [Hq | [Hq | Hq]].
    + left. apply hstepW_remembered; auto.
    + left. apply hstepW_remembered; auto.
    + now right.
Qed.

Lemma hrunW_ok : forall ops hw, hist_ok (fst hw) -> hist_ok (fst (hrunW ops hw)).
Proof.
  induction ops as [| o ops IH]; intros hw Hok; [assumption |].
  unfold hrunW. cbn [fold_left]. apply IH. now apply hstepW_ok.
Qed.

(** Every number that was received is recognised as a duplicate, unless it lies at or below
    the highest number that the MaxNumAckRanges limit has dropped. *)
Lemma duplicate_detected : forall ops q,
  In (HRecv q) ops ->
  let hw := hrunW ops (newHist, None) in
  ~ le_opt q (snd hw) ->
  is_dup (fst hw) q = true /\ snd (hist_recv (fst hw) q) = false.
Proof.
  intros ops q Hin hw Hnw.
  assert (Hok : hist_ok (fst hw)) by (apply hrunW_ok; apply newHist_ok).
  assert (Hr : remembered hw q) by (apply hrunW_remembered; [apply newHist_ok | now right]).
  assert (Hd : is_dup (fst hw) q = true).
  { apply is_dup_spec; [assumption |]. destruct Hr as [H | [H | H]]; tauto. }
  split; [assumption |]. rewrite hist_recv_isNew by assumption. now rewrite Hd.
Qed.

(** The limit drops nothing while fewer than MaxNumAckRanges ranges are tracked. *)
Lemma pruned_by_none : forall h p, hist_ok h ->
  Z.of_nat (length (ranges h)) < rph_MaxNumAckRanges -> pruned_by h p = None.
Proof.
  intros h p ((hi & Hwf) & _) Hlen. unfold pruned_by.
  destruct (Z.ltb_spec p (deletedBelow h)) as [Hlt | Hge]; [reflexivity |].
  assert (Hwf' : wfa (deletedBelow h - 1) (Z.max hi (p + 2)) (ranges h)) by (eapply wfa_weaken; eauto; lia).
  destruct (addToRanges_spec p (ranges h) _ _ Hwf') as (_ & _ & _ & A4 & _); try lia.
  destruct (addToRanges p (ranges h)) as [rs b]. cbn [fst] in *.
  replace (length rs - Z.to_nat rph_MaxNumAckRanges)%nat with 0%nat by lia. reflexivity.
Qed.

Definition is_recv (o : hop) : bool := match o with HRecv _ => true | _ => false end.

Lemma hstepW_length : forall hw o, hist_ok (fst hw) ->
  (length (ranges (fst (hstepW hw o))) <= length (ranges (fst hw)) + (if is_recv o then 1 else 0))%nat.
Proof.
  intros [h w] o ((hi & Hwf) & Hlen). cbn [fst] in Hwf, Hlen. destruct o as [p | p | p | p]; cbn [hstepW hstep fst snd is_recv]; try lia.
  - unfold hist_recv. destruct (Z.ltb_spec p (deletedBelow h)) as [Hlt | Hge]; [cbn [fst]; lia |].
    assert (Hwf' : wfa (deletedBelow h - 1) (Z.max hi (p + 2)) (ranges h)) by (eapply wfa_weaken; eauto; lia).
    destruct (addToRanges_spec p (ranges h) _ _ Hwf') as (A1 & _ & _ & A4 & _); try lia.
    destruct (addToRanges p (ranges h)) as [rs b]. cbn [fst ranges] in *.
    unfold truncate. destruct (Z.of_nat (length rs) >? rph_MaxNumAckRanges); [rewrite skipn_length |]; lia.
  - unfold hist_delete_below. destruct (Z.ltb_spec p (deletedBelow h)) as [Hlt | Hge]; [lia |].
    destruct (del_below_spec p (ranges h) _ hi Hwf) as (_ & _ & D3); [lia |]. cbn [ranges]. lia.
Qed.

Lemma hrunW_none : forall ops hw, hist_ok (fst hw) -> snd hw = None ->
  Z.of_nat (length (ranges (fst hw))) + Z.of_nat (length (filter is_recv ops)) <= rph_MaxNumAckRanges ->
  snd (hrunW ops hw) = None.
Proof.
  induction ops as [| o ops IH]; intros hw Hok Hw Hlen; [assumption |].
  unfold hrunW. cbn [fold_left]. apply IH.
  - now apply hstepW_ok.
  - destruct hw as [h w]. cbn [snd fst] in *. subst w.
    destruct o as [p | p | p | p]; cbn [hstepW snd fst]; try reflexivity.
    rewrite pruned_by_none; [reflexivity | assumption |]. cbn [filter is_recv length] in Hlen. lia.
  - pose proof (hstepW_length hw o Hok) as Hl. cbn [filter] in Hlen.
    destruct (is_recv o); cbn [length] in Hlen; lia.
Qed.

(** * Statements used by Props/C07.v *)

Lemma hist_ranges_inv : forall ops, ranges_inv (fst (hrun newHist ops)).
Proof. intros ops. apply hist_ok_ranges_inv, hrun_ok, newHist_ok. Qed.

Lemma hist_sound : forall ops q, inR q (ranges (fst (hrun newHist ops))) -> In (HRecv q) ops.
Proof.
  intros ops q Hq. destruct (hrun_sound ops newHist q newHist_ok Hq) as [H | H]; [| assumption].
  now apply inR_nil in H.
Qed.

Lemma duplicate_detected_few : forall ops q,
  Z.of_nat (length (filter is_recv ops)) <= rph_MaxNumAckRanges ->
  In (HRecv q) ops ->
  is_dup (fst (hrun newHist ops)) q = true /\ snd (hist_recv (fst (hrun newHist ops)) q) = false.
Proof.
  intros ops q Hlen Hin.
  pose proof (duplicate_detected ops q Hin) as H. cbn zeta in H.
  rewrite (hrunW_none ops (newHist, None) newHist_ok eq_refl) in H by (cbn; lia).
  rewrite hrunW_fst in H. cbn [fst] in H. apply H. intros [].
Qed.

(** * With the repaired trimming: every received number stays recognised, without exception *)

Definition known (h : hist) (q : Z) : Prop := q < deletedBelow h \/ inR q (ranges h).

Lemma hstep_known : forall h o q, hist_ok h -> (known h q \/ o = HRecv q) -> known (fst (hstep h o)) q.
Proof.
  intros h o q Hok Hq. unfold known in *. destruct o as [p | p | p | p]; cbn [hstep].
  - assert (Hc : q = p \/ q < deletedBelow h \/ inR q (ranges h)).
    { destruct Hq as [[Hq | Hq] | Hq]; [tauto | tauto | left; congruence]. }
    pose proof (hist_recv_retains_strong h p q Hok Hc) as H. destruct (hist_recv h p). exact H.
  - destruct Hq as [Hq | Hq]; [| discriminate]. now apply hist_delete_below_retains.
  - destruct Hq as [Hq | Hq]; [assumption | discriminate].
  - destruct Hq as [Hq | Hq]; [assumption | discriminate].
Qed.

Lemma hrun_known : forall ops h q, hist_ok h -> (known h q \/ In (HRecv q) ops) -> known (fst (hrun h ops)) q.
Proof.
  induction ops as [| o ops IH]; intros h q Hok Hq.
  - destruct Hq as [Hq | []]. exact Hq.
  - cbn [hrun]. pose proof (hstep_ok h o Hok) as H1. pose proof (hstep_known h o q Hok) as H2.
    destruct (hstep h o) as [h' r]. cbn [fst] in *.
    specialize (IH h' q H1). destruct (hrun h' ops) as [h'' rs]. cbn [fst] in *.
    apply IH. destruct Hq as [Hq | [Hq | Hq]]; [left; apply H2; now left | left; apply H2; now right | now right].
Qed.

(** Every number ever passed to ReceivedPacket is flagged by IsPotentiallyDuplicate and refused by
    ReceivedPacket, after every history of calls - no exception for the range limit any more. *)
Lemma duplicate_detected_always : forall ops q,
  In (HRecv q) ops ->
  let h := fst (hrun newHist ops) in
  is_dup h q = true /\ snd (hist_recv h q) = false.
Proof.
  intros ops q Hin h.
  assert (Hok : hist_ok h) by (apply hrun_ok, newHist_ok).
  assert (Hk : known h q) by (apply hrun_known; [apply newHist_ok | now right]).
  assert (Hd : is_dup h q = true) by (apply is_dup_spec; assumption).
  split; [assumption |]. rewrite hist_recv_isNew by assumption. now rewrite Hd.
Qed.
