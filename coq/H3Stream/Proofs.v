(** Lemmas about the byte source, the varint reader form, skipping and ParseNext. *)
From Coq Require Import List ZArith Bool Lia.
From V Require Import Gen.Params Lib.Hex Wire.Varint Wire.VarintProofs H3Stream.Model.
Import ListNotations.
Open Scope Z_scope.

(** * Generic list facts *)
Lemma zlen_app {A} (a b : list A) : zlen (a ++ b) = zlen a + zlen b.
Proof. unfold zlen. rewrite app_length. lia. Qed.
Lemma zlen_nonneg {A} (a : list A) : 0 <= zlen a.
Proof. unfold zlen. lia. Qed.
Lemma zlen_nil_inv {A} (a : list A) : zlen a <= 0 -> a = [].
Proof. destruct a; auto. unfold zlen. simpl. lia. Qed.
Lemma zlen_firstn {A} (n : nat) (a : list A) : (n <= length a)%nat -> zlen (firstn n a) = Z.of_nat n.
Proof. intros H. unfold zlen. rewrite firstn_length. lia. Qed.
Lemma zlen_skipn {A} (n : nat) (a : list A) : zlen (skipn n a) = zlen a - Z.of_nat (Nat.min n (length a)).
Proof. unfold zlen. rewrite skipn_length. lia. Qed.

Lemma firstn_app_le {A} (n : nat) (a b : list A) : (n <= length a)%nat -> firstn n (a ++ b) = firstn n a.
Proof.
  intros H. rewrite firstn_app. replace (n - length a)%nat with 0%nat by lia.
  simpl. apply app_nil_r.
Qed.
Lemma skipn_app_le {A} (n : nat) (a b : list A) : (n <= length a)%nat -> skipn n (a ++ b) = skipn n a ++ b.
Proof.
  intros H. rewrite skipn_app. replace (n - length a)%nat with 0%nat by lia. reflexivity.
Qed.

(** * The byte source *)
Definition same_end (s s' : src) : Prop := s_fin s' = s_fin s /\ s_finWith s' = s_finWith s.

Lemma same_end_refl s : same_end s s.
Proof. split; reflexivity. Qed.
Lemma same_end_trans a b c : same_end a b -> same_end b c -> same_end a c.
Proof. unfold same_end. intros [H1 H2] [H3 H4]. split; congruence. Qed.

(** The terminal error never accompanies data unless it is io.EOF. *)
Definition benign (s : src) : Prop := s_fin s = EEOF \/ s_finWith s = false.

Lemma benign_same_end s s' : same_end s s' -> benign s -> benign s'.
Proof. unfold same_end, benign. intros [H1 H2] [H|H]; [left|right]; congruence. Qed.

(** What one underlying Read does when data is available and the buffer is non-empty:
    it delivers some [n >= 1] leading bytes, at most the buffer size; an error can only
    accompany them when nothing is left. *)
Lemma src_read_some (s : src) (m : Z) :
  s_data s <> [] -> 0 < m ->
  exists (n : nat) (e : option err) (s' : src),
    src_read s m = (firstn n (s_data s), e, s') /\
    (1 <= n)%nat /\ Z.of_nat n <= m /\ (n <= length (s_data s))%nat /\
    s_data s' = skipn n (s_data s) /\ same_end s s' /\
    (e = None \/ (s_data s' = [] /\ s_finWith s = true /\ e = Some (s_fin s))).
Proof.
  intros Hd Hm. unfold src_read. destruct (s_data s) as [|b d] eqn:E; [congruence|].
  destruct (Z.leb_spec m 0) as [H0|H0]; [lia|].
  set (c := match s_sched s with [] => m | c :: _ => Z.max 1 c end).
  assert (Hc : 1 <= c) by (unfold c; destruct (s_sched s); lia).
  set (n0 := Z.to_nat (Z.min m c)).
  assert (Hn0 : (1 <= n0)%nat) by (unfold n0; lia).
  set (n := Nat.min n0 (length (b :: d))).
  exists n.
  assert (Hf : firstn n0 (b :: d) = firstn n (b :: d)).
  { unfold n. destruct (Nat.le_ge_cases n0 (length (b :: d))) as [Hle|Hge].
    - rewrite Nat.min_l by exact Hle. reflexivity.
    - rewrite Nat.min_r by exact Hge. rewrite firstn_all. apply firstn_all2. exact Hge. }
  assert (Hs : skipn n0 (b :: d) = skipn n (b :: d)).
  { unfold n. destruct (Nat.le_ge_cases n0 (length (b :: d))) as [Hle|Hge].
    - rewrite Nat.min_l by exact Hle. reflexivity.
    - rewrite Nat.min_r by exact Hge. rewrite skipn_all. apply skipn_all2. exact Hge. }
  rewrite Hf, Hs.
  eexists. eexists. split; [reflexivity|].
  assert (Hlen : (1 <= length (b :: d))%nat) by (simpl; lia).
  repeat split; try (unfold n, n0; simpl length; lia).
  cbn [s_data]. destruct (skipn n (b :: d)) eqn:Es.
  - destruct (s_finWith s); [right; auto | left; auto].
  - left. reflexivity.
Qed.

Lemma src_read_empty (s : src) (m : Z) : s_data s = [] -> src_read s m = ([], Some (s_fin s), s).
Proof. intros H. unfold src_read. rewrite H. reflexivity. Qed.

(** * Reading bytes and varints *)
Lemma read_byte_cons (s : src) (b : Z) (r : list Z) :
  benign s -> s_data s = b :: r ->
  exists s', read_byte s = (inr b, s') /\ s_data s' = r /\ same_end s s'.
Proof.
  intros Hb Hd.
  destruct (src_read_some s 1) as (n & e & s' & Hr & Hn1 & Hn2 & Hn3 & Hd' & Hse & He);
    [rewrite Hd; discriminate | lia |].
  assert (n = 1%nat) by lia. subst n.
  unfold read_byte. rewrite Hr, Hd. cbn [firstn]. rewrite Hd in Hd'. cbn [skipn] in Hd'.
  exists s'. destruct He as [He|(He1 & He2 & He3)]; subst e.
  - auto.
  - destruct Hb as [Hb|Hb]; [|congruence]. rewrite Hb. cbn [is_eof]. auto.
Qed.

Lemma read_byte_nil (s : src) : s_data s = [] -> read_byte s = (inl (s_fin s), s).
Proof. intros H. unfold read_byte. rewrite src_read_empty by exact H. reflexivity. Qed.

Lemma read_bytes_app (l : list Z) : forall (s : src) (r : list Z) (acc : Z),
  benign s -> s_data s = l ++ r ->
  exists s', read_bytes (length l) s acc = (inr (unbe l acc), s') /\ s_data s' = r /\ same_end s s'.
Proof.
  induction l as [|b l IH]; intros s r acc Hb Hd.
  - exists s. cbn. auto using same_end_refl.
  - cbn [length read_bytes unbe].
    destruct (read_byte_cons s b (l ++ r) Hb Hd) as (s1 & H1 & H2 & H3). rewrite H1.
    destruct (IH s1 r (acc * 256 + b) (benign_same_end _ _ H3 Hb) H2) as (s2 & H4 & H5 & H6).
    exists s2. eauto using same_end_trans.
Qed.

(** The reader form agrees with the slice form wherever the slice form succeeds. *)
Lemma read_varint_vparse (s : src) (v n : Z) (rest : list Z) :
  benign s -> vparse (s_data s) = inr (v, n, rest) ->
  exists s', read_varint s = (inr (v, n), s') /\ s_data s' = rest /\ same_end s s'.
Proof.
  intros Hb Hp. unfold vparse in Hp. destruct (s_data s) as [|first r] eqn:Hd; [discriminate|].
  set (k := first / 64) in *.
  set (nn := if k =? 0 then 0%nat else if k =? 1 then 1%nat else if k =? 2 then 3%nat else 7%nat) in *.
  destruct (length r <? nn)%nat eqn:Hl; [discriminate|]. apply Nat.ltb_ge in Hl.
  inversion Hp; subst v n rest; clear Hp.
  destruct (read_byte_cons s first r Hb Hd) as (s1 & H1 & H2 & H3).
  unfold read_varint. rewrite H1. fold k. fold nn.
  assert (Hr : r = firstn nn r ++ skipn nn r) by (symmetry; apply firstn_skipn).
  rewrite Hr in H2.
  destruct (read_bytes_app (firstn nn r) s1 (skipn nn r) (first mod 64) (benign_same_end _ _ H3 Hb) H2)
    as (s2 & H4 & H5 & H6).
  rewrite firstn_length, Nat.min_l in H4 by exact Hl. rewrite H4.
  exists s2. eauto using same_end_trans.
Qed.

(** [venc bs v]: the byte string [bs] is an encoding of [v] the varint parser accepts
    (minimal or not), whatever follows it. *)
Definition venc (bs : list Z) (v : Z) : Prop :=
  forall rest, vparse (bs ++ rest) = inr (v, zlen bs, rest).

Lemma venc_vappend v : 0 <= v <= maxVarInt8 -> venc (vappend v) v.
Proof.
  intros H rest. rewrite vparse_vappend by exact H. unfold zlen.
  rewrite vappend_length by exact H. reflexivity.
Qed.

Lemma venc_nonempty bs v : venc bs v -> bs <> [].
Proof. intros H E. subst bs. specialize (H []). discriminate. Qed.

Lemma read_varint_venc (s : src) (bs : list Z) (v : Z) (rest : list Z) :
  benign s -> venc bs v -> s_data s = bs ++ rest ->
  exists s', read_varint s = (inr (v, zlen bs), s') /\ s_data s' = rest /\ same_end s s'.
Proof.
  intros Hb He Hd. apply read_varint_vparse; [exact Hb|]. rewrite Hd. apply He.
Qed.

Lemma read_varint_nil (s : src) : s_data s = [] -> read_varint s = (inl (s_fin s), s).
Proof. intros H. unfold read_varint. rewrite read_byte_nil by exact H. reflexivity. Qed.

(** * Skipping a payload *)
Lemma skip_app : forall (fuel : nat) (s : src) (p rest : list Z),
  s_data s = p ++ rest -> (length p < fuel)%nat ->
  exists s', skip fuel s (zlen p) = (None, s') /\ s_data s' = rest /\ same_end s s'.
Proof.
  induction fuel as [|f IH]; intros s p rest Hd Hf; [lia|].
  cbn [skip]. destruct (Z.leb_spec (zlen p) 0) as [H0|H0].
  - apply zlen_nil_inv in H0. subst p. exists s. auto using same_end_refl.
  - assert (Hp : p <> []) by (intros E; subst p; unfold zlen in H0; simpl in H0; lia).
    destruct (src_read_some s (Z.min discardBuf (zlen p)))
      as (n & e & s1 & Hr & Hn1 & Hn2 & Hn3 & Hd1 & Hse & He).
    { rewrite Hd. destruct p; [congruence|discriminate]. }
    { unfold discardBuf. lia. }
    rewrite Hr. assert (Hnp : (n <= length p)%nat) by (unfold zlen in Hn2; lia).
    rewrite Hd in *. rewrite firstn_app_le by exact Hnp. rewrite skipn_app_le in Hd1 by exact Hnp.
    rewrite zlen_firstn by exact Hnp.
    assert (Hz : zlen p - Z.of_nat n = zlen (skipn n p)).
    { rewrite zlen_skipn. rewrite Nat.min_l by exact Hnp. reflexivity. }
    rewrite Hz.
    destruct He as [He|(He1 & He2 & He3)]; subst e.
    + destruct (IH s1 (skipn n p) rest Hd1) as (s2 & H1 & H2 & H3).
      { rewrite skipn_length. lia. }
      exists s2. eauto using same_end_trans.
    + rewrite Hd1 in He1. apply app_eq_nil in He1 as [E1 E2]. rewrite E1.
      cbn. exists s1. rewrite Hd1, E1, E2. auto.
Qed.

(** * io.ReadFull of a block that is present *)
Lemma read_full_app : forall (fuel : nat) (s : src) (blk rest acc : list Z),
  s_data s = blk ++ rest -> (length blk < fuel)%nat ->
  exists s', read_full fuel s (zlen blk) acc = (inr (acc ++ blk), s') /\ s_data s' = rest /\ same_end s s'.
Proof.
  induction fuel as [|f IH]; intros s blk rest acc Hd Hf; [lia|].
  cbn [read_full]. destruct (Z.leb_spec (zlen blk) 0) as [H0|H0].
  - apply zlen_nil_inv in H0. subst blk. exists s. rewrite app_nil_r. auto using same_end_refl.
  - assert (Hp : blk <> []) by (intros E; subst blk; unfold zlen in H0; simpl in H0; lia).
    destruct (src_read_some s (zlen blk))
      as (n & e & s1 & Hr & Hn1 & Hn2 & Hn3 & Hd1 & Hse & He).
    { rewrite Hd. destruct blk; [congruence|discriminate]. }
    { lia. }
    rewrite Hr. assert (Hnp : (n <= length blk)%nat) by (unfold zlen in Hn2; lia).
    rewrite Hd in *. rewrite firstn_app_le by exact Hnp. rewrite skipn_app_le in Hd1 by exact Hnp.
    rewrite zlen_firstn by exact Hnp.
    assert (Hz : zlen blk - Z.of_nat n = zlen (skipn n blk)).
    { rewrite zlen_skipn. rewrite Nat.min_l by exact Hnp. reflexivity. }
    rewrite Hz.
    destruct He as [He|(He1 & He2 & He3)]; subst e.
    + destruct (IH s1 (skipn n blk) rest (acc ++ firstn n blk) Hd1) as (s2 & H1 & H2 & H3).
      { rewrite skipn_length. lia. }
      exists s2. rewrite <- app_assoc, firstn_skipn in H1. eauto using same_end_trans.
    + rewrite Hd1 in He1. apply app_eq_nil in He1 as [E1 E2]. rewrite E1.
      cbn. exists s1. rewrite Hd1, E1, E2.
      assert (Hall : firstn n blk = blk).
      { rewrite <- (firstn_skipn n blk) at 2. rewrite E1. symmetry. apply app_nil_r. }
      rewrite Hall. auto.
Qed.
