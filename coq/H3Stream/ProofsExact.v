(** Exactness of Stream.Read over any chunking, Write framing, Read∘Write, Content-Length. *)
From Coq Require Import List ZArith Bool Lia.
From V Require Import Gen.Params Lib.Hex Wire.Varint Wire.VarintProofs
  H3Stream.Model H3Stream.Proofs H3Stream.ProofsStream.
Import ListNotations.
Open Scope Z_scope.

Definition all_pos (bufs : list Z) : Prop := Forall (fun b => 0 < b) bufs.

(** * Stream.Read, any number of calls *)
Lemma stream_reads_spec : forall (bufs : list Z) (x : stream) (cur : list Z) (fs : list wframe),
  sinv x cur fs ->
  exists out e x' tl,
    stream_reads x bufs = (out, e, x') /\
    cur ++ payload fs = out ++ tl /\
    (e = None \/ (e = Some EEOF /\ tl = [])) /\
    quiet x x' /\
    (all_pos bufs -> (dlen x < length bufs)%nat -> e = Some EEOF).
Proof.
  induction bufs as [|n bufs IH]; intros x cur fs Hinv.
  - exists [], None, x, (cur ++ payload fs). cbn. repeat split; auto.
    intros _ H. lia.
  - destruct (stream_read_step x cur fs n Hinv)
      as (out & e & x1 & cur1 & fs1 & Hr & Hcase & Hpay & Hlen & Hq & Hprog & Hdl & _).
    cbn [stream_reads]. rewrite Hr.
    destruct Hcase as [[-> Hinv1]|(-> & -> & -> & Hinv1)].
    + destruct (IH x1 cur1 fs1 Hinv1) as (out2 & e2 & x2 & tl & Hr2 & Hpay2 & He2 & Hq2 & Hlive).
      rewrite Hr2. exists (out ++ out2), e2, x2, tl.
      split; [reflexivity|]. split; [rewrite Hpay, Hpay2, app_assoc; reflexivity|].
      split; [exact He2|]. split; [eapply quiet_trans; eauto|].
      intros Hpos Hl. inversion Hpos; subst. apply Hlive; [assumption|].
      assert ((dlen x1 < dlen x)%nat) by (apply Hprog; auto). cbn [length] in Hl. lia.
    + exists out, (Some EEOF), x1, []. cbn [app] in Hpay.
      split; [reflexivity|]. split; [rewrite Hpay; reflexivity|]. auto.
Qed.

Lemma new_stream_sinv (fs : list wframe) (sched : list Z) (fw : bool) (maxHdr : Z) :
  Forall wf_frame fs -> sinv (new_stream (mkSrc (wire fs) sched EEOF fw) maxHdr) [] fs.
Proof. intros H. repeat split; auto. Qed.

Theorem data_exact (fs : list wframe) (sched : list Z) (fw : bool) (maxHdr : Z) (bufs : list Z) :
  Forall wf_frame fs ->
  exists out e x' tl,
    stream_reads (new_stream (mkSrc (wire fs) sched EEOF fw) maxHdr) bufs = (out, e, x') /\
    payload fs = out ++ tl /\
    (e = None \/ (e = Some EEOF /\ tl = [])) /\
    x_closed x' = None /\ x_trailers x' = [] /\
    (all_pos bufs -> (length (wire fs) < length bufs)%nat -> e = Some EEOF).
Proof.
  intros Hw.
  destruct (stream_reads_spec bufs _ [] fs (new_stream_sinv fs sched fw maxHdr Hw))
    as (out & e & x' & tl & Hr & Hpay & He & (Hq1 & Hq2 & _) & Hlive).
  exists out, e, x', tl. cbn [app] in Hpay. repeat split; auto.
Qed.

(** * Stream.Write *)
Lemma stream_write_ok (x : stream) (b : list Z) :
  x_wfail x = 0 ->
  exists x', stream_write x b = (zlen b, None, x') /\
             x_written x' = x_written x ++ [data_header (zlen b); b] /\ x_wfail x' = 0.
Proof.
  intros H. unfold stream_write. rewrite H.
  destruct (Z.eqb_spec 0 (Z.of_nat (length (x_written x)) + 1)); [lia|].
  destruct (Z.eqb_spec 0 (Z.of_nat (length (x_written x)) + 2)); [lia|].
  eexists. split; [reflexivity|]. cbn. rewrite <- app_assoc. auto.
Qed.

Definition data_frame (b : list Z) : wframe := WData (vappend 0) (vappend (zlen b)) b.

Lemma data_frame_wf (b : list Z) : zlen b <= maxVarInt8 -> wf_frame (data_frame b).
Proof.
  intros H. split; apply venc_vappend; [unfold maxVarInt8; lia|]. pose proof (zlen_nonneg b). lia.
Qed.

Lemma stream_writes_wire : forall (bs : list (list Z)) (x : stream),
  x_wfail x = 0 ->
  concat (x_written (stream_writes x bs)) = concat (x_written x) ++ wire (map data_frame bs).
Proof.
  induction bs as [|b bs IH]; intros x H; cbn [stream_writes map].
  - unfold wire. cbn. symmetry. apply app_nil_r.
  - destruct (stream_write_ok x b H) as (x' & Hw & Hwr & Hf). rewrite Hw.
    rewrite IH by exact Hf. rewrite Hwr, concat_app. unfold wire. cbn [map concat enc data_frame].
    unfold data_header. repeat rewrite <- app_assoc. cbn [app]. reflexivity.
Qed.

Lemma payload_data_frames (bs : list (list Z)) : payload (map data_frame bs) = concat bs.
Proof. unfold payload. rewrite map_map. cbn. rewrite map_id. reflexivity. Qed.

Theorem read_write_id (bs : list (list Z)) (sched : list Z) (fw : bool) (maxHdr : Z) (bufs : list Z) :
  Forall (fun b => zlen b <= maxVarInt8) bs ->
  let written := concat (x_written (stream_writes (new_stream (mkSrc [] [] EEOF false) 0) bs)) in
  exists out e x' tl,
    stream_reads (new_stream (mkSrc written sched EEOF fw) maxHdr) bufs = (out, e, x') /\
    concat bs = out ++ tl /\
    (e = None \/ (e = Some EEOF /\ tl = [])) /\
    (all_pos bufs -> (length written < length bufs)%nat -> e = Some EEOF).
Proof.
  intros Hb written.
  assert (Hw : written = wire (map data_frame bs)).
  { unfold written. rewrite stream_writes_wire by reflexivity. reflexivity. }
  assert (Hwf : Forall wf_frame (map data_frame bs)).
  { apply Forall_map. eapply Forall_impl; [|exact Hb]. intros b. apply data_frame_wf. }
  destruct (data_exact (map data_frame bs) sched fw maxHdr bufs Hwf)
    as (out & e & x' & tl & Hr & Hpay & He & _ & _ & Hlive).
  rewrite Hw. rewrite payload_data_frames in Hpay. exists out, e, x', tl. auto.
Qed.

Lemma venc_1byte (v : Z) : 0 <= v < 64 -> venc [v] v.
Proof.
  intros H rest. cbn [app vparse]. replace (v / 64) with 0 by (symmetry; apply Z.div_small; lia).
  cbn. rewrite Z.mod_small by lia. reflexivity.
Qed.


(** Non-vacuity material: a concrete well-formed sequence with an unknown (GREASE) frame, a
    non-minimally encoded DATA header and an empty DATA frame. *)
Lemma venc_2byte_zero : venc [64; 0] 0.
Proof. intros [|r rest]; reflexivity. Qed.

Definition example_frames : list wframe :=
  [WIgn 33 [33] [2] [7; 7]; WData [64; 0] [3] [1; 2; 3]; WData [0] [0] []; WIgn 13 [13] [1] [9]; WData [0] [2] [4; 5]].

Lemma example_frames_wf : Forall wf_frame example_frames.
Proof.
  repeat constructor; try (apply venc_1byte; lia); try exact venc_2byte_zero.
Qed.
