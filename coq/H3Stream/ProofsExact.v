(** Exactness of Stream.Read over any chunking, Write framing, Read∘Write, Content-Length. *)
From Coq Require Import List ZArith Bool Lia.
From V Require Import Gen.Params Lib.Hex Wire.Varint Wire.VarintProofs
  H3Stream.Model H3Stream.Proofs H3Stream.ProofsStream.
Import ListNotations.
Open Scope Z_scope.

Definition all_pos (bufs : list Z) : Prop := Forall (fun b => 0 < b) bufs.

(** * Stream.Read, any number of calls *)
Lemma stream_reads_spec : forall (bufs : list Z) (x : stream) (cur : list Z) (fs : list wframe),
  sinv x cur fs ->
  exists out e x' tl,
    stream_reads x bufs = (out, e, x') /\
    cur ++ payload fs = out ++ tl /\
    (e = None \/ (e = Some EEOF /\ tl = [])) /\
    quiet x x' /\
    (all_pos bufs -> (dlen x < length bufs)%nat -> e = Some EEOF).
Proof.
  induction bufs as [|n bufs IH]; intros x cur fs Hinv.
  - exists [], None, x, (cur ++ payload fs). cbn. repeat split; auto.
    intros _ H. lia.
  - destruct (stream_read_step x cur fs n Hinv)
      as (out & e & x1 & cur1 & fs1 & Hr & Hcase & Hpay & Hlen & Hq & Hprog & Hdl & _).
    cbn [stream_reads]. rewrite Hr.
    destruct Hcase as [[-> Hinv1]|(-> & -> & -> & Hinv1)].
    + destruct (IH x1 cur1 fs1 Hinv1) as (out2 & e2 & x2 & tl & Hr2 & Hpay2 & He2 & Hq2 & Hlive).
      rewrite Hr2. exists (out ++ out2), e2, x2, tl.
      split; [reflexivity|]. split; [rewrite Hpay, Hpay2, app_assoc; reflexivity|].
      split; [exact He2|]. split; [eapply quiet_trans; eauto|].
      intros Hpos Hl. inversion Hpos; subst. apply Hlive; [assumption|].
      assert ((dlen x1 < dlen x)%nat) by (apply Hprog; auto). cbn [length] in Hl. lia.
    + exists out, (Some EEOF), x1, []. cbn [app] in Hpay.
      split; [reflexivity|]. split; [rewrite Hpay; reflexivity|]. auto.
Qed.

Lemma new_stream_sinv (fs : list wframe) (sched : list Z) (fw : bool) (maxHdr : Z) :
  Forall wf_frame fs -> sinv (new_stream (mkSrc (wire fs) sched EEOF fw) maxHdr) [] fs.
Proof. intros H. repeat split; auto. Qed.

Theorem data_exact (fs : list wframe) (sched : list Z) (fw : bool) (maxHdr : Z) (bufs : list Z) :
  Forall wf_frame fs ->
  exists out e x' tl,
    stream_reads (new_stream (mkSrc (wire fs) sched EEOF fw) maxHdr) bufs = (out, e, x') /\
    payload fs = out ++ tl /\
    (e = None \/ (e = Some EEOF /\ tl = [])) /\
    x_closed x' = None /\ x_trailers x' = [] /\
    (all_pos bufs -> (length (wire fs) < length bufs)%nat -> e = Some EEOF).
Proof.
  intros Hw.
  destruct (stream_reads_spec bufs _ [] fs (new_stream_sinv fs sched fw maxHdr Hw))
    as (out & e & x' & tl & Hr & Hpay & He & (Hq1 & Hq2 & _) & Hlive).
  exists out, e, x', tl. cbn [app] in Hpay. repeat split; auto.
Qed.

(** * Stream.Write *)
Lemma stream_write_ok (x : stream) (b : list Z) :
  x_wfail x = 0 ->
  exists x', stream_write x b = (zlen b, None, x') /\
             x_written x' = x_written x ++ [data_header (zlen b); b] /\ x_wfail x' = 0.
Proof.
  intros H. unfold stream_write. rewrite H.
  destruct (Z.eqb_spec 0 (Z.of_nat (length (x_written x)) + 1)); [lia|].
  destruct (Z.eqb_spec 0 (Z.of_nat (length (x_written x)) + 2)); [lia|].
  eexists. split; [reflexivity|]. cbn. rewrite <- app_assoc. auto.
Qed.

Definition data_frame (b : list Z) : wframe := WData (vappend 0) (vappend (zlen b)) b.

Lemma data_frame_wf (b : list Z) : zlen b <= maxVarInt8 -> wf_frame (data_frame b).
Proof.
  intros H. split; apply venc_vappend; [unfold maxVarInt8; lia|]. pose proof (zlen_nonneg b). lia.
Qed.

Lemma stream_writes_wire : forall (bs : list (list Z)) (x : stream),
  x_wfail x = 0 ->
  concat (x_written (stream_writes x bs)) = concat (x_written x) ++ wire (map data_frame bs).
Proof.
  induction bs as [|b bs IH]; intros x H; cbn [stream_writes map].
  - unfold wire. cbn. symmetry. apply app_nil_r.
  - destruct (stream_write_ok x b H) as (x' & Hw & Hwr & Hf). rewrite Hw.
    rewrite IH by exact Hf. rewrite Hwr, concat_app. unfold wire. cbn [map concat enc data_frame].
    unfold data_header. repeat rewrite <- app_assoc. cbn [app]. reflexivity.
Qed.

Lemma payload_data_frames (bs : list (list Z)) : payload (map data_frame bs) = concat bs.
Proof. unfold payload. rewrite map_map. cbn. rewrite map_id. reflexivity. Qed.

Theorem read_write_id (bs : list (list Z)) (sched : list Z) (fw : bool) (maxHdr : Z) (bufs : list Z) :
  Forall (fun b => zlen b <= maxVarInt8) bs ->
  let written := concat (x_written (stream_writes (new_stream (mkSrc [] [] EEOF false) 0) bs)) in
  exists out e x' tl,
    stream_reads (new_stream (mkSrc written sched EEOF fw) maxHdr) bufs = (out, e, x') /\
    concat bs = out ++ tl /\
    (e = None \/ (e = Some EEOF /\ tl = [])) /\
    (all_pos bufs -> (length written < length bufs)%nat -> e = Some EEOF).
Proof.
  intros Hb written.
  assert (Hw : written = wire (map data_frame bs)).
  { unfold written. rewrite stream_writes_wire by reflexivity. reflexivity. }
  assert (Hwf : Forall wf_frame (map data_frame bs)).
  { apply Forall_map. eapply Forall_impl; [|exact Hb]. intros b. apply data_frame_wf. }
  destruct (data_exact (map data_frame bs) sched fw maxHdr bufs Hwf)
    as (out & e & x' & tl & Hr & Hpay & He & _ & _ & Hlive).
  rewrite Hw. rewrite payload_data_frames in Hpay. exists out, e, x', tl. auto.
Qed.

(** * The body: Content-Length accounting *)
Definition binv (b : body) (cur : list Z) (fs : list wframe) : Prop :=
  b_has b = true /\ b_violated b = false /\ b_cancels b = [] /\ 0 <= b_rem b /\ sinv (b_str b) cur fs.

Definition reset_both : list (Z * Z) := [(0, h3ErrCodeMessageError); (1, h3ErrCodeMessageError)].

Lemma check_cl_quiet (b : body) (cur : list Z) (fs : list wframe) :
  binv b cur fs -> (b_rem b = 0 -> cur = []) -> check_cl b = (None, b).
Proof.
  intros (Hh & Hv & Hc & Hr & (Hx & _)) H0. unfold check_cl. rewrite Hh. cbn [negb].
  destruct (Z.ltb_spec (b_rem b) 0); [lia|]. cbn [orb].
  destruct (Z.eqb_spec (b_rem b) 0) as [E|E]; [|reflexivity].
  rewrite Hx, (H0 E). reflexivity.
Qed.

Lemma check_cl_fires (b : body) (cur : list Z) (fs : list wframe) :
  binv b cur fs -> b_rem b = 0 -> cur <> [] ->
  exists b', check_cl b = (Some ETooMuchData, b') /\ b_cancels b' = reset_both /\ b_violated b' = true /\
             b_str b' = b_str b.
Proof.
  intros (Hh & Hv & Hc & Hr & (Hx & _)) H0 Hne. unfold check_cl. rewrite Hh, H0, Hx, Hv, Hc. cbn.
  assert (0 < zlen cur) by (destruct cur; [congruence|unfold zlen; simpl; lia]).
  destruct (Z.ltb_spec 0 (zlen cur)); [|lia]. eexists. split; [reflexivity|]. auto.
Qed.

Lemma binv_mk (x : stream) (r : Z) (cur : list Z) (fs : list wframe) :
  0 <= r -> sinv x cur fs -> binv (mkBody x r true false []) cur fs.
Proof. intros. repeat split; cbn; auto; apply H0. Qed.

Definition bdlen (b : body) : nat := dlen (b_str b).

(** One body.Read when MORE payload remains than the Content-Length allows. *)
Lemma body_read_over_step (b : body) (cur : list Z) (fs : list wframe) (blen : Z) :
  binv b cur fs -> b_rem b < zlen (cur ++ payload fs) ->
  exists out e b',
    body_read b blen = (out, e, b') /\
    ((e = None /\ exists cur' fs', binv b' cur' fs' /\ b_rem b' < zlen (cur' ++ payload fs') /\
                   cur ++ payload fs = out ++ cur' ++ payload fs' /\ b_rem b' = b_rem b - zlen out /\
                   (0 < blen -> (bdlen b' < bdlen b)%nat))
     \/ (e = Some ETooMuchData /\ zlen out = b_rem b /\ (exists tl, cur ++ payload fs = out ++ tl) /\
         b_cancels b' = reset_both)).
Proof.
  intros Hinv Hover. pose proof Hinv as (Hh & Hv & Hc & Hr & Hs).
  destruct b as [x0 r0 h0 v0 c0']. cbn [b_str b_rem b_has b_violated b_cancels] in *. subst h0 v0 c0'.
  unfold body_read. cbn [b_str b_rem b_has b_violated b_cancels].
  destruct (Z.eq_dec r0 0) as [E0|E0]; [destruct cur as [|c0 cur0]|].
  - (* nothing owed, no frame open: the next frame decides *)
    subst r0. rewrite (check_cl_quiet _ [] fs Hinv) by auto.
    destruct (stream_read_step x0 [] fs (Z.min blen 0) Hs)
      as (out & e & x1 & cur1 & fs1 & Hrd & Hcase & Hpay & Hlen & Hq & Hprog & Hdl & _).
    rewrite Hrd. cbv beta iota. assert (Hout : out = []) by (apply zlen_nil_inv; lia). subst out.
    destruct Hcase as [[-> Hinv1]|(-> & -> & -> & Hinv1)].
    + change (zlen (@nil Z)) with 0. rewrite Z.sub_0_r.
      set (b1 := mkBody x1 0 true false []).
      assert (Hb1 : binv b1 cur1 fs1) by (apply binv_mk; auto; lia).
      destruct cur1 as [|c1 cur1'].
      * rewrite (check_cl_quiet b1 [] fs1 Hb1) by auto. cbn [option_map].
        exists [], None, b1. split; [reflexivity|]. left. split; [reflexivity|].
        exists [], fs1. split; [exact Hb1|]. cbn [app] in *. rewrite <- Hpay.
        split; [cbn; lia|]. split; [reflexivity|]. split; [cbn; lia|].
        intros _. unfold bdlen. cbn. apply Hprog; auto.
      * destruct (check_cl_fires b1 (c1 :: cur1') fs1 Hb1 eq_refl ltac:(discriminate)) as (b2 & Hc2 & Hcc & _).
        rewrite Hc2. exists [], (Some ETooMuchData), b2. split; [reflexivity|]. right.
        split; [reflexivity|]. split; [unfold zlen; simpl; lia|]. split; [|exact Hcc].
        eexists. reflexivity.
    + exfalso. cbn [app] in Hpay. rewrite Hpay in Hover. unfold zlen in Hover. cbn in Hover. lia.
  - (* nothing owed but a DATA frame is open: violation *)
    destruct (check_cl_fires _ (c0 :: cur0) fs Hinv E0 ltac:(discriminate)) as (b2 & Hc2 & Hcc & _).
    rewrite Hc2. exists [], (Some ETooMuchData), b2. split; [reflexivity|]. right.
    split; [reflexivity|]. split; [unfold zlen; simpl; lia|]. split; [|exact Hcc].
    eexists. reflexivity.
  - rewrite (check_cl_quiet _ cur fs Hinv) by (cbn; intros; lia).
    destruct (stream_read_step x0 cur fs (Z.min blen r0) Hs)
      as (out & e & x1 & cur1 & fs1 & Hrd & Hcase & Hpay & Hlen & Hq & Hprog & Hdl & _).
    rewrite Hrd. cbv beta iota.
    assert (Hol : zlen out <= r0) by lia.
    destruct Hcase as [[-> Hinv1]|(-> & -> & -> & Hinv1)].
    + set (b1 := mkBody x1 (r0 - zlen out) true false []).
      assert (Hb1 : binv b1 cur1 fs1) by (apply binv_mk; auto; lia).
      assert (Hrem1 : r0 - zlen out < zlen (cur1 ++ payload fs1)).
      { rewrite Hpay in Hover. rewrite zlen_app in Hover. lia. }
      destruct (Z.eq_dec (r0 - zlen out) 0) as [E1|E1]; [destruct cur1 as [|c1 cur1']|].
      * rewrite (check_cl_quiet b1 [] fs1 Hb1) by auto. cbn [option_map].
        exists out, None, b1. split; [reflexivity|]. left. split; [reflexivity|].
        exists [], fs1. split; [exact Hb1|]. split; [exact Hrem1|]. split; [exact Hpay|]. split; [reflexivity|].
        intros Hb. unfold bdlen. cbn. apply Hprog; auto. left. lia.
      * destruct (check_cl_fires b1 (c1 :: cur1') fs1 Hb1 E1 ltac:(discriminate)) as (b2 & Hc2 & Hcc & _).
        rewrite Hc2. exists out, (Some ETooMuchData), b2. split; [reflexivity|]. right.
        split; [reflexivity|]. split; [lia|]. split; [|exact Hcc]. eexists. exact Hpay.
      * rewrite (check_cl_quiet b1 cur1 fs1 Hb1) by (cbn; intros; lia). cbn [option_map].
        exists out, None, b1. split; [reflexivity|]. left. split; [reflexivity|].
        exists cur1, fs1. split; [exact Hb1|]. split; [exact Hrem1|]. split; [exact Hpay|]. split; [reflexivity|].
        intros Hb. unfold bdlen. cbn. apply Hprog; auto. left. lia.
    + exfalso. cbn [app] in Hpay. rewrite Hpay, app_nil_r in Hover. lia.
Qed.

Lemma body_reads_over : forall (bufs : list Z) (b : body) (cur : list Z) (fs : list wframe),
  binv b cur fs -> b_rem b < zlen (cur ++ payload fs) ->
  exists out e b' tl,
    body_reads b bufs = (out, e, b') /\
    cur ++ payload fs = out ++ tl /\
    ((e = None /\ zlen out <= b_rem b /\ b_cancels b' = []) \/
     (e = Some ETooMuchData /\ zlen out = b_rem b /\ b_cancels b' = reset_both)) /\
    (all_pos bufs -> (bdlen b < length bufs)%nat -> e = Some ETooMuchData).
Proof.
  induction bufs as [|n bufs IH]; intros b cur fs Hinv Hover.
  - exists [], None, b, (cur ++ payload fs). cbn. pose proof Hinv as (_ & _ & Hc & Hr & _).
    change (zlen (@nil Z)) with 0.
    split; [reflexivity|]. split; [reflexivity|]. split; [left; auto|]. intros _ H. lia.
  - destruct (body_read_over_step b cur fs n Hinv Hover) as (out & e & b1 & Hr & Hcase).
    cbn [body_reads]. rewrite Hr.
    destruct Hcase as [(-> & cur1 & fs1 & Hinv1 & Hover1 & Hpay & Hrem & Hprog)|(-> & Hlen & [tl Hpay] & Hcc)].
    + destruct (IH b1 cur1 fs1 Hinv1 Hover1) as (out2 & e2 & b2 & tl & Hr2 & Hpay2 & He2 & Hlive).
      rewrite Hr2. exists (out ++ out2), e2, b2, tl.
      split; [reflexivity|]. split; [rewrite Hpay, Hpay2, app_assoc; reflexivity|].
      split.
      { rewrite zlen_app. destruct He2 as [(-> & Hl & Hc2)|(-> & Hl & Hc2)]; [left|right]; repeat split; auto; lia. }
      intros Hpos Hl. inversion Hpos; subst. apply Hlive; [assumption|].
      specialize (Hprog ltac:(assumption)). cbn [length] in Hl. lia.
    + exists out, (Some ETooMuchData), b1, tl.
      split; [reflexivity|]. split; [exact Hpay|]. split; [right; auto|]. auto.
Qed.

(** One body.Read when the payload that remains does NOT exceed what is still owed
    (Content-Length exact, or larger than the body): the check never fires, so a short body
    ends with the stream's plain EOF. *)
Lemma body_read_le_step (b : body) (cur : list Z) (fs : list wframe) (blen : Z) :
  binv b cur fs -> zlen (cur ++ payload fs) <= b_rem b ->
  exists out e b' cur' fs',
    body_read b blen = (out, e, b') /\
    binv b' cur' fs' /\ zlen (cur' ++ payload fs') <= b_rem b' /\
    cur ++ payload fs = out ++ cur' ++ payload fs' /\ b_rem b' = b_rem b - zlen out /\
    (e = None \/ (e = Some EEOF /\ cur' = [] /\ fs' = [])) /\
    (0 < blen -> e = None -> (bdlen b' < bdlen b)%nat).
Proof.
  intros Hinv Hle. pose proof Hinv as (Hh & Hv & Hc & Hr & Hs).
  destruct b as [x0 r0 h0 v0 c0']. cbn [b_str b_rem b_has b_violated b_cancels] in *. subst h0 v0 c0'.
  assert (Hcur0 : r0 = 0 -> cur = []).
  { intros E. rewrite zlen_app in Hle. pose proof (zlen_nonneg (payload fs)). apply zlen_nil_inv. lia. }
  unfold body_read. rewrite (check_cl_quiet _ cur fs Hinv Hcur0). cbn [b_str b_rem b_has b_violated b_cancels].
  destruct (stream_read_step x0 cur fs (Z.min blen r0) Hs)
    as (out & e & x1 & cur1 & fs1 & Hrd & Hcase & Hpay & Hlen & Hq & Hprog & Hdl & _).
  rewrite Hrd. cbv beta iota.
  assert (Hol : zlen out <= r0) by lia.
  set (b1 := mkBody x1 (r0 - zlen out) true false []).
  assert (Hle1 : zlen (cur1 ++ payload fs1) <= r0 - zlen out).
  { rewrite Hpay in Hle. rewrite zlen_app in Hle. lia. }
  assert (Hb1 : binv b1 cur1 fs1).
  { destruct Hcase as [[_ Hi]|(_ & -> & -> & Hi)]; apply binv_mk; auto; lia. }
  assert (Hq1 : check_cl b1 = (None, b1)).
  { apply (check_cl_quiet b1 cur1 fs1 Hb1). cbn. intros E. rewrite E in Hle1. rewrite zlen_app in Hle1.
    pose proof (zlen_nonneg (payload fs1)). apply zlen_nil_inv. lia. }
  rewrite Hq1. exists out, (option_map replace_error e), b1, cur1, fs1.
  split; [reflexivity|]. split; [exact Hb1|]. split; [exact Hle1|]. split; [exact Hpay|].
  split; [reflexivity|]. split.
  { destruct Hcase as [[-> _]|(-> & -> & -> & _)]; cbn; auto. }
  intros Hb He. unfold bdlen. cbn. apply Hprog.
  - destruct (Z.eq_dec r0 0) as [E|E]; [right; auto|left; lia].
  - destruct e; [discriminate|reflexivity].
Qed.

Lemma body_reads_le : forall (bufs : list Z) (b : body) (cur : list Z) (fs : list wframe),
  binv b cur fs -> zlen (cur ++ payload fs) <= b_rem b ->
  exists out e b' tl,
    body_reads b bufs = (out, e, b') /\
    cur ++ payload fs = out ++ tl /\
    (e = None \/ (e = Some EEOF /\ tl = [])) /\
    b_cancels b' = [] /\ b_rem b' = b_rem b - zlen out /\
    (all_pos bufs -> (bdlen b < length bufs)%nat -> e = Some EEOF).
Proof.
  induction bufs as [|n bufs IH]; intros b cur fs Hinv Hle.
  - exists [], None, b, (cur ++ payload fs). cbn. pose proof Hinv as (_ & _ & Hc & _).
    change (zlen (@nil Z)) with 0.
    split; [reflexivity|]. split; [reflexivity|]. split; [left; reflexivity|]. split; [exact Hc|].
    split; [lia|]. intros _ H. lia.
  - destruct (body_read_le_step b cur fs n Hinv Hle)
      as (out & e & b1 & cur1 & fs1 & Hr & Hinv1 & Hle1 & Hpay & Hrem & He & Hprog).
    cbn [body_reads]. rewrite Hr.
    destruct He as [->|(-> & -> & ->)].
    + destruct (IH b1 cur1 fs1 Hinv1 Hle1) as (out2 & e2 & b2 & tl & Hr2 & Hpay2 & He2 & Hc2 & Hrem2 & Hlive).
      rewrite Hr2. exists (out ++ out2), e2, b2, tl.
      split; [reflexivity|]. split; [rewrite Hpay, Hpay2, app_assoc; reflexivity|].
      split; [exact He2|]. split; [exact Hc2|]. split; [rewrite zlen_app; lia|].
      intros Hpos Hl. inversion Hpos; subst. apply Hlive; [assumption|].
      specialize (Hprog ltac:(assumption) eq_refl). cbn [length] in Hl. lia.
    + exists out, (Some EEOF), b1, []. pose proof Hinv1 as (_ & _ & Hc & _). cbn [app] in Hpay.
      split; [reflexivity|]. split; [rewrite Hpay; reflexivity|]. split; [right; auto|].
      split; [exact Hc|]. split; [exact Hrem|]. auto.
Qed.

Lemma new_body_binv (fs : list wframe) (sched : list Z) (fw : bool) (maxHdr cl : Z) :
  Forall wf_frame fs -> 0 <= cl ->
  binv (new_body (new_stream (mkSrc (wire fs) sched EEOF fw) maxHdr) cl) [] fs /\
  b_rem (new_body (new_stream (mkSrc (wire fs) sched EEOF fw) maxHdr) cl) = cl /\
  bdlen (new_body (new_stream (mkSrc (wire fs) sched EEOF fw) maxHdr) cl) = length (wire fs).
Proof.
  intros Hw Hcl. unfold new_body. destruct (Z.leb_spec 0 cl); [|lia].
  split; [|split; reflexivity]. repeat split; auto.
Qed.

(** Body longer than declared: errTooMuchData after exactly the declared bytes, both
    directions reset with H3_MESSAGE_ERROR; never EOF, never more than declared. *)
Theorem content_length_over (fs : list wframe) (sched : list Z) (fw : bool) (maxHdr cl : Z) (bufs : list Z) :
  Forall wf_frame fs -> 0 <= cl < zlen (payload fs) ->
  exists out e b' tl,
    body_reads (new_body (new_stream (mkSrc (wire fs) sched EEOF fw) maxHdr) cl) bufs = (out, e, b') /\
    payload fs = out ++ tl /\
    ((e = None /\ zlen out <= cl /\ b_cancels b' = []) \/
     (e = Some ETooMuchData /\ zlen out = cl /\ b_cancels b' = reset_both)) /\
    (all_pos bufs -> (length (wire fs) < length bufs)%nat -> e = Some ETooMuchData).
Proof.
  intros Hw Hcl. destruct (new_body_binv fs sched fw maxHdr cl Hw ltac:(lia)) as (Hinv & Hrem & Hdl).
  destruct (body_reads_over bufs _ [] fs Hinv) as (out & e & b' & tl & Hr & Hpay & He & Hlive).
  { rewrite Hrem. cbn [app]. lia. }
  rewrite Hrem in He. rewrite Hdl in Hlive. exists out, e, b', tl. cbn [app] in Hpay.
  split; [exact Hr|]. split; [exact Hpay|]. split; [exact He|]. exact Hlive.
Qed.

(** Body not longer than declared (exact or SHORTER): the reads deliver the payload and the
    only error is the plain EOF of the stream -- also when bytes are still owed. *)
Theorem content_length_le (fs : list wframe) (sched : list Z) (fw : bool) (maxHdr cl : Z) (bufs : list Z) :
  Forall wf_frame fs -> zlen (payload fs) <= cl ->
  exists out e b' tl,
    body_reads (new_body (new_stream (mkSrc (wire fs) sched EEOF fw) maxHdr) cl) bufs = (out, e, b') /\
    payload fs = out ++ tl /\
    (e = None \/ (e = Some EEOF /\ tl = [])) /\
    b_cancels b' = [] /\ b_rem b' = cl - zlen out /\
    (all_pos bufs -> (length (wire fs) < length bufs)%nat -> e = Some EEOF).
Proof.
  intros Hw Hcl. pose proof (zlen_nonneg (payload fs)).
  destruct (new_body_binv fs sched fw maxHdr cl Hw ltac:(lia)) as (Hinv & Hrem & Hdl).
  destruct (body_reads_le bufs _ [] fs Hinv) as (out & e & b' & tl & Hr & Hpay & He & Hc & Hrm & Hlive).
  { rewrite Hrem. cbn [app]. lia. }
  rewrite Hrem in Hrm. rewrite Hdl in Hlive. exists out, e, b', tl. cbn [app] in Hpay.
  split; [exact Hr|]. split; [exact Hpay|]. split; [exact He|]. split; [exact Hc|]. split; [exact Hrm|]. exact Hlive.
Qed.

(** * The candidate finding, on the model: a body SHORTER than its Content-Length ends with a
    plain EOF.  Witness: Content-Length 5, one DATA frame "abc", clean end of stream. *)
Definition under_witness_frames : list wframe := [WData [0] [3] [97; 98; 99]].

Lemma venc_1byte (v : Z) : 0 <= v < 64 -> venc [v] v.
Proof.
  intros H rest. cbn [app vparse]. replace (v / 64) with 0 by (symmetry; apply Z.div_small; lia).
  cbn. rewrite Z.mod_small by lia. reflexivity.
Qed.

Lemma under_witness_wf : Forall wf_frame under_witness_frames.
Proof. repeat constructor; apply venc_1byte; lia. Qed.

Lemma content_length_under_witness :
  exists (fs : list wframe) (cl : Z) (bufs : list Z) (b' : body),
    Forall wf_frame fs /\ zlen (payload fs) < cl /\
    body_reads (new_body (new_stream (mkSrc (wire fs) [] EEOF false) 1000) cl) bufs = (payload fs, Some EEOF, b') /\
    b_cancels b' = [] /\ 0 < b_rem b'.
Proof.
  exists under_witness_frames, 5, [16; 16]. eexists.
  split; [exact under_witness_wf|]. split; [vm_compute; reflexivity|].
  split; [vm_compute; reflexivity|]. split; vm_compute; reflexivity.
Qed.

(** ... and not only for the witness: whenever fewer bytes arrive than declared, the only error
    a caller can ever see is the plain EOF, with [cl - |payload|] bytes still owed. *)
Corollary content_length_under_always_eof (fs : list wframe) (sched : list Z) (fw : bool) (maxHdr cl : Z) (bufs : list Z) :
  Forall wf_frame fs -> zlen (payload fs) < cl -> all_pos bufs -> (length (wire fs) < length bufs)%nat ->
  exists b', body_reads (new_body (new_stream (mkSrc (wire fs) sched EEOF fw) maxHdr) cl) bufs = (payload fs, Some EEOF, b') /\
             b_cancels b' = [] /\ b_rem b' = cl - zlen (payload fs) /\ 0 < b_rem b'.
Proof.
  intros Hw Hcl Hpos Hlen.
  destruct (content_length_le fs sched fw maxHdr cl bufs Hw ltac:(lia)) as (out & e & b' & tl & Hr & Hpay & He & Hc & Hrm & Hlive).
  specialize (Hlive Hpos Hlen). subst e. destruct He as [He|[_ ->]]; [discriminate|].
  rewrite app_nil_r in Hpay. subst out. exists b'. repeat split; auto. lia.
Qed.

(** Non-vacuity material: a concrete well-formed sequence with an unknown (GREASE) frame, a
    non-minimally encoded DATA header and an empty DATA frame. *)
Lemma venc_2byte_zero : venc [64; 0] 0.
Proof. intros [|r rest]; reflexivity. Qed.

Definition example_frames : list wframe :=
  [WIgn 33 [33] [2] [7; 7]; WData [64; 0] [3] [1; 2; 3]; WData [0] [0] []; WIgn 13 [13] [1] [9]; WData [0] [2] [4; 5]].

Lemma example_frames_wf : Forall wf_frame example_frames.
Proof.
  repeat constructor; try (apply venc_1byte; lia); try exact venc_2byte_zero.
Qed.
