(** frameParser.ParseNext is independent of how the quic stream chunks the bytes into Reads:
    for EVERY input (well-formed or not) and any two short-read schedules the result, the
    connection-close decision and the bytes left in the stream are the same. *)
From Coq Require Import List ZArith Bool Lia.
From V Require Import Gen.Params Lib.Hex Wire.Varint H3Stream.Model H3Stream.Proofs.
Import ListNotations.
Open Scope Z_scope.

(** equal up to the schedule *)
Definition seq (a b : src) : Prop :=
  s_data a = s_data b /\ s_fin a = s_fin b /\ s_finWith a = s_finWith b.

Lemma seq_refl a : seq a a. Proof. repeat split. Qed.
Lemma seq_sym a b : seq a b -> seq b a. Proof. intros (H1 & H2 & H3). repeat split; auto. Qed.
Lemma seq_trans a b c : seq a b -> seq b c -> seq a c.
Proof. intros (A1 & A2 & A3) (B1 & B2 & B3). repeat split; congruence. Qed.

Lemma src_eta (s : src) (d : list Z) (f : err) (w : bool) :
  s_data s = d -> s_fin s = f -> s_finWith s = w -> s = mkSrc d (s_sched s) f w.
Proof. destruct s; cbn; intros; subst; reflexivity. Qed.

(** * One byte *)
Definition rb_res (d : list Z) (fin : err) (fw : bool) : (err + Z) * list Z :=
  match d with
  | [] => (inl fin, [])
  | b :: [] => if fw && negb (is_eof fin) then (inl fin, []) else (inr b, [])
  | b :: r => (inr b, r)
  end.

Lemma read_byte_spec (s : src) :
  exists sc', read_byte s = (fst (rb_res (s_data s) (s_fin s) (s_finWith s)),
                             mkSrc (snd (rb_res (s_data s) (s_fin s) (s_finWith s))) sc' (s_fin s) (s_finWith s)).
Proof.
  destruct s as [d sc fin fw]. cbn [s_data s_fin s_finWith].
  destruct d as [|b r].
  - exists sc. reflexivity.
  - unfold read_byte, src_read. cbn [s_data s_sched s_fin s_finWith]. cbn [Z.leb Z.compare].
    assert (Hn : Z.to_nat (Z.min 1 (match sc with [] => 1 | c :: _ => Z.max 1 c end)) = 1%nat).
    { destruct sc; lia. }
    rewrite Hn. cbn [firstn skipn]. exists (tl sc).
    destruct r as [|y r]; cbn [rb_res fst snd].
    + destruct fw; cbn [andb]; [|reflexivity]. destruct (is_eof fin); reflexivity.
    + reflexivity.
Qed.

Lemma read_byte_seq (a b : src) : seq a b ->
  fst (read_byte a) = fst (read_byte b) /\ seq (snd (read_byte a)) (snd (read_byte b)).
Proof.
  intros (H1 & H2 & H3).
  destruct (read_byte_spec a) as (sa & Ha). destruct (read_byte_spec b) as (sb & Hb).
  rewrite Ha, Hb, H1, H2, H3. cbn. repeat split.
Qed.

Lemma read_bytes_seq : forall (n : nat) (a b : src) (acc : Z), seq a b ->
  fst (read_bytes n a acc) = fst (read_bytes n b acc) /\ seq (snd (read_bytes n a acc)) (snd (read_bytes n b acc)).
Proof.
  induction n as [|n IH]; intros a b acc H; cbn [read_bytes]; [auto|].
  destruct (read_byte_seq a b H) as [H1 H2].
  destruct (read_byte a) as [ra sa], (read_byte b) as [rb sb]. cbn [fst snd] in *. subst rb.
  destruct ra as [e|x]; [auto|]. apply IH. exact H2.
Qed.

Lemma read_varint_seq (a b : src) : seq a b ->
  fst (read_varint a) = fst (read_varint b) /\ seq (snd (read_varint a)) (snd (read_varint b)).
Proof.
  intros H. unfold read_varint.
  destruct (read_byte_seq a b H) as [H1 H2].
  destruct (read_byte a) as [ra sa], (read_byte b) as [rb sb]. cbn [fst snd] in *. subst rb.
  destruct ra as [e|first]; [auto|].
  set (n := if first / 64 =? 0 then 0%nat else if first / 64 =? 1 then 1%nat else if first / 64 =? 2 then 3%nat else 7%nat).
  destruct (read_bytes_seq n sa sb (first mod 64) H2) as [H3 H4].
  destruct (read_bytes n sa (first mod 64)) as [r1 s1], (read_bytes n sb (first mod 64)) as [r2 s2].
  cbn [fst snd] in *. subst r2. destruct r1; auto.
Qed.

(** * Skipping *)
Lemma skipn_skipn {A} (a b : nat) (l : list A) : skipn a (skipn b l) = skipn (b + a) l.
Proof.
  revert l. induction b as [|b IH]; intros l; [reflexivity|]. destruct l; [destruct a; reflexivity|]. cbn. apply IH.
Qed.
Lemma firstn_add {A} (a b : nat) (l : list A) : firstn (a + b) l = firstn a l ++ firstn b (skipn a l).
Proof.
  revert l. induction a as [|a IH]; intros l; [reflexivity|]. destruct l; [destruct b; reflexivity|]. cbn. f_equal. apply IH.
Qed.

Definition skip_res (d : list Z) (fin : err) (l : Z) : option err * list Z :=
  if l <=? zlen d then (None, skipn (Z.to_nat l) d) else (Some fin, []).

Lemma skip_spec : forall (fuel : nat) (s : src) (l : Z), (length (s_data s) < fuel)%nat ->
  exists sc', skip fuel s l = (fst (skip_res (s_data s) (s_fin s) l),
                               mkSrc (snd (skip_res (s_data s) (s_fin s) l)) sc' (s_fin s) (s_finWith s)).
Proof.
  induction fuel as [|f IH]; intros s l Hf; [lia|].
  cbn [skip]. unfold skip_res. pose proof (zlen_nonneg (s_data s)) as Hz.
  destruct (Z.leb_spec l 0) as [Hl|Hl].
  - destruct (Z.leb_spec l (zlen (s_data s))); [|lia].
    replace (Z.to_nat l) with 0%nat by lia. cbn. exists (s_sched s). destruct s; reflexivity.
  - destruct (s_data s) as [|b d] eqn:Hd.
    + rewrite src_read_empty by exact Hd. change (zlen (@nil Z)) with 0 in *.
      destruct (Z.leb_spec (l - 0) 0); [lia|]. destruct (Z.leb_spec l 0); [lia|].
      cbn. exists (s_sched s). destruct s; cbn in *; subst; reflexivity.
    + destruct (src_read_some s (Z.min discardBuf l)) as (n & e & s1 & Hr & Hn1 & Hn2 & Hn3 & Hd1 & [Hse1 Hse2] & He).
      { rewrite Hd. discriminate. } { unfold discardBuf. lia. }
      rewrite Hr. rewrite Hd in *. rewrite zlen_firstn by exact Hn3.
      assert (Hzs : zlen (skipn n (b :: d)) = zlen (b :: d) - Z.of_nat n).
      { rewrite zlen_skipn, Nat.min_l by exact Hn3. reflexivity. }
      destruct He as [->|(He1 & He2 & ->)].
      * destruct (IH s1 (l - Z.of_nat n)) as (sc' & Hs).
        { rewrite Hd1, skipn_length. cbn [length] in *. lia. }
        rewrite Hs. unfold skip_res. rewrite Hd1, Hzs, Hse1, Hse2.
        destruct (Z.leb_spec (l - Z.of_nat n) (zlen (b :: d) - Z.of_nat n)), (Z.leb_spec l (zlen (b :: d))); try lia.
        -- cbn [fst snd]. rewrite skipn_skipn. replace (n + Z.to_nat (l - Z.of_nat n))%nat with (Z.to_nat l) by lia.
           exists sc'. reflexivity.
        -- exists sc'. reflexivity.
      * rewrite Hd1 in He1.
        assert (Hall : (n = length (b :: d))%nat).
        { apply (f_equal (@length Z)) in He1. rewrite skipn_length in He1. cbn [length] in *. lia. }
        assert (Hzn : zlen (b :: d) = Z.of_nat n) by (unfold zlen; lia).
        destruct (Z.leb_spec (l - Z.of_nat n) 0), (Z.leb_spec l (zlen (b :: d))); try lia; cbn [fst snd].
        -- assert (l = Z.of_nat n) by lia. subst l. rewrite Nat2Z.id.
           exists (s_sched s1). f_equal. apply src_eta; auto.
        -- exists (s_sched s1). f_equal. apply src_eta; auto. congruence.
Qed.

Lemma skip_seq (fa fb : nat) (a b : src) (l : Z) : seq a b ->
  (length (s_data a) < fa)%nat -> (length (s_data b) < fb)%nat ->
  fst (skip fa a l) = fst (skip fb b l) /\ seq (snd (skip fa a l)) (snd (skip fb b l)).
Proof.
  intros (H1 & H2 & H3) Ha Hb.
  destruct (skip_spec fa a l Ha) as (sa & Ea). destruct (skip_spec fb b l Hb) as (sb & Eb).
  rewrite Ea, Eb, H1, H2, H3. cbn. repeat split.
Qed.

(** * io.ReadFull *)
Definition rf_res (d : list Z) (fin : err) (want : Z) (acc : list Z) : (err + list Z) * list Z :=
  if want <=? zlen d then (inr (acc ++ firstn (Z.to_nat want) d), skipn (Z.to_nat want) d)
  else (inl (if is_eof fin && negb (match acc ++ d with [] => true | _ => false end) then EUnexpectedEOF else fin), []).

Lemma read_full_spec : forall (fuel : nat) (s : src) (want : Z) (acc : list Z), (length (s_data s) < fuel)%nat ->
  exists sc', read_full fuel s want acc = (fst (rf_res (s_data s) (s_fin s) want acc),
                                           mkSrc (snd (rf_res (s_data s) (s_fin s) want acc)) sc' (s_fin s) (s_finWith s)).
Proof.
  induction fuel as [|f IH]; intros s want acc Hf; [lia|].
  cbn [read_full]. unfold rf_res. pose proof (zlen_nonneg (s_data s)) as Hz.
  destruct (Z.leb_spec want 0) as [Hl|Hl].
  - destruct (Z.leb_spec want (zlen (s_data s))); [|lia].
    replace (Z.to_nat want) with 0%nat by lia. cbn. rewrite app_nil_r. exists (s_sched s). destruct s; reflexivity.
  - destruct (s_data s) as [|b d] eqn:Hd.
    + rewrite src_read_empty by exact Hd. change (zlen (@nil Z)) with 0 in *.
      destruct (Z.leb_spec (want - 0) 0); [lia|]. destruct (Z.leb_spec want 0); [lia|].
      cbn [fst snd]. exists (s_sched s). destruct s; cbn in *; subst; reflexivity.
    + destruct (src_read_some s want) as (n & e & s1 & Hr & Hn1 & Hn2 & Hn3 & Hd1 & [Hse1 Hse2] & He).
      { rewrite Hd. discriminate. } { lia. }
      rewrite Hr. rewrite Hd in *. rewrite zlen_firstn by exact Hn3.
      assert (Hzs : zlen (skipn n (b :: d)) = zlen (b :: d) - Z.of_nat n).
      { rewrite zlen_skipn, Nat.min_l by exact Hn3. reflexivity. }
      destruct He as [->|(He1 & He2 & ->)].
      * destruct (IH s1 (want - Z.of_nat n) (acc ++ firstn n (b :: d))) as (sc' & Hs).
        { rewrite Hd1, skipn_length. cbn [length] in *. lia. }
        rewrite Hs. unfold rf_res. rewrite Hd1, Hzs, Hse1, Hse2.
        destruct (Z.leb_spec (want - Z.of_nat n) (zlen (b :: d) - Z.of_nat n)), (Z.leb_spec want (zlen (b :: d))); try lia; cbn [fst snd].
        -- rewrite skipn_skipn. replace (n + Z.to_nat (want - Z.of_nat n))%nat with (Z.to_nat want) by lia.
           rewrite <- app_assoc. rewrite <- firstn_add. replace (n + Z.to_nat (want - Z.of_nat n))%nat with (Z.to_nat want) by lia.
           exists sc'. reflexivity.
        -- rewrite <- app_assoc, firstn_skipn. exists sc'. reflexivity.
      * rewrite Hd1 in He1.
        assert (Hall : (n = length (b :: d))%nat).
        { apply (f_equal (@length Z)) in He1. rewrite skipn_length in He1. cbn [length] in *. lia. }
        assert (Hzn : zlen (b :: d) = Z.of_nat n) by (unfold zlen; lia).
        assert (Hfn : firstn n (b :: d) = b :: d) by (rewrite Hall; apply firstn_all).
        destruct (Z.leb_spec (want - Z.of_nat n) 0), (Z.leb_spec want (zlen (b :: d))); try lia; cbn [fst snd].
        -- assert (want = Z.of_nat n) by lia. subst want. rewrite Nat2Z.id.
           exists (s_sched s1). f_equal. apply src_eta; auto.
        -- rewrite Hfn. exists (s_sched s1). f_equal. apply src_eta; auto. congruence.
Qed.

Lemma read_full_seq (fa fb : nat) (a b : src) (want : Z) (acc : list Z) : seq a b ->
  (length (s_data a) < fa)%nat -> (length (s_data b) < fb)%nat ->
  fst (read_full fa a want acc) = fst (read_full fb b want acc) /\
  seq (snd (read_full fa a want acc)) (snd (read_full fb b want acc)).
Proof.
  intros (H1 & H2 & H3) Ha Hb.
  destruct (read_full_spec fa a want acc Ha) as (sa & Ea). destruct (read_full_spec fb b want acc Hb) as (sb & Eb).
  rewrite Ea, Eb, H1, H2, H3. cbn. repeat split.
Qed.

(** * The parser *)
Lemma fuel_of_gt (s : src) : (length (s_data s) < fuel_of s)%nat.
Proof. unfold fuel_of. lia. Qed.

Lemma parse_settings_seq (a b : src) (l : Z) : seq a b ->
  fst (parse_settings a l) = fst (parse_settings b l) /\ seq (snd (parse_settings a l)) (snd (parse_settings b l)).
Proof.
  intros H. unfold parse_settings. destruct (l >? maxSettingsLen); [auto|].
  destruct (read_full_seq (fuel_of a) (fuel_of b) a b l [] H (fuel_of_gt a) (fuel_of_gt b)) as [H1 H2].
  destruct (read_full (fuel_of a) a l []) as [r1 s1], (read_full (fuel_of b) b l []) as [r2 s2].
  cbn [fst snd] in *. subst r2. destruct r1 as [e|buf]; [auto|]. destruct (settings_payload buf); auto.
Qed.

Lemma parse_goaway_seq (a b : src) (l : Z) : seq a b ->
  fst (parse_goaway a l) = fst (parse_goaway b l) /\ seq (snd (parse_goaway a l)) (snd (parse_goaway b l)).
Proof.
  intros H. unfold parse_goaway. destruct (read_varint_seq a b H) as [H1 H2].
  destruct (read_varint a) as [r1 s1], (read_varint b) as [r2 s2]. cbn [fst snd] in *. subst r2.
  destruct r1 as [e|[id n]]; [auto|]. destruct (n =? l); auto.
Qed.

Theorem parse_next_seq : forall (fuel : nat) (a b : src) (cl : option Z), seq a b ->
  fst (fst (parse_next fuel a cl)) = fst (fst (parse_next fuel b cl)) /\
  snd (parse_next fuel a cl) = snd (parse_next fuel b cl) /\
  seq (snd (fst (parse_next fuel a cl))) (snd (fst (parse_next fuel b cl))).
Proof.
  induction fuel as [|f IH]; intros a b cl H; cbn [parse_next]; [auto|].
  destruct (read_varint_seq a b H) as [H1 H2].
  destruct (read_varint a) as [r1 s1], (read_varint b) as [r2 s2]. cbn [fst snd] in *. subst r2.
  destruct r1 as [e|[t n1]]; [auto|].
  destruct (read_varint_seq s1 s2 H2) as [H3 H4].
  destruct (read_varint s1) as [r3 s3], (read_varint s2) as [r4 s4]. cbn [fst snd] in *. subst r4.
  destruct r3 as [e|[l n2]]; [auto|].
  destruct (t =? 0); [auto|]. destruct (t =? 1); [auto|].
  destruct (t =? 4).
  { destruct (parse_settings_seq s3 s4 l H4) as [H5 H6].
    destruct (parse_settings s3 l), (parse_settings s4 l). cbn [fst snd] in *. auto. }
  destruct (t =? 7).
  { destruct (parse_goaway_seq s3 s4 l H4) as [H5 H6].
    destruct (parse_goaway s3 l), (parse_goaway s4 l). cbn [fst snd] in *. auto. }
  destruct (reserved_type t); [auto|].
  destruct (skip_seq (fuel_of s3) (fuel_of s4) s3 s4 l H4 (fuel_of_gt s3) (fuel_of_gt s4)) as [H5 H6].
  destruct (skip (fuel_of s3) s3 l) as [o1 s5], (skip (fuel_of s4) s4 l) as [o2 s6]. cbn [fst snd] in *. subst o2.
  destruct o1; [auto|]. apply IH. exact H6.
Qed.

(** the statement with two explicit schedules *)
Corollary parse_next_chunking_independent (fuel : nat) (data sc1 sc2 : list Z) (fin : err) (fw : bool) (cl : option Z) :
  let r1 := parse_next fuel (mkSrc data sc1 fin fw) cl in
  let r2 := parse_next fuel (mkSrc data sc2 fin fw) cl in
  fst (fst r1) = fst (fst r2) /\ snd r1 = snd r2 /\ s_data (snd (fst r1)) = s_data (snd (fst r2)).
Proof.
  cbv zeta. destruct (parse_next_seq fuel (mkSrc data sc1 fin fw) (mkSrc data sc2 fin fw) cl) as (H1 & H2 & H3 & _).
  { repeat split. } auto.
Qed.
