(** ParseNext over well-formed frame sequences; the invariant of Stream.Read; exactness. *)
From Coq Require Import List ZArith Bool Lia.
From V Require Import Gen.Params Lib.Hex Wire.Varint Wire.VarintProofs H3Stream.Model H3Stream.Proofs.
Import ListNotations.
Open Scope Z_scope.

(** * Frames on the wire *)
Definition ignorable (t : Z) : bool :=
  negb (t =? 0) && negb (t =? 1) && negb (t =? 4) && negb (t =? 7) && negb (reserved_type t).

(** A DATA frame or a frame of an ignorable type: encodings [th], [lh] of type and length
    (any encoding the varint parser accepts), payload [p]. *)
Inductive wframe :=
| WData (th lh p : list Z)
| WIgn (t : Z) (th lh p : list Z).

Definition wf_frame (f : wframe) : Prop :=
  match f with
  | WData th lh p => venc th 0 /\ venc lh (zlen p)
  | WIgn t th lh p => venc th t /\ venc lh (zlen p) /\ ignorable t = true
  end.

Definition enc (f : wframe) : list Z :=
  match f with WData th lh p => th ++ lh ++ p | WIgn _ th lh p => th ++ lh ++ p end.
Definition wire (fs : list wframe) : list Z := concat (map enc fs).
Definition fpayload (f : wframe) : list Z := match f with WData _ _ p => p | WIgn _ _ _ _ => [] end.
Definition payload (fs : list wframe) : list Z := concat (map fpayload fs).

Lemma enc_nonempty f : wf_frame f -> enc f <> [].
Proof.
  destruct f as [th lh p|t th lh p]; cbn; intros H E; apply app_eq_nil in E as [E _];
    [destruct H as [H _]|destruct H as [H _]]; exact (venc_nonempty _ _ H E).
Qed.

Lemma wire_nil fs : Forall wf_frame fs -> wire fs = [] -> fs = [].
Proof.
  intros Hw E. destruct fs as [|f r]; [reflexivity|]. exfalso.
  unfold wire in E. cbn in E. apply app_eq_nil in E as [E _].
  inversion Hw; subst. exact (enc_nonempty f H1 E).
Qed.

Lemma length_wire_ge fs : Forall wf_frame fs -> (length fs <= length (wire fs))%nat.
Proof.
  induction 1 as [|f r Hf Hr IH]; [cbn; lia|].
  unfold wire in *. cbn [map concat length]. rewrite app_length.
  pose proof (enc_nonempty f Hf) as Hne. destruct (enc f); [congruence|]. cbn [length]. lia.
Qed.

(** * The two varints of a frame header *)
Lemma read_header (s : src) (th lh : list Z) (t l : Z) (rest : list Z) :
  benign s -> venc th t -> venc lh l -> s_data s = th ++ lh ++ rest ->
  exists s1 s2, read_varint s = (inr (t, zlen th), s1) /\ read_varint s1 = (inr (l, zlen lh), s2) /\
                s_data s2 = rest /\ same_end s s2.
Proof.
  intros Hb Ht Hl Hd.
  destruct (read_varint_venc s th t (lh ++ rest) Hb Ht Hd) as (s1 & H1 & H2 & H3).
  destruct (read_varint_venc s1 lh l rest (benign_same_end _ _ H3 Hb) Hl H2) as (s2 & H4 & H5 & H6).
  exists s1, s2. eauto using same_end_trans.
Qed.

Lemma ignorable_inv t : ignorable t = true ->
  (t =? 0) = false /\ (t =? 1) = false /\ (t =? 4) = false /\ (t =? 7) = false /\ reserved_type t = false.
Proof.
  unfold ignorable. intros H. repeat (apply andb_prop in H as [H ?]).
  repeat match goal with H : negb _ = true |- _ => apply negb_true_iff in H end. auto.
Qed.

Lemma parse_next_data (f : nat) (s : src) (cl : option Z) (th lh : list Z) (l : Z) (rest : list Z) :
  benign s -> venc th 0 -> venc lh l -> s_data s = th ++ lh ++ rest ->
  exists s', parse_next (S f) s cl = (inr (FData l), s', cl) /\ s_data s' = rest /\ same_end s s'.
Proof.
  intros Hb Ht Hl Hd. destruct (read_header s th lh 0 l rest Hb Ht Hl Hd) as (s1 & s2 & H1 & H2 & H3 & H4).
  cbn [parse_next]. rewrite H1, H2. cbn. eauto.
Qed.

(** A frame of an ignorable type is skipped: ParseNext continues behind its payload, the
    connection is not touched. *)
Lemma parse_next_ign (f : nat) (s : src) (cl : option Z) (t : Z) (th lh p rest : list Z) :
  benign s -> venc th t -> venc lh (zlen p) -> ignorable t = true -> s_data s = th ++ lh ++ p ++ rest ->
  exists s', parse_next (S f) s cl = parse_next f s' cl /\ s_data s' = rest /\ same_end s s'.
Proof.
  intros Hb Ht Hl Hi Hd.
  destruct (read_header s th lh t (zlen p) (p ++ rest) Hb Ht Hl Hd) as (s1 & s2 & H1 & H2 & H3 & H4).
  destruct (ignorable_inv t Hi) as (E0 & E1 & E4 & E7 & Er).
  destruct (skip_app (fuel_of s2) s2 p rest H3) as (s3 & H5 & H6 & H7).
  { unfold fuel_of. rewrite H3, app_length. lia. }
  cbn [parse_next]. rewrite H1, H2, E0, E1, E4, E7, Er, H5.
  exists s3. eauto using same_end_trans.
Qed.

(** A reserved (HTTP/2) frame type is rejected: error, connection closed with
    H3_FRAME_UNEXPECTED, whatever length and payload follow. *)
Lemma parse_next_reserved (f : nat) (s : src) (cl : option Z) (t l : Z) (th lh rest : list Z) :
  benign s -> venc th t -> venc lh l -> reserved_type t = true -> s_data s = th ++ lh ++ rest ->
  exists s', parse_next (S f) s cl = (inl (EReserved t), s', close_conn cl h3ErrCodeFrameUnexpected) /\
             s_data s' = rest.
Proof.
  intros Hb Ht Hl Hr Hd.
  destruct (read_header s th lh t l rest Hb Ht Hl Hd) as (s1 & s2 & H1 & H2 & H3 & H4).
  cbn [parse_next]. rewrite H1, H2.
  assert (E : (t =? 0) = false /\ (t =? 1) = false /\ (t =? 4) = false /\ (t =? 7) = false).
  { unfold reserved_type in Hr. repeat split; apply Z.eqb_neq; intros ->; discriminate. }
  destruct E as (E0 & E1 & E4 & E7). rewrite E0, E1, E4, E7, Hr. eauto.
Qed.

(** The next DATA frame of a sequence, with what follows it. *)
Fixpoint next_data (fs : list wframe) : option (list Z * list wframe) :=
  match fs with
  | [] => None
  | WData _ _ p :: r => Some (p, r)
  | WIgn _ _ _ _ :: r => next_data r
  end.

Lemma next_data_payload_some fs p r : next_data fs = Some (p, r) -> payload fs = p ++ payload r.
Proof.
  induction fs as [|[th lh q|t th lh q] fs IH]; cbn; intros H; [discriminate| |].
  - inversion H; subst. reflexivity.
  - apply IH in H. exact H.
Qed.
Lemma next_data_payload_none fs : next_data fs = None -> payload fs = [].
Proof.
  induction fs as [|[th lh q|t th lh q] fs IH]; cbn; intros H; [reflexivity|discriminate|auto].
Qed.
Lemma next_data_wf fs p r : Forall wf_frame fs -> next_data fs = Some (p, r) -> Forall wf_frame r.
Proof.
  induction fs as [|[th lh q|t th lh q] fs IH]; cbn; intros Hw H; [discriminate| |].
  - inversion H; subst. inversion Hw; auto.
  - inversion Hw; auto.
Qed.

Lemma next_data_wire_lt fs p r :
  Forall wf_frame fs -> next_data fs = Some (p, r) -> (length (p ++ wire r) < length (wire fs))%nat.
Proof.
  induction fs as [|[th lh q|t th lh q] fs IH]; cbn [next_data]; intros Hw Hnd; [discriminate| |].
  - inversion Hnd; subst. inversion Hw as [|? ? Hwf _]; subst. destruct Hwf as [Ht _].
    pose proof (venc_nonempty _ _ Ht) as Hne. unfold wire. cbn [map concat enc].
    fold (wire r). repeat rewrite app_length. destruct th; [congruence|]. cbn [length]. lia.
  - inversion Hw as [|? ? _ Hwr]; subst. specialize (IH Hwr Hnd).
    unfold wire at 2. cbn [map concat enc]. fold (wire fs). repeat rewrite app_length in *. lia.
Qed.

Lemma parse_next_frames : forall (fs : list wframe) (fuel : nat) (s : src) (cl : option Z) (tail : list Z),
  benign s -> Forall wf_frame fs -> s_data s = wire fs ++ tail -> (length fs < fuel)%nat ->
  match next_data fs with
  | Some (p, r) =>
    exists s', parse_next fuel s cl = (inr (FData (zlen p)), s', cl) /\
               s_data s' = p ++ wire r ++ tail /\ same_end s s'
  | None =>
    tail = [] -> exists s', parse_next fuel s cl = (inl (s_fin s), s', cl) /\ s_data s' = [] /\ same_end s s'
  end.
Proof.
  induction fs as [|f fs IH]; intros fuel s cl tail Hb Hw Hd Hf.
  - cbn. intros ->. cbn in Hd. destruct fuel; [cbn in Hf; lia|].
    cbn [parse_next]. rewrite read_varint_nil by exact Hd. exists s. auto using same_end_refl.
  - destruct fuel as [|fuel]; [lia|]. cbn [length] in Hf.
    inversion Hw as [|? ? Hwf Hwr]; subst.
    destruct f as [th lh p|t th lh p]; cbn [next_data].
    + destruct Hwf as [Ht Hl].
      assert (Hd' : s_data s = th ++ lh ++ (p ++ wire fs ++ tail)).
      { rewrite Hd. unfold wire. cbn. repeat rewrite <- app_assoc. reflexivity. }
      destruct (parse_next_data fuel s cl th lh (zlen p) _ Hb Ht Hl Hd') as (s' & H1 & H2 & H3).
      exists s'. auto.
    + destruct Hwf as (Ht & Hl & Hi).
      assert (Hd' : s_data s = th ++ lh ++ p ++ (wire fs ++ tail)).
      { rewrite Hd. unfold wire. cbn. repeat rewrite <- app_assoc. reflexivity. }
      destruct (parse_next_ign fuel s cl t th lh p _ Hb Ht Hl Hi Hd') as (s1 & H1 & H2 & H3).
      specialize (IH fuel s1 cl tail (benign_same_end _ _ H3 Hb) Hwr H2 ltac:(lia)).
      rewrite H1. destruct (next_data fs) as [[q r]|].
      * destruct IH as (s' & H4 & H5 & H6). exists s'. eauto using same_end_trans.
      * intros Ht0. destruct (IH Ht0) as (s' & H4 & H5 & H6).
        exists s'. pose proof H3 as [Hfin Hfw]. rewrite <- Hfin.
        split; [exact H4|]. split; [exact H5|]. eapply same_end_trans; [exact H3|exact H6].
Qed.

(** * The invariant of Stream.Read
    [sinvT x cur fs tail]: [cur] is what remains of the open DATA frame, the complete frames [fs]
    follow, then [tail] (empty, or the beginning of a frame that the end of the stream cut
    short).  [sinv] is the case of a complete stream that ends cleanly. *)
Definition sinvT (x : stream) (cur : list Z) (fs : list wframe) (tail : list Z) : Prop :=
  x_rem x = zlen cur /\ s_data (x_src x) = cur ++ wire fs ++ tail /\ benign (x_src x) /\
  x_trailer x = false /\ Forall wf_frame fs.

Definition sinv (x : stream) (cur : list Z) (fs : list wframe) : Prop :=
  x_rem x = zlen cur /\ s_data (x_src x) = cur ++ wire fs /\ s_fin (x_src x) = EEOF /\
  x_trailer x = false /\ Forall wf_frame fs.

Lemma sinv_sinvT x cur fs : sinv x cur fs -> sinvT x cur fs [] /\ s_fin (x_src x) = EEOF.
Proof.
  intros (H1 & H2 & H3 & H4 & H5). split; [|exact H3].
  repeat split; auto. - rewrite app_nil_r. exact H2. - left. exact H3.
Qed.
Lemma sinvT_sinv x cur fs : sinvT x cur fs [] -> s_fin (x_src x) = EEOF -> sinv x cur fs.
Proof.
  intros (H1 & H2 & H3 & H4 & H5) Hf. rewrite app_nil_r in H2. repeat split; auto.
Qed.

(** What a Read may not change. *)
Definition quiet (x x' : stream) : Prop :=
  x_closed x' = x_closed x /\ x_trailers x' = x_trailers x /\ x_written x' = x_written x /\
  x_maxHdr x' = x_maxHdr x /\ x_wfail x' = x_wfail x.

Lemma quiet_refl x : quiet x x.
Proof. repeat split. Qed.
Lemma quiet_trans a b c : quiet a b -> quiet b c -> quiet a c.
Proof. unfold quiet. intros (A1&A2&A3&A4&A5) (B1&B2&B3&B4&B5). repeat split; congruence. Qed.

Definition dlen (x : stream) : nat := length (s_data (x_src x)).

Lemma app3_nil {A} (a b c : list A) : a ++ b ++ c = [] -> a = [] /\ b = [] /\ c = [].
Proof. intros H. apply app_eq_nil in H as [H1 H]. apply app_eq_nil in H as [H2 H3]. auto. Qed.

Lemma read_payload_stepT (x : stream) (cur : list Z) (fs : list wframe) (tail : list Z) (blen : Z) :
  sinvT x cur fs tail ->
  exists out e x' cur',
    read_payload x blen = (out, e, x') /\
    ((e = None /\ sinvT x' cur' fs tail) \/
     (e = Some (s_fin (x_src x)) /\ cur' = [] /\ fs = [] /\ tail = [] /\ sinvT x' [] [] [])) /\
    cur = out ++ cur' /\ zlen out <= Z.max 0 blen /\ quiet x x' /\ same_end (x_src x) (x_src x') /\
    (dlen x' <= dlen x)%nat /\ (0 < blen -> cur <> [] -> e = None -> (dlen x' < dlen x)%nat).
Proof.
  intros (Hrem & Hd & Hben & Htr & Hw).
  unfold read_payload. set (m := if x_rem x <? blen then x_rem x else blen).
  assert (Hm : m <= x_rem x /\ m <= blen /\ (m = x_rem x \/ m = blen)).
  { unfold m. destruct (Z.ltb_spec (x_rem x) blen); lia. }
  destruct (s_data (x_src x)) as [|b0 d0] eqn:Hdata.
  - (* nothing left: the terminal error *)
    symmetry in Hd. apply app3_nil in Hd as (E1 & E2 & E3). subst cur tail.
    apply (wire_nil fs Hw) in E2. subst fs.
    rewrite src_read_empty by exact Hdata.
    exists [], (Some (s_fin (x_src x))), (set_rem (set_src x (x_src x)) (x_rem x - zlen (@nil Z))), [].
    split; [reflexivity|]. split.
    { right. repeat split; auto; cbn; try rewrite Hrem; try rewrite Hdata; auto. }
    repeat split; auto; try (unfold zlen; simpl; lia); unfold dlen; cbn; try lia; congruence.
  - destruct (Z.leb_spec m 0) as [Hm0|Hm0].
    + (* zero-size read *)
      assert (Hr : src_read (x_src x) m = ([], None, x_src x)).
      { unfold src_read. rewrite Hdata. destruct (Z.leb_spec m 0); [reflexivity|lia]. }
      rewrite Hr.
      exists [], None, (set_rem (set_src x (x_src x)) (x_rem x - zlen (@nil Z))), cur.
      split; [reflexivity|]. split.
      { left. split; [reflexivity|]. repeat split; cbn; auto.
        - change (zlen (@nil Z)) with 0. lia.
        - rewrite Hdata. exact Hd. }
      repeat split; auto; try (unfold zlen; simpl; lia); unfold dlen; cbn; try lia.
      intros Hb Hc _. exfalso. destruct cur; [congruence|]. unfold zlen in Hrem. simpl in Hrem. lia.
    + destruct (src_read_some (x_src x) m) as (n & e & s1 & Hr & Hn1 & Hn2 & Hn3 & Hd1 & Hse & He);
        [rewrite Hdata; discriminate | lia |].
      pose proof Hse as [Hse1 Hse2].
      rewrite Hr. rewrite Hdata in *.
      assert (Hnc : (n <= length cur)%nat) by (unfold zlen in Hrem; lia).
      rewrite Hd in *. rewrite firstn_app_le by exact Hnc. rewrite skipn_app_le in Hd1 by exact Hnc.
      assert (Hz : x_rem x - zlen (firstn n cur) = zlen (skipn n cur)).
      { rewrite zlen_firstn by exact Hnc. rewrite zlen_skipn, Nat.min_l by exact Hnc. lia. }
      exists (firstn n cur), e, (set_rem (set_src x s1) (x_rem x - zlen (firstn n cur))), (skipn n cur).
      split; [reflexivity|].
      assert (Hsinv : sinvT (set_rem (set_src x s1) (x_rem x - zlen (firstn n cur))) (skipn n cur) fs tail).
      { repeat split; cbn; auto. eapply benign_same_end; eauto. }
      split.
      { destruct He as [He|(He1 & He2 & He3)]; [left; auto|right].
        rewrite Hd1 in He1. apply app3_nil in He1 as (E1 & E2 & E3).
        apply (wire_nil fs Hw) in E2. subst fs tail. rewrite E1 in *. rewrite He3. auto. }
      split; [symmetry; apply firstn_skipn|].
      split; [rewrite zlen_firstn by exact Hnc; lia|].
      split; [repeat split|]. split; [exact Hse|].
      unfold dlen. cbn. rewrite Hd1, Hdata. repeat rewrite app_length. rewrite skipn_length.
      split; intros; lia.
Qed.

Lemma stream_read_stepT (x : stream) (cur : list Z) (fs : list wframe) (tail : list Z) (blen : Z) :
  sinvT x cur fs tail ->
  (cur <> [] \/ next_data fs <> None \/ (tail = [] /\ s_fin (x_src x) = EEOF)) ->
  exists out e x' cur' fs',
    stream_read x blen = (out, e, x') /\
    ((e = None /\ sinvT x' cur' fs' tail) \/
     (e = Some (s_fin (x_src x)) /\ cur' = [] /\ fs' = [] /\ tail = [] /\ sinvT x' [] [] [])) /\
    cur ++ payload fs = out ++ cur' ++ payload fs' /\ zlen out <= Z.max 0 blen /\ quiet x x' /\
    (0 < blen \/ cur = [] -> e = None -> (dlen x' < dlen x)%nat) /\ (dlen x' <= dlen x)%nat /\
    (cur <> [] -> fs' = fs /\ cur = out ++ cur') /\ same_end (x_src x) (x_src x').
Proof.
  intros Hinv Hpre. pose proof Hinv as (Hrem & Hd & Hb & Htr & Hw).
  unfold stream_read. destruct (Z.eqb_spec (x_rem x) 0) as [H0|H0].
  - (* a new frame is needed *)
    assert (cur = []) by (apply zlen_nil_inv; lia). subst cur. cbn [app] in *.
    pose proof (parse_next_frames fs (fuel_of (x_src x)) (x_src x) (x_closed x) tail Hb Hw Hd) as Hp.
    assert (Hfuel : (length fs < fuel_of (x_src x))%nat).
    { unfold fuel_of. rewrite Hd, app_length. pose proof (length_wire_ge fs Hw). lia. }
    specialize (Hp Hfuel). destruct (next_data fs) as [[p r]|] eqn:Hnd.
    + destruct Hp as (s' & Hp1 & Hp2 & Hp34). pose proof Hp34 as [Hp3 Hp4]. rewrite Hp1.
      cbn [x_trailer set_closed set_src]. rewrite Htr.
      set (x1 := set_rem (set_closed (set_src x s') (x_closed x)) (zlen p)).
      assert (Hinv1 : sinvT x1 p r tail).
      { repeat split; cbn; auto.
        - eapply benign_same_end; eauto.
        - eapply next_data_wf; eauto. }
      destruct (read_payload_stepT x1 p r tail blen Hinv1)
        as (out & e & x' & cur' & Hr & Hcase & Hcur & Hlen & Hq & Hse & Hdl & Hprog).
      exists out, e, x', cur', r. split; [exact Hr|]. split.
      { destruct Hcase as [[-> Hs]|(-> & -> & -> & -> & Hs)]; [left; auto|right].
        cbn [x1 x_src set_rem set_closed set_src]. rewrite Hp3. auto. }
      split.
      { rewrite (next_data_payload_some fs p r Hnd), Hcur, <- app_assoc. reflexivity. }
      split; [exact Hlen|]. split.
      { eapply quiet_trans; [|exact Hq]. repeat split. }
      assert (Hlt : (dlen x1 < dlen x)%nat).
      { unfold dlen. cbn. rewrite Hp2, Hd. repeat rewrite app_length.
        pose proof (next_data_wire_lt fs p r Hw Hnd) as Hl. rewrite app_length in Hl. lia. }
      split; [intros; lia|]. split; [lia|]. split; [intros Hc; congruence|].
      eapply same_end_trans; [exact Hp34|exact Hse].
    + destruct Hpre as [Hc|[Hc|[Ht Hfin]]]; [congruence|congruence|]. subst tail.
      destruct (Hp eq_refl) as (s' & Hp1 & Hp2 & Hp34). rewrite Hp1, Hfin.
      exists [], (Some EEOF), (set_closed (set_src x s') (x_closed x)), [], [].
      split; [reflexivity|].
      assert (Hs : sinvT (set_closed (set_src x s') (x_closed x)) [] [] []).
      { repeat split; cbn; auto. eapply benign_same_end; eauto. }
      split; [right; auto|].
      split; [rewrite (next_data_payload_none fs Hnd); reflexivity|].
      split; [unfold zlen; simpl; lia|]. split; [repeat split|].
      split; [intros _ E; discriminate|]. split; [unfold dlen; cbn; rewrite Hp2; simpl; lia|].
      split; [intros Hc; congruence|exact Hp34].
  - destruct (read_payload_stepT x cur fs tail blen Hinv)
      as (out & e & x' & cur' & Hr & Hcase & Hcur & Hlen & Hq & Hse & Hdl & Hprog).
    assert (Hne : cur <> []).
    { intros E. apply H0. rewrite Hrem, E. reflexivity. }
    exists out, e, x', cur', fs. split; [exact Hr|]. split.
    { destruct Hcase as [[-> Hs]|(-> & -> & -> & -> & Hs)]; [left|right]; auto. }
    split; [rewrite Hcur, <- app_assoc; reflexivity|].
    split; [exact Hlen|]. split; [exact Hq|]. split; [intros [Hb'|Hb'] He; [auto|congruence]|].
    split; [exact Hdl|]. auto.
Qed.

(** The complete, cleanly ending stream (the statement used by the exactness theorems). *)
Lemma stream_read_step (x : stream) (cur : list Z) (fs : list wframe) (blen : Z) :
  sinv x cur fs ->
  exists out e x' cur' fs',
    stream_read x blen = (out, e, x') /\
    ((e = None /\ sinv x' cur' fs') \/ (e = Some EEOF /\ cur' = [] /\ fs' = [] /\ sinv x' [] [])) /\
    cur ++ payload fs = out ++ cur' ++ payload fs' /\ zlen out <= Z.max 0 blen /\ quiet x x' /\
    (0 < blen \/ cur = [] -> e = None -> (dlen x' < dlen x)%nat) /\ (dlen x' <= dlen x)%nat /\
    (cur <> [] -> fs' = fs /\ cur = out ++ cur').
Proof.
  intros Hinv. destruct (sinv_sinvT x cur fs Hinv) as [HT Hfin].
  destruct (stream_read_stepT x cur fs [] blen HT ltac:(auto))
    as (out & e & x' & cur' & fs' & Hr & Hcase & Hpay & Hlen & Hq & Hprog & Hdl & Hcur & [Hse _]).
  exists out, e, x', cur', fs'. split; [exact Hr|]. split.
  { destruct Hcase as [[-> Hs]|(-> & -> & -> & _ & Hs)].
    - left. split; [reflexivity|]. apply sinvT_sinv; [exact Hs|congruence].
    - right. rewrite Hfin. split; [reflexivity|]. split; [reflexivity|]. split; [reflexivity|].
      apply sinvT_sinv; [exact Hs|congruence]. }
  split; [exact Hpay|]. split; [exact Hlen|]. split; [exact Hq|]. split; [exact Hprog|].
  split; [exact Hdl|exact Hcur].
Qed.

(** Stream.Read on a reserved frame type: the error surfaces, no bytes are delivered and the
    connection is closed with H3_FRAME_UNEXPECTED. *)
Lemma stream_read_reserved (x : stream) (blen t l : Z) (th lh rest : list Z) :
  x_rem x = 0 -> benign (x_src x) -> venc th t -> venc lh l -> reserved_type t = true ->
  s_data (x_src x) = th ++ lh ++ rest ->
  exists x', stream_read x blen = ([], Some (EReserved t), x') /\
             x_closed x' = close_conn (x_closed x) h3ErrCodeFrameUnexpected /\
             s_data (x_src x') = rest.
Proof.
  intros H0 Hb Ht Hl Hr Hd. unfold stream_read. rewrite H0. cbn [Z.eqb].
  unfold fuel_of.
  destruct (parse_next_reserved (length (s_data (x_src x))) (x_src x) (x_closed x) t l th lh rest Hb Ht Hl Hr Hd)
    as (s' & Hp & Hrest).
  rewrite Hp. eexists. split; [reflexivity|]. cbn. auto.
Qed.

Lemma reserved_type_spec (t : Z) : reserved_type t = true <-> (t = 2 \/ t = 6 \/ t = 8 \/ t = 9).
Proof.
  unfold reserved_type. repeat rewrite orb_true_iff. repeat rewrite Z.eqb_eq. tauto.
Qed.

Lemma unknown_ignored_reserved_rejected :
  (forall (f : nat) (s : src) (cl : option Z) (t : Z) (th lh p rest : list Z),
     benign s -> venc th t -> venc lh (zlen p) -> ignorable t = true -> s_data s = th ++ lh ++ p ++ rest ->
     exists s', parse_next (S f) s cl = parse_next f s' cl /\ s_data s' = rest /\ same_end s s') /\
  (forall (f : nat) (s : src) (cl : option Z) (t l : Z) (th lh rest : list Z),
     benign s -> venc th t -> venc lh l -> reserved_type t = true -> s_data s = th ++ lh ++ rest ->
     exists s', parse_next (S f) s cl = (inl (EReserved t), s', close_conn cl h3ErrCodeFrameUnexpected) /\
                s_data s' = rest) /\
  (forall (x : stream) (blen t l : Z) (th lh rest : list Z),
     x_rem x = 0 -> benign (x_src x) -> venc th t -> venc lh l -> reserved_type t = true ->
     s_data (x_src x) = th ++ lh ++ rest ->
     exists x', stream_read x blen = ([], Some (EReserved t), x') /\
                x_closed x' = close_conn (x_closed x) h3ErrCodeFrameUnexpected /\
                s_data (x_src x') = rest) /\
  (forall t, reserved_type t = true <-> (t = 2 \/ t = 6 \/ t = 8 \/ t = 9)) /\
  h3ErrCodeFrameUnexpected = 261.
Proof.
  split; [exact parse_next_ign|]. split; [exact parse_next_reserved|]. split; [exact stream_read_reserved|].
  split; [exact reserved_type_spec|reflexivity].
Qed.
