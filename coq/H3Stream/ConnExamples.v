(** Example peers for the connection-level model (byte strings as hex). *)
From Coq Require Import List ZArith Bool String.
From V Require Import Lib.Hex.
Import ListNotations.
Open Scope string_scope.

(** control stream: SETTINGS, MAX_PUSH_ID (skipped); QPACK encoder; QPACK decoder; a GREASE stream *)
Definition ex_peer_ok : list (list Z * bool) :=
  [(hx "0004000d0105", false); (hx "02", false); (hx "03", false); (hx "2101", false)].
Definition ex_peer_second_settings : list (list Z * bool) := [(hx "0004000400", false)].
Definition ex_peer_two_control : list (list Z * bool) := [(hx "000400", false); (hx "000400", false)].
Definition ex_peer_goaway_12 : list (list Z * bool) := [(hx "00040007010c", false)].
Definition ex_peer_goaway_3 : list (list Z * bool) := [(hx "000400070103", false)].
