(** Truncated streams: a valid frame sequence cut short inside a frame, followed by FIN or by a
    stream error.  On the current code the reader then sees the stream's own terminal error,
    unchanged: a stream error is reported, but a FIN inside a frame is a CLEAN io.EOF (finding
    h3/truncated-frame-clean-eof; the repair is pinned by a baseline test). *)
From Coq Require Import List ZArith Bool Lia.
From V Require Import Gen.Params Lib.Hex Wire.Varint Wire.VarintProofs
  H3Stream.Model H3Stream.Proofs H3Stream.ProofsStream H3Stream.ProofsExact.
Import ListNotations.
Open Scope Z_scope.

(** * Varints cut short *)
Lemma read_bytes_short : forall (l : list Z) (n : nat) (s : src) (acc : Z),
  benign s -> s_data s = l -> (length l < n)%nat ->
  exists s', read_bytes n s acc = (inl (s_fin s), s') /\ s_data s' = [] /\ same_end s s'.
Proof.
  induction l as [|b l IH]; intros n s acc Hb Hd Hn; destruct n as [|n]; try (cbn in Hn; lia).
  - cbn [read_bytes]. rewrite read_byte_nil by exact Hd. exists s. auto using same_end_refl.
  - cbn [read_bytes]. destruct (read_byte_cons s b l Hb Hd) as (s1 & H1 & H2 & H3). rewrite H1.
    destruct (IH n s1 (acc * 256 + b) (benign_same_end _ _ H3 Hb) H2 ltac:(cbn in Hn; lia)) as (s2 & H4 & H5 & H6).
    exists s2. pose proof H3 as [Hf _]. rewrite <- Hf.
    split; [exact H4|]. split; [exact H5|]. eapply same_end_trans; [exact H3|exact H6].
Qed.

Definition vtail (first : Z) : nat :=
  let k := first / 64 in
  if k =? 0 then 0%nat else if k =? 1 then 1%nat else if k =? 2 then 3%nat else 7%nat.

Lemma venc_shape (bs : list Z) (v : Z) :
  venc bs v -> exists first r, bs = first :: r /\ length r = vtail first.
Proof.
  intros H. specialize (H []). rewrite app_nil_r in H. unfold vparse in H.
  destruct bs as [|first r]; [discriminate|]. exists first, r. split; [reflexivity|].
  fold (vtail first) in H. destruct (length r <? vtail first)%nat eqn:E; [discriminate|].
  injection H as _ Hn _. unfold zlen in Hn. cbn [length] in Hn. lia.
Qed.

Lemma read_varint_short (s : src) (bs b1 b2 : list Z) (v : Z) :
  venc bs v -> bs = b1 ++ b2 -> b2 <> [] -> benign s -> s_data s = b1 ->
  exists s', read_varint s = (inl (s_fin s), s') /\ s_data s' = [] /\ same_end s s'.
Proof.
  intros Hv Hbs Hb2 Hb Hd. destruct b1 as [|first r1].
  - rewrite read_varint_nil by exact Hd. exists s. auto using same_end_refl.
  - destruct (venc_shape bs v Hv) as (first' & r & Hshape & Hlen). rewrite Hbs in Hshape. cbn in Hshape.
    inversion Hshape; subst first' r. clear Hshape.
    destruct (read_byte_cons s first r1 Hb Hd) as (s1 & H1 & H2 & H3).
    unfold read_varint. rewrite H1. fold (vtail first).
    destruct (read_bytes_short r1 (vtail first) s1 (first mod 64) (benign_same_end _ _ H3 Hb) H2) as (s2 & H4 & H5 & H6).
    { rewrite <- Hlen, app_length. destruct b2; [congruence|]. cbn [length]. lia. }
    rewrite H4. exists s2. pose proof H3 as [Hf Hw]. rewrite Hf.
    split; [reflexivity|]. split; [exact H5|]. eapply same_end_trans; [exact H3|exact H6].
Qed.

(** * A payload that is skipped, cut short *)
Lemma skip_short : forall (fuel : nat) (s : src) (p1 : list Z) (l : Z),
  s_data s = p1 -> zlen p1 < l -> (length p1 < fuel)%nat ->
  exists s', skip fuel s l = (Some (s_fin s), s') /\ s_data s' = [] /\ same_end s s'.
Proof.
  induction fuel as [|f IH]; intros s p1 l Hd Hl Hf; [lia|].
  cbn [skip]. pose proof (zlen_nonneg p1). destruct (Z.leb_spec l 0); [lia|].
  destruct p1 as [|b p1'].
  - rewrite src_read_empty by exact Hd. change (zlen (@nil Z)) with 0.
    destruct (Z.leb_spec (l - 0) 0); [lia|]. exists s. auto using same_end_refl.
  - destruct (src_read_some s (Z.min discardBuf l)) as (n & e & s1 & Hr & Hn1 & Hn2 & Hn3 & Hd1 & Hse & He).
    { rewrite Hd. discriminate. } { unfold discardBuf. lia. }
    rewrite Hr. rewrite Hd in *. rewrite zlen_firstn by exact Hn3.
    destruct He as [He|(He1 & He2 & He3)]; subst e.
    + destruct (IH s1 (skipn n (b :: p1')) (l - Z.of_nat n) Hd1) as (s2 & H1 & H2 & H3).
      { rewrite zlen_skipn, Nat.min_l by exact Hn3. lia. }
      { rewrite skipn_length. lia. }
      exists s2. pose proof Hse as [Hf' Hw']. rewrite <- Hf'.
      split; [exact H1|]. split; [exact H2|]. eapply same_end_trans; [exact Hse|exact H3].
    + assert (Hall : (n = length (b :: p1'))%nat).
      { rewrite Hd1 in He1. apply (f_equal (@length Z)) in He1. rewrite skipn_length in He1. cbn [length] in *. lia. }
      destruct (Z.leb_spec (l - Z.of_nat n) 0) as [Hle|Hgt].
      { unfold zlen in Hl. rewrite Hall in Hle. lia. }
      exists s1. split; [reflexivity|]. split; [exact He1|exact Hse].
Qed.

(** * Leading ignorable frames are skipped, whatever follows them *)
Lemma parse_next_skip_igns : forall (igns : list wframe) (f : nat) (s : src) (cl : option Z) (tail : list Z),
  benign s -> Forall wf_frame igns -> next_data igns = None -> s_data s = wire igns ++ tail ->
  exists s', parse_next (length igns + S f) s cl = parse_next (S f) s' cl /\ s_data s' = tail /\ same_end s s'.
Proof.
  induction igns as [|[th lh p|t th lh p] igns IH]; intros f s cl tail Hb Hw Hnd Hd.
  - exists s. cbn. auto using same_end_refl.
  - discriminate.
  - inversion Hw as [|? ? Hwf Hwr]; subst. destruct Hwf as (Ht & Hl & Hi). cbn [next_data] in Hnd.
    assert (Hd' : s_data s = th ++ lh ++ p ++ (wire igns ++ tail)).
    { rewrite Hd. unfold wire. cbn. repeat rewrite <- app_assoc. reflexivity. }
    cbn [length Nat.add].
    destruct (parse_next_ign (length igns + S f) s cl t th lh p _ Hb Ht Hl Hi Hd') as (s1 & H1 & H2 & H3).
    destruct (IH f s1 cl tail (benign_same_end _ _ H3 Hb) Hwr Hnd H2) as (s2 & H4 & H5 & H6).
    exists s2. rewrite H1. eauto using same_end_trans.
Qed.

(** * The beginning of a frame *)
Lemma prefix_cases {A} : forall (a b part rest : list A),
  a ++ b = part ++ rest ->
  (exists a2, a = part ++ a2 /\ a2 <> []) \/ (exists b1, part = a ++ b1 /\ b = b1 ++ rest).
Proof.
  induction a as [|x a IH]; intros b part rest H.
  - right. exists part. auto.
  - destruct part as [|y part].
    + left. exists (x :: a). split; [reflexivity|discriminate].
    + cbn in H. inversion H; subst y. destruct (IH b part rest H2) as [(a2 & -> & Hne)|(b1 & -> & ->)].
      * left. exists a2. auto.
      * right. exists b1. auto.
Qed.

Definition fheader_t (f : wframe) : Z := match f with WData _ _ _ => 0 | WIgn t _ _ _ => t end.

(** Outcome of ParseNext at the partial frame: the stream's terminal error as it is (so a
    plain io.EOF after FIN), or -- for a DATA frame whose header is complete -- the frame, with
    less payload behind it than it announces. *)
Lemma parse_next_partial (f : nat) (s : src) (cl : option Z) (f0 : wframe) (part rest : list Z) :
  benign s -> wf_frame f0 -> enc f0 = part ++ rest -> part <> [] -> rest <> [] -> s_data s = part ->
  (exists s', parse_next (S f) s cl = (inl (s_fin s), s', cl) /\ same_end s s') \/
  (exists th lh p p1 s', f0 = WData th lh p /\ p = p1 ++ rest /\
      parse_next (S f) s cl = (inr (FData (zlen p)), s', cl) /\ s_data s' = p1 /\ same_end s s').
Proof.
  intros Hb Hwf Henc Hpne Hrne Hd.
  assert (Hhdr : exists th lh p t, enc f0 = th ++ lh ++ p /\ venc th t /\ venc lh (zlen p) /\
                   ((f0 = WData th lh p /\ t = 0) \/ (ignorable t = true /\ exists t', f0 = WIgn t' th lh p))).
  { destruct f0 as [th lh p|t th lh p]; cbn in Hwf.
    - destruct Hwf as [Ht Hl]. exists th, lh, p, 0.
      split; [reflexivity|]. split; [exact Ht|]. split; [exact Hl|]. left. auto.
    - destruct Hwf as (Ht & Hl & Hi). exists th, lh, p, t.
      split; [reflexivity|]. split; [exact Ht|]. split; [exact Hl|]. right. eauto. }
  destruct Hhdr as (th & lh & p & t & Hef & Ht & Hl & Hkind). rewrite Hef in Henc.
  destruct (prefix_cases th (lh ++ p) part rest Henc) as [(a2 & Hth & Ha2)|(b1 & Hpart & Hb1)].
  - (* the type varint is cut *)
    left. destruct (read_varint_short s th part a2 t Ht Hth Ha2 Hb Hd) as (s1 & H1 & _ & H3).
    cbn [parse_next]. rewrite H1. eauto.
  - destruct (prefix_cases lh p b1 rest Hb1) as [(l2 & Hlh & Hl2)|(p1 & Hb1' & Hp)].
    + (* the length varint is cut *)
      left. destruct (read_varint_venc s th t b1 Hb Ht) as (s1 & H1 & H2 & H3); [rewrite Hd; exact Hpart|].
      destruct (read_varint_short s1 lh b1 l2 (zlen p) Hl Hlh Hl2 (benign_same_end _ _ H3 Hb) H2) as (s2 & H4 & _ & H6).
      cbn [parse_next]. rewrite H1, H4. pose proof H3 as [Hf _]. rewrite Hf.
      exists s2. split; [reflexivity|]. eapply same_end_trans; [exact H3|exact H6].
    + (* the header is complete, the payload is cut *)
      subst b1 p.
      assert (Hd' : s_data s = th ++ lh ++ p1) by (rewrite Hd, Hpart; reflexivity).
      destruct (read_header s th lh t (zlen (p1 ++ rest)) p1 Hb Ht Hl Hd') as (s1 & s2 & H1 & H2 & H3 & H4).
      destruct Hkind as [[-> ->]|[Hi [t' ->]]].
      * right. exists th, lh, (p1 ++ rest), p1, s2. cbn [parse_next]. rewrite H1, H2. cbn. auto.
      * left. destruct (ignorable_inv t Hi) as (E0 & E1 & E4 & E7 & Er).
        destruct (skip_short (fuel_of s2) s2 p1 (zlen (p1 ++ rest)) H3) as (s3 & H5 & _ & H7).
        { rewrite zlen_app. destruct rest; [congruence|]. unfold zlen. cbn [length]. lia. }
        { unfold fuel_of. rewrite H3. lia. }
        cbn [parse_next]. rewrite H1, H2, E0, E1, E4, E7, Er, H5.
        pose proof H4 as [Hf Hw]. rewrite Hf. exists s3. split; [reflexivity|].
        eapply same_end_trans; [exact H4|exact H7].
Qed.

(** * Phase B: inside a DATA frame that announces [k] more bytes than will ever arrive *)
Definition pinv (x : stream) (p1 : list Z) (k : Z) : Prop :=
  x_rem x = zlen p1 + k /\ 0 < k /\ s_data (x_src x) = p1 /\ benign (x_src x).

Lemma read_payload_cut (x : stream) (p1 : list Z) (k blen : Z) :
  pinv x p1 k ->
  exists out e x' p1',
    read_payload x blen = (out, e, x') /\ p1 = out ++ p1' /\ quiet x x' /\
    ((e = None /\ pinv x' p1' k /\ same_end (x_src x) (x_src x') /\
      (0 < blen -> (dlen x' < dlen x)%nat) /\ (dlen x' <= dlen x)%nat)
     \/ (p1' = [] /\ e = Some (s_fin (x_src x)))).
Proof.
  intros (Hrem & Hk & Hd & Hb).
  unfold read_payload. set (m := if x_rem x <? blen then x_rem x else blen).
  assert (Hm : m <= x_rem x /\ m <= blen /\ (m = x_rem x \/ m = blen)).
  { unfold m. destruct (Z.ltb_spec (x_rem x) blen); lia. }
  pose proof (zlen_nonneg p1) as Hp1.
  destruct p1 as [|b p1r].
  - rewrite src_read_empty by exact Hd.
    exists [], (Some (s_fin (x_src x))), (set_rem (set_src x (x_src x)) (x_rem x - zlen (@nil Z))), [].
    split; [reflexivity|]. split; [reflexivity|]. split; [repeat split|]. right. auto.
  - destruct (Z.leb_spec m 0) as [Hm0|Hm0].
    + assert (Hr : src_read (x_src x) m = ([], None, x_src x)).
      { unfold src_read. rewrite Hd. destruct (Z.leb_spec m 0); [reflexivity|lia]. }
      rewrite Hr. change (zlen (@nil Z)) with 0.
      exists [], None, (set_rem (set_src x (x_src x)) (x_rem x - 0)), (b :: p1r).
      split; [reflexivity|]. split; [reflexivity|]. split; [repeat split|]. left. split; [reflexivity|].
      split; [unfold pinv; cbn [x_rem x_src set_rem set_src]; split; [lia|]; split; [exact Hk|]; split; [exact Hd|exact Hb]|].
      split; [apply same_end_refl|].
      unfold dlen. cbn [x_src set_rem set_src]. split; [|lia]. intros Hbl. exfalso. lia.
    + destruct (src_read_some (x_src x) m) as (n & e & s1 & Hr & Hn1 & Hn2 & Hn3 & Hd1 & Hse & He);
        [rewrite Hd; discriminate | lia |].
      rewrite Hr. rewrite Hd in *.
      assert (Hz : x_rem x - zlen (firstn n (b :: p1r)) = zlen (skipn n (b :: p1r)) + k).
      { rewrite zlen_firstn by exact Hn3. rewrite zlen_skipn, Nat.min_l by exact Hn3. lia. }
      exists (firstn n (b :: p1r)), e, (set_rem (set_src x s1) (x_rem x - zlen (firstn n (b :: p1r)))), (skipn n (b :: p1r)).
      split; [reflexivity|]. split; [symmetry; apply firstn_skipn|]. split; [repeat split|].
      destruct He as [->|(He1 & He2 & ->)].
      * left. split; [reflexivity|].
        split; [unfold pinv; cbn [x_rem x_src set_rem set_src]; split; [exact Hz|]; split; [exact Hk|]; split; [exact Hd1|eapply benign_same_end; eauto]|].
        split; [exact Hse|].
        unfold dlen. cbn. rewrite Hd1, Hd, skipn_length. cbn [length] in *. split; intros; lia.
      * right. split; [rewrite <- Hd1; exact He1|reflexivity].
Qed.

Lemma stream_reads_cut : forall (bufs : list Z) (x : stream) (p1 : list Z) (k : Z),
  pinv x p1 k ->
  exists out e x' p1',
    stream_reads x bufs = (out, e, x') /\ p1 = out ++ p1' /\
    (e = None \/ (e = Some (s_fin (x_src x)) /\ p1' = [])) /\ x_closed x' = x_closed x /\
    (all_pos bufs -> (dlen x < length bufs)%nat -> e <> None).
Proof.
  induction bufs as [|n bufs IH]; intros x p1 k Hinv.
  - exists [], None, x, p1. cbn. split; [reflexivity|]. split; [reflexivity|]. split; [left; auto|].
    split; [reflexivity|]. intros _ H. lia.
  - pose proof Hinv as (Hrem & Hk & Hd & Hb).
    assert (Hsr : stream_read x n = read_payload x n).
    { unfold stream_read. destruct (Z.eqb_spec (x_rem x) 0); [|reflexivity]. pose proof (zlen_nonneg p1). lia. }
    destruct (read_payload_cut x p1 k n Hinv) as (out & e & x1 & p1' & Hr & Hp & Hq & Hcase).
    cbn [stream_reads]. rewrite Hsr, Hr. destruct Hq as (Hq1 & _).
    destruct Hcase as [(-> & Hinv1 & Hse & Hprog & Hdl)|(-> & ->)].
    + destruct (IH x1 p1' k Hinv1) as (out2 & e2 & x2 & p2 & Hr2 & Hp2 & He2 & Hc2 & Hlive).
      rewrite Hr2. exists (out ++ out2), e2, x2, p2.
      split; [reflexivity|]. split; [rewrite Hp, Hp2, app_assoc; reflexivity|].
      destruct Hse as [Hf _]. rewrite Hf in He2. split; [exact He2|]. split; [congruence|].
      intros Hpos Hl. inversion Hpos; subst. apply Hlive; [assumption|].
      specialize (Hprog ltac:(assumption)). cbn [length] in Hl. lia.
    + exists out, (Some (s_fin (x_src x))), x1, []. split; [reflexivity|]. split; [exact Hp|].
      split; [right; auto|]. split; [exact Hq1|]. intros _ _. discriminate.
Qed.

(** * Phase A: the complete frames, then the partial one *)
Definition is_partial (f0 : wframe) (part rest : list Z) : Prop :=
  wf_frame f0 /\ enc f0 = part ++ rest /\ part <> [] /\ rest <> [].

Lemma stream_read_at_cut (x : stream) (fs : list wframe) (f0 : wframe) (part rest : list Z) (blen : Z) :
  sinvT x [] fs part -> next_data fs = None -> is_partial f0 part rest ->
  exists out e x',
    stream_read x blen = (out, e, x') /\
    ((out = [] /\ e = Some (s_fin (x_src x)) /\ x_closed x' = x_closed x) \/
     (exists th lh p p1, f0 = WData th lh p /\ p = p1 ++ rest /\
        exists x1, pinv x1 p1 (zlen rest) /\ x_closed x1 = x_closed x /\ same_end (x_src x) (x_src x1) /\
                   (dlen x1 <= dlen x)%nat /\ read_payload x1 blen = (out, e, x'))).
Proof.
  intros (Hrem & Hd & Hb & Htr & Hw) Hnd (Hwf & Henc & Hpne & Hrne).
  cbn [app] in Hd. change (zlen (@nil Z)) with 0 in Hrem.
  unfold stream_read. rewrite Hrem. cbn [Z.eqb].
  assert (Hfuel : exists f, fuel_of (x_src x) = (length fs + S f)%nat).
  { unfold fuel_of. rewrite Hd, app_length. pose proof (length_wire_ge fs Hw).
    exists (length (wire fs) + length part - length fs)%nat. lia. }
  destruct Hfuel as (f & ->).
  destruct (parse_next_skip_igns fs f (x_src x) (x_closed x) part Hb Hw Hnd Hd) as (s1 & H1 & H2 & H3).
  rewrite H1.
  destruct (parse_next_partial f s1 (x_closed x) f0 part rest (benign_same_end _ _ H3 Hb) Hwf Henc Hpne Hrne H2)
    as [(s2 & Hp & Hse)|(th & lh & p & p1 & s2 & -> & Hpp & Hp & Hd2 & Hse)].
  - rewrite Hp. destruct H3 as [Hf Hfw]. rewrite Hf.
    do 3 eexists. split; [reflexivity|]. left. auto.
  - rewrite Hp. cbn [x_trailer set_closed set_src]. rewrite Htr.
    set (x1 := set_rem (set_closed (set_src x s2) (x_closed x)) (zlen p)).
    destruct (read_payload x1 blen) as [[out e] x'] eqn:Hr.
    exists out, e, x'. split; [reflexivity|]. right. exists th, lh, p, p1.
    split; [reflexivity|]. split; [exact Hpp|]. exists x1.
    assert (Hse1 : same_end (x_src x) s2) by (eapply same_end_trans; eauto).
    split.
    { repeat split; cbn; auto.
      - rewrite Hpp, zlen_app. reflexivity.
      - destruct rest; [congruence|]. unfold zlen. cbn [length]. lia.
      - eapply benign_same_end; eauto. }
    split; [reflexivity|]. split; [exact Hse1|]. split; [|exact Hr].
    unfold dlen. cbn [x_src x1 set_rem set_closed set_src]. rewrite Hd2, Hd, app_length.
    apply (f_equal (@length Z)) in Henc. cbn [enc] in Henc. rewrite Hpp in Henc.
    repeat rewrite app_length in Henc. lia.
Qed.

Lemma stream_reads_truncated : forall (bufs : list Z) (x : stream) (cur : list Z) (fs : list wframe)
    (f0 : wframe) (part rest : list Z),
  sinvT x cur fs part -> is_partial f0 part rest ->
  exists out e x' tl,
    stream_reads x bufs = (out, e, x') /\
    cur ++ payload fs ++ fpayload f0 = out ++ tl /\
    (e = None \/ e = Some (s_fin (x_src x))) /\ x_closed x' = x_closed x /\
    (all_pos bufs -> (dlen x < length bufs)%nat -> e <> None).
Proof.
  induction bufs as [|n bufs IH]; intros x cur fs f0 part rest Hinv Hpart.
  - exists [], None, x, (cur ++ payload fs ++ fpayload f0). cbn.
    split; [reflexivity|]. split; [reflexivity|]. split; [left; auto|]. split; [reflexivity|]. intros _ H. lia.
  - cbn [stream_reads].
    destruct (list_eq_dec Z.eq_dec cur []) as [Hc|Hc]; [destruct (next_data fs) as [[q r]|] eqn:Hnd|].
    2: { (* at the cut *)
      subst cur.
      destruct (stream_read_at_cut x fs f0 part rest n Hinv Hnd Hpart) as (out & e & x1 & Hr & Hcase).
      rewrite Hr. rewrite (next_data_payload_none fs Hnd). cbn [app].
      destruct Hcase as [(-> & -> & Hcl)|(th & lh & p & p1 & -> & Hpp & xp & Hpinv & Hcl & Hse & Hdl & Hrp)].
      - exists [], (Some (s_fin (x_src x))), x1, (fpayload f0). split; [reflexivity|]. split; [reflexivity|].
        split; [right; reflexivity|]. split; [exact Hcl|]. intros _ _. discriminate.
      - (* a DATA frame whose payload is cut: phase B, starting with this very read *)
        assert (Hsr : stream_read xp n = read_payload xp n).
        { unfold stream_read. destruct Hpinv as (Hrem & Hk & _). pose proof (zlen_nonneg p1).
          destruct (Z.eqb_spec (x_rem xp) 0); [lia|reflexivity]. }
        destruct (stream_reads_cut (n :: bufs) xp p1 (zlen rest) Hpinv) as (out2 & e2 & x2 & p1' & Hr2 & Hp2 & He2 & Hc2 & Hlive).
        cbn [stream_reads] in Hr2. rewrite Hsr, Hrp in Hr2. rewrite Hr2.
        exists out2, e2, x2, (p1' ++ rest). split; [reflexivity|].
        split; [cbn [fpayload]; rewrite Hpp, Hp2, app_assoc; reflexivity|].
        destruct Hse as [Hf _]. rewrite Hf in He2. split; [destruct He2 as [->|[-> _]]; auto|].
        split; [congruence|].
        intros Hpos Hl. apply Hlive; [exact Hpos|]. lia. }
    + (* a complete DATA frame is still ahead *)
      destruct (stream_read_stepT x cur fs part n Hinv) as (out & e & x1 & cur1 & fs1 & Hr & Hcase & Hpay & Hlen & Hq & Hprog & Hdl & _ & Hse).
      { right. left. congruence. }
      rewrite Hr. destruct Hpart as (Hp1 & Hp2 & Hp3 & Hp4).
      destruct Hcase as [[-> Hinv1]|(_ & _ & _ & Ht & _)]; [|congruence].
      destruct (IH x1 cur1 fs1 f0 part rest Hinv1 (conj Hp1 (conj Hp2 (conj Hp3 Hp4)))) as (out2 & e2 & x2 & tl & Hr2 & Hpay2 & He2 & Hc2 & Hlive).
      rewrite Hr2. exists (out ++ out2), e2, x2, tl. split; [reflexivity|].
      split. { rewrite app_assoc, Hpay. repeat rewrite <- app_assoc. rewrite Hpay2. reflexivity. }
      destruct Hq as (Hq1 & _). destruct Hse as [Hf _]. rewrite Hf in He2. split; [exact He2|].
      split; [congruence|].
      intros Hpos Hl. inversion Hpos; subst. apply Hlive; [assumption|].
      assert ((dlen x1 < dlen x)%nat) by (apply Hprog; auto). cbn [length] in Hl. lia.
    + (* inside a complete DATA frame *)
      destruct (stream_read_stepT x cur fs part n Hinv) as (out & e & x1 & cur1 & fs1 & Hr & Hcase & Hpay & Hlen & Hq & Hprog & Hdl & _ & Hse).
      { left. exact Hc. }
      rewrite Hr. destruct Hpart as (Hp1 & Hp2 & Hp3 & Hp4).
      destruct Hcase as [[-> Hinv1]|(_ & _ & _ & Ht & _)]; [|congruence].
      destruct (IH x1 cur1 fs1 f0 part rest Hinv1 (conj Hp1 (conj Hp2 (conj Hp3 Hp4)))) as (out2 & e2 & x2 & tl & Hr2 & Hpay2 & He2 & Hc2 & Hlive).
      rewrite Hr2. exists (out ++ out2), e2, x2, tl. split; [reflexivity|].
      split. { rewrite app_assoc, Hpay. repeat rewrite <- app_assoc. rewrite Hpay2. reflexivity. }
      destruct Hq as (Hq1 & _). destruct Hse as [Hf _]. rewrite Hf in He2. split; [exact He2|].
      split; [congruence|].
      intros Hpos Hl. inversion Hpos; subst. apply Hlive; [assumption|].
      assert ((dlen x1 < dlen x)%nat) by (apply Hprog; auto). cbn [length] in Hl. lia.
Qed.

(** What a reader of a truncated stream sees (current code): complete frames [fs], then the
    beginning [part] of one more frame [f0], then the end of the stream with terminal error [fin].
    The reads return a prefix of the DATA payloads and then EXACTLY [fin], the connection is
    left alone, and [fin] is reached. *)
Theorem truncation_outcome (fs : list wframe) (f0 : wframe) (part rest : list Z)
    (sched : list Z) (fin : err) (fw : bool) (maxHdr : Z) (bufs : list Z) :
  Forall wf_frame fs -> wf_frame f0 -> enc f0 = part ++ rest -> part <> [] -> rest <> [] ->
  (fin = EEOF \/ fw = false) ->
  exists out e x' tl,
    stream_reads (new_stream (mkSrc (wire fs ++ part) sched fin fw) maxHdr) bufs = (out, e, x') /\
    payload (fs ++ [f0]) = out ++ tl /\
    (e = None \/ e = Some fin) /\ x_closed x' = None /\
    (all_pos bufs -> (length (wire fs ++ part) < length bufs)%nat -> e = Some fin).
Proof.
  intros Hw Hwf Henc Hp Hr Hben.
  assert (Hinv : sinvT (new_stream (mkSrc (wire fs ++ part) sched fin fw) maxHdr) [] fs part).
  { repeat split; auto. }
  destruct (stream_reads_truncated bufs _ [] fs f0 part rest Hinv (conj Hwf (conj Henc (conj Hp Hr))))
    as (out & e & x' & tl & Hrd & Hpay & He & Hc & Hlive).
  exists out, e, x', tl. split; [exact Hrd|]. split.
  { unfold payload in *. rewrite map_app, concat_app. cbn [map concat app] in *. rewrite app_nil_r. exact Hpay. }
  cbn [x_src s_fin new_stream x_closed] in *. split; [exact He|]. split; [exact Hc|].
  intros Hpos Hl. specialize (Hlive Hpos Hl). destruct He as [E|E]; [congruence|exact E].
Qed.

(** The case that holds: a stream ERROR inside a frame is reported, never a clean EOF. *)
Corollary truncation_stream_error_reported (fs : list wframe) (f0 : wframe) (part rest : list Z)
    (sched : list Z) (a : Z) (maxHdr : Z) (bufs : list Z) :
  Forall wf_frame fs -> wf_frame f0 -> enc f0 = part ++ rest -> part <> [] -> rest <> [] ->
  exists out e x' tl,
    stream_reads (new_stream (mkSrc (wire fs ++ part) sched (EStream a) false) maxHdr) bufs = (out, e, x') /\
    payload (fs ++ [f0]) = out ++ tl /\
    (e = None \/ e = Some (EStream a)) /\ e <> Some EEOF /\
    (all_pos bufs -> (length (wire fs ++ part) < length bufs)%nat -> e = Some (EStream a)).
Proof.
  intros Hw Hwf Henc Hp Hr.
  destruct (truncation_outcome fs f0 part rest sched (EStream a) false maxHdr bufs Hw Hwf Henc Hp Hr (or_intror eq_refl))
    as (out & e & x' & tl & Hrd & Hpay & He & _ & Hlive).
  exists out, e, x', tl. split; [exact Hrd|]. split; [exact Hpay|]. split; [exact He|].
  split; [destruct He as [E|E]; rewrite E; discriminate|exact Hlive].
Qed.

(** The case that FAILS (finding h3/truncated-frame-clean-eof), in general form: after FIN inside
    a frame, at ANY cut, the reader sees a clean io.EOF and the connection is not closed. *)
Corollary truncation_fin_is_clean_eof (fs : list wframe) (f0 : wframe) (part rest : list Z)
    (sched : list Z) (fw : bool) (maxHdr : Z) (bufs : list Z) :
  Forall wf_frame fs -> wf_frame f0 -> enc f0 = part ++ rest -> part <> [] -> rest <> [] ->
  all_pos bufs -> (length (wire fs ++ part) < length bufs)%nat ->
  exists out x' tl,
    stream_reads (new_stream (mkSrc (wire fs ++ part) sched EEOF fw) maxHdr) bufs = (out, Some EEOF, x') /\
    payload (fs ++ [f0]) = out ++ tl /\ x_closed x' = None.
Proof.
  intros Hw Hwf Henc Hp Hr Hpos Hl.
  destruct (truncation_outcome fs f0 part rest sched EEOF fw maxHdr bufs Hw Hwf Henc Hp Hr (or_introl eq_refl))
    as (out & e & x' & tl & Hrd & Hpay & He & Hc & Hlive).
  rewrite (Hlive Hpos Hl) in Hrd. exists out, x', tl. auto.
Qed.

(** Refutation witness of "truncation is reported": a DATA frame announcing 100 bytes, 40 of them,
    FIN: the reader gets the 40 bytes and a clean EOF, nothing is closed. *)
Definition trunc_witness_payload : list Z := repeat 7 100.
Definition trunc_witness_frame : wframe := WData [0] [64; 100] trunc_witness_payload.

Lemma venc_2byte_100 : venc [64; 100] 100.
Proof. intros [|r rest]; reflexivity. Qed.

Lemma truncation_reported_witness :
  wf_frame trunc_witness_frame /\
  enc trunc_witness_frame = ([0; 64; 100] ++ repeat 7 40) ++ repeat 7 60 /\
  exists x', stream_reads (new_stream (mkSrc ([0; 64; 100] ++ repeat 7 40) [] EEOF false) 1000) [64; 64; 64]
             = (repeat 7 40, Some EEOF, x') /\ x_closed x' = None /\ x_rem x' = 60.
Proof.
  split. { split; [apply venc_1byte; lia|exact venc_2byte_100]. }
  split; [vm_compute; reflexivity|]. eexists. split; [vm_compute; reflexivity|]. split; reflexivity.
Qed.

(** * Any prefix of the wire image of a valid frame sequence, ended by FIN: always a clean EOF *)
Lemma wire_app (a b : list wframe) : wire (a ++ b) = wire a ++ wire b.
Proof. unfold wire. rewrite map_app, concat_app. reflexivity. Qed.
Lemma payload_app (a b : list wframe) : payload (a ++ b) = payload a ++ payload b.
Proof. unfold payload. rewrite map_app, concat_app. reflexivity. Qed.

Lemma prefix_split : forall (fs : list wframe) (d suf : list Z),
  wire fs = d ++ suf ->
  (exists fs1 fs2, fs = fs1 ++ fs2 /\ d = wire fs1) \/
  (exists fs1 f0 fs2 part rest, fs = fs1 ++ f0 :: fs2 /\ d = wire fs1 ++ part /\
                                enc f0 = part ++ rest /\ part <> [] /\ rest <> []).
Proof.
  induction fs as [|f fs IH]; intros d suf H.
  - left. exists [], []. split; [reflexivity|]. cbn in H. symmetry in H. apply app_eq_nil in H as [-> _]. reflexivity.
  - change (wire (f :: fs)) with (enc f ++ wire fs) in H.
    destruct (prefix_cases (enc f) (wire fs) d suf H) as [(a2 & Hf & Ha2)|(b1 & Hd & Hb1)].
    + destruct d as [|y d'].
      * left. exists [], (f :: fs). auto.
      * right. exists [], f, fs, (y :: d'), a2. repeat split; auto. discriminate.
    + destruct (IH b1 suf Hb1) as [(g1 & g2 & -> & ->)|(g1 & f0 & g2 & part & rest & -> & -> & He & Hp & Hr)].
      * left. exists (f :: g1), g2. split; [reflexivity|]. rewrite Hd. reflexivity.
      * right. exists (f :: g1), f0, g2, part, rest. repeat split; auto.
        rewrite Hd. change (wire (f :: g1)) with (enc f ++ wire g1). rewrite app_assoc. reflexivity.
Qed.

Theorem truncation_prefix_outcome (fs : list wframe) (d suf : list Z)
    (sched : list Z) (fw : bool) (maxHdr : Z) (bufs : list Z) :
  Forall wf_frame fs -> wire fs = d ++ suf ->
  exists out e x' tl,
    stream_reads (new_stream (mkSrc d sched EEOF fw) maxHdr) bufs = (out, e, x') /\
    payload fs = out ++ tl /\
    (e = None \/ e = Some EEOF) /\ x_closed x' = None /\
    (all_pos bufs -> (length d < length bufs)%nat -> e = Some EEOF).
Proof.
  intros Hw Hd.
  destruct (prefix_split fs d suf Hd) as [(fs1 & fs2 & -> & ->)|(fs1 & f0 & fs2 & part & rest & -> & -> & He & Hp & Hr)].
  - apply Forall_app in Hw as [Hw1 Hw2].
    destruct (data_exact fs1 sched fw maxHdr bufs Hw1) as (out & e & x' & tl & Hrd & Hpay & Hcase & Hc & _ & Hlive).
    exists out, e, x', (tl ++ payload fs2). split; [exact Hrd|].
    split; [rewrite payload_app, Hpay, app_assoc; reflexivity|]. split.
    { destruct Hcase as [->|[-> _]]; auto. }
    split; [exact Hc|exact Hlive].
  - apply Forall_app in Hw as [Hw1 Hw2]. inversion Hw2 as [|? ? Hwf Hw3]; subst.
    destruct (truncation_outcome fs1 f0 part rest sched EEOF fw maxHdr bufs Hw1 Hwf He Hp Hr (or_introl eq_refl))
      as (out & e & x' & tl & Hrd & Hpay & Hcase & Hc & Hlive).
    exists out, e, x', (tl ++ payload fs2). split; [exact Hrd|].
    split.
    { rewrite payload_app. change (f0 :: fs2) with ([f0] ++ fs2). rewrite payload_app, app_assoc, <- payload_app, Hpay, app_assoc. reflexivity. }
    auto.
Qed.
