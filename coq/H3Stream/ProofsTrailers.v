(** Stream.Read over a body followed by a TRAILER section (round 6, add-only): DATA / ignorable
    frames, then one HEADERS frame, then FIN. *)
From Coq Require Import List ZArith Bool Lia.
From V Require Import Gen.Params Lib.Hex Wire.Varint Wire.VarintProofs
  H3Stream.Model H3Stream.Proofs H3Stream.ProofsStream H3Stream.ProofsExact H3Stream.ProofsTrunc
  H3Stream.Conn H3Stream.ProofsConn.
Import ListNotations.
Open Scope Z_scope.

(** the trailer frame on the wire *)
Definition trailer_enc (th lh blk : list Z) : list Z := th ++ lh ++ blk.

(** At the trailer frame (all complete frames before it are ignorable or consumed): the read
    returns (0, nil), the block is handed to the trailer callback exactly once. *)
Lemma stream_read_at_trailer (x : stream) (fs : list wframe) (th lh blk : list Z) (blen : Z) :
  sinvT x [] fs (trailer_enc th lh blk) -> next_data fs = None ->
  venc th 1 -> venc lh (zlen blk) -> zlen blk <= x_maxHdr x -> s_fin (x_src x) = EEOF ->
  exists x', stream_read x blen = ([], None, x') /\
             x_trailers x' = x_trailers x ++ [blk] /\ x_trailer x' = true /\ x_rem x' = 0 /\
             x_closed x' = x_closed x /\ s_data (x_src x') = [] /\ s_fin (x_src x') = EEOF.
Proof.
  intros (Hrem & Hd & Hb & Htr & Hw) Hnd Ht Hl Hmax Hfin.
  cbn [app] in Hd. change (zlen (@nil Z)) with 0 in Hrem.
  unfold stream_read. rewrite Hrem. cbn [Z.eqb].
  assert (Hfuel : exists f, fuel_of (x_src x) = (length fs + S f)%nat).
  { unfold fuel_of. rewrite Hd, app_length. pose proof (length_wire_ge fs Hw).
    exists (length (wire fs) + length (trailer_enc th lh blk) - length fs)%nat. lia. }
  destruct Hfuel as (f & ->).
  destruct (parse_next_skip_igns fs f (x_src x) (x_closed x) (trailer_enc th lh blk) Hb Hw Hnd Hd) as (s1 & H1 & H2 & H3).
  rewrite H1.
  assert (H2' : s_data s1 = th ++ lh ++ blk ++ []) by (rewrite H2, app_nil_r; reflexivity).
  destruct (parse_next_headers f s1 (x_closed x) th lh (zlen blk) (blk ++ []) (benign_same_end _ _ H3 Hb) Ht Hl H2') as (s2 & Hp & Hd2 & Hse2).
  rewrite Hp. cbn [x_trailer set_closed set_src]. rewrite Htr.
  unfold trailer_cb. cbn [x_maxHdr set_trailer set_closed set_src x_src x_trailers].
  destruct (Z.gtb_spec (zlen blk) (x_maxHdr x)); [lia|].
  destruct (read_full_app (fuel_of s2) s2 blk [] [] Hd2) as (s3 & Hr & Hd3 & Hse3).
  { unfold fuel_of. rewrite Hd2, app_length. lia. }
  rewrite Hr. cbn [app]. eexists. split; [reflexivity|]. cbn.
  repeat split; auto.
  destruct H3 as [F1 _], Hse2 as [F2 _], Hse3 as [F3 _]. congruence.
Qed.

(** after the trailers, at the end of the stream: clean EOF *)
Lemma stream_read_after_trailer (x : stream) (blen : Z) :
  x_rem x = 0 -> s_data (x_src x) = [] -> s_fin (x_src x) = EEOF ->
  exists x', stream_read x blen = ([], Some EEOF, x') /\ x_trailers x' = x_trailers x /\ x_closed x' = x_closed x.
Proof.
  intros H0 Hd Hf. unfold stream_read, fuel_of. rewrite H0, Hd. cbn [Z.eqb length parse_next].
  rewrite read_varint_nil by exact Hd. rewrite Hf. eexists. split; [reflexivity|]. cbn. auto.
Qed.

Lemma stream_reads_with_trailer : forall (bufs : list Z) (x : stream) (cur : list Z) (fs : list wframe) (th lh blk : list Z),
  sinvT x cur fs (trailer_enc th lh blk) -> venc th 1 -> venc lh (zlen blk) -> zlen blk <= x_maxHdr x ->
  s_fin (x_src x) = EEOF ->
  exists out e x' tl,
    stream_reads x bufs = (out, e, x') /\ cur ++ payload fs = out ++ tl /\ x_closed x' = x_closed x /\
    ((e = None /\ (x_trailers x' = x_trailers x \/ (tl = [] /\ x_trailers x' = x_trailers x ++ [blk]))) \/
     (e = Some EEOF /\ tl = [] /\ x_trailers x' = x_trailers x ++ [blk])).
Proof.
  induction bufs as [|n bufs IH]; intros x cur fs th lh blk Hinv Ht Hl Hmax Hfin.
  - exists [], None, x, (cur ++ payload fs). cbn. split; [reflexivity|]. split; [reflexivity|]. split; [reflexivity|]. left. auto.
  - cbn [stream_reads].
    destruct (list_eq_dec Z.eq_dec cur []) as [Hc|Hc]; [destruct (next_data fs) as [[q r]|] eqn:Hnd|].
    2: { subst cur.
      destruct (stream_read_at_trailer x fs th lh blk n Hinv Hnd Ht Hl Hmax Hfin) as (x1 & Hr & Htr & Hflag & Hrem & Hcl & Hd & Hf).
      rewrite Hr. rewrite (next_data_payload_none fs Hnd). cbn [app].
      destruct bufs as [|n2 bufs].
      - cbn. exists [], None, x1, []. split; [reflexivity|]. split; [reflexivity|]. split; [exact Hcl|]. left. auto.
      - cbn [stream_reads]. destruct (stream_read_after_trailer x1 n2 Hrem Hd Hf) as (x2 & Hr2 & Htr2 & Hcl2).
        rewrite Hr2. exists [], (Some EEOF), x2, []. split; [reflexivity|]. split; [reflexivity|].
        split; [congruence|]. right. split; [reflexivity|]. split; [reflexivity|]. congruence. }
    + destruct (stream_read_stepT x cur fs (trailer_enc th lh blk) n Hinv) as (out & e & x1 & cur1 & fs1 & Hr & Hcase & Hpay & Hlen & Hq & Hprog & Hdl & _ & Hse).
      { right. left. congruence. }
      rewrite Hr.
      assert (Hne : trailer_enc th lh blk <> []).
      { unfold trailer_enc. intros E. apply app_eq_nil in E as [E _]. exact (venc_nonempty _ _ Ht E). }
      destruct Hcase as [[-> Hinv1]|(_ & _ & _ & Ht0 & _)]; [|congruence].
      destruct Hq as (Hq1 & Hq2 & _ & Hq4 & _). destruct Hse as [Hf1 _].
      destruct (IH x1 cur1 fs1 th lh blk Hinv1 Ht Hl ltac:(rewrite Hq4; exact Hmax) ltac:(congruence)) as (out2 & e2 & x2 & tl & Hr2 & Hpay2 & Hc2 & He2).
      rewrite Hr2. exists (out ++ out2), e2, x2, tl. split; [reflexivity|].
      split; [rewrite Hpay, Hpay2, app_assoc; reflexivity|]. split; [congruence|]. rewrite Hq2 in He2. exact He2.
    + destruct (stream_read_stepT x cur fs (trailer_enc th lh blk) n Hinv) as (out & e & x1 & cur1 & fs1 & Hr & Hcase & Hpay & Hlen & Hq & Hprog & Hdl & _ & Hse).
      { left. exact Hc. }
      rewrite Hr.
      assert (Hne : trailer_enc th lh blk <> []).
      { unfold trailer_enc. intros E. apply app_eq_nil in E as [E _]. exact (venc_nonempty _ _ Ht E). }
      destruct Hcase as [[-> Hinv1]|(_ & _ & _ & Ht0 & _)]; [|congruence].
      destruct Hq as (Hq1 & Hq2 & _ & Hq4 & _). destruct Hse as [Hf1 _].
      destruct (IH x1 cur1 fs1 th lh blk Hinv1 Ht Hl ltac:(rewrite Hq4; exact Hmax) ltac:(congruence)) as (out2 & e2 & x2 & tl & Hr2 & Hpay2 & Hc2 & He2).
      rewrite Hr2. exists (out ++ out2), e2, x2, tl. split; [reflexivity|].
      split; [rewrite Hpay, Hpay2, app_assoc; reflexivity|]. split; [congruence|]. rewrite Hq2 in He2. exact He2.
Qed.

(** DATA / ignorable frames, then ONE trailer HEADERS frame, then FIN: for every short-read
    schedule and buffer sequence the reads return a prefix of the DATA payloads; the trailer
    block is handed to the trailer callback only after ALL payload bytes, exactly once and byte
    for byte; the only error is EOF, and then payload and trailers are complete; no close. *)
Theorem data_exact_with_trailers (fs : list wframe) (th lh blk : list Z) (sched : list Z) (fw : bool) (maxHdr : Z) (bufs : list Z) :
  Forall wf_frame fs -> venc th 1 -> venc lh (zlen blk) -> zlen blk <= maxHdr ->
  exists out e x' tl,
    stream_reads (new_stream (mkSrc (wire fs ++ trailer_enc th lh blk) sched EEOF fw) maxHdr) bufs = (out, e, x') /\
    payload fs = out ++ tl /\ x_closed x' = None /\
    ((e = None /\ (x_trailers x' = [] \/ (tl = [] /\ x_trailers x' = [blk]))) \/
     (e = Some EEOF /\ tl = [] /\ x_trailers x' = [blk])).
Proof.
  intros Hw Ht Hl Hmax.
  assert (Hinv : sinvT (new_stream (mkSrc (wire fs ++ trailer_enc th lh blk) sched EEOF fw) maxHdr) [] fs (trailer_enc th lh blk)).
  { repeat split; auto. left. reflexivity. }
  destruct (stream_reads_with_trailer bufs _ [] fs th lh blk Hinv Ht Hl Hmax eq_refl) as (out & e & x' & tl & H1 & H2 & H3 & H4).
  exists out, e, x', tl. cbn [app x_closed x_trailers new_stream] in *. auto.
Qed.
