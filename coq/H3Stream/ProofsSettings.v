(** SETTINGS rules of parseSettingsFrame: duplicates, boolean settings, size limit. *)
From Coq Require Import List ZArith Bool Lia.
From V Require Import Gen.Params Lib.Hex Wire.Varint Wire.VarintProofs H3Stream.Model H3Stream.Proofs H3Stream.ProofsStream.
Import ListNotations.
Open Scope Z_scope.

Definition enc_pair (p : Z * Z) : list Z := vappend (fst p) ++ vappend (snd p).
Definition enc_pairs (ps : list (Z * Z)) : list Z := concat (map enc_pair ps).
Definition pair_ok (p : Z * Z) : Prop := 0 <= fst p <= maxVarInt8 /\ 0 <= snd p <= maxVarInt8.

(** The loop of parseSettingsFrame, over decoded (identifier, value) pairs. *)
Fixpoint settings_pairs (ps : list (Z * Z)) (fr : settings) (rm rd re : bool) : err + settings :=
  match ps with
  | [] => inr fr
  | (id, val) :: ps' =>
    if id =? h3SettingMaxFieldSectionSize then
      if rm then inl (ESettingsDup id)
      else settings_pairs ps' (mkSettings val (st_dg fr) (st_ec fr) (st_other fr)) true rd re
    else if id =? h3SettingExtendedConnect then
      if re then inl (ESettingsDup id)
      else if negb ((val =? 0) || (val =? 1)) then inl (ESettingsBool id)
      else settings_pairs ps' (mkSettings (st_mfs fr) (st_dg fr) (val =? 1) (st_other fr)) rm rd true
    else if id =? h3SettingDatagram then
      if rd then inl (ESettingsDup id)
      else if negb ((val =? 0) || (val =? 1)) then inl (ESettingsBool id)
      else settings_pairs ps' (mkSettings (st_mfs fr) (val =? 1) (st_ec fr) (st_other fr)) rm true re
    else if existsb (fun p => fst p =? id) (st_other fr) then inl (ESettingsDup id)
    else settings_pairs ps' (mkSettings (st_mfs fr) (st_dg fr) (st_ec fr) (st_other fr ++ [(id, val)])) rm rd re
  end.

Lemma settings_loop_pairs : forall (ps : list (Z * Z)) (fuel : nat) (fr : settings) (rm rd re : bool),
  Forall pair_ok ps -> (length ps < fuel)%nat ->
  settings_loop fuel (enc_pairs ps) fr rm rd re = settings_pairs ps fr rm rd re.
Proof.
  induction ps as [|[id val] ps IH]; intros fuel fr rm rd re Hok Hf.
  - destruct fuel; reflexivity.
  - destruct fuel as [|fuel]; [cbn in Hf; lia|]. cbn [length] in Hf.
    inversion Hok as [|? ? [Hid Hval] Hok']; subst. cbn [fst snd] in *.
    assert (E : enc_pairs ((id, val) :: ps) = vappend id ++ vappend val ++ enc_pairs ps).
    { unfold enc_pairs, enc_pair. cbn. rewrite <- app_assoc. reflexivity. }
    rewrite E. cbn [settings_loop settings_pairs].
    destruct (vappend id ++ vappend val ++ enc_pairs ps) as [|z l] eqn:El.
    { exfalso. apply app_eq_nil in El as [El _]. exact (venc_nonempty _ _ (venc_vappend id Hid) El). }
    rewrite <- El. rewrite vparse_vappend by exact Hid. rewrite vparse_vappend by exact Hval.
    rewrite !IH by (auto; lia). reflexivity.
Qed.

Lemma settings_payload_pairs (ps : list (Z * Z)) :
  Forall pair_ok ps ->
  settings_payload (enc_pairs ps) = settings_pairs ps (mkSettings (-1) false false []) false false false.
Proof.
  intros Hok. unfold settings_payload. apply settings_loop_pairs; [exact Hok|].
  assert (H : (length ps <= length (enc_pairs ps))%nat).
  { clear - Hok. induction Hok as [|[id val] ps [Hid _] _ IH]; [cbn; lia|].
    unfold enc_pairs, enc_pair in *. cbn [map concat length fst snd]. repeat rewrite app_length.
    pose proof (venc_nonempty _ _ (venc_vappend id Hid)) as Hne. destruct (vappend id); [congruence|].
    cbn [length]. lia. }
  lia.
Qed.

Definition bool_setting (id : Z) : Prop := id = h3SettingExtendedConnect \/ id = h3SettingDatagram.
Definition bools_valid (ps : list (Z * Z)) : Prop :=
  Forall (fun p => bool_setting (fst p) -> snd p = 0 \/ snd p = 1) ps.
Definition known_id (id : Z) : Prop :=
  id = h3SettingMaxFieldSectionSize \/ id = h3SettingExtendedConnect \/ id = h3SettingDatagram.

Lemma existsb_fst_false (id : Z) (l : list (Z * Z)) :
  existsb (fun p => fst p =? id) l = false -> ~ In id (map fst l).
Proof.
  induction l as [|[a b] l IH]; cbn; intros H; [tauto|].
  apply orb_false_iff in H as [H1 H2]. apply Z.eqb_neq in H1. intros [E|E]; [congruence|]. exact (IH H2 E).
Qed.
Lemma existsb_fst_true (id : Z) (l : list (Z * Z)) :
  existsb (fun p => fst p =? id) l = true -> In id (map fst l).
Proof.
  induction l as [|[a b] l IH]; cbn; intros H; [discriminate|].
  apply orb_true_iff in H as [H|H]; [left; apply Z.eqb_eq; exact H|right; auto].
Qed.

(** Accepted SETTINGS payloads have no duplicate identifier and valid booleans. *)
Lemma settings_pairs_sound : forall (ps : list (Z * Z)) (fr : settings) (rm rd re : bool) (fr' : settings),
  (forall id, In id (map fst (st_other fr)) -> ~ known_id id) ->
  settings_pairs ps fr rm rd re = inr fr' ->
  NoDup (map fst ps) /\ bools_valid ps /\
  (rm = true -> ~ In h3SettingMaxFieldSectionSize (map fst ps)) /\
  (re = true -> ~ In h3SettingExtendedConnect (map fst ps)) /\
  (rd = true -> ~ In h3SettingDatagram (map fst ps)) /\
  (forall id, In id (map fst (st_other fr)) -> ~ In id (map fst ps)).
Proof.
  unfold known_id, h3SettingMaxFieldSectionSize, h3SettingExtendedConnect, h3SettingDatagram.
  induction ps as [|[id val] ps IH]; intros fr rm rd re fr' Hoth H.
  - cbn. repeat split; auto using NoDup_nil; try constructor; intros; tauto.
  - cbn [settings_pairs] in H. unfold h3SettingMaxFieldSectionSize, h3SettingExtendedConnect, h3SettingDatagram in H.
    cbn [map fst].
    destruct (Z.eqb_spec id 6) as [E6|E6].
    { destruct rm; [discriminate|]. subst id.
      eapply IH in H; [|exact Hoth]. destruct H as (Hnd & Hb & Hm & He & Hd & Ho).
      repeat split.
      - constructor; auto.
      - constructor; [|exact Hb]. cbn. unfold bool_setting, h3SettingExtendedConnect, h3SettingDatagram. lia.
      - discriminate.
      - intros Ht [E|E]; [discriminate|]. exact (He Ht E).
      - intros Ht [E|E]; [discriminate|]. exact (Hd Ht E).
      - intros i Hi [E|E]; [subst i; apply (Hoth 6 Hi); auto|]. exact (Ho i Hi E). }
    destruct (Z.eqb_spec id 8) as [E8|E8].
    { destruct re; [discriminate|]. subst id.
      destruct (negb ((val =? 0) || (val =? 1))) eqn:Ev; [discriminate|].
      apply negb_false_iff, orb_true_iff in Ev.
      eapply IH in H; [|exact Hoth]. destruct H as (Hnd & Hb & Hm & He & Hd & Ho).
      repeat split.
      - constructor; auto.
      - constructor; [|exact Hb]. cbn. intros _. destruct Ev as [Ev|Ev]; apply Z.eqb_eq in Ev; auto.
      - intros Ht [E|E]; [discriminate|]. exact (Hm Ht E).
      - discriminate.
      - intros Ht [E|E]; [discriminate|]. exact (Hd Ht E).
      - intros i Hi [E|E]; [subst i; apply (Hoth 8 Hi); auto|]. exact (Ho i Hi E). }
    destruct (Z.eqb_spec id 51) as [E51|E51].
    { destruct rd; [discriminate|]. subst id.
      destruct (negb ((val =? 0) || (val =? 1))) eqn:Ev; [discriminate|].
      apply negb_false_iff, orb_true_iff in Ev.
      eapply IH in H; [|exact Hoth]. destruct H as (Hnd & Hb & Hm & He & Hd & Ho).
      repeat split.
      - constructor; auto.
      - constructor; [|exact Hb]. cbn. intros _. destruct Ev as [Ev|Ev]; apply Z.eqb_eq in Ev; auto.
      - intros Ht [E|E]; [discriminate|]. exact (Hm Ht E).
      - intros Ht [E|E]; [discriminate|]. exact (He Ht E).
      - discriminate.
      - intros i Hi [E|E]; [subst i; apply (Hoth 51 Hi); auto|]. exact (Ho i Hi E). }
    destruct (existsb (fun p => fst p =? id) (st_other fr)) eqn:Ex; [discriminate|].
    apply existsb_fst_false in Ex.
    assert (Hoth' : forall i, In i (map fst (st_other fr ++ [(id, val)])) -> ~ (i = 6 \/ i = 8 \/ i = 51)).
    { intros i Hi. rewrite map_app, in_app_iff in Hi. destruct Hi as [Hi|[Hi|[]]]; [exact (Hoth i Hi)|].
      cbn in Hi. subst i. lia. }
    eapply IH in H; [|exact Hoth']. destruct H as (Hnd & Hb & Hm & He & Hd & Ho). cbn [st_other] in Ho.
    repeat split.
    + constructor; [|exact Hnd]. apply Ho. rewrite map_app, in_app_iff. right. left. reflexivity.
    + constructor; [|exact Hb]. cbn. unfold bool_setting, h3SettingExtendedConnect, h3SettingDatagram. lia.
    + intros Ht [E|E]; [congruence|]. exact (Hm Ht E).
    + intros Ht [E|E]; [congruence|]. exact (He Ht E).
    + intros Ht [E|E]; [congruence|]. exact (Hd Ht E).
    + intros i Hi [E|E]; [subst i; exact (Ex Hi)|].
      apply (Ho i); [rewrite map_app, in_app_iff; left; exact Hi|exact E].
Qed.

Theorem settings_accept_sound (ps : list (Z * Z)) (fr : settings) :
  Forall pair_ok ps -> settings_payload (enc_pairs ps) = inr fr ->
  NoDup (map fst ps) /\ bools_valid ps.
Proof.
  intros Hok H. rewrite settings_payload_pairs in H by exact Hok.
  eapply settings_pairs_sound in H; [|intros i []]. destruct H as (H1 & H2 & _). auto.
Qed.

(** The first offending pair decides: a repeated identifier is "duplicate setting", a boolean
    setting with a value other than 0/1 is rejected. *)
Corollary settings_duplicate_rejected (ps : list (Z * Z)) (id : Z) (a b c : list (Z * Z)) (v1 v2 : Z) :
  Forall pair_ok ps -> ps = a ++ (id, v1) :: b ++ (id, v2) :: c ->
  exists e, settings_payload (enc_pairs ps) = inl e.
Proof.
  intros Hok E. destruct (settings_payload (enc_pairs ps)) as [e|fr] eqn:H; [eauto|].
  exfalso. destruct (settings_accept_sound ps fr Hok H) as [Hnd _].
  subst ps. rewrite map_app in Hnd. cbn [map fst] in Hnd. apply NoDup_remove_2 in Hnd.
  apply Hnd. rewrite in_app_iff. right. rewrite map_app. rewrite in_app_iff. right. left. reflexivity.
Qed.

Corollary settings_bad_bool_rejected (ps : list (Z * Z)) (id v : Z) :
  Forall pair_ok ps -> In (id, v) ps -> bool_setting id -> v <> 0 -> v <> 1 ->
  exists e, settings_payload (enc_pairs ps) = inl e.
Proof.
  intros Hok Hin Hb H0 H1. destruct (settings_payload (enc_pairs ps)) as [e|fr] eqn:H; [eauto|].
  exfalso. destruct (settings_accept_sound ps fr Hok H) as [_ Hbv].
  unfold bools_valid in Hbv. rewrite Forall_forall in Hbv. specialize (Hbv _ Hin Hb). cbn in Hbv. lia.
Qed.

(** Completeness: a payload without duplicates and with valid booleans is accepted. *)
Lemma settings_pairs_complete : forall (ps : list (Z * Z)) (fr : settings) (rm rd re : bool),
  NoDup (map fst ps) -> bools_valid ps ->
  (rm = true -> ~ In h3SettingMaxFieldSectionSize (map fst ps)) ->
  (re = true -> ~ In h3SettingExtendedConnect (map fst ps)) ->
  (rd = true -> ~ In h3SettingDatagram (map fst ps)) ->
  (forall id, In id (map fst (st_other fr)) -> ~ In id (map fst ps)) ->
  exists fr', settings_pairs ps fr rm rd re = inr fr'.
Proof.
  unfold h3SettingMaxFieldSectionSize, h3SettingExtendedConnect, h3SettingDatagram.
  induction ps as [|[id val] ps IH]; intros fr rm rd re Hnd Hb Hm He Hd Ho.
  - cbn. eauto.
  - cbn [settings_pairs]. unfold h3SettingMaxFieldSectionSize, h3SettingExtendedConnect, h3SettingDatagram.
    cbn [map fst] in *. inversion Hnd as [|? ? Hni Hnd']; subst. inversion Hb as [|? ? Hb1 Hb']; subst.
    cbn [fst snd] in Hb1. unfold bool_setting, h3SettingExtendedConnect, h3SettingDatagram in Hb1.
    destruct (Z.eqb_spec id 6) as [E6|E6].
    { subst id. destruct rm; [exfalso; apply Hm; auto; left; reflexivity|].
      apply IH; auto; try (intros Ht E; first [apply (He Ht)|apply (Hd Ht)]; right; exact E).
      intros i Hi E. apply (Ho i Hi). right. exact E. }
    destruct (Z.eqb_spec id 8) as [E8|E8].
    { subst id. destruct re; [exfalso; apply He; auto; left; reflexivity|].
      assert (Hv : negb ((val =? 0) || (val =? 1)) = false).
      { apply negb_false_iff, orb_true_iff. destruct (Hb1 ltac:(auto)) as [->| ->]; auto. }
      rewrite Hv.
      apply IH; auto; try (intros Ht E; first [apply (Hm Ht)|apply (Hd Ht)]; right; exact E).
      intros i Hi E. apply (Ho i Hi). right. exact E. }
    destruct (Z.eqb_spec id 51) as [E51|E51].
    { subst id. destruct rd; [exfalso; apply Hd; auto; left; reflexivity|].
      assert (Hv : negb ((val =? 0) || (val =? 1)) = false).
      { apply negb_false_iff, orb_true_iff. destruct (Hb1 ltac:(auto)) as [->| ->]; auto. }
      rewrite Hv.
      apply IH; auto; try (intros Ht E; first [apply (Hm Ht)|apply (He Ht)]; right; exact E).
      intros i Hi E. apply (Ho i Hi). right. exact E. }
    destruct (existsb (fun p => fst p =? id) (st_other fr)) eqn:Ex.
    { exfalso. apply existsb_fst_true in Ex. apply (Ho id Ex). left. reflexivity. }
    apply IH; auto; try (intros Ht E; first [apply (Hm Ht)|apply (He Ht)|apply (Hd Ht)]; right; exact E).
    cbn [st_other]. intros i Hi E. rewrite map_app, in_app_iff in Hi. destruct Hi as [Hi|[Hi|[]]].
    + apply (Ho i Hi). right. exact E.
    + cbn in Hi. subst i. exact (Hni E).
Qed.

Theorem settings_accept_complete (ps : list (Z * Z)) :
  Forall pair_ok ps -> NoDup (map fst ps) -> bools_valid ps ->
  exists fr, settings_payload (enc_pairs ps) = inr fr.
Proof.
  intros Hok Hnd Hb. rewrite settings_payload_pairs by exact Hok.
  apply settings_pairs_complete; auto; try discriminate.
Qed.

(** The size limit is checked before anything is read. *)
Lemma settings_oversize (s : src) (l : Z) : maxSettingsLen < l -> parse_settings s l = (inl ESettingsSize, s).
Proof. intros H. unfold parse_settings. destruct (Z.gtb_spec l maxSettingsLen); [reflexivity|lia]. Qed.

Lemma maxSettingsLen_value : maxSettingsLen = 8192.
Proof. reflexivity. Qed.

Lemma settings_rules :
  (forall ps, Forall pair_ok ps ->
     ((exists fr, settings_payload (enc_pairs ps) = inr fr) <-> (NoDup (map fst ps) /\ bools_valid ps))) /\
  (forall (s : src) (l : Z), 8192 < l -> parse_settings s l = (inl ESettingsSize, s)).
Proof.
  split.
  - intros ps Hok. split.
    + intros [fr H]. exact (settings_accept_sound ps fr Hok H).
    + intros [H1 H2]. exact (settings_accept_complete ps Hok H1 H2).
  - exact settings_oversize.
Qed.

(** * The values of an accepted SETTINGS frame *)
Definition pair_val (id : Z) (ps : list (Z * Z)) : option Z :=
  match find (fun p => fst p =? id) ps with Some p => Some (snd p) | None => None end.

Definition unknown_setting (p : Z * Z) : bool :=
  negb ((fst p =? h3SettingMaxFieldSectionSize) || (fst p =? h3SettingExtendedConnect) || (fst p =? h3SettingDatagram)).

Lemma pair_val_none (id : Z) (ps : list (Z * Z)) : ~ In id (map fst ps) -> pair_val id ps = None.
Proof.
  unfold pair_val. induction ps as [|[a b] ps IH]; cbn; intros H; [reflexivity|].
  destruct (Z.eqb_spec a id) as [E|E]; [exfalso; apply H; auto|]. apply IH. intros Hi. apply H. auto.
Qed.

Lemma settings_pairs_values : forall (ps : list (Z * Z)) (fr : settings) (rm rd re : bool) (fr' : settings),
  (forall id, In id (map fst (st_other fr)) -> ~ known_id id) ->
  settings_pairs ps fr rm rd re = inr fr' ->
  st_other fr' = st_other fr ++ filter unknown_setting ps /\
  st_mfs fr' = match pair_val h3SettingMaxFieldSectionSize ps with Some v => v | None => st_mfs fr end /\
  st_ec fr' = match pair_val h3SettingExtendedConnect ps with Some v => v =? 1 | None => st_ec fr end /\
  st_dg fr' = match pair_val h3SettingDatagram ps with Some v => v =? 1 | None => st_dg fr end.
Proof.
  induction ps as [|[id val] ps IH]; intros fr rm rd re fr' Hoth H.
  - cbn in H. inversion H; subst. cbn. rewrite app_nil_r. auto.
  - pose proof H as Hfull. cbn [settings_pairs] in H.
    unfold pair_val, unknown_setting, known_id, h3SettingMaxFieldSectionSize, h3SettingExtendedConnect, h3SettingDatagram in *.
    cbn [find filter fst snd].
    destruct (Z.eqb_spec id 6) as [E6|E6].
    { subst id. destruct rm; [discriminate|]. cbn [Z.eqb orb negb].
      pose proof H as H'. eapply settings_pairs_sound in H'; [|exact Hoth]. destruct H' as (_ & _ & Hm & _).
      unfold h3SettingMaxFieldSectionSize in Hm. specialize (Hm eq_refl).
      eapply IH in H; [|exact Hoth]. destruct H as (I1 & I2 & I3 & I4). cbn [st_other st_mfs st_ec st_dg] in *.
      fold (pair_val 6 ps) in I2. rewrite (pair_val_none 6 ps Hm) in I2. auto. }
    destruct (Z.eqb_spec id 8) as [E8|E8].
    { subst id. destruct re; [discriminate|]. cbn [Z.eqb orb negb].
      destruct (negb ((val =? 0) || (val =? 1))); [discriminate|].
      pose proof H as H'. eapply settings_pairs_sound in H'; [|exact Hoth]. destruct H' as (_ & _ & _ & He & _).
      unfold h3SettingExtendedConnect in He. specialize (He eq_refl).
      eapply IH in H; [|exact Hoth]. destruct H as (I1 & I2 & I3 & I4). cbn [st_other st_mfs st_ec st_dg] in *.
      fold (pair_val 8 ps) in I3. rewrite (pair_val_none 8 ps He) in I3. auto. }
    destruct (Z.eqb_spec id 51) as [E51|E51].
    { subst id. destruct rd; [discriminate|]. cbn [Z.eqb orb negb].
      destruct (negb ((val =? 0) || (val =? 1))); [discriminate|].
      pose proof H as H'. eapply settings_pairs_sound in H'; [|exact Hoth]. destruct H' as (_ & _ & _ & _ & Hd & _).
      unfold h3SettingDatagram in Hd. specialize (Hd eq_refl).
      eapply IH in H; [|exact Hoth]. destruct H as (I1 & I2 & I3 & I4). cbn [st_other st_mfs st_ec st_dg] in *.
      fold (pair_val 51 ps) in I4. rewrite (pair_val_none 51 ps Hd) in I4. auto. }
    cbn [orb negb].
    destruct (existsb (fun p => fst p =? id) (st_other fr)) eqn:Ex; [discriminate|].
    assert (Hoth' : forall i, In i (map fst (st_other fr ++ [(id, val)])) -> ~ (i = 6 \/ i = 8 \/ i = 51)).
    { intros i Hi. rewrite map_app, in_app_iff in Hi. destruct Hi as [Hi|[Hi|[]]]; [exact (Hoth i Hi)|].
      cbn in Hi. subst i. lia. }
    eapply IH in H; [|exact Hoth']. destruct H as (I1 & I2 & I3 & I4). cbn [st_other st_mfs st_ec st_dg] in *.
    rewrite <- app_assoc in I1. auto.
Qed.

Theorem settings_values (ps : list (Z * Z)) (fr : settings) :
  Forall pair_ok ps -> settings_payload (enc_pairs ps) = inr fr ->
  st_other fr = filter unknown_setting ps /\
  st_mfs fr = match pair_val h3SettingMaxFieldSectionSize ps with Some v => v | None => -1 end /\
  st_ec fr = match pair_val h3SettingExtendedConnect ps with Some v => v =? 1 | None => false end /\
  st_dg fr = match pair_val h3SettingDatagram ps with Some v => v =? 1 | None => false end.
Proof.
  intros Hok H. rewrite settings_payload_pairs in H by exact Hok.
  eapply settings_pairs_values in H; [exact H|intros i []].
Qed.

(** * SETTINGS and GOAWAY through ParseNext *)
Lemma parse_next_settings_frame (f : nat) (s : src) (cl : option Z) (th lh pl rest : list Z) (fr : settings) :
  benign s -> venc th 4 -> venc lh (zlen pl) -> zlen pl <= maxSettingsLen ->
  settings_payload pl = inr fr -> s_data s = th ++ lh ++ pl ++ rest ->
  exists s', parse_next (S f) s cl = (inr (FSettings fr), s', cl) /\ s_data s' = rest.
Proof.
  intros Hb Ht Hl Hlen Hp Hd.
  destruct (read_header s th lh 4 (zlen pl) (pl ++ rest) Hb Ht Hl Hd) as (s1 & s2 & H1 & H2 & H3 & H4).
  destruct (read_full_app (fuel_of s2) s2 pl rest [] H3) as (s3 & H5 & H6 & _).
  { unfold fuel_of. rewrite H3, app_length. lia. }
  cbn [parse_next]. rewrite H1, H2. cbn [Z.eqb Pos.eqb].
  unfold parse_settings. destruct (Z.gtb_spec (zlen pl) maxSettingsLen); [lia|].
  rewrite H5. cbn [app]. rewrite Hp. eauto.
Qed.

Lemma parse_next_goaway_frame (f : nat) (s : src) (cl : option Z) (th lh ie rest : list Z) (l id : Z) :
  benign s -> venc th 7 -> venc lh l -> venc ie id -> s_data s = th ++ lh ++ ie ++ rest ->
  exists s', parse_next (S f) s cl =
               ((if zlen ie =? l then inr (FGoaway id) else inl EGoawayLen), s', cl) /\ s_data s' = rest.
Proof.
  intros Hb Ht Hl Hi Hd.
  destruct (read_header s th lh 7 l (ie ++ rest) Hb Ht Hl Hd) as (s1 & s2 & H1 & H2 & H3 & H4).
  destruct (read_varint_venc s2 ie id rest (benign_same_end _ _ H4 Hb) Hi H3) as (s3 & H5 & H6 & _).
  cbn [parse_next]. rewrite H1, H2. cbn [Z.eqb Pos.eqb].
  unfold parse_goaway. rewrite H5. exists s3. split; [|exact H6].
  destruct (zlen ie =? l); reflexivity.
Qed.

Lemma settings_goaway_through_parser :
  (forall (f : nat) (s : src) (cl : option Z) (th lh rest : list Z) (ps : list (Z * Z)) (fr : settings),
     benign s -> venc th 4 -> venc lh (zlen (enc_pairs ps)) -> zlen (enc_pairs ps) <= 8192 -> Forall pair_ok ps ->
     settings_payload (enc_pairs ps) = inr fr -> s_data s = th ++ lh ++ enc_pairs ps ++ rest ->
     (exists s', parse_next (S f) s cl = (inr (FSettings fr), s', cl) /\ s_data s' = rest) /\
     st_other fr = filter unknown_setting ps /\
     st_mfs fr = match pair_val h3SettingMaxFieldSectionSize ps with Some v => v | None => -1 end /\
     st_ec fr = match pair_val h3SettingExtendedConnect ps with Some v => v =? 1 | None => false end /\
     st_dg fr = match pair_val h3SettingDatagram ps with Some v => v =? 1 | None => false end) /\
  (forall (f : nat) (s : src) (cl : option Z) (th lh ie rest : list Z) (l id : Z),
     benign s -> venc th 7 -> venc lh l -> venc ie id -> s_data s = th ++ lh ++ ie ++ rest ->
     exists s', parse_next (S f) s cl =
                  ((if zlen ie =? l then inr (FGoaway id) else inl EGoawayLen), s', cl) /\ s_data s' = rest).
Proof.
  split.
  - intros f s cl th lh rest ps fr Hb Ht Hl Hlen Hok Hp Hd. split.
    + exact (parse_next_settings_frame f s cl th lh (enc_pairs ps) rest fr Hb Ht Hl Hlen Hp Hd).
    + exact (settings_values ps fr Hok Hp).
  - exact parse_next_goaway_frame.
Qed.
