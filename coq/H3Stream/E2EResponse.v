(** Composition, response direction (round 6, add-only): ONE response carried over a reliable
    ordered byte stream.  C19's response writer->parser agreement (V.Props.C19, read-only) + this
    unit's frame parser, io.ReadFull, Stream.Read/Write exactness and body (Content-Length) theorems.
    Hypotheses, stated explicitly: the QPACK round trip; the QUIC stream = the byte source of
    Model.v (reliable, ordered, arbitrary chunking, clean FIN: C01/C03's contract); the block fits
    the client's header limit; the handler's writes reach the stream as Stream.Write calls.
    _partial: response TRAILERS are not included ([wframe] has no HEADERS constructor). *)
From Coq Require Import List ZArith Bool Lia.
From V Require Import Gen.Params Lib.Hex Wire.Varint Wire.VarintProofs
  H3Stream.Model H3Stream.Proofs H3Stream.ProofsStream H3Stream.ProofsExact H3Stream.ProofsBody
  H3Stream.Conn H3Stream.ProofsConn.
From V Require H3Headers.Model H3Headers.Spec H3Writers.Model H3Writers.ProofsE2E Props.C19 H3Stream.E2EStrings.
Import ListNotations.
Open Scope Z_scope.

Module HM := V.H3Headers.Model.
Module HS := V.H3Headers.Spec.
Module WM := V.H3Writers.Model.
Module WE := V.H3Writers.ProofsE2E.

Lemma body_wire_is_wire (chunks : list (list Z)) :
  concat (x_written (stream_writes (new_stream (mkSrc [] [] EEOF false) 0) chunks)) = wire (map data_frame chunks).
Proof. rewrite stream_writes_wire by reflexivity. reflexivity. Qed.

Section OneResponse.
  Variable qenc : list HM.field -> list Z.
  Variable qdec : list Z -> list HM.field.
  Hypothesis qpack_roundtrip : forall fs, qdec (qenc fs) = fs.

  Theorem one_response_end_to_end_partial :
    forall (status : Z) (h : WM.gomap) (lim : Z) (chunks : list (list Z))
           (sched : list Z) (fw : bool) (maxHdr : Z) (bufs : list Z),
    100 <= status <= 999 -> 0 <= lim -> HS.section_size (WM.rsp_fields status h) <= lim ->
    let block := qenc (WM.rsp_fields status h) in
    zlen block <= maxVarInt8 -> Forall (fun b => zlen b <= maxVarInt8) chunks ->
    let body_wire := concat (x_written (stream_writes (new_stream (mkSrc [] [] EEOF false) 0) chunks)) in
    let response_wire := vappend 1 ++ vappend (zlen block) ++ block ++ body_wire in
    (* 1. what RequestStream.ReadResponse does first: ParseNext delivers the HEADERS frame with the
          block's length, io.ReadFull of that many bytes delivers exactly the server's block and
          leaves the stream at the first body frame -- for every short-read schedule *)
    (exists hl s1 s2,
       parse_next (S (length response_wire)) (mkSrc response_wire sched EEOF fw) None
         = (inr (FHeaders (zlen block) hl), s1, None) /\
       read_full (fuel_of s1) s1 (zlen block) [] = (inr block, s2) /\ s_data s2 = body_wire) /\
    (* 2. the *http.Response built from the block: exactly the status the handler wrote, the declared
          Content-Length, and every header field as written (C19, unconditional) *)
    (exists r, HM.updateResponseFromHeaders lim (qdec block) false = inr r /\
       HM.rsCode r = status /\ HM.rsCL r = HM.hCL (HS.hdr_of (WM.rsp_fields status h)) /\
       (forall n, HM.token_ok n = true -> HM.lower_ok n = true ->
                  n <> V.H3Stream.E2EStrings.n_content_length -> n <> V.H3Stream.E2EStrings.n_trailer ->
                  HM.hget (HM.canon n) (HM.rsHeader r) = WE.opt_values (WE.rsp_expected h n))) /\
    (* 3a. the body the client reads is the body the handler wrote, for every chunking on both sides
           (no Content-Length needed) *)
    (exists out e x' tl,
       stream_reads (new_stream (mkSrc body_wire sched EEOF fw) maxHdr) bufs = (out, e, x') /\
       concat chunks = out ++ tl /\ (e = None \/ (e = Some EEOF /\ tl = [])) /\
       (all_pos bufs -> (length body_wire < length bufs)%nat -> e = Some EEOF)) /\
    (* 3b. with the Content-Length of the body declared: the same through body.Read, clean EOF,
           neither direction reset *)
    (forall nc, exists out e b' tl,
       body_reads (new_body (new_stream (mkSrc body_wire sched EEOF fw) maxHdr) (zlen (concat chunks)) nc) bufs = (out, e, b') /\
       concat chunks = out ++ tl /\ (e = None \/ (e = Some EEOF /\ tl = [])) /\ b_cancels b' = [] /\
       (all_pos bufs -> (length body_wire < length bufs)%nat -> e = Some EEOF)) /\
    (* 3c. responses that never carry content (to HEAD; 1xx, 204, 304): whatever Content-Length the
           handler declared, an empty body ends with a clean EOF and nothing is reset *)
    (chunks = [] -> forall cl, 0 <= cl -> exists e b',
       body_reads (new_body (new_stream (mkSrc body_wire sched EEOF fw) maxHdr) cl true) bufs = ([], e, b') /\
       (e = None \/ e = Some EEOF) /\ b_cancels b' = [] /\
       (all_pos bufs -> (0 < length bufs)%nat -> e = Some EEOF)).
  Proof.
    intros status h lim chunks sched fw maxHdr bufs Hst Hl0 Hsz block Hb Hc body_wire response_wire.
    assert (Hbw : body_wire = wire (map data_frame chunks)) by apply body_wire_is_wire.
    assert (Hwf : Forall wf_frame (map data_frame chunks)).
    { apply Forall_map. eapply Forall_impl; [|exact Hc]. intros b. apply data_frame_wf. }
    split.
    { assert (Hben : benign (mkSrc response_wire sched EEOF fw)) by (left; reflexivity).
      destruct (parse_next_headers (length response_wire) (mkSrc response_wire sched EEOF fw) None
                  (vappend 1) (vappend (zlen block)) (zlen block) (block ++ body_wire) Hben) as (s1 & Hp & Hd1 & Hse).
      { apply venc_vappend. unfold maxVarInt8. lia. }
      { apply venc_vappend. pose proof (zlen_nonneg block). lia. }
      { reflexivity. }
      destruct (read_full_app (fuel_of s1) s1 block body_wire [] Hd1) as (s2 & Hr & Hd2 & _).
      { unfold fuel_of. rewrite Hd1, app_length. lia. }
      exists (zlen (vappend 1) + zlen (vappend (zlen block))), s1, s2. auto. }
    split.
    { unfold block. rewrite qpack_roundtrip.
      destruct (V.Props.C19.C19_writer_parser_agree_response status h lim Hst Hsz) as (r & H1 & H2 & H3).
      exists r. split; [exact H1|]. split; [exact H2|]. split; [exact H3|].
      intros n Hn1 Hn2 Hn3 Hn4.
      exact (V.Props.C19.C19_writer_parser_agree_response_headers status h lim r n Hl0 H1 Hn1 Hn2 Hn3 Hn4). }
    split.
    { destruct (read_write_id chunks sched fw maxHdr bufs Hc) as (out & e & x' & tl & H1 & H2 & H3 & H4).
      exists out, e, x', tl. auto. }
    split.
    { intros nc. rewrite Hbw.
      destruct (content_length_exact (map data_frame chunks) sched fw maxHdr nc bufs Hwf) as (out & e & b' & tl & H1 & H2 & H3 & H4 & H5).
      rewrite payload_data_frames in *. exists out, e, b', tl. auto. }
    intros -> cl Hcl. rewrite Hbw. cbn [map].
    destruct (content_length_no_content [] sched fw maxHdr cl bufs (Forall_nil _)) as (out & e & b' & tl & H1 & H2 & H3 & H4 & H5).
    { cbn. exact Hcl. }
    change (payload []) with (@nil Z) in H2. symmetry in H2. apply app_eq_nil in H2 as [-> ->].
    exists e, b'. split; [exact H1|]. split; [destruct H3 as [->|[-> _]]; auto|]. split; [exact H4|].
    intros Hp Hl. apply H5; [exact Hp|]. cbn. exact Hl.
  Qed.
End OneResponse.
