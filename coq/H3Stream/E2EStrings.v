(** Header names used by the response composition (string literals need String's scope). *)
From Coq Require Import String.
From V Require H3Headers.Model.
Open Scope string_scope.
Definition n_content_length := V.H3Headers.Model.bs "content-length".
Definition n_trailer := V.H3Headers.Model.bs "trailer".
