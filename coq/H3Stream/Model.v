(** Model of the HTTP/3 per-stream core (property C18):
      http3/frames.go   frameParser.ParseNext, parseSettingsFrame, parseGoAwayFrame
      http3/stream.go   Stream.Read, Stream.Write
      http3/body.go     body.Read, checkContentLengthViolation
    over an abstract byte source (the quic stream) that may return arbitrary short reads.

    The byte source is a fixed byte string followed by a terminal error.  Its k-th Read call
    that delivers data returns at most [max 1 c_k] bytes where [c_k] is the k-th element of the
    schedule [s_sched] (an oracle input; unlimited when the schedule is used up), so every
    behaviour of an io.Reader that returns at least one byte per call is some schedule.
    [s_finWith] says whether the terminal error accompanies the last bytes (as quic's
    ReceiveStream does for io.EOF) or comes with a separate zero-byte read.

    Executable definitions only. *)
From Coq Require Import List ZArith Bool.
From V Require Import Gen.Params Lib.Hex Wire.Varint.
Import ListNotations.
Open Scope Z_scope.

(** Error classes (what the Go harness maps errors to). *)
Inductive err :=
| EEOF                       (* io.EOF *)
| EStream (a : Z)            (* *quic.StreamError as returned by the stream; a = 2*code+remote *)
| EH3 (a : Z)                (* *http3.Error produced by maybeReplaceError *)
| ETooMuchData               (* errTooMuchData *)
| EDataAfterTrailers
| EHeadersAfterTrailers
| EUnexpectedFrame
| EReserved (t : Z)
| ESettingsSize
| ESettingsDup (id : Z)
| ESettingsBool (id : Z)
| EGoawayLen
| EUnexpectedEOF             (* io.ErrUnexpectedEOF *)
| ETrailerTooLarge           (* the trailer callback's size check *)
| ETruncated                 (* an error that Is io.EOF without being io.EOF: not produced by the current code *)
| EFuel.                     (* model artefact; excluded by the theorems, never produced on real inputs *)

Definition is_eof (e : err) : bool := match e with EEOF => true | _ => false end.
Definition oerr_is_eof (e : option err) : bool := match e with Some e' => is_eof e' | None => false end.

(** * The byte source *)
Record src := mkSrc { s_data : list Z; s_sched : list Z; s_fin : err; s_finWith : bool }.

(** One call of the underlying Read with a buffer of [m] bytes. *)
Definition src_read (s : src) (m : Z) : list Z * option err * src :=
  match s_data s with
  | [] => ([], Some (s_fin s), s)
  | _ :: _ =>
    if m <=? 0 then ([], None, s) else
    let c := match s_sched s with [] => m | c :: _ => Z.max 1 c end in
    let n := Z.to_nat (Z.min m c) in
    let rest := skipn n (s_data s) in
    (firstn n (s_data s),
     match rest with [] => if s_finWith s then Some (s_fin s) else None | _ :: _ => None end,
     mkSrc rest (tl (s_sched s)) (s_fin s) (s_finWith s))
  end.

(** quicvarint.byteReader.ReadByte: a one-byte Read; io.EOF delivered with the byte is dropped. *)
Definition read_byte (s : src) : (err + Z) * src :=
  match src_read s 1 with
  | (b :: _, None, s') => (inr b, s')
  | (b :: _, Some e, s') => if is_eof e then (inr b, s') else (inl e, s')
  | ([], Some e, s') => (inl e, s')
  | ([], None, s') => (inl EFuel, s')
  end.

Fixpoint read_bytes (n : nat) (s : src) (acc : Z) : (err + Z) * src :=
  match n with
  | O => (inr acc, s)
  | S n' => match read_byte s with
            | (inl e, s') => (inl e, s')
            | (inr b, s') => read_bytes n' s' (acc * 256 + b)
            end
  end.

(** quicvarint.Read over the byte reader: value and number of bytes consumed. *)
Definition read_varint (s : src) : (err + (Z * Z)) * src :=
  match read_byte s with
  | (inl e, s') => (inl e, s')
  | (inr first, s') =>
    let k := first / 64 in
    let n : nat := if k =? 0 then 0%nat else if k =? 1 then 1%nat else if k =? 2 then 3%nat else 7%nat in
    match read_bytes n s' (first mod 64) with
    | (inl e, s'') => (inl e, s'')
    | (inr v, s'') => (inr (v, Z.of_nat (S n)), s'')
    end
  end.

(** io.CopyN(io.Discard, r, l): reads min(8192, remaining) until done; nil iff exactly l bytes
    were discarded (whatever error came with the last of them). *)
Definition discardBuf : Z := 8192.

Fixpoint skip (fuel : nat) (s : src) (remaining : Z) : option err * src :=
  if remaining <=? 0 then (None, s) else
  match fuel with
  | O => (Some EFuel, s)
  | S f =>
    let '(out, e, s') := src_read s (Z.min discardBuf remaining) in
    let rem' := remaining - zlen out in
    match e with
    | None => skip f s' rem'
    | Some e' => if rem' <=? 0 then (None, s') else (Some e', s')
    end
  end.

(** io.ReadFull(r, make([]byte, want)). *)
Fixpoint read_full (fuel : nat) (s : src) (want : Z) (acc : list Z) : (err + list Z) * src :=
  if want <=? 0 then (inr acc, s) else
  match fuel with
  | O => (inl EFuel, s)
  | S f =>
    let '(out, e, s') := src_read s want in
    let acc' := acc ++ out in
    let want' := want - zlen out in
    match e with
    | None => read_full f s' want' acc'
    | Some e' =>
      if want' <=? 0 then (inr acc', s')
      else (inl (if is_eof e' && negb (match acc' with [] => true | _ => false end) then EUnexpectedEOF else e'), s')
    end
  end.

Definition fuel_of (s : src) : nat := S (length (s_data s)).

(** * Frames *)
Record settings := mkSettings { st_mfs : Z; st_dg : bool; st_ec : bool; st_other : list (Z * Z) }.

Inductive frame :=
| FData (l : Z)
| FHeaders (l hl : Z)
| FSettings (s : settings)
| FGoaway (id : Z).

Definition maxSettingsLen : Z := 8 * 1024.

(** The loop of parseSettingsFrame over the frame's payload (a bytes.Reader: every varint
    read error is io.EOF). *)
Fixpoint settings_loop (fuel : nat) (b : list Z) (fr : settings) (rm rd re : bool) : err + settings :=
  match b with
  | [] => inr fr
  | _ :: _ =>
    match fuel with
    | O => inl EFuel
    | S f =>
      match vparse b with
      | inl _ => inl EEOF
      | inr (id, _, b1) =>
        match vparse b1 with
        | inl _ => inl EEOF
        | inr (val, _, b2) =>
          if id =? h3SettingMaxFieldSectionSize then
            if rm then inl (ESettingsDup id)
            else settings_loop f b2 (mkSettings val (st_dg fr) (st_ec fr) (st_other fr)) true rd re
          else if id =? h3SettingExtendedConnect then
            if re then inl (ESettingsDup id)
            else if negb ((val =? 0) || (val =? 1)) then inl (ESettingsBool id)
            else settings_loop f b2 (mkSettings (st_mfs fr) (st_dg fr) (val =? 1) (st_other fr)) rm rd true
          else if id =? h3SettingDatagram then
            if rd then inl (ESettingsDup id)
            else if negb ((val =? 0) || (val =? 1)) then inl (ESettingsBool id)
            else settings_loop f b2 (mkSettings (st_mfs fr) (val =? 1) (st_ec fr) (st_other fr)) rm true re
          else if existsb (fun p => fst p =? id) (st_other fr) then inl (ESettingsDup id)
          else settings_loop f b2 (mkSettings (st_mfs fr) (st_dg fr) (st_ec fr) (st_other fr ++ [(id, val)])) rm rd re
        end
      end
    end
  end.

Definition settings_payload (b : list Z) : err + settings :=
  settings_loop (S (length b)) b (mkSettings (-1) false false []) false false false.

Definition parse_settings (s : src) (l : Z) : (err + frame) * src :=
  if l >? maxSettingsLen then (inl ESettingsSize, s) else
  match read_full (fuel_of s) s l [] with
  | (inl e, s') => (inl (match e with EUnexpectedEOF => EEOF | _ => e end), s')
  | (inr buf, s') =>
    match settings_payload buf with
    | inl e => (inl e, s')
    | inr fr => (inr (FSettings fr), s')
    end
  end.

Definition parse_goaway (s : src) (l : Z) : (err + frame) * src :=
  match read_varint s with
  | (inl e, s') => (inl e, s')
  | (inr (id, n), s') => if n =? l then (inr (FGoaway id), s') else (inl EGoawayLen, s')
  end.

Definition reserved_type (t : Z) : bool := (t =? 2) || (t =? 6) || (t =? 8) || (t =? 9).

(** quic.Conn.CloseWithError keeps the first error only. *)
Definition close_conn (cl : option Z) (code : Z) : option Z :=
  match cl with Some c => Some c | None => Some code end.

(** frameParser.ParseNext.  [cl] = the application error the connection was closed with.
    NB the end of the stream INSIDE a frame (partial varint, partial skipped / SETTINGS / GOAWAY
    payload) surfaces as the stream's plain io.EOF, exactly like the end at a frame boundary
    (the repair that distinguishes the two is pinned by a baseline test and not in /repo:
    fixes/not-applied/C18-truncated-frame.patch). *)
Fixpoint parse_next (fuel : nat) (s : src) (cl : option Z) : (err + frame) * src * option Z :=
  match fuel with
  | O => (inl EFuel, s, cl)
  | S f =>
    match read_varint s with
    | (inl e, s1) => (inl e, s1, cl)
    | (inr (t, n1), s1) =>
      match read_varint s1 with
      | (inl e, s2) => (inl e, s2, cl)
      | (inr (l, n2), s2) =>
        if t =? 0 then (inr (FData l), s2, cl)
        else if t =? 1 then (inr (FHeaders l (n1 + n2)), s2, cl)
        else if t =? 4 then (parse_settings s2 l, cl)
        else if t =? 7 then (parse_goaway s2 l, cl)
        else if reserved_type t then (inl (EReserved t), s2, close_conn cl h3ErrCodeFrameUnexpected)
        else match skip (fuel_of s2) s2 l with
             | (Some e, s3) => (inl e, s3, cl)
             | (None, s3) => parse_next f s3 cl
             end
      end
    end
  end.

(** * Stream *)
Record stream := mkStream {
  x_src : src;
  x_rem : Z;                      (* bytesRemainingInFrame *)
  x_trailer : bool;               (* parsedTrailer *)
  x_closed : option Z;            (* connection closed with this application error *)
  x_trailers : list (list Z);     (* header blocks handed to parseTrailer *)
  x_maxHdr : Z;                   (* the trailer callback's size limit (decodeTrailers) *)
  x_written : list (list Z);      (* underlying Write calls *)
  x_wfail : Z                     (* oracle: the k-th underlying Write fails (0 = never) *)
}.

Definition set_src (x : stream) (s : src) : stream :=
  mkStream s (x_rem x) (x_trailer x) (x_closed x) (x_trailers x) (x_maxHdr x) (x_written x) (x_wfail x).
Definition set_rem (x : stream) (r : Z) : stream :=
  mkStream (x_src x) r (x_trailer x) (x_closed x) (x_trailers x) (x_maxHdr x) (x_written x) (x_wfail x).
Definition set_closed (x : stream) (c : option Z) : stream :=
  mkStream (x_src x) (x_rem x) (x_trailer x) c (x_trailers x) (x_maxHdr x) (x_written x) (x_wfail x).
Definition set_trailer (x : stream) (blks : list (list Z)) : stream :=
  mkStream (x_src x) (x_rem x) true (x_closed x) blks (x_maxHdr x) (x_written x) (x_wfail x).
Definition set_written (x : stream) (w : list (list Z)) : stream :=
  mkStream (x_src x) (x_rem x) (x_trailer x) (x_closed x) (x_trailers x) (x_maxHdr x) w (x_wfail x).

(** The tail of Stream.Read: read at most min(len b, bytesRemainingInFrame) payload bytes. *)
(** The tail of Stream.Read: read at most min(len b, bytesRemainingInFrame) payload bytes.
    An io.EOF that arrives while bytesRemainingInFrame > 0 is passed on unchanged. *)
Definition read_payload (x : stream) (blen : Z) : list Z * option err * stream :=
  let m := if x_rem x <? blen then x_rem x else blen in
  let '(out, e, s') := src_read (x_src x) m in
  (out, e, set_rem (set_src x s') (x_rem x - zlen out)).

(** The trailer callback (decodeTrailers up to QPACK): size check, io.ReadFull of the block. *)
Definition trailer_cb (x : stream) (l : Z) : option err * stream :=
  if l >? x_maxHdr x then (Some ETrailerTooLarge, x) else
  match read_full (fuel_of (x_src x)) (x_src x) l [] with
  | (inl e, s') => (Some e, set_src x s')
  | (inr blk, s') => (None, set_trailer (set_src x s') (x_trailers x ++ [blk]))
  end.

Definition stream_read (x : stream) (blen : Z) : list Z * option err * stream :=
  if x_rem x =? 0 then
    match parse_next (fuel_of (x_src x)) (x_src x) (x_closed x) with
    | (inl e, s', cl) => ([], Some e, set_closed (set_src x s') cl)
    | (inr f, s', cl) =>
      let x1 := set_closed (set_src x s') cl in
      match f with
      | FData l =>
        if x_trailer x1 then ([], Some EDataAfterTrailers, x1)
        else read_payload (set_rem x1 l) blen
      | FHeaders l _ =>
        if x_trailer x1 then ([], Some EHeadersAfterTrailers, x1)
        else let '(e, x2) := trailer_cb (set_trailer x1 (x_trailers x1)) l in ([], e, x2)
      | _ => ([], Some EUnexpectedFrame, set_closed x1 (close_conn (x_closed x1) h3ErrCodeFrameUnexpected))
      end
    end
  else read_payload x blen.

(** dataFrame.Append *)
Definition data_header (n : Z) : list Z := vappend 0 ++ vappend n.

Definition stream_error_on_write : err := EStream (2 * 268 + 1).

(** Stream.Write: two underlying writes, header then payload. Result: (n, error). *)
Definition stream_write (x : stream) (b : list Z) : Z * option err * stream :=
  let k := Z.of_nat (length (x_written x)) in
  if x_wfail x =? k + 1 then (0, Some stream_error_on_write, set_written x (x_written x ++ [[]]))
  else
    let w1 := x_written x ++ [data_header (zlen b)] in
    if x_wfail x =? k + 2 then (0, Some stream_error_on_write, set_written x (w1 ++ [[]]))
    else (zlen b, None, set_written x (w1 ++ [b])).

(** * Body *)
Record body := mkBody {
  b_str : stream;
  b_rem : Z;                 (* remainingContentLength *)
  b_has : bool;              (* hasContentLength *)
  b_violated : bool;         (* violatedContentLength *)
  b_cancels : list (Z * Z);  (* (0 = CancelRead | 1 = CancelWrite, code) in call order *)
  b_nocontent : bool         (* noContentExpected: response to HEAD, 1xx / 204 / 304 response *)
}.

Definition new_body (x : stream) (cl : Z) (nc : bool) : body :=
  if 0 <=? cl then mkBody x cl true false [] nc else mkBody x 0 false false [] nc.

Definition reset_message_error (b : body) : body :=
  if b_violated b then b
  else mkBody (b_str b) (b_rem b) (b_has b) true
         (b_cancels b ++ [(0, h3ErrCodeMessageError); (1, h3ErrCodeMessageError)]) (b_nocontent b).

Definition check_cl (b : body) : option err * body :=
  if negb (b_has b) then (None, b)
  else if (b_rem b <? 0) || ((b_rem b =? 0) && (0 <? x_rem (b_str b))) then
    (Some ETooMuchData, reset_message_error b)
  else (None, b).

Definition replace_error (e : err) : err := match e with EStream a => EH3 a | _ => e end.

(** body.Read (repaired code): too much data => errTooMuchData; the stream ends (io.EOF) while
    bytes of the declared Content-Length are still owed and the message is expected to carry
    content => io.ErrUnexpectedEOF, both directions reset once with H3_MESSAGE_ERROR. *)
Definition body_read (b : body) (blen : Z) : list Z * option err * body :=
  match check_cl b with
  | (Some e, b') => ([], Some e, b')
  | (None, _) =>
    let blen' := if b_has b then Z.min blen (b_rem b) else blen in
    let '(out, e, x') := stream_read (b_str b) blen' in
    let b1 := mkBody x' (b_rem b - zlen out) (b_has b) (b_violated b) (b_cancels b) (b_nocontent b) in
    match check_cl b1 with
    | (Some e', b2) => (out, Some e', b2)
    | (None, _) =>
      if oerr_is_eof e && b_has b1 && (0 <? b_rem b1) && negb (b_nocontent b1)
      then (out, Some EUnexpectedEOF, reset_message_error b1)
      else (out, option_map replace_error e, b1)
    end
  end.

(** * Drivers: a caller that keeps reading with buffers of the given sizes until an error *)
Definition new_stream (s : src) (maxHdr : Z) : stream := mkStream s 0 false None [] maxHdr [] 0.

Fixpoint stream_reads (x : stream) (bufs : list Z) : list Z * option err * stream :=
  match bufs with
  | [] => ([], None, x)
  | n :: bufs' =>
    let '(out, e, x') := stream_read x n in
    match e with
    | Some _ => (out, e, x')
    | None => let '(out2, e2, x2) := stream_reads x' bufs' in (out ++ out2, e2, x2)
    end
  end.

Fixpoint body_reads (b : body) (bufs : list Z) : list Z * option err * body :=
  match bufs with
  | [] => ([], None, b)
  | n :: bufs' =>
    let '(out, e, b') := body_read b n in
    match e with
    | Some _ => (out, e, b')
    | None => let '(out2, e2, b2) := body_reads b' bufs' in (out ++ out2, e2, b2)
    end
  end.

Fixpoint stream_writes (x : stream) (bs : list (list Z)) : stream :=
  match bs with
  | [] => x
  | b :: bs' => let '(_, _, x') := stream_write x b in stream_writes x' bs'
  end.
